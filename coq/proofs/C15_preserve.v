(* C15: _from_packets_try_preserve.  When the packet lengths equal those of the old run the pages returned have the
   old layout (sequence, continued, complete, position, per-page packet lengths) and reassemble to exactly the packets
   given; otherwise the call is from_packets(packets, old_pages[0].sequence). *)
From Coq Require Import ZArith List Bool Lia.
Import ListNotations.
Require Import Base.Py Base.ZList Model.Crc Model.Ogg Proofs.C15_lacing Proofs.C15_unpage Proofs.C15_paging Proofs.C15_from_packets.
Open Scope Z_scope.

Definition lens (l : list (list Z)) : list Z := map (@zlen Z) l.

(* ---- lengths and concatenation determine a packet list ------------------------------------------ *)
Lemma lens_concat_len a : forall b, lens a = lens b -> zlen (concat a) = zlen (concat b).
Proof.
  induction a as [|x a IH]; intros [|y b] H; try discriminate; [reflexivity|].
  cbn [lens map] in H. injection H as Hx Hr. cbn [concat]. rewrite !zlen_app, Hx, (IH b Hr). reflexivity.
Qed.

Lemma lens_concat_inj a : forall b, lens a = lens b -> concat a = concat b -> a = b.
Proof.
  induction a as [|x a IH]; intros [|y b] H Hc; try discriminate; [reflexivity|].
  cbn [lens map] in H. injection H as Hx Hr. cbn [concat] in Hc.
  assert (Hxy : x = y).
  { rewrite <- (ztake_app_exact x (concat a)), Hc, Hx. apply ztake_app_exact. }
  subst y. apply app_inv_head in Hc. f_equal. apply IH; assumption.
Qed.

Lemma lens_app a b : lens (a ++ b) = lens a ++ lens b.
Proof. apply map_app. Qed.

Lemma lens_nil_inv a : lens a = [] -> a = [].
Proof. destruct a; [reflexivity|discriminate]. Qed.

(* ---- app_last / unpage_step depend on the data only through lengths and concatenation ----------- *)
Lemma lens_app_last a : forall a' f f', lens a = lens a' -> zlen f = zlen f' -> lens (app_last a f) = lens (app_last a' f').
Proof.
  induction a as [|x a IH]; intros [|x' a'] f f' H Hf; try discriminate.
  - cbn. rewrite Hf. reflexivity.
  - cbn [lens map] in H. injection H as Hx Hr. destruct a as [|y a]; destruct a' as [|y' a']; try discriminate.
    + cbn. rewrite !zlen_app, Hx, Hf. reflexivity.
    + change (app_last (x :: y :: a) f) with (x :: app_last (y :: a) f).
      change (app_last (x' :: y' :: a') f') with (x' :: app_last (y' :: a') f').
      cbn [lens map]. rewrite Hx. f_equal. apply IH; assumption.
Qed.

Lemma concat_app_last a f : a <> [] -> concat (app_last a f) = concat a ++ f.
Proof.
  induction a as [|x a IH]; [contradiction|]. intros _. destruct a as [|y a].
  - cbn. rewrite !app_nil_r. reflexivity.
  - change (app_last (x :: y :: a) f) with (x :: app_last (y :: a) f). cbn [concat].
    rewrite IH by discriminate. cbn [concat]. rewrite !app_assoc. reflexivity.
Qed.

Definition same_shape (p q : page) : Prop :=
  p_sequence p = p_sequence q /\ continued p = continued q /\ lens (p_packets p) = lens (p_packets q).

Lemma lens_unpage_step acc acc' p p' : lens acc = lens acc' -> same_shape p p' ->
  lens (unpage_step acc p) = lens (unpage_step acc' p').
Proof.
  intros Ha (_ & Hc & Hp). unfold unpage_step. rewrite <- Hc.
  destruct (p_packets p) as [|f o]; destruct (p_packets p') as [|f' o']; try discriminate; [exact Ha|].
  cbn [lens map] in Hp. injection Hp as Hf Ho. rewrite !lens_app. unfold lens at 2 4. rewrite Ho. f_equal.
  destruct (continued p).
  - apply lens_app_last; assumption.
  - rewrite !lens_app. cbn [lens map]. rewrite Ha, Hf. reflexivity.
Qed.

Lemma concat_unpage_step acc p : (continued p = true -> p_packets p <> [] -> acc <> []) ->
  concat (unpage_step acc p) = concat acc ++ concat (p_packets p).
Proof.
  intros H. unfold unpage_step. destruct (p_packets p) as [|f o]; [rewrite app_nil_r; reflexivity|].
  rewrite concat_app. cbn [concat]. destruct (continued p).
  - rewrite concat_app_last by (apply H; [reflexivity|discriminate]). rewrite app_assoc. reflexivity.
  - rewrite concat_app. cbn [concat]. rewrite app_nil_r, app_assoc. reflexivity.
Qed.

(* ---- tp_step / tp_loop: what a successful run says ---------------------------------------------- *)
Lemma tp_step_inv serial sq acc p st' : tp_step serial (sq, acc) p = Ok st' ->
  st' = (sq + 1, unpage_step acc p) /\ p_serial p = serial /\ p_sequence p = sq /\
  (continued p = true -> p_packets p <> [] -> acc <> []).
Proof.
  unfold tp_step, unpage_step.
  destruct (serial =? p_serial p) eqn:E1; cbn [negb]; [|discriminate].
  destruct (sq =? p_sequence p) eqn:E2; cbn [negb]; [|discriminate].
  apply Z.eqb_eq in E1, E2.
  destruct (p_packets p) as [|f o].
  - intros H; injection H as <-. repeat split; auto; intros; congruence.
  - destruct (continued p).
    + destruct acc as [|a0 acc]; [discriminate|]. intros H; injection H as <-. repeat split; auto; intros; discriminate.
    + intros H; injection H as <-. repeat split; auto; intros; discriminate.
Qed.

Lemma tp_step_ok' serial sq acc p : p_serial p = serial -> p_sequence p = sq ->
  (continued p = true -> p_packets p <> [] -> acc <> []) ->
  tp_step serial (sq, acc) p = Ok (sq + 1, unpage_step acc p).
Proof.
  intros <- <- Hc. unfold tp_step, unpage_step. rewrite !Z.eqb_refl. cbn [negb].
  destruct (p_packets p) as [|f o]; [reflexivity|].
  destruct (continued p); [|reflexivity].
  destruct acc; [exfalso; apply Hc; [reflexivity|discriminate|reflexivity]|reflexivity].
Qed.

(* pages of one run, related position by position *)
Lemma tp_loop_shape olds : forall news serial sq acc acc' st,
  Forall2 same_shape news olds -> Forall (fun p => p_serial p = 0) news -> lens acc' = lens acc ->
  tp_loop serial (sq, acc) olds = Ok st ->
  concat (snd st) = concat acc ++ concat (concat (map p_packets olds)) /\
  exists out', tp_loop 0 (sq, acc') news = Ok (fst st, out') /\ lens out' = lens (snd st) /\
               concat out' = concat acc' ++ concat (concat (map p_packets news)).
Proof.
  induction olds as [|o olds IH]; intros news serial sq acc acc' st HF HS Ha H.
  - inversion HF; subst. cbn in H. injection H as <-. cbn. rewrite !app_nil_r. split; [reflexivity|].
    exists acc'. repeat split; auto.
  - inversion HF as [|n o' news' olds' Hno HF']; subst. inversion HS as [|n' news'' Hn0 HS']; subst.
    cbn [tp_loop] in H. destruct (tp_step serial (sq, acc) o) as [st1|e] eqn:E; [|discriminate].
    apply tp_step_inv in E. destruct E as (-> & Hser & Hsq & Hne).
    assert (Hne' : continued n = true -> p_packets n <> [] -> acc' <> []).
    { destruct Hno as (_ & Hc & Hp). intros Hcn Hpn. rewrite Hc in Hcn.
      assert (Hpo : p_packets o <> []) by (intros Ho; rewrite Ho in Hp; apply lens_nil_inv in Hp; contradiction).
      specialize (Hne Hcn Hpo). intros Hz; subst acc'. symmetry in Ha. apply lens_nil_inv in Ha. contradiction. }
    assert (Hstep : tp_step 0 (sq, acc') n = Ok (sq + 1, unpage_step acc' n)).
    { apply tp_step_ok'; [exact Hn0|destruct Hno as (Hs & _); lia|exact Hne']. }
    destruct (IH news' serial (sq + 1) (unpage_step acc o) (unpage_step acc' n) st HF' HS'
                 (lens_unpage_step acc' acc n o Ha Hno) H) as (Hc1 & out' & Hl & Hlen & Hc2).
    split.
    + rewrite Hc1, (concat_unpage_step acc o Hne). cbn [map concat]. rewrite concat_app, !app_assoc. reflexivity.
    + exists out'. cbn [tp_loop]. rewrite Hstep. repeat split; auto.
      rewrite Hc2, (concat_unpage_step acc' n Hne'). cbn [map concat]. rewrite concat_app, !app_assoc. reflexivity.
Qed.

Lemma tp_loop_concat olds : forall serial sq acc st,
  tp_loop serial (sq, acc) olds = Ok st ->
  concat (snd st) = concat acc ++ concat (concat (map p_packets olds)).
Proof.
  induction olds as [|o olds IH]; intros serial sq acc st H.
  - cbn in H. injection H as <-. cbn. rewrite app_nil_r. reflexivity.
  - cbn [tp_loop] in H. destruct (tp_step serial (sq, acc) o) as [st1|e] eqn:E; [|discriminate].
    apply tp_step_inv in E. destruct E as (-> & _ & _ & Hne).
    rewrite (IH _ _ _ _ H), (concat_unpage_step acc o Hne). cbn [map concat]. rewrite concat_app, !app_assoc. reflexivity.
Qed.

(* ---- the copy loop ------------------------------------------------------------------------------ *)
Lemma take_like_spec olds : forall data, zlen (concat olds) <= zlen data ->
  lens (fst (take_like olds data)) = lens olds /\
  concat (fst (take_like olds data)) ++ snd (take_like olds data) = data.
Proof.
  induction olds as [|o olds IH]; intros data H.
  - cbn. split; reflexivity.
  - cbn [concat] in H. rewrite zlen_app in H. pose proof (zlen_nonneg o). pose proof (zlen_nonneg (concat olds)).
    cbn [take_like]. destruct (take_like olds (zdrop (zlen o) data)) as [ps rest] eqn:E.
    assert (Hd : zlen (concat olds) <= zlen (zdrop (zlen o) data)) by (rewrite zlen_zdrop by lia; lia).
    destruct (IH _ Hd) as (Hl & Hc). rewrite E in Hl, Hc. cbn [fst snd] in *. split.
    + cbn [lens map]. f_equal; [rewrite zlen_ztake by lia; lia|exact Hl].
    + cbn [concat]. rewrite <- app_assoc, Hc. apply ztake_zdrop.
Qed.

(* the page built by the loop body from `old` *)
Definition same_layout (n o : page) : Prop :=
  p_serial n = 0 /\ p_sequence n = p_sequence o /\ continued n = continued o /\ p_complete n = p_complete o /\
  p_position n = p_position o /\ first n = false /\ last_flag n = false /\ lens (p_packets n) = lens (p_packets o).

Definition page_total (l : list page) : Z := zlen (concat (concat (map p_packets l))).

Lemma preserve_loop_spec olds : forall data, page_total olds <= zlen data ->
  Forall2 same_layout (fst (preserve_loop olds data)) olds /\
  concat (concat (map p_packets (fst (preserve_loop olds data)))) ++ snd (preserve_loop olds data) = data.
Proof.
  induction olds as [|o olds IH]; intros data H.
  - cbn. split; [constructor|reflexivity].
  - unfold page_total in H. cbn [map concat] in H. rewrite concat_app, zlen_app in H.
    pose proof (zlen_nonneg (concat (p_packets o))). pose proof (zlen_nonneg (concat (concat (map p_packets olds)))).
    cbn [preserve_loop]. destruct (take_like (p_packets o) data) as [pk data'] eqn:E.
    destruct (take_like_spec (p_packets o) data ltac:(lia)) as (Hl & Hc). rewrite E in Hl, Hc. cbn [fst snd] in Hl, Hc.
    destruct (preserve_loop olds data') as [ps rest] eqn:E2.
    assert (Hd : page_total olds <= zlen data').
    { unfold page_total. rewrite <- Hc, zlen_app in H. rewrite (lens_concat_len pk (p_packets o) Hl) in H. lia. }
    destruct (IH _ Hd) as (HF & Hc2). rewrite E2 in HF, Hc2. cbn [fst snd] in *. split.
    + constructor; [|exact HF]. unfold same_layout. fields.
      repeat split; try reflexivity; try exact Hl; unfold continued, first, last_flag, test_flag, set_continued, set_flag, new_page; fields;
        destruct (Z.testbit (p_flags o) 0); reflexivity.
    + cbn [map concat]. fields. rewrite concat_app, <- app_assoc, Hc2. exact Hc.
Qed.

Lemma same_layout_total news olds : Forall2 same_layout news olds -> page_total news = page_total olds.
Proof.
  unfold page_total. induction 1 as [|n o news olds Hno HF IH]; [reflexivity|].
  cbn [map concat]. rewrite !concat_app, !zlen_app, IH. f_equal. apply lens_concat_len. apply Hno.
Qed.

Lemma same_layout_shape news olds : Forall2 same_layout news olds ->
  Forall2 same_shape news olds /\ Forall (fun p => p_serial p = 0) news.
Proof.
  induction 1 as [|n o news olds Hno HF (IH1 & IH2)]; [split; constructor|].
  destruct Hno as (H0 & Hs & Hc & _ & _ & _ & _ & Hl). split; constructor; auto. repeat split; assumption.
Qed.

(* ---- _from_packets_try_preserve ----------------------------------------------------------------- *)
Theorem try_preserve_same packets olds oldp :
  to_packets false olds = Ok oldp -> lens packets = lens oldp ->
  exists news, from_packets_try_preserve packets olds = Ok news /\ Forall2 same_layout news olds /\
               to_packets false news = Ok packets.
Proof.
  intros Hold Hlen. unfold from_packets_try_preserve. rewrite Hold.
  assert (Heq : list_eqb (map (@zlen Z) packets) (map (@zlen Z) oldp) = true) by (apply list_eqb_spec; exact Hlen).
  rewrite Heq. cbn [negb].
  destruct olds as [|p0 r]; [discriminate|].
  unfold to_packets in Hold.
  set (acc0 := if continued p0 then [[]] else []) in *.
  destruct (tp_loop (p_serial p0) (p_sequence p0, acc0) (p0 :: r)) as [st|e] eqn:Eloop; [|discriminate].
  cbn [rmap] in Hold. injection Hold as Hst.
  assert (Hacc0 : concat acc0 = []) by (unfold acc0; destruct (continued p0); reflexivity).
  pose proof (tp_loop_concat _ _ _ _ _ Eloop) as Hcat. rewrite Hacc0, Hst in Hcat. cbn [app] in Hcat.
  assert (Htot : page_total (p0 :: r) = zlen (concat packets)).
  { unfold page_total. rewrite <- Hcat. symmetry. apply lens_concat_len. exact Hlen. }
  destruct (preserve_loop_spec (p0 :: r) (concat packets) ltac:(lia)) as (HF & Hc).
  destruct (preserve_loop (p0 :: r) (concat packets)) as [ps rest] eqn:Ep. cbn [fst snd] in HF, Hc.
  assert (Hrest : rest = []).
  { pose proof (same_layout_total _ _ HF) as Ht. unfold page_total in Ht, Htot.
    assert (Hz : zlen rest = 0) by (rewrite <- Hc, zlen_app in Htot; lia).
    destruct rest; [reflexivity|]. rewrite zlen_cons in Hz. pose proof (zlen_nonneg rest). lia. }
  subst rest. rewrite app_nil_r in Hc. exists ps. split; [reflexivity|]. split; [exact HF|].
  destruct (same_layout_shape _ _ HF) as (HS & H0).
  inversion HF as [|n0 p0' ps' r' Hn0 HF']; subst.
  destruct Hn0 as (Hser & Hseq & Hcont & _).
  destruct (tp_loop_shape (p0 :: r) (n0 :: ps') (p_serial p0) (p_sequence p0) acc0 acc0 st HS H0 eq_refl Eloop)
    as (_ & out' & Hl' & Hlens & Hcat').
  unfold to_packets. rewrite Hcont, Hser, Hseq. fold acc0. rewrite Hl'. cbn [rmap snd]. f_equal.
  apply lens_concat_inj.
  - rewrite Hlens. symmetry. exact Hlen.
  - rewrite Hcat', Hacc0, Hc. reflexivity.
Qed.

Theorem try_preserve_fallback packets olds oldp :
  to_packets false olds = Ok oldp -> lens packets <> lens oldp ->
  exists o r, olds = o :: r /\ from_packets_try_preserve packets olds = from_packets 4096 2048 packets (p_sequence o).
Proof.
  intros Hold Hlen. unfold from_packets_try_preserve. rewrite Hold.
  destruct (list_eqb (map (@zlen Z) packets) (map (@zlen Z) oldp)) eqn:E.
  - apply list_eqb_spec in E. contradiction.
  - cbn [negb]. destruct olds as [|o r]; [discriminate|]. exists o, r. split; reflexivity.
Qed.

Lemma to_packets_strict_lax pages ps : to_packets true pages = Ok ps -> to_packets false pages = Ok ps.
Proof.
  destruct pages as [|p0 r]; [discriminate|]. unfold to_packets.
  destruct (continued p0); [discriminate|]. destruct (negb (p_complete (last (p0 :: r) p0))); [discriminate|]. exact (fun H => H).
Qed.

(* whatever the relation between the new packets and the old run: the pages returned reassemble to the packets given *)
Theorem try_preserve_roundtrip packets olds oldp :
  to_packets false olds = Ok oldp -> packets <> [] ->
  exists news, from_packets_try_preserve packets olds = Ok news /\ to_packets false news = Ok packets.
Proof.
  intros Hold Hne. destruct (list_eq_dec Z.eq_dec (lens packets) (lens oldp)) as [E|E].
  - destruct (try_preserve_same packets olds oldp Hold E) as (news & H1 & _ & H2). exists news. split; assumption.
  - destruct (try_preserve_fallback packets olds oldp Hold E) as (o & r & _ & H1).
    destruct (from_packets_spec packets (p_sequence o) 4096 2048 ltac:(lia) Hne) as (pages & Hp & Ht & _).
    exists pages. rewrite H1. split; [exact Hp|apply to_packets_strict_lax; exact Ht].
Qed.
