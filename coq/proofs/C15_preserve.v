(* C15: _from_packets_try_preserve.  When the packet lengths equal those of the old run the pages returned have the
   old layout (sequence, continued, complete, position, per-page packet lengths) and reassemble to exactly the packets
   given; otherwise the call is from_packets(packets, old_pages[0].sequence). *)
From Coq Require Import ZArith List Bool Lia.
Import ListNotations.
Require Import Base.Py Base.ZList Model.Crc Model.Ogg Proofs.C15_lacing Proofs.C15_unpage.
Open Scope Z_scope.

Definition lens (l : list (list Z)) : list Z := map (@zlen Z) l.

(* ---- lengths and concatenation determine a packet list ------------------------------------------ *)
Lemma lens_concat_len a : forall b, lens a = lens b -> zlen (concat a) = zlen (concat b).
Proof.
  induction a as [|x a IH]; intros [|y b] H; try discriminate; [reflexivity|].
  cbn [lens map] in H. injection H as Hx Hr. cbn [concat]. rewrite !zlen_app, Hx, (IH b Hr). reflexivity.
Qed.

Lemma lens_concat_inj a : forall b, lens a = lens b -> concat a = concat b -> a = b.
Proof.
  induction a as [|x a IH]; intros [|y b] H Hc; try discriminate; [reflexivity|].
  cbn [lens map] in H. injection H as Hx Hr. cbn [concat] in Hc.
  assert (Hxy : x = y).
  { rewrite <- (ztake_app_exact x (concat a)), Hc, Hx. apply ztake_app_exact. }
  subst y. apply app_inv_head in Hc. f_equal. apply IH; assumption.
Qed.

Lemma lens_app a b : lens (a ++ b) = lens a ++ lens b.
Proof. apply map_app. Qed.

Lemma lens_nil_inv a : lens a = [] -> a = [].
Proof. destruct a; [reflexivity|discriminate]. Qed.

(* ---- app_last / unpage_step depend on the data only through lengths and concatenation ----------- *)
Lemma lens_app_last a : forall a' f f', lens a = lens a' -> zlen f = zlen f' -> lens (app_last a f) = lens (app_last a' f').
Proof.
  induction a as [|x a IH]; intros [|x' a'] f f' H Hf; try discriminate.
  - cbn. rewrite Hf. reflexivity.
  - cbn [lens map] in H. injection H as Hx Hr. destruct a as [|y a]; destruct a' as [|y' a']; try discriminate.
    + cbn. rewrite !zlen_app, Hx, Hf. reflexivity.
    + change (app_last (x :: y :: a) f) with (x :: app_last (y :: a) f).
      change (app_last (x' :: y' :: a') f') with (x' :: app_last (y' :: a') f').
      cbn [lens map]. rewrite Hx. f_equal. apply IH; assumption.
Qed.

Lemma concat_app_last a f : a <> [] -> concat (app_last a f) = concat a ++ f.
Proof.
  induction a as [|x a IH]; [contradiction|]. intros _. destruct a as [|y a].
  - cbn. rewrite !app_nil_r. reflexivity.
  - change (app_last (x :: y :: a) f) with (x :: app_last (y :: a) f). cbn [concat].
    rewrite IH by discriminate. cbn [concat]. rewrite !app_assoc. reflexivity.
Qed.

Definition same_shape (p q : page) : Prop :=
  p_sequence p = p_sequence q /\ continued p = continued q /\ lens (p_packets p) = lens (p_packets q).

Lemma lens_unpage_step acc acc' p p' : lens acc = lens acc' -> same_shape p p' ->
  lens (unpage_step acc p) = lens (unpage_step acc' p').
Proof.
  intros Ha (_ & Hc & Hp). unfold unpage_step. rewrite <- Hc.
  destruct (p_packets p) as [|f o]; destruct (p_packets p') as [|f' o']; try discriminate; [exact Ha|].
  cbn [lens map] in Hp. injection Hp as Hf Ho. rewrite !lens_app. unfold lens at 2 4. rewrite Ho. f_equal.
  destruct (continued p).
  - apply lens_app_last; assumption.
  - rewrite !lens_app. cbn [lens map]. rewrite Ha, Hf. reflexivity.
Qed.

Lemma concat_unpage_step acc p : (continued p = true -> p_packets p <> [] -> acc <> []) ->
  concat (unpage_step acc p) = concat acc ++ concat (p_packets p).
Proof.
  intros H. unfold unpage_step. destruct (p_packets p) as [|f o]; [rewrite app_nil_r; reflexivity|].
  rewrite concat_app. cbn [concat]. destruct (continued p).
  - rewrite concat_app_last by (apply H; [reflexivity|discriminate]). rewrite app_assoc. reflexivity.
  - rewrite concat_app. cbn [concat]. rewrite app_nil_r, app_assoc. reflexivity.
Qed.

(* ---- tp_step / tp_loop: what a successful run says ---------------------------------------------- *)
Lemma tp_step_inv serial sq acc p st' : tp_step serial (sq, acc) p = Ok st' ->
  st' = (sq + 1, unpage_step acc p) /\ p_serial p = serial /\ p_sequence p = sq /\
  (continued p = true -> p_packets p <> [] -> acc <> []).
Proof.
  unfold tp_step, unpage_step.
  destruct (serial =? p_serial p) eqn:E1; cbn [negb]; [|discriminate].
  destruct (sq =? p_sequence p) eqn:E2; cbn [negb]; [|discriminate].
  apply Z.eqb_eq in E1, E2.
  destruct (p_packets p) as [|f o].
  - intros H; injection H as <-. repeat split; auto; intros; congruence.
  - destruct (continued p).
    + destruct acc as [|a0 acc]; [discriminate|]. intros H; injection H as <-. repeat split; auto; intros; discriminate.
    + intros H; injection H as <-. repeat split; auto; intros; discriminate.
Qed.

Lemma tp_step_ok' serial sq acc p : p_serial p = serial -> p_sequence p = sq ->
  (continued p = true -> p_packets p <> [] -> acc <> []) ->
  tp_step serial (sq, acc) p = Ok (sq + 1, unpage_step acc p).
Proof.
  intros <- <- Hc. unfold tp_step, unpage_step. rewrite !Z.eqb_refl. cbn [negb].
  destruct (p_packets p) as [|f o]; [reflexivity|].
  destruct (continued p); [|reflexivity].
  destruct acc; [exfalso; apply Hc; [reflexivity|discriminate|reflexivity]|reflexivity].
Qed.

(* pages of one run, related position by position *)
Lemma tp_loop_shape olds : forall news serial sq acc acc' st,
  Forall2 same_shape news olds -> Forall (fun p => p_serial p = 0) news -> lens acc' = lens acc ->
  tp_loop serial (sq, acc) olds = Ok st ->
  concat (snd st) = concat acc ++ concat (concat (map p_packets olds)) /\
  exists out', tp_loop 0 (sq, acc') news = Ok (fst st, out') /\ lens out' = lens (snd st) /\
               concat out' = concat acc' ++ concat (concat (map p_packets news)).
Proof.
  induction olds as [|o olds IH]; intros news serial sq acc acc' st HF HS Ha H.
  - inversion HF; subst. cbn in H. injection H as <-. cbn. rewrite !app_nil_r. split; [reflexivity|].
    exists acc'. repeat split; auto.
  - inversion HF as [|n o' news' olds' Hno HF']; subst. inversion HS as [|n' news'' Hn0 HS']; subst.
    cbn [tp_loop] in H. destruct (tp_step serial (sq, acc) o) as [st1|e] eqn:E; [|discriminate].
    apply tp_step_inv in E. destruct E as (-> & Hser & Hsq & Hne).
    assert (Hne' : continued n = true -> p_packets n <> [] -> acc' <> []).
    { destruct Hno as (_ & Hc & Hp). intros Hcn Hpn. rewrite Hc in Hcn.
      assert (Hpo : p_packets o <> []) by (intros Ho; rewrite Ho in Hp; apply lens_nil_inv in Hp; contradiction).
      specialize (Hne Hcn Hpo). intros Hz; subst acc'. symmetry in Ha. apply lens_nil_inv in Ha. contradiction. }
    assert (Hstep : tp_step 0 (sq, acc') n = Ok (sq + 1, unpage_step acc' n)).
    { apply tp_step_ok'; [exact Hn0|destruct Hno as (Hs & _); lia|exact Hne']. }
    destruct (IH news' serial (sq + 1) (unpage_step acc o) (unpage_step acc' n) st HF' HS'
                 (lens_unpage_step acc' acc n o Ha Hno) H) as (Hc1 & out' & Hl & Hlen & Hc2).
    split.
    + rewrite Hc1, (concat_unpage_step acc o Hne). cbn [map concat]. rewrite concat_app, !app_assoc. reflexivity.
    + exists out'. cbn [tp_loop]. rewrite Hstep. repeat split; auto.
      rewrite Hc2, (concat_unpage_step acc' n Hne'). cbn [map concat]. rewrite concat_app, !app_assoc. reflexivity.
Qed.
