(* Ogg family: the layout hypothesis ogg_mapped is satisfiable (also by the multiplexed regression file) *)
From Coq Require Import ZArith List Bool Lia.
Import ListNotations.
Require Import Base.Py Base.ZList Gen.Gen_tags Model.Crc Model.Ogg Model.Fam_flac Model.Fam_ogg.
Require Import Proofs.C15_file Proofs.C15_replace Proofs.Fam_ogg_mapped Proofs.Fam_ogg_examples.
Open Scope Z_scope.

Lemma ex_vorbis_mapped : ogg_mapped OVorbis ex_vorbis_pages.
Proof.
  exists [], (mkPage 0 2 0 5 0 true [ogg_f_vorbis1 ++ zeros 23]), [mkPage 0 2 0 9 0 true [[102; 105; 115; 104]]],
    (mkPage 0 0 0 5 1 true [ogg_f_vorbis3 ++ vc_render ex_old ++ [1; 0; 0; 0]; [5; 115; 101; 116]]),
    [mkPage 0 0 3 9 1 true [[1]; []]; mkPage 0 4 40 5 2 true [[7; 7; 7]]; mkPage 0 4 4 9 2 true [[2]]].
  repeat split; try (vm_compute; reflexivity); try constructor. intros E. discriminate.
Qed.

Lemma ex_bait_mapped : ogg_mapped OVorbis ex_bait_pages.
Proof.
  exists [], (mkPage 0 2 0 5 0 true [ogg_f_vorbis1 ++ zeros 23]),
    [mkPage 0 2 0 9 0 true [[102; 105; 115; 104]]; mkPage 0 0 3 9 1 true [ogg_f_vorbis3 ++ [33; 33]]],
    (mkPage 0 0 0 5 1 true [ogg_f_vorbis3 ++ vc_render ex_old ++ [1; 0; 0; 0]; [5; 115; 101; 116]]),
    [mkPage 0 4 40 5 2 true [[7; 7; 7]]; mkPage 0 4 4 9 2 true [[2]]].
  repeat split; try (vm_compute; reflexivity); try constructor. intros E. discriminate.
Qed.
