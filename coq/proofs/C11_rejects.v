(* C11, negative half: requests that reach outside the file are rejected (ValueError) and the file
   content is not modified -- proved against the generated code. *)
From Coq Require Import ZArith List Bool Lia.
Import ListNotations.
Require Import Base.Py Base.ZList Base.FileModel Gen.Gen_util Proofs.FileLemmas.
Open Scope Z_scope.

Section Rejects.
Variables (real : bool) (part : Z).
Notation cf := (benign real part).
Variable BUF : Z.

Theorem move_bytes_rejects f p dest src count :
  dest < 0 \/ src < 0 \/ count < 0 \/ Z.max dest src + count > zlen f ->
  fst (move_bytes BUF dest src count (mkF f p cf)) = Raise EValue /\
  fdata (snd (move_bytes BUF dest src count (mkF f p cf))) = f.
Proof.
  intros H. unfold move_bytes. rewrite step_guard.
  destruct ((dest <? 0) || (src <? 0) || (count <? 0)) eqn:E; [split; reflexivity|].
  rewrite step_seek_end, step_tell, step_guard.
  assert (Hg : (Z.max dest src + count >? zlen f) = true) by lia. rewrite Hg. split; reflexivity.
Qed.

Theorem insert_bytes_rejects f p size offset :
  size < 0 \/ offset < 0 \/ offset > zlen f ->
  fst (insert_bytes BUF size offset (mkF f p cf)) = Raise EValue /\
  fdata (snd (insert_bytes BUF size offset (mkF f p cf))) = f.
Proof.
  intros H. unfold insert_bytes. rewrite step_guard.
  destruct ((size <? 0) || (offset <? 0)) eqn:E; [split; reflexivity|].
  rewrite step_seek_end, step_tell. cbv zeta. rewrite step_guard.
  assert (Hg : (zlen f - offset <? 0) = true) by lia. rewrite Hg. split; reflexivity.
Qed.

Theorem delete_bytes_rejects f p size offset :
  size < 0 \/ offset < 0 \/ offset + size > zlen f ->
  fst (delete_bytes BUF size offset (mkF f p cf)) = Raise EValue /\
  fdata (snd (delete_bytes BUF size offset (mkF f p cf))) = f.
Proof.
  intros H. unfold delete_bytes. rewrite step_guard.
  destruct ((size <? 0) || (offset <? 0)) eqn:E; [split; reflexivity|].
  rewrite step_seek_end, step_tell. cbv zeta. rewrite step_guard.
  assert (Hg : (zlen f - offset - size <? 0) = true) by lia. rewrite Hg. split; reflexivity.
Qed.

(* resize_bytes: negative arguments, or a region [off, off+old) that ends beyond the file while a
   size change is requested, are rejected; the file is never modified by a rejected request. *)
Theorem resize_bytes_rejects f p old new off :
  old < 0 \/ new < 0 \/ off < 0 \/ (off + old > zlen f /\ new <> old) ->
  fst (resize_bytes BUF old new off (mkF f p cf)) = Raise EValue /\
  fdata (snd (resize_bytes BUF old new off (mkF f p cf))) = f.
Proof.
  intros H. unfold resize_bytes. rewrite step_guard.
  destruct ((old <? 0) || (new <? 0) || (off <? 0)) eqn:E; [split; reflexivity|].
  rewrite !bind_if_c.
  destruct (new <? old) eqn:E1.
  - cbv zeta.
    destruct (delete_bytes_rejects f p (old - new) (off + new) ltac:(lia)) as [D1 D2].
    unfold bind. destruct (delete_bytes BUF (old - new) (off + new) _) as [r s]. cbn in *. subst. split; reflexivity.
  - destruct (new >? old) eqn:E2.
    + cbv zeta.
      destruct (insert_bytes_rejects f p (new - old) (off + old) ltac:(lia)) as [D1 D2].
      unfold bind. destruct (insert_bytes BUF (new - old) (off + old) _) as [r s]. cbn in *. subst. split; reflexivity.
    + lia.
Qed.

(* the remaining out-of-range request (same size, region beyond the file) is a no-op *)
Theorem resize_bytes_same_size_noop f p old off :
  0 <= old -> 0 <= off ->
  resize_bytes BUF old old off (mkF f p cf) = (Ok tt, mkF f p cf).
Proof.
  intros Ho Hf. unfold resize_bytes. rewrite step_guard.
  assert (E : (old <? 0) || (old <? 0) || (off <? 0) = false) by lia. rewrite E.
  rewrite !bind_if_c. rewrite Z.ltb_irrefl.
  assert (E2 : (old >? old) = false) by lia. rewrite E2. reflexivity.
Qed.
End Rejects.
