(* C10 for mp4_save on a well-formed file that already has moov.udta.meta.ilst (__save_existing):
   from mp4_wf f and mp4_save f ilst cb = Ok f' to the statements of props/C10.v. *)
From Coq Require Import ZArith List Bool Lia.
Import ListNotations.
Require Import Base.Py Base.ZList Model.Splice Model.Fam_mp4 Proofs.Splice_lemmas
  Proofs.Fam_mp4_bytes Proofs.Fam_mp4_tree Proofs.Fam_mp4_parse Proofs.Fam_mp4_steps Proofs.Fam_mp4_agree Proofs.Fam_mp4_path
  Proofs.Fam_mp4_lists Proofs.Fam_mp4_surgery Proofs.Fam_mp4_shift Proofs.Fam_mp4_existing.
Open Scope Z_scope.

(* ------------------------------------------------------------------ what mp4_wf gives *)
Lemma wf_parts f : mp4_wf f = true ->
  exists atoms, mp4_atoms f = Ok atoms /\ mp4_forest_ok f true atoms 0 (zlen f) = true /\
                mp4_tables_ok f atoms = true /\ mp4_entries_in_file f atoms = true /\
                mp4_forest_height atoms <= MP4_MAXDEPTH.
Proof.
  unfold mp4_wf, mp4_parse. destruct (mp4_atoms f) as [atoms|e]; [|discriminate].
  destruct (mp4_forest_ok f true atoms 0 (zlen f) && (mp4_forest_height atoms <=? MP4_MAXDEPTH) &&
            mp4_tables_ok f atoms && mp4_entries_in_file f atoms) eqn:E; [|discriminate].
  intros _. apply andb_true_iff in E. destruct E as [E E3]. apply andb_true_iff in E. destruct E as [E E2].
  apply andb_true_iff in E. destruct E as [E1 Eh]. apply Z.leb_le in Eh.
  exists atoms. auto.
Qed.

(* ------------------------------------------------------------------ the decomposition around the ilst *)
Record ex_view (f : list Z) (atoms path : list mp4_atom) (off old : Z) := mkView {
  v_moov : mp4_atom; v_udta : mp4_atom; v_meta : mp4_atom; v_ilst : mp4_atom;
  v_T1 : list mp4_atom; v_T2 : list mp4_atom; v_M1 : list mp4_atom; v_M2 : list mp4_atom;
  v_U1 : list mp4_atom; v_U2 : list mp4_atom; v_A : list mp4_atom; v_R : list mp4_atom; v_B : list mp4_atom;
  v_path : path = [v_moov; v_udta; v_meta; v_ilst];
  v_atoms : atoms = v_T1 ++ v_moov :: v_T2;
  v_kmoov : ma_kids v_moov = Some (v_M1 ++ v_udta :: v_M2);
  v_kudta : ma_kids v_udta = Some (v_U1 ++ v_meta :: v_U2);
  v_kmeta : ma_kids v_meta = Some (v_A ++ v_R ++ v_B);
  v_nmoov : ma_name v_moov = N_moov; v_nudta : ma_name v_udta = N_udta;
  v_nmeta : ma_name v_meta = N_meta; v_nilst : ma_name v_ilst = N_ilst;
  v_shape : region_shape v_ilst v_R;
  v_region : mp4_region_of path = Some (off, old);
  v_FA : mp4_forest_ok f false v_A (ma_off v_meta + ma_hdr v_meta + mp4_skip (ma_name v_meta)) off = true;
  v_FR : mp4_forest_ok f false v_R off (off + old) = true;
  v_FB : mp4_forest_ok f false v_B (off + old) (ma_off v_meta + ma_len v_meta) = true;
  (* the four atoms are the FIRST ones with their name among their siblings *)
  v_T1no : Forall (fun x => ma_name x <> N_moov) v_T1;
  v_M1no : Forall (fun x => ma_name x <> N_udta) v_M1;
  v_U1no : Forall (fun x => ma_name x <> N_meta) v_U1;
  v_Ano : Forall (fun x => ma_name x <> N_ilst) v_A
}.

Lemma existing_view f atoms path :
  mp4_forest_ok f true atoms 0 (zlen f) = true -> mp4_path atoms ILST_PATH = Some path ->
  exists off old, inhabited (ex_view f atoms path off old).
Proof.
  intros Hwf Hp. destruct (ilst_path_decomp _ _ Hp) as (moov & udta & meta & ilst & km & ku & ke & -> & C1 & K1 & C2 & K2 & C3 & K3 & C4).
  destruct (child_split _ _ _ C1) as (T1 & T2 & E1 & N1 & X1).
  destruct (child_split _ _ _ C2) as (M1 & M2 & E2 & N2 & X2).
  destruct (child_split _ _ _ C3) as (U1 & U2 & E3 & N3 & X3).
  destruct (child_split _ _ _ C4) as (_ & _ & _ & N4 & _).
  subst atoms km ku.
  pose proof (forest_ok_split _ _ _ _ _ _ _ Hwf) as (_ & Hm & _).
  destruct (atom_ok_kids _ _ _ _ Hm K1) as (_ & Hk1). pose proof (forest_ok_split _ _ _ _ _ _ _ Hk1) as (_ & Hu & _).
  destruct (atom_ok_kids _ _ _ _ Hu K2) as (_ & Hk2). pose proof (forest_ok_split _ _ _ _ _ _ _ Hk2) as (_ & He & _).
  destruct (atom_ok_kids _ _ _ _ He K3) as (_ & Hk3).
  destruct (region_decomp f meta ke ilst moov udta _ _ K3 C4 Hk3) as (A & R & B & off & old & -> & HS & HRg & FA & FR & FB & X4).
  exists off, old. constructor.
  exact (mkView f _ _ off old moov udta meta ilst T1 T2 M1 M2 U1 U2 A R B eq_refl eq_refl K1 K2 K3 N1 N2 N3 N4 HS HRg FA FR FB X1 X2 X3 X4).
Qed.

(* ------------------------------------------------------------------ unfolding mp4_save_existing *)
Definition new_region (cb : Z -> Z -> Z) (f : list Z) (off old : Z) (ilst_data : list Z) : list Z :=
  ilst_data ++ mp4_padding_atom cb (old - (zlen ilst_data + 8)) (zlen f - (off + old)).
Definition new_pad (cb : Z -> Z -> Z) (f : list Z) (off old : Z) (ilst_data : list Z) : Z :=
  Z.min MP4_MAXPAD (cb (old - (zlen ilst_data + 8)) (zlen f - (off + old))).

Lemma save_existing_unfold f atoms path off old ilst_data cb f' :
  mp4_region_of path = Some (off, old) -> 0 <= off -> 0 <= old -> off + old <= zlen f ->
  mp4_save_existing f atoms path ilst_data cb = Ok f' ->
  let data := new_region cb f off old ilst_data in
  exists f2, mp4_update_parents (zlen data - old) (splice f off old data) (map ma_off (removelast path)) = Ok f2 /\
             mp4_update_offsets atoms (zlen data - old) off f2 = Ok f'.
Proof.
  intros Hr H0 H1 H2. unfold mp4_save_existing. rewrite Hr. fold (new_region cb f off old ilst_data).
  intros H. set (data := new_region cb f off old ilst_data) in *. unfold mp4_resize_write in H.
  destruct ((old <? 0) || (off <? 0)) eqn:E1; [apply orb_true_iff in E1; lia|].
  destruct (negb (zlen data =? old) && (off + old >? zlen f)) eqn:E2; [apply andb_true_iff in E2; lia|].
  destruct (mp4_update_parents (zlen data - old) (splice f off old data) (map ma_off (removelast path))) as [f2|e] eqn:E3; [|discriminate].
  exists f2. auto.
Qed.

(* ------------------------------------------------------------------ the statements *)
Section Main.
Variables (f : list Z) (ilst_data : list Z) (cb : Z -> Z -> Z) (f' : list Z).
Hypothesis Hwf : mp4_wf f = true.
Hypothesis Hsave : mp4_save f ilst_data cb = Ok f'.

(* the file has tags: moov.udta.meta.ilst exists *)
Variables (atoms path : list mp4_atom).
Hypothesis Hatoms : mp4_atoms f = Ok atoms.
Hypothesis Hpath : mp4_path atoms ILST_PATH = Some path.

Lemma wf_atoms : mp4_forest_ok f true atoms 0 (zlen f) = true /\ mp4_tables_ok f atoms = true.
Proof. destruct (wf_parts f Hwf) as (a & Ha & H1 & H2 & _ & _). rewrite Hatoms in Ha. inversion Ha; subst. auto. Qed.

Lemma save_is_existing : mp4_save_existing f atoms path ilst_data cb = Ok f'.
Proof. unfold mp4_save in Hsave. rewrite Hatoms, Hpath in Hsave. exact Hsave. Qed.
End Main.

(* the whole existing-tags case, packaged: from the view and the run to the Section Existing facts *)
Section Packaged.
Variables (f : list Z) (atoms path : list mp4_atom) (off old : Z) (V : ex_view f atoms path off old).
Hypothesis Hforest : mp4_forest_ok f true atoms 0 (zlen f) = true.
Hypothesis Htab : mp4_tables_ok f atoms = true.
Hypothesis Hclean : ilst_clean (v_ilst _ _ _ _ _ V) = true.
Variables (ilst_data : list Z) (cb : Z -> Z -> Z) (f' : list Z).
Hypothesis Hrun : mp4_save_existing f atoms path ilst_data cb = Ok f'.

Let data := new_region cb f off old ilst_data.

Lemma pk_fits : 0 <= off /\ 0 <= old /\ off + old <= zlen f.
Proof.
  destruct V. cbn in *. subst.
  eapply (region_fits f _ Hforest v_moov0 v_udta0 v_meta0 v_ilst0 v_T3 v_T4 v_M3 v_M4 v_U3 v_U4 v_A0 v_R0 v_B0 off old); eauto.
Qed.

Lemma pk_runs : exists f2,
  mp4_update_parents (zlen data - old) (splice f off old data)
    (map ma_off (ancestors (v_moov _ _ _ _ _ V) (v_udta _ _ _ _ _ V) (v_meta _ _ _ _ _ V))) = Ok f2 /\
  mp4_update_offsets atoms (zlen data - old) off f2 = Ok f'.
Proof.
  destruct pk_fits as (F0 & F1 & F2).
  destruct (save_existing_unfold f atoms path off old ilst_data cb f' (v_region _ _ _ _ _ V) F0 F1 F2 Hrun) as (f2 & R1 & R2).
  exists f2. split; [|exact R2]. rewrite (v_path _ _ _ _ _ V) in R1. exact R1.
Qed.
End Packaged.

(* ------------------------------------------------------------------ the final statements (existing tags) *)
Definition mp4_tags_clean (atoms : list mp4_atom) : bool :=
  match mp4_path atoms ILST_PATH with
  | Some [_; _; _; ilst] => ilst_clean ilst
  | _ => true
  end.
(* old position -> new position of a byte outside the replaced region *)
Definition mp4_newpos (off old delta a : Z) : Z := if off + old <=? a then a + delta else a.
Lemma mv_newpos off old data a : mv off old data a = mp4_newpos off old (zlen data - old) a.
Proof. reflexivity. Qed.

Lemma padding_atom_form cb p s : mp4_padding_atom cb p s = mp4_render N_free (zeros (Z.min MP4_MAXPAD (cb p s))).
Proof. reflexivity. Qed.

Section Final.
Variables (f : list Z) (atoms path : list mp4_atom) (ilst_data : list Z) (cb : Z -> Z -> Z) (f' : list Z).
Hypothesis Hatoms : mp4_atoms f = Ok atoms.
Hypothesis Hforest : mp4_forest_ok f true atoms 0 (zlen f) = true.
Hypothesis Htab : mp4_tables_ok f atoms = true.
Hypothesis Hpath : mp4_path atoms ILST_PATH = Some path.
Hypothesis Hclean : mp4_tags_clean atoms = true.
Hypothesis Hsave : mp4_save f ilst_data cb = Ok f'.
Hypothesis Hheight : mp4_forest_height atoms <= MP4_MAXDEPTH.

Lemma final_existing : mp4_save_existing f atoms path ilst_data cb = Ok f'.
Proof. unfold mp4_save in Hsave. rewrite Hatoms, Hpath in Hsave. exact Hsave. Qed.

(* C10_parents_consistent: the result is tiled at every level (hence every ancestor's size field = extent of its children),
   and it is what mutagen's reader will see on the next load *)
Theorem save_existing_wellformed it :
  mp4_forest_ok ilst_data false [it] 0 (zlen ilst_data) = true -> mp4_height it <= 62 ->
  exists atoms', mp4_atoms f' = Ok atoms' /\ mp4_forest_ok f' true atoms' 0 (zlen f') = true /\
                 mp4_forest_height atoms' <= MP4_MAXDEPTH.
Proof.
  intros Hit Hith. destruct (existing_view f atoms path Hforest Hpath) as (off & old & [V]).
  assert (Hc : ilst_clean (v_ilst _ _ _ _ _ V) = true).
  { unfold mp4_tags_clean in Hclean. rewrite Hpath, (v_path _ _ _ _ _ V) in Hclean. exact Hclean. }
  destruct (pk_runs f atoms path off old V Hforest Htab Hc ilst_data cb f' final_existing) as (f2 & R1 & R2).
  destruct V as [moov udta meta ilst T1 T2 M1 M2 U1 U2 A R B Vp Va K1 K2 K3 N1 N2 N3 N4 HS HRg FA FR FB X1 X2 X3 X4]. cbn in *.
  pose proof (existing_result_wellformed f atoms Hforest Htab moov udta meta ilst T1 T2 M1 M2 U1 U2 A R B off old
                Va K1 K2 K3 N1 N2 N3 HS FA FR FB Hc _ f2 f' R1 R2 ilst_data (new_pad cb f off old ilst_data) it eq_refl
                (Z.le_min_l _ _) Hit) as W.
  pose proof (new_atoms_height atoms moov udta meta T1 T2 M1 M2 U1 U2 A R B off old Va K1 K2 K3
                (new_region cb f off old ilst_data) ilst_data (new_pad cb f off old ilst_data) it Hheight Hith) as HH.
  eexists. split; [apply parse_complete; [exact W|exact HH]|]. split; [exact W|exact HH].
Qed.

(* C10_offsets_follow_data *)
Theorem save_existing_offsets :
  exists off old, mp4_region_of path = Some (off, old) /\ 0 <= off /\ 8 <= old /\ off + old <= zlen f /\
    let delta := zlen f' - zlen f in
    let np := mp4_newpos off old delta in
    (* every chunk-offset table the save visits: same count, entry o -> o + delta iff o > off *)
    (forall T, In T (mp4_stco_list atoms) ->
       tab_entries 4 f' (np (ma_off T)) = map (mp4_shift off delta) (tab_entries 4 f (ma_off T))) /\
    (forall T, In T (mp4_co64_list atoms) ->
       tab_entries 8 f' (np (ma_off T)) = map (mp4_shift off delta) (tab_entries 8 f (ma_off T))) /\
    (forall T, In T (mp4_tfhd_list atoms) -> tfhd_flag f (ma_off T) = true ->
       tfhd_flag f' (np (ma_off T)) = true /\
       tfhd_base f' (np (ma_off T)) = mp4_shift off delta (tfhd_base f (ma_off T))) /\
    (* the media: every leaf atom outside the region that is not an offset table keeps all its bytes, moved by delta
       iff it lies behind the region *)
    (forall L, In L (mp4_flat atoms) -> ma_kids L = None -> is_table_name L = false ->
       (ma_off L + ma_len L <= off \/ off + old <= ma_off L) ->
       agree f (ma_off L) f' (np (ma_off L)) (ma_len L)) /\
    (* the region holds the new ilst followed by the free atom *)
    agree (new_region cb f off old ilst_data) 0 f' off (zlen (new_region cb f off old ilst_data)) /\
    delta = zlen (new_region cb f off old ilst_data) - old.
Proof.
  destruct (existing_view f atoms path Hforest Hpath) as (off & old & [V]).
  assert (Hc : ilst_clean (v_ilst _ _ _ _ _ V) = true).
  { unfold mp4_tags_clean in Hclean. rewrite Hpath, (v_path _ _ _ _ _ V) in Hclean. exact Hclean. }
  destruct (pk_runs f atoms path off old V Hforest Htab Hc ilst_data cb f' final_existing) as (f2 & R1 & R2).
  destruct (pk_fits f atoms path off old V Hforest Htab Hc ilst_data cb f' final_existing) as (F0 & F1 & F2).
  pose proof (v_region _ _ _ _ _ V) as HRg0.
  destruct V as [moov udta meta ilst T1 T2 M1 M2 U1 U2 A R B Vp Va K1 K2 K3 N1 N2 N3 N4 HS HRg FA FR FB X1 X2 X3 X4]. cbn in *.
  set (data := new_region cb f off old ilst_data) in *.
  pose proof (ex_result f atoms Hforest Htab moov udta meta ilst T1 T2 M1 M2 U1 U2 A R B off old
                Va K1 K2 K3 N1 N2 N3 HS FA FR FB Hc data f2 f' R1 R2) as (Z & Fr & AGD & UA & U4 & U8 & UT).
  pose proof (old_pos f meta ilst A R B off old K3 HS FR) as OP.
  exists off, old. split; [exact HRg0|]. split; [lia|]. split; [exact OP|]. split; [lia|].
  assert (Hd : zlen f' - zlen f = zlen data - old) by lia.
  cbv zeta. rewrite Hd. split; [|split; [|split; [|split; [|split]]]].
  - intros T HT. destruct (U4 T HT) as (_ & E). rewrite mv_newpos in E. exact E.
  - intros T HT. destruct (U8 T HT) as (_ & E). rewrite mv_newpos in E. exact E.
  - intros T HT Hfl. destruct (UT T HT) as (A12 & _ & UTT). destruct (UTT Hfl) as (TB & A16 & _).
    rewrite mv_newpos in *. split; [|exact TB].
    rewrite <- Hfl. symmetry. apply (tfhd_flag_agree _ _ _ _ _ A12). lia.
  - intros L HL KL NL Hpos. rewrite <- mv_newpos.
    apply (leaf_preserved f atoms Hforest Htab moov udta meta ilst T1 T2 M1 M2 U1 U2 A R B off old
             Va K1 K2 K3 N1 N2 N3 HS FA FR FB Hc data f2 f' R1 R2 ilst_data (new_pad cb f off old ilst_data) eq_refl L HL KL NL Hpos).
  - exact AGD.
  - reflexivity.
Qed.

(* C10_parents_consistent, full form: the result satisfies every strict rule again (mp4_wf), so a further save starts from
   the same hypotheses *)
Theorem save_existing_wf it :
  mp4_forest_ok ilst_data false [it] 0 (zlen ilst_data) = true -> ilst_clean it = true -> mp4_height it <= 62 ->
  covered atoms -> mp4_entries_in_file f atoms = true -> mp4_wf f' = true.
Proof.
  intros Hit Hic Hith Hcov Hent. destruct (existing_view f atoms path Hforest Hpath) as (off & old & [V]).
  assert (Hc : ilst_clean (v_ilst _ _ _ _ _ V) = true).
  { unfold mp4_tags_clean in Hclean. rewrite Hpath, (v_path _ _ _ _ _ V) in Hclean. exact Hclean. }
  destruct (pk_runs f atoms path off old V Hforest Htab Hc ilst_data cb f' final_existing) as (f2 & R1 & R2).
  destruct V as [moov udta meta ilst T1 T2 M1 M2 U1 U2 A R B Vp Va K1 K2 K3 N1 N2 N3 N4 HS HRg FA FR FB X1 X2 X3 X4]. cbn in *.
  exact (existing_result_wf f atoms Hforest Htab moov udta meta ilst T1 T2 M1 M2 U1 U2 A R B off old
           Va K1 K2 K3 N1 N2 N3 HS FA FR FB Hc _ f2 f' R1 R2 ilst_data (new_pad cb f off old ilst_data) it eq_refl
           (Z.le_min_l _ _) Hit Hheight Hith Hcov Hent Hic).
Qed.
(* after the save, the next lookup finds the new ilst and, as padding, exactly the free atom this save wrote *)
Theorem save_existing_found_again it :
  mp4_forest_ok ilst_data false [it] 0 (zlen ilst_data) = true -> mp4_height it <= 62 -> ma_name it = N_ilst ->
  exists off old atoms' path',
    mp4_region_of path = Some (off, old) /\
    mp4_atoms f' = Ok atoms' /\ mp4_path atoms' ILST_PATH = Some path' /\
    mp4_region_of path' = Some (off, zlen (new_region cb f off old ilst_data)) /\
    agree (new_region cb f off old ilst_data) 0 f' off (zlen (new_region cb f off old ilst_data)) /\
    zlen f' = zlen f + (zlen (new_region cb f off old ilst_data) - old).
Proof.
  intros Hit Hith Hitn. destruct (existing_view f atoms path Hforest Hpath) as (off & old & [V]).
  assert (Hc : ilst_clean (v_ilst _ _ _ _ _ V) = true).
  { unfold mp4_tags_clean in Hclean. rewrite Hpath, (v_path _ _ _ _ _ V) in Hclean. exact Hclean. }
  destruct (pk_runs f atoms path off old V Hforest Htab Hc ilst_data cb f' final_existing) as (f2 & R1 & R2).
  pose proof (v_region _ _ _ _ _ V) as HRg0.
  destruct V as [moov udta meta ilst T1 T2 M1 M2 U1 U2 A R B Vp Va K1 K2 K3 N1 N2 N3 N4 HS HRg FA FR FB X1 X2 X3 X4]. cbn in *.
  set (data := new_region cb f off old ilst_data) in *. set (pad := new_pad cb f off old ilst_data).
  pose proof (existing_result_wellformed f atoms Hforest Htab moov udta meta ilst T1 T2 M1 M2 U1 U2 A R B off old
                Va K1 K2 K3 N1 N2 N3 HS FA FR FB Hc data f2 f' R1 R2 ilst_data pad it eq_refl (Z.le_min_l _ _) Hit) as W.
  pose proof (new_atoms_height atoms moov udta meta T1 T2 M1 M2 U1 U2 A R B off old Va K1 K2 K3 data ilst_data pad it Hheight Hith) as HH.
  pose proof (ex_result f atoms Hforest Htab moov udta meta ilst T1 T2 M1 M2 U1 U2 A R B off old
                Va K1 K2 K3 N1 N2 N3 HS FA FR FB Hc data f2 f' R1 R2) as (Z & _ & AGD & _).
  exists off, old. eexists. eexists. split; [exact HRg0|]. split; [apply parse_complete; [exact W|exact HH]|].
  split; [exact (new_path moov udta meta T1 T2 M1 M2 U1 U2 A B off old N1 N2 N3 data ilst_data pad it X1 X2 X3 X4 Hitn)|].
  split; [exact (new_region_found moov udta meta M1 M2 U1 U2 A B off old data ilst_data pad it eq_refl Hit X4 Hitn)|].
  split; [exact AGD|exact Z].
Qed.
End Final.
