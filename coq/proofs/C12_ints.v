(* C12: big-endian / bit-padded integer codec lemmas used by the ID3 frame proofs *)
From Coq Require Import ZArith List Bool Lia.
Import ListNotations.
Require Import Base.Py Base.ZList Model.Id3Spec.
Open Scope Z_scope.

Ltac zlia := Z.div_mod_to_equations; lia.

Lemma be_decode_acc_app acc l b : be_decode_acc acc (l ++ [b]) = be_decode_acc acc l * 256 + b.
Proof. revert acc; induction l as [|x l IH]; intros acc; cbn [be_decode_acc app]; [reflexivity|apply IH]. Qed.
Lemma be_decode_snoc l b : be_decode (l ++ [b]) = be_decode l * 256 + b.
Proof. apply be_decode_acc_app. Qed.
Lemma be_decode_acc_shift acc l : be_decode_acc acc l = acc * 256 ^ zlen l + be_decode l.
Proof.
  revert acc; induction l as [|x l IH]; intros acc.
  - cbn. lia.
  - unfold be_decode. cbn [be_decode_acc]. rewrite IH, (IH (0 * 256 + x)). rewrite zlen_cons.
    pose proof (zlen_nonneg l). rewrite Z.pow_add_r by lia. lia.
Qed.
Lemma be_decode_app a b : be_decode (a ++ b) = be_decode a * 256 ^ zlen b + be_decode b.
Proof.
  revert b; induction a as [|x a IH] using rev_ind; intros b.
  - cbn. reflexivity.
  - rewrite <- app_assoc. cbn [app]. rewrite IH, be_decode_snoc. unfold be_decode at 2. cbn [be_decode_acc].
    rewrite be_decode_acc_shift, zlen_cons. pose proof (zlen_nonneg b). rewrite Z.pow_add_r by lia. lia.
Qed.
Lemma be_decode_cons x l : be_decode (x :: l) = x * 256 ^ zlen l + be_decode l.
Proof. change (x :: l) with ([x] ++ l). rewrite be_decode_app. reflexivity. Qed.

Lemma le_encode_length n v : length (le_encode n v) = n.
Proof. revert v; induction n; intros v; cbn; auto. Qed.
Lemma be_encode_length n v : length (be_encode n v) = n.
Proof. unfold be_encode. rewrite rev_length. apply le_encode_length. Qed.
Lemma zlen_be_encode n v : zlen (be_encode n v) = Z.of_nat n.
Proof. unfold zlen. rewrite be_encode_length. reflexivity. Qed.

Lemma be_decode_encode_mod n v : be_decode (be_encode n v) = v mod 256 ^ Z.of_nat n.
Proof.
  unfold be_encode. revert v; induction n as [|n IH]; intros v.
  - cbn. rewrite Z.mod_1_r. reflexivity.
  - cbn [le_encode rev]. rewrite be_decode_snoc, IH.
    replace (Z.of_nat (S n)) with (1 + Z.of_nat n) by lia.
    rewrite Z.pow_add_r by lia. change (256 ^ 1) with 256.
    rewrite Z.rem_mul_r by (try lia; apply Z.pow_pos_nonneg; lia). lia.
Qed.
Lemma be_decode_encode n v : 0 <= v < 256 ^ Z.of_nat n -> be_decode (be_encode n v) = v.
Proof. intros H. rewrite be_decode_encode_mod. apply Z.mod_small. exact H. Qed.

Lemma le_encode_bytes n v : Forall (fun b => 0 <= b < 256) (le_encode n v).
Proof.
  revert v; induction n; intros v; cbn; constructor; [apply Z.mod_pos_bound; lia | apply IHn].
Qed.
Lemma be_encode_bytes n v : Forall (fun b => 0 <= b < 256) (be_encode n v).
Proof. unfold be_encode. apply Forall_rev. apply le_encode_bytes. Qed.

Lemma be_encode_nonnil n v : (0 < n)%nat -> be_encode n v <> [].
Proof. intros H E. apply (f_equal (@length Z)) in E. rewrite be_encode_length in E. cbn in E. lia. Qed.

(* minimal byte count *)
Lemma nbytes_nonneg v : 0 <= nbytes v.
Proof.
  unfold nbytes. destruct (v <=? 0) eqn:E; [lia|]. pose proof (Z.log2_nonneg v). zlia.
Qed.
Lemma nbytes_bound v : 0 <= v -> v < 256 ^ nbytes v.
Proof.
  intros Hv. unfold nbytes. destruct (v <=? 0) eqn:E.
  - apply Z.leb_le in E. replace v with 0 by lia. cbn. lia.
  - apply Z.leb_gt in E. pose proof (Z.log2_spec v E) as [_ H].
    pose proof (Z.log2_nonneg v).
    replace 256 with (2 ^ 8) by reflexivity. rewrite <- Z.pow_mul_r by zlia.
    eapply Z.lt_le_trans; [exact H|]. apply Z.pow_le_mono_r; [lia|]. zlia.
Qed.
Lemma pow256_mono a b : 0 <= a <= b -> 256 ^ a <= 256 ^ b.
Proof. intros. apply Z.pow_le_mono_r; lia. Qed.

(* BitPaddedInt.to_str(v, bits=8, width, minwidth) followed by BitPaddedInt(bytes, bits=8) *)
Lemma int_to_str_fixed v w : 0 <= w -> 0 <= v < 256 ^ w -> forall m,
  int_to_str v w m = Ok (be_encode (Z.to_nat w) v).
Proof.
  intros Hw Hv m. unfold int_to_str.
  replace (v <? 0) with false by (symmetry; apply Z.ltb_ge; lia).
  replace (w =? -1) with false by (symmetry; apply Z.eqb_neq; lia).
  replace (nbytes v <=? w) with true; [reflexivity|]. symmetry. apply Z.leb_le.
  destruct (Z_le_gt_dec (nbytes v) w) as [|G]; [assumption|exfalso].
  unfold nbytes in G. destruct (v <=? 0) eqn:E; [lia|]. apply Z.leb_gt in E.
  pose proof (Z.log2_spec v E) as [L _]. pose proof (Z.log2_nonneg v).
  assert (256 ^ w <= 2 ^ Z.log2 v).
  { replace 256 with (2 ^ 8) by reflexivity. rewrite <- Z.pow_mul_r by lia. apply Z.pow_le_mono_r; [lia|]. zlia. }
  lia.
Qed.
Lemma int_to_str_grow v m : 0 <= v -> 0 <= m ->
  int_to_str v (-1) m = Ok (be_encode (Z.to_nat (Z.max (nbytes v) m)) v) /\ v < 256 ^ Z.max (nbytes v) m.
Proof.
  intros Hv Hm. unfold int_to_str.
  replace (v <? 0) with false by (symmetry; apply Z.ltb_ge; lia). cbn [Z.eqb]. split; [reflexivity|].
  pose proof (nbytes_bound v Hv). pose proof (nbytes_nonneg v).
  eapply Z.lt_le_trans; [eassumption|]. apply pow256_mono. lia.
Qed.

(* frame sizes: BitPaddedInt.to_str(n, width=4, bits) / BitPaddedInt(size, bits) *)
Lemma bpi_decode_app bits a b : bpi_decode bits (a ++ [b]) = bpi_decode bits a * 2 ^ bits + b mod 2 ^ bits.
Proof. unfold bpi_decode. rewrite fold_left_app. reflexivity. Qed.
Lemma bpi_roundtrip_mod bits n v : 0 < bits ->
  bpi_decode bits (rev (bpi_le bits n v)) = v mod 2 ^ (bits * Z.of_nat n).
Proof.
  intros Hb. revert v; induction n as [|n IH]; intros v.
  - cbn [bpi_le rev]. rewrite Z.mul_0_r. cbn. rewrite Z.mod_1_r. reflexivity.
  - cbn [bpi_le rev]. rewrite bpi_decode_app, IH.
    replace (bits * Z.of_nat (S n)) with (bits + bits * Z.of_nat n) by lia.
    rewrite Z.pow_add_r by lia.
    assert (0 < 2 ^ bits) by (apply Z.pow_pos_nonneg; lia).
    assert (0 < 2 ^ (bits * Z.of_nat n)) by (apply Z.pow_pos_nonneg; lia).
    rewrite Z.mod_mod by lia. rewrite Z.rem_mul_r by lia. lia.
Qed.
Lemma bpi_roundtrip bits n v b : 0 < bits -> bpi_to_str bits n v = Ok b -> bpi_decode bits b = v.
Proof.
  intros Hb. unfold bpi_to_str. destruct ((v <? 0) || (2 ^ (bits * Z.of_nat n) <=? v)) eqn:E; [discriminate|].
  intros H; inversion H; subst. apply orb_false_iff in E as [E1 E2].
  apply Z.ltb_ge in E1. apply Z.leb_gt in E2. rewrite bpi_roundtrip_mod by assumption. apply Z.mod_small. lia.
Qed.
Lemma bpi_le_length bits n v : length (bpi_le bits n v) = n.
Proof. revert v; induction n; intros; cbn; auto. Qed.
Lemma bpi_to_str_length bits n v b : bpi_to_str bits n v = Ok b -> length b = n.
Proof.
  unfold bpi_to_str. destruct (_ || _); [discriminate|]. intros H; inversion H. rewrite rev_length. apply bpi_le_length.
Qed.

Lemma signed_mod bits v : 0 < bits -> - 2 ^ (bits - 1) <= v < 2 ^ (bits - 1) -> signed bits (v mod 2 ^ bits) = v.
Proof.
  intros Hb Hv. unfold signed.
  assert (E : 2 ^ bits = 2 * 2 ^ (bits - 1)).
  { replace bits with (1 + (bits - 1)) at 1 by lia. rewrite Z.pow_add_r by lia. reflexivity. }
  assert (0 < 2 ^ (bits - 1)) by (apply Z.pow_pos_nonneg; lia).
  destruct (Z_lt_dec v 0).
  - replace (v mod 2 ^ bits) with (v + 2 ^ bits).
    + replace (v + 2 ^ bits <? 2 ^ (bits - 1)) with false by (symmetry; apply Z.ltb_ge; lia). lia.
    + apply Z.mod_unique with (q := -1); lia.
  - rewrite Z.mod_small by lia. replace (v <? 2 ^ (bits - 1)) with true by (symmetry; apply Z.ltb_lt; lia). reflexivity.
Qed.
