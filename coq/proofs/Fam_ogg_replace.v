(* Ogg family: OggPage.replace / renumber read backwards -- IF they return without raising THEN the new pages were
   renderable and the file is the expected page list.  (C15_replace_spec assumes renderability and room for the
   sequence numbers; here both follow from the success of the call, so the file-level theorems need no size bound.) *)
From Coq Require Import ZArith List Bool Lia.
Import ListNotations.
Require Import Base.Py Base.ZList Base.FileModel Model.Crc Model.Ogg.
Require Import Proofs.C15_lacing Proofs.C15_page Proofs.C15_unpage Proofs.C15_paging Proofs.C15_from_packets Proofs.C15_file
  Proofs.C15_replace Proofs.Fam_ogg_scan.
Open Scope Z_scope.

Lemma set_sequence_wf_ok p n : page_wf p -> header_ok (set_sequence p n) = true -> page_wf (set_sequence p n).
Proof. intros (H1 & H2 & H3 & H4) H. repeat split; assumption. Qed.

Lemma renumber_loop_ok serial pages : forall pre number fuel f',
  Forall page_wf pages -> (length pages < fuel)%nat ->
  renumber_loop fuel (pre ++ render_all pages) (zlen pre) serial number = (Ok tt, f') ->
  f' = pre ++ render_all (renumber_pages serial number pages) /\ Forall page_wf (renumber_pages serial number pages).
Proof.
  induction pages as [|p r IH]; intros pre number fuel f' HW Hf H.
  - destruct fuel as [|fuel]; [cbn in Hf; lia|]. cbn [renumber_loop render_all map concat] in H.
    rewrite page_at_end in H. inversion H. split; [reflexivity|constructor].
  - destruct fuel as [|fuel]; [cbn in Hf; lia|]. inversion HW as [|? ? Wp Wr]; subst.
    cbn [renumber_loop renumber_pages] in *. rewrite render_all_cons, (page_at_rendered pre p (render_all r) Wp) in H.
    destruct (p_serial p =? serial) eqn:E; cbn [negb] in H.
    + destruct (page_write (set_sequence p number)) as [bs|e] eqn:Wr'; [|discriminate].
      destruct (page_write_inv _ _ Wr') as (N1 & N3 & ->).
      assert (Wn : page_wf (set_sequence p number)) by (apply set_sequence_wf_ok; assumption).
      replace (zlen pre + page_size p - page_size p) with (zlen pre) in H by lia.
      rewrite write_at_replace in H by (rewrite !page_bytes_len; reflexivity).
      replace (pre ++ page_bytes (set_sequence p number) ++ render_all r)
        with ((pre ++ page_bytes (set_sequence p number)) ++ render_all r) in H by (rewrite <- app_assoc; reflexivity).
      replace (zlen pre + page_size p) with (zlen (pre ++ page_bytes (set_sequence p number))) in H
        by (rewrite zlen_app, page_bytes_len; reflexivity).
      assert (Hf' : (length r < fuel)%nat) by (cbn [length] in Hf; lia).
      destruct (IH _ _ fuel _ Wr Hf' H) as (A & B).
      split; [rewrite A, render_all_cons, <- app_assoc; reflexivity|constructor; assumption].
    + replace (pre ++ page_bytes p ++ render_all r) with ((pre ++ page_bytes p) ++ render_all r) in H
        by (rewrite <- app_assoc; reflexivity).
      replace (zlen pre + page_size p) with (zlen (pre ++ page_bytes p)) in H by (rewrite zlen_app, page_bytes_len; reflexivity).
      assert (Hf' : (length r < fuel)%nat) by (cbn [length] in Hf; lia).
      destruct (IH _ _ fuel _ Wr Hf' H) as (A & B).
      split; [rewrite A, render_all_cons, <- app_assoc; reflexivity|constructor; assumption].
Qed.

Theorem renumber_ok pre pages serial start f' : Forall page_wf pages ->
  renumber (pre ++ render_all pages) (zlen pre) serial start = (Ok tt, f') ->
  f' = pre ++ render_all (renumber_pages serial start pages) /\ Forall page_wf (renumber_pages serial start pages).
Proof.
  intros HW H. unfold renumber in H. eapply renumber_loop_ok; [exact HW| |exact H].
  pose proof (render_all_length pages). rewrite app_length. lia.
Qed.

(* ---- replace --------------------------------------------------------------------------------------- *)
Lemma map_result_write_inv l : forall d, map_result page_write l = Ok d ->
  Forall (fun p => header_ok p = true /\ lacing_count p <= 255) l.
Proof.
  induction l as [|p r IH]; intros d H; [constructor|]. cbn [map_result] in H.
  destruct (page_write p) as [w|e] eqn:W; [|discriminate].
  destruct (map_result page_write r) as [ws|e] eqn:R; [|discriminate].
  destruct (page_write_inv p w W) as (A & B & _). constructor; [split; assumption|]. eapply IH. reflexivity.
Qed.

Lemma hd_old_args base run : snd (hd (0, new_page) (old_args base run)) = fst (hd (new_page, []) run).
Proof. destruct run as [|[o G] r]; reflexivity. Qed.

Lemma prepare_new_nonempty old0 oldl news : news <> [] -> prepare_new old0 oldl news <> [].
Proof.
  intros H E. destruct (prepare_new_spec old0 oldl news H) as (P1 & _). rewrite E, zlen_nil in P1.
  destruct news as [|n0 news0]; [contradiction|]. rewrite zlen_cons in P1. pose proof (zlen_nonneg news0). lia.
Qed.

(* replace with the defaults of `last`/`hd` normalised *)
Lemma replace_eq f olds news : olds <> [] -> news <> [] ->
  replace f olds news =
    let old0 := snd (hd (0, new_page) olds) in
    let oldl := snd (last olds (0, new_page)) in
    let prep := prepare_new old0 oldl news in
    match map_result page_write prep with
    | Raise e => (Raise e, f)
    | Ok new_data =>
      let datas := fit_slots (zlen olds) new_data in
      match slot_loop f (map (fun op => (fst op, page_size (snd op))) olds) datas 0 0 with
      | (Raise e, f', _) => (Raise e, f')
      | (Ok _, f', new_end) =>
        if zlen olds =? zlen news then (Ok tt, f')
        else let lastn := last prep new_page in renumber f' new_end (p_serial lastn) (p_sequence lastn + 1)
      end
    end.
Proof.
  intros Ho Hn. destruct olds as [|[off o] olds']; [contradiction|]. destruct news as [|n0 news']; [contradiction|].
  unfold replace. cbv zeta. cbn [hd snd].
  assert (E1 : last ((off, o) :: olds') (0, o) = last ((off, o) :: olds') (0, new_page)) by (apply last_default; discriminate).
  rewrite E1.
  assert (E2 : forall l : list page, l <> [] -> last l o = last l new_page) by (intros l Hl; apply last_default; exact Hl).
  rewrite (E2 (prepare_new o (snd (last ((off, o) :: olds') (0, new_page))) (n0 :: news')))
    by (apply prepare_new_nonempty; discriminate).
  reflexivity.
Qed.

Lemma zlen_renumber_tail s n (run : run_t) : zlen (renumber_tail s n run) = zlen run.
Proof.
  unfold renumber_tail. generalize (fun og : page * list page => (fst og, renumber_pages s n (snd og))). intros g.
  induction run as [|x r IH]; [reflexivity|]. destruct r; [reflexivity|].
  rewrite map_last_cons by discriminate. rewrite !(zlen_cons x), IH. reflexivity.
Qed.

Theorem replace_ok_spec pre (run : run_t) news f' :
  run <> [] -> news <> [] ->
  Forall (fun og => Forall page_wf (snd og)) run ->
  let old0 := fst (hd (new_page, []) run) in
  let oldl := fst (last run (new_page, [])) in
  let prepared := prepare_new old0 oldl news in
  let datas := fit_slots (zlen run) (map page_bytes prepared) in
  let run' := if zlen run =? zlen news then run else renumber_tail (p_serial old0) (p_sequence old0 + zlen news) run in
  replace (pre ++ old_layout (mk_slots run datas)) (old_args (zlen pre) run) news = (Ok tt, f') ->
  Forall (fun p => header_ok p = true /\ lacing_count p <= 255) prepared /\
  f' = pre ++ new_layout (mk_slots run' datas) /\ Forall (fun og => Forall page_wf (snd og)) run'.
Proof.
  intros Hrun Hnews HG old0 oldl prepared datas run' H.
  destruct (prepare_new_spec old0 oldl news Hnews) as (P1 & P2 & P3 & _). fold prepared in P1, P2, P3.
  assert (Hprep : prepared <> []) by (apply prepare_new_nonempty; exact Hnews).
  assert (Hn1 : 1 <= zlen run).
  { destruct run; [contradiction|]. rewrite zlen_cons. pose proof (zlen_nonneg run). lia. }
  assert (Hargs : old_args (zlen pre) run <> []) by (destruct run as [|[o G] r]; [contradiction|discriminate]).
  rewrite (replace_eq _ _ _ Hargs Hnews) in H. cbv zeta in H.
  rewrite hd_old_args, (last_old_args run (zlen pre) (0, new_page) Hrun) in H. cbn [snd] in H.
  fold old0 oldl in H. fold prepared in H.
  destruct (map_result page_write prepared) as [new_data|e] eqn:M; [|discriminate].
  pose proof (map_result_write_inv _ _ M) as Hren. split; [exact Hren|].
  rewrite (map_result_write prepared Hren) in M. inversion M; subst new_data. clear M.
  rewrite zlen_old_args in H. fold datas in H.
  assert (Hdl : zlen datas = zlen run).
  { apply zlen_fit_slots; [exact Hn1|]. destruct prepared; [contradiction|discriminate]. }
  assert (Hdl' : length datas = length run) by (unfold zlen in Hdl; lia).
  rewrite <- (mk_slots_olds run datas (zlen pre) Hdl') in H.
  replace (slot_loop (pre ++ old_layout (mk_slots run datas)) (slot_olds (zlen pre) (mk_slots run datas)) datas 0 0)
    with (slot_loop (pre ++ old_layout (mk_slots run datas)) (slot_olds (zlen pre) (mk_slots run datas))
            (map slot_new (mk_slots run datas)) 0 0) in H
    by (rewrite (mk_slots_new run datas Hdl'); reflexivity).
  rewrite slot_loop_spec in H. unfold run'.
  destruct (zlen run =? zlen news) eqn:Ecnt.
  { inversion H. split; [reflexivity|exact HG]. }
  (* the page count changed: the pages behind the last new data were renumbered *)
  destruct (snoc_cases run) as [->|(a & [on Gn] & Ea)]; [contradiction|].
  destruct (snoc_cases datas) as [Ed|(da & dn & Ed)].
  { rewrite Ed in Hdl. cbn in Hdl. lia. }
  assert (Hla : length da = length a).
  { rewrite Ea, Ed, !app_length in Hdl'. cbn [length] in Hdl'. lia. }
  rewrite Ed, Ea in H. rewrite (mk_slots_snoc a (on, Gn) da dn Hla) in H. cbn [fst snd] in H.
  unfold new_end_of in H. rewrite new_end_from_snoc, new_layout_snoc in H. cbn [slot_new slot_gap] in H.
  rewrite (seq_from_last (p_sequence old0) prepared new_page P2 Hprep) in H.
  rewrite (Forall_last (fun p => p_serial p = p_serial old0) prepared new_page P3 Hprep) in H.
  replace (pre ++ new_layout (mk_slots a da) ++ dn ++ render_all Gn)
    with ((pre ++ new_layout (mk_slots a da) ++ dn) ++ render_all Gn) in H by (repeat rewrite <- app_assoc; reflexivity).
  replace (zlen pre + zlen (new_layout (mk_slots a da)) + zlen dn)
    with (zlen (pre ++ new_layout (mk_slots a da) ++ dn)) in H by (rewrite !zlen_app; lia).
  assert (HGn : Forall page_wf Gn).
  { rewrite Ea in HG. apply Forall_app in HG as [_ HG]. inversion HG as [|? ? Hx Hr]. exact Hx. }
  rewrite P1 in H. replace (p_sequence old0 + zlen news - 1 + 1) with (p_sequence old0 + zlen news) in H by lia.
  destruct (renumber_ok _ _ _ _ _ HGn H) as (A & B).
  rewrite Ea. unfold renumber_tail. rewrite map_last_snoc. cbn [fst snd].
  rewrite Ed, (mk_slots_snoc a (on, renumber_pages (p_serial old0) (p_sequence old0 + zlen news) Gn) da dn Hla).
  rewrite new_layout_snoc. cbn [fst snd slot_new slot_gap]. split.
  - rewrite A. repeat rewrite <- app_assoc. reflexivity.
  - rewrite Ea in HG. apply Forall_app in HG as [HGa _]. apply Forall_app. split; [exact HGa|].
    constructor; [exact B|constructor].
Qed.

(* the same on page lists *)
Theorem replace_ok_pages before (run : run_t) news f' :
  run <> [] -> news <> [] ->
  Forall (fun og => Forall page_wf (snd og)) run ->
  let old0 := fst (hd (new_page, []) run) in
  let oldl := fst (last run (new_page, [])) in
  let prepared := prepare_new old0 oldl news in
  let run' := if zlen run =? zlen news then run else renumber_tail (p_serial old0) (p_sequence old0 + zlen news) run in
  replace (render_all (before ++ old_pages_of run)) (old_args (zlen (render_all before)) run) news = (Ok tt, f') ->
  Forall (fun p => header_ok p = true /\ lacing_count p <= 255) prepared /\
  f' = render_all (before ++ interleave run' prepared) /\ Forall (fun og => Forall page_wf (snd og)) run'.
Proof.
  intros Hrun Hnews HG old0 oldl prepared run' H.
  assert (Hn1 : 1 <= zlen run).
  { destruct run; [contradiction|]. rewrite zlen_cons. pose proof (zlen_nonneg run). lia. }
  assert (Hprep : map page_bytes prepared <> []).
  { pose proof (prepare_new_nonempty old0 oldl news Hnews) as X. fold prepared in X. destruct prepared; [contradiction|discriminate]. }
  pose proof (zlen_fit_slots (zlen run) (map page_bytes prepared) Hn1 Hprep) as Hdl.
  assert (Hdl' : length (fit_slots (zlen run) (map page_bytes prepared)) = length run) by (apply Nat2Z.inj; exact Hdl).
  rewrite render_all_app, <- (old_layout_pages run _ Hdl') in H.
  destruct (replace_ok_spec (render_all before) run news f' Hrun Hnews HG H) as (A & B & C).
  fold old0 oldl in A, B, C. fold prepared in A, B. fold run' in B, C.
  split; [exact A|]. split; [|exact C].
  rewrite B, render_all_app. f_equal.
  assert (Hl : zlen run' = zlen run) by (unfold run'; destruct (zlen run =? zlen news); [reflexivity|apply zlen_renumber_tail]).
  rewrite <- Hl. apply layout_interleave. intros E. rewrite E, zlen_nil in Hl. lia.
Qed.
