(* ASF family: accounting of the fields of a saved header (read back from the bytes) and the lifting of the
   one-step preservation facts (C02, C03) to arbitrary finite histories of saves and deletes. *)
From Coq Require Import ZArith List Bool Lia.
Import ListNotations.
Require Import Base.Py Base.ZList Model.Splice Model.Fam_asf Proofs.Fam_asf_codec Proofs.Fam_asf_save Proofs.Fam_asf_agree.
Open Scope Z_scope.

Definition obj_size (o : obj) : Z := 24 + zlen (snd (obj_raw o)).
Definition sum_sizes (l : list obj) : Z := fold_right (fun o a => obj_size o + a) 0 l.
Definition raw_size (o : rawobj) : Z := 24 + zlen (snd o).
Definition sum_raw_sizes (l : list rawobj) : Z := fold_right (fun o a => raw_size o + a) 0 l.

(* the data-size field of a rendered header extension is the sum of the sizes of its children *)
Lemma ext_field fx ch : zlen fx = 18 -> Forall raw_shaped ch -> zlen (render_raws ch) < U32 ->
  le_decode (zslice 18 22 (ext_payload fx ch)) = sum_raw_sizes ch.
Proof.
  intros Hfx Hs Hb. unfold ext_payload. pose proof (zlen_nonneg (render_raws ch)).
  rewrite (zslice_mid fx (le_encode 4 (zlen (render_raws ch)))) by (zl; lia).
  rewrite le4_round by lia. apply zlen_render_raws, Hs.
Qed.

(* C03, explicit form: in a saved file the header size field is 30 + the sum of the object sizes, the count
   field is the number of objects, and every header extension's data size is the sum of its children's sizes *)
Theorem asf_save_accounting f t cb f' : asf_save f t cb = Ok f' ->
  exists s', asf_parse f' = Ok s' /\
    header_size f' = 30 + sum_sizes (sobjs s') /\
    le_decode (zslice 24 28 f') = zlen (sobjs s') /\
    zlen f' = header_size f' + zlen (sdata s') /\
    forall fx ch, In (OExt fx ch) (sobjs s') ->
      le_decode (zslice 18 22 (snd (obj_raw (OExt fx ch)))) = sum_raw_sizes ch.
Proof.
  intros H. destruct (asf_save_form _ _ _ _ H) as (objs & ts & Ho & Hf & _ & Hp & Hh & Hold).
  destruct (asf_save_parse _ _ _ _ H) as (objs' & ts' & Ho' & Hparse).
  rewrite Ho in Ho'. inversion Ho'; subst objs' ts'; clear Ho'.
  assert (Hshape : Forall obj_shaped (save_tree f objs t cb)).
  { apply save_tree_shaped. eapply asf_open_shaped; eassumption. }
  eexists. split; [exact Hparse|]. cbn [sobjs sdata].
  destruct (header_fields _ (zdrop (header_size f) f) Hshape Hp Hh) as [A B].
  rewrite <- Hf in A, B. split; [exact A|]. split; [exact B|]. split.
  - unfold header_size at 1. rewrite A. rewrite Hf at 1. rewrite zlen_app, zlen_render_header.
    rewrite zlen_render_objs_sum by exact Hshape. reflexivity.
  - intros fx ch Hin. rewrite Forall_forall in Hshape. destruct (Hshape _ Hin) as [H1 H2].
    rewrite forallb_forall in Hp. specialize (Hp _ Hin). cbn [obj_packs] in Hp.
    apply andb_true_iff in Hp as [Hp _]. apply andb_true_iff in Hp as [_ Hp].
    cbn [obj_raw snd]. apply ext_field; [exact H1|exact H2|lia].
Qed.

(* ------------------------------------------------------------------ histories *)
Definition has_ext (f : list Z) : bool :=
  match asf_parse f with Ok s => existsb is_ext (sobjs s) | Raise _ => false end.
Definition foreign_of (f : list Z) : option (list felem * list Z) :=
  match asf_parse f with Ok s => Some (foreign (sobjs s), sdata s) | Raise _ => None end.

Lemma existsb_upd g l : existsb is_ext (upd_first_ext g l) = existsb is_ext l.
Proof.
  induction l as [|o l IH]; [reflexivity|]. destruct o; cbn [upd_first_ext existsb is_ext]; [rewrite IH|]; reflexivity.
Qed.
Lemma add_missing_has_ext l : existsb is_ext (add_missing l) = true.
Proof.
  unfold add_missing. rewrite existsb_upd.
  match goal with |- existsb is_ext (if ?c then ?a else _) = true => destruct c eqn:E; [exact E|] end.
  rewrite existsb_app. cbn. apply orb_true_r.
Qed.
Lemma core_has_ext P l : existsb is_ext (core_objs P l) = true.
Proof.
  unfold core_objs. pose proof (add_missing_has_ext l) as H.
  induction (add_missing l) as [|o r IH]; [discriminate|].
  cbn [existsb] in H. destruct o as [g d|fx ch]; cbn [filter nonpad_obj].
  - cbn [is_ext orb] in H. destruct (negb (is_pad g)); [cbn [map existsb retag_obj is_ext orb]|]; apply IH, H.
  - reflexivity.
Qed.
Lemma save_tree_has_ext f objs t cb : existsb is_ext (save_tree f objs t cb) = true.
Proof. unfold save_tree. rewrite existsb_app, core_has_ext. reflexivity. Qed.

(* along any history of a well-formed file that has a header extension object, the foreign elements and the data
   section never change (without one, the first save appends one and the statement holds from then on) *)
Lemma step_keeps f o : asf_wf f = true -> has_ext f = true ->
  asf_wf (step f o) = true /\ has_ext (step f o) = true /\ foreign_of (step f o) = foreign_of f.
Proof.
  intros Hw He.
  assert (Hsave : forall t cb f', asf_save f t cb = Ok f' ->
            asf_wf f' = true /\ has_ext f' = true /\ foreign_of f' = foreign_of f).
  { intros t cb f' Hs. split; [eapply asf_save_wf; eassumption|].
    unfold asf_wf in Hw. destruct (asf_parse f) as [s|] eqn:Ep; [|discriminate].
    assert (Hw' : asf_wf f = true) by (unfold asf_wf; rewrite Ep; exact Hw).
    destruct (asf_save_foreign_wf _ _ _ _ _ Hw' Ep Hs) as (s' & A & B & C).
    destruct (asf_save_parse _ _ _ _ Hs) as (objs & ts & _ & A').
    unfold has_ext in *. rewrite Ep in He. rewrite He, app_nil_r in B.
    unfold foreign_of. rewrite Ep. rewrite A in *. inversion A'; subst s'. cbn [sobjs sdata] in *.
    split; [apply save_tree_has_ext|]. rewrite B, C. reflexivity. }
  destruct o as [t cb|]; cbn [step].
  - destruct (asf_save f t cb) eqn:E; [eapply Hsave; eassumption|auto].
  - unfold asf_delete. destruct (asf_save f [] _) eqn:E; [eapply Hsave; eassumption|auto].
Qed.
Theorem history_keeps ops : forall f, asf_wf f = true -> has_ext f = true ->
  asf_wf (fold_left step ops f) = true /\ foreign_of (fold_left step ops f) = foreign_of f.
Proof.
  induction ops as [|o ops IH]; intros f Hw He; cbn [fold_left]; [split; [exact Hw|reflexivity]|].
  destruct (step_keeps f o Hw He) as (A & B & C). destruct (IH _ A B) as [D E].
  split; [exact D|]. rewrite E. exact C.
Qed.

(* the data section of the saved file is the old one, found behind the new header *)
Lemma header_size_parse f s : asf_parse f = Ok s -> sdata s = zdrop (header_size f) f /\ 30 <= header_size f <= zlen f.
Proof.
  unfold asf_parse. destruct (_ || _); [discriminate|]. destruct (negb _); [discriminate|].
  destruct (_ || _) eqn:E; [discriminate|]. apply orb_false_iff in E as [E1 E2].
  destruct (walk_objs _ _); [|discriminate]. destruct (negb _); [discriminate|]. destruct (classify _); [|discriminate].
  intros H; inversion H. cbn [sdata]. unfold header_size. split; [reflexivity|lia].
Qed.
Theorem asf_save_data_suffix f t cb f' : asf_save f t cb = Ok f' ->
  exists s', asf_parse f' = Ok s' /\ sdata s' = zdrop (header_size f) f /\
    zdrop (header_size f') f' = zdrop (header_size f) f.
Proof.
  intros H. destruct (asf_save_parse _ _ _ _ H) as (objs & ts & _ & A).
  eexists. split; [exact A|]. split; [reflexivity|].
  destruct (header_size_parse _ _ A) as [B _]. cbn [sdata] in B. symmetry. exact B.
Qed.
