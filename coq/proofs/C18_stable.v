(* C18: per-type stability of File's choice over the regenerated scores. *)
From Coq Require Import ZArith List Bool Lia.
Import ListNotations.
Require Import Base.Py Model.ScorePrims Gen.Gen_scores Model.Score Proofs.C18_prims.
Open Scope Z_scope.

Ltac open_named :=
  intros fname header trailer (ext & Hin & Hew) Hfam;
  cbn [usual_exts In] in Hin; cbn [family family0] in Hfam; unfold starts, has in Hfam;
  unfold picks; destruct trailer as [footer|].

Lemma stable_FLAC : forall fname header trailer,
  named_as C_FLAC fname -> family C_FLAC header trailer -> picks C_FLAC fname header trailer.
Proof.
  open_named; (destruct Hin as [<-|[]]); destruct Hfam as [Hsw|Hsw]; decide_named Hsw Hew.
Time Qed.

Lemma stable_OggTheora : forall fname header trailer,
  named_as C_OggTheora fname -> family C_OggTheora header trailer -> picks C_OggTheora fname header trailer.
Proof.
  open_named; destruct Hfam as [Hsw Hm]; repeat (destruct Hin as [<-|Hin]; [decide_named Hsw Hew|]); contradiction.
Time Qed.
