(* Ogg family: what the page search and the collection of the old pages return on a page list with offsets:
   the file splits into  before ++ [o1] ++ G1 ++ ... ++ [on] ++ Gn  (the `run` of C15_replace) *)
From Coq Require Import ZArith List Bool Lia.
Import ListNotations.
Require Import Base.Py Base.ZList Model.Crc Model.Ogg Model.Fam_flac Model.Fam_ogg.
Require Import Proofs.C15_lacing Proofs.C15_page Proofs.C15_unpage Proofs.C15_paging Proofs.C15_from_packets Proofs.C15_file
  Proofs.C15_replace Proofs.Fam_ogg_scan.
Open Scope Z_scope.

Lemma ogg_is_serial_eq s : ogg_f_is_serial s = is_serial s.
Proof. reflexivity. Qed.

(* the search returns a suffix of the page sequence *)
Lemma find_offs test pages : forall pos l', ogg_f_find test (ogg_offs pos pages) = Some l' ->
  exists before rest, pages = before ++ rest /\ rest <> [] /\ l' = ogg_offs (pos + zlen (render_all before)) rest /\
                      test (hd new_page rest) = true.
Proof.
  induction pages as [|p r IH]; intros pos l' H; [discriminate|].
  cbn [ogg_offs ogg_f_find snd] in H. destruct (test p) eqn:T.
  - inversion H; subst l'. exists [], (p :: r). cbn [app render_all map concat hd]. rewrite zlen_nil, Z.add_0_r.
    repeat split; [discriminate|exact T].
  - destruct (IH _ _ H) as (b & rest & E & Hne & El & Ht). exists (p :: b), rest. subst r.
    split; [reflexivity|]. split; [exact Hne|]. split; [|exact Ht].
    rewrite El, render_all_cons, zlen_app, page_bytes_len. f_equal. lia.
Qed.

Lemma need_ok {A} eof (o : option A) x : ogg_f_need eof o = Ok x -> o = Some x.
Proof. destruct o; cbn; intros E; inversion E; reflexivity. Qed.

(* every codec's search: the comment pages start somewhere in the file *)
Lemma locate_offs c pages eof l' : ogg_f_locate c (ogg_offs 0 pages) eof = Ok l' ->
  exists before rest, pages = before ++ rest /\ rest <> [] /\ l' = ogg_offs (zlen (render_all before)) rest.
Proof.
  assert (F1 : forall test pos pg l', ogg_f_find test (ogg_offs pos pg) = Some l' ->
             exists before rest, pg = before ++ rest /\ rest <> [] /\ l' = ogg_offs (pos + zlen (render_all before)) rest).
  { intros test pos pg l0 H. destruct (find_offs test pg pos l0 H) as (b & r & A & B & C & _). exists b, r. auto. }
  (* a second search in the pages behind (or from) the header page *)
  assert (F2 : forall test1 test2 (incl : bool) l0,
             match ogg_f_find test1 (ogg_offs 0 pages) with
             | Some (h :: r) => ogg_f_find test2 (if incl then h :: r else r)
             | _ => None end = Some l0 ->
             exists before rest, pages = before ++ rest /\ rest <> [] /\ l0 = ogg_offs (zlen (render_all before)) rest).
  { intros test1 test2 incl l0 H. destruct (ogg_f_find test1 (ogg_offs 0 pages)) as [[|h r]|] eqn:E1; try discriminate.
    destruct (F1 _ _ _ _ E1) as (b1 & r1 & A1 & B1 & C1). destruct r1 as [|p1 r1]; [contradiction|].
    cbn [ogg_offs] in C1. inversion C1; subst h r. clear C1.
    destruct incl.
    - destruct (F1 test2 (0 + zlen (render_all b1)) (p1 :: r1) l0 H) as (b2 & r2 & A2 & B2 & C2). exists (b1 ++ b2), r2.
      split; [rewrite A1, A2, <- app_assoc; reflexivity|]. split; [exact B2|].
      rewrite C2, render_all_app, zlen_app. f_equal; lia.
    - destruct (F1 _ _ _ _ H) as (b2 & r2 & A2 & B2 & C2). exists (b1 ++ p1 :: b2), r2.
      split; [rewrite A1, A2, <- app_assoc; reflexivity|]. split; [exact B2|].
      rewrite C2, render_all_app, render_all_cons, !zlen_app, page_bytes_len. f_equal; lia. }
  destruct c; cbn [ogg_f_locate]; intros H.
  - (* Vorbis *)
    destruct (ogg_f_find (ogg_f_pk0 ogg_f_vorbis1) (ogg_offs 0 pages)) as [[|h r]|] eqn:E1; try discriminate.
    apply need_ok in H.
    apply (F2 (ogg_f_pk0 ogg_f_vorbis1) (fun p => (p_serial p =? p_serial (snd h)) && ogg_f_pk0 ogg_f_vorbis3 p) false).
    rewrite E1. exact H.
  - (* Opus *)
    destruct (ogg_f_find (ogg_f_pk0 ogg_f_opushead) (ogg_offs 0 pages)) as [[|h r]|] eqn:E1; try discriminate.
    destruct (negb (first (snd h))); [discriminate|].
    destruct (negb (zlen (zslice 8 19 (hd [] (p_packets (snd h)))) =? 11)); [discriminate|].
    destruct (negb (znth 0 (zslice 8 19 (hd [] (p_packets (snd h)))) / 16 =? 0)); [discriminate|].
    apply need_ok in H.
    apply (F2 (ogg_f_pk0 ogg_f_opushead) (fun p => (p_serial p =? p_serial (snd h)) && ogg_f_pk0 ogg_f_opustags p) false).
    rewrite E1. exact H.
  - (* Speex *)
    destruct (ogg_f_find (ogg_f_pk0 ogg_f_speex) (ogg_offs 0 pages)) as [[|h r]|] eqn:E1; try discriminate.
    apply need_ok in H.
    apply (F2 (ogg_f_pk0 ogg_f_speex) (fun p => p_serial p =? p_serial (snd h)) false). rewrite E1. exact H.
  - (* Theora *)
    destruct (ogg_f_find (ogg_f_pk0 ogg_f_theora80) (ogg_offs 0 pages)) as [[|h r]|] eqn:E1; try discriminate.
    apply need_ok in H.
    apply (F2 (ogg_f_pk0 ogg_f_theora80) (fun p => (p_serial p =? p_serial (snd h)) && ogg_f_pk0 ogg_f_theora81 p) false).
    rewrite E1. exact H.
  - (* OggFLAC *)
    destruct (ogg_f_find (ogg_f_pk0 ogg_f_7fflac) (ogg_offs 0 pages)) as [[|h r]|] eqn:E1; try discriminate.
    apply need_ok in H.
    apply (F2 (ogg_f_pk0 ogg_f_7fflac) (fun p => (p_sequence p =? 1) && (p_serial p =? p_serial (snd h))) true).
    rewrite E1. exact H.
Qed.

(* the collection: old pages o1..on of stream s; between them only pages of other streams; all but the last are
   unfinished (incomplete with a single packet), the last one is complete or carries more than one packet *)
Lemma collect_offs s eof pages : forall pos olds, ogg_f_collect s (ogg_offs pos pages) eof = Ok olds ->
  exists pre (a : run_t) on Gn,
    pages = pre ++ old_pages_of (a ++ [(on, Gn)]) /\ filter (is_serial s) pre = [] /\
    olds = old_args (pos + zlen (render_all pre)) (a ++ [(on, Gn)]) /\
    Forall (fun og => p_serial (fst og) = s) (a ++ [(on, Gn)]) /\
    Forall (fun og => filter (is_serial s) (snd og) = []) a /\
    Forall (fun og => ogg_f_finished (fst og) = false) a /\ ogg_f_finished on = true.
Proof.
  induction pages as [|p r IH]; intros pos olds H; [discriminate|].
  cbn [ogg_offs ogg_f_collect snd] in H. destruct (p_serial p =? s) eqn:Es.
  - apply Z.eqb_eq in Es. destruct (ogg_f_finished p) eqn:Fi.
    + inversion H; subst olds. exists [], [], p, r. cbn [app]. unfold old_pages_of. cbn [map concat fst snd app].
      rewrite app_nil_r. cbn [render_all map concat old_args]. rewrite zlen_nil, Z.add_0_r.
      repeat split; try constructor; try assumption; try constructor.
    + destruct (ogg_f_collect s (ogg_offs (pos + page_size p) r) eof) as [olds'|e] eqn:R; [|discriminate].
      inversion H; subst olds. clear H.
      destruct (IH _ _ R) as (pre & a & on & Gn & E & Fp & Eo & Hs & Hg & Hf & Hl).
      exists [], ((p, pre) :: a), on, Gn. cbn [app]. unfold old_pages_of. cbn [map concat fst snd].
      fold (old_pages_of (a ++ [(on, Gn)])). cbn [render_all map concat]. rewrite zlen_nil, Z.add_0_r.
      split; [cbn [app]; rewrite <- E; reflexivity|]. split; [reflexivity|].
      split.
      { cbn [old_args]. f_equal. rewrite Eo. f_equal; lia. }
      split; [constructor; [exact Es|exact Hs]|]. split; [constructor; [exact Fp|exact Hg]|].
      split; [constructor; [exact Fi|exact Hf]|exact Hl].
  - destruct (IH _ _ H) as (pre & a & on & Gn & E & Fp & Eo & Hs & Hg & Hf & Hl).
    exists (p :: pre), a, on, Gn. split; [cbn [app]; rewrite <- E; reflexivity|].
    split; [cbn [filter]; unfold is_serial at 1; rewrite Es; exact Fp|].
    split; [rewrite Eo, render_all_cons, zlen_app, page_bytes_len; f_equal; lia|]. auto.
Qed.

(* when the first page already belongs to the stream nothing is skipped *)
Lemma collect_offs_head s eof p r pos olds : p_serial p = s ->
  ogg_f_collect s (ogg_offs pos (p :: r)) eof = Ok olds ->
  exists (a : run_t) on Gn,
    p :: r = old_pages_of (a ++ [(on, Gn)]) /\ olds = old_args pos (a ++ [(on, Gn)]) /\
    Forall (fun og => p_serial (fst og) = s) (a ++ [(on, Gn)]) /\
    Forall (fun og => filter (is_serial s) (snd og) = []) a /\
    Forall (fun og => ogg_f_finished (fst og) = false) a /\ ogg_f_finished on = true.
Proof.
  intros Hs H. destruct (collect_offs s eof (p :: r) pos olds H) as (pre & a & on & Gn & E & Fp & Eo & R).
  destruct pre as [|q pre].
  - cbn [app render_all map concat] in *. rewrite zlen_nil, Z.add_0_r in Eo. exists a, on, Gn. auto.
  - cbn [app] in E. inversion E; subst q. cbn [filter] in Fp. unfold is_serial at 1 in Fp.
    rewrite Hs, Z.eqb_refl in Fp. discriminate.
Qed.
