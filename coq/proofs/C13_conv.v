(* C13: update_to_v23 / update_to_v24 -- what is carried, round trip, idempotence. *)
From Coq Require Import ZArith List Bool Lia.
Import ListNotations.
Require Import Base.Py Base.ZList Model.Id3Util Model.Id3Conv Proofs.C13_dict Proofs.C13_stamp Proofs.C14_unsynch.
Open Scope Z_scope.

Ltac kne := let E := fresh in intro E;
  cbv [s_TCON s_TIPL s_TMCL s_IPLS s_TDOR s_TORY s_TDRC s_TYER s_TDAT s_TIME s_TIT2 s_TPE1 s_TALB s_TRCK s_COMM
       s_RVAD s_EQUA s_TRDA s_TSIZ s_ASPI s_EQU2 s_RVA2 s_SEEK s_SIGN s_TDEN s_TDRL s_TDTG s_TMOO s_TPRO s_TSOA
       s_TSOP s_TSOT s_TSST s_TXXX_ s_COMM_ s_APIC_ s_CHAP_ s_CTOC_ app] in E; discriminate E.

(* ---------------------------------------------------------------- frame maps used by the conversions *)
Lemma common_key G f : conv_key (conv_common_frame G f) = conv_key f.
Proof.
  destruct f; try reflexivity; cbn [conv_common_frame].
  - destruct (list_eqb id s_TCON); reflexivity.
  - destruct (list_eqb mime s_PNG); [reflexivity|]. destruct (list_eqb mime s_JPG); reflexivity.
Qed.
Lemma rec23_key G f : conv_key (conv_rec23 G f) = conv_key f.
Proof. destruct f; reflexivity. Qed.
Lemma rec24_key G f : conv_key (conv_rec24 G f) = conv_key f.
Proof. destruct f; reflexivity. Qed.

Lemma common_stamps G f : conv_stamps_of (conv_common_frame G f) = conv_stamps_of f.
Proof.
  destruct f; try reflexivity; cbn [conv_common_frame].
  - destruct (list_eqb id s_TCON); reflexivity.
  - destruct (list_eqb mime s_PNG); [reflexivity|]. destruct (list_eqb mime s_JPG); reflexivity.
Qed.
Lemma common_people G f : conv_people_of (conv_common_frame G f) = conv_people_of f.
Proof.
  destruct f; try reflexivity; cbn [conv_common_frame].
  - destruct (list_eqb id s_TCON); reflexivity.
  - destruct (list_eqb mime s_PNG); [reflexivity|]. destruct (list_eqb mime s_JPG); reflexivity.
Qed.
Lemma common_enc G f : conv_enc_of (conv_common_frame G f) = conv_enc_of f.
Proof.
  destruct f; try reflexivity; cbn [conv_common_frame].
  - destruct (list_eqb id s_TCON); reflexivity.
  - destruct (list_eqb mime s_PNG); [reflexivity|]. destruct (list_eqb mime s_JPG); reflexivity.
Qed.
Lemma rec23_stamps G f : conv_stamps_of (conv_rec23 G f) = conv_stamps_of f. Proof. destruct f; reflexivity. Qed.
Lemma rec23_people G f : conv_people_of (conv_rec23 G f) = conv_people_of f. Proof. destruct f; reflexivity. Qed.
Lemma rec23_enc G f : conv_enc_of (conv_rec23 G f) = conv_enc_of f. Proof. destruct f; reflexivity. Qed.
Lemma rec23_texts G f : conv_texts_of (conv_rec23 G f) = conv_texts_of f. Proof. destruct f; reflexivity. Qed.
Lemma rec24_stamps G f : conv_stamps_of (conv_rec24 G f) = conv_stamps_of f. Proof. destruct f; reflexivity. Qed.
Lemma rec24_people G f : conv_people_of (conv_rec24 G f) = conv_people_of f. Proof. destruct f; reflexivity. Qed.
Lemma rec24_enc G f : conv_enc_of (conv_rec24 G f) = conv_enc_of f. Proof. destruct f; reflexivity. Qed.
Lemma rec24_texts G f : conv_texts_of (conv_rec24 G f) = conv_texts_of f. Proof. destruct f; reflexivity. Qed.
(* the texts of a frame other than TCON are not touched by __update_common *)
Lemma common_texts G f : conv_key f <> s_TCON -> conv_texts_of (conv_common_frame G f) = conv_texts_of f.
Proof.
  destruct f; try reflexivity; cbn [conv_common_frame conv_key]; intro N.
  - destruct (list_eqb id s_TCON) eqn:E; [apply list_eqb_spec in E; contradiction | reflexivity].
  - destruct (list_eqb mime s_PNG); [reflexivity|]. destruct (list_eqb mime s_JPG); reflexivity.
Qed.

(* level input of update_to_v23: sub-frames converted, then __update_common *)
Definition g23 (G : list text) (f : frame) : frame := conv_common_frame G (conv_rec23 G f).
Definition g24 (G : list text) (f : frame) : frame := conv_common_frame G (conv_rec24 G f).
Lemma g23_key G f : conv_key (g23 G f) = conv_key f. Proof. unfold g23. rewrite common_key. apply rec23_key. Qed.
Lemma g24_key G f : conv_key (g24 G f) = conv_key f. Proof. unfold g24. rewrite common_key. apply rec24_key. Qed.
Lemma common_map23 G t : conv_common G (map (conv_rec23 G) t) = map (g23 G) t.
Proof. unfold conv_common. rewrite map_map. reflexivity. Qed.
Lemma common_map24 G t : conv_common G (map (conv_rec24 G) t) = map (g24 G) t.
Proof. unfold conv_common. rewrite map_map. reflexivity. Qed.
Lemma g23_stamps G f : conv_stamps_of (g23 G f) = conv_stamps_of f. Proof. unfold g23. rewrite common_stamps. apply rec23_stamps. Qed.
Lemma g23_people G f : conv_people_of (g23 G f) = conv_people_of f. Proof. unfold g23. rewrite common_people. apply rec23_people. Qed.
Lemma g23_enc G f : conv_enc_of (g23 G f) = conv_enc_of f. Proof. unfold g23. rewrite common_enc. apply rec23_enc. Qed.
Lemma g24_stamps G f : conv_stamps_of (g24 G f) = conv_stamps_of f. Proof. unfold g24. rewrite common_stamps. apply rec24_stamps. Qed.
Lemma g24_people G f : conv_people_of (g24 G f) = conv_people_of f. Proof. unfold g24. rewrite common_people. apply rec24_people. Qed.
Lemma g24_enc G f : conv_enc_of (g24 G f) = conv_enc_of f. Proof. unfold g24. rewrite common_enc. apply rec24_enc. Qed.
Lemma g24_texts G f : conv_key f <> s_TCON -> conv_texts_of (g24 G f) = conv_texts_of f.
Proof. intro N. unfold g24. rewrite common_texts by (rewrite rec24_key; exact N). apply rec24_texts. Qed.

(* ---------------------------------------------------------------- each step leaves the other keys alone *)
Lemma people23_get k t : k <> s_TIPL -> k <> s_TMCL -> k <> s_IPLS -> conv_get k (conv_people23 t) = conv_get k t.
Proof.
  intros A B C. unfold conv_people23. destruct (conv_has s_TIPL t || conv_has s_TMCL t); [|reflexivity].
  rewrite get_add_if_other by exact C. rewrite !get_del_other by assumption. reflexivity.
Qed.
Lemma tdor23_get k t : k <> s_TDOR -> k <> s_TORY -> conv_get k (conv_tdor23 t) = conv_get k t.
Proof.
  intros A B. unfold conv_tdor23. destruct (conv_get s_TDOR t) as [f|]; [|reflexivity].
  destruct (conv_stamps_of f); [apply get_del_other; exact A|].
  rewrite get_add_if_other by exact B. apply get_del_other; exact A.
Qed.
Lemma tdrc23_get k t : k <> s_TDRC -> k <> s_TYER -> k <> s_TDAT -> k <> s_TIME -> conv_get k (conv_tdrc23 t) = conv_get k t.
Proof.
  intros A B C D. unfold conv_tdrc23. destruct (conv_get s_TDRC t) as [f|]; [|reflexivity].
  destruct (conv_stamps_of f); [apply get_del_other; exact A|].
  rewrite !get_add_if_other by assumption. apply get_del_other; exact A.
Qed.
Lemma dates24_get k t : k <> s_TYER -> k <> s_TDAT -> k <> s_TIME -> k <> s_TDRC -> conv_get k (conv_dates24 t) = conv_get k t.
Proof.
  intros A B C D. unfold conv_dates24. rewrite get_add_if_other by exact D. rewrite !get_del_other by assumption. reflexivity.
Qed.
Lemma tory24_get k t : k <> s_TORY -> k <> s_TDOR -> conv_get k (conv_tory24 t) = conv_get k t.
Proof.
  intros A B. unfold conv_tory24. destruct (conv_get s_TORY t) as [f|]; [|reflexivity].
  rewrite get_add_if_other by exact B. apply get_del_other; exact A.
Qed.
Lemma ipls24_get k t : k <> s_IPLS -> k <> s_TIPL -> conv_get k (conv_ipls24 t) = conv_get k t.
Proof.
  intros A B. unfold conv_ipls24. destruct (conv_get s_IPLS t) as [f|]; [|reflexivity].
  rewrite get_add_if_other by exact B. apply get_del_other; exact A.
Qed.
Lemma has_of_get k t t' : conv_get k t = conv_get k t' -> conv_has k t = conv_has k t'.
Proof. intro H. rewrite !has_get, H. reflexivity. Qed.

(* ---------------------------------------------------------------- update_to_v23: what the steps create *)
Section V23.
Variable G : list text.

(* TIPL + TMCL -> IPLS *)
Lemma people23_ipls t : conv_has s_TIPL t || conv_has s_TMCL t = true -> conv_has s_IPLS t = false ->
  conv_get s_IPLS (conv_people23 t) =
  Some (FPeople s_IPLS (match conv_get s_TMCL t with
                        | Some f => conv_enc_of f
                        | None => match conv_get s_TIPL t with Some f => conv_enc_of f | None => 1 end
                        end)
                (conv_opt_people (conv_get s_TIPL t) ++ conv_opt_people (conv_get s_TMCL t))).
Proof.
  intros H N. unfold conv_people23. rewrite H.
  match goal with |- conv_get _ (conv_add_if true ?f ?t) = _ => change s_IPLS with (conv_key f) at 1; rewrite (get_add_if_same true f t) end.
  cbn [conv_key]. rewrite !has_del_other by kne. rewrite N. reflexivity.
Qed.

(* TDOR -> TORY *)
Lemma tdor23_tory t f d ds : conv_get s_TDOR t = Some f -> conv_stamps_of f = d :: ds -> conv_has s_TORY t = false ->
  conv_get s_TORY (conv_tdor23 t) =
  if conv_truthy (st_year d) then Some (FText s_TORY (conv_enc_of f) [conv_fmt 4 (conv_oz (st_year d))]) else None.
Proof.
  intros H S N. unfold conv_tdor23. rewrite H, S.
  match goal with |- conv_get _ (conv_add_if ?c ?f ?t) = _ => change s_TORY with (conv_key f) at 1; rewrite (get_add_if_same c f t) end.
  cbn [conv_key]. rewrite has_del_other by kne. rewrite N, andb_true_r.
  destruct (conv_truthy (st_year d)); [reflexivity|]. rewrite get_del_other by kne. apply has_false_get. exact N.
Qed.

(* TDRC -> TYER, TDAT, TIME *)
Definition tyer_of (e : Z) (d : conv_stamp) := FText s_TYER e [conv_fmt 4 (conv_oz (st_year d))].
Definition tdat_of (e : Z) (d : conv_stamp) := FText s_TDAT e [conv_fmt 2 (conv_oz (st_day d)) ++ conv_fmt 2 (conv_oz (st_month d))].
Definition time_of (e : Z) (d : conv_stamp) := FText s_TIME e [conv_fmt 2 (conv_oz (st_hour d)) ++ conv_fmt 2 (conv_oz (st_minute d))].

Lemma tdrc23_spec t f d ds : conv_get s_TDRC t = Some f -> conv_stamps_of f = d :: ds ->
  conv_has s_TYER t = false -> conv_has s_TDAT t = false -> conv_has s_TIME t = false ->
  conv_get s_TYER (conv_tdrc23 t) = (if conv_truthy (st_year d) then Some (tyer_of (conv_enc_of f) d) else None) /\
  conv_get s_TDAT (conv_tdrc23 t) = (if conv_truthy (st_month d) && conv_truthy (st_day d) then Some (tdat_of (conv_enc_of f) d) else None) /\
  conv_get s_TIME (conv_tdrc23 t) = (if conv_truthy (st_hour d) && conv_truthy (st_minute d) then Some (time_of (conv_enc_of f) d) else None).
Proof.
  intros H S N1 N2 N3. unfold conv_tdrc23. rewrite H, S.
  set (t1 := conv_del s_TDRC t).
  assert (A1 : conv_has s_TYER t1 = false) by (unfold t1; rewrite has_del_other by kne; exact N1).
  assert (A2 : conv_has s_TDAT t1 = false) by (unfold t1; rewrite has_del_other by kne; exact N2).
  assert (A3 : conv_has s_TIME t1 = false) by (unfold t1; rewrite has_del_other by kne; exact N3).
  fold (tyer_of (conv_enc_of f) d). fold (tdat_of (conv_enc_of f) d). fold (time_of (conv_enc_of f) d).
  set (fy := tyer_of (conv_enc_of f) d). set (fd := tdat_of (conv_enc_of f) d). set (ft := time_of (conv_enc_of f) d).
  set (cy := conv_truthy (st_year d)). set (cd := conv_truthy (st_month d) && conv_truthy (st_day d)).
  set (ct := conv_truthy (st_hour d) && conv_truthy (st_minute d)).
  set (t2 := conv_add_if cy fy t1). set (t3 := conv_add_if cd fd t2).
  assert (Ky : conv_key fy = s_TYER) by reflexivity.
  assert (Kd : conv_key fd = s_TDAT) by reflexivity.
  assert (Kt : conv_key ft = s_TIME) by reflexivity.
  split; [|split].
  - unfold t3. rewrite !get_add_if_other by (rewrite ?Kd, ?Kt; kne).
    unfold t2. rewrite <- Ky at 1. rewrite get_add_if_same. rewrite Ky, A1, andb_true_r.
    destruct cy; [reflexivity | apply has_false_get; exact A1].
  - rewrite get_add_if_other by (rewrite Kt; kne). unfold t3. rewrite <- Kd at 1. rewrite get_add_if_same.
    rewrite Kd. unfold t2. rewrite has_add_if_other by (rewrite Ky; kne). rewrite A2, andb_true_r.
    destruct cd; [reflexivity|]. rewrite get_add_if_other by (rewrite Ky; kne). apply has_false_get; exact A2.
  - rewrite <- Kt at 1. rewrite get_add_if_same. rewrite Kt. unfold t3, t2.
    rewrite !has_add_if_other by (rewrite ?Ky, ?Kd; kne). rewrite A3, andb_true_r.
    destruct ct; [reflexivity|]. rewrite !get_add_if_other by (rewrite ?Ky, ?Kd; kne). apply has_false_get; exact A3.
Qed.

(* the level before the TDRC step, seen from a key that the people / TDOR steps do not touch *)
Lemma pre_tdrc_get k t : k <> s_TIPL -> k <> s_TMCL -> k <> s_IPLS -> k <> s_TDOR -> k <> s_TORY ->
  conv_get k (conv_tdor23 (conv_people23 (conv_common G (map (conv_rec23 G) t)))) = option_map (g23 G) (conv_get k t).
Proof.
  intros. rewrite tdor23_get, people23_get by assumption. rewrite common_map23. apply get_map. apply g23_key.
Qed.
Lemma pre_tdrc_has k t : k <> s_TIPL -> k <> s_TMCL -> k <> s_IPLS -> k <> s_TDOR -> k <> s_TORY ->
  conv_has k (conv_tdor23 (conv_people23 (conv_common G (map (conv_rec23 G) t)))) = conv_has k t.
Proof. intros. rewrite !has_get, pre_tdrc_get by assumption. destruct (conv_get k t); reflexivity. Qed.

Theorem v23_carries_date t f d ds : conv_get s_TDRC t = Some f -> conv_stamps_of f = d :: ds ->
  conv_has s_TYER t = false -> conv_has s_TDAT t = false -> conv_has s_TIME t = false ->
  let u := conv_update_to_v23 G t in
  conv_get s_TYER u = (if conv_truthy (st_year d) then Some (tyer_of (conv_enc_of f) d) else None) /\
  conv_get s_TDAT u = (if conv_truthy (st_month d) && conv_truthy (st_day d) then Some (tdat_of (conv_enc_of f) d) else None) /\
  conv_get s_TIME u = (if conv_truthy (st_hour d) && conv_truthy (st_minute d) then Some (time_of (conv_enc_of f) d) else None).
Proof.
  intros H S N1 N2 N3 u. unfold u, conv_update_to_v23, conv_top23.
  rewrite !get_del_all by reflexivity.
  set (T := conv_tdor23 (conv_people23 (conv_common G (map (conv_rec23 G) t)))).
  assert (HT : conv_get s_TDRC T = Some (g23 G f)) by (unfold T; rewrite pre_tdrc_get by kne; rewrite H; reflexivity).
  assert (ST : conv_stamps_of (g23 G f) = d :: ds) by (rewrite g23_stamps; exact S).
  pose proof (tdrc23_spec T (g23 G f) d ds HT ST
    ltac:(unfold T; rewrite pre_tdrc_has by kne; exact N1)
    ltac:(unfold T; rewrite pre_tdrc_has by kne; exact N2)
    ltac:(unfold T; rewrite pre_tdrc_has by kne; exact N3)) as R.
  rewrite g23_enc in R. exact R.
Qed.

Theorem v23_carries_orig_year t f d ds : conv_get s_TDOR t = Some f -> conv_stamps_of f = d :: ds -> conv_has s_TORY t = false ->
  conv_get s_TORY (conv_update_to_v23 G t) =
  if conv_truthy (st_year d) then Some (FText s_TORY (conv_enc_of f) [conv_fmt 4 (conv_oz (st_year d))]) else None.
Proof.
  intros H S N. unfold conv_update_to_v23, conv_top23. rewrite get_del_all by reflexivity.
  rewrite tdrc23_get by kne.
  set (T := conv_people23 (conv_common G (map (conv_rec23 G) t))).
  assert (HT : conv_get s_TDOR T = Some (g23 G f)).
  { unfold T. rewrite people23_get by kne. rewrite common_map23, get_map by apply g23_key. rewrite H. reflexivity. }
  assert (NT : conv_has s_TORY T = false).
  { unfold T. rewrite (has_of_get s_TORY _ (conv_common G (map (conv_rec23 G) t))) by (apply people23_get; kne).
    rewrite common_map23, has_map by apply g23_key. exact N. }
  rewrite (tdor23_tory T (g23 G f) d ds HT ltac:(rewrite g23_stamps; exact S) NT). rewrite g23_enc. reflexivity.
Qed.

Theorem v23_carries_people t : conv_has s_TIPL t || conv_has s_TMCL t = true -> conv_has s_IPLS t = false ->
  conv_get s_IPLS (conv_update_to_v23 G t) =
  Some (FPeople s_IPLS (match conv_get s_TMCL t with
                        | Some f => conv_enc_of f
                        | None => match conv_get s_TIPL t with Some f => conv_enc_of f | None => 1 end
                        end)
                (conv_opt_people (conv_get s_TIPL t) ++ conv_opt_people (conv_get s_TMCL t))).
Proof.
  intros H N. unfold conv_update_to_v23, conv_top23. rewrite get_del_all by reflexivity.
  rewrite tdrc23_get, tdor23_get by kne. rewrite common_map23.
  rewrite people23_ipls; rewrite ?has_map by apply g23_key; try assumption.
  rewrite !get_map by apply g23_key.
  destruct (conv_get s_TIPL t) as [a|], (conv_get s_TMCL t) as [b|]; cbn [option_map conv_opt_people];
    rewrite ?g23_enc, ?g23_people; reflexivity.
Qed.

(* nothing that exists only in v2.4 (plain HashKey) is left *)
Theorem v23_drops_v24_only t k : In k conv_v24_only -> conv_has k (conv_update_to_v23 G t) = false.
Proof. intro H. unfold conv_update_to_v23, conv_top23. apply has_del_all_in. apply In_existsb. exact H. Qed.
End V23.

(* ---------------------------------------------------------------- update_to_v24: what the steps create *)
Lemma digits_nosep c l : conv_all_digits l = true -> c < 48 -> nosep c l.
Proof.
  intros H Hc. unfold nosep. apply Forall_forall. intros x Hx. unfold conv_all_digits in H. rewrite forallb_forall in H.
  specialize (H x Hx). apply is_digit_range in H. lia.
Qed.
Lemma In_firstn' {A} n (l : list A) x : In x (firstn n l) -> In x l.
Proof. revert l. induction n; intros l H; [destruct H|]. destruct l; [exact H|]. destruct H as [H|H]; [left; exact H | right; apply IHn; exact H]. Qed.
Lemma all_digits_ztake n l : conv_all_digits l = true -> conv_all_digits (ztake n l) = true.
Proof.
  unfold conv_all_digits, ztake. intro H. apply forallb_forall. intros x Hx. rewrite forallb_forall in H. apply H.
  eapply In_firstn'. exact Hx.
Qed.
Lemma In_skipn {A} n (l : list A) x : In x (skipn n l) -> In x l.
Proof. revert l. induction n; intros l H; [exact H|]. destruct l; [exact H|]. right. apply IHn. exact H. Qed.
Lemma all_digits_zdrop n l : conv_all_digits l = true -> conv_all_digits (zdrop n l) = true.
Proof.
  unfold conv_all_digits, zdrop. intro H. apply forallb_forall. intros x Hx. rewrite forallb_forall in H. apply H.
  eapply In_skipn. exact Hx.
Qed.
Lemma zlen_pos_nonnil {A} (l : list A) : 0 < zlen l -> l <> [].
Proof. intros H E. subst. cbn in H. lia. Qed.

Lemma is_4digits_true s : conv_is_4digits s = true <-> zlen s = 4 /\ conv_all_digits s = true.
Proof. unfold conv_is_4digits. rewrite andb_true_iff, Z.eqb_eq. tauto. Qed.
Lemma match_year_4 Y : conv_is_4digits Y = true -> conv_match_year Y = Some (Y, None).
Proof. intro H. unfold conv_match_year. rewrite H. reflexivity. Qed.

Lemma zdrop_app_n {A} n (a b : list A) : zlen a = n -> zdrop n (a ++ b) = b.
Proof. intros <-. apply zdrop_app_exact. Qed.
Lemma ztake_app_n {A} n (a b : list A) : zlen a = n -> ztake n (a ++ b) = a.
Proof. intros <-. apply ztake_app_exact. Qed.
Lemma ts_year Y dm hm : conv_is_4digits Y = true -> conv_is_4digits dm = false -> conv_timestamp_of (Y, dm, hm) = Y.
Proof. intros HY N. unfold conv_timestamp_of. rewrite match_year_4 by exact HY. rewrite N. reflexivity. Qed.
Lemma ts_date Y D M hm : conv_is_4digits Y = true -> conv_is_4digits (D ++ M) = true -> zlen D = 2 ->
  conv_is_4digits hm = false -> conv_timestamp_of (Y, D ++ M, hm) = Y ++ (45 :: M ++ 45 :: D) ++ [].
Proof.
  intros HY HD LD N. unfold conv_timestamp_of. rewrite match_year_4 by exact HY. rewrite HD, N.
  rewrite (zdrop_app_n 2 D M LD), (ztake_app_n 2 D M LD). reflexivity.
Qed.
Lemma ts_datetime Y D M H Mi : conv_is_4digits Y = true -> conv_is_4digits (D ++ M) = true -> zlen D = 2 ->
  conv_is_4digits (H ++ Mi) = true -> zlen H = 2 ->
  conv_timestamp_of (Y, D ++ M, H ++ Mi) = Y ++ (45 :: M ++ 45 :: D) ++ (84 :: H ++ 58 :: Mi ++ [58;48;48]).
Proof.
  intros HY HD LD HH LH. unfold conv_timestamp_of. rewrite match_year_4 by exact HY. rewrite HD, HH.
  rewrite (zdrop_app_n 2 D M LD), (ztake_app_n 2 D M LD), (zdrop_app_n 2 H Mi LH), (ztake_app_n 2 H Mi LH). reflexivity.
Qed.

Lemma dates24_one W Y b c : conv_opt_texts (conv_get s_TYER W) = [Y] ->
  conv_opt_texts (conv_get s_TDAT W) = b -> conv_opt_texts (conv_get s_TIME W) = c ->
  (length b <= 1)%nat -> (length c <= 1)%nat -> conv_has s_TDRC W = false ->
  conv_get s_TDRC (conv_dates24 W) =
  let ts := conv_timestamp_of (Y, hd [] b, hd [] c) in
  if conv_nonempty ts then Some (FStamp s_TDRC 0 [conv_stamp_parse ts]) else None.
Proof.
  intros HY Hb Hc Lb Lc N. unfold conv_dates24. rewrite HY, Hb, Hc.
  replace (Nat.max (length [Y]) (Nat.max (length b) (length c))) with 1%nat by (cbn [length]; lia).
  cbn [conv_zip3 map hd filter]. cbv zeta. unfold text in *.
  remember (conv_timestamp_of (Y, hd [] b, hd [] c)) as ts eqn:Ets. clear Ets.
  match goal with |- conv_get _ (conv_add_if ?cnd ?f ?t) = _ => change s_TDRC with (conv_key f) at 1; rewrite (get_add_if_same cnd f t) end.
  cbn [conv_key]. rewrite !has_del_other by kne. rewrite N, andb_true_r.
  destruct (conv_nonempty ts) eqn:E; cbn [conv_nonempty map]; [reflexivity|].
  rewrite !get_del_other by kne. apply has_false_get. exact N.
Qed.

Lemma tory24_tdor W f : conv_get s_TORY W = Some f -> conv_has s_TDOR W = false ->
  conv_get s_TDOR (conv_tory24 W) = Some (FStamp s_TDOR 0 (map conv_stamp_parse (split_on 44 (join_with 0 (conv_texts_of f))))).
Proof.
  intros H N. unfold conv_tory24. rewrite H.
  match goal with |- conv_get _ (conv_add_if true ?g ?t) = _ => change s_TDOR with (conv_key g) at 1; rewrite (get_add_if_same true g t) end.
  cbn [conv_key]. rewrite has_del_other by kne. rewrite N. reflexivity.
Qed.
Lemma ipls24_tipl W f : conv_get s_IPLS W = Some f -> conv_has s_TIPL W = false ->
  conv_get s_TIPL (conv_ipls24 W) = Some (FPeople s_TIPL (conv_enc_of f) (conv_people_of f)).
Proof.
  intros H N. unfold conv_ipls24. rewrite H.
  match goal with |- conv_get _ (conv_add_if true ?g ?t) = _ => change s_TIPL with (conv_key g) at 1; rewrite (get_add_if_same true g t) end.
  cbn [conv_key]. rewrite has_del_other by kne. rewrite N. reflexivity.
Qed.

Section V24.
Variable G : list text.

Lemma opt_texts_g24 k u : k <> s_TCON -> conv_opt_texts (conv_get k (map (g24 G) u)) = conv_opt_texts (conv_get k u).
Proof.
  intro N. rewrite get_map by apply g24_key. destruct (conv_get k u) as [f|] eqn:E; [|reflexivity].
  cbn [option_map conv_opt_texts]. apply g24_texts. rewrite (get_key _ _ _ E). exact N.
Qed.

(* TYER + TDAT + TIME -> TDRC for one well-formed value each *)
Theorem v24_from_v23_date t Y DM HM : conv_opt_texts (conv_get s_TYER t) = [Y] ->
  conv_opt_texts (conv_get s_TDAT t) = [DM] -> conv_opt_texts (conv_get s_TIME t) = [HM] -> conv_has s_TDRC t = false ->
  conv_is_4digits Y = true -> conv_is_4digits DM = true -> conv_is_4digits HM = true ->
  conv_get s_TDRC (conv_update_to_v24 G t) =
  Some (FStamp s_TDRC 0 [mkStamp (Some (dval Y)) (Some (dval (zdrop 2 DM))) (Some (dval (ztake 2 DM)))
                                 (Some (dval (ztake 2 HM))) (Some (dval (zdrop 2 HM))) (Some 0)]).
Proof.
  intros HY HD HT N DY DD DT. unfold conv_update_to_v24, conv_top24.
  rewrite get_del_all by reflexivity. rewrite ipls24_get, tory24_get by kne. rewrite common_map24.
  rewrite (dates24_one _ Y [DM] [HM]); rewrite ?opt_texts_g24 by kne; try assumption; try (cbn; lia).
  2:{ rewrite has_map by apply g24_key. exact N. }
  cbn [hd]. cbv zeta.
  apply is_4digits_true in DY. apply is_4digits_true in DD. apply is_4digits_true in DT.
  destruct DY as [LY AY], DD as [LD AD], DT as [LT AT].
  assert (ED : DM = ztake 2 DM ++ zdrop 2 DM) by (symmetry; apply ztake_zdrop).
  assert (ET : HM = ztake 2 HM ++ zdrop 2 HM) by (symmetry; apply ztake_zdrop).
  assert (L2D : zlen (ztake 2 DM) = 2) by (rewrite zlen_ztake by lia; lia).
  assert (L2T : zlen (ztake 2 HM) = 2) by (rewrite zlen_ztake by lia; lia).
  assert (L2D' : zlen (zdrop 2 DM) = 2) by (rewrite zlen_zdrop by lia; lia).
  assert (L2T' : zlen (zdrop 2 HM) = 2) by (rewrite zlen_zdrop by lia; lia).
  unfold text in *.
  assert (TS : conv_timestamp_of (Y, DM, HM) =
               Y ++ (45 :: zdrop 2 DM ++ 45 :: ztake 2 DM) ++ (84 :: ztake 2 HM ++ 58 :: zdrop 2 HM ++ [58;48;48])).
  { rewrite ED at 1. rewrite ET at 1. apply ts_datetime; try assumption;
      try (apply is_4digits_true; split; [rewrite zlen_app; lia | rewrite all_digits_app, all_digits_ztake, all_digits_zdrop by assumption; reflexivity]);
      try (apply is_4digits_true; split; assumption). }
  rewrite TS.
  replace (conv_nonempty _) with true.
  2:{ destruct Y; [cbn in LY; lia | reflexivity]. }
  rewrite stamp_parse_datetime; try (apply all_digits_ztake; assumption); try (apply all_digits_zdrop; assumption);
    try assumption; try (apply zlen_pos_nonnil; lia). reflexivity.
Qed.

(* TORY -> TDOR (one numeric value) *)
Theorem v24_from_v23_orig_year t f Y : conv_get s_TORY t = Some f -> conv_texts_of f = [Y] -> conv_has s_TDOR t = false ->
  conv_all_digits Y = true -> Y <> [] ->
  conv_get s_TDOR (conv_update_to_v24 G t) = Some (FStamp s_TDOR 0 [mkStamp (Some (dval Y)) None None None None None]).
Proof.
  intros H T N AY NY. unfold conv_update_to_v24, conv_top24.
  rewrite get_del_all by reflexivity. rewrite ipls24_get by kne. rewrite common_map24.
  set (W := conv_dates24 (map (g24 G) t)).
  assert (HW : conv_get s_TORY W = Some (g24 G f)).
  { unfold W. rewrite dates24_get by kne. rewrite get_map by apply g24_key. rewrite H. reflexivity. }
  assert (NW : conv_has s_TDOR W = false).
  { unfold W. rewrite (has_of_get s_TDOR _ (map (g24 G) t)) by (apply dates24_get; kne). rewrite has_map by apply g24_key. exact N. }
  rewrite (tory24_tdor W _ HW NW). rewrite g24_texts by (rewrite (get_key _ _ _ H); kne). rewrite T.
  cbn [join_with]. rewrite split_single by (apply digits_nosep; [exact AY | lia]).
  cbn [map]. rewrite stamp_parse_year by assumption. reflexivity.
Qed.

(* IPLS -> TIPL *)
Theorem v24_from_v23_people t f : conv_get s_IPLS t = Some f -> conv_has s_TIPL t = false ->
  conv_get s_TIPL (conv_update_to_v24 G t) = Some (FPeople s_TIPL (conv_enc_of f) (conv_people_of f)).
Proof.
  intros H N. unfold conv_update_to_v24, conv_top24. rewrite get_del_all by reflexivity. rewrite common_map24.
  set (W := conv_tory24 (conv_dates24 (map (g24 G) t))).
  assert (HW : conv_get s_IPLS W = Some (g24 G f)).
  { unfold W. rewrite tory24_get, dates24_get by kne. rewrite get_map by apply g24_key. rewrite H. reflexivity. }
  assert (NW : conv_has s_TIPL W = false).
  { unfold W. rewrite (has_of_get s_TIPL _ (map (g24 G) t)) by (rewrite tory24_get, dates24_get by kne; reflexivity).
    rewrite has_map by apply g24_key. exact N. }
  rewrite (ipls24_tipl W _ HW NW). rewrite g24_enc, g24_people. reflexivity.
Qed.

Theorem v24_drops_v23_only t k : In k conv_v23_only -> conv_has k (conv_update_to_v24 G t) = false.
Proof. intro H. unfold conv_update_to_v24, conv_top24. apply has_del_all_in. apply In_existsb. exact H. Qed.
End V24.

(* ---------------------------------------------------------------- round trip v2.4 -> v2.3 -> v2.4 *)
Lemma existsb_In k ks : existsb (list_eqb k) ks = true -> In k ks.
Proof. intro H. apply existsb_exists in H. destruct H as (x & Hx & E). apply list_eqb_spec in E. subst. exact Hx. Qed.

(* what survives of a recording date: seconds are dropped, the time needs a complete date *)
Definition stamp_kept (d : conv_stamp) : conv_stamp :=
  if conv_truthy (st_month d) && conv_truthy (st_day d) then
    if conv_truthy (st_hour d) && conv_truthy (st_minute d) then
      mkStamp (Some (conv_oz (st_year d))) (Some (conv_oz (st_month d))) (Some (conv_oz (st_day d)))
              (Some (conv_oz (st_hour d))) (Some (conv_oz (st_minute d))) (Some 0)
    else mkStamp (Some (conv_oz (st_year d))) (Some (conv_oz (st_month d))) (Some (conv_oz (st_day d))) None None None
  else mkStamp (Some (conv_oz (st_year d))) None None None None None.

Lemma fmt4_is4 y : 0 <= y <= 9999 -> conv_is_4digits (conv_fmt 4 y) = true.
Proof. intro H. apply is_4digits_true. split; [apply fmt_len; [change (10 ^ 4) with 10000; lia | lia] | apply fmt_digits; lia]. Qed.
Lemma fmt2_len a : 0 <= a < 100 -> zlen (conv_fmt 2 a) = 2.
Proof. intro H. apply fmt_len; [change (10 ^ 2) with 100; lia | lia]. Qed.
Lemma fmt22_is4 a b : 0 <= a < 100 -> 0 <= b < 100 -> conv_is_4digits (conv_fmt 2 a ++ conv_fmt 2 b) = true.
Proof.
  intros A B. apply is_4digits_true. split.
  - rewrite zlen_app, !fmt2_len by assumption. reflexivity.
  - rewrite all_digits_app, !fmt_digits by lia. reflexivity.
Qed.
Lemma truthy_pos o : 1 <= conv_oz o -> conv_truthy o = true.
Proof. intro H. unfold conv_truthy. apply negb_true_iff. apply Z.eqb_neq. lia. Qed.

Section RoundTrip.
Variable G : list text.

Theorem roundtrip_date t f d ds : conv_get s_TDRC t = Some f -> conv_stamps_of f = d :: ds ->
  conv_has s_TYER t = false -> conv_has s_TDAT t = false -> conv_has s_TIME t = false ->
  1 <= conv_oz (st_year d) <= 9999 -> 0 <= conv_oz (st_month d) < 100 -> 0 <= conv_oz (st_day d) < 100 ->
  0 <= conv_oz (st_hour d) < 100 -> 0 <= conv_oz (st_minute d) < 100 ->
  conv_get s_TDRC (conv_update_to_v24 G (conv_update_to_v23 G t)) = Some (FStamp s_TDRC 0 [stamp_kept d]).
Proof.
  intros H S N1 N2 N3 RY RM RD RH RMi.
  destruct (v23_carries_date G t f d ds H S N1 N2 N3) as (CY & CD & CT).
  set (u := conv_update_to_v23 G t) in *.
  assert (NU : conv_has s_TDRC u = false) by (apply v23_drops_v24_only; apply existsb_In; reflexivity).
  rewrite (truthy_pos (st_year d)) in CY by lia.
  unfold conv_update_to_v24, conv_top24.
  rewrite get_del_all by reflexivity. rewrite ipls24_get, tory24_get by kne. rewrite common_map24.
  set (cd := conv_truthy (st_month d) && conv_truthy (st_day d)) in *.
  set (ct := conv_truthy (st_hour d) && conv_truthy (st_minute d)) in *.
  rewrite (dates24_one _ (conv_fmt 4 (conv_oz (st_year d)))
             (if cd then [conv_fmt 2 (conv_oz (st_day d)) ++ conv_fmt 2 (conv_oz (st_month d))] else [])
             (if ct then [conv_fmt 2 (conv_oz (st_hour d)) ++ conv_fmt 2 (conv_oz (st_minute d))] else [])).
  2:{ rewrite opt_texts_g24 by kne. rewrite CY. reflexivity. }
  2:{ rewrite opt_texts_g24 by kne. rewrite CD. destruct cd; reflexivity. }
  2:{ rewrite opt_texts_g24 by kne. rewrite CT. destruct ct; reflexivity. }
  2:{ destruct cd; cbn; lia. }
  2:{ destruct ct; cbn; lia. }
  2:{ rewrite has_map by apply g24_key. exact NU. }
  cbv zeta. unfold stamp_kept. fold cd. fold ct.
  assert (NE : forall x, conv_nonempty (conv_fmt 4 (conv_oz (st_year d)) ++ x) = true).
  { intro x. pose proof (fmt_nonempty 4 (conv_oz (st_year d)) ltac:(lia)) as NE.
    destruct (conv_fmt 4 (conv_oz (st_year d))); [contradiction | reflexivity]. }
  destruct cd.
  - destruct ct; cbn [hd].
    + rewrite ts_datetime by (try apply fmt4_is4; try apply fmt22_is4; try apply fmt2_len; lia).
      rewrite NE. rewrite stamp_parse_datetime by (try apply fmt_digits; try apply fmt_nonempty; lia).
      rewrite !fmt_val by lia. reflexivity.
    + rewrite ts_date by (try apply fmt4_is4; try apply fmt22_is4; try apply fmt2_len; try reflexivity; lia).
      rewrite NE. rewrite stamp_parse_date by (try apply fmt_digits; try apply fmt_nonempty; lia).
      rewrite !fmt_val by lia. reflexivity.
  - cbn [hd]. rewrite ts_year by (try apply fmt4_is4; try reflexivity; lia).
    rewrite <- (app_nil_r (conv_fmt 4 (conv_oz (st_year d)))) at 1. rewrite NE.
    rewrite stamp_parse_year by (try apply fmt_digits; try apply fmt_nonempty; lia).
    rewrite fmt_val by lia. reflexivity.
Qed.

Theorem roundtrip_orig_year t f d ds : conv_get s_TDOR t = Some f -> conv_stamps_of f = d :: ds -> conv_has s_TORY t = false ->
  1 <= conv_oz (st_year d) ->
  conv_get s_TDOR (conv_update_to_v24 G (conv_update_to_v23 G t)) =
  Some (FStamp s_TDOR 0 [mkStamp (Some (conv_oz (st_year d))) None None None None None]).
Proof.
  intros H S N RY.
  pose proof (v23_carries_orig_year G t f d ds H S N) as C. rewrite (truthy_pos _ RY) in C.
  rewrite (v24_from_v23_orig_year G _ _ (conv_fmt 4 (conv_oz (st_year d))) C); try reflexivity.
  - rewrite fmt_val by lia. reflexivity.
  - apply v23_drops_v24_only. apply existsb_In. reflexivity.
  - apply fmt_digits. lia.
  - apply fmt_nonempty. lia.
Qed.

Theorem roundtrip_people t : conv_has s_TIPL t || conv_has s_TMCL t = true -> conv_has s_IPLS t = false ->
  conv_get s_TIPL (conv_update_to_v24 G (conv_update_to_v23 G t)) =
  Some (FPeople s_TIPL (match conv_get s_TMCL t with
                        | Some f => conv_enc_of f
                        | None => match conv_get s_TIPL t with Some f => conv_enc_of f | None => 1 end
                        end)
                (conv_opt_people (conv_get s_TIPL t) ++ conv_opt_people (conv_get s_TMCL t))).
Proof.
  intros H N. pose proof (v23_carries_people G t H N) as C.
  rewrite (v24_from_v23_people G _ _ C); [reflexivity|].
  apply v23_drops_v24_only. apply existsb_In. reflexivity.
Qed.

(* every frame whose key no conversion step names is carried through both conversions; only
   __update_common (TCON genres, APIC mime) and the recursion into CHAP/CTOC act on it *)
Definition conv_step_keys : list text := [s_TIPL; s_TMCL; s_IPLS; s_TDOR; s_TORY; s_TDRC; s_TYER; s_TDAT; s_TIME].

Lemma step_keys_ne k : existsb (list_eqb k) conv_step_keys = false ->
  k <> s_TIPL /\ k <> s_TMCL /\ k <> s_IPLS /\ k <> s_TDOR /\ k <> s_TORY /\ k <> s_TDRC /\ k <> s_TYER /\ k <> s_TDAT /\ k <> s_TIME.
Proof.
  intro H. cbn [existsb conv_step_keys] in H.
  repeat (apply orb_false_iff in H; destruct H as [?A H]).
  repeat split; apply list_eqb_false; assumption.
Qed.
Lemma v23_untouched t k : existsb (list_eqb k) conv_step_keys = false -> existsb (list_eqb k) conv_v24_only = false ->
  conv_get k (conv_update_to_v23 G t) = option_map (g23 G) (conv_get k t).
Proof.
  intros H1 H2. apply step_keys_ne in H1. destruct H1 as (A1 & A2 & A3 & A4 & A5 & A6 & A7 & A8 & A9).
  unfold conv_update_to_v23, conv_top23. rewrite get_del_all by exact H2.
  rewrite tdrc23_get by assumption. apply pre_tdrc_get; assumption.
Qed.
Lemma v24_untouched t k : existsb (list_eqb k) conv_step_keys = false -> existsb (list_eqb k) conv_v23_only = false ->
  conv_get k (conv_update_to_v24 G t) = option_map (g24 G) (conv_get k t).
Proof.
  intros H1 H2. apply step_keys_ne in H1. destruct H1 as (A1 & A2 & A3 & A4 & A5 & A6 & A7 & A8 & A9).
  unfold conv_update_to_v24, conv_top24. rewrite get_del_all by exact H2.
  rewrite ipls24_get, tory24_get, dates24_get by assumption. rewrite common_map24. apply get_map. apply g24_key.
Qed.
Theorem roundtrip_untouched t k : existsb (list_eqb k) conv_step_keys = false ->
  existsb (list_eqb k) conv_v24_only = false -> existsb (list_eqb k) conv_v23_only = false ->
  conv_get k (conv_update_to_v24 G (conv_update_to_v23 G t)) = option_map (g24 G) (option_map (g23 G) (conv_get k t)).
Proof. intros. rewrite v24_untouched, v23_untouched by assumption. reflexivity. Qed.
(* for a text-like frame other than TCON the two maps are the identity *)
Lemma g_leaf_id f : conv_is_leaf f = true -> conv_key f <> s_TCON -> (forall e m p d x, f <> FApic e m p d x) ->
  g24 G (g23 G f) = f.
Proof.
  intros L N A. destruct f; try discriminate; try reflexivity.
  - unfold g23, g24. cbn [conv_rec23 conv_rec24 conv_common_frame]. cbn [conv_key] in N.
    destruct (list_eqb id s_TCON) eqn:E; [apply list_eqb_spec in E; contradiction|].
    cbn [conv_rec24 conv_common_frame]. rewrite E. reflexivity.
  - exfalso. eapply A. reflexivity.
Qed.
End RoundTrip.

(* ---------------------------------------------------------------- idempotence *)
(* TCON.genres is not idempotent in general ("((12)" -> "(12)" -> "Other"); the conversions are idempotent
   on tags whose TCON values are stable under a second normalisation *)
Definition tcon_ok (G : list text) (f : frame) : Prop :=
  match f with FText id _ v => id = s_TCON -> conv_genres G (conv_genres G v) = conv_genres G v | _ => True end.

Lemma common_idem G f : tcon_ok G f -> conv_common_frame G (conv_common_frame G f) = conv_common_frame G f.
Proof.
  destruct f; try reflexivity; cbn [conv_common_frame tcon_ok]; intro H.
  - destruct (list_eqb id s_TCON) eqn:E; cbn [conv_common_frame]; rewrite E; [|reflexivity].
    apply list_eqb_spec in E. rewrite (H E). reflexivity.
  - destruct (list_eqb mime s_PNG) eqn:E1; [reflexivity|].
    destruct (list_eqb mime s_JPG) eqn:E2; [reflexivity|]. cbn [conv_common_frame]. rewrite E1, E2. reflexivity.
Qed.

Section StepForall.
Variable Q : frame -> Prop.
Lemma people23_Forall t : (forall e p, Q (FPeople s_IPLS e p)) -> Forall Q t -> Forall Q (conv_people23 t).
Proof.
  intros HQ H. unfold conv_people23. destruct (conv_has s_TIPL t || conv_has s_TMCL t); [|exact H].
  apply add_if_Forall; [apply HQ|]. apply del_Forall. apply del_Forall. exact H.
Qed.
Lemma tdor23_Forall t : (forall e v, Q (FText s_TORY e v)) -> Forall Q t -> Forall Q (conv_tdor23 t).
Proof.
  intros HQ H. unfold conv_tdor23. destruct (conv_get s_TDOR t) as [f|]; [|exact H].
  destruct (conv_stamps_of f); [apply del_Forall; exact H|]. apply add_if_Forall; [apply HQ | apply del_Forall; exact H].
Qed.
Lemma tdrc23_Forall t : (forall e v, Q (FText s_TYER e v)) -> (forall e v, Q (FText s_TDAT e v)) -> (forall e v, Q (FText s_TIME e v)) ->
  Forall Q t -> Forall Q (conv_tdrc23 t).
Proof.
  intros H1 H2 H3 H. unfold conv_tdrc23. destruct (conv_get s_TDRC t) as [f|]; [|exact H].
  destruct (conv_stamps_of f); [apply del_Forall; exact H|].
  apply add_if_Forall; [apply H3|]. apply add_if_Forall; [apply H2|]. apply add_if_Forall; [apply H1|]. apply del_Forall; exact H.
Qed.
Lemma dates24_Forall t : (forall v, Q (FStamp s_TDRC 0 v)) -> Forall Q t -> Forall Q (conv_dates24 t).
Proof. intros HQ H. unfold conv_dates24. apply add_if_Forall; [apply HQ|]. repeat apply del_Forall. exact H. Qed.
Lemma tory24_Forall t : (forall v, Q (FStamp s_TDOR 0 v)) -> Forall Q t -> Forall Q (conv_tory24 t).
Proof.
  intros HQ H. unfold conv_tory24. destruct (conv_get s_TORY t) as [f|]; [|exact H].
  apply add_if_Forall; [apply HQ | apply del_Forall; exact H].
Qed.
Lemma ipls24_Forall t : (forall e p, Q (FPeople s_TIPL e p)) -> Forall Q t -> Forall Q (conv_ipls24 t).
Proof.
  intros HQ H. unfold conv_ipls24. destruct (conv_get s_IPLS t) as [f|]; [|exact H].
  apply add_if_Forall; [apply HQ | apply del_Forall; exact H].
Qed.
Lemma top23_Forall G t : (forall f, conv_is_leaf f = true -> (forall x, f <> FText s_TCON (fst x) (snd x)) -> Q f) ->
  Forall Q (conv_common G t) -> Forall Q (conv_top23 G t).
Proof.
  intros HQ H. unfold conv_top23. apply del_all_Forall.
  apply tdrc23_Forall; try (intros; apply HQ; [reflexivity | intros x E; inversion E]).
  apply tdor23_Forall; try (intros; apply HQ; [reflexivity | intros x E; inversion E]).
  apply people23_Forall; try (intros; apply HQ; [reflexivity | intros x E; inversion E]). exact H.
Qed.
Lemma top24_Forall G t : (forall f, conv_is_leaf f = true -> (forall x, f <> FText s_TCON (fst x) (snd x)) -> Q f) ->
  Forall Q (conv_common G t) -> Forall Q (conv_top24 G t).
Proof.
  intros HQ H. unfold conv_top24. apply del_all_Forall.
  apply ipls24_Forall; try (intros; apply HQ; [reflexivity | intros x E; inversion E]).
  apply tory24_Forall; try (intros; apply HQ; [reflexivity | intros x E; inversion E]).
  apply dates24_Forall; try (intros; apply HQ; [reflexivity | intros x E; inversion E]). exact H.
Qed.
End StepForall.

Lemma common_fixed_new G f : conv_is_leaf f = true -> (forall x, f <> FText s_TCON (fst x) (snd x)) ->
  (forall e m p d x, f <> FApic e m p d x) -> conv_common_frame G f = f.
Proof.
  intros L N A. destruct f; try reflexivity.
  - cbn [conv_common_frame]. destruct (list_eqb id s_TCON) eqn:E; [|reflexivity].
    apply list_eqb_spec in E. subst. exfalso. apply (N (enc, vals)). reflexivity.
  - exfalso. eapply A. reflexivity.
Qed.

(* one level: converting the output of the level conversion again changes nothing *)
Lemma top23_idem G l : Forall (fun f => conv_common_frame G (conv_common_frame G f) = conv_common_frame G f) l ->
  conv_top23 G (conv_top23 G l) = conv_top23 G l.
Proof.
  intro H. set (t' := conv_top23 G l).
  assert (F : Forall (fun f => conv_common_frame G f = f) t').
  { unfold t', conv_top23. apply del_all_Forall.
    apply tdrc23_Forall; try (intros; reflexivity).
    apply tdor23_Forall; try (intros; reflexivity).
    apply people23_Forall; try (intros; reflexivity).
    unfold conv_common. apply Forall_forall. intros x Hx. apply in_map_iff in Hx. destruct Hx as (y & <- & Hy).
    rewrite Forall_forall in H. apply H. exact Hy. }
  assert (HP : conv_has s_TIPL t' = false) by (apply has_del_all_in; reflexivity).
  assert (HM : conv_has s_TMCL t' = false) by (apply has_del_all_in; reflexivity).
  assert (HO : conv_has s_TDOR t' = false) by (apply has_del_all_in; reflexivity).
  assert (HR : conv_has s_TDRC t' = false) by (apply has_del_all_in; reflexivity).
  unfold conv_top23 at 1. unfold conv_common. rewrite (map_fixed _ _ F).
  assert (E1 : conv_people23 t' = t') by (unfold conv_people23; rewrite HP, HM; reflexivity).
  rewrite E1.
  assert (E2 : conv_tdor23 t' = t') by (unfold conv_tdor23; rewrite (has_false_get _ _ HO); reflexivity).
  rewrite E2.
  assert (E3 : conv_tdrc23 t' = t') by (unfold conv_tdrc23; rewrite (has_false_get _ _ HR); reflexivity).
  rewrite E3. apply del_all_idem.
Qed.

Lemma has_tory24 t : conv_has s_TORY (conv_tory24 t) = false.
Proof.
  unfold conv_tory24. destruct (conv_get s_TORY t) as [f|] eqn:E; [|apply get_none_has; exact E].
  rewrite has_add_if_other by (cbn [conv_key]; kne). apply has_del_same.
Qed.
Lemma has_ipls24 t : conv_has s_IPLS (conv_ipls24 t) = false.
Proof.
  unfold conv_ipls24. destruct (conv_get s_IPLS t) as [f|] eqn:E; [|apply get_none_has; exact E].
  rewrite has_add_if_other by (cbn [conv_key]; kne). apply has_del_same.
Qed.
Lemma has_tyer_dates24 t : conv_has s_TYER (conv_dates24 t) = false.
Proof.
  unfold conv_dates24. rewrite has_add_if_other by (cbn [conv_key]; kne).
  rewrite !has_del_other by kne. apply has_del_same.
Qed.

Lemma top24_idem G l : Forall (fun f => conv_common_frame G (conv_common_frame G f) = conv_common_frame G f) l ->
  conv_top24 G (conv_top24 G l) = conv_top24 G l.
Proof.
  intro H. set (t' := conv_top24 G l).
  assert (F : Forall (fun f => conv_common_frame G f = f) t').
  { unfold t', conv_top24. apply del_all_Forall.
    apply ipls24_Forall; try (intros; reflexivity).
    apply tory24_Forall; try (intros; reflexivity).
    apply dates24_Forall; try (intros; reflexivity).
    unfold conv_common. apply Forall_forall. intros x Hx. apply in_map_iff in Hx. destruct Hx as (y & <- & Hy).
    rewrite Forall_forall in H. apply H. exact Hy. }
  assert (HY : conv_has s_TYER t' = false).
  { unfold t', conv_top24. rewrite has_del_all_other by reflexivity.
    rewrite (has_of_get s_TYER _ (conv_dates24 (conv_common G l))) by (rewrite ipls24_get, tory24_get by kne; reflexivity).
    apply has_tyer_dates24. }
  assert (HD : conv_has s_TDAT t' = false) by (apply has_del_all_in; reflexivity).
  assert (HT : conv_has s_TIME t' = false) by (apply has_del_all_in; reflexivity).
  assert (HO : conv_has s_TORY t' = false).
  { unfold t', conv_top24. rewrite has_del_all_other by reflexivity.
    rewrite (has_of_get s_TORY _ (conv_tory24 (conv_dates24 (conv_common G l)))) by (rewrite ipls24_get by kne; reflexivity).
    apply has_tory24. }
  assert (HI : conv_has s_IPLS t' = false).
  { unfold t', conv_top24. rewrite has_del_all_other by reflexivity. apply has_ipls24. }
  unfold conv_top24 at 1. unfold conv_common. rewrite (map_fixed _ _ F).
  assert (E1 : conv_dates24 t' = t').
  { unfold conv_dates24. rewrite (has_false_get _ _ HY), (has_false_get _ _ HD), (has_false_get _ _ HT).
    cbn [conv_opt_texts length Nat.max conv_zip3 map filter conv_nonempty]. rewrite add_if_false.
    rewrite (del_absent s_TYER t' HY), (del_absent s_TDAT t' HD), (del_absent s_TIME t' HT). reflexivity. }
  rewrite E1.
  assert (E2 : conv_tory24 t' = t') by (unfold conv_tory24; rewrite (has_false_get _ _ HO); reflexivity).
  rewrite E2.
  assert (E3 : conv_ipls24 t' = t') by (unfold conv_ipls24; rewrite (has_false_get _ _ HI); reflexivity).
  rewrite E3. apply del_all_idem.
Qed.

(* the whole tag, every nesting depth *)
Lemma rec23_leaf G f : conv_is_leaf f = true -> conv_rec23 G f = f.
Proof. destruct f; try discriminate; reflexivity. Qed.
Lemma rec24_leaf G f : conv_is_leaf f = true -> conv_rec24 G f = f.
Proof. destruct f; try discriminate; reflexivity. Qed.
Lemma common_leaf G f : conv_is_leaf (conv_common_frame G f) = conv_is_leaf f.
Proof.
  destruct f; try reflexivity; cbn [conv_common_frame].
  - destruct (list_eqb id s_TCON); reflexivity.
  - destruct (list_eqb mime s_PNG); [reflexivity|]. destruct (list_eqb mime s_JPG); reflexivity.
Qed.
Lemma common_container G f : conv_is_leaf f = false -> conv_common_frame G f = f.
Proof. destruct f; try discriminate; reflexivity. Qed.
Lemma tcon_ok_rec23 G f : tcon_ok G f -> tcon_ok G (conv_rec23 G f).
Proof. destruct f; cbn; tauto. Qed.
Lemma tcon_ok_rec24 G f : tcon_ok G f -> tcon_ok G (conv_rec24 G f).
Proof. destruct f; cbn; tauto. Qed.

Section Idem.
Variable G : list text.

Lemma update23_idem_list l :
  Forall (fun f => conv_deep (tcon_ok G) f -> conv_rec23 G (conv_rec23 G f) = conv_rec23 G f) l ->
  Forall (conv_deep (tcon_ok G)) l ->
  conv_top23 G (map (conv_rec23 G) (conv_top23 G (map (conv_rec23 G) l))) = conv_top23 G (map (conv_rec23 G) l).
Proof.
  intros IH D.
  assert (F : Forall (fun f => conv_rec23 G f = f) (conv_top23 G (map (conv_rec23 G) l))).
  { apply top23_Forall.
    - intros f L _. apply rec23_leaf. exact L.
    - unfold conv_common. apply Forall_forall. intros x Hx. apply in_map_iff in Hx. destruct Hx as (y & <- & Hy).
      apply in_map_iff in Hy. destruct Hy as (z & <- & Hz).
      rewrite Forall_forall in IH, D. specialize (IH z Hz (D z Hz)).
      destruct (conv_is_leaf (conv_rec23 G z)) eqn:L.
      + apply rec23_leaf. rewrite common_leaf. exact L.
      + rewrite (common_container G _ L). exact IH. }
  rewrite (map_fixed _ _ F). apply top23_idem.
  apply Forall_forall. intros x Hx. apply in_map_iff in Hx. destruct Hx as (z & <- & Hz).
  apply common_idem. apply tcon_ok_rec23. rewrite Forall_forall in D. apply (conv_deep_head _ _ (D z Hz)).
Qed.

Lemma rec23_idem f : conv_deep (tcon_ok G) f -> conv_rec23 G (conv_rec23 G f) = conv_rec23 G f.
Proof.
  induction f using frame_ind'; intro D.
  - rewrite (rec23_leaf G f H). apply rec23_leaf. exact H.
  - apply conv_deep_chap in D. destruct D as [_ D]. cbn [conv_rec23]. f_equal. apply update23_idem_list; assumption.
  - apply conv_deep_ctoc in D. destruct D as [_ D]. cbn [conv_rec23]. f_equal. apply update23_idem_list; assumption.
Qed.

Theorem update_to_v23_idem t : conv_deep_all (tcon_ok G) t ->
  conv_update_to_v23 G (conv_update_to_v23 G t) = conv_update_to_v23 G t.
Proof.
  intro D. unfold conv_update_to_v23. apply update23_idem_list; [|exact D].
  apply Forall_forall. intros f _. apply rec23_idem.
Qed.

Lemma update24_idem_list l :
  Forall (fun f => conv_deep (tcon_ok G) f -> conv_rec24 G (conv_rec24 G f) = conv_rec24 G f) l ->
  Forall (conv_deep (tcon_ok G)) l ->
  conv_top24 G (map (conv_rec24 G) (conv_top24 G (map (conv_rec24 G) l))) = conv_top24 G (map (conv_rec24 G) l).
Proof.
  intros IH D.
  assert (F : Forall (fun f => conv_rec24 G f = f) (conv_top24 G (map (conv_rec24 G) l))).
  { apply top24_Forall.
    - intros f L _. apply rec24_leaf. exact L.
    - unfold conv_common. apply Forall_forall. intros x Hx. apply in_map_iff in Hx. destruct Hx as (y & <- & Hy).
      apply in_map_iff in Hy. destruct Hy as (z & <- & Hz).
      rewrite Forall_forall in IH, D. specialize (IH z Hz (D z Hz)).
      destruct (conv_is_leaf (conv_rec24 G z)) eqn:L.
      + apply rec24_leaf. rewrite common_leaf. exact L.
      + rewrite (common_container G _ L). exact IH. }
  rewrite (map_fixed _ _ F). apply top24_idem.
  apply Forall_forall. intros x Hx. apply in_map_iff in Hx. destruct Hx as (z & <- & Hz).
  apply common_idem. apply tcon_ok_rec24. rewrite Forall_forall in D. apply (conv_deep_head _ _ (D z Hz)).
Qed.

Lemma rec24_idem f : conv_deep (tcon_ok G) f -> conv_rec24 G (conv_rec24 G f) = conv_rec24 G f.
Proof.
  induction f using frame_ind'; intro D.
  - rewrite (rec24_leaf G f H). apply rec24_leaf. exact H.
  - apply conv_deep_chap in D. destruct D as [_ D]. cbn [conv_rec24]. f_equal. apply update24_idem_list; assumption.
  - apply conv_deep_ctoc in D. destruct D as [_ D]. cbn [conv_rec24]. f_equal. apply update24_idem_list; assumption.
Qed.

Theorem update_to_v24_idem t : conv_deep_all (tcon_ok G) t ->
  conv_update_to_v24 G (conv_update_to_v24 G t) = conv_update_to_v24 G t.
Proof.
  intro D. unfold conv_update_to_v24. apply update24_idem_list; [|exact D].
  apply Forall_forall. intros f _. apply rec24_idem.
Qed.
End Idem.

(* tags without a TCON frame (at any depth) satisfy the precondition for every genre table *)
Lemma tcon_ok_no_tcon G f : (forall e v, f <> FText s_TCON e v) -> tcon_ok G f.
Proof. destruct f; cbn; try tauto. intros N E. subst. exfalso. eapply N. reflexivity. Qed.
