(* C19: running out of space while growing leaves the file as it was -- the primitive and the shared
   splice skeleton, proved against the regenerated Gen_util under a capacity-limited file object
   (any capacity inside the growth window, any number of partially written bytes). *)
From Coq Require Import ZArith List Bool Lia.
Import ListNotations.
Require Import Base.Py Base.ZList Base.FileModel Gen.Gen_util Model.Splice Proofs.FileLemmas.
Open Scope Z_scope.

(* a device with a capacity limit, no scheduled fault, no short reads *)
Definition capcfg (real : bool) (cap part : Z) : fcfg := mkC real (Some cap) part None None.

Section Cap.
Variables (real : bool) (cap part : Z).
Notation cc := (capcfg real cap part).

Lemma cap_seek_end0 d p : f_seek 0 2 (mkF d p cc) = (Ok tt, mkF d (zlen d) cc).
Proof.
  unfold f_seek, bind, tick; cbn. pose proof (zlen_nonneg d).
  rewrite Z.add_0_r. destruct (zlen d <? 0) eqn:E; [lia|reflexivity].
Qed.
Lemma cap_tell d p : f_tell (mkF d p cc) = (Ok p, mkF d p cc).
Proof. reflexivity. Qed.
Lemma cap_truncate d p n : 0 <= n <= zlen d -> f_truncate n (mkF d p cc) = (Ok tt, mkF (ztake n d) p cc).
Proof.
  intros H. unfold f_truncate, bind, tick; cbn.
  destruct (n <? 0) eqn:E; [lia|]. destruct (zlen d <? n) eqn:E2; [lia|reflexivity].
Qed.
(* appending at EOF: fits, or fails with ENOSPC after a (possibly empty) prefix *)
Lemma cap_write_end_ok d bs : zlen d + zlen bs <= cap ->
  f_write bs (mkF d (zlen d) cc) = (Ok tt, mkF (d ++ bs) (zlen d + zlen bs) cc).
Proof.
  intros H. unfold f_write, bind, tick; cbn. pose proof (zlen_nonneg bs).
  destruct (Z.max (zlen d) (zlen d + zlen bs) <=? cap) eqn:E; [|lia]. rewrite write_at_end. reflexivity.
Qed.
Lemma cap_write_end_full d bs : zlen d + zlen bs > cap ->
  exists k p', 0 <= k /\ f_write bs (mkF d (zlen d) cc) = (Raise (EIO 28), mkF (d ++ ztake k bs) p' cc).
Proof.
  intros H. unfold f_write, bind, tick; cbn. pose proof (zlen_nonneg bs).
  destruct (Z.max (zlen d) (zlen d + zlen bs) <=? cap) eqn:E; [lia|].
  set (k := Z.max 0 (Z.min part (Z.min (zlen bs) (cap - zlen d)))).
  exists k, (zlen d + zlen (ztake k bs)). split; [lia|].
  destruct (k =? 0) eqn:Ek.
  - assert (k = 0) by lia. rewrite H1. rewrite ztake_0, app_nil_r. reflexivity.
  - rewrite write_at_end. reflexivity.
Qed.
End Cap.

Lemma ztake_zeros k a : 0 <= k -> 0 <= a -> ztake k (zeros a) = zeros (Z.min k a).
Proof.
  intros Hk Ha. unfold ztake, zeros.
  replace (Z.to_nat (Z.min k a)) with (Nat.min (Z.to_nat k) (Z.to_nat a)) by lia.
  generalize (Z.to_nat k) as x. generalize (Z.to_nat a) as y. clear.
  induction y as [|y IH]; intros [|x]; cbn; try reflexivity. f_equal. apply IH.
Qed.

Section Grow.
Variables (real : bool) (cap part BUF : Z).
Hypothesis HBUF : 1 <= BUF.
Notation cc := (capcfg real cap part).

(* the growing loop: every state it passes through is f followed by zeros; when the total does not
   fit, it ends in ENOSPC with f followed by zeros *)
Lemma grow_loop_cap : forall fuel diff f m,
  0 <= diff -> (Z.to_nat diff < fuel)%nat -> 0 <= m ->
  zlen (f ++ zeros m) <= cap -> zlen (f ++ zeros m) + diff > cap ->
  exists (n p' : Z), (0 <= n) /\
    (resize_file_loop1 BUF fuel diff (mkF (f ++ zeros m) (zlen (f ++ zeros m)) cc)
     = (Raise (EIO 28), mkF (f ++ zeros n) p' cc)).
Proof.
  induction fuel as [|fuel IH]; intros diff f m Hd Hf Hm Hle Hcap; [lia|].
  cbn [resize_file_loop1]. destruct (diff =? 0) eqn:E; cbn [negb]; [lia|].
  cbv zeta. set (t := Z.min BUF diff). assert (Ht : 0 < t <= diff) by (unfold t; lia).
  rewrite zrepeat_zero.
  destruct (Z_le_gt_dec (zlen (f ++ zeros m) + t) cap) as [Hfit|Hfull].
  - unfold bind at 1. rewrite cap_write_end_ok by (rewrite zlen_zeros by lia; lia).
    rewrite zlen_zeros by lia.
    rewrite <- app_assoc, zeros_app by lia.
    assert (Hl : zlen (f ++ zeros m) + t = zlen (f ++ zeros (m + t))).
    { rewrite !zlen_app, !zlen_zeros by lia. lia. }
    rewrite Hl. apply IH; try lia.
  - unfold bind at 1.
    destruct (cap_write_end_full real cap part (f ++ zeros m) (zeros t)) as (k & p' & Hk & Ew).
    { rewrite zlen_zeros by lia. lia. }
    rewrite Ew. rewrite ztake_zeros by lia. rewrite <- app_assoc, zeros_app by lia.
    exists (m + Z.min k t), p'. split; [lia|reflexivity].
Qed.

(* resize_file: the device fills up anywhere inside the growth window -> ENOSPC, file as before *)
Lemma resize_file_enospc_run f p diff :
  0 < diff -> zlen f <= cap < zlen f + diff ->
  exists p', resize_file BUF diff (mkF f p cc) = (Raise (EIO 28), mkF f p' cc).
Proof.
  intros Hd Hcap. unfold resize_file.
  unfold bind at 1. rewrite cap_seek_end0. unfold bind at 1. rewrite cap_tell.
  rewrite !bind_if_c.
  destruct (diff <? 0) eqn:E1; [lia|]. destruct (diff >? 0) eqn:E2; [|lia].
  destruct (grow_loop_cap (S (Z.to_nat diff)) diff f 0) as (n & p' & Hn & EL); try lia.
  { rewrite zeros_0, app_nil_r. lia. } { rewrite zeros_0, app_nil_r. lia. }
  rewrite zeros_0, app_nil_r in EL.
  unfold bind, try_io. rewrite EL. cbn [negb].
  replace (28 =? 28) with true by reflexivity.
  rewrite cap_truncate by (rewrite zlen_app, zlen_zeros by lia; pose proof (zlen_nonneg f); lia).
  cbn. rewrite ztake_app_exact. eexists. reflexivity.
Qed.

Theorem resize_file_enospc f p diff :
  0 < diff -> zlen f <= cap < zlen f + diff ->
  fst (resize_file BUF diff (mkF f p cc)) = Raise (EIO 28) /\
  fdata (snd (resize_file BUF diff (mkF f p cc))) = f.
Proof.
  intros Hd Hcap. destruct (resize_file_enospc_run f p diff Hd Hcap) as [p' E]. rewrite E. split; reflexivity.
Qed.

(* insert_bytes enlarges before it moves anything: on ENOSPC the file is unchanged *)
Lemma insert_bytes_enospc_run f p size offset :
  0 < size -> 0 <= offset <= zlen f -> zlen f <= cap < zlen f + size ->
  exists p', insert_bytes BUF size offset (mkF f p cc) = (Raise (EIO 28), mkF f p' cc).
Proof.
  intros Hs Ho Hcap. unfold insert_bytes.
  rewrite step_guard. bset ((size <? 0) || (offset <? 0)) false.
  unfold bind at 1. rewrite cap_seek_end0. unfold bind at 1. rewrite cap_tell.
  cbv zeta. rewrite step_guard. bset (zlen f - offset <? 0) false.
  destruct (resize_file_enospc_run f (zlen f) size Hs Hcap) as [p' E].
  unfold bind at 1. rewrite E. eexists. reflexivity.
Qed.

Theorem insert_bytes_enospc f p size offset :
  0 < size -> 0 <= offset <= zlen f -> zlen f <= cap < zlen f + size ->
  fst (insert_bytes BUF size offset (mkF f p cc)) = Raise (EIO 28) /\
  fdata (snd (insert_bytes BUF size offset (mkF f p cc))) = f.
Proof.
  intros Hs Ho Hcap. destruct (insert_bytes_enospc_run f p size offset Hs Ho Hcap) as [p' E]. rewrite E. split; reflexivity.
Qed.

(* the skeleton of every in-place save: resize the region, then overwrite.  If the device fills up
   while the region grows, nothing has been overwritten yet: the file is byte-identical. *)
Theorem splice_prog_enospc f p off old data :
  0 <= off -> 0 <= old -> off + old <= zlen f -> old < zlen data ->
  zlen f <= cap < zlen f + (zlen data - old) ->
  fst (splice_prog BUF off old data (mkF f p cc)) = Raise (EIO 28) /\
  fdata (snd (splice_prog BUF off old data (mkF f p cc))) = f.
Proof.
  intros Ho Hold Hfit Hgrow Hcap.
  destruct (insert_bytes_enospc_run f p (zlen data - old) (off + old) ltac:(lia) ltac:(lia) Hcap) as [p' E].
  assert (Hres : resize_bytes BUF old (zlen data) off (mkF f p cc) = (Raise (EIO 28), mkF f p' cc)).
  { unfold resize_bytes.
    rewrite step_guard. bset ((old <? 0) || (zlen data <? 0) || (off <? 0)) false.
    rewrite !bind_if_c. bset (zlen data <? old) false. bset (zlen data >? old) true. cbv zeta.
    unfold bind. rewrite E. reflexivity. }
  assert (Hrun : splice_prog BUF off old data (mkF f p cc) = (Raise (EIO 28), mkF f p' cc)).
  { unfold splice_prog. unfold bind at 1. rewrite Hres. reflexivity. }
  rewrite Hrun. split; reflexivity.
Qed.
End Grow.
