(* C14: base-2^bits digit arithmetic; connects the shift/mask operations of Model.Id3Util with
   div/mod, and specifies the loops of BitPaddedInt.__new__ and to_str. *)
From Coq Require Import ZArith List Bool Lia.
Import ListNotations.
Require Import Base.Py Base.ZList Model.Id3Util.
Open Scope Z_scope.

(* ---------- specification vocabulary ---------- *)
(* the n least significant base-2^bits digits of v, least significant first *)
Fixpoint le_digits (n : nat) (bits v : Z) : list Z :=
  match n with O => [] | S n' => (v mod 2 ^ bits) :: le_digits n' bits (v / 2 ^ bits) end.
(* value of a little-endian digit string, each element reduced to its low `bits` bits *)
Fixpoint le_val (bits : Z) (l : list Z) : Z :=
  match l with [] => 0 | d :: r => d mod 2 ^ bits + 2 ^ bits * le_val bits r end.
(* number of base-2^bits digits of v (fuel f: enough when v < 2^f) *)
Fixpoint ndig (f : nat) (bits v : Z) : nat :=
  match f with O => O | S f' => if v =? 0 then O else S (ndig f' bits (v / 2 ^ bits)) end.

(* ---------- shifts and masks ---------- *)
Lemma mask_ones bits : 0 <= bits -> Z.shiftl 1 bits - 1 = Z.ones bits.
Proof. intros. unfold Z.ones. lia. Qed.
Lemma land_mask x bits : 0 <= bits -> Z.land x (Z.shiftl 1 bits - 1) = x mod 2 ^ bits.
Proof. intros. rewrite mask_ones by assumption. apply Z.land_ones; assumption. Qed.
Lemma pow2_pos n : 0 <= n -> 0 < 2 ^ n.
Proof. intros. apply Z.pow_pos_nonneg; lia. Qed.
Lemma pow2_le_256 bits : 0 <= bits <= 8 -> 2 ^ bits <= 256.
Proof. intros. change 256 with (2 ^ 8). apply Z.pow_le_mono_r; lia. Qed.
Lemma div_lt_iff a b q : 0 < b -> (a / b < q <-> a < b * q).
Proof.
  intros Hb. split; intros H.
  - pose proof (Z.mul_succ_div_gt a b Hb). nia.
  - apply Z.div_lt_upper_bound; assumption.
Qed.
Lemma pow_succ_nat bits (k : nat) : 0 <= bits ->
  2 ^ (bits * Z.of_nat (S k)) = 2 ^ bits * 2 ^ (bits * Z.of_nat k).
Proof.
  intros. rewrite <- Z.pow_add_r by (try apply Z.mul_nonneg_nonneg; lia). f_equal. lia.
Qed.
Lemma land_low_byte v m : 0 <= m < 256 -> Z.land v m = Z.land (v mod 256) m.
Proof.
  intros Hm. change 256 with (2 ^ 8). rewrite <- (Z.land_ones v 8) by lia.
  rewrite <- Z.land_assoc. f_equal. rewrite Z.land_comm. rewrite Z.land_ones by lia.
  symmetry. apply Z.mod_small. exact Hm.
Qed.
Lemma mask_lt_256 bits : 0 <= bits <= 8 -> 0 <= Z.shiftl 1 bits - 1 < 256.
Proof.
  intros. rewrite Z.shiftl_mul_pow2 by lia. pose proof (pow2_pos bits). pose proof (pow2_le_256 bits). lia.
Qed.

(* ---------- zeros / zset ---------- *)
Lemma zeros_of_nat k : zeros (Z.of_nat k) = repeat 0 k.
Proof. unfold zeros. rewrite Nat2Z.id. reflexivity. Qed.
Lemma zset_app a x y b : zset (zlen a) x (a ++ y :: b) = a ++ x :: b.
Proof.
  unfold zset. rewrite ztake_app_exact. rewrite zdrop_app_r by lia.
  bset (zlen a + 1 - zlen a) 1. reflexivity.
Qed.

(* ---------- one-step unfolding of the fuelled loops ---------- *)
Lemma fixed_loop_unfold k value bits mask index bytes_ :
  to_str_fixed_loop (S k) value bits mask index bytes_ =
    if value =? 0 then Ok bytes_
    else if negb (index <? zlen bytes_) then Raise EValue
    else if 255 <? Z.land value mask then Raise EValue
    else to_str_fixed_loop k (Z.shiftr value bits) bits mask (index + 1)
                           (zset index (Z.land value mask) bytes_).
Proof. reflexivity. Qed.
Lemma grow_loop_unfold k value bits mask bytes_ :
  to_str_grow_loop (S k) value bits mask bytes_ =
    if value =? 0 then Ok bytes_
    else if 255 <? Z.land value mask then Raise EValue
    else to_str_grow_loop k (Z.shiftr value bits) bits mask (bytes_ ++ [Z.land value mask]).
Proof. reflexivity. Qed.
Lemma bpi_int_loop_unfold k value mask bits numeric_value shift :
  bpi_int_loop (S k) value mask bits numeric_value shift =
    if value =? 0 then Ok numeric_value
    else bpi_int_loop k (Z.shiftr value 8) mask bits
                      (numeric_value + Z.shiftl (Z.land value mask) shift) (shift + bits).
Proof. reflexivity. Qed.

(* ---------- digits ---------- *)
Lemma le_digits_zero n bits : 0 <= bits -> le_digits n bits 0 = repeat 0 n.
Proof.
  intros Hb. pose proof (pow2_pos bits Hb). induction n; cbn [le_digits repeat]; [reflexivity|].
  rewrite Z.mod_0_l by lia. rewrite Z.div_0_l by lia. rewrite IHn. reflexivity.
Qed.
Lemma le_digits_length n bits v : zlen (le_digits n bits v) = Z.of_nat n.
Proof.
  revert v; induction n; intros v; cbn [le_digits]; [reflexivity|]. rewrite zlen_cons, IHn. lia.
Qed.
Lemma le_digits_bound n bits v : 0 <= bits ->
  Forall (fun d => 0 <= d < 2 ^ bits) (le_digits n bits v).
Proof.
  intros Hb. pose proof (pow2_pos bits Hb). revert v; induction n; intros v; cbn [le_digits]; constructor.
  - apply Z.mod_pos_bound; lia.
  - apply IHn.
Qed.
Lemma le_val_digits n bits v : 0 <= bits ->
  le_val bits (le_digits n bits v) = v mod 2 ^ (bits * Z.of_nat n).
Proof.
  intros Hb. pose proof (pow2_pos bits Hb). revert v; induction n; intros v.
  - cbn [le_digits le_val]. rewrite Z.mul_0_r. rewrite Z.mod_1_r. reflexivity.
  - cbn [le_digits le_val]. rewrite IHn. rewrite pow_succ_nat by assumption.
    rewrite Z.mod_mod by lia.
    rewrite (Z.rem_mul_r v (2 ^ bits) (2 ^ (bits * Z.of_nat n))); [reflexivity|lia|].
    apply pow2_pos; apply Z.mul_nonneg_nonneg; lia.
Qed.
Lemma le_val_digits_small n bits v : 0 <= bits -> 0 <= v < 2 ^ (bits * Z.of_nat n) ->
  le_val bits (le_digits n bits v) = v.
Proof. intros. rewrite le_val_digits by assumption. apply Z.mod_small; assumption. Qed.
Lemma le_val_app bits a b : 0 <= bits ->
  le_val bits (a ++ b) = le_val bits a + 2 ^ (bits * zlen a) * le_val bits b.
Proof.
  intros Hb. induction a as [|x a IH]; cbn [app le_val].
  - change (zlen (@nil Z)) with 0. rewrite Z.mul_0_r. change (2 ^ 0) with 1. lia.
  - rewrite IH, zlen_cons. pose proof (zlen_nonneg a).
    replace (bits * (1 + zlen a)) with (bits + bits * zlen a) by lia.
    rewrite Z.pow_add_r by nia. ring.
Qed.
Lemma le_val_repeat0 bits n : 0 <= bits -> le_val bits (repeat 0 n) = 0.
Proof.
  intros Hb. pose proof (pow2_pos bits Hb). induction n; cbn [repeat le_val]; [reflexivity|].
  rewrite IHn. rewrite Z.mod_0_l by lia. lia.
Qed.
Lemma le_val_zeros bits m : 0 <= bits -> le_val bits (zeros m) = 0.
Proof. intros. unfold zeros. apply le_val_repeat0; assumption. Qed.

(* ---------- BitPaddedInt.__new__, bytes branch ---------- *)
Lemma bpi_bytes_loop_spec bits l : 0 <= bits -> forall acc shift, 0 <= shift ->
  bpi_bytes_loop l (Z.shiftl 1 bits - 1) bits acc shift = acc + 2 ^ shift * le_val bits l.
Proof.
  intros Hb. induction l as [|b l IH]; intros acc shift Hs; cbn [bpi_bytes_loop le_val]; [lia|].
  rewrite IH by lia. rewrite land_mask by assumption. rewrite Z.shiftl_mul_pow2 by assumption.
  rewrite Z.pow_add_r by lia. ring.
Qed.
Lemma bpi_of_bytes_le bits l : 0 <= bits -> bpi_of_bytes bits false l = Ok (le_val bits l).
Proof.
  intros Hb. unfold bpi_of_bytes. destruct (bits <? 0) eqn:E; [lia|].
  rewrite bpi_bytes_loop_spec by lia. f_equal. change (2 ^ 0) with 1. lia.
Qed.
Lemma bpi_of_bytes_be bits l : 0 <= bits -> bpi_of_bytes bits true l = Ok (le_val bits (rev l)).
Proof.
  intros Hb. unfold bpi_of_bytes. destruct (bits <? 0) eqn:E; [lia|].
  rewrite bpi_bytes_loop_spec by lia. f_equal. change (2 ^ 0) with 1. lia.
Qed.
Lemma bpi_of_bytes_negbits bits be l : bits < 0 -> bpi_of_bytes bits be l = Raise EValue.
Proof. intros. unfold bpi_of_bytes. destruct (bits <? 0) eqn:E; [reflexivity|lia]. Qed.

(* ---------- to_str, fixed width ---------- *)
Lemma fixed_loop_spec bits : 0 <= bits <= 8 -> forall k done v, 0 <= v ->
  to_str_fixed_loop (S k) v bits (Z.shiftl 1 bits - 1) (zlen done) (done ++ zeros (Z.of_nat k)) =
  if v <? 2 ^ (bits * Z.of_nat k) then Ok (done ++ le_digits k bits v) else Raise EValue.
Proof.
  intros Hb. pose proof (pow2_pos bits (proj1 Hb)) as HB. pose proof (pow2_le_256 bits Hb) as HB8.
  induction k as [|k IH]; intros done v Hv.
  - cbn [to_str_fixed_loop le_digits]. rewrite Z.mul_0_r. change (2 ^ 0) with 1.
    destruct (v =? 0) eqn:E.
    + apply Z.eqb_eq in E. subst v. reflexivity.
    + apply Z.eqb_neq in E. change (zeros (Z.of_nat 0)) with (@nil Z). rewrite app_nil_r.
      rewrite Z.ltb_irrefl. cbn [negb]. destruct (v <? 1) eqn:E1; [lia|reflexivity].
  - rewrite fixed_loop_unfold. destruct (v =? 0) eqn:E.
    + apply Z.eqb_eq in E. subst v. assert (0 < 2 ^ (bits * Z.of_nat (S k))) by (apply pow2_pos; apply Z.mul_nonneg_nonneg; lia).
      rewrite (proj2 (Z.ltb_lt _ _) H).
      rewrite le_digits_zero by lia. rewrite zeros_of_nat. reflexivity.
    + apply Z.eqb_neq in E. rewrite zeros_of_nat. cbn [repeat].
      rewrite zlen_app, zlen_cons. pose proof (zlen_nonneg (repeat 0 k)).
      destruct (zlen done <? zlen done + (1 + zlen (repeat 0 k))) eqn:E1; [|lia]. cbn [negb].
      rewrite land_mask by lia. pose proof (Z.mod_pos_bound v (2 ^ bits) HB).
      destruct (255 <? v mod 2 ^ bits) eqn:E2; [lia|].
      rewrite zset_app. rewrite Z.shiftr_div_pow2 by lia.
      replace (done ++ v mod 2 ^ bits :: repeat 0 k) with ((done ++ [v mod 2 ^ bits]) ++ zeros (Z.of_nat k))
        by (rewrite zeros_of_nat, <- app_assoc; reflexivity).
      replace (zlen done + 1) with (zlen (done ++ [v mod 2 ^ bits])) by (rewrite zlen_app, zlen_cons, zlen_nil; lia).
      rewrite IH by (apply Z.div_pos; lia).
      rewrite pow_succ_nat by lia.
      pose proof (div_lt_iff v (2 ^ bits) (2 ^ (bits * Z.of_nat k)) HB) as Hiff.
      destruct (v / 2 ^ bits <? 2 ^ (bits * Z.of_nat k)) eqn:E3;
        destruct (v <? 2 ^ bits * 2 ^ (bits * Z.of_nat k)) eqn:E4; try lia.
      * cbn [le_digits]. rewrite <- app_assoc. reflexivity.
      * reflexivity.
Qed.

(* ---------- to_str, growing form ---------- *)
Lemma grow_loop_spec bits : 1 <= bits <= 8 -> forall f acc v, 0 <= v < 2 ^ Z.of_nat f ->
  to_str_grow_loop (S f) v bits (Z.shiftl 1 bits - 1) acc = Ok (acc ++ le_digits (ndig f bits v) bits v).
Proof.
  intros Hb. assert (HB : 0 < 2 ^ bits) by (apply pow2_pos; lia).
  assert (HB8 : 2 ^ bits <= 256) by (apply pow2_le_256; lia).
  assert (HB2 : 2 <= 2 ^ bits). { change 2 with (2 ^ 1) at 1. apply Z.pow_le_mono_r; lia. }
  induction f as [|f IH]; intros acc v Hv.
  - change (2 ^ Z.of_nat 0) with 1 in Hv. assert (v = 0) by lia. subst v.
    cbn. rewrite app_nil_r. reflexivity.
  - rewrite grow_loop_unfold. cbn [ndig]. destruct (v =? 0) eqn:E.
    + cbn [le_digits]. rewrite app_nil_r. reflexivity.
    + apply Z.eqb_neq in E. rewrite land_mask by lia.
      pose proof (Z.mod_pos_bound v (2 ^ bits) HB).
      destruct (255 <? v mod 2 ^ bits) eqn:E2; [lia|].
      rewrite Z.shiftr_div_pow2 by lia. rewrite IH.
      * cbn [le_digits]. rewrite <- app_assoc. reflexivity.
      * split; [apply Z.div_pos; lia|]. apply Z.div_lt_upper_bound; [lia|].
        rewrite Nat2Z.inj_succ, Z.pow_succ_r in Hv by lia.
        assert (0 < 2 ^ Z.of_nat f) by (apply pow2_pos; lia). nia.
Qed.

Lemma ndig_spec bits : 1 <= bits -> forall f v, 0 <= v < 2 ^ Z.of_nat f ->
  v < 2 ^ (bits * Z.of_nat (ndig f bits v)) /\
  (ndig f bits v <> O -> 2 ^ (bits * (Z.of_nat (ndig f bits v) - 1)) <= v).
Proof.
  intros Hb. assert (HB : 0 < 2 ^ bits) by (apply pow2_pos; lia).
  assert (HB2 : 2 <= 2 ^ bits). { change 2 with (2 ^ 1) at 1. apply Z.pow_le_mono_r; lia. }
  induction f as [|f IH]; intros v Hv.
  - change (2 ^ Z.of_nat 0) with 1 in Hv. assert (v = 0) by lia. subst v. cbn [ndig].
    split; [rewrite Z.mul_0_r; change (2 ^ 0) with 1; lia | congruence].
  - cbn [ndig]. destruct (v =? 0) eqn:E.
    + apply Z.eqb_eq in E. subst v. split; [rewrite Z.mul_0_r; change (2 ^ 0) with 1; lia | congruence].
    + apply Z.eqb_neq in E.
      assert (Hd : 0 <= v / 2 ^ bits < 2 ^ Z.of_nat f).
      { split; [apply Z.div_pos; lia|]. apply Z.div_lt_upper_bound; [lia|].
        rewrite Nat2Z.inj_succ, Z.pow_succ_r in Hv by lia.
        assert (0 < 2 ^ Z.of_nat f) by (apply pow2_pos; lia). nia. }
      destruct (IH _ Hd) as [I1 I2]. set (n := ndig f bits (v / 2 ^ bits)) in *.
      split.
      * rewrite pow_succ_nat by lia. apply div_lt_iff; assumption.
      * intros _. replace (Z.of_nat (S n) - 1) with (Z.of_nat n) by lia.
        destruct n as [|n'] eqn:En.
        { rewrite Z.mul_0_r. change (2 ^ 0) with 1. lia. }
        { specialize (I2 ltac:(congruence)).
          replace (Z.of_nat (S n') - 1) with (Z.of_nat n') in I2 by lia.
          rewrite pow_succ_nat by lia. pose proof (Z.mul_div_le v (2 ^ bits) HB). nia. }
Qed.

Lemma loop_fuel_enough v : 0 <= v -> v < 2 ^ Z.of_nat (S (Z.to_nat (Z.log2 (Z.abs v)))).
Proof.
  intros Hv. rewrite Z.abs_eq by assumption. pose proof (Z.log2_nonneg v).
  rewrite Nat2Z.inj_succ, Z2Nat.id by assumption.
  destruct (Z.eq_dec v 0) as [->|Hn].
  - apply pow2_pos. cbn. lia.
  - apply Z.log2_spec. lia.
Qed.

(* ---------- BitPaddedInt.__new__, int branch: same as reading the int's bytes ---------- *)
Lemma bpi_bytes_loop_le_encode0 n mask bits acc shift :
  bpi_bytes_loop (le_encode n 0) mask bits acc shift = acc.
Proof.
  revert acc shift; induction n; intros acc shift; cbn [le_encode bpi_bytes_loop]; [reflexivity|].
  change (0 mod 256) with 0. change (0 / 256) with 0. rewrite Z.land_0_l, Z.shiftl_0_l, Z.add_0_r. apply IHn.
Qed.
Lemma bpi_int_loop_spec bits mask : 0 <= mask < 256 -> forall f n v acc shift,
  0 <= v < 2 ^ Z.of_nat f -> v < 256 ^ Z.of_nat n ->
  bpi_int_loop (S f) v mask bits acc shift = Ok (bpi_bytes_loop (le_encode n v) mask bits acc shift).
Proof.
  intros Hm. induction f as [|f IH]; intros n v acc shift Hv Hn.
  - change (2 ^ Z.of_nat 0) with 1 in Hv. assert (v = 0) by lia. subst v.
    cbn [bpi_int_loop]. rewrite Z.eqb_refl, bpi_bytes_loop_le_encode0. reflexivity.
  - rewrite bpi_int_loop_unfold. destruct (v =? 0) eqn:E.
    + apply Z.eqb_eq in E. subst v. rewrite bpi_bytes_loop_le_encode0. reflexivity.
    + apply Z.eqb_neq in E. destruct n as [|n].
      { change (256 ^ Z.of_nat 0) with 1 in Hn. lia. }
      cbn [le_encode bpi_bytes_loop]. rewrite Z.shiftr_div_pow2 by lia. change (2 ^ 8) with 256.
      rewrite <- (land_low_byte v mask Hm). apply IH.
      * split; [apply Z.div_pos; lia|]. apply Z.div_lt_upper_bound; [lia|].
        rewrite Nat2Z.inj_succ, Z.pow_succ_r in Hv by lia.
        assert (0 < 2 ^ Z.of_nat f) by (apply pow2_pos; lia). nia.
      * apply Z.div_lt_upper_bound; [lia|].
        rewrite Nat2Z.inj_succ, Z.pow_succ_r in Hn by lia. lia.
Qed.
