(* C05 (stage 2) -- AC-3 / E-AC-3 syncframe headers: finite-domain proofs by vm_compute.
   A/52 puts cmixlev / surmixlev / dsurmod (two bits each, presence depending on acmod) between acmod and lfeon.
   This file: channel modes 2/0, 3/0, 2/1, 2/2 (one such field), E-AC-3, rejected headers; C05_ac3b.v: 1+1, 1/0, 3/1, 3/2. *)
From Coq Require Import ZArith List Bool Lia.
Import ListNotations.
Require Import Base.Py Base.ZList Model.InfoBase Model.InfoMpeg Model.InfoAc3 Gen.Gen_tables Proofs.C05_bits Proofs.C05_mpeg Proofs.C05_ac3_lib.
Open Scope Z_scope.

Theorem ac3_tables_match_spec : ac3_table_diffs = [[]; []; []; []; []].
Proof. vm_compute. reflexivity. Qed.

Lemma ac3_good_checked : forallb ac3_check (ac3_domain ac3_good_acmods) = true.
Proof. vm_compute. reflexivity. Qed.

(* every sample rate code, frame size code, bsid 0..10, LFE flag, for the channel modes 2/0, 3/0, 2/1, 2/2 *)
Theorem ac3_header_good_modes fscod frmsizecod bsid acmod lfe mix :
  0 <= fscod <= 2 -> 0 <= frmsizecod <= 37 -> 0 <= bsid <= 10 -> In acmod [2; 3; 4; 6] -> 0 <= lfe <= 1 -> In mix [0; 5; 10] ->
  let p := mkAc3 fscod frmsizecod bsid 0 acmod (mix mod 4) ((mix / 4) mod 4) (mix mod 4) lfe 27 in
  exists l, decode_ac3 (build_ac3_frame p) = Ok l /\ firstn 4 l = expected_ac3 p.
Proof.
  intros H1 H2 H3 H4 H5 H6 p. apply ac3_check_true.
  apply (proj1 (forallb_forall ac3_check (ac3_domain ac3_good_acmods)) ac3_good_checked).
  apply ac3_domain_In; assumption.
Qed.

(* regression witness of the defect fixed in /repo ("AC-3 LFE flag was read at a fixed bit position"):
   48 kHz, 192 kbit/s, bsid 8, acmod 7 (3/2), cmixlev 1, surmixlev 1, lfeon 1 -- was reported with 5 channels *)
Theorem ac3_51_regression :
  decode_ac3 (build_ac3_frame (mkAc3 0 20 8 0 7 1 1 0 1 27)) = Ok [0; 48000; 192000; 6; 440; 192000] /\
  build_ac3_header (mkAc3 0 20 8 0 7 1 1 0 1 27) = [11; 119; 0; 0; 20; 64; 235; 216; 64].
Proof. split; vm_compute; reflexivity. Qed.

Lemma eac3_checked : forallb eac3_check eac3_domain = true.
Proof. vm_compute. reflexivity. Qed.

Theorem eac3_header strmtyp frmsiz fscod code2 acmod lfe :
  0 <= strmtyp <= 2 -> In frmsiz [3; 4; 100; 767; 1024; 2047] -> 0 <= fscod <= 3 -> 0 <= code2 <= 3 ->
  0 <= acmod <= 7 -> 0 <= lfe <= 1 ->
  let p := mkEac3 strmtyp 0 frmsiz fscod (code2 mod 3) code2 acmod lfe 16 27 in
  exists l, decode_ac3 (build_eac3_frame p) = Ok l /\ firstn 4 l = expected_eac3 p.
Proof.
  intros H1 H2 H3 H4 H5 H6 p.
  assert (Hin : In p eac3_domain).
  { unfold eac3_domain.
    apply in_flat_map; exists strmtyp; split; [apply zrange_In; lia|].
    apply in_flat_map; exists frmsiz; split; [exact H2|].
    apply in_flat_map; exists fscod; split; [apply zrange_In; lia|].
    apply in_flat_map; exists code2; split; [apply zrange_In; lia|].
    apply in_map_iff. exists (acmod * 2 + lfe). split; [|apply zrange_In; lia].
    unfold p. f_equal; lia. }
  pose proof (proj1 (forallb_forall eac3_check eac3_domain) eac3_checked p Hin) as H.
  unfold eac3_check in H. destruct (decode_ac3 (build_eac3_frame p)) as [l|e]; [|discriminate].
  exists l. split; [reflexivity | apply list_eqb_eq; exact H].
Qed.

Theorem ac3_invalid_rejected :
  forallb (fun p => ac3_rejects (build_ac3_frame p)) ac3_invalid_domain = true /\
  forallb (fun p => ac3_rejects (build_eac3_frame p)) eac3_invalid_domain = true /\
  zlen ac3_invalid_domain = 4544.
Proof. split; [vm_compute; reflexivity | split; vm_compute; reflexivity]. Qed.
