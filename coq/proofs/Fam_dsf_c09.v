(* DSF family, C09: _DSFID3.save hands _prepare_data available = extent from the metadata pointer to EOF
   (0 when the tag is created at EOF), nothing follows the tag (info.size = 0); a tag of the old size leaves the file size and every byte before the pointer
   (all three header fields included) unchanged; the prepared tag is always one exact ID3v2 tag, so a save through
   _prepare_data keeps the file well-formed without further hypotheses. *)
From Coq Require Import ZArith List Bool Lia.
Import ListNotations.
Require Import Base.Py Base.ZList Model.Splice Model.Fam_carrier Model.Fam_dsf
  Proofs.Fam_iff_codec Proofs.Fam_iff_chunks Proofs.Fam_dsf_lemmas Proofs.Fam_dsf_props Proofs.Fam_carrier_lemmas.
Open Scope Z_scope.

Lemma dsf_target_render a t : dsf_ok a t = true ->
  dsf_target (dsf_render a t) = Ok (28 + zlen a, zlen (tag_bytes t)).
Proof.
  intros Hok. unfold dsf_target. rewrite (mut_dsd_render a t Hok). cbn [rbind snd].
  pose proof (dsf_render_zlen a t) as Lf. pose proof (zlen_nonneg a) as Ha.
  destruct t as [t|]; cbn [tag_bytes] in *.
  - bset (28 + zlen a =? 0) false. f_equal. f_equal. lia.
  - change (0 =? 0) with true. cbv iota. change (zlen (@nil Z)) with 0 in *. f_equal. f_equal; lia.
Qed.

Theorem dsf_save_cb_decompose f s fd ver cb f' : dsf_parse f = Ok s -> dsf_save_cb f fd ver cb = Ok f' ->
  let avail := zlen (tag_bytes (d_tag s)) in
  exists tag, id3_prepare fd ver cb avail 0 = Ok tag /\ dsf_save f tag = Ok f'.
Proof.
  intros Hp Hsv avail. destruct (dsf_parse_sound f s Hp) as [Ef Hok]. subst f.
  unfold dsf_save_cb in Hsv. rewrite (dsf_target_render _ _ Hok) in Hsv. cbn [rbind snd] in Hsv. fold avail in Hsv.
  assert (Et : dsf_trailing (dsf_render (d_audio s) (d_tag s)) (28 + zlen (d_audio s), avail) = 0).
  { unfold dsf_trailing, trailing_size. cbn [fst snd]. rewrite dsf_render_zlen. fold avail. lia. }
  rewrite Et in Hsv.
  destruct (id3_prepare fd ver cb avail 0) as [tag|e]; cbn [rbind] in Hsv; [|discriminate].
  exists tag. split; [reflexivity | exact Hsv].
Qed.

Theorem dsf_save_cb_wf f fd ver cb f' : dsf_wf f = true -> dsf_save_cb f fd ver cb = Ok f' ->
  dsf_wf f' = true /\ exists tag, dsf_load f' = Ok (Some tag) /\
    exists sz, zlen sz = 4 /\ tag = ID3_MAGIC ++ [ver; 0; 0] ++ sz ++ fd ++ zeros (zlen tag - zlen fd - 10).
Proof.
  intros Hw Hsv. destruct (wf_parse f Hw) as [s Hp].
  destruct (dsf_save_cb_decompose f s fd ver cb f' Hp Hsv) as (tag & Hpr & Hs).
  destruct (id3_prepare_spec _ _ _ _ _ _ Hpr) as (P0 & L & (sz & Lsz & Et) & Hex). cbv zeta in *.
  split; [eapply dsf_save_wf; eassumption|]. exists tag. split; [eapply dsf_load_after_save; eassumption|].
  exists sz. split; [exact Lsz|]. rewrite L.
  match goal with |- context [zeros ?x] => replace x with (cb (zlen (tag_bytes (d_tag s)) - (zlen fd + 10)) 0) by lia end.
  exact Et.
Qed.

Theorem dsf_keep_size f s t0 tag f' : dsf_parse f = Ok s -> d_tag s = Some t0 -> zlen tag = zlen t0 ->
  dsf_save f tag = Ok f' ->
  let ptr := 28 + zlen (d_audio s) in
  zlen f' = zlen f /\ ztake ptr f' = ztake ptr f /\ zdrop ptr f' = tag.
Proof.
  intros Hp Ht Lt Hs ptr. destruct (dsf_save_spec f s tag f' Hp Hs) as [Ef' _].
  destruct (dsf_parse_sound f s Hp) as [Ef _]. rewrite Ht in Ef.
  unfold dsf_render in Ef, Ef'. cbn [tag_bytes] in Ef, Ef'. rewrite Lt in Ef'.
  set (h := dsd_header (28 + zlen (d_audio s) + zlen t0) (28 + zlen (d_audio s))) in *.
  assert (Lh : zlen (h ++ d_audio s) = ptr) by (rewrite zlen_app; unfold h; rewrite dsd_header_zlen; reflexivity).
  rewrite Ef, Ef'.
  replace (h ++ d_audio s ++ tag) with ((h ++ d_audio s) ++ tag) by (rewrite <- app_assoc; reflexivity).
  replace (h ++ d_audio s ++ t0) with ((h ++ d_audio s) ++ t0) by (rewrite <- app_assoc; reflexivity).
  split; [rewrite !zlen_app, Lt; reflexivity|].
  split; [rewrite !ztake_app_len by (symmetry; exact Lh); reflexivity|].
  apply zdrop_app_len. symmetry; exact Lh.
Qed.
