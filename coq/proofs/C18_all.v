(* C18: the per-type lemmas collected into one statement per claim. *)
From Coq Require Import ZArith List Bool Lia.
Import ListNotations.
Require Import Base.Py Model.ScorePrims Gen.Gen_scores Model.Score Proofs.C18_prims
  Proofs.C18_stable_id3 Proofs.C18_stable_aac Proofs.C18_stable_ogg Proofs.C18_stable_chunk Proofs.C18_stable_ape
  Proofs.C18_nameless_a Proofs.C18_nameless_b.
Open Scope Z_scope.

Theorem stable_all : forall k fname header trailer,
  named_as k fname -> family k header trailer ->
  marker_assumption (assumes_no_foreign_marker k) k header ->
  picks k fname header trailer.
Proof.
  intros k fname header trailer Hn Hf Hm. unfold marker_assumption in Hm.
  destruct k; cbn [assumes_no_foreign_marker] in Hm; try specialize (Hm eq_refl).
  - apply stable_MP3; assumption.
  - apply stable_TrueAudio; assumption.
  - apply stable_OggTheora; assumption.
  - apply stable_OggSpeex; assumption.
  - apply stable_OggVorbis; assumption.
  - apply stable_OggFLAC; assumption.
  - apply stable_FLAC; assumption.
  - apply stable_AIFF; assumption.
  - destruct Hf.
  - apply stable_MP4; assumption.
  - destruct Hf.
  - apply stable_WavPack; assumption.
  - apply stable_Musepack; assumption.
  - apply stable_MonkeysAudio; assumption.
  - apply stable_OptimFROG; assumption.
  - apply stable_ASF; assumption.
  - apply stable_OggOpus; assumption.
  - apply stable_AAC; assumption.
  - apply stable_AC3; assumption.
  - apply stable_SMF; assumption.
  - apply stable_TAK; assumption.
  - apply stable_DSF; assumption.
  - apply stable_DSDIFF; assumption.
  - apply stable_WAVE; assumption.
Qed.

Theorem nameless_all : forall k header trailer,
  family0 k header trailer ->
  marker_assumption (assumes_no_foreign_marker0 k) k header ->
  picks k [] header trailer.
Proof.
  intros k header trailer Hf Hm. unfold marker_assumption in Hm.
  destruct k; cbn [assumes_no_foreign_marker0] in Hm; try specialize (Hm eq_refl); try (destruct Hf; fail).
  - apply nameless_OggTheora; assumption.
  - apply nameless_OggSpeex; assumption.
  - apply nameless_OggVorbis; assumption.
  - apply nameless_OggFLAC; assumption.
  - apply nameless_FLAC; assumption.
  - apply nameless_AIFF; assumption.
  - apply nameless_MP4; assumption.
  - apply nameless_WavPack; assumption.
  - apply nameless_Musepack; assumption.
  - apply nameless_MonkeysAudio; assumption.
  - apply nameless_OptimFROG; assumption.
  - apply nameless_ASF; assumption.
  - apply nameless_OggOpus; assumption.
  - apply nameless_AC3; assumption.
  - apply nameless_TAK; assumption.
  - apply nameless_DSF; assumption.
  - apply nameless_DSDIFF; assumption.
  - apply nameless_WAVE; assumption.
Qed.
