(* Proofs.SortPerm: sorting by a total order is a function of the multiset of the elements.
   General lemmas about Model.Sort.isort (insertion sort over a boolean "less or equal"):
     isort_perm        the result is a permutation of the input
     isort_sorted      the result is sorted (for a total, transitive order)
     sorted_perm_eq    two sorted permutations of each other are EQUAL when the order is antisymmetric on them
     isort_perm_inv    Permutation l l' -> isort leb l = isort leb l'      (insertion-order independence)
     isort_key_perm_inv  the same for "sort by key" with a key that is injective on the items
     isort_map         sorting the images = image of sorting by the pulled-back order
   and the instance used by APEv2.save: the order of Python tuples (len(b), b) on byte strings
   (len_lex_leb) is total, transitive and antisymmetric, i.e. the key (len, bytes) is injective. *)
From Coq Require Import ZArith List Bool Lia Permutation Sorted.
Import ListNotations.
Require Import Base.Py Base.ZList Model.Sort.
Open Scope Z_scope.

Section Sort.
Context {A : Type} (leb : A -> A -> bool).
Notation le := (fun a b => leb a b = true).

Definition total := forall a b, leb a b = true \/ leb b a = true.
Definition trans := forall a b c, leb a b = true -> leb b c = true -> leb a c = true.
Definition antisym_on (P : A -> Prop) := forall a b, P a -> P b -> leb a b = true -> leb b a = true -> a = b.

Lemma insert_perm x l : Permutation (insert leb x l) (x :: l).
Proof.
  induction l as [|y r IH]; cbn [insert]; [apply Permutation_refl|].
  destruct (leb x y); [apply Permutation_refl|].
  eapply perm_trans; [apply perm_skip, IH | apply perm_swap].
Qed.
Lemma isort_perm l : Permutation (isort leb l) l.
Proof.
  induction l as [|x r IH]; cbn [isort]; [constructor|].
  eapply perm_trans; [apply insert_perm | apply perm_skip, IH].
Qed.

Lemma insert_sorted (Ht : total) (Htr : trans) x l :
  StronglySorted le l -> StronglySorted le (insert leb x l).
Proof.
  induction 1 as [|y r Hs IH Hall]; cbn [insert].
  - constructor; constructor.
  - destruct (leb x y) eqn:E.
    + constructor; [constructor; assumption|].
      constructor; [exact E|]. eapply Forall_impl; [|exact Hall]. cbn. intros a Ha. eapply Htr; eassumption.
    + constructor; [exact IH|].
      assert (Hyx : leb y x = true) by (destruct (Ht x y) as [H|H]; [congruence|exact H]).
      eapply Permutation_Forall; [apply Permutation_sym, insert_perm|]. constructor; assumption.
Qed.
Lemma isort_sorted (Ht : total) (Htr : trans) l : StronglySorted le (isort leb l).
Proof. induction l; cbn [isort]; [constructor | apply insert_sorted; assumption]. Qed.

Lemma sorted_perm_eq (P : A -> Prop) (Has : antisym_on P) : forall l l',
  Forall P l -> StronglySorted le l -> StronglySorted le l' -> Permutation l l' -> l = l'.
Proof.
  induction l as [|a l IH]; intros l' HP Hs Hs' Hp.
  - apply Permutation_nil in Hp. congruence.
  - destruct l' as [|b l']; [apply Permutation_sym, Permutation_nil in Hp; discriminate|].
    inversion Hs as [|? ? Hs1 Ha]; subst. inversion Hs' as [|? ? Hs1' Hb]; subst.
    inversion HP as [|? ? Pa Pl]; subst.
    assert (HP' : Forall P (b :: l')) by (eapply Permutation_Forall; eassumption).
    inversion HP' as [|? ? Pb Pl']; subst.
    assert (Hab : a = b).
    { assert (Hina : In a (b :: l')) by (eapply Permutation_in; [exact Hp | left; reflexivity]).
      assert (Hinb : In b (a :: l)) by (eapply Permutation_in; [apply Permutation_sym; exact Hp | left; reflexivity]).
      destruct Hina as [->|Hina]; [reflexivity|]. destruct Hinb as [->|Hinb]; [reflexivity|].
      rewrite Forall_forall in Ha, Hb. apply Has; auto. }
    subst b. f_equal. apply IH; auto. eapply Permutation_cons_inv; eassumption.
Qed.

Theorem isort_perm_inv_on (P : A -> Prop) (Ht : total) (Htr : trans) (Has : antisym_on P) l l' :
  Forall P l -> Permutation l l' -> isort leb l = isort leb l'.
Proof.
  intros HP Hp. apply (sorted_perm_eq P Has).
  - eapply Permutation_Forall; [apply Permutation_sym, isort_perm | exact HP].
  - apply isort_sorted; assumption.
  - apply isort_sorted; assumption.
  - eapply perm_trans; [apply isort_perm|]. eapply perm_trans; [exact Hp|]. apply Permutation_sym, isort_perm.
Qed.
Theorem isort_perm_inv (Ht : total) (Htr : trans) (Has : antisym_on (fun _ => True)) l l' :
  Permutation l l' -> isort leb l = isort leb l'.
Proof. apply isort_perm_inv_on with (P := fun _ => True); auto. apply Forall_forall. auto. Qed.

(* a sorted list is a fixed point *)
Lemma insert_head x l : Forall (fun y => leb x y = true) l -> insert leb x l = x :: l.
Proof. destruct l as [|y r]; cbn [insert]; [reflexivity|]. intros H. inversion H; subst. rewrite H2. reflexivity. Qed.
Lemma isort_id l : StronglySorted le l -> isort leb l = l.
Proof.
  induction 1 as [|x r Hs IH Hall]; cbn [isort]; [reflexivity|]. rewrite IH. apply insert_head. exact Hall.
Qed.
Lemma isort_idem (Ht : total) (Htr : trans) l : isort leb (isort leb l) = isort leb l.
Proof. apply isort_id, isort_sorted; assumption. Qed.

Lemma insert_length x l : length (insert leb x l) = S (length l).
Proof. induction l as [|y r IH]; cbn [insert]; [reflexivity|]. destruct (leb x y); cbn [length]; congruence. Qed.
Lemma isort_length l : length (isort leb l) = length l.
Proof. induction l; cbn [isort]; [reflexivity|]. rewrite insert_length. cbn [length]. congruence. Qed.
End Sort.

(* sort by key: the order compares key a with key b; the key is injective on the items *)
Section ByKey.
Context {A K : Type} (kleb : K -> K -> bool) (key : A -> K).
Definition by_key (a b : A) : bool := kleb (key a) (key b).

Theorem isort_key_perm_inv (P : A -> Prop) :
  total kleb -> trans kleb -> antisym_on kleb (fun _ => True) ->
  (forall a b, P a -> P b -> key a = key b -> a = b) ->
  forall l l', Forall P l -> Permutation l l' -> isort by_key l = isort by_key l'.
Proof.
  intros Ht Htr Has Hinj l l' HP Hp. apply isort_perm_inv_on with (P := P); auto.
  - intros a b. apply Ht.
  - intros a b c. apply Htr.
  - intros a b Pa Pb H1 H2. apply Hinj; auto.
Qed.

Lemma insert_map x l : insert kleb (key x) (map key l) = map key (insert by_key x l).
Proof.
  induction l as [|y r IH]; cbn [insert map]; [reflexivity|]. unfold by_key at 1.
  destruct (kleb (key x) (key y)); cbn [map]; [reflexivity|]. rewrite IH. reflexivity.
Qed.
Theorem isort_map l : isort kleb (map key l) = map key (isort by_key l).
Proof. induction l as [|x r IH]; cbn [isort map]; [reflexivity|]. rewrite IH. apply insert_map. Qed.
End ByKey.

(* ------------------------------------------------------------------ the order (len(b), b) on byte strings *)
Lemma lex_total a : forall b, lex_leb a b = true \/ lex_leb b a = true.
Proof.
  induction a as [|x a IH]; intros [|y b]; cbn [lex_leb]; auto.
  destruct (Z.lt_trichotomy x y) as [L|[L|L]].
  - left. apply orb_true_iff. left. lia.
  - subst y. rewrite Z.ltb_irrefl, Z.eqb_refl. cbn [orb andb]. apply IH.
  - right. apply orb_true_iff. left. lia.
Qed.
Lemma lex_trans a : forall b c, lex_leb a b = true -> lex_leb b c = true -> lex_leb a c = true.
Proof.
  induction a as [|x a IH]; intros [|y b] [|z c]; cbn [lex_leb]; auto; try discriminate.
  intros H1 H2. apply orb_true_iff in H1, H2. apply orb_true_iff.
  destruct H1 as [H1|H1], H2 as [H2|H2]; try (left; lia).
  apply andb_true_iff in H1 as [H1 H1']. apply andb_true_iff in H2 as [H2 H2'].
    right. apply andb_true_iff. split; [lia|]. eapply IH; eassumption.
Qed.
Lemma lex_antisym a : forall b, lex_leb a b = true -> lex_leb b a = true -> a = b.
Proof.
  induction a as [|x a IH]; intros [|y b]; cbn [lex_leb]; auto; try discriminate.
  intros H1 H2. apply orb_true_iff in H1, H2.
  destruct H1 as [H1|H1], H2 as [H2|H2]; try lia.
  apply andb_true_iff in H1 as [H1 H1']. apply andb_true_iff in H2 as [H2 H2'].
    f_equal; [lia|]. apply IH; assumption.
Qed.

Lemma len_lex_total : total len_lex_leb.
Proof.
  intros a b. unfold len_lex_leb. destruct (Z.lt_trichotomy (zlen a) (zlen b)) as [L|[L|L]].
  - left. apply orb_true_iff. left. lia.
  - rewrite L, Z.ltb_irrefl, Z.eqb_refl. cbn [orb andb]. apply lex_total.
  - right. apply orb_true_iff. left. lia.
Qed.
Lemma len_lex_trans : trans len_lex_leb.
Proof.
  intros a b c. unfold len_lex_leb. intros H1 H2. apply orb_true_iff in H1, H2. apply orb_true_iff.
  destruct H1 as [H1|H1], H2 as [H2|H2]; try (left; lia).
  apply andb_true_iff in H1 as [H1 H1']. apply andb_true_iff in H2 as [H2 H2'].
    right. apply andb_true_iff. split; [lia|]. eapply lex_trans; eassumption.
Qed.
(* antisymmetry = the sort key (len(b), b) is injective: two byte strings comparing equal are the same string *)
Lemma len_lex_antisym : antisym_on len_lex_leb (fun _ => True).
Proof.
  intros a b _ _. unfold len_lex_leb. intros H1 H2. apply orb_true_iff in H1, H2.
  destruct H1 as [H1|H1], H2 as [H2|H2]; try lia.
  apply andb_true_iff in H1 as [_ H1]. apply andb_true_iff in H2 as [_ H2]. apply lex_antisym; assumption.
Qed.

(* the statement C07 uses: the bytes written depend only on the multiset of rendered items *)
Theorem sorted_bytes_perm_inv (l l' : list (list Z)) :
  Permutation l l' -> isort len_lex_leb l = isort len_lex_leb l'.
Proof. apply isort_perm_inv; [apply len_lex_total | apply len_lex_trans | apply len_lex_antisym]. Qed.
