(* C18: per-type stability of File's choice over the regenerated scores (types that carry an ID3v2 tag in front, and AAC).
   Each lemma: for every file name carrying a usual extension of the type in any letter case, every
   header in the type's family, every trailer: File picks the type and File(easy=True) its Easy
   counterpart.  Proof: the atomic tests of every score are decided from the hypotheses where possible,
   the remaining ones are enumerated by reflection (C18_prims.ball). *)
From Coq Require Import ZArith List Bool Lia.
Import ListNotations.
Require Import Base.Py Model.ScorePrims Gen.Gen_scores Model.Score Proofs.C18_prims.
Open Scope Z_scope.

Lemma stable_MP3 : forall fname header trailer,
  named_as C_MP3 fname -> family C_MP3 header trailer -> no_foreign_marker C_MP3 header = true ->
  picks C_MP3 fname header trailer.
Proof.
  open_named; intro Hnfm; marker_facts Hnfm; destruct Hfam as [Hsw|Hsw]; each_ext Hin Hew Hsw.
Qed.

Lemma stable_TrueAudio : forall fname header trailer,
  named_as C_TrueAudio fname -> family C_TrueAudio header trailer -> picks C_TrueAudio fname header trailer.
Proof.
  open_named; destruct Hfam as [Hsw|Hsw]; each_ext Hin Hew Hsw.
Qed.

Lemma stable_FLAC : forall fname header trailer,
  named_as C_FLAC fname -> family C_FLAC header trailer -> picks C_FLAC fname header trailer.
Proof.
  open_named; destruct Hfam as [Hsw|Hsw]; each_ext Hin Hew Hsw.
Qed.
