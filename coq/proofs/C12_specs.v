(* C12 (b): per-Spec round trips under the validity predicates of Model.Id3Spec.
   prim_sd   : self-delimiting kinds -- read (write v ++ rest) = (v, rest) for every following `rest`
               (for v2.2/v2.3 encoded text: every rest that is empty or not all-zero);
   prim_last : every kind as the final field -- read (write v) = (v, []);
   multi_rt  : MultiSpec of encoded-text kinds. *)
From Coq Require Import ZArith List Bool Lia.
Import ListNotations.
Require Import Base.Py Base.ZList Model.Id3Spec Model.Id3Frame Proofs.C12_ints Proofs.C12_codec.
Open Scope Z_scope.

Lemma in_range_spec lo hi v : in_range lo hi v = true <-> lo <= v <= hi.
Proof. unfold in_range. rewrite andb_true_iff, !Z.leb_le. tauto. Qed.

Lemma strip_rest ver rest : ((ver <? 4) = true -> zero_rest_ok rest = true) ->
  (if (ver <? 4) && all_zero rest then [] else rest) = rest.
Proof.
  intros H. destruct (ver <? 4); [|reflexivity]. specialize (H eq_refl). unfold zero_rest_ok in H.
  destruct rest as [|x r]; [destruct (all_zero []); reflexivity|]. cbn [is_nil orb] in H.
  apply negb_true_iff in H. rewrite H. reflexivity.
Qed.

Lemma forallb_map' {A B} (f : B -> bool) (g : A -> B) l : forallb f (map g l) = forallb (fun x => f (g x)) l.
Proof. induction l; cbn; congruence. Qed.

(* time stamps: canonical text has no 'T', no NUL, only ASCII *)
Definition ts_char (c : Z) : bool := is_digit c || (c =? 45) || (c =? 32) || (c =? 58).
Lemma ts_char_cases c : ts_char c = true -> (48 <= c <= 57) \/ c = 45 \/ c = 32 \/ c = 58.
Proof.
  unfold ts_char, is_digit. intros H. apply orb_true_iff in H as [H|H]; [|apply Z.eqb_eq in H; lia].
  apply orb_true_iff in H as [H|H]; [|apply Z.eqb_eq in H; lia].
  apply orb_true_iff in H as [H|H]; [|apply Z.eqb_eq in H; lia].
  apply andb_true_iff in H as [A B]. apply Z.leb_le in A, B. lia.
Qed.
Lemma ts_wire_roundtrip t : forallb ts_char t = true -> ts_of_wire (ts_to_wire t) = t.
Proof.
  induction t as [|c t IH]; intros H; [reflexivity|]. cbn [forallb] in H. apply andb_true_iff in H as [Hc Ht].
  unfold ts_of_wire, ts_to_wire in *. cbn [map]. rewrite IH by exact Ht. f_equal.
  apply ts_char_cases in Hc. destruct (c =? 32) eqn:E; [apply Z.eqb_eq in E; subst; reflexivity|].
  apply Z.eqb_neq in E. destruct (c =? 84) eqn:E2; [apply Z.eqb_eq in E2; lia|reflexivity].
Qed.
Lemma ts_wire_text_ok enc t : forallb ts_char t = true -> text_ok enc (ts_to_wire t) = true.
Proof.
  intros H. unfold text_ok.
  assert (A : forall c, ts_char c = true ->
            let w := (if c =? 32 then 84 else c) in negb (w =? 0) = true /\ latin1_cp w = true /\ valid_cp w = true).
  { intros c Hc. apply ts_char_cases in Hc. cbv zeta. destruct (c =? 32) eqn:E.
    - repeat split.
    - apply Z.eqb_neq in E. unfold latin1_cp, valid_cp.
      repeat split; [apply negb_true_iff; apply Z.eqb_neq; lia| |];
        repeat (apply andb_true_iff; split); try (apply Z.leb_le; lia); try (apply Z.ltb_lt; lia);
        apply negb_true_iff; apply andb_false_iff; left; apply Z.leb_gt; lia. }
  apply andb_true_iff; split.
  - unfold no_zero, ts_to_wire. rewrite forallb_map'. apply forallb_forall. intros c Hc.
    apply (A c). rewrite forallb_forall in H. apply H. exact Hc.
  - unfold ts_to_wire. destruct (enc =? 0); rewrite forallb_map'; apply forallb_forall; intros c Hc;
      apply (A c); rewrite forallb_forall in H; apply H; exact Hc.
Qed.

Lemma ztake_app_len {A} n (a b : list A) : zlen a = n -> ztake n (a ++ b) = a.
Proof. intros <-. apply ztake_app_exact. Qed.
Lemma zdrop_app_len {A} n (a b : list A) : zlen a = n -> zdrop n (a ++ b) = b.
Proof. intros <-. apply zdrop_app_exact. Qed.

Lemma concat_app_nonnil {A} (a b : list A) : a <> [] -> a ++ b <> [].
Proof. destruct a; [congruence|discriminate]. Qed.

Section Specs.
Variable sub : list Z -> result (value * list Z).
Variable subw : value -> result (list Z).
Variable subvalid : value -> bool.
Variable ver : Z.
(* the nested-frame reader inverts the nested-frame writer on valid nested values *)
Hypothesis sub_roundtrip : forall v, subvalid v = true -> exists b, subw v = Ok b /\ sub b = Ok (v, []).

Definition rest_ok (k : prim_kind) (rest : list Z) : Prop :=
  (ver <? 4) && is_enc_text k = true -> zero_rest_ok rest = true.

Notation pread := (prim_read sub ver).
Notation pwrite := (prim_write subw).
Notation pvalid := (prim_valid subvalid ver).

Lemma latin1_list_rt l rest :
  forallb (fun e => match e with VText t => no_zero t && forallb latin1_cp t | _ => false end) l = true ->
  exists b, rconcat (fun e => rbind (as_text e) latin1_write) l = Ok b /\
            latin1_list_read (length l) (b ++ rest) = (l, rest).
Proof.
  induction l as [|e l IH]; intros H.
  - exists []. split; reflexivity.
  - cbn [forallb] in H. apply andb_true_iff in H as [He Hl]. destruct e as [| t | |]; try discriminate.
    apply andb_true_iff in He as [Hz Hl1]. destruct (IH Hl) as (b & Hb & Hr).
    unfold rconcat in *. cbn [rmapM as_text rbind]. unfold latin1_write at 1. rewrite Hl1.
    destruct (rmapM (fun e => rbind (as_text e) latin1_write) l) as [ys|] eqn:E; [|discriminate].
    cbn [rmap] in Hb. inversion Hb; subst b. exists ((t ++ [0]) ++ concat ys). split; [reflexivity|].
    cbn [length latin1_list_read]. rewrite <- app_assoc. rewrite latin1_read_write by exact Hz.
    rewrite Hr. reflexivity.
Qed.

(* -------- self-delimiting kinds *)
Lemma prim_sd c k v : self_delim k = true -> pvalid c k v = true ->
  exists b, pwrite c k v = Ok b /\ b <> [] /\
            forall rest, rest_ok k rest -> pread c k (b ++ rest) = Ok (v, rest).
Proof.
  intros Hsd Hv. destruct k; try discriminate Hsd; cbn [prim_valid] in Hv.
  - (* KByte *) destruct v as [b| | |]; try discriminate. exists [b]. cbn [prim_write byte_write]. rewrite Hv.
    split; [reflexivity|split; [discriminate|]]. intros rest _. reflexivity.
  - (* KEncoding *) destruct v as [b| | |]; try discriminate. apply andb_true_iff in Hv as [Hv _].
    exists [b]. cbn [prim_write byte_write].
    assert (R : in_range 0 255 b = true).
    { destruct (valid_enc_cases b Hv) as [E|[E|[E|E]]]; subst; reflexivity. }
    rewrite R. split; [reflexivity|split; [discriminate|]]. intros rest _. cbn [app prim_read]. rewrite Hv. reflexivity.
  - (* KPictureType *) destruct v as [b| | |]; try discriminate. exists [b]. cbn [prim_write byte_write]. rewrite Hv.
    split; [reflexivity|split; [discriminate|]]. intros rest _. reflexivity.
  - (* KCTOCFlags *) destruct v as [b| | |]; try discriminate. exists [b]. cbn [prim_write byte_write]. rewrite Hv.
    split; [reflexivity|split; [discriminate|]]. intros rest _. reflexivity.
  - (* KChannel *) destruct v as [b| | |]; try discriminate. exists [b]. cbn [prim_write byte_write]. rewrite Hv.
    split; [reflexivity|split; [discriminate|]]. intros rest _. reflexivity.
  - (* KSizedInteger *) destruct v as [z| | |]; try discriminate.
    apply andb_true_iff in Hv as [Hv Hz2]. apply andb_true_iff in Hv as [Hn Hz1].
    apply Z.leb_le in Hn, Hz1. apply Z.ltb_lt in Hz2.
    exists (be_encode (Z.to_nat n) z). cbn [prim_write as_int rbind]. rewrite int_to_str_fixed by lia.
    split; [reflexivity|split; [apply be_encode_nonnil; lia|]]. intros rest _. cbn [prim_read].
    assert (L : zlen (be_encode (Z.to_nat n) z) = n) by (rewrite zlen_be_encode; lia).
    rewrite (ztake_app_len n), (zdrop_app_len n) by exact L.
    rewrite be_decode_encode by (rewrite Z2Nat.id by lia; lia). reflexivity.
  - (* KString *) destruct v as [|t| |]; try discriminate.
    apply andb_true_iff in Hv as [Hv Ha]. apply andb_true_iff in Hv as [Hn Hl]. apply Z.leb_le in Hn. apply Z.eqb_eq in Hl.
    exists t. cbn [prim_write as_text rbind]. rewrite Ha. subst n. rewrite ztake_app_exact.
    split; [reflexivity|split].
    + intros E; subst t. cbn in Hn. lia.
    + intros rest _. cbn [prim_read]. rewrite ztake_app_exact, zdrop_app_exact, Ha. reflexivity.
  - (* KFrameID *) destruct v as [|t| |]; try discriminate.
    apply andb_true_iff in Hv as [Hv Ha]. apply andb_true_iff in Hv as [Hn Hl]. apply Z.leb_le in Hn. apply Z.eqb_eq in Hl.
    exists t. cbn [prim_write as_text rbind]. rewrite Ha. subst n. rewrite ztake_app_exact.
    split; [reflexivity|split].
    + intros E; subst t. cbn in Hn. lia.
    + intros rest _. cbn [prim_read]. rewrite ztake_app_exact, zdrop_app_exact, Ha. reflexivity.
  - (* KLatin1Text *) destruct v as [|t| |]; try discriminate. apply andb_true_iff in Hv as [Hz Hl].
    exists (t ++ [0]). cbn [prim_write as_text rbind]. unfold latin1_write. rewrite Hl.
    split; [reflexivity|split; [intros E; apply app_eq_nil in E as [_ E]; discriminate|]].
    intros rest _. cbn [prim_read]. rewrite latin1_read_write by exact Hz. reflexivity.
  - (* KEncodedText *) unfold text_val_ok in Hv. destruct v as [|t| |]; try discriminate.
    apply andb_true_iff in Hv as [He Ht].
    exists (enc_bytes (c_enc c) t ++ text_term (c_enc c)). cbn [prim_write as_text rbind].
    rewrite enc_text_write_ok by assumption. split; [reflexivity|split; [apply enc_bytes_term_nonnil|]].
    intros rest Hr. cbn [prim_read]. rewrite enc_text_read_write by assumption. rewrite strip_rest; [reflexivity|].
    intros Hlt. apply Hr. rewrite Hlt. reflexivity.
  - (* KEncodedNumericText *) unfold text_val_ok in Hv. destruct v as [|t| |]; try discriminate.
    apply andb_true_iff in Hv as [He Ht].
    exists (enc_bytes (c_enc c) t ++ text_term (c_enc c)). cbn [prim_write as_text rbind].
    rewrite enc_text_write_ok by assumption. split; [reflexivity|split; [apply enc_bytes_term_nonnil|]].
    intros rest Hr. cbn [prim_read]. rewrite enc_text_read_write by assumption. rewrite strip_rest; [reflexivity|].
    intros Hlt. apply Hr. rewrite Hlt. reflexivity.
  - (* KEncodedNumericPartText *) unfold text_val_ok in Hv. destruct v as [|t| |]; try discriminate.
    apply andb_true_iff in Hv as [He Ht].
    exists (enc_bytes (c_enc c) t ++ text_term (c_enc c)). cbn [prim_write as_text rbind].
    rewrite enc_text_write_ok by assumption. split; [reflexivity|split; [apply enc_bytes_term_nonnil|]].
    intros rest Hr. cbn [prim_read]. rewrite enc_text_read_write by assumption. rewrite strip_rest; [reflexivity|].
    intros Hlt. apply Hr. rewrite Hlt. reflexivity.
  - (* KTimeStamp *) unfold text_val_ok in Hv. destruct v as [|t| |]; try discriminate.
    apply andb_true_iff in Hv as [He Ht]. unfold ts_ok in Ht. apply andb_true_iff in Ht as [Hc _].
    change (forallb ts_char t = true) in Hc.
    pose proof (ts_wire_text_ok (c_enc c) t Hc) as Hw.
    exists (enc_bytes (c_enc c) (ts_to_wire t) ++ text_term (c_enc c)). cbn [prim_write as_text rbind].
    rewrite enc_text_write_ok by assumption. split; [reflexivity|split; [apply enc_bytes_term_nonnil|]].
    intros rest Hr. cbn [prim_read]. rewrite enc_text_read_write by assumption. rewrite ts_wire_roundtrip by exact Hc.
    rewrite strip_rest; [reflexivity|]. intros Hlt. apply Hr. rewrite Hlt. reflexivity.
  - (* KVolumeAdjustment *) destruct v as [n| | |]; try discriminate. pose proof Hv as Hv'. apply in_range_spec in Hv'.
    exists (be_encode 2 (n mod 65536)). cbn [prim_write as_int rbind]. rewrite Hv.
    split; [reflexivity|split; [apply be_encode_nonnil; lia|]]. intros rest _. cbn [prim_read].
    assert (L : zlen (be_encode 2 (n mod 65536)) = 2) by (rewrite zlen_be_encode; reflexivity).
    rewrite zlen_app, L. pose proof (zlen_nonneg rest).
    replace (2 + zlen rest <? 2) with false by (symmetry; apply Z.ltb_ge; lia).
    rewrite (ztake_app_len 2), (zdrop_app_len 2) by exact L.
    rewrite be_decode_encode by (change (256 ^ Z.of_nat 2) with 65536; apply Z.mod_pos_bound; lia).
    change 65536 with (2 ^ 16). rewrite signed_mod by (try lia; change (2 ^ (16 - 1)) with 32768; lia). reflexivity.
  - (* KVolumePeak *) destruct v as [n| | |]; try discriminate. pose proof Hv as Hv'. apply in_range_spec in Hv'.
    exists (16 :: be_encode 2 n). cbn [prim_write as_int rbind]. rewrite Hv.
    split; [reflexivity|split; [discriminate|]]. intros rest _. cbn [prim_read app]. unfold vp_read.
    assert (L : zlen (be_encode 2 n) = 2) by (rewrite zlen_be_encode; reflexivity).
    replace (Z.min 4 ((16 + 7) / 8)) with 2 by reflexivity.
    rewrite zlen_cons, zlen_app, L. pose proof (zlen_nonneg rest).
    replace (1 + (2 + zlen rest) <? 2 + 1) with false by (symmetry; apply Z.ltb_ge; lia).
    replace ((8 - 16 mod 8) mod 8 + (4 - 2) * 8) with 16 by reflexivity.
    rewrite (ztake_app_len 2), (zdrop_app_len 2) by exact L.
    rewrite be_decode_encode by (change (256 ^ Z.of_nat 2) with 65536; lia).
    unfold peak_wire. change (2 ^ 16) with 65536.
    replace ((n * 65536 * 65536 + 2147483647) / 4294967294) with n by zlia. reflexivity.
  - (* KLatin1TextList *) destruct v as [| | |l]; try discriminate. apply andb_true_iff in Hv as [Hn Hl].
    apply Z.leb_le in Hn. pose proof (zlen_nonneg l).
    destruct (latin1_list_rt l [] Hl) as (b & Hb & _).
    exists (zlen l :: b). cbn [prim_write as_list rbind byte_write].
    replace (in_range 0 255 (zlen l)) with true by (symmetry; apply in_range_spec; lia).
    cbn [rbind]. rewrite Hb. split; [reflexivity|split; [discriminate|]]. intros rest _. cbn [prim_read app].
    destruct (latin1_list_rt l rest Hl) as (b' & Hb' & Hr). rewrite Hb in Hb'. inversion Hb'; subst b'.
    unfold zlen at 1. rewrite Nat2Z.id, Hr. reflexivity.
Qed.

Lemma rest_ok_nil k : rest_ok k [].
Proof. intros _. reflexivity. Qed.

Definition nodata (k : prim_kind) : bool := match k with KBinaryData | KID3Frames => true | _ => false end.

(* -------- MultiSpec of encoded-text kinds *)
Definition wflat (c : rctx) (F : list (prim_kind * value)) : result (list Z) :=
  rconcat (fun kv : prim_kind * value => prim_write subw c (fst kv) (snd kv)) F.

Lemma wflat_cons c k v F b B : pwrite c k v = Ok b -> wflat c F = Ok B -> wflat c ((k, v) :: F) = Ok (b ++ B).
Proof.
  unfold wflat, rconcat. cbn [rmapM fst snd]. intros Hb HB. rewrite Hb.
  destruct (rmapM _ F) as [ys|]; [|discriminate]. cbn [rmap] in *. inversion HB; subst. reflexivity.
Qed.
Lemma wflat_app c F G A B : wflat c F = Ok A -> wflat c G = Ok B -> wflat c (F ++ G) = Ok (A ++ B).
Proof.
  revert A; induction F as [|[k v] F IH]; intros A HA HB.
  - cbn in HA. inversion HA; subst. exact HB.
  - unfold wflat, rconcat in HA. cbn [rmapM fst snd] in HA. destruct (pwrite c k v) as [b|] eqn:Eb; [|discriminate].
    destruct (rmapM _ F) as [ys|] eqn:Ey; [|discriminate]. cbn [rmap] in HA. inversion HA; subst A.
    cbn [app]. rewrite <- app_assoc. apply wflat_cons; [exact Eb|]. apply IH; [|exact HB].
    unfold wflat, rconcat. rewrite Ey. reflexivity.
Qed.

Lemma flat_valid_write c F : flat_valid subw subvalid ver c F = true -> exists B, wflat c F = Ok B.
Proof.
  induction F as [|[k v] F IH]; intros H; [exists []; reflexivity|].
  cbn [flat_valid] in H. apply andb_true_iff in H as [H _]. apply andb_true_iff in H as [H HF].
  apply andb_true_iff in H as [Hk Hv]. destruct (IH HF) as (B & HB).
  assert (Hsd : self_delim k = true) by (destruct k; try discriminate Hk; reflexivity).
  destruct (prim_sd c k v Hsd Hv) as (b & Hw & _). exists (b ++ B). apply wflat_cons; assumption.
Qed.

(* one record: the fields `ks` with values `rec`, followed by the flat list G *)
Lemma multi_record_rt c ks : forall rec G BG,
  length rec = length ks -> flat_valid subw subvalid ver c (combine ks rec ++ G) = true -> wflat c G = Ok BG ->
  exists b, multi_record_write subw c ks rec = Ok b /\ wflat c (combine ks rec) = Ok b /\
            (ks <> [] -> b <> []) /\
            multi_record sub ver c ks (b ++ BG) = Ok (rec, BG).
Proof.
  induction ks as [|k ks IH]; intros rec G BG Hlen Hv HG.
  - destruct rec; [|discriminate]. exists []. repeat split. congruence.
  - destruct rec as [|v rec]; [discriminate|]. cbn [length] in Hlen. injection Hlen as Hlen.
    cbn [combine app flat_valid] in Hv. apply andb_true_iff in Hv as [Hv Hz]. apply andb_true_iff in Hv as [Hv HF].
    apply andb_true_iff in Hv as [Hk Hpv].
    destruct (IH rec G BG Hlen HF HG) as (b' & Hw' & Hf' & _ & Hr').
    assert (Hsd : self_delim k = true) by (destruct k; try discriminate Hk; reflexivity).
    destruct (prim_sd c k v Hsd Hpv) as (b & Hw & Hn & Hr).
    exists (b ++ b'). cbn [multi_record_write]. rewrite Hw. cbn [rbind]. rewrite Hw'. cbn [rmap].
    split; [reflexivity|]. split; [apply wflat_cons; assumption|]. split; [intros _; apply concat_app_nonnil; exact Hn|].
    cbn [multi_record]. rewrite <- app_assoc. rewrite Hr.
    + rewrite Hr'. reflexivity.
    + intros Hs. apply andb_true_iff in Hs as [Hlt _]. rewrite Z.ltb_lt in Hlt.
      replace (4 <=? ver) with false in Hz by (symmetry; apply Z.leb_gt; lia). cbn [orb] in Hz.
      fold (wflat c (combine ks rec ++ G)) in Hz. rewrite (wflat_app c _ _ _ _ Hf' HG) in Hz. exact Hz.
Qed.

Lemma multi_pack_unpack ks rec : length rec = length ks -> ks <> [] ->
  record_shape ks (multi_pack ks rec) = true /\ multi_unpack ks (multi_pack ks rec) = Ok rec.
Proof.
  intros Hl Hn. destruct ks as [|k [|k2 ks]]; [congruence| |].
  - destruct rec as [|v [|]]; try discriminate. split; reflexivity.
  - cbn [multi_pack record_shape multi_unpack as_list].
    split; [apply Nat.eqb_eq; exact Hl|reflexivity].
Qed.

(* records of a valid MultiSpec value *)
Lemma record_of ks e : ks <> [] -> record_shape ks e = true ->
  exists rec, length rec = length ks /\ e = multi_pack ks rec /\
              (forall l, multi_flat ks (e :: l) = combine ks rec ++ multi_flat ks l).
Proof.
  intros Hn Hs. destruct ks as [|k [|k2 ks]]; [congruence| |].
  - exists [e]. split; [reflexivity|split; [reflexivity|intros l; reflexivity]].
  - cbn [record_shape] in Hs. destruct e as [| | |rec]; try discriminate. apply Nat.eqb_eq in Hs.
    exists rec. split; [exact Hs|split; [reflexivity|intros l; reflexivity]].
Qed.

Lemma multi_loop_rt c ks : ks <> [] -> forall l fuel,
  forallb (record_shape ks) l = true -> flat_valid subw subvalid ver c (multi_flat ks l) = true ->
  exists B, rconcat (fun e => rbind (multi_unpack ks e) (multi_record_write subw c ks)) l = Ok B /\
            wflat c (multi_flat ks l) = Ok B /\
            (l <> [] -> B <> []) /\
            ((length B < fuel)%nat -> multi_loop sub ver fuel c ks B = Ok l).
Proof.
  intros Hn. induction l as [|e l IH]; intros fuel Hs Hv.
  - exists []. repeat split; [congruence|]. intros _. destruct fuel; reflexivity.
  - cbn [forallb] in Hs. apply andb_true_iff in Hs as [Hs1 Hs2].
    destruct (record_of ks e Hn Hs1) as (rec & Hlen & He & Hflat). rewrite Hflat in Hv.
    assert (HvG : flat_valid subw subvalid ver c (multi_flat ks l) = true).
    { clear - Hv. induction (combine ks rec) as [|[k v] F IHF]; [exact Hv|].
      cbn [app flat_valid] in Hv. apply andb_true_iff in Hv as [Hv _]. apply andb_true_iff in Hv as [_ Hv]. apply IHF. exact Hv. }
    destruct (flat_valid_write c _ HvG) as (BG0 & HBG0).
    destruct (multi_record_rt c ks rec (multi_flat ks l) BG0 Hlen Hv HBG0) as (b & Hw & Hf & Hnn & Hr).
    exists (b ++ BG0). split; [|split; [|split]].
    + unfold rconcat. cbn [rmapM]. subst e. destruct (multi_pack_unpack ks rec Hlen Hn) as [_ Hu]. rewrite Hu. cbn [rbind].
      rewrite Hw. destruct (IH (S (length BG0)) Hs2 HvG) as (B' & HB' & HF' & _). rewrite HBG0 in HF'. inversion HF'; subst B'.
      unfold rconcat in HB'. destruct (rmapM _ l) as [ys|]; [|discriminate]. cbn [rmap] in *. inversion HB'. reflexivity.
    + rewrite Hflat. apply wflat_app; assumption.
    + intros _. apply concat_app_nonnil. apply Hnn. exact Hn.
    + intros Hfuel. destruct fuel as [|fuel]; [lia|].
      assert (Hb : b <> []) by (apply Hnn; exact Hn).
      cbn [multi_loop]. rewrite Hr.
      destruct (b ++ BG0) as [|x xs] eqn:Ex; [apply app_eq_nil in Ex as [Ex _]; congruence|]. rewrite <- Ex in Hfuel.
      destruct (IH fuel Hs2 HvG) as (B' & _ & HF' & _ & Hl'). rewrite HBG0 in HF'. inversion HF'; subst B'.
      rewrite Hl'; [subst e; reflexivity|]. rewrite app_length in Hfuel. destruct b; [congruence|]. cbn [length] in Hfuel. lia.
Qed.

Lemma multi_rt c ks v : spec_valid subw subvalid ver c (KMulti ks) v = true ->
  exists b, spec_write subw c (KMulti ks) v = Ok b /\ b <> [] /\ spec_read sub ver c (KMulti ks) b = Ok (v, []).
Proof.
  cbn [spec_valid]. destruct v as [| | |l]; try discriminate. intros H.
  apply andb_true_iff in H as [H Hv]. apply andb_true_iff in H as [H Hs]. apply andb_true_iff in H as [Hl Hk].
  assert (Hn : ks <> []) by (destruct ks; [discriminate|congruence]).
  destruct (multi_loop_rt c ks Hn l (S (length (match wflat c (multi_flat ks l) with Ok B => B | Raise _ => [] end))) Hs Hv)
    as (B & HB & HF & Hnn & Hr).
  exists B. cbn [spec_write as_list rbind]. split; [exact HB|]. split; [apply Hnn; destruct l; [discriminate|congruence]|].
  cbn [spec_read]. rewrite HF in Hr. rewrite Hr by lia. reflexivity.
Qed.

End Specs.

(* gains and peaks on their 16-bit wire grids *)
Lemma gain_peak_wire sub subw ver c n rest :
  (-32768 <= n <= 32767 ->
     prim_write subw c KVolumeAdjustment (VInt n) = Ok (be_encode 2 (n mod 65536)) /\
     prim_read sub ver c KVolumeAdjustment (be_encode 2 (n mod 65536) ++ rest) = Ok (VInt n, rest)) /\
  (0 <= n <= 65535 ->
     prim_write subw c KVolumePeak (VInt n) = Ok (16 :: be_encode 2 n) /\
     prim_read sub ver c KVolumePeak ((16 :: be_encode 2 n) ++ rest) = Ok (VInt n, rest)).
Proof.
  split; intros Hn.
  - assert (V : in_range (-32768) 32767 n = true) by (apply in_range_spec; exact Hn).
    destruct (prim_sd sub subw (fun _ => true) ver c KVolumeAdjustment (VInt n) eq_refl V) as (b & Hw & _ & Hr).
    cbn [prim_write as_int rbind] in Hw |- *. rewrite V in Hw |- *. inversion Hw; subst b. split; [reflexivity|].
    apply Hr. intros E. rewrite andb_false_r in E. discriminate.
  - assert (V : in_range 0 65535 n = true) by (apply in_range_spec; exact Hn).
    destruct (prim_sd sub subw (fun _ => true) ver c KVolumePeak (VInt n) eq_refl V) as (b & Hw & _ & Hr).
    cbn [prim_write as_int rbind] in Hw |- *. rewrite V in Hw |- *. inversion Hw; subst b. split; [reflexivity|].
    apply Hr. intros E. rewrite andb_false_r in E. discriminate.
Qed.
