(* DSF family: the strict reader and the renderer are inverse; what save and delete do to a well-formed file.
     dsf_parse (dsf_render a t) = Ok (mkDsf a t)                 (audio part and tag valid, total size fits 64 bits)
     dsf_parse f = Ok s -> f = dsf_render (d_audio s) (d_tag s) /\ ...
     dsf_save (dsf_render a t) tag = Ok (dsf_render a (Some tag))     unless the total size leaves 64 bits
     dsf_delete (dsf_render a t)   = Ok (dsf_render a None)           when mutagen supports the fmt chunk *)
From Coq Require Import ZArith List Bool Lia.
Import ListNotations.
Require Import Base.Py Base.ZList Model.Splice Model.Fam_carrier Model.Fam_dsf
  Proofs.Fam_iff_codec Proofs.Fam_iff_chunks.
Open Scope Z_scope.

(* ---- list segments across an append *)
Lemma zslice_app_l {A} (a b : list A) x y : 0 <= x -> y <= zlen a -> zslice x y (a ++ b) = zslice x y a.
Proof.
  intros Hx Hy. unfold zslice. destruct (Z.le_gt_cases x (zlen a)).
  - rewrite zdrop_app_l by lia. apply ztake_app_l. rewrite zlen_zdrop by lia. lia.
  - rewrite !ztake_neg by lia. reflexivity.
Qed.
Lemma zslice_app_r {A} (a b : list A) x y : zlen a <= x -> zslice x y (a ++ b) = zslice (x - zlen a) (y - zlen a) b.
Proof. intros Hx. unfold zslice. rewrite zdrop_app_r by lia. f_equal. lia. Qed.
Lemma zslice_cat {A} a b c (l : list A) : 0 <= a <= b -> b <= c -> b <= zlen l ->
  zslice a c l = zslice a b l ++ zslice b c l.
Proof.
  intros H1 H2 H3. unfold zslice at 1. rewrite (zdrop_split a b l) by lia.
  rewrite ztake_app_r by (rewrite zlen_zslice by lia; lia). rewrite zlen_zslice by lia.
  f_equal. unfold zslice. f_equal. lia.
Qed.
Lemma zslice_zslice {A} p q x y (l : list A) : 0 <= p <= q -> q <= zlen l -> 0 <= x -> y <= q - p ->
  zslice x y (zslice p q l) = zslice (p + x) (p + y) l.
Proof.
  intros H1 H2 H3 H4. rewrite (list_split3 p q l) at 2 by lia.
  rewrite zslice_app_r by (rewrite zlen_ztake by lia; lia). rewrite zlen_ztake by lia.
  replace (p + x - Z.min p (zlen l)) with x by lia. replace (p + y - Z.min p (zlen l)) with y by lia.
  symmetry. apply zslice_app_l; [lia|]. rewrite zlen_zslice by lia. lia.
Qed.
Lemma all_bytes_app a b : all_bytes (a ++ b) = true <-> all_bytes a = true /\ all_bytes b = true.
Proof. unfold all_bytes. rewrite forallb_app, andb_true_iff. tauto. Qed.
Lemma zslice_all {A} (l : list A) n : n = zlen l -> zslice 0 n l = l.
Proof. intros ->. unfold zslice. rewrite zdrop_0, Z.sub_0_r. apply ztake_all. lia. Qed.

(* ---- 64-bit little-endian fields *)
Lemma u64_zlen v : zlen (u64 v) = 8. Proof. unfold u64. rewrite le_encode_zlen. reflexivity. Qed.
Lemma u64_bytes v : all_bytes (u64 v) = true. Proof. apply le_encode_bytes. Qed.
Lemma fits64_iff v : fits64 v = true <-> 0 <= v < 256 ^ 8.
Proof. unfold fits64. rewrite andb_true_iff, Z.leb_le, Z.ltb_lt. tauto. Qed.
Lemma u64_decode v : fits64 v = true -> le_decode (u64 v) = v.
Proof. intros Hv. apply fits64_iff in Hv. unfold u64. apply le_decode_encode. exact Hv. Qed.
Lemma u64_encode bs : zlen bs = 8 -> all_bytes bs = true -> u64 (le_decode bs) = bs /\ fits64 (le_decode bs) = true.
Proof.
  intros Hl Hb. assert (El : length bs = 8%nat) by (unfold zlen in Hl; lia).
  unfold u64. rewrite fits64_iff. rewrite <- El at 1. split; [apply le_encode_decode; exact Hb|].
  pose proof (le_decode_range bs Hb) as Hr. rewrite El in Hr. exact Hr.
Qed.
Lemma fits64_28 : fits64 28 = true. Proof. reflexivity. Qed.
Lemma fits64_0 : fits64 0 = true. Proof. reflexivity. Qed.

Lemma dsd_header_zlen total ptr : zlen (dsd_header total ptr) = 28.
Proof. unfold dsd_header. rewrite !zlen_app, !u64_zlen. reflexivity. Qed.

Lemma dsd_header_parts total ptr r :
  let f := dsd_header total ptr ++ r in
  ztake 4 f = s_DSD /\ zslice 4 12 f = u64 28 /\ zslice 12 20 f = u64 total /\ zslice 20 28 f = u64 ptr /\
  zdrop 28 f = r /\ zslice 4 28 f = u64 28 ++ u64 total ++ u64 ptr.
Proof.
  intros f. unfold f, dsd_header. rewrite <- !app_assoc.
  destruct (seg5 s_DSD (u64 28) (u64 total) (u64 ptr) r 4 12 20 28) as (S1 & S2 & S3 & S4 & S5);
    try (rewrite ?u64_zlen; reflexivity).
  split; [exact S1|]. split; [exact S2|]. split; [exact S3|]. split; [exact S4|]. split; [exact S5|].
  replace (s_DSD ++ u64 28 ++ u64 total ++ u64 ptr ++ r) with (s_DSD ++ (u64 28 ++ u64 total ++ u64 ptr) ++ r)
    by (rewrite <- !app_assoc; reflexivity).
  apply zslice_mid; rewrite ?zlen_app, ?u64_zlen; reflexivity.
Qed.

(* ---- the audio part: fmt chunk (52 bytes) and data chunk tile it *)
Definition audio_ok (a : list Z) : bool :=
  (64 <=? zlen a) && list_eqb (zslice 0 4 a) s_fmt && (le_decode (zslice 4 12 a) =? 52) &&
  list_eqb (zslice 52 56 a) s_data && (52 + le_decode (zslice 56 64 a) =? zlen a).
(* what FormatChunk.load additionally insists on: format version 1, format id 0 (DSD raw) *)
Definition fmt_supported (a : list Z) : bool :=
  (le_decode (zslice 12 16 a) =? 1) && (le_decode (zslice 16 20 a) =? 0).
Definition tag_opt_ok (t : option (list Z)) : bool := match t with Some t => id3_tag_exact t | None => true end.
Definition tag_bytes (t : option (list Z)) : list Z := match t with Some t => t | None => [] end.

Definition dsf_render (a : list Z) (t : option (list Z)) : list Z :=
  dsd_header (28 + zlen a + zlen (tag_bytes t)) (match t with Some _ => 28 + zlen a | None => 0 end) ++ a ++ tag_bytes t.
Definition dsf_ok (a : list Z) (t : option (list Z)) : bool :=
  audio_ok a && tag_opt_ok t && fits64 (28 + zlen a + zlen (tag_bytes t)).

Lemma audio_ok_inv a : audio_ok a = true ->
  64 <= zlen a /\ zslice 0 4 a = s_fmt /\ le_decode (zslice 4 12 a) = 52 /\ zslice 52 56 a = s_data /\
  52 + le_decode (zslice 56 64 a) = zlen a.
Proof.
  unfold audio_ok. rewrite !andb_true_iff, Z.leb_le, !Z.eqb_eq, !list_eqb_spec. tauto.
Qed.

Lemma dsf_render_zlen a t : zlen (dsf_render a t) = 28 + zlen a + zlen (tag_bytes t).
Proof. unfold dsf_render. rewrite !zlen_app, dsd_header_zlen. lia. Qed.

(* slices of the rendered file inside the audio part *)
Lemma render_audio_slice a t x y total ptr : 28 <= x -> y <= 28 + zlen a ->
  zslice x y (dsd_header total ptr ++ a ++ t) = zslice (x - 28) (y - 28) a.
Proof.
  intros Hx Hy. rewrite zslice_app_r by (rewrite dsd_header_zlen; lia). rewrite dsd_header_zlen.
  apply zslice_app_l; lia.
Qed.

Theorem dsf_parse_render a t : dsf_ok a t = true -> dsf_parse (dsf_render a t) = Ok (mkDsf a t).
Proof.
  unfold dsf_ok. rewrite !andb_true_iff. intros [[Ha Ht] Hf].
  destruct (audio_ok_inv a Ha) as (A1 & A2 & A3 & A4 & A5).
  pose proof (dsf_render_zlen a t) as Lf. pose proof (zlen_nonneg (tag_bytes t)) as Ht0.
  set (tb := tag_bytes t) in *. set (total := 28 + zlen a + zlen tb) in *.
  set (ptr := match t with Some _ => 28 + zlen a | None => 0 end).
  assert (Hptr : fits64 ptr = true).
  { apply fits64_iff. apply fits64_iff in Hf. unfold ptr. destruct t; lia. }
  unfold dsf_render. fold tb total ptr.
  destruct (dsd_header_parts total ptr (a ++ tb)) as (S1 & S2 & S3 & S4 & S5 & S6). cbv zeta in *.
  unfold dsf_render in Lf. fold tb total ptr in Lf.
  set (f := dsd_header total ptr ++ a ++ tb) in *.
  unfold dsf_parse. bset (zlen f <? 92) false. rewrite S1. change (list_eqb s_DSD s_DSD) with true. cbn [negb].
  rewrite S6. assert (Hb : all_bytes (u64 28 ++ u64 total ++ u64 ptr) = true).
  { apply all_bytes_app. split; [apply u64_bytes|]. apply all_bytes_app. split; apply u64_bytes. }
  rewrite Hb. cbn [negb]. rewrite S2, (u64_decode 28 fits64_28). change (28 =? 28) with true. cbn [negb].
  rewrite S3, (u64_decode total Hf). bset (total =? zlen f) true. cbn [negb]. rewrite S4, (u64_decode ptr Hptr).
  unfold f. rewrite !render_audio_slice by lia.
  change (28 - 28) with 0. change (32 - 28) with 4. change (40 - 28) with 12. change (80 - 28) with 52.
  change (84 - 28) with 56. change (92 - 28) with 64.
  rewrite A2, A3, A4. change (list_eqb s_fmt s_fmt) with true. change (list_eqb s_data s_data) with true.
  change (52 =? 52) with true. cbn [negb]. fold f.
  bset (80 + le_decode (zslice 56 64 a) <? 92) false.
  destruct t as [t|]; unfold ptr, tb in *; cbn [tag_bytes tag_opt_ok] in *.
  - bset (28 + zlen a =? 0) false. bset (28 + zlen a =? 80 + le_decode (zslice 56 64 a)) true. cbn [negb].
    bset (zlen f <? 28 + zlen a) false.
    assert (Ed : zdrop (28 + zlen a) f = t).
    { unfold f. replace (dsd_header total (28 + zlen a) ++ a ++ t) with ((dsd_header total (28 + zlen a) ++ a) ++ t)
        by (rewrite <- app_assoc; reflexivity).
      apply zdrop_app_len. rewrite zlen_app, dsd_header_zlen. reflexivity. }
    rewrite Ed, Ht. cbn [negb]. f_equal. f_equal.
    unfold f. rewrite render_audio_slice by lia. replace (28 + zlen a - 28) with (zlen a) by lia.
    change (28 - 28) with 0. apply zslice_all. reflexivity.
  - change (0 =? 0) with true. cbv iota. unfold total in *. change (zlen (@nil Z)) with 0 in *.
    bset (80 + le_decode (zslice 56 64 a) =? zlen f) true. cbn [negb].
    rewrite S5, app_nil_r. reflexivity.
Qed.

Theorem dsf_parse_sound f s : dsf_parse f = Ok s ->
  f = dsf_render (d_audio s) (d_tag s) /\ dsf_ok (d_audio s) (d_tag s) = true.
Proof.
  unfold dsf_parse. intros Hp.
  destruct (zlen f <? 92) eqn:E0; [discriminate|].
  destruct (list_eqb (ztake 4 f) s_DSD) eqn:E1; cbn [negb] in Hp; [|discriminate].
  destruct (all_bytes (zslice 4 28 f)) eqn:E2; cbn [negb] in Hp; [|discriminate].
  destruct (le_decode (zslice 4 12 f) =? 28) eqn:E3; cbn [negb] in Hp; [|discriminate].
  destruct (le_decode (zslice 12 20 f) =? zlen f) eqn:E4; cbn [negb] in Hp; [|discriminate].
  destruct (list_eqb (zslice 28 32 f) s_fmt) eqn:E5; cbn [negb] in Hp; [|discriminate].
  destruct (le_decode (zslice 32 40 f) =? 52) eqn:E6; cbn [negb] in Hp; [|discriminate].
  destruct (list_eqb (zslice 80 84 f) s_data) eqn:E7; cbn [negb] in Hp; [|discriminate].
  destruct (80 + le_decode (zslice 84 92 f) <? 92) eqn:E8; [discriminate|].
  apply list_eqb_spec in E1, E5, E7. apply Z.eqb_eq in E3, E4, E6.
  (* the three header fields are bytes: re-encoding gives them back *)
  rewrite (zslice_cat 4 12 28 f) in E2 by lia. rewrite (zslice_cat 12 20 28 f) in E2 by lia.
  apply all_bytes_app in E2 as [B1 E2]. apply all_bytes_app in E2 as [B2 B3].
  destruct (u64_encode (zslice 4 12 f) ltac:(rewrite zlen_zslice; lia) B1) as [U1 _].
  destruct (u64_encode (zslice 12 20 f) ltac:(rewrite zlen_zslice; lia) B2) as [U2 F2].
  destruct (u64_encode (zslice 20 28 f) ltac:(rewrite zlen_zslice; lia) B3) as [U3 _].
  rewrite E3 in U1. rewrite E4 in U2, F2.
  assert (Eh : f = (s_DSD ++ u64 28 ++ u64 (zlen f) ++ u64 (le_decode (zslice 20 28 f))) ++ zdrop 28 f).
  { rewrite U1, U2, U3, <- E1. rewrite <- !app_assoc.
    rewrite <- (zdrop_split 20 28 f) by lia. rewrite <- (zdrop_split 12 20 f) by lia.
    rewrite <- (zdrop_split 4 12 f) by lia. symmetry; apply ztake_zdrop. }
  set (ptr := le_decode (zslice 20 28 f)) in *.
  (* the audio conditions, read inside zdrop 28 f *)
  assert (Sl : forall x y, 28 <= x -> zslice x y f = zslice (x - 28) (y - 28) (zdrop 28 f)).
  { intros x y Hx. unfold zslice. rewrite zdrop_zdrop by lia. f_equal; [lia|]. f_equal. lia. }
  destruct (ptr =? 0) eqn:E9.
  - destruct (80 + le_decode (zslice 84 92 f) =? zlen f) eqn:E10; cbn [negb] in Hp; [|discriminate].
    inversion Hp; subst s. clear Hp. cbn [d_audio d_tag]. apply Z.eqb_eq in E9, E10.
    set (a := zdrop 28 f) in *. assert (La : zlen a = zlen f - 28) by (unfold a; rewrite zlen_zdrop by lia; lia).
    split.
    + unfold dsf_render. cbn [tag_bytes]. rewrite app_nil_r, La, E9 in *. change (zlen (@nil Z)) with 0.
      replace (28 + (zlen f - 28) + 0) with (zlen f) by lia. exact Eh.
    + unfold dsf_ok. cbn [tag_opt_ok tag_bytes]. change (zlen (@nil Z)) with 0.
      replace (28 + zlen a + 0) with (zlen f) by lia. rewrite F2, andb_true_r, andb_true_r.
      unfold audio_ok. rewrite (Sl 28 32) in E5 by lia. rewrite (Sl 32 40) in E6 by lia.
      rewrite (Sl 80 84) in E7 by lia. rewrite (Sl 84 92) in E10 by lia. fold a in E5, E6, E7, E10.
      change (28 - 28) with 0 in E5. change (32 - 28) with 4 in *. change (40 - 28) with 12 in E6.
      change (80 - 28) with 52 in E7. change (84 - 28) with 56 in *. change (92 - 28) with 64 in E10.
      rewrite E5, E6, E7, !list_eqb_refl. bset (64 <=? zlen a) true. change (52 =? 52) with true.
      bset (52 + le_decode (zslice 56 64 a) =? zlen a) true. reflexivity.
  - destruct (ptr =? 80 + le_decode (zslice 84 92 f)) eqn:E10; cbn [negb] in Hp; [|discriminate].
    destruct (zlen f <? ptr) eqn:E11; [discriminate|].
    destruct (id3_tag_exact (zdrop ptr f)) eqn:E12; cbn [negb] in Hp; [|discriminate].
    inversion Hp; subst s. clear Hp. cbn [d_audio d_tag]. apply Z.eqb_neq in E9. apply Z.eqb_eq in E10.
    set (a := zslice 28 ptr f) in *. set (t := zdrop ptr f) in *.
    assert (La : zlen a = ptr - 28) by (unfold a; rewrite zlen_zslice by lia; lia).
    assert (Lt : zlen t = zlen f - ptr) by (unfold t; rewrite zlen_zdrop by lia; lia).
    assert (Ed : zdrop 28 f = a ++ t) by (unfold a, t; apply zdrop_split; lia).
    split.
    + unfold dsf_render. cbn [tag_bytes]. rewrite La, Lt.
      replace (28 + (ptr - 28) + (zlen f - ptr)) with (zlen f) by lia. replace (28 + (ptr - 28)) with ptr by lia.
      rewrite <- Ed. exact Eh.
    + unfold dsf_ok. cbn [tag_opt_ok tag_bytes]. rewrite E12, La, Lt.
      replace (28 + (ptr - 28) + (zlen f - ptr)) with (zlen f) by lia. rewrite F2, andb_true_r, andb_true_r.
      assert (Sa : forall x y, 28 <= x -> y <= ptr -> zslice x y f = zslice (x - 28) (y - 28) a).
      { intros x y Hx Hy. rewrite Sl by lia. rewrite Ed. apply zslice_app_l; lia. }
      assert (Hp92 : 92 <= ptr) by lia.
      unfold audio_ok. rewrite (Sa 28 32) in E5 by lia. rewrite (Sa 32 40) in E6 by lia.
      rewrite (Sa 80 84) in E7 by lia. rewrite (Sa 84 92) in E10, E8 by lia.
      change (28 - 28) with 0 in E5. change (32 - 28) with 4 in *. change (40 - 28) with 12 in E6.
      change (80 - 28) with 52 in E7. change (84 - 28) with 56 in *. change (92 - 28) with 64 in *.
      rewrite E5, E6, E7, !list_eqb_refl. bset (64 <=? zlen a) true. change (52 =? 52) with true.
      bset (52 + le_decode (zslice 56 64 a) =? zlen a) true. reflexivity.
Qed.

Theorem dsf_wf_iff f : dsf_wf f = true <-> exists a t, dsf_ok a t = true /\ f = dsf_render a t.
Proof.
  unfold dsf_wf. split.
  - destruct (dsf_parse f) as [s|e] eqn:E; [|discriminate]. intros _.
    destruct (dsf_parse_sound f s E) as [A B]. exists (d_audio s), (d_tag s). split; assumption.
  - intros (a & t & Hok & ->). rewrite dsf_parse_render by exact Hok. reflexivity.
Qed.

(* ------------------------------------------------------------------ mutagen's loaders on a rendered file *)
Lemma dsf_ok_inv a t : dsf_ok a t = true ->
  audio_ok a = true /\ tag_opt_ok t = true /\ fits64 (28 + zlen a + zlen (tag_bytes t)) = true.
Proof. unfold dsf_ok. rewrite !andb_true_iff. tauto. Qed.

Lemma mut_dsd_render a t : dsf_ok a t = true ->
  mut_dsd (dsf_render a t) = Ok (28 + zlen a + zlen (tag_bytes t), match t with Some _ => 28 + zlen a | None => 0 end).
Proof.
  intros Hok. destruct (dsf_ok_inv a t Hok) as (Ha & Ht & Hf). pose proof (dsf_render_zlen a t) as Lf.
  pose proof (zlen_nonneg a) as Ha0. pose proof (zlen_nonneg (tag_bytes t)) as Ht0.
  set (ptr := match t with Some _ => 28 + zlen a | None => 0 end).
  assert (Hptr : fits64 ptr = true).
  { apply fits64_iff. apply fits64_iff in Hf. unfold ptr. destruct t; lia. }
  unfold dsf_render in *. fold ptr in Lf |- *.
  destruct (dsd_header_parts (28 + zlen a + zlen (tag_bytes t)) ptr (a ++ tag_bytes t)) as (S1 & S2 & S3 & S4 & _).
  cbv zeta in *. unfold mut_dsd.
  match goal with |- context [zlen ?f <? 28] => bset (zlen f <? 28) false end.
  rewrite S1, S2, S3, S4. change (list_eqb s_DSD s_DSD) with true. cbn [negb].
  rewrite (u64_decode 28 fits64_28), (u64_decode _ Hf), (u64_decode _ Hptr). reflexivity.
Qed.

Lemma mut_fmt_data_render a t : dsf_ok a t = true ->
  mut_fmt (dsf_render a t) = (if fmt_supported a then Ok tt else Raise EMutagen) /\ mut_data (dsf_render a t) = Ok tt.
Proof.
  intros Hok. destruct (dsf_ok_inv a t Hok) as (Ha & Ht & Hf). destruct (audio_ok_inv a Ha) as (A1 & A2 & A3 & A4 & A5).
  unfold dsf_render. set (total := 28 + zlen a + zlen (tag_bytes t)). set (ptr := match t with Some _ => 28 + zlen a | None => 0 end).
  split.
  - unfold mut_fmt. rewrite (render_audio_slice a (tag_bytes t) 28 80) by lia. change (28 - 28) with 0. change (80 - 28) with 52.
    assert (Ld : zlen (zslice 0 52 a) = 52) by (rewrite zlen_zslice; lia).
    assert (Sd : forall x y, 0 <= x <= y -> y <= 52 -> zslice x y (zslice 0 52 a) = zslice x y a).
    { intros x y Hx Hy. rewrite zslice_zslice by lia. reflexivity. }
    rewrite Ld. change (52 =? 52) with true. cbn [negb]. rewrite ztake_as_slice, !Sd by lia.
    rewrite A2, A3. change (list_eqb s_fmt s_fmt) with true. change (52 =? 52) with true. cbn [negb].
    unfold fmt_supported. destruct (le_decode (zslice 12 16 a) =? 1); cbn [negb andb]; [|reflexivity].
    destruct (le_decode (zslice 16 20 a) =? 0); reflexivity.
  - unfold mut_data. rewrite (render_audio_slice a (tag_bytes t) 80 92) by lia. change (80 - 28) with 52. change (92 - 28) with 64.
    assert (Ld : zlen (zslice 52 64 a) = 12) by (rewrite zlen_zslice; lia).
    assert (Sd : forall x y, 0 <= x <= y -> y <= 12 -> zslice x y (zslice 52 64 a) = zslice (52 + x) (52 + y) a).
    { intros x y Hx Hy. apply zslice_zslice; lia. }
    rewrite Ld. change (12 =? 12) with true. cbn [negb]. rewrite ztake_as_slice, !Sd by lia.
    change (52 + 0) with 52. change (52 + 4) with 56. change (52 + 12) with 64.
    rewrite A4. change (list_eqb s_data s_data) with true. cbn [negb].
    bset (le_decode (zslice 56 64 a) <? 12) false. reflexivity.
Qed.

(* ------------------------------------------------------------------ save and delete *)
Lemma patch_header h r h' : zlen h = 28 -> zlen h' = 28 -> patch (h ++ r) 0 h' = h' ++ r.
Proof.
  intros L L'. unfold patch. rewrite ztake_0. cbn [app]. rewrite L'. change (0 + 28) with 28.
  rewrite zdrop_app_len by (symmetry; exact L). reflexivity.
Qed.

Theorem dsf_save_render a t tag : dsf_ok a t = true ->
  dsf_save (dsf_render a t) tag =
  if fits64 (28 + zlen a + zlen tag) then Ok (dsf_render a (Some tag)) else Raise EStruct.
Proof.
  intros Hok. pose proof (mut_dsd_render a t Hok) as Hm. pose proof (dsf_render_zlen a t) as Lf.
  pose proof (zlen_nonneg a) as Ha0. pose proof (zlen_nonneg (tag_bytes t)) as Ht0.
  unfold dsf_save, dsf_target. rewrite Hm. cbn [rbind fst snd].
  set (f := dsf_render a t) in *.
  assert (Eptr : (if (match t with Some _ => 28 + zlen a | None => 0 end) =? 0 then zlen f
                  else match t with Some _ => 28 + zlen a | None => 0 end) = 28 + zlen a).
  { destruct t as [t|]; cbn [tag_bytes] in *.
    - bset (28 + zlen a =? 0) false. reflexivity.
    - change (0 =? 0) with true. cbv iota. change (zlen (@nil Z)) with 0 in Lf. lia. }
  rewrite Eptr. bset (zlen f <? 28 + zlen a) false.
  destruct (fits64 (28 + zlen a + zlen tag)) eqn:F; cbn [negb]; [|reflexivity]. f_equal.
  set (h := dsd_header (28 + zlen a + zlen (tag_bytes t)) (match t with Some _ => 28 + zlen a | None => 0 end)).
  assert (Et : ztake (28 + zlen a) f = h ++ a).
  { unfold f, dsf_render. fold h. replace (h ++ a ++ tag_bytes t) with ((h ++ a) ++ tag_bytes t) by (rewrite <- app_assoc; reflexivity).
    apply ztake_app_len. rewrite zlen_app. unfold h. rewrite dsd_header_zlen. reflexivity. }
  rewrite Et. rewrite <- app_assoc. rewrite patch_header by (unfold h; apply dsd_header_zlen).
  unfold dsf_render. cbn [tag_bytes]. reflexivity.
Qed.

Theorem dsf_delete_render a t : dsf_ok a t = true ->
  dsf_delete (dsf_render a t) = if fmt_supported a then Ok (dsf_render a None) else Raise EMutagen.
Proof.
  intros Hok. pose proof (mut_dsd_render a t Hok) as Hm. destruct (mut_fmt_data_render a t Hok) as [Hf Hd].
  pose proof (zlen_nonneg a) as Ha0.
  unfold dsf_delete. rewrite Hm. cbn [rbind]. rewrite Hf. destruct (fmt_supported a); cbn [rbind]; [|reflexivity].
  rewrite Hd. cbn [rbind snd]. destruct t as [t|].
  - bset (28 + zlen a =? 0) false. f_equal. unfold dsf_render. cbn [tag_bytes].
    rewrite patch_header by apply dsd_header_zlen.
    change (zlen (@nil Z)) with 0. rewrite app_nil_r, Z.add_0_r.
    replace (dsd_header (28 + zlen a) 0 ++ a ++ t) with ((dsd_header (28 + zlen a) 0 ++ a) ++ t) by (rewrite <- app_assoc; reflexivity).
    apply ztake_app_len. rewrite zlen_app, dsd_header_zlen. reflexivity.
  - change (0 =? 0) with true. reflexivity.
Qed.

Lemma dsf_ok_some a t tag : dsf_ok a t = true -> id3_tag_exact tag = true -> fits64 (28 + zlen a + zlen tag) = true ->
  dsf_ok a (Some tag) = true.
Proof.
  intros Hok Ht Hf. destruct (dsf_ok_inv a t Hok) as (Ha & _ & _). unfold dsf_ok. cbn [tag_opt_ok tag_bytes].
  rewrite Ha, Ht, Hf. reflexivity.
Qed.
Lemma dsf_ok_none a t : dsf_ok a t = true -> dsf_ok a None = true.
Proof.
  intros Hok. destruct (dsf_ok_inv a t Hok) as (Ha & _ & Hf). unfold dsf_ok. cbn [tag_opt_ok tag_bytes].
  rewrite Ha. cbn [andb]. change (zlen (@nil Z)) with 0. apply fits64_iff in Hf. apply fits64_iff.
  pose proof (zlen_nonneg (tag_bytes t)). pose proof (zlen_nonneg a). lia.
Qed.
