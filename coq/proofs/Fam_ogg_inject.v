(* Ogg family: what _inject computes on a well-formed file: the decomposition of the file around the old pages,
   and the facts about the new pages that the file-level theorems need *)
From Coq Require Import ZArith List Bool Lia.
Import ListNotations.
Require Import Base.Py Base.ZList Gen.Gen_tags Model.Crc Model.Ogg Model.Fam_flac Model.Fam_ogg.
Require Import Proofs.C15_lacing Proofs.C15_page Proofs.C15_unpage Proofs.C15_paging Proofs.C15_from_packets Proofs.C15_file
  Proofs.C15_replace Proofs.Fam_ogg_scan Proofs.Fam_ogg_locate Proofs.Fam_ogg_replace Proofs.Fam_ogg_stream
  Proofs.Fam_ogg_newpages Proofs.Fam_ogg_preserve Proofs.Fam_ogg_lastpiece.
Open Scope Z_scope.

Lemma map_snd_old_args (run : run_t) : forall base, map snd (old_args base run) = map fst run.
Proof. induction run as [|[o G] r IH]; intros base; [reflexivity|]. cbn [old_args map fst snd]. rewrite IH. reflexivity. Qed.

Lemma old_pages_head (run : run_t) p r : run <> [] -> old_pages_of run = p :: r -> fst (hd (new_page, []) run) = p.
Proof.
  destruct run as [|[o G] run']; [contradiction|]. intros _ E. unfold old_pages_of in E. cbn [map concat fst snd app] in E.
  inversion E. reflexivity.
Qed.

(* the old run and the packets, as _inject sees them *)
Record ogg_cut := mkCut {
  cut_before : list page; cut_a : run_t; cut_on : page; cut_gn : list page;
  cut_p0 : list Z; cut_rest : list (list Z); cut_d : list Z }.
Definition cut_run (k : ogg_cut) : run_t := cut_a k ++ [(cut_on k, cut_gn k)].
Definition cut_old0 (k : ogg_cut) : page := fst (hd (new_page, []) (cut_run k)).
Definition cut_s (k : ogg_cut) : Z := p_serial (cut_old0 k).

Definition cut_ok (c : ogg_codec) (t : vc) (pad : list Z) (cb : option (Z -> Z -> Z)) (pages : list page)
                  (olds : list (Z * page)) (news : list page) (k : ogg_cut) : Prop :=
  pages = cut_before k ++ old_pages_of (cut_run k) /\
  olds = old_args (zlen (render_all (cut_before k))) (cut_run k) /\
  Forall (fun og => p_serial (fst og) = cut_s k) (cut_run k) /\
  Forall (fun og => filter (is_serial (cut_s k)) (snd og) = []) (cut_a k) /\
  Forall (fun og => ogg_f_finished (fst og) = false) (cut_a k) /\ ogg_f_finished (cut_on k) = true /\
  to_packets false (map fst (cut_run k)) = Ok (cut_p0 k :: cut_rest k) /\
  ogg_f_new_packet c t pad cb (zlen (render_all pages)) (cut_p0 k) = Ok (cut_d k) /\
  (match c with
   | OFlac => from_packets 4096 2048 (cut_d k :: cut_rest k) (p_sequence (cut_old0 k))
   | _ => from_packets_try_preserve (cut_d k :: cut_rest k) (map fst (cut_run k)) end) = Ok news.

Theorem inject_cut c t pad cb pages olds news : Forall page_wf pages ->
  ogg_f_inject c t pad cb (render_all pages) = Ok (olds, news) ->
  exists k, cut_ok c t pad cb pages olds news k.
Proof.
  intros W H. unfold ogg_f_inject in H. rewrite (scan_file pages W) in H.
  destruct (ogg_f_locate c (ogg_offs 0 pages) EEOF) as [l|e] eqn:L; [|discriminate].
  destruct (locate_offs c pages EEOF l L) as (before & rest0 & Ep & Hne & El).
  destruct rest0 as [|p r]; [contradiction|]. rewrite El in H. cbn [ogg_offs] in H. cbn [snd] in H.
  change ((zlen (render_all before), p) :: ogg_offs (zlen (render_all before) + page_size p) r)
    with (ogg_offs (zlen (render_all before)) (p :: r)) in H.
  destruct (ogg_f_collect (p_serial p) (ogg_offs (zlen (render_all before)) (p :: r)) EEOF) as [olds0|e] eqn:C; [|discriminate].
  destruct (collect_offs_head (p_serial p) EEOF p r _ olds0 eq_refl C) as (a & on & Gn & E1 & E2 & S1 & S2 & S3 & S4).
  assert (Hrun : a ++ [(on, Gn)] <> []) by (destruct a; discriminate).
  pose proof (old_pages_head _ p r Hrun (eq_sym E1)) as Hhd.
  rewrite E2, map_snd_old_args in H.
  destruct (to_packets false (map fst (a ++ [(on, Gn)]))) as [packets|e] eqn:T; [|discriminate].
  destruct packets as [|p0 rest]; [discriminate|].
  destruct (ogg_f_new_packet c t pad cb (zlen (render_all pages)) p0) as [d|e] eqn:N; [|discriminate].
  match type of H with match ?X with Ok _ => _ | Raise _ => _ end = _ => destruct X as [news0|e] eqn:F; [|discriminate] end.
  inversion H; subst olds news. clear H.
  exists (mkCut before a on Gn p0 rest d). unfold cut_ok, cut_s, cut_old0, cut_run. cbn [cut_before cut_a cut_on cut_gn cut_p0 cut_rest cut_d].
  rewrite Hhd. repeat split; try assumption.
  - rewrite Ep, E1. reflexivity.
Qed.

(* ---- facts about the new pages --------------------------------------------------------------------------- *)
Lemma fp_Q ds wr n l : Forall (fp_page_ok ds wr n) l -> Forall ogg_Q l.
Proof.
  intros H. eapply Forall_impl; [|exact H]. cbn beta. intros p (A & _ & _ & _ & B & _). split; assumption.
Qed.

Lemma finished_open p : ogg_f_finished p = true -> p_complete p = false -> 1 < zlen (p_packets p).
Proof. unfold ogg_f_finished. intros H C. rewrite C in H. cbn [orb] in H. apply Z.ltb_lt in H. exact H. Qed.

Lemma wf_open_tail p : page_wf p -> p_complete p = false -> lastpiece p <> [] /\ zlen (lastpiece p) mod 255 = 0.
Proof.
  intros (_ & _ & _ & Co) C. unfold canonicalb in Co. rewrite C in Co. cbn [orb] in Co.
  apply andb_true_iff in Co as [A B]. apply negb_true_iff, Z.eqb_neq in A. apply Z.eqb_eq in B.
  unfold lastpiece. split; [|exact B]. intros E. rewrite E in A. apply A. reflexivity.
Qed.

Definition news_ok (olds : list page) (oldl : page) (news : list page) : Prop :=
  news <> [] /\ Forall ogg_Q news /\ (p_complete oldl = false -> ogg_tail_open (last news new_page)) /\
  (ogg_coh false news \/ Forall2 ogg_like olds news).

Lemma from_packets_news_ok (a : list page) on p0 rest d seq news :
  page_wf on -> ogg_f_finished on = true ->
  to_packets false (a ++ [on]) = Ok (p0 :: rest) ->
  from_packets 4096 2048 (d :: rest) seq = Ok news ->
  news_ok (a ++ [on]) on news.
Proof.
  intros Won Fin T F.
  destruct (from_packets_spec (d :: rest) seq 4096 2048 ltac:(lia) ltac:(discriminate)) as (pg & E & _ & Hne & _ & Ch & _ & FP).
  rewrite F in E. inversion E; subst pg. clear E.
  split; [exact Hne|]. split; [exact (fp_Q _ _ _ _ FP)|]. split; [|left; exact (fp_coh _ _ _ _ _ Ch FP)].
  intros Hc. pose proof (finished_open on Fin Hc) as H1.
  destruct (to_packets_last a on _ T H1) as (L1 & L2). destruct (wf_open_tail on Won Hc) as (O1 & O2).
  assert (Hr : rest <> []).
  { intros ->. rewrite zlen_cons, zlen_nil in L2. lia. }
  assert (Hl : last (p0 :: rest) [] = last rest []) by (destruct rest; [contradiction|reflexivity]).
  rewrite Hl in L1.
  assert (Ed : d :: rest = (d :: removelast rest) ++ [last rest []]).
  { cbn [app]. f_equal. apply app_removelast_last. exact Hr. }
  rewrite Ed in F. rewrite L1 in F.
  destruct (from_packets_lastpiece _ _ _ _ O1 F) as (A & B). unfold ogg_tail_open. fold (lastpiece (last news new_page)).
  split; [|rewrite B; exact O2]. intros Z0. apply A. destruct (lastpiece (last news new_page)); [reflexivity|].
  rewrite zlen_cons in Z0. pose proof (zlen_nonneg l). lia.
Qed.

Lemma cut_news_ok c t pad cb pages olds news k : Forall page_wf pages -> cut_ok c t pad cb pages olds news k ->
  news_ok (map fst (cut_run k)) (cut_on k) news /\ Forall page_wf (map fst (cut_run k)) /\
  Forall (fun og => Forall page_wf (snd og)) (cut_run k) /\ Forall page_wf (cut_before k).
Proof.
  intros W (Ep & Eo & S1 & S2 & S3 & S4 & T & N & F).
  rewrite Ep in W. apply Forall_app in W as [Wb Wr].
  assert (Wrun : Forall page_wf (map fst (cut_run k)) /\ Forall (fun og => Forall page_wf (snd og)) (cut_run k)).
  { clear -Wr. induction (cut_run k) as [|[o G] r IH]; [split; constructor|].
    unfold old_pages_of in Wr. cbn [map concat fst snd] in Wr. fold (old_pages_of r) in Wr.
    inversion Wr as [|? ? Wo W']; subst. apply Forall_app in W' as [WG W'']. destruct (IH W'') as (A & B).
    split; constructor; assumption. }
  destruct Wrun as (Wo & WG). split; [|auto].
  assert (Emap : map fst (cut_run k) = map fst (cut_a k) ++ [cut_on k]) by (unfold cut_run; rewrite map_app; reflexivity).
  assert (Won : page_wf (cut_on k)).
  { rewrite Emap in Wo. apply Forall_app in Wo as [_ X]. inversion X. assumption. }
  assert (FP : forall seq, from_packets 4096 2048 (cut_d k :: cut_rest k) seq = Ok news ->
               news_ok (map fst (cut_run k)) (cut_on k) news).
  { intros seq F'. rewrite Emap in *. eapply from_packets_news_ok; eassumption. }
  destruct c; try exact (FP _ F);
    (destruct (try_preserve_cases _ _ _ F) as [L|F']; [rewrite Emap; destruct (map fst (cut_a k)); discriminate| |exact (FP _ F')];
     assert (Hne : map fst (cut_run k) <> []) by (rewrite Emap; destruct (map fst (cut_a k)); discriminate);
     split; [intros ->; inversion L as [E0|]; rewrite <- E0 in Hne; contradiction|];
     split; [exact (like_Q _ _ L Wo)|]; split; [|right; exact L];
     intros Hc; apply (like_tail_open _ _ L Hne Wo); rewrite Emap, last_last; exact Hc).
Qed.
