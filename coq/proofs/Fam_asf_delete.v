(* ASF family: delete = save of the empty tag list with padding 0 (C08): no attribute and no padding remain, the file
   still loads (with an empty tag list), deleting again changes nothing. *)
From Coq Require Import ZArith List Bool Lia.
Import ListNotations.
Require Import Base.Py Base.ZList Model.Splice Model.Fam_asf Proofs.Fam_asf_codec Proofs.Fam_asf_save Proofs.Fam_asf_agree
  Proofs.Fam_asf_reopen.
Open Scope Z_scope.

(* ------------------------------------------------------------------ the independent reader finds nothing *)
Lemma load_raw_retag0 c : load_raw (retag_raw P0 c) = Ok [].
Proof.
  destruct c as [g d]. unfold load_raw, retag_raw. cbn [fst snd].
  destruct (cls_of g); try reflexivity.
Qed.
Lemma load_raws_retag0 ch : load_raws (map (retag_raw P0) ch) = Ok [].
Proof. induction ch as [|c ch IH]; [reflexivity|]. cbn [map load_raws]. rewrite load_raw_retag0, IH. reflexivity. Qed.
Lemma load_objs_retag0 l : load_objs (map (retag_obj P0) l) = Ok [].
Proof.
  induction l as [|o l IH]; [reflexivity|]. cbn [map load_objs]. rewrite IH.
  destruct o as [g d|fx ch]; cbn [retag_obj].
  - change (g, snd (retag_raw P0 (g, d))) with (retag_raw P0 (g, d)). rewrite load_raw_retag0. reflexivity.
  - rewrite load_raws_retag0. reflexivity.
Qed.
Lemma load_objs_app_nil a b : load_objs a = Ok [] -> load_objs b = Ok [] -> load_objs (a ++ b) = Ok [].
Proof.
  intros Ha Hb. induction a as [|o a IH]; [exact Hb|]. cbn [app load_objs] in *.
  destruct (match o with OLeaf g d => load_raw (g, d) | OExt _ ch => load_raws ch end) as [x|]; [|discriminate].
  destruct (load_objs a) as [y|]; [|destruct x; discriminate]. inversion Ha as [Hxy].
  apply app_eq_nil in Hxy as [-> ->]. rewrite IH by reflexivity. reflexivity.
Qed.
Lemma load_objs_delete_tree f objs cb : load_objs (save_tree f objs [] cb) = Ok [].
Proof.
  unfold save_tree, core_objs. apply load_objs_app_nil; [apply load_objs_retag0|reflexivity].
Qed.

Theorem asf_delete_load f f' : asf_delete f = Ok f' -> asf_load f' = Ok [].
Proof.
  intros H. destruct (asf_save_parse _ _ _ _ H) as (objs & ts & _ & Hp).
  unfold asf_load. rewrite Hp. cbn [sobjs]. apply load_objs_delete_tree.
Qed.

(* ------------------------------------------------------------------ mutagen's reader finds nothing *)
Lemma leaf_tags_retag0 g d : leaf_tags g (snd (retag_raw P0 (g, d))) = [].
Proof.
  unfold retag_raw, leaf_tags. cbn [fst snd]. pose proof (cls_of_inv g) as Hi.
  destruct (cls_of g) eqn:E; try (subst g; reflexivity);
    unfold mut_leaf; rewrite E; try reflexivity;
    match goal with |- context [if ?c then _ else _] => destruct c; reflexivity end.
Qed.
Lemma objs_tags_delete_tree f objs cb : objs_tags (save_tree f objs [] cb) = [].
Proof.
  unfold save_tree, core_objs, objs_tags. rewrite flat_map_app. cbn [flat_map pad_obj obj_tags]. rewrite app_nil_r.
  change (place []) with P0.
  induction (filter nonpad_obj (add_missing objs)) as [|o l IH]; [reflexivity|].
  cbn [map flat_map]. rewrite IH, app_nil_r.
  destruct o as [g d|fx ch]; cbn [retag_obj obj_tags]; [apply leaf_tags_retag0|].
  unfold raws_tags. induction (filter nonpad_raw ch) as [|c r IHr]; [reflexivity|].
  cbn [map flat_map]. rewrite IHr, app_nil_r. destruct c as [g d]. apply leaf_tags_retag0.
Qed.
Lemma P0_loadable : place_loadable (place []) = true.
Proof. vm_compute. reflexivity. Qed.

Theorem asf_delete_reopens f f' : asf_delete f = Ok f' -> exists tree, asf_open f' = Ok (tree, []).
Proof.
  intros H. destruct (asf_save_reopens _ _ _ _ H P0_loadable) as (objs & ts & _ & Ho).
  rewrite objs_tags_delete_tree in Ho. eexists. exact Ho.
Qed.

(* ------------------------------------------------------------------ padding, size, idempotence *)
Theorem asf_delete_padding f f' : asf_delete f = Ok f' ->
  exists p s s', asf_info f [] = Ok (p, s) /\ asf_parse f' = Ok s' /\ asf_padding s' = 0 /\
    header_size f' = header_size f - p /\ sdata s' = zdrop (header_size f) f.
Proof.
  intros H. destruct (asf_save_padding _ _ _ _ H) as (p & s & s' & A & B & C & D & E & F & _).
  exists p, s, s'. change (Z.max 0 0) with 0 in D, E. rewrite Z.add_0_r in E. repeat split; assumption.
Qed.

Theorem asf_delete_twice f f' : 0 <= header_size f -> asf_delete f = Ok f' -> asf_delete f' = Ok f'.
Proof.
  intros H0 H. unfold asf_delete in *. eapply save_again; [exact H0|exact H|exact P0_loadable|reflexivity|].
  intros p s _. reflexivity.
Qed.
