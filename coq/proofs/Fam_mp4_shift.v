(* Relocating a well-formed forest: if every header of the forest is found again d bytes further in another file,
   the shifted tree satisfies the strict rules there.  Also: what Atom.render produces is a well-formed leaf. *)
From Coq Require Import ZArith List Bool Lia.
Import ListNotations.
Require Import Base.Py Base.ZList Model.Splice Model.Fam_mp4 Proofs.Splice_lemmas
  Proofs.Fam_mp4_bytes Proofs.Fam_mp4_tree Proofs.Fam_mp4_steps Proofs.Fam_mp4_agree.
Open Scope Z_scope.

Fixpoint shift_atom (d : Z) (a : mp4_atom) : mp4_atom :=
  match a with
  | MAtom n o l h None => MAtom n (o + d) l h None
  | MAtom n o l h (Some ks) =>
    MAtom n (o + d) l h
      (Some ((fix go (l0 : list mp4_atom) : list mp4_atom :=
                match l0 with [] => [] | k :: r => shift_atom d k :: go r end) ks))
  end.
Definition shift_forest (d : Z) (ks : list mp4_atom) : list mp4_atom := map (shift_atom d) ks.
Lemma shift_node d n o l h ks : shift_atom d (MAtom n o l h (Some ks)) = MAtom n (o + d) l h (Some (shift_forest d ks)).
Proof. reflexivity. Qed.
Lemma shift_off d a : ma_off (shift_atom d a) = ma_off a + d.
Proof. destruct a as [n o l h [ks|]]; reflexivity. Qed.
Lemma shift_len d a : ma_len (shift_atom d a) = ma_len a.
Proof. destruct a as [n o l h [ks|]]; reflexivity. Qed.
Lemma shift_hdr d a : ma_hdr (shift_atom d a) = ma_hdr a.
Proof. destruct a as [n o l h [ks|]]; reflexivity. Qed.
Lemma shift_name d a : ma_name (shift_atom d a) = ma_name a.
Proof. destruct a as [n o l h [ks|]]; reflexivity. Qed.
Lemma shift_kids d a : ma_kids (shift_atom d a) = option_map (shift_forest d) (ma_kids a).
Proof. destruct a as [n o l h [ks|]]; reflexivity. Qed.

Lemma flat_shift d : forall a, mp4_flat_atom (shift_atom d a) = map (shift_atom d) (mp4_flat_atom a).
Proof.
  induction a as [n o l h|n o l h ks IH] using mp4_atom_ind'; [reflexivity|].
  rewrite shift_node, !flat_atom_node. cbn [map]. rewrite shift_node. f_equal.
  unfold mp4_flat, shift_forest. induction ks as [|k r IHr]; [reflexivity|].
  inversion IH as [|? ? Hk Hr]; subst. cbn [map flat_map]. rewrite map_app, Hk, (IHr Hr). reflexivity.
Qed.
Lemma flat_shift_forest d ks : mp4_flat (shift_forest d ks) = map (shift_atom d) (mp4_flat ks).
Proof.
  unfold mp4_flat, shift_forest. induction ks as [|k r IH]; [reflexivity|].
  cbn [map flat_map]. rewrite map_app, flat_shift, IH. reflexivity.
Qed.

Lemma height_shift d : forall a, mp4_height (shift_atom d a) = mp4_height a.
Proof.
  induction a as [n o l h|n o l h ks IH] using mp4_atom_ind'; [reflexivity|].
  rewrite shift_node, !height_node. f_equal. unfold shift_forest.
  induction ks as [|k r IHr]; [reflexivity|]. inversion IH as [|? ? Hk Hr]; subst.
  cbn [map mp4_forest_height]. rewrite Hk, (IHr Hr). reflexivity.
Qed.
Lemma forest_height_shift d l : mp4_forest_height (shift_forest d l) = mp4_forest_height l.
Proof.
  unfold shift_forest. induction l as [|k r IH]; [reflexivity|]. cbn [map mp4_forest_height]. rewrite height_shift, IH. reflexivity.
Qed.

(* the header bytes of x in f are the header bytes of (shifted x) in g *)
Definition hdr_agree (f g : list Z) (d : Z) (x : mp4_atom) : Prop :=
  agree f (ma_off x) g (ma_off x + d) (ma_hdr x).

Lemma header_ok_transfer f g d top n o l h :
  mp4_header_ok f top n o l h = true -> agree f o g (o + d) h -> o + d + l <= zlen g ->
  (top = true -> zlen g = zlen f + d \/ o + l < zlen f) ->
  mp4_header_ok g top n (o + d) l h = true.
Proof.
  intros H AG Hfit Htop. pose proof (header_ok_facts _ _ _ _ _ _ H) as (F1 & F2 & F3 & F4 & F5 & F6 & F7).
  destruct AG as (A1 & A2 & A3 & A4 & A5).
  assert (AG : agree f o g (o + d) h) by (repeat split; assumption).
  assert (E8 : mp4_rd g (o + d) 8 = mp4_rd f o 8) by (symmetry; apply (agree_rd0 _ _ _ _ _ 8 AG); lia).
  unfold mp4_header_ok in *. rewrite E8.
  apply andb_true_iff in H. destruct H as [H HE].
  apply andb_true_iff in H. destruct H as [H HD].
  apply andb_true_iff in H. destruct H as [H HC].
  apply andb_true_iff in H. destruct H as [HA HB].
  rewrite HB, HC. cbn [andb].
  assert (G1 : (0 <=? o + d) = true) by (apply Z.leb_le; lia). rewrite G1.
  assert (G2 : (o + d + l <=? zlen g) = true) by (apply Z.leb_le; lia). rewrite G2. cbn [andb].
  apply orb_true_iff in HE. destruct HE as [HE|HE]; [apply orb_true_iff in HE; destruct HE as [HE|HE]|].
  - rewrite HE. reflexivity.
  - apply andb_true_iff in HE. destruct HE as [HE H5]. apply andb_true_iff in HE. destruct HE as [HE H4].
    apply andb_true_iff in HE. destruct HE as [HE H3]. apply andb_true_iff in HE. destruct HE as [H1 H2].
    assert (Hh : h = 16) by lia.
    assert (E16 : mp4_rd g (o + d + 8) 8 = mp4_rd f (o + 8) 8) by (symmetry; apply (agree_rd _ _ _ _ _ 8 8 AG); lia).
    rewrite E16, H1, H2, H3, H4, H5. cbn. rewrite orb_true_r. reflexivity.
  - apply andb_true_iff in HE. destruct HE as [HE H4]. apply andb_true_iff in HE. destruct HE as [HE H3].
    apply andb_true_iff in HE. destruct HE as [H1 H2]. subst top.
    destruct (Htop eq_refl) as [Hz|Hz]; [|lia].
    assert (G3 : (l =? zlen g - (o + d)) = true) by (apply Z.eqb_eq; lia).
    rewrite H2, H3, G3. cbn. rewrite !orb_true_r. reflexivity.
Qed.

Lemma atom_ok_transfer f g d : forall a top,
  mp4_atom_ok f top a = true -> Forall (hdr_agree f g d) (mp4_flat_atom a) ->
  ma_off a + d + ma_len a <= zlen g ->
  (top = true -> zlen g = zlen f + d \/ ma_off a + ma_len a < zlen f) ->
  mp4_atom_ok g top (shift_atom d a) = true.
Proof.
  induction a as [n o l h|n o l h ks IH] using mp4_atom_ind'; intros top H Hag Hfit Htop.
  - rewrite flat_atom_leaf in Hag. inversion Hag as [|? ? Ha _]; subst. unfold hdr_agree in Ha. cbn in Ha, Hfit, Htop.
    cbn [shift_atom]. rewrite atom_ok_leaf in *. apply andb_true_iff in H. destruct H as [H1 H2].
    rewrite H2, andb_true_r. eapply header_ok_transfer; eauto.
  - rewrite flat_atom_node in Hag. inversion Hag as [|? ? Ha Hrest]; subst. unfold hdr_agree in Ha. cbn in Ha, Hfit, Htop.
    rewrite shift_node. rewrite atom_ok_node in *. apply andb_true_iff in H. destruct H as [H1 H2].
    apply andb_true_iff in H2. destruct H2 as [H2 H3]. rewrite H2. cbn [andb].
    rewrite (header_ok_transfer _ _ _ _ _ _ _ _ H1 Ha Hfit Htop). cbn [andb].
    pose proof (header_ok_facts _ _ _ _ _ _ H1) as (F1 & F2 & F3 & F4 & F5 & F6 & F7).
    clear H1 Ha Hag Htop.
    assert (Hgen : forall p, mp4_forest_ok f false ks p (o + l) = true -> Forall (hdr_agree f g d) (mp4_flat ks) ->
              mp4_forest_ok g false (shift_forest d ks) (p + d) (o + l + d) = true).
    { clear H3 Hrest. induction ks as [|k r IHr]; intros p Hf Hfl.
      - apply forest_ok_nil in Hf. subst p. cbn. apply Z.eqb_refl.
      - apply forest_ok_cons in Hf. destruct Hf as (E1 & E2 & E3).
        inversion IH as [|? ? Hk0 Hr0]; subst. rewrite flat_cons in Hfl. apply Forall_app in Hfl. destruct Hfl as (Hfk & Hfr).
        pose proof (forest_ok_le _ _ _ _ _ E3) as Hle.
        cbn [shift_forest map]. apply forest_ok_intro.
        + rewrite shift_off. reflexivity.
        + apply (Hk0 false E2 Hfk); [lia|discriminate].
        + rewrite shift_len. replace (ma_off k + d + ma_len k) with (ma_off k + ma_len k + d) by lia.
          apply (IHr Hr0 _ E3 Hfr). }
    replace (o + d + h + mp4_skip n) with (o + h + mp4_skip n + d) by lia.
    replace (o + d + l) with (o + l + d) by lia. apply Hgen; assumption.
Qed.

Lemma forest_ok_transfer f g d top ks : forall p e,
  mp4_forest_ok f top ks p e = true -> Forall (hdr_agree f g d) (mp4_flat ks) ->
  e + d <= zlen g -> (top = true -> zlen g = zlen f + d \/ e < zlen f) ->
  mp4_forest_ok g top (shift_forest d ks) (p + d) (e + d) = true.
Proof.
  induction ks as [|k r IH]; intros p e Hf Hfl Hfit Htop.
  - apply forest_ok_nil in Hf. subst p. cbn. apply Z.eqb_refl.
  - apply forest_ok_cons in Hf. destruct Hf as (E1 & E2 & E3).
    rewrite flat_cons in Hfl. apply Forall_app in Hfl. destruct Hfl as (Hfk & Hfr).
    pose proof (forest_ok_le _ _ _ _ _ E3) as Hle. pose proof (atom_ok_len _ _ _ E2) as Hlk.
    cbn [shift_forest map]. apply forest_ok_intro.
    + rewrite shift_off. lia.
    + apply (atom_ok_transfer f g d k top E2 Hfk); [lia|].
      intros Ht. destruct (Htop Ht) as [Hz|Hz]; [left; exact Hz|right; lia].
    + rewrite shift_len. replace (p + d + ma_len k) with (p + ma_len k + d) by lia. apply (IH _ _ E3 Hfr Hfit Htop).
Qed.

Lemma shift_atom_zero : forall a, shift_atom 0 a = a.
Proof.
  induction a as [n o l h|n o l h ks IH] using mp4_atom_ind'; [cbn; rewrite Z.add_0_r; reflexivity|].
  rewrite shift_node, Z.add_0_r. f_equal. f_equal. unfold shift_forest.
  induction ks as [|k r IHr]; [reflexivity|]. inversion IH as [|? ? Hk Hr]; subst. cbn [map]. rewrite Hk, (IHr Hr). reflexivity.
Qed.
Lemma shift_forest_zero ks : shift_forest 0 ks = ks.
Proof. unfold shift_forest. induction ks as [|k r IH]; [reflexivity|]. cbn [map]. rewrite shift_atom_zero, IH. reflexivity. Qed.

(* the same forest, found unchanged in g *)
Lemma forest_ok_same f g top ks p e :
  mp4_forest_ok f top ks p e = true -> Forall (hdr_agree f g 0) (mp4_flat ks) ->
  e <= zlen g -> (top = true -> zlen g = zlen f \/ e < zlen f) ->
  mp4_forest_ok g top ks p e = true.
Proof.
  intros Hf Hfl Hfit Htop. pose proof (forest_ok_transfer f g 0 top ks p e Hf Hfl) as H.
  rewrite shift_forest_zero, !Z.add_0_r in H. apply H; [lia|]. intros Ht. destruct (Htop Ht); [left; lia|right; lia].
Qed.

(* ------------------------------------------------------------------ Atom.render of a leaf *)
Lemma zlen_render n data : zlen n = 4 ->
  zlen (mp4_render n data) = zlen data + (if zlen data + 8 <=? 4294967295 then 8 else 16).
Proof.
  intros Hn. unfold mp4_render. destruct (zlen data + 8 <=? 4294967295); rewrite !zlen_app, ?zlen_be_enc, Hn; lia.
Qed.

Lemma render_leaf_ok g p n data :
  zlen n = 4 -> mp4_is_container n = false -> zlen data + 16 < MP4_U64 ->
  agree (mp4_render n data) 0 g p (zlen (mp4_render n data)) ->
  mp4_atom_ok g false (MAtom n p (zlen (mp4_render n data)) (if zlen data + 8 <=? 4294967295 then 8 else 16) None) = true.
Proof.
  intros Hn Hc Hsz AG. pose proof (zlen_nonneg data) as Hd. pose proof (zlen_render n data Hn) as HL.
  rewrite atom_ok_leaf. rewrite Hc. cbn [negb]. rewrite andb_true_r.
  set (R := mp4_render n data) in *. destruct AG as (A1 & A2 & A3 & A4 & A5).
  assert (AGR : agree R 0 g p (zlen R)) by (repeat split; assumption).
  unfold mp4_header_ok.
  assert (L8 : 8 <= zlen R) by (destruct (zlen data + 8 <=? 4294967295); lia).
  assert (E8 : mp4_rd g p 8 = mp4_rd R 0 8) by (symmetry; pose proof (agree_rd0 _ _ _ _ _ 8 AGR) as X; apply X; lia).
  rewrite E8. rewrite zlen_rd_in by lia. cbn [Z.eqb Pos.eqb].
  assert (G1 : (0 <=? p) = true) by (apply Z.leb_le; lia). rewrite G1.
  assert (G2 : (p + zlen R <=? zlen g) = true) by (apply Z.leb_le; lia). rewrite G2. cbn [andb].
  unfold R, mp4_render in *. destruct (zlen data + 8 <=? 4294967295) eqn:E.
  - (* 32-bit form *)
    assert (Hh : mp4_rd (be_encode 4 (zlen data + 8) ++ n ++ data) 0 8 = be_encode 4 (zlen data + 8) ++ n).
    { rewrite rd_is_slice by lia. unfold zslice. rewrite zdrop_0. cbn [Z.add Z.sub]. rewrite app_assoc.
      apply ztake_app_n. rewrite zlen_app, zlen_be_enc, Hn. reflexivity. }
    rewrite Hh. rewrite ztake_app_n by apply zlen_be_enc. rewrite zdrop_app_n by apply zlen_be_enc.
    assert (Hne : list_eqb n n = true) by (apply list_eqb_spec; reflexivity). rewrite Hne. cbn [andb].
    rewrite be_dec_enc4 by (unfold MP4_U32; lia).
    rewrite !zlen_app, zlen_be_enc, Hn. cbn [Z.eqb Pos.eqb andb].
    assert (G3 : (zlen data + 8 =? Z.of_nat 4 + (4 + zlen data)) = true) by (apply Z.eqb_eq; lia). rewrite G3.
    assert (G4 : (8 <=? Z.of_nat 4 + (4 + zlen data)) = true) by (apply Z.leb_le; lia). rewrite G4. reflexivity.
  - (* 64-bit form *)
    assert (Hh : mp4_rd (be_encode 4 1 ++ n ++ be_encode 8 (zlen data + 8 + 8) ++ data) 0 8 = be_encode 4 1 ++ n).
    { rewrite rd_is_slice by lia. unfold zslice. rewrite zdrop_0. cbn [Z.add Z.sub]. rewrite app_assoc.
      apply ztake_app_n. rewrite zlen_app, zlen_be_enc, Hn. reflexivity. }
    rewrite Hh. rewrite ztake_app_n by apply zlen_be_enc. rewrite zdrop_app_n by apply zlen_be_enc.
    assert (Hne : list_eqb n n = true) by (apply list_eqb_spec; reflexivity). rewrite Hne. cbn [andb].
    rewrite be_dec_enc4 by (unfold MP4_U32; lia).
    assert (E16 : mp4_rd g (p + 8) 8 = be_encode 8 (zlen data + 8 + 8)).
    { rewrite !zlen_app, !zlen_be_enc, Hn in AGR.
      rewrite <- (agree_rd _ _ _ _ _ 8 8 AGR) by lia. cbn [Z.add].
      rewrite rd_is_slice by lia. unfold zslice. replace (8 + 8 - 8) with 8 by lia. rewrite app_assoc.
      rewrite zdrop_app_n by (rewrite zlen_app, zlen_be_enc, Hn; reflexivity).
      apply ztake_app_n. apply zlen_be_enc. }
    rewrite E16. rewrite zlen_be_enc. rewrite be_dec_enc8 by (unfold MP4_U64 in *; lia).
    rewrite !zlen_app, !zlen_be_enc, Hn. cbn [Z.eqb Pos.eqb andb orb].
    assert (G3 : (zlen data + 8 + 8 =? Z.of_nat 4 + (4 + (Z.of_nat 8 + zlen data))) = true) by (apply Z.eqb_eq; lia). rewrite G3.
    assert (G4 : (16 <=? Z.of_nat 4 + (4 + (Z.of_nat 8 + zlen data))) = true) by (apply Z.leb_le; lia). rewrite G4.
    reflexivity.
Qed.
