(* C18: per-type stability of File's choice over the regenerated scores (AAC).
   Each lemma: for every file name carrying a usual extension of the type in any letter case, every
   header in the type's family, every trailer: File picks the type and File(easy=True) its Easy
   counterpart.  Proof: the atomic tests of every score are decided from the hypotheses where possible,
   the remaining ones are enumerated by reflection (C18_prims.ball). *)
From Coq Require Import ZArith List Bool Lia.
Import ListNotations.
Require Import Base.Py Model.ScorePrims Gen.Gen_scores Model.Score Proofs.C18_prims.
Open Scope Z_scope.

Lemma stable_AAC : forall fname header trailer,
  named_as C_AAC fname -> family C_AAC header trailer -> no_foreign_marker C_AAC header = true ->
  picks C_AAC fname header trailer.
Proof.
  open_named; intro Hnfm; marker_facts Hnfm; destruct Hfam as [Hsw Hape]; destruct Hsw as [Hsw|[Hsw|[Hsw|[Hsw|Hsw]]]]; each_ext Hin Hew Hsw.
Qed.
