(* Proofs.C04_oggflac -- totality of the OggFLAC loading mirror (Model.Parse_oggflac): every page read moves the
   stream by at least 27 bytes inside the data (Proofs.C04_ogg.read_page_spec), so the two page loops end within
   len + 1 rounds; to_packets and packets[0] let out ValueError / IndexError only, which load maps; the stream info
   and comment loads run on packet data and let out MutagenError only. *)
From Coq Require Import ZArith List Bool Lia.
Import ListNotations.
Require Import Base.Py Base.ZList Model.Parse_base Model.Ogg Model.Parse_ogg Model.Parse_vcomment Model.Parse_flac
  Model.Parse_oggflac Proofs.C04_lib Proofs.C04_ogg Proofs.C04_vcomment.
Open Scope Z_scope.

Lemma ogf_find_spec d : forall fuel magic pg p, 0 <= p <= zlen d -> zlen d - p < Z.of_nat fuel ->
  pspecE EofM (ogg_find fuel magic pg) d p (fun pg' p' => ogg_first_is magic pg' = true /\ 0 <= p' <= zlen d).
Proof.
  induction fuel as [|fuel IH]; intros magic pg p Hp Hf; [lia|].
  cbn [ogg_find]. destruct (ogg_first_is magic pg) eqn:E; [apply pspecE_ret; split; [exact E|lia]|].
  apply pspecE_bind. eapply pspecE_post; [apply read_page_spec; exact Hp|].
  intros pg' p' Hp'. cbv beta in Hp'. apply IH; lia.
Qed.

(* strict reads on any data (no byte range needed): exactly n bytes or error *)
Lemma s_read_len (E : exc -> Prop) n d p : E EMutagen -> 0 <= n < c04_two62 -> 0 <= p ->
  pspecE E (s_read n) d p (fun r p' => zlen r = n /\ p' = p + n).
Proof.
  intros HEM Hn Hp. unfold s_read. unfold c04_two62 in *. pose proof (zlen_nonneg d).
  pstep. pstep.
  replace (0 <=? n) with true by (symmetry; apply Z.leb_le; lia). cbn [andb].
  destruct (zlen r =? n) eqn:E1; cbn [negb]; [|apply pspecE_raise; exact HEM]. apply Z.eqb_eq in E1.
  pstep. lia.
Qed.
Ltac sread' :=
  apply pspecE_bind; eapply pspecE_post;
  [apply s_read_len; first [reflexivity | lia | (unfold c04_two62; lia)]
  | let r := fresh "r" in let p' := fresh "p" in let H1 := fresh "Hl" in let H3 := fresh "Hp" in
    intros r p' (H1 & H3); cbv beta ].
Lemma flac_streaminfo_any d : pspec flac_streaminfo d 0 (fun _ _ => True).
Proof.
  unfold flac_streaminfo.
  sread'. sread'. sread'. sread'. sread'. sread'. sread'. cbv zeta.
  destruct (be_decode r3 * 16 + be_decode r4 / 16 =? 0) eqn:E0; [praiseM|].
  sread'. pstep. exact I.
Qed.

Lemma ogf_info_spec d fuel : zlen d < Z.of_nat fuel ->
  pspecE EofM (ogf_info fuel) d 0 (fun _ p' => 0 <= p' <= zlen d).
Proof.
  intro Hf. unfold ogf_info. pose proof (zlen_nonneg d).
  apply pspecE_bind. eapply pspecE_post; [apply read_page_spec; lia|].
  intros pg p1 Hp1. cbv beta in Hp1. cbv beta.
  apply pspecE_bind. eapply pspecE_post; [apply ogf_find_spec; lia|].
  intros pg' p2 [Hfirst Hp2]. cbv beta.
  unfold ogg_first_is in Hfirst. destruct (p_packets pg') as [|pk t] eqn:Epk; [discriminate|].
  apply pspecE_bind. apply pspecE_lift. change (list_index 0 (pk :: t)) with (Ok pk). cbv beta iota.
  apply pspecE_bind.
  apply pspecE_catchM with (c := ogf_is_estruct); [left; reflexivity|].
  apply pspecE_post with (Q := fun _ p' => p' = p2).
  { apply pspecE_lift. cbv zeta. destruct (zlen (zslice 5 13 pk) =? 8); [reflexivity|right; reflexivity]. }
  intros s p3 Hp3. cbv beta in Hp3. subst p3. cbv beta zeta.
  destruct (list_eqb (zslice 4 8 s) flac_fLaC); cbn [negb]; [|apply pspecE_raise; left; reflexivity].
  destruct ((znth 0 s =? 1) && (znth 1 s =? 0)); cbn [negb]; [|apply pspecE_raise; left; reflexivity].
  apply pspecE_bind. unfold pspecE, psub.
  pose proof (flac_streaminfo_any (zdrop 17 pk)) as Hs. unfold pspecE in Hs.
  destruct (flac_streaminfo (zdrop 17 pk) 0) as [[info|e] p']; cbn [fst]; [|left; exact Hs].
  unfold pret. lia.
Qed.

Definition pk_ok (pg : page) : Prop := Forall bytes_ok (p_packets pg).

Lemma read_packets_ok : forall ls bs pk rest, bytes_ok bs -> read_packets ls bs = Some (pk, rest) -> Forall bytes_ok pk.
Proof.
  induction ls as [|l r IH]; intros bs pk rest Hb H; cbn [read_packets] in H.
  - injection H as <- <-. constructor.
  - cbv zeta in H. destruct (negb (zlen (ztake l bs) =? l)); [discriminate|].
    destruct (read_packets r (zdrop l bs)) as [[ps rest']|] eqn:E; [|discriminate].
    injection H as <- <-. constructor; [apply bytes_ok_ztake; assumption|].
    eapply IH; [|exact E]. apply bytes_ok_zdrop. assumption.
Qed.
Lemma page_parse_ok bs pg rest : bytes_ok bs -> page_parse bs = Ok (pg, rest) -> pk_ok pg.
Proof.
  intros Hb. unfold page_parse. cbv zeta.
  destruct (zlen (ztake 27 bs) =? 0); [discriminate|].
  destruct (zlen (ztake 27 bs) <? 27); [discriminate|].
  destruct (negb (list_eqb (ztake 4 (ztake 27 bs)) oggs)); [discriminate|].
  destruct (negb (znth 4 (ztake 27 bs) =? 0)); [discriminate|].
  destruct (negb (zlen (ztake (znth 26 (ztake 27 bs)) (zdrop 27 bs)) =? znth 26 (ztake 27 bs))); [discriminate|].
  destruct (lacing_scan _ 0 []) as [racc tot].
  destruct (read_packets _ _) as [[pk rest']|] eqn:ER; [|discriminate].
  intro H. injection H as <- <-. unfold pk_ok. cbn [p_packets].
  eapply read_packets_ok; [|exact ER]. apply bytes_ok_zdrop, bytes_ok_zdrop. assumption.
Qed.
Lemma read_page_ok d p : bytes_ok d -> 0 <= p <= zlen d ->
  pspecE EofM ogg_read_page d p (fun pg p' => pk_ok pg /\ p + 27 <= p' <= zlen d).
Proof.
  intros Hd Hp. pose proof (read_page_spec d p Hp) as H. unfold pspecE, ogg_read_page in *. rewrite ldrop_zdrop in *.
  destruct (page_parse (zdrop p d)) as [[pg rest]|e] eqn:E; [|exact H].
  split; [|exact H]. eapply page_parse_ok; [|exact E]. apply bytes_ok_zdrop. assumption.
Qed.

Lemma ogf_gather_spec d serial : bytes_ok d -> forall fuel acc p, Forall pk_ok acc -> 0 <= p <= zlen d -> zlen d - p < Z.of_nat fuel ->
  pspecE EofM (ogf_gather fuel serial acc) d p (fun pages _ => Forall pk_ok pages).
Proof.
  intros Hd. induction fuel as [|fuel IH]; intros acc p Hacc Hp Hf; [lia|].
  cbn [ogf_gather].
  apply pspecE_bind. eapply pspecE_post; [apply read_page_ok; assumption|].
  intros pg p' [Hpg Hp']. cbv beta.
  destruct (p_serial pg =? serial); [|apply IH; [assumption|lia|lia]].
  destruct (p_complete pg || (1 <? zlen (p_packets pg))).
  - apply pspecE_ret. apply Forall_rev. constructor; assumption.
  - apply IH; [constructor; assumption|lia|lia].
Qed.

(* to_packets(pages): ValueError / IndexError only; the packets are made of the pages' bytes *)
Definition VI (e : exc) : Prop := e = EValue \/ e = EIndex.
Lemma app_last_ok : forall acc f, Forall bytes_ok acc -> bytes_ok f -> Forall bytes_ok (app_last acc f).
Proof.
  induction acc as [|x r IH]; intros f Ha Hf; cbn [app_last]; [constructor; [assumption|constructor]|].
  inversion Ha as [|x' r' Hx Hr]; subst. destruct r as [|y r2].
  - constructor; [|constructor]. unfold bytes_ok in *. apply Forall_app. split; assumption.
  - constructor; [assumption|]. apply IH; assumption.
Qed.
Lemma tp_step_cases serial st p : Forall bytes_ok (snd st) -> pk_ok p ->
  match tp_step serial st p with Ok st' => Forall bytes_ok (snd st') | Raise e => VI e end.
Proof.
  intros Hst Hp. unfold tp_step. destruct st as [sq acc]. cbn [snd] in Hst.
  destruct (negb (serial =? p_serial p)); [left; reflexivity|].
  destruct (negb (sq =? p_sequence p)); [left; reflexivity|].
  unfold pk_ok in Hp. destruct (p_packets p) as [|f others]; [exact Hst|].
  inversion Hp as [|f' o' Hf Ho]; subst.
  destruct (continued p).
  - destruct acc as [|a0 acc']; [right; reflexivity|]. cbn [snd]. apply Forall_app. split; [apply app_last_ok; assumption|assumption].
  - cbn [snd]. apply Forall_app. split; [apply Forall_app; split; [assumption|constructor; [assumption|constructor]]|assumption].
Qed.
Lemma tp_loop_cases serial : forall pages st, Forall bytes_ok (snd st) -> Forall pk_ok pages ->
  match tp_loop serial st pages with Ok st' => Forall bytes_ok (snd st') | Raise e => VI e end.
Proof.
  induction pages as [|p r IH]; intros st Hst Hp; cbn [tp_loop]; [exact Hst|].
  inversion Hp as [|p' r' Hp0 Hr]; subst.
  pose proof (tp_step_cases serial st p Hst Hp0) as H. destruct (tp_step serial st p); [apply IH; assumption|exact H].
Qed.
Lemma to_packets_cases pages : Forall pk_ok pages ->
  match to_packets false pages with Ok pks => Forall bytes_ok pks | Raise e => VI e end.
Proof.
  intro Hp. unfold to_packets. destruct pages as [|p0 t]; [right; reflexivity|]. cbv zeta.
  set (acc := if continued p0 then [[]] else []).
  assert (Hacc : Forall bytes_ok (snd (p_sequence p0, acc))).
  { cbn [snd]. unfold acc. destruct (continued p0); [constructor; [constructor|constructor]|constructor]. }
  pose proof (tp_loop_cases (p_serial p0) (p0 :: t) (p_sequence p0, acc) Hacc Hp) as H.
  unfold rmap. destruct (tp_loop (p_serial p0) (p_sequence p0, acc) (p0 :: t)); [exact H|exact H].
Qed.

(* VComment.load(framing=False) on a bytes packet: Proofs.C04_vcomment.vc_loop_spec does the loop *)
Lemma ogf_vc_body_spec d fuel : bytes_ok d -> zlen d < Z.of_nat fuel -> pspec (ogf_vc_body fuel) d 0 (fun _ _ => True).
Proof.
  intros Hd Hf. unfold ogf_vc_body. pose proof (zlen_nonneg d).
  apply pspec_catchM. fold C04_vcomment.Ec.
  apply pspecE_bind. pread. pose proof (rd_len 4 0 d ltac:(lia) ltac:(lia)) as Hr. set (vb := rd 4 0 d) in *.
  apply pspecE_bind. apply pspecE_lift. unfold unpack_le. destruct (zlen vb =? 4) eqn:E4; [|right; reflexivity].
  apply Z.eqb_eq in E4.
  pose proof (C04_vcomment.le4_bound vb (bytes_ok_rd 4 0 d Hd) E4) as Hb. set (vl := le_decode vb) in *.
  apply pspecE_bind. pread. pose proof (rd_len vl (0 + zlen vb) d ltac:(lia) ltac:(lia)) as Hr2. set (vendor := rd vl (0 + zlen vb) d) in *.
  set (p1 := 0 + zlen vb + zlen vendor). assert (Hp1 : 0 <= p1) by (unfold p1; pose proof (zlen_nonneg vendor); lia).
  apply pspecE_bind. pread. pose proof (rd_len 4 p1 d Hp1 ltac:(lia)) as Hr3. set (cb := rd 4 p1 d) in *.
  apply pspecE_bind. apply pspecE_lift. unfold unpack_le. destruct (zlen cb =? 4) eqn:E5; [|right; reflexivity].
  apply Z.eqb_eq in E5.
  eapply pspecE_post; [apply C04_vcomment.vc_loop_spec; [assumption|lia|lia]|]. intros; exact I.
Qed.

Definition EofMVI (e : exc) : Prop := EofM e \/ ogf_is_value_or_index e = true.
Lemma ogf_tags_spec d fuel serial p : bytes_ok d -> 0 <= p <= zlen d -> zlen d - p < Z.of_nat fuel ->
  pspecE EofMVI (ogf_tags fuel serial) d p (fun _ _ => True).
Proof.
  intros Hd Hp Hf. unfold ogf_tags.
  apply pspecE_bind. eapply pspecE_weaken; [apply ogf_gather_spec; first [assumption | constructor]|intros e He; left; exact He|].
  intros pages p1 Hpages. cbv beta.
  apply pspecE_bind. apply pspecE_lift.
  pose proof (to_packets_cases pages Hpages) as Htp.
  destruct (to_packets false pages) as [pks|e]; [|right; destruct Htp as [->| ->]; reflexivity].
  apply pspecE_bind. apply pspecE_lift.
  destruct (list_index_cases 0 pks) as [(pk0 & H0 & Hin)|H0]; rewrite H0; [|right; reflexivity].
  cbv zeta. unfold pspecE, psub.
  assert (Hpk : bytes_ok (zdrop 4 pk0)). { apply bytes_ok_zdrop. rewrite Forall_forall in Htp. apply Htp. exact Hin. }
  pose proof (zlen_nonneg (zdrop 4 pk0)).
  pose proof (ogf_vc_body_spec (zdrop 4 pk0) (Z.to_nat (zlen (zdrop 4 pk0) + 1)) Hpk ltac:(lia)) as Hv. unfold pspecE in Hv.
  destruct (ogf_vc_body _ (zdrop 4 pk0) 0) as [[k|e] p']; cbn [fst]; [exact I|left; left; exact Hv].
Qed.

Theorem oggflac_total d : c04_input d -> total (oggflac_load d).
Proof.
  intros [Hd Hlen]. unfold oggflac_load. eapply total_prun with (Q := fun _ _ => True).
  unfold ogf_init. pose proof (zlen_nonneg d).
  assert (Hfuel : zlen d < Z.of_nat (lin_fuel 1 1 d)) by (unfold lin_fuel; lia).
  apply pspec_catchM.
  apply pspecE_convert_io; [left; reflexivity|].
  assert (HW : forall e, EofM e -> e = EMutagen \/ ogg_is_eof e = true) by (intros e [->| ->]; [left|right]; reflexivity).
  apply pspecE_bind. eapply pspecE_weaken; [apply ogf_info_spec; exact Hfuel|exact HW|].
  intros info p1 Hp1. cbv beta in Hp1. cbv beta.
  apply pspecE_bind.
  apply pspecE_catchM with (c := ogf_is_value_or_index); [left; reflexivity|].
  eapply pspecE_weaken; [apply ogf_tags_spec; [assumption|exact Hp1|lia]| |].
  - intros e [He|He]; [left; apply HW; exact He|right; exact He].
  - intros kept p2 _. apply pspecE_ret. exact I.
Qed.
