(* C16: VCommentDict (list of pairs, case-insensitive keys, key validation) refines the reference map. *)
From Coq Require Import ZArith List Bool Lia.
Import ListNotations.
Require Import Base.Py Base.ZList Model.Dict Proofs.C16_pydict Proofs.C16_generic.
Open Scope Z_scope.

(* ---------------- lower-casing and key validity ---------------- *)
Lemma lower_c_idem c : lower_c (lower_c c) = lower_c c.
Proof.
  unfold lower_c.
  destruct ((65 <=? c) && (c <=? 90)) eqn:E.
  - destruct ((65 <=? c + 32) && (c + 32 <=? 90)) eqn:E2; auto.
    apply andb_true_iff in E as [A B]. apply andb_true_iff in E2 as [C D]. lia.
  - rewrite E. reflexivity.
Qed.
Lemma lower_idem k : lower (lower k) = lower k.
Proof. unfold lower. rewrite map_map. apply map_ext. apply lower_c_idem. Qed.
Lemma vc_char_bad_lower c : vc_char_bad (lower_c c) = vc_char_bad c.
Proof.
  unfold vc_char_bad, lower_c.
  destruct ((65 <=? c) && (c <=? 90)) eqn:E; auto.
  apply andb_true_iff in E as [A B].
  assert (c <? 32 = false) by lia. assert (125 <? c = false) by lia. assert (c =? 61 = false) by lia.
  assert (c + 32 <? 32 = false) by lia. assert (125 <? c + 32 = false) by lia.
  assert (c + 32 =? 61 = false) by lia.
  congruence.
Qed.
Lemma existsb_bad_lower k : existsb vc_char_bad (lower k) = existsb vc_char_bad k.
Proof. unfold lower. induction k as [|c k IH]; cbn [map existsb]; [reflexivity|]. rewrite vc_char_bad_lower, IH. reflexivity. Qed.
Lemma vc_valid_lower k : vc_valid (lower k) = vc_valid k.
Proof. unfold vc_valid. rewrite existsb_bad_lower. destruct k; reflexivity. Qed.
Lemma vc_spec_ok : spec_ok vc_spec.
Proof.
  intros k nk. cbn. destruct (vc_valid k) eqn:E; [|discriminate].
  intros H. inversion H; subst. rewrite vc_valid_lower, E, lower_idem. reflexivity.
Qed.

(* ---------------- list.remove loop = filter ---------------- *)
Lemma pair_eqb_spec a b : pair_eqb a b = true <-> a = b.
Proof.
  unfold pair_eqb. rewrite andb_true_iff, !list_eqb_spec. destruct a, b; cbn. split.
  - intros [? ?]; congruence.
  - intros H; inversion H; auto.
Qed.
Lemma remove_first_app (pre l : vc_state) x :
  (forall y, In y pre -> pair_eqb y x = false) ->
  remove_first x (pre ++ x :: l) = pre ++ l.
Proof.
  induction pre as [|y pre IH]; intros H; cbn.
  - rewrite (proj2 (pair_eqb_spec x x) eq_refl). reflexivity.
  - rewrite (H y (or_introl eq_refl)). f_equal. apply IH. intros z Hz. apply H. right; auto.
Qed.
Lemma remove_loop p (s : vc_state) : forall pre,
  (forall y, In y pre -> p y = false) ->
  fold_left (fun acc item => remove_first item acc) (filter p s) (pre ++ s) =
  pre ++ filter (fun x => negb (p x)) s.
Proof.
  induction s as [|a s IH]; intros pre H; cbn.
  - reflexivity.
  - destruct (p a) eqn:E; cbn.
    + rewrite remove_first_app.
      * apply IH. exact H.
      * intros y Hy. destruct (pair_eqb y a) eqn:E2; auto.
        apply pair_eqb_spec in E2. subst y. rewrite (H a Hy) in E. discriminate.
    + replace (pre ++ a :: s) with ((pre ++ [a]) ++ s) by (rewrite <- app_assoc; reflexivity).
      rewrite IH.
      * rewrite <- app_assoc. reflexivity.
      * intros y Hy. apply in_app_or in Hy as [Hy|[Hy|[]]]; auto. subst; auto.
Qed.
Lemma remove_loop0 p (s : vc_state) :
  fold_left (fun acc item => remove_first item acc) (filter p s) s = filter (fun x => negb (p x)) s.
Proof. apply (remove_loop p s []). intros y []. Qed.

(* ---------------- the abstraction ---------------- *)
Definition vc_values (lk : key) (s : vc_state) : list str := map snd (filter (vc_match lk) s).
Definition vc_rest (lk : key) (s : vc_state) : vc_state := filter (fun x => negb (vc_match lk x)) s.
Definition vc_getl (lk : key) (r : refmap (list str)) : list str :=
  match pd_find lk r with Some e => snd e | None => [] end.

Lemma vc_abs_cons k v s : vc_abs ((k, v) :: s) =
  (lower k, (lower k, v :: vc_getl (lower k) (vc_abs s))) :: pd_remove (lower k) (vc_abs s).
Proof. reflexivity. Qed.

Lemma vc_abs_find lk s :
  pd_find lk (vc_abs s) = match vc_values lk s with [] => None | vs => Some (lk, vs) end.
Proof.
  induction s as [|[k v] s IH].
  - reflexivity.
  - rewrite vc_abs_cons. unfold vc_values in *. cbn [pd_find filter].
    change (vc_match lk (k, v)) with (list_eqb (lower k) lk).
    rewrite (list_eqb_sym (lower k) lk).
    deq lk (lower k).
    + subst lk. cbn [map snd]. unfold vc_getl. rewrite IH.
      destruct (map snd (filter (vc_match (lower k)) s)); reflexivity.
    + rewrite pd_find_remove_other by congruence. exact IH.
Qed.
Lemma vc_getl_values lk s : vc_getl lk (vc_abs s) = vc_values lk s.
Proof. unfold vc_getl. rewrite vc_abs_find. destruct (vc_values lk s); reflexivity. Qed.

Lemma vc_abs_nodup s : NoDup (map fst (vc_abs s)).
Proof.
  induction s as [|[k v] s IH]; [constructor|].
  rewrite vc_abs_cons. cbn [map fst]. constructor.
  - rewrite pd_remove_in. tauto.
  - apply pd_remove_nodup. exact IH.
Qed.
Lemma vc_abs_disp s e : In e (vc_abs s) -> fst (snd e) = fst e.
Proof.
  revert e. induction s as [|[k v] s IH]; intros e; [intros []|].
  rewrite vc_abs_cons. intros [H|H].
  - subst e. reflexivity.
  - apply IH. eapply pd_remove_incl; eauto.
Qed.
Lemma vc_abs_keys_in s e : Forall (fun p => vc_valid (fst p) = true) s -> In e (vc_abs s) ->
  exists k, vc_valid k = true /\ fst e = lower k.
Proof.
  revert e. induction s as [|[k v] s IH]; intros e F; [intros []|].
  inversion F; subst. rewrite vc_abs_cons. intros [H|H].
  - subst e. exists k. auto.
  - apply IH; auto. eapply pd_remove_incl; eauto.
Qed.

Definition vc_inv (s : vc_state) : Prop := Forall (fun p => vc_valid (fst p) = true) s.

Lemma vc_abs_wf s : vc_inv s -> ref_wf vc_spec (vc_abs s).
Proof.
  intros F. split; [apply vc_abs_nodup|].
  intros e He. rewrite (vc_abs_disp s e He).
  destruct (vc_abs_keys_in s e F He) as [k [V E]]. rewrite E. cbn.
  rewrite vc_valid_lower, V, lower_idem. reflexivity.
Qed.

(* keys() *)
Lemma ref_keys_remove lk (r : refmap (list str)) :
  (forall e, In e r -> fst (snd e) = fst e) ->
  ref_keys (pd_remove lk r) = filter (fun y => negb (list_eqb lk y)) (ref_keys r).
Proof.
  intros H. unfold ref_keys, pd_remove. induction r as [|e r IH]; cbn; auto.
  assert (IH' := IH (fun x Hx => H x (or_intror Hx))).
  pose proof (H e (or_introl eq_refl)) as He. destruct e as [ke [de we]]. cbn [fst snd] in *. subst de.
  destruct (list_eqb lk ke); cbn [negb map fst snd].
  - exact IH'.
  - rewrite IH'. reflexivity.
Qed.
Lemma vc_keys_abs s : vc_keys s = ref_keys (vc_abs s).
Proof.
  unfold vc_keys. induction s as [|[k v] s IH]; [reflexivity|].
  rewrite vc_abs_cons. cbn [map dedup fst]. unfold ref_keys at 1. cbn [map fst snd]. f_equal.
  rewrite IH. symmetry. apply ref_keys_remove. apply vc_abs_disp.
Qed.

(* deleting a key *)
Lemma vc_add_front_remove lk lk0 v (r : refmap (list str)) : lk <> lk0 ->
  pd_remove lk (vc_add_front lk0 v r) = vc_add_front lk0 v (pd_remove lk r).
Proof.
  intros N. unfold vc_add_front. unfold pd_remove at 1. cbn [filter fst].
  destruct (list_eqb lk lk0) eqn:E; [apply list_eqb_spec in E; contradiction|]. cbn [negb].
  fold (pd_remove lk (pd_remove lk0 r)).
  rewrite pd_find_remove_other by auto. rewrite pd_remove_comm. reflexivity.
Qed.
Lemma vc_abs_rest lk s : vc_abs (vc_rest lk s) = pd_remove lk (vc_abs s).
Proof.
  unfold vc_rest. induction s as [|[k v] s IH]; [reflexivity|].
  cbn [filter]. unfold vc_match at 1. cbn [fst]. deq (lower k) lk; cbn [negb].
  - subst lk. rewrite IH. change (vc_abs ((k, v) :: s)) with (vc_add_front (lower k) v (vc_abs s)).
    unfold vc_add_front. unfold pd_remove at 2. cbn [filter fst]. rewrite list_eqb_refl. cbn [negb].
    fold (pd_remove (lower k) (pd_remove (lower k) (vc_abs s))). rewrite pd_remove_idem. reflexivity.
  - change (vc_abs ((k, v) :: filter (fun x => negb (vc_match lk x)) s))
      with (vc_add_front (lower k) v (vc_abs (filter (fun x => negb (vc_match lk x)) s))).
    rewrite IH. change (vc_abs ((k, v) :: s)) with (vc_add_front (lower k) v (vc_abs s)).
    rewrite vc_add_front_remove by congruence. reflexivity.
Qed.

(* appending the new values of a key that is not present *)
Lemma vc_abs_new k (x : str) xs :
  vc_abs (map (fun y => (k, y)) (x :: xs)) = [(lower k, (lower k, x :: xs))].
Proof.
  revert x. induction xs as [|y xs IH]; intros x.
  - reflexivity.
  - change (map (fun y0 => (k, y0)) (x :: y :: xs)) with ((k, x) :: map (fun y0 => (k, y0)) (y :: xs)).
    rewrite vc_abs_cons, IH. unfold vc_getl. cbn [pd_find]. rewrite list_eqb_refl. cbn [snd].
    unfold pd_remove. cbn [filter fst]. rewrite list_eqb_refl. reflexivity.
Qed.
Lemma vc_abs_append k x xs s :
  (forall p, In p s -> lower (fst p) <> lower k) ->
  vc_abs (s ++ map (fun y => (k, y)) (x :: xs)) = vc_abs s ++ [(lower k, (lower k, x :: xs))].
Proof.
  induction s as [|[k' v'] s IH]; intros H.
  - apply vc_abs_new.
  - rewrite <- app_comm_cons. rewrite !vc_abs_cons. rewrite IH by (intros p Hp; apply H; right; auto).
    assert (N : lower k' <> lower k) by (apply (H (k', v')); left; reflexivity).
    unfold vc_getl. rewrite pd_find_app. cbn [pd_find].
    destruct (list_eqb (lower k') (lower k)) eqn:E; [apply list_eqb_spec in E; contradiction|].
    rewrite pd_remove_app. unfold pd_remove at 2. cbn [filter fst]. rewrite E. cbn [negb].
    destruct (pd_find (lower k') (vc_abs s)); reflexivity.
Qed.
Lemma vc_rest_nokey lk s p : In p (vc_rest lk s) -> lower (fst p) <> lk.
Proof.
  unfold vc_rest. rewrite filter_In. intros [_ H]. unfold vc_match in H.
  apply negb_true_iff in H. apply list_eqb_false in H. exact H.
Qed.
Lemma vc_rest_none lk s : filter (vc_match lk) s = [] -> vc_rest lk s = s.
Proof.
  unfold vc_rest. induction s as [|a s IH]; cbn; auto.
  destruct (vc_match lk a); [discriminate|]. intros H. cbn. f_equal. auto.
Qed.
Lemma vc_inv_rest lk s : vc_inv s -> vc_inv (vc_rest lk s).
Proof.
  unfold vc_inv, vc_rest. rewrite !Forall_forall. intros H p Hp. apply H.
  apply filter_In in Hp. tauto.
Qed.

(* what del self[key] leaves behind, in both outcomes *)
Lemma vc_del_state s k : vc_valid k = true ->
  snd (vc_del s k) = vc_rest (lower k) s /\
  fst (vc_del s k) = match vc_values (lower k) s with [] => Raise EKey | _ => Ok tt end.
Proof.
  intros V. unfold vc_del, vc_values. rewrite V. cbn [negb].
  destruct (filter (vc_match (lower k)) s) as [|a l] eqn:E.
  - cbn. split; auto. symmetry. apply vc_rest_none. exact E.
  - cbn [fst snd map]. split; auto. rewrite <- E. apply remove_loop0.
Qed.

Theorem vc_prim_refines : prim_refines VC (RefD vc_spec) vc_inv vc_abs.
Proof.
  split.
  - intros s _. apply vc_keys_abs.
  - intros s k _. cbn [d_get VC RefD]. unfold vc_get, ref_get. cbn [r_key r_out vc_spec].
    destruct (vc_valid k); cbn [negb]; [|reflexivity].
    rewrite vc_abs_find. unfold vc_values. destruct (map snd (filter (vc_match (lower k)) s)); reflexivity.
  - intros s k v H. cbn [d_set VC RefD]. unfold vc_set, ref_set. cbn [r_key r_val r_disp vc_spec].
    destruct (vc_valid k) eqn:V; cbn [negb]; [|unfold sim; cbn; auto].
    destruct (vc_del_state s k V) as [A B].
    destruct (vc_del s k) as [x s'] eqn:ED. cbn [fst snd] in A, B. subst s'.
    assert (X : x = Ok tt \/ x = Raise EKey) by (rewrite B; destruct (vc_values (lower k) s); auto).
    clear B ED.
    assert (G : forall values,
      sim vc_inv vc_abs (Ok tt, vc_rest (lower k) s ++ map (fun y => (k, y)) values)
          (match (match values with [] => Ok None | _ => Ok (Some values) end) with
           | Raise e => (Raise e, vc_abs s)
           | Ok None => (Ok tt, pd_remove (lower k) (vc_abs s))
           | Ok (Some w) => (Ok tt, ref_put vc_spec (vc_abs s) (lower k) (lower k) w)
           end)).
    { intros values. unfold sim. destruct values as [|y ys]; cbn [fst snd].
      - rewrite app_nil_r. split; [reflexivity|]. split; [apply vc_abs_rest | apply vc_inv_rest; exact H].
      - split; [reflexivity|]. split.
        + rewrite vc_abs_append by (intros p Hp; eapply vc_rest_nokey; eauto).
          rewrite vc_abs_rest. reflexivity.
        + unfold vc_inv. apply Forall_app. split; [apply vc_inv_rest; exact H|].
          apply Forall_forall. intros p Hp. apply in_map_iff in Hp as [z [E _]]. subst p. exact V. }
    destruct v as [y|l].
    + specialize (G [y]). cbn in G. destruct X; subst x; exact G.
    + specialize (G l). unfold vc_val. destruct X; subst x; destruct l; exact G.
  - intros s k H. cbn [d_del VC RefD]. unfold ref_del. cbn [r_key vc_spec].
    destruct (vc_valid k) eqn:V.
    + destruct (vc_del_state s k V) as [A B]. unfold sim. rewrite A, B.
      unfold pd_mem. rewrite vc_abs_find.
      destruct (vc_values (lower k) s) eqn:E; cbn [fst snd].
      * split; [reflexivity|]. split; [|apply vc_inv_rest; exact H].
        unfold vc_rest. rewrite (proj1 (vc_del_state s k V)) in *.
        unfold vc_values in E. apply map_eq_nil in E. rewrite <- (vc_rest_none _ _ E) at 2.
        unfold vc_rest. reflexivity.
      * split; [reflexivity|]. split; [apply vc_abs_rest | apply vc_inv_rest; exact H].
    + unfold vc_del. rewrite V. unfold sim; cbn; auto.
Qed.

(* VCommentDict's own __contains__ agrees with DictMixin's over the same primitives *)
Lemma vc_contains_eq s k : vc_contains s k = dm_contains VC s k.
Proof.
  unfold vc_contains, dm_contains. cbn [d_get VC]. unfold vc_get.
  destruct (vc_valid k); cbn [negb]; [|reflexivity].
  induction s as [|a s IH]; cbn; [reflexivity|].
  destruct (vc_match (lower k) a); cbn; [reflexivity|]. exact IH.
Qed.

(* len(): the number of values *)
Definition vc_total (r : refmap (list str)) : Z := fold_right (fun e n => zlen (snd (snd e)) + n) 0 r.
Lemma vc_total_split lk (r : refmap (list str)) : NoDup (map fst r) ->
  vc_total r = zlen (vc_getl lk r) + vc_total (pd_remove lk r).
Proof.
  unfold vc_getl. induction r as [|[k1 [d1 w1]] r IH]; intros ND; cbn [vc_total fold_right pd_find].
  - reflexivity.
  - inversion ND; subst. fold (vc_total r). deq lk k1.
    + subst k1. rewrite pd_remove_head by auto. cbn [snd]. reflexivity.
    + unfold pd_remove. cbn [filter fst]. rewrite E. cbn [negb vc_total fold_right snd].
      fold (pd_remove lk r). fold (vc_total (pd_remove lk r)). rewrite (IH H2). lia.
Qed.
Lemma vc_len_abs s : zlen s = vc_total (vc_abs s).
Proof.
  induction s as [|[k v] s IH]; [reflexivity|].
  rewrite vc_abs_cons. cbn [vc_total fold_right snd]. fold (vc_total (pd_remove (lower k) (vc_abs s))).
  rewrite zlen_cons, IH, (vc_total_split (lower k) _ (vc_abs_nodup s)). rewrite (zlen_cons v). lia.
Qed.

Definition vc_inv_wf := inv_wf vc_spec vc_inv vc_abs.

Theorem vc_step_refines s o : vc_offers o = true -> vc_inv_wf s ->
  fst (vc_step s o) = fst (vc_ref_step (vc_abs s) o) /\
  vc_abs (snd (vc_step s o)) = snd (vc_ref_step (vc_abs s) o) /\
  vc_inv_wf (snd (vc_step s o)).
Proof.
  intros OF HW.
  pose proof (step_refines vc_spec vc_spec_ok VC vc_inv vc_abs vc_prim_refines s) as G.
  destruct o; try discriminate OF; try (apply G; exact HW).
  - (* contains *)
    specialize (G (OpContains k) HW). cbn [vc_step vc_ref_step]. rewrite vc_contains_eq. exact G.
  - (* len *)
    cbn [vc_step vc_ref_step fst snd]. rewrite vc_len_abs. repeat split; try apply HW.
  - (* clear *)
    cbn. repeat split; try constructor. intros e [].
Qed.

Theorem vc_refines ops s : vc_inv s -> Forall (fun o => vc_offers o = true) ops ->
  outputs vc_step s ops = outputs vc_ref_step (vc_abs s) ops /\
  vc_abs (final vc_step s ops) = final vc_ref_step (vc_abs s) ops.
Proof.
  intros H F. rewrite !final_run. unfold outputs.
  destruct (run_sim vc_step vc_ref_step vc_inv_wf vc_abs (fun o => vc_offers o = true)
                    (fun s o Hs Ho => vc_step_refines s o Ho Hs) ops s) as (A & B & _); auto.
  split; [exact H | apply vc_abs_wf; exact H].
Qed.

(* through a FLAC / Ogg file object: every DictMixin operation over FileType's primitives *)
Theorem fvc_refines ops f : oinv vc_inv f ->
  outputs (dm_step (FileProxy VC [])) f ops = outputs (fref_step vc_spec) (option_map vc_abs f) ops /\
  option_map vc_abs (final (dm_step (FileProxy VC [])) f ops) =
  final (fref_step vc_spec) (option_map vc_abs f) ops.
Proof.
  intros H.
  apply (frun_refines vc_spec vc_spec_ok VC vc_inv vc_abs [] vc_prim_refines).
  - constructor.
  - reflexivity.
  - split; [exact H|]. destruct f as [s|]; cbn; [apply vc_abs_wf; exact H | exact I].
Qed.
