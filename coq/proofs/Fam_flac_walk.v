(* FLAC family: the strict walker and the writer are inverse to each other (both directions), the ID3v2 prefix is
   recognised independently of what follows, and mutagen's content-driven walker (mut_walk, _distrust_size) agrees
   with the strict one on well-formed block lists. *)
From Coq Require Import ZArith List Bool Lia.
Import ListNotations.
Require Import Base.Py Base.ZList Model.Fam_flac Proofs.Fam_flac_codec.
Open Scope Z_scope.
Ltac Zify.zify_post_hook ::= Z.to_euclidean_division_equations.

(* what a block must satisfy to be written and found again *)
Definition block_small (b : block) : Prop := 0 <= bcode b < 127 /\ zlen (bdata b) <= MAXSZ /\ bovf b = -1.

(* ------------------------------------------------------------------ list helpers *)
Lemma starts_with_app (a b : list Z) : starts_with a (a ++ b) = true.
Proof. induction a; cbn [app starts_with]; [reflexivity|]. rewrite Z.eqb_refl, IHa. reflexivity. Qed.
Lemma starts_with_split (a l : list Z) : starts_with a l = true -> l = a ++ zdrop (zlen a) l.
Proof.
  revert l; induction a as [|x a IH]; intros l H; [reflexivity|].
  destruct l as [|y l]; cbn [starts_with] in H; [discriminate|].
  apply andb_true_iff in H as [H1 H2]. apply Z.eqb_eq in H1. subst y.
  rewrite zlen_cons. cbn [app]. f_equal.
  replace (zdrop (1 + zlen a) (x :: l)) with (zdrop (zlen a) l).
  - apply IH. exact H2.
  - unfold zdrop. replace (Z.to_nat (1 + zlen a)) with (S (Z.to_nat (zlen a))) by (pose proof (zlen_nonneg a); lia).
    reflexivity.
Qed.
Lemma starts_with_len (a l : list Z) : starts_with a l = true -> zlen a <= zlen l.
Proof.
  intros H. pose proof (starts_with_split a l H) as E. apply (f_equal (@zlen Z)) in E. rewrite zlen_app in E.
  pose proof (zlen_nonneg (zdrop (zlen a) l)). lia.
Qed.
Lemma sw_app (a : list Z) : forall p X, zlen a <= zlen p -> starts_with a (p ++ X) = starts_with a p.
Proof.
  induction a as [|x a IH]; intros p X H; [reflexivity|].
  destruct p as [|y p]; [rewrite zlen_cons, zlen_nil in H; pose proof (zlen_nonneg a); lia|].
  cbn [app starts_with]. rewrite IH; [reflexivity|]. rewrite !zlen_cons in H. lia.
Qed.
Lemma zslice_app_l (a b : Z) (p X : list Z) : 0 <= a -> a <= b -> b <= zlen p -> zslice a b (p ++ X) = zslice a b p.
Proof.
  intros. unfold zslice. rewrite zdrop_app_l by lia. apply ztake_app_l. rewrite zlen_zdrop by lia. lia.
Qed.
Lemma map_mod128 l : forallb is_7bit l = true -> map (fun b => b mod 128) l = l.
Proof.
  induction l as [|x l IH]; cbn [forallb map]; [reflexivity|]. intros H.
  apply andb_true_iff in H as [H1 H2]. rewrite IH by exact H2. f_equal. unfold is_7bit in H1. lia.
Qed.

(* ------------------------------------------------------------------ rendering *)
Lemma render_blocks_cons b b' r : render_blocks (b :: b' :: r) = render_block b false ++ render_blocks (b' :: r).
Proof. reflexivity. Qed.
Lemma render_blocks_snoc l p :
  render_blocks (l ++ [p]) = flat_map (fun b => render_block b false) l ++ render_block p true.
Proof.
  induction l as [|b l IH]; [reflexivity|].
  cbn [app flat_map]. destruct l as [|b' l'].
  - cbn [app flat_map render_blocks]. rewrite ?app_nil_r, ?app_nil_l. reflexivity.
  - change ((b' :: l') ++ [p]) with (b' :: (l' ++ [p])) in *. rewrite render_blocks_cons, IH, app_assoc. reflexivity.
Qed.
Lemma zlen_render_block b last : zlen (render_block b last) = block_extent b.
Proof.
  unfold render_block, block_bytes, block_extent. rewrite zlen_cons, zlen_app, zlen_be_encode. lia.
Qed.
Lemma zlen_render_blocks bs : zlen (render_blocks bs) = blocks_extent bs.
Proof.
  induction bs as [|b bs IH]; [reflexivity|].
  destruct bs as [|b' r].
  - cbn [render_blocks blocks_extent fold_right]. rewrite zlen_render_block. lia.
  - rewrite render_blocks_cons, zlen_app, IH, zlen_render_block. reflexivity.
Qed.
Lemma blocks_extent_app a b : blocks_extent (a ++ b) = blocks_extent a + blocks_extent b.
Proof. unfold blocks_extent. induction a; cbn [app fold_right]; lia. Qed.
Lemma blocks_extent_ge bs : 4 * zlen bs <= blocks_extent bs.
Proof.
  induction bs as [|b bs IH]; [unfold zlen; cbn; lia|].
  rewrite zlen_cons. unfold blocks_extent in *. cbn [fold_right]. unfold block_extent at 1.
  pose proof (zlen_nonneg (bdata b)). lia.
Qed.
Lemma zlen_flat_render l : zlen (flat_map (fun b => render_block b false) l) = blocks_extent l.
Proof.
  induction l as [|b l IH]; [reflexivity|]. cbn [flat_map]. rewrite zlen_app, IH, zlen_render_block. reflexivity.
Qed.

(* the first four bytes of a rendered block *)
Lemma render_block_shape b last X : block_small b ->
  exists s1 s2 s3, render_block b last ++ X = ((if last then 128 else 0) + bcode b) :: s1 :: s2 :: s3 :: bdata b ++ X /\
    is_byte s1 = true /\ is_byte s2 = true /\ is_byte s3 = true /\ be_decode [s1; s2; s3] = zlen (bdata b).
Proof.
  intros (Hc & Hs & Ho). unfold render_block, block_bytes.
  destruct (be_encode3_shape (zlen (bdata b))) as (s1 & s2 & s3 & E & B1 & B2 & B3).
  exists s1, s2, s3. rewrite E. cbn [app]. repeat split; try assumption.
  rewrite <- E. apply be24_round. pose proof (zlen_nonneg (bdata b)). lia.
Qed.

(* ------------------------------------------------------------------ writer then strict walker *)
Lemma walk_render bs : forall rest fuel, bs <> [] -> Forall block_small bs -> (length bs <= fuel)%nat ->
  walk_blocks fuel (render_blocks bs ++ rest) = Ok (bs, rest).
Proof.
  induction bs as [|b bs IH]; intros rest fuel Hne Hsm Hfuel; [congruence|].
  destruct fuel as [|k]; [cbn [length] in Hfuel; lia|].
  inversion Hsm as [|? ? Hb Hrest]; subst.
  pose proof Hb as (Hc & Hs & Ho). pose proof (zlen_nonneg (bdata b)) as Hn.
  destruct bs as [|b' r].
  - cbn [render_blocks].
    destruct (render_block_shape b true rest Hb) as (s1 & s2 & s3 & E & B1 & B2 & B3 & D).
    rewrite E. cbn [walk_blocks]. rewrite B1, B2, B3, D.
    replace (is_byte (128 + bcode b)) with true by (unfold is_byte; lia).
    cbn [andb negb].
    replace ((128 + bcode b) mod 128) with (bcode b) by lia.
    replace (bcode b =? 127) with false by lia.
    replace (zlen (bdata b ++ rest) <? zlen (bdata b)) with false by (rewrite zlen_app; pose proof (zlen_nonneg rest); lia).
    replace (128 <=? 128 + bcode b) with true by lia.
    rewrite ztake_app_exact, zdrop_app_exact. destruct b as [c d o]. cbn [bovf] in Ho. subst o. reflexivity.
  - rewrite render_blocks_cons, <- app_assoc.
    destruct (render_block_shape b false (render_blocks (b' :: r) ++ rest) Hb) as (s1 & s2 & s3 & E & B1 & B2 & B3 & D).
    rewrite E. cbn [walk_blocks]. rewrite B1, B2, B3, D.
    replace (is_byte (0 + bcode b)) with true by (unfold is_byte; lia).
    cbn [andb negb].
    replace ((0 + bcode b) mod 128) with (bcode b) by lia.
    replace (bcode b =? 127) with false by lia.
    replace (zlen (bdata b ++ render_blocks (b' :: r) ++ rest) <? zlen (bdata b)) with false
      by (rewrite zlen_app; pose proof (zlen_nonneg (render_blocks (b' :: r) ++ rest)); lia).
    replace (128 <=? 0 + bcode b) with false by lia.
    rewrite ztake_app_exact, zdrop_app_exact.
    rewrite IH; [|discriminate|exact Hrest|cbn [length] in *; lia].
    destruct b as [c d o]. cbn [bovf] in Ho. subst o. reflexivity.
Qed.

(* ------------------------------------------------------------------ strict walker then writer *)
Lemma walk_inv fuel : forall d bs rest, walk_blocks fuel d = Ok (bs, rest) ->
  d = render_blocks bs ++ rest /\ bs <> [] /\ Forall block_small bs.
Proof.
  induction fuel as [|k IH]; intros d bs rest H; [discriminate|].
  cbn [walk_blocks] in H.
  destruct d as [|h [|s1 [|s2 [|s3 body]]]]; try discriminate.
  destruct (is_byte h) eqn:Bh; [|discriminate].
  destruct (is_byte s1) eqn:B1; [|discriminate].
  destruct (is_byte s2) eqn:B2; [|discriminate].
  destruct (is_byte s3) eqn:B3; [|discriminate].
  cbn [andb negb] in H.
  destruct (be_encode3_decode s1 s2 s3 B1 B2 B3) as (Eenc & Hrange).
  set (n := be_decode [s1; s2; s3]) in *.
  destruct (h mod 128 =? 127) eqn:E127; [discriminate|].
  destruct (zlen body <? n) eqn:Efit; [discriminate|].
  assert (Hlen : zlen (ztake n body) = n) by (rewrite zlen_ztake by lia; lia).
  assert (Hsmall : block_small (mkB (h mod 128) (ztake n body) (-1))).
  { unfold block_small. cbn [bcode bdata bovf]. rewrite Hlen. unfold is_byte in Bh. repeat split; lia. }
  destruct (128 <=? h) eqn:Elast.
  - inversion H; subst bs rest. split; [|split; [discriminate|constructor; [exact Hsmall|constructor]]].
    cbn [render_blocks]. unfold render_block, block_bytes. cbn [bcode bdata]. rewrite Hlen, Eenc.
    cbn [app]. unfold is_byte in Bh. f_equal; [lia|]. do 3 f_equal. rewrite <- ?app_assoc. symmetry. apply ztake_zdrop.
  - destruct (walk_blocks k (zdrop n body)) as [[bs' rest']|e] eqn:Erec; [|discriminate].
    inversion H; subst bs rest. destruct (IH _ _ _ Erec) as (Hd & Hne & Hall).
    split; [|split; [discriminate|constructor; assumption]].
    destruct bs' as [|b' r]; [congruence|]. rewrite render_blocks_cons.
    unfold render_block at 1, block_bytes. cbn [bcode bdata]. rewrite Hlen, Eenc.
    cbn [app]. unfold is_byte in Bh. f_equal; [lia|]. do 3 f_equal. rewrite <- ?app_assoc, <- Hd. symmetry. apply ztake_zdrop.
Qed.

(* ------------------------------------------------------------------ mutagen's walker on well-formed block lists *)
Lemma block_ok_ovf b : block_ok b = true -> bovf b = -1.
Proof. unfold block_ok. cbv zeta. intros H. apply andb_true_iff in H as [H _]. lia. Qed.

Lemma mut_walk_render bs : forall rest fuel, bs <> [] -> Forall block_small bs -> forallb block_ok bs = true ->
  (length bs <= fuel)%nat -> mut_walk fuel (render_blocks bs ++ rest) = Ok (bs, rest).
Proof.
  induction bs as [|b bs IH]; intros rest fuel Hne Hsm Hok Hfuel; [congruence|].
  destruct fuel as [|k]; [cbn [length] in Hfuel; lia|].
  inversion Hsm as [|? ? Hb Hrest]; subst.
  cbn [forallb] in Hok. apply andb_true_iff in Hok as [Hokb Hokr].
  pose proof Hb as (Hc & Hs & Ho). pose proof (zlen_nonneg (bdata b)) as Hn.
  (* how many bytes mutagen reads for this block, whatever follows *)
  assert (Hext : forall X, (if bcode b =? 4 then vc_extent (bdata b ++ X) else if bcode b =? 6 then pic_extent (bdata b ++ X)
                  else if zlen (bdata b ++ X) <? zlen (bdata b) then Raise EMutagen else Ok (zlen (bdata b))) = Ok (zlen (bdata b))).
  { intros X. unfold block_ok in Hokb. cbv zeta in Hokb. apply andb_true_iff in Hokb as [_ Hokb].
    destruct (bcode b =? 0) eqn:E0; [replace (bcode b =? 4) with false by lia; replace (bcode b =? 6) with false by lia|
    destruct (bcode b =? 1) eqn:E1; [replace (bcode b =? 4) with false by lia; replace (bcode b =? 6) with false by lia|
    destruct (bcode b =? 4) eqn:E4; [|destruct (bcode b =? 5) eqn:E5; [replace (bcode b =? 6) with false by lia|
    destruct (bcode b =? 6) eqn:E6]]]].
    all: try (replace (zlen (bdata b ++ X) <? zlen (bdata b)) with false by (rewrite zlen_app; pose proof (zlen_nonneg X); lia); reflexivity).
    - destruct (vc_extent (bdata b)) as [n|] eqn:Ev; [|discriminate]. apply Z.eqb_eq in Hokb. subst n.
      apply vc_extent_app. exact Ev.
    - destruct (pic_extent (bdata b)) as [n|] eqn:Ev; [|discriminate]. apply Z.eqb_eq in Hokb. subst n.
      apply pic_extent_app. exact Ev. }
  assert (Hovf : (if distrust (bcode b) && (zlen (bdata b) >? MAXSZ) then zlen (bdata b) else -1) = -1).
  { replace (zlen (bdata b) >? MAXSZ) with false by lia. rewrite andb_false_r. reflexivity. }
  destruct bs as [|b' r].
  - cbn [render_blocks].
    destruct (render_block_shape b true rest Hb) as (s1 & s2 & s3 & E & B1 & B2 & B3 & D).
    rewrite E. cbn [mut_walk]. rewrite D.
    replace ((128 + bcode b) mod 128) with (bcode b) by lia.
    rewrite Hext, Hovf.
    replace (128 <=? 128 + bcode b) with true by lia.
    rewrite ztake_app_exact, zdrop_app_exact. destruct b as [c d o]. cbn [bovf] in Ho. subst o. reflexivity.
  - rewrite render_blocks_cons, <- app_assoc.
    destruct (render_block_shape b false (render_blocks (b' :: r) ++ rest) Hb) as (s1 & s2 & s3 & E & B1 & B2 & B3 & D).
    rewrite E. cbn [mut_walk]. rewrite D.
    replace ((0 + bcode b) mod 128) with (bcode b) by lia.
    rewrite Hext, Hovf.
    replace (128 <=? 0 + bcode b) with false by lia.
    rewrite ztake_app_exact, zdrop_app_exact.
    rewrite IH; [|discriminate|exact Hrest|exact Hokr|cbn [length] in *; lia].
    destruct b as [c d o]. cbn [bovf] in Ho. subst o. reflexivity.
Qed.

(* ------------------------------------------------------------------ the prefix in front of the stream marker *)
(* a prefix is recognised by both header readers whatever follows the marker *)
Definition prefix_ok (p : list Z) : Prop :=
  forall X, id3_prefix_len (p ++ MAGIC ++ X) = Ok (zlen p) /\ mut_check_header (p ++ MAGIC ++ X) = Ok (zlen p + 4).

Lemma zlen_MAGIC : zlen MAGIC = 4. Proof. reflexivity. Qed.

Lemma zlen_ID3MAGIC : zlen ID3MAGIC = 3. Proof. reflexivity. Qed.

Lemma prefix_ok_nil : prefix_ok [].
Proof.
  intros X. cbn [app]. split.
  - unfold id3_prefix_len. rewrite starts_with_app. reflexivity.
  - unfold mut_check_header. rewrite starts_with_app.
    replace (zlen (MAGIC ++ X) <? 4) with false; [reflexivity|].
    rewrite zlen_app, zlen_MAGIC. pose proof (zlen_nonneg X). lia.
Qed.

Lemma id3_prefix_inv f off : id3_prefix_len f = Ok off ->
  f = ztake off f ++ MAGIC ++ zdrop (off + 4) f /\ zlen (ztake off f) = off /\ prefix_ok (ztake off f).
Proof.
  unfold id3_prefix_len. destruct (starts_with MAGIC f) eqn:Em.
  - intros H; inversion H; subst off. rewrite ztake_0. cbn [app]. split; [|split; [reflexivity|apply prefix_ok_nil]].
    apply (starts_with_split MAGIC f Em).
  - destruct (starts_with ID3MAGIC f) eqn:Ei; [|discriminate].
    destruct (zlen f <? 10) eqn:E10; [discriminate|].
    destruct (forallb is_7bit (zslice 6 10 f)) eqn:E7; [|discriminate]. cbn [negb].
    set (o := 10 + syncsafe4 (zslice 6 10 f)).
    destruct (starts_with MAGIC (zdrop o f)) eqn:Em2; [|discriminate].
    intros H; inversion H; subst off. clear H.
    pose proof (starts_with_len _ _ Em2) as Hl. rewrite zlen_MAGIC in Hl.
    assert (Hsyn : 0 <= syncsafe4 (zslice 6 10 f)).
    { (* non-negative 7-bit digits *)
      unfold syncsafe4. generalize (zslice 6 10 f) E7. intros l.
      assert (G : forall acc, 0 <= acc -> forallb is_7bit l = true -> 0 <= fold_left (fun a b => a * 128 + b) l acc).
      { induction l as [|x l IHl]; intros acc Ha Hb; cbn [fold_left]; [exact Ha|].
        cbn [forallb] in Hb. apply andb_true_iff in Hb as [Hb1 Hb2]. apply IHl; [unfold is_7bit in Hb1; lia|exact Hb2]. }
      apply G. lia. }
    assert (Ho : 10 <= o) by (unfold o; lia).
    assert (Hof : o + 4 <= zlen f).
    { destruct (Z.le_gt_cases o (zlen f)).
      - rewrite zlen_zdrop in Hl by lia. lia.
      - rewrite zdrop_all in Hl by lia. rewrite zlen_nil in Hl. lia. }
    assert (Hp : zlen (ztake o f) = o) by (rewrite zlen_ztake by lia; lia).
    assert (Hsplit : f = ztake o f ++ MAGIC ++ zdrop (o + 4) f).
    { rewrite <- (ztake_zdrop o f) at 1. f_equal.
      rewrite (starts_with_split MAGIC (zdrop o f) Em2) at 1. f_equal.
      rewrite zlen_MAGIC. rewrite zdrop_zdrop by lia. f_equal. lia. }
    split; [exact Hsplit|]. split; [exact Hp|].
    (* the decision depends on the first ten bytes only *)
    set (p := ztake o f) in *.
    assert (Hfp : forall (a : list Z), zlen a <= 10 -> starts_with a f = starts_with a p).
    { intros a Ha. rewrite Hsplit. apply sw_app. lia. }
    assert (Hsl : zslice 6 10 f = zslice 6 10 p).
    { rewrite Hsplit. apply zslice_app_l; lia. }
    intros X.
    assert (Hm : starts_with MAGIC (p ++ MAGIC ++ X) = false) by (rewrite sw_app by (rewrite zlen_MAGIC; lia); rewrite <- Hfp by (rewrite zlen_MAGIC; lia); exact Em).
    assert (Hi : starts_with ID3MAGIC (p ++ MAGIC ++ X) = true).
    { rewrite sw_app by (rewrite zlen_ID3MAGIC; lia). rewrite <- Hfp by (rewrite zlen_ID3MAGIC; lia). exact Ei. }
    assert (Hs6 : zslice 6 10 (p ++ MAGIC ++ X) = zslice 6 10 f) by (rewrite Hsl; apply zslice_app_l; lia).
    assert (Hlen : zlen (p ++ MAGIC ++ X) = o + 4 + zlen X) by (rewrite !zlen_app, Hp, zlen_MAGIC; lia).
    pose proof (zlen_nonneg X) as HX.
    split.
    + unfold id3_prefix_len. rewrite Hm, Hi, Hs6, E7. cbn [negb].
      replace (zlen (p ++ MAGIC ++ X) <? 10) with false by lia.
      fold o. rewrite <- Hp at 1. rewrite zdrop_app_exact, starts_with_app. rewrite Hp. reflexivity.
    + unfold mut_check_header. rewrite Hm, Hi, Hs6. rewrite map_mod128 by exact E7.
      replace (zlen (p ++ MAGIC ++ X) <? 4) with false by lia.
      replace (zlen (p ++ MAGIC ++ X) <? 10) with false by lia.
      replace (14 + syncsafe4 (zslice 6 10 f)) with (o + 4) by (unfold o; lia).
      replace (zlen (p ++ MAGIC ++ X) <? o + 4) with false by lia.
      replace (o + 4 - 4) with (zlen p) by lia.
      rewrite zdrop_app_exact, starts_with_app. rewrite Hp. reflexivity.
Qed.

(* ------------------------------------------------------------------ whole files *)
Theorem parse_inv f s : flac_parse f = Ok s ->
  f = fprefix s ++ MAGIC ++ render_blocks (fblocks s) ++ faudio s /\
  prefix_ok (fprefix s) /\ fblocks s <> [] /\ Forall block_small (fblocks s).
Proof.
  unfold flac_parse. destruct (id3_prefix_len f) as [off|] eqn:Eo; [|discriminate].
  destruct (walk_blocks (S (length f)) (zdrop (off + 4) f)) as [[bs rest]|] eqn:Ew; [|discriminate].
  intros H; inversion H; subst s. cbn [fprefix fblocks faudio].
  destruct (id3_prefix_inv f off Eo) as (Hs & Hl & Hp).
  destruct (walk_inv _ _ _ _ Ew) as (Hd & Hne & Hall).
  split; [|split; [exact Hp|split; assumption]].
  rewrite <- Hd. exact Hs.
Qed.

Theorem parse_build p bs a : prefix_ok p -> bs <> [] -> Forall block_small bs ->
  flac_parse (p ++ MAGIC ++ render_blocks bs ++ a) = Ok (mkFlac p bs a).
Proof.
  intros Hp Hne Hsm. unfold flac_parse. destruct (Hp (render_blocks bs ++ a)) as [Hid _]. rewrite Hid.
  rewrite ztake_app_exact.
  replace (zdrop (zlen p + 4) (p ++ MAGIC ++ render_blocks bs ++ a)) with (render_blocks bs ++ a).
  - rewrite walk_render; [reflexivity|exact Hne|exact Hsm|].
    rewrite !app_length. pose proof (blocks_extent_ge bs) as Hg. rewrite <- zlen_render_blocks in Hg.
    unfold zlen in Hg. lia.
  - rewrite zdrop_app_r by lia. replace (zlen p + 4 - zlen p) with (zlen MAGIC) by (rewrite zlen_MAGIC; lia).
    rewrite zdrop_app_exact. reflexivity.
Qed.
