(* Proofs.C04_vcomment -- totality of the VComment.load mirror; the comment loop ends with the file. *)
From Coq Require Import ZArith List Bool Lia.
Import ListNotations.
Require Import Base.Py Base.ZList Model.Parse_base Model.Parse_vcomment Proofs.C04_lib.
Open Scope Z_scope.

Section WithD.
Variable d : list Z.
Hypothesis Hd : bytes_ok d.

Definition Ec (e : exc) := e = EMutagen \/ vc_is_cdata_or_type e = true.

Lemma le4_bound l : bytes_ok l -> zlen l = 4 -> 0 <= le_decode l < 4294967296.
Proof. intros H H4. pose proof (le_decode_bound l H) as B. rewrite H4 in B. exact B. Qed.

(* read(4) + cdata.uint_le: either struct.error (short read) or a 32-bit value, 4 bytes further *)
Lemma read_u32_spec p (Q : Z -> Z -> Prop) : 0 <= p ->
  (forall v, 0 <= v < 4294967296 -> p + 4 <= zlen d -> Q v (p + 4)) ->
  pspecE Ec (lb <~ p_read 4 ;; plift (unpack_le 4 lb)) d p Q.
Proof.
  intros Hp HQ. pbind. pread. pose proof (rd_len 4 p d Hp ltac:(lia)) as Hr. set (lb := rd 4 p d) in *.
  apply pspecE_lift. unfold unpack_le. destruct (zlen lb =? 4) eqn:E4.
  - apply Z.eqb_eq in E4. rewrite E4. apply HQ; [|lia]. apply le4_bound; [apply bytes_ok_rd; exact Hd|exact E4].
  - right. reflexivity.
Qed.

Lemma vc_loop_spec : forall fuel i count kept p,
  0 <= p <= zlen d -> zlen d - p < Z.of_nat fuel ->
  pspecE Ec (vc_loop fuel i count kept) d p (fun _ p' => 0 <= p').
Proof.
  induction fuel as [|fuel IH]; intros i count kept p Hp Hf; [lia|].
  cbn [vc_loop]. destruct (count <=? i); [pretn; lia|].
  (* re-associate: (lb <~ read ;; length <~ unpack lb ;; k length) *)
  apply pspecE_bind. pread. pose proof (rd_len 4 p d ltac:(lia) ltac:(lia)) as Hr. set (lb := rd 4 p d) in *.
  pbind. apply pspecE_lift. unfold unpack_le. destruct (zlen lb =? 4) eqn:E4; [|right; reflexivity].
  apply Z.eqb_eq in E4.
  pose proof (le4_bound lb (bytes_ok_rd 4 p d Hd) E4) as Hb. set (length := le_decode lb) in *.
  pbind. eapply pspecE_catch' with (E' := fun _ => False) (Q0 := fun _ p' => p + 4 <= p' <= zlen d).
  - pread. pose proof (rd_len length (p + zlen lb) d ltac:(lia) ltac:(lia)). lia.
  - intros e [].
  - cbv beta. intros string p' Hp'. apply IH; lia.
Qed.

Lemma vc_load_body_spec fuel : zlen d < Z.of_nat fuel -> pspec (vc_load_body fuel) d 0 (fun _ _ => True).
Proof.
  intro Hf. unfold vc_load_body. pose proof (zlen_nonneg d).
  apply pspec_catchM. fold Ec.
  apply pspecE_bind. pread. pose proof (rd_len 4 0 d ltac:(lia) ltac:(lia)) as Hr. set (vb := rd 4 0 d) in *.
  pbind. apply pspecE_lift. unfold unpack_le. destruct (zlen vb =? 4) eqn:E4; [|right; reflexivity].
  apply Z.eqb_eq in E4.
  pose proof (le4_bound vb (bytes_ok_rd 4 0 d Hd) E4) as Hb. set (vl := le_decode vb) in *.
  pbind. pread. pose proof (rd_len vl (0 + zlen vb) d ltac:(lia) ltac:(lia)) as Hr2. set (vendor := rd vl (0 + zlen vb) d) in *.
  set (p1 := 0 + zlen vb + zlen vendor). assert (Hp1 : 0 <= p1) by (unfold p1; pose proof (zlen_nonneg vendor); lia).
  pbind. pread. pose proof (rd_len 4 p1 d Hp1 ltac:(lia)) as Hr3. set (cb := rd 4 p1 d) in *.
  pbind. apply pspecE_lift. unfold unpack_le. destruct (zlen cb =? 4) eqn:E5; [|right; reflexivity].
  apply Z.eqb_eq in E5.
  pbind. eapply pspecE_post; [apply vc_loop_spec; lia|].
  intros kept p2 Hp2. cbv beta.
  pbind. pread. destruct (rd 1 p2 d) as [|b t]; [praiseM|].
  destruct (b mod 2 =? 0); [praiseM|]. pbind. apply pspecE_tell. pretn. exact I.
Qed.
End WithD.

Theorem vcomment_total d : c04_input d -> total (vcomment_load d).
Proof.
  intros [Hb Hl]. unfold vcomment_load. eapply total_prun.
  apply vc_load_body_spec; [exact Hb|apply lin_fuel_gt; lia].
Qed.
