(* C12 (h): Frame._to_other / _upgrade_frame.  The v2.2 -> v2.3/v2.4 upgrade base(self) (and the copy constructor) copies
   the fields by name; when the two classes have the same field names it returns exactly the values of self, the optional
   ones included (to_other_same). *)
From Coq Require Import ZArith List Bool Lia.
Import ListNotations.
Require Import Base.Py Base.ZList Model.Id3Spec Model.Id3Frame.
Open Scope Z_scope.

Fixpoint nodupb (l : list (list Z)) : bool :=
  match l with [] => true | x :: r => negb (existsb (list_eqb x) r) && nodupb r end.

Lemma list_eqb_refl a : list_eqb a a = true.
Proof. apply list_eqb_spec. reflexivity. Qed.
Lemma list_eqb_neq a b : a <> b -> list_eqb a b = false.
Proof. intros H. destruct (list_eqb a b) eqn:E; [|reflexivity]. apply list_eqb_spec in E. contradiction. Qed.

Lemma nodupb_NoDup l : nodupb l = true -> NoDup l.
Proof.
  induction l as [|x r IH]; intros H; [constructor|]. cbn [nodupb] in H. apply andb_true_iff in H as [A B].
  constructor; [|apply IH; exact B]. intros Hin. apply negb_true_iff in A.
  assert (E : existsb (list_eqb x) r = true) by (apply existsb_exists; exists x; split; [exact Hin|apply list_eqb_refl]).
  congruence.
Qed.

Lemma names_eqb_eq a : forall b, names_eqb a b = true -> a = b.
Proof.
  induction a as [|x a IH]; intros [|y b] H; try discriminate; [reflexivity|].
  cbn [names_eqb] in H. apply andb_true_iff in H as [A B]. apply list_eqb_spec in A. subst y. rewrite (IH b B). reflexivity.
Qed.

Lemma field_value_skip pre : forall vpre fs vs name, length pre = length vpre -> ~ In name (names_of pre) ->
  field_value (pre ++ fs) (vpre ++ vs) name = field_value fs vs name.
Proof.
  induction pre as [|p pre IH]; intros [|w vpre] fs vs name L Hn; try discriminate L; [reflexivity|].
  cbn [app field_value]. cbn [names_of map In] in Hn.
  rewrite list_eqb_neq by (intros E; apply Hn; left; exact E).
  apply IH; [injection L as L; exact L|]. intros Hin. apply Hn. right. exact Hin.
Qed.

Lemma copy_fields_gen : forall fs' pre vpre fs vs nmand,
  length pre = length vpre -> names_of fs' = names_of fs -> NoDup (names_of (pre ++ fs)) ->
  (nmand <= length vs)%nat -> (length vs <= length fs)%nat ->
  copy_fields (pre ++ fs) (vpre ++ vs) nmand fs' = Ok vs.
Proof.
  induction fs' as [|f' r' IH]; intros pre vpre fs vs nmand L N D Hm Hl.
  - destruct fs; [|discriminate N]. destruct vs; [reflexivity|cbn in Hl; lia].
  - destruct fs as [|f r]; [discriminate N|]. cbn [names_of map] in N. injection N as Nf Nr.
    assert (Hnot : ~ In (f_name f) (names_of pre)).
    { unfold names_of in D |- *. rewrite map_app in D. cbn [map] in D. apply NoDup_remove_2 in D.
      intros Hin. apply D. apply in_or_app. left. exact Hin. }
    cbn [copy_fields]. rewrite Nf. rewrite (field_value_skip pre vpre (f :: r) vs (f_name f) L Hnot).
    destruct vs as [|v vs'].
    + cbn [field_value]. destruct nmand; [reflexivity|cbn in Hm; lia].
    + cbn [field_value]. rewrite list_eqb_refl.
      replace (pre ++ f :: r) with ((pre ++ [f]) ++ r) by (rewrite <- app_assoc; reflexivity).
      replace (vpre ++ v :: vs') with ((vpre ++ [v]) ++ vs') by (rewrite <- app_assoc; reflexivity).
      rewrite (IH (pre ++ [f]) (vpre ++ [v]) r vs' (Nat.pred nmand)).
      * reflexivity.
      * rewrite !app_length. cbn [length]. lia.
      * exact Nr.
      * rewrite <- app_assoc. exact D.
      * cbn [length] in Hm. lia.
      * cbn [length] in Hl. lia.
Qed.

Theorem to_other_same self other vs :
  nodupb (names_of (all_fields self)) = true ->
  names_eqb (names_of (fr_spec other)) (names_of (fr_spec self)) = true ->
  names_eqb (names_of (fr_opt other)) (names_of (fr_opt self)) = true ->
  (length (fr_spec self) <= length vs)%nat -> (length vs <= length (all_fields self))%nat ->
  to_other self other vs = Ok vs.
Proof.
  intros D A B Hm Hl. unfold to_other. rewrite A, B. cbn [andb].
  apply names_eqb_eq in A. apply names_eqb_eq in B.
  assert (Ls : length (fr_spec other) = length (fr_spec self)).
  { unfold names_of in A. rewrite <- (map_length f_name (fr_spec other)), A, map_length. reflexivity. }
  apply (copy_fields_gen (all_fields other) [] [] (all_fields self) vs (length (fr_spec other))).
  - reflexivity.
  - unfold all_fields, names_of in *. rewrite !map_app, A, B. reflexivity.
  - apply nodupb_NoDup. exact D.
  - lia.
  - exact Hl.
Qed.

(* the upgrade of a three-letter class whose first base class is in the table and has the same field names *)
Theorem upgrade_frame_same tbl fr b rest base vs :
  zlen (fr_id fr) = 3 -> fr_bases fr = b :: rest -> frame_lookup tbl b = Some base ->
  nodupb (names_of (all_fields fr)) = true ->
  names_eqb (names_of (fr_spec base)) (names_of (fr_spec fr)) = true ->
  names_eqb (names_of (fr_opt base)) (names_of (fr_opt fr)) = true ->
  (length (fr_spec fr) <= length vs)%nat -> (length vs <= length (all_fields fr))%nat ->
  upgrade_frame tbl fr vs = Ok (Some (fr_id base, vs)).
Proof.
  intros L Hb Hl D A B Hm Hlen. unfold upgrade_frame. rewrite L. change (3 =? 3) with true. cbv iota.
  rewrite Hb, Hl, (to_other_same fr base vs D A B Hm Hlen). reflexivity.
Qed.
