(* Proofs.C20_signal -- lemmas about Model.Signal: runs of event lists under the SignalHandler state
   machine, for all programs and all schedules (induction over the event list). *)
From Coq Require Import ZArith List Bool Lia.
Import ListNotations.
Require Import Model.Signal.
Open Scope Z_scope.

(* ---- basic facts about one step and about appending ------------------------------------------ *)

Lemma sg_stop_not_finished : forall s e o s', sig_step s e = Stop o s' -> o <> Finished.
Proof.
  intros s e o s' H. destruct e; cbn in H;
    try discriminate;
    try (destruct (nosig s); inversion H; discriminate);
    try (destruct (interrupted s); inversion H; discriminate).
Qed.

Lemma sg_run_app : forall l1 l2 s, r_out (sig_run_from s l1) = Finished ->
  sig_run_from s (l1 ++ l2) =
  mkRes (r_ops (sig_run_from s l1) ++ r_ops (sig_run_from (r_state (sig_run_from s l1)) l2))
        (r_out (sig_run_from (r_state (sig_run_from s l1)) l2))
        (r_state (sig_run_from (r_state (sig_run_from s l1)) l2))
        (r_steps (sig_run_from s l1) + r_steps (sig_run_from (r_state (sig_run_from s l1)) l2)).
Proof.
  induction l1 as [|e l1 IH]; intros l2 s H.
  - cbn. destruct (sig_run_from s l2); reflexivity.
  - cbn [app sig_run_from] in *. destruct (sig_step s e) as [s'|o s'] eqn:E.
    + cbn [r_out r_ops r_state r_steps] in *. rewrite (IH l2 s' H).
      cbn [r_out r_ops r_state r_steps]. rewrite app_assoc. f_equal. lia.
    + cbn in H. subst o. exfalso. exact (sg_stop_not_finished _ _ _ _ E eq_refl).
Qed.

Lemma sg_run_app_stop : forall l1 l2 s, r_out (sig_run_from s l1) <> Finished ->
  sig_run_from s (l1 ++ l2) = sig_run_from s l1.
Proof.
  induction l1 as [|e l1 IH]; intros l2 s H.
  - cbn in H. congruence.
  - cbn [app sig_run_from] in *. destruct (sig_step s e) as [s'|o s'] eqn:E.
    + cbn [r_out] in H. rewrite (IH l2 s' H). reflexivity.
    + reflexivity.
Qed.

(* ---- runs without signals --------------------------------------------------------------------- *)

Lemma sg_run_sigfree : forall p s, interrupted s = false -> sig_free p = true -> sig_noexn p = true ->
  sig_run_from s p = mkRes (sig_fileops p) Finished (mkSg false (sig_flag (nosig s) p)) (Z.of_nat (length p)).
Proof.
  induction p as [|e p IH]; intros s Hi Hf Hx.
  - cbn. destruct s as [i n]. cbn in Hi. subst i. reflexivity.
  - cbn [sig_free sig_noexn forallb] in Hf, Hx.
    apply andb_true_iff in Hf. destruct Hf as [Hf1 Hf]. apply andb_true_iff in Hx. destruct Hx as [Hx1 Hx].
    fold (sig_free p) in Hf. fold (sig_noexn p) in Hx.
    destruct e; cbn in Hf1, Hx1; try discriminate; cbn [sig_run_from sig_step sig_fileops flat_map sig_flag sg_opof].
    + (* Enter *) rewrite (IH (mkSg (interrupted s) true) Hi Hf Hx). cbn [r_ops r_out r_state r_steps nosig app].
      f_equal. cbn [length]. lia.
    + (* Leave *) rewrite Hi. rewrite (IH (mkSg false false) eq_refl Hf Hx). cbn [r_ops r_out r_state r_steps nosig app].
      f_equal. cbn [length]. lia.
    + (* FileOp *) rewrite (IH s Hi Hf Hx). cbn [r_ops r_out r_state r_steps app].
      f_equal. cbn [length]. lia.
    + (* Other *) rewrite (IH s Hi Hf Hx). cbn [r_ops r_out r_state r_steps app].
      f_equal. cbn [length]. lia.
Qed.

(* ---- a signal outside a block ends the run right there --------------------------------------- *)

Lemma sg_unblocked_exits : forall l1 l2 s,
  r_out (sig_run_from s l1) = Finished -> nosig (r_state (sig_run_from s l1)) = false ->
  sig_run_from s (l1 ++ Sig :: l2) =
  mkRes (r_ops (sig_run_from s l1)) Exit (mkSg true false) (r_steps (sig_run_from s l1) + 1).
Proof.
  intros l1 l2 s H N. rewrite (sg_run_app l1 (Sig :: l2) s H).
  cbn [sig_run_from sig_step]. rewrite N. cbn [r_ops r_out r_state r_steps]. rewrite app_nil_r. reflexivity.
Qed.

(* ---- a signal inside a block: the block runs to its Leave, then SystemExit --------------------- *)

Lemma sg_strip_cons_sig : forall l, sig_strip (Sig :: l) = sig_strip l.
Proof. reflexivity. Qed.

Lemma sg_blocked_completes : forall l, sig_prot true (sig_strip l) = true ->
  r_ops (sig_run_from (mkSg true true) l) = sig_fileops (sig_block_rest (sig_strip l)) /\
  r_out (sig_run_from (mkSg true true) l) = Exit /\
  r_state (sig_run_from (mkSg true true) l) = mkSg true false.
Proof.
  induction l as [|e l IH]; intros H.
  - cbn in H. discriminate.
  - destruct e; cbn [sig_strip filter sg_is_sig negb] in *; fold (sig_strip l) in *.
    + (* Sig *) cbn [sig_run_from sig_step nosig interrupted]. destruct (IH H) as (A & B & C).
      cbn [r_ops r_out r_state app sg_opof]. auto.
    + (* Enter *) cbn [sig_prot] in H. cbn [sig_run_from sig_step nosig interrupted]. destruct (IH H) as (A & B & C).
      cbn [r_ops r_out r_state app sg_opof sig_block_rest sig_fileops flat_map]. auto.
    + (* Leave *) cbn. auto.
    + (* FileOp *) cbn [sig_prot andb] in H. cbn [sig_run_from sig_step nosig interrupted]. destruct (IH H) as (A & B & C).
      cbn [r_ops r_out r_state app sg_opof sig_block_rest sig_fileops flat_map]. rewrite A. auto.
    + (* Other *) cbn [sig_prot] in H. cbn [sig_run_from sig_step nosig interrupted]. destruct (IH H) as (A & B & C).
      cbn [r_ops r_out r_state app sg_opof sig_block_rest sig_fileops flat_map]. auto.
    + (* Exn *) cbn in H. discriminate.
Qed.

(* ---- protected programs ---------------------------------------------------------------------- *)

Lemma sg_prot_app : forall pre b rest, sig_prot b (pre ++ rest) = true ->
  sig_prot (sig_flag b pre) rest = true /\ sig_noexn pre = true.
Proof.
  induction pre as [|e pre IH]; intros b rest H.
  - cbn. auto.
  - destruct e; cbn [app sig_prot sig_flag] in *; cbn [sig_noexn forallb sg_is_exn negb andb]; fold (sig_noexn pre);
      try (apply IH; assumption).
    + apply andb_true_iff in H. destruct H as [_ H]. apply IH; assumption.
    + discriminate.
Qed.

Lemma sg_prot_noexn : forall p b, sig_prot b p = true -> sig_noexn p = true.
Proof.
  intros p b H. rewrite <- (app_nil_r p) in H. apply sg_prot_app in H. tauto.
Qed.

Lemma sg_prot_replace_tail : forall pre b r r', sig_prot b (pre ++ r) = true ->
  sig_prot (sig_flag b pre) r' = true -> sig_prot b (pre ++ r') = true.
Proof.
  induction pre as [|e pre IH]; intros b r r' H H'.
  - cbn in *. assumption.
  - destruct e; cbn [app sig_prot sig_flag] in *; try (eapply IH; eassumption).
    + apply andb_true_iff in H. destruct H as [Hb H]. subst b. cbn [andb]. eapply IH; eassumption.
    + discriminate.
Qed.

Lemma sg_block_split : forall p, sig_block_rest p ++ sig_after_block p = p.
Proof.
  induction p as [|e p IH]; [reflexivity|]. destruct e; cbn; try rewrite IH; reflexivity.
Qed.

Lemma sg_prot_block_rest : forall p, sig_prot true p = true -> sig_prot true (sig_block_rest p) = true.
Proof.
  induction p as [|e p IH]; intros H.
  - cbn in H. discriminate.
  - destruct e; cbn [sig_prot sig_block_rest andb] in *; try (apply IH; assumption).
    + reflexivity.
    + discriminate.
Qed.

(* the rest of the block is: a Leave-free body, then the Leave *)
Lemma sg_block_rest_shape : forall p, sig_prot true p = true ->
  exists body, sig_block_rest p = body ++ [Leave] /\ ~ In Leave body.
Proof.
  induction p as [|e p IH]; intros H.
  - cbn in H. discriminate.
  - destruct e; cbn [sig_prot sig_block_rest andb] in *;
      try (destruct (IH H) as (body & E & N); eexists (_ :: body); rewrite E; split;
           [reflexivity | intros [X|X]; [discriminate | exact (N X)]]).
    + exists []. split; [reflexivity | intros []].
    + discriminate.
Qed.

Lemma sg_strip_free : forall l, sig_free (sig_strip l) = true.
Proof.
  induction l as [|e l IH]; [reflexivity|]. destruct e; cbn; assumption.
Qed.

Lemma sg_free_app : forall a b, sig_free (a ++ b) = sig_free a && sig_free b.
Proof. intros. unfold sig_free. apply forallb_app. Qed.

Lemma sg_strip_of_free : forall p, sig_free p = true -> sig_strip p = p.
Proof.
  induction p as [|e p IH]; intros H; [reflexivity|].
  cbn [sig_free forallb] in H. apply andb_true_iff in H. destruct H as [H1 H]. fold (sig_free p) in H.
  cbn [sig_strip filter]. rewrite H1. fold (sig_strip p). rewrite (IH H). reflexivity.
Qed.

Lemma sg_strip_app : forall a b, sig_strip (a ++ b) = sig_strip a ++ sig_strip b.
Proof. intros. unfold sig_strip. apply filter_app. Qed.

Lemma sg_fileops_app : forall a b, sig_fileops (a ++ b) = sig_fileops a ++ sig_fileops b.
Proof. intros. unfold sig_fileops. apply flat_map_app. Qed.

(* ---- the main statement, for the first signal of a run ----------------------------------------- *)

Lemma sg_first_signal : forall pre post,
  sig_free pre = true -> sig_protected (pre ++ sig_strip post) = true ->
  pre ++ sig_strip post = sig_done pre post ++ sig_later pre post /\
  sig_exec (pre ++ Sig :: post) = (sig_fileops (sig_done pre post), Exit) /\
  sig_exec (pre ++ sig_strip post) = (sig_fileops (sig_done pre post) ++ sig_fileops (sig_later pre post), Finished) /\
  sig_protected (sig_done pre post) = true.
Proof.
  intros pre post Hf Hp. unfold sig_protected in *.
  destruct (sg_prot_app _ _ _ Hp) as [Hrest Hx].
  pose proof (sg_run_sigfree pre sg_init eq_refl Hf Hx) as Rpre. cbn [nosig sg_init] in Rpre.
  assert (Hsplit : pre ++ sig_strip post = sig_done pre post ++ sig_later pre post).
  { unfold sig_done, sig_later. destruct (sig_flag false pre).
    - rewrite <- app_assoc. rewrite sg_block_split. reflexivity.
    - reflexivity. }
  assert (Hund : sig_exec (pre ++ sig_strip post) =
                 (sig_fileops (sig_done pre post) ++ sig_fileops (sig_later pre post), Finished)).
  { unfold sig_exec, sig_run. rewrite sg_run_sigfree; [| reflexivity | | eapply sg_prot_noexn; exact Hp].
    - cbn [r_ops r_out]. rewrite Hsplit at 1. rewrite sg_fileops_app. reflexivity.
    - rewrite sg_free_app, Hf, sg_strip_free. reflexivity. }
  split; [exact Hsplit|]. split; [|split; [exact Hund|]].
  - unfold sig_exec, sig_run. rewrite (sg_run_app pre (Sig :: post) sg_init); [| rewrite Rpre; reflexivity].
    rewrite Rpre. cbn [r_ops r_out r_state r_steps]. unfold sig_done.
    destruct (sig_flag false pre) eqn:Fl.
    + cbn [sig_run_from sig_step nosig interrupted]. destruct (sg_blocked_completes post Hrest) as (A & B & C).
      cbn [r_ops r_out sg_opof app]. rewrite A, B, sg_fileops_app. reflexivity.
    + cbn [sig_run_from sig_step nosig interrupted r_ops r_out]. rewrite app_nil_r. reflexivity.
  - unfold sig_done. destruct (sig_flag false pre) eqn:Fl.
    + eapply sg_prot_replace_tail; [exact Hp|]. rewrite Fl. apply sg_prot_block_rest. exact Hrest.
    + rewrite <- (app_nil_r pre). eapply sg_prot_replace_tail; [exact Hp|]. rewrite Fl. reflexivity.
Qed.

(* per-file reading: a file with no operation after the cut point has all its operations executed; a file
   with no operation before it has none executed *)
Lemma sg_on_app : forall f a b, sig_on f (a ++ b) = sig_on f a ++ sig_on f b.
Proof. intros. unfold sig_on. apply filter_app. Qed.

Lemma sg_on_absent : forall f ops, ~ In f (sig_files ops) -> sig_on f ops = [].
Proof.
  induction ops as [|o ops IH]; intros H; [reflexivity|].
  cbn in *. destruct (fst o =? f) eqn:E.
  - apply Z.eqb_eq in E. exfalso. apply H. left. exact E.
  - apply IH. intros X. apply H. right. exact X.
Qed.

Lemma sg_file_whole : forall f done later,
  ~ In f (sig_files (sig_fileops later)) ->
  sig_on f (sig_fileops done) = sig_on f (sig_fileops done ++ sig_fileops later).
Proof.
  intros. rewrite sg_on_app, (sg_on_absent f (sig_fileops later)); [|assumption]. rewrite app_nil_r. reflexivity.
Qed.

(* ---- schedules ------------------------------------------------------------------------------- *)

Lemma sg_strip_repeat : forall n l, sig_strip (repeat Sig n ++ l) = sig_strip l.
Proof. induction n; intros; cbn; auto. Qed.

Lemma sg_weave_strip : forall sched prog, sig_free prog = true -> sig_strip (sig_weave sched prog) = prog.
Proof.
  induction sched as [|n ns IH]; intros prog H.
  - cbn. destruct prog; apply sg_strip_of_free; assumption.
  - destruct prog as [|e es].
    + cbn [sig_weave]. rewrite sg_strip_repeat. apply IH. reflexivity.
    + cbn [sig_weave]. rewrite sg_strip_repeat.
      cbn [sig_free forallb] in H. apply andb_true_iff in H. destruct H as [H1 H]. fold (sig_free es) in H.
      cbn [sig_strip filter]. rewrite H1. fold (sig_strip (sig_weave ns es)). rewrite (IH es H). reflexivity.
Qed.

(* every run with signals is the weave of some schedule into its program *)
Lemma sg_weave_complete : forall l, exists sched, l = sig_weave sched (sig_strip l).
Proof.
  induction l as [|e l IH].
  - exists []. reflexivity.
  - destruct IH as [sched E]. destruct e;
      try (exists (0%nat :: sched); cbn [sig_strip filter sg_is_sig negb sig_weave repeat app];
           fold (sig_strip l); rewrite <- E; reflexivity).
    (* Sig *)
    cbn [sig_strip filter sg_is_sig negb]. fold (sig_strip l).
    destruct sched as [|n ns].
    + exists [1%nat]. cbn [sig_weave] in E. rewrite <- E.
      destruct l; reflexivity.
    + exists (S n :: ns). destruct (sig_strip l) as [|e es]; cbn [sig_weave repeat app] in *; rewrite <- E; reflexivity.
Qed.

Lemma sg_first_sig_split : forall l, sig_has l = true ->
  exists pre post, l = pre ++ Sig :: post /\ sig_free pre = true.
Proof.
  induction l as [|e l IH]; intros H.
  - discriminate.
  - destruct e; cbn [sig_has existsb sg_is_sig orb] in H;
      try (destruct (IH H) as (pre & post & E & F); eexists (_ :: pre), post; rewrite E; split; [reflexivity | exact F]).
    exists [], l. split; reflexivity.
Qed.

(* ---- the hypothesis matters: unprotected file operations can be cut midway ------------------- *)

Lemma sg_unprotected_cut :
  let prog := [FileOp 1 0; FileOp 1 1; FileOp 1 2] in
  let l := [FileOp 1 0; Sig; FileOp 1 1; FileOp 1 2] in
  sig_strip l = prog /\ sig_free prog = true /\ sig_protected prog = false /\
  sig_exec prog = ([(1, 0); (1, 1); (1, 2)], Finished) /\
  sig_exec l = ([(1, 0)], Exit).
Proof. vm_compute. repeat split. Qed.

(* an exception escaping the body leaves _nosig set (no try/finally in block()) *)
Lemma sg_exn_leaves_nosig : forall pre body,
  sig_free pre = true -> sig_noexn pre = true -> sig_free body = true -> sig_noexn body = true ->
  ~ In Leave body ->
  r_out (sig_run (pre ++ Enter :: body ++ [Exn])) = Crashed /\
  nosig (r_state (sig_run (pre ++ Enter :: body ++ [Exn]))) = true /\
  r_ops (sig_run (pre ++ Enter :: body ++ [Exn])) = sig_fileops pre ++ sig_fileops body.
Proof.
  intros pre body Hf Hx Hbf Hbx HL. unfold sig_run.
  pose proof (sg_run_sigfree pre sg_init eq_refl Hf Hx) as Rpre.
  rewrite (sg_run_app pre _ sg_init); [| rewrite Rpre; reflexivity]. rewrite Rpre.
  cbn [r_ops r_out r_state r_steps sig_run_from sig_step interrupted].
  pose proof (sg_run_sigfree body (mkSg false true) eq_refl Hbf Hbx) as Rb.
  rewrite (sg_run_app body [Exn] (mkSg false true)); [| rewrite Rb; reflexivity]. rewrite Rb.
  cbn [r_ops r_out r_state r_steps sig_run_from sig_step nosig sg_opof app].
  assert (Fl : sig_flag true body = true).
  { clear -HL. induction body as [|e b IH]; [reflexivity|]. destruct e; cbn [sig_flag];
      try (apply IH; intros X; apply HL; right; exact X).
    exfalso. apply HL. left. reflexivity. }
  rewrite Fl, app_nil_r. auto.
Qed.
