(* C12 (f): unsynchronised, data-length-indicator and stored-deflate framings of the same field bytes are
   decoded by Frame._fromData to the same result as the plain framing *)
From Coq Require Import ZArith List Bool Lia.
Import ListNotations.
Require Import Base.Py Base.ZList Model.Id3Spec Model.Id3Frame Proofs.C12_ints Proofs.C12_specs.
Open Scope Z_scope.

(* ---------------------------------------------------------------- unsynchronisation *)
Lemma unsynch_decode_unfold l : fr_unsynch_decode l =
  match l with
  | [] => Ok []
  | b :: r =>
    if b =? 255 then
      match r with
      | [] => Raise EValue
      | n :: r' => if 224 <=? n then Raise EValue
                   else if n =? 0 then rcons 255 (fr_unsynch_decode r') else rcons 255 (fr_unsynch_decode r)
      end
    else rcons b (fr_unsynch_decode r)
  end.
Proof. destruct l; reflexivity. Qed.
Lemma unsynch_encode_unfold l : fr_unsynch_encode l =
  match l with
  | [] => []
  | b :: r =>
    if b =? 255 then
      match r with
      | [] => [255; 0]
      | n :: _ => if (224 <=? n) || (n =? 0) then 255 :: 0 :: fr_unsynch_encode r else 255 :: fr_unsynch_encode r
      end
    else b :: fr_unsynch_encode r
  end.
Proof. destruct l; reflexivity. Qed.

Theorem unsynch_roundtrip l : fr_unsynch_decode (fr_unsynch_encode l) = Ok l.
Proof.
  induction l as [|b r IH]; [reflexivity|].
  rewrite unsynch_encode_unfold. destruct (b =? 255) eqn:Eb.
  - apply Z.eqb_eq in Eb. subst b. destruct r as [|n r'].
    + reflexivity.
    + destruct ((224 <=? n) || (n =? 0)) eqn:En.
      * rewrite unsynch_decode_unfold. cbv beta iota. change (255 =? 255) with true. cbv iota.
        change (224 <=? 0) with false. change (0 =? 0) with true. cbv iota. rewrite IH. reflexivity.
      * apply orb_false_iff in En as [E1 E2].
        assert (Hn : (n =? 255) = false) by (apply Z.eqb_neq; apply Z.leb_gt in E1; lia).
        rewrite unsynch_encode_unfold in IH |- *. rewrite Hn in IH |- *.
        rewrite unsynch_decode_unfold. cbv beta iota. change (255 =? 255) with true. cbv iota.
        rewrite E1, E2. rewrite IH. reflexivity.
  - rewrite unsynch_decode_unfold. cbv beta iota. rewrite Eb. rewrite IH. reflexivity.
Qed.

(* ---------------------------------------------------------------- zlib, stored blocks *)
Lemma adler_fold_range l a b : 0 <= a < 65521 -> 0 <= b < 65521 ->
  let st := fold_left adler_step l (a, b) in 0 <= fst st < 65521 /\ 0 <= snd st < 65521.
Proof.
  revert a b; induction l as [|x l IH]; intros a b Ha Hb; cbn [fold_left]; [cbn; lia|].
  unfold adler_step at 2. cbn [fst snd]. apply IH; apply Z.mod_pos_bound; lia.
Qed.
Lemma adler32_range d : 0 <= adler32 d < 256 ^ 4.
Proof.
  unfold adler32. pose proof (adler_fold_range d 1 0 ltac:(lia) ltac:(lia)) as H. cbv zeta in H.
  destruct (fold_left adler_step d (1, 0)) as [a b]. cbn [fst snd] in *. change (256 ^ 4) with 4294967296. lia.
Qed.

Theorem inflate_store d : zlen d <= 65535 -> inflate_stored (zlib_store d) = Ok d.
Proof.
  intros Hd. pose proof (zlen_nonneg d) as Hd0. unfold zlib_store, inflate_stored. cbn [app].
  change ((120 mod 16 =? 8) && (120 / 16 <=? 7) && ((120 * 256 + 1) mod 31 =? 0) && ((1 / 32) mod 2 =? 0)) with true.
  cbn [negb]. set (n := zlen d) in *.
  set (tail := d ++ be_encode 4 (adler32 d)).
  cbn [length stored_blocks].
  change ((1 / 2) mod 4 =? 0) with true. cbn [negb].
  replace (n mod 256 + 256 * (n / 256) + ((65535 - n) mod 256 + 256 * ((65535 - n) / 256)) =? 65535) with true
    by (symmetry; apply Z.eqb_eq; zlia).
  cbn [negb].
  assert (Lt : zlen tail = n + 4) by (unfold tail; rewrite zlen_app, zlen_be_encode; subst n; lia).
  replace (n mod 256 + 256 * (n / 256)) with n by zlia.
  replace (zlen tail <? n) with false by (symmetry; apply Z.ltb_ge; lia).
  change (1 mod 2 =? 1) with true. cbv iota.
  unfold tail. rewrite (ztake_app_len n), (zdrop_app_len n) by reflexivity.
  rewrite zlen_be_encode. change (4 <=? Z.of_nat 4) with true.
  rewrite ztake_all by (rewrite zlen_be_encode; lia).
  rewrite be_decode_encode by apply adler32_range. rewrite Z.eqb_refl. reflexivity.
Qed.

(* ---------------------------------------------------------------- Frame._fromData *)
Section FromData.
Variable sub : list Z -> result (value * list Z).

(* v2.4: frame-level unsynchronisation flag, tag-level unsynchronisation flag, data length indicator,
   compression (+ data length indicator), and their combination; v2.3: compression *)
Theorem input_framings_agree fr d dl : zlen dl = 4 -> zlen d <= 65535 ->
  let plain4 := from_data sub 4 false fr 0 d in
  let plain3 := from_data sub 3 false fr 0 d in
  from_data sub 4 false fr 2 (fr_unsynch_encode d) = plain4 /\
  from_data sub 4 true fr 0 (fr_unsynch_encode d) = plain4 /\
  from_data sub 4 false fr 1 (dl ++ d) = plain4 /\
  from_data sub 4 false fr 3 (dl ++ fr_unsynch_encode d) = plain4 /\
  from_data sub 4 false fr 9 (dl ++ zlib_store d) = plain4 /\
  from_data sub 4 false fr 11 (dl ++ fr_unsynch_encode (zlib_store d)) = plain4 /\
  from_data sub 3 false fr 128 (dl ++ zlib_store d) = plain3 /\
  plain4 = frame_read sub 4 fr d /\ plain3 = frame_read sub 3 fr d.
Proof.
  intros Hdl Hd. cbv zeta. unfold from_data. cbv beta.
  change (4 <=? 4) with true. change (4 <=? 3) with false. change (3 <=? 3) with true. cbv iota.
  unfold has_flag.
  repeat match goal with |- context [(?a / ?b) mod 2 =? 1] =>
    let v := eval vm_compute in ((a / b) mod 2 =? 1) in change ((a / b) mod 2 =? 1) with v end.
  cbn [orb andb]. cbv iota.
  rewrite !(ztake_app_len 4), !(zdrop_app_len 4) by exact Hdl.
  rewrite !unsynch_roundtrip. rewrite !inflate_store by exact Hd.
  pose proof (zlen_nonneg (zlib_store d)).
  assert (L : (zlen (dl ++ zlib_store d) <? 4) = false).
  { apply Z.ltb_ge. rewrite zlen_app. lia. }
  rewrite L. unfold inflate_or_junk. rewrite inflate_store by exact Hd.
  repeat split; reflexivity.
Qed.
End FromData.
