(* C05 -- MPEG Layer III: the duration reported from Xing/Info (+LAME) and VBRI headers is the header's frame
   count times the samples per frame (minus encoder delay and padding), for all 32-bit counts. *)
From Coq Require Import ZArith List Bool Lia.
Import ListNotations.
Require Import Base.Py Base.ZList Model.InfoBase Model.InfoMpeg Model.InfoXing Gen.Gen_tables Proofs.C05_bits Proofs.C05_mpeg.
Open Scope Z_scope.

(* ------------------------------------------------------------------ finite part: every Layer III header *)
Lemma vbr_all_checked : forallb vbr_check mpeg_l3_domain = true.
Proof. vm_compute. reflexivity. Qed.

Lemma mpeg_l3_domain_In vb bri sri pad mode :
  In vb [0; 2; 3] -> 1 <= bri <= 14 -> 0 <= sri <= 2 -> 0 <= pad <= 1 -> 0 <= mode <= 3 ->
  In (mkMpeg vb 1 1 bri sri pad 0 mode 0) mpeg_l3_domain.
Proof.
  intros Hv Hb Hs Hp Hm. unfold mpeg_l3_domain.
  apply in_flat_map; exists vb; split; [exact Hv|].
  apply in_flat_map; exists bri; split; [apply zrange_In; lia|].
  apply in_flat_map; exists sri; split; [apply zrange_In; lia|].
  apply in_flat_map; exists pad; split; [apply zrange_In; lia|].
  apply (in_map (fun mode => mkMpeg vb 1 1 bri sri pad 0 mode 0)). apply zrange_In; lia.
Qed.

Definition vbr_statement (p : mpeg_p) : Prop :=
  let spf := spec_mpeg_samples_per_frame p in let sr := spec_mpeg_rate p in
  decode_mpeg_vbr (build_tag_frame p (spec_xing_offset p) (build_xing_tag xing_sample_1 ++ lame_sample)) =
    Ok (expected_mpeg p ++ [1; 1000; 2000000; 1; 576; 1105; spf * 1000 - 576 - 1105; sr]) /\
  decode_mpeg_vbr (build_tag_frame p (spec_xing_offset p) (build_xing_tag xing_sample_2)) =
    Ok (expected_mpeg p ++ [2; 4294967295; -1; 0; 0; 0; spf * 4294967295; sr]) /\
  decode_mpeg_vbr (build_tag_frame p 36 (build_vbri_tag 0 75 123456 7890 3 1 2 100)) =
    Ok (expected_mpeg p ++ [3; 7890; 123456; 0; 0; 0; spf * 7890; sr]) /\
  decode_mpeg_vbr (build_mpeg_frame p) = Ok (expected_mpeg p ++ vbr_none).

Lemma vbr_check_true p : vbr_check p = true -> vbr_statement p.
Proof.
  unfold vbr_check, vbr_statement. cbv zeta. rewrite !andb_true_iff. intros [[[A B] C] D].
  repeat split; apply result_list_eqb_eq; assumption.
Qed.

(* the tag is found at the offset the side-information size prescribes, for every Layer III header *)
Theorem mpeg_vbr_all_headers vb bri sri pad mode :
  In vb [0; 2; 3] -> 1 <= bri <= 14 -> 0 <= sri <= 2 -> 0 <= pad <= 1 -> 0 <= mode <= 3 ->
  vbr_statement (mkMpeg vb 1 1 bri sri pad 0 mode 0).
Proof.
  intros Hv Hb Hs Hp Hm. apply vbr_check_true.
  apply (proj1 (forallb_forall vbr_check mpeg_l3_domain) vbr_all_checked).
  apply mpeg_l3_domain_In; assumption.
Qed.

(* ------------------------------------------------------------------ symbolic part: the tag parsers *)

Lemma lame_version_399r vm lp delay padding rest :
  lame_parse_version (firstn 20 (build_lame_tag lame399r vm lp delay padding ++ rest)) = Some (3, 99, true).
Proof. reflexivity. Qed.

Theorem xing_lame_tag spf sr off pre info frames bytes toc scale vm lp delay padding rest :
  zlen pre = off -> 0 <= frames < 4294967296 -> opt_u32 bytes -> opt_u32 scale ->
  0 <= vm < 16 -> 0 <= lp < 256 -> 0 <= delay < 4096 -> 0 <= padding < 4096 ->
  decode_vbr_tags spf sr off
    (pre ++ build_xing_tag (mkXing info (Some frames) bytes toc scale) ++ build_lame_tag lame399r vm lp delay padding ++ rest) =
  [if info then 2 else 1; frames; opt_val bytes; 1; delay; padding; Z.max 0 (spf * frames - delay - padding); sr].
Proof.
  intros Hpre Hf Hb Hs Hvm Hlp Hd Hp.
  unfold decode_vbr_tags.
  rewrite zdrop_c_app by exact Hpre.
  destruct info, bytes as [by_|], toc, scale as [sc|]; cbn [opt_u32] in Hb, Hs;
    unfold build_xing_tag, build_lame_tag, lame399r, ascii_Info, ascii_Xing, opt_flag, opt_be4, opt_val;
    cbn [xg_info xg_frames xg_bytes xg_toc xg_scale].
  all: repeat first [ rewrite if_true by (lia || reflexivity) | rewrite if_false by (lia || reflexivity)
                    | progress cbv beta iota zeta | progress layout ].
  all: match goal with |- context [lame_parse_version ?l] => replace (lame_parse_version l) with (Some (3, 99, true)) by reflexivity end.
  all: repeat first [ rewrite if_true by (lia || reflexivity) | rewrite if_false by (lia || reflexivity)
                    | progress cbv beta iota zeta | progress layout ].
  all: decode_encode.
  all: assert (Hdl : ((delay * 4096 + padding) / 256 / 256) mod 256 * 16 + ((delay * 4096 + padding) / 256) mod 256 / 16 = delay) by lia.
  all: assert (Hpd : (((delay * 4096 + padding) / 256) mod 256) mod 16 * 256 + (delay * 4096 + padding) mod 256 = padding) by lia.
  all: rewrite Hdl, Hpd.
  all: destruct (spf * frames - delay - padding <? 0) eqn:E; [rewrite Z.max_l by lia | rewrite Z.max_r by lia]; reflexivity.
Qed.

