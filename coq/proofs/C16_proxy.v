(* C16: the exact-key proxy (DictProxy / ID3Tags) and the case-insensitive proxy (_CIDictProxy + APEv2)
   refine the reference map at the primitive level; the generic theorems do the rest. *)
From Coq Require Import ZArith List Bool Lia.
Import ListNotations.
Require Import Base.Py Base.ZList Model.Dict Proofs.C16_pydict Proofs.C16_generic.
Open Scope Z_scope.

(* looking up in a dictionary whose values were mapped (the new value may depend on the key) *)
Lemma pd_find_mapv {A B} (f : key -> A -> B) (d : list (key * A)) k :
  pd_find k (map (fun p => (fst p, f (fst p) (snd p))) d) = option_map (f k) (pd_find k d).
Proof.
  induction d as [|[k' a] d IH]; cbn; auto.
  deq k k'; [subst; reflexivity | exact IH].
Qed.
Lemma pd_mem_mapv {A B} (f : key -> A -> B) (d : list (key * A)) k :
  pd_mem k (map (fun p => (fst p, f (fst p) (snd p))) d) = pd_mem k d.
Proof. unfold pd_mem. rewrite pd_find_mapv. destruct (pd_find k d); reflexivity. Qed.
Lemma pd_remove_mapv {A B} (f : key -> A -> B) (d : list (key * A)) k :
  pd_remove k (map (fun p => (fst p, f (fst p) (snd p))) d) =
  map (fun p => (fst p, f (fst p) (snd p))) (pd_remove k d).
Proof.
  unfold pd_remove. induction d as [|[k' a] d IH]; cbn; auto.
  destruct (list_eqb k k'); cbn; rewrite IH; reflexivity.
Qed.
Lemma pd_set_mapv {A B} (f : key -> A -> B) (d : list (key * A)) k a :
  pd_set k (f k a) (map (fun p => (fst p, f (fst p) (snd p))) d) =
  map (fun p => (fst p, f (fst p) (snd p))) (pd_set k a d).
Proof.
  induction d as [|[k' a'] d IH]; cbn; auto.
  deq k k'; cbn; [subst; reflexivity | rewrite IH; reflexivity].
Qed.
Lemma map_fst_mapv {A B} (f : key -> A -> B) (d : list (key * A)) :
  map fst (map (fun p => (fst p, f (fst p) (snd p))) d) = map fst d.
Proof. rewrite map_map. reflexivity. Qed.

(* ---------------------------------------------------------------------------------------- *)
(* DictProxy / ID3Tags *)
Definition id3_inv (s : id3_state) : Prop := NoDup (map fst s).

Lemma id3_spec_ok : spec_ok id3_spec.
Proof. intros k nk H. exact H. Qed.

Lemma id3_abs_wf s : id3_inv s -> ref_wf id3_spec (id3_abs s).
Proof.
  intros ND. unfold id3_abs. split.
  - rewrite map_map. exact ND.
  - intros e He. apply in_map_iff in He as [p [E _]]. subst e. reflexivity.
Qed.

Theorem id3_prim_refines : prim_refines ID3D (RefD id3_spec) id3_inv id3_abs.
Proof.
  split.
  - intros s _. cbn. unfold pd_keys, ref_keys, id3_abs. rewrite map_map. reflexivity.
  - intros s k _. cbn. unfold dp_get, ref_get. cbn.
    unfold id3_abs. rewrite (pd_find_mapv (fun k a => (k, a))).
    destruct (pd_find k s); reflexivity.
  - intros s k v H. cbn [d_set ID3D RefD]. unfold id3_set, ref_set. cbn [r_key r_val id3_spec].
    destruct v as [hk p|x].
    + unfold sim, dp_set, ref_put. cbn [fst snd r_append r_disp id3_spec].
      split; [reflexivity|]. split; [|apply pd_set_nodup; exact H].
      unfold id3_abs. rewrite <- (pd_set_mapv (fun k a => (k, a))). reflexivity.
    + repeat split; auto.
  - intros s k H. cbn [d_del ID3D RefD]. unfold dp_del, ref_del. cbn [r_key id3_spec].
    unfold id3_abs. rewrite (pd_mem_mapv (fun k a => (k, a))).
    destruct (pd_mem k s).
    + unfold sim. cbn [fst snd]. split; [reflexivity|]. split; [|apply pd_remove_nodup; exact H].
      rewrite (pd_remove_mapv (fun k a => (k, a))). reflexivity.
    + repeat split; auto.
Qed.

Theorem id3_refines ops s : id3_inv s ->
  outputs (dm_step ID3D) s ops = outputs (ref_step id3_spec) (id3_abs s) ops /\
  id3_abs (final (dm_step ID3D) s ops) = final (ref_step id3_spec) (id3_abs s) ops.
Proof.
  intros H. apply (run_refines id3_spec id3_spec_ok ID3D id3_inv id3_abs id3_prim_refines).
  split; [exact H | apply id3_abs_wf; exact H].
Qed.

Theorem fid3_refines ops f : oinv id3_inv f ->
  outputs (dm_step (FileProxy ID3D [])) f ops = outputs (fref_step id3_spec) (option_map id3_abs f) ops /\
  option_map id3_abs (final (dm_step (FileProxy ID3D [])) f ops) =
  final (fref_step id3_spec) (option_map id3_abs f) ops.
Proof.
  intros H.
  apply (frun_refines id3_spec id3_spec_ok ID3D id3_inv id3_abs [] id3_prim_refines).
  - constructor.
  - reflexivity.
  - split; [exact H|]. destruct f as [s|]; cbn; [apply id3_abs_wf; exact H | exact I].
Qed.

(* ID3Tags.add stores the frame under its own HashKey *)
Lemma id3_add_is_set s hk p : id3_add s (IFrame hk p) = id3_set s hk (IFrame hk p).
Proof. reflexivity. Qed.
Lemma id3_add_get s hk p : dp_get (snd (id3_add s (IFrame hk p))) hk = Ok (IFrame hk p).
Proof. cbn. unfold dp_get. rewrite pd_find_set_same. reflexivity. Qed.
Lemma id3_add_rejects s x : id3_add s (INotFrame x) = (Raise EType, s).
Proof. reflexivity. Qed.

(* delall(key) when key is present removes exactly that key *)
Lemma id3_delall_exact s k : pd_mem k s = true -> id3_delall s k = pd_remove k s.
Proof.
  intros H. unfold id3_delall, dm_contains. cbn [d_get ID3D]. unfold dp_get, dp_del.
  unfold pd_mem in *. destruct (pd_find k s); [|discriminate]. cbn. reflexivity.
Qed.

(* ---------------------------------------------------------------------------------------- *)
(* _CIDictProxy + APEv2 *)
Lemma ape_spec_ok : spec_ok ape_spec.
Proof. intros k nk H. exact H. Qed.

Definition ape_disp (cm : list (key * key)) (lk : key) : key :=
  match pd_find lk cm with Some k => k | None => lk end.
Definition ape_abs' (cm : list (key * key)) (d : list (key * (Z * list Z))) : refmap (Z * list Z) :=
  map (fun p => (fst p, (ape_disp cm (fst p), snd p))) d.
Lemma ape_abs_eq s : ape_abs s = ape_abs' (ci_casemap s) (ci_dict s).
Proof. reflexivity. Qed.
Lemma abs'_find cm d k :
  pd_find k (ape_abs' cm d) = option_map (fun w => (ape_disp cm k, w)) (pd_find k d).
Proof. exact (pd_find_mapv (fun x w => (ape_disp cm x, w)) d k). Qed.
Lemma abs'_mem cm d k : pd_mem k (ape_abs' cm d) = pd_mem k d.
Proof. exact (pd_mem_mapv (fun x w => (ape_disp cm x, w)) d k). Qed.
Lemma abs'_remove cm d k : pd_remove k (ape_abs' cm d) = ape_abs' cm (pd_remove k d).
Proof. exact (pd_remove_mapv (fun x w => (ape_disp cm x, w)) d k). Qed.
Lemma abs'_keys cm d : map fst (ape_abs' cm d) = map fst d.
Proof. exact (map_fst_mapv (fun x w => (ape_disp cm x, w)) d). Qed.

Lemma ape_abs_wf s : ape_inv s -> ref_wf ape_spec (ape_abs s).
Proof.
  intros (ND & NC & MEM & VAL). split.
  - rewrite ape_abs_eq, abs'_keys. exact ND.
  - intros e He. rewrite ape_abs_eq in He. unfold ape_abs' in He.
    apply in_map_iff in He as [[lk w] [E Hp]]. subst e.
    cbn [fst snd]. cbn [r_key ape_spec]. unfold ape_disp.
    destruct (pd_find lk (ci_casemap s)) as [k|] eqn:EF.
    + destruct (VAL lk k EF) as [V L]. rewrite V, L. reflexivity.
    + exfalso. assert (M : pd_mem lk (ci_dict s) = true).
      { apply pd_mem_in. apply (in_map fst) in Hp. exact Hp. }
      rewrite <- MEM in M. unfold pd_mem in M. rewrite EF in M. discriminate.
Qed.

(* changing the casemap at lk does not affect the entries of other keys *)
Lemma ape_map_ext (cm cm' : list (key * key)) (d : list (key * (Z * list Z))) lk :
  (forall x, x <> lk -> pd_find x cm' = pd_find x cm) -> ~ In lk (map fst d) ->
  ape_abs' cm' d = ape_abs' cm d.
Proof.
  intros H N. unfold ape_abs'. apply map_ext_in. intros [x w] Hp. cbn [fst snd]. unfold ape_disp.
  rewrite H; auto. intros E. subst x. apply N. apply (in_map fst) in Hp. exact Hp.
Qed.

Lemma ape_abs_set cm d lk k w : NoDup (map fst d) ->
  ape_abs' (pd_set lk k cm) (pd_set lk w d) = pd_set lk (k, w) (ape_abs' cm d).
Proof.
  unfold ape_abs'.
  assert (O : forall x, x <> lk -> pd_find x (pd_set lk k cm) = pd_find x cm).
  { intros x Hx. apply pd_find_set_other. congruence. }
  induction d as [|[k' w'] d IH]; intros ND; cbn.
  - unfold ape_disp. rewrite pd_find_set_same. reflexivity.
  - inversion ND; subst. deq lk k'; cbn.
    + subst k'. unfold ape_disp at 1. rewrite pd_find_set_same. f_equal.
      apply (ape_map_ext cm (pd_set lk k cm) d lk); auto.
    + rewrite IH by auto. f_equal. unfold ape_disp. rewrite O; auto.
  Qed.

Lemma ape_abs_remove cm d lk :
  ape_abs' (pd_remove lk cm) (pd_remove lk d) = pd_remove lk (ape_abs' cm d).
Proof.
  rewrite abs'_remove.
  apply ape_map_ext with (lk := lk).
  - intros x Hx. apply pd_find_remove_other. congruence.
  - rewrite pd_remove_in. tauto.
Qed.

Ltac same H := unfold sim; cbn [fst snd]; split; [reflexivity | split; [reflexivity | exact H]].

Theorem ape_prim_refines : prim_refines APE (RefD ape_spec) ape_inv ape_abs.
Proof.
  split.
  - intros s _. cbn. unfold ci_keys, pd_keys, ref_keys, ape_abs. rewrite !map_map. reflexivity.
  - intros s k _. cbn. unfold ape_get, ref_get. cbn [r_key r_out ape_spec].
    destruct (ape_valid k); cbn [negb]; [|reflexivity].
    unfold ci_get. rewrite ape_abs_eq, abs'_find.
    destruct (pd_find (lower k) (ci_dict s)); reflexivity.
  - intros s k v H. cbn [d_set APE RefD]. unfold ape_set, ref_set. cbn [r_key r_val ape_spec].
    destruct (ape_valid k) eqn:EV; cbn [negb]; [|same H].
    destruct (ape_conv v) as [w|e]; cbn [rmap]; [|same H].
    pose proof H as (ND & NC & MEM & VAL).
    unfold sim, ci_set, ref_put. cbn [fst snd r_append r_disp ape_spec].
    split; [reflexivity|]. split.
    + rewrite !ape_abs_eq. cbn [ci_casemap ci_dict]. apply ape_abs_set. exact ND.
    + unfold ape_inv. cbn [ci_casemap ci_dict]. repeat split.
      * apply pd_set_nodup; auto.
      * apply pd_set_nodup; auto.
      * intros x. deq (lower k) x.
        -- subst x. rewrite !pd_mem_set_same. reflexivity.
        -- rewrite !pd_mem_set_other by auto. apply MEM.
      * deq (lower k) lk.
        -- subst lk. rewrite pd_find_set_same in H0. inversion H0; subst. exact EV.
        -- rewrite pd_find_set_other in H0 by auto. apply (VAL lk k0 H0).
      * deq (lower k) lk.
        -- subst lk. rewrite pd_find_set_same in H0. inversion H0; subst. reflexivity.
        -- rewrite pd_find_set_other in H0 by auto. apply (VAL lk k0 H0).
  - intros s k H. cbn [d_del APE RefD]. unfold ape_del, ref_del. cbn [r_key ape_spec].
    destruct (ape_valid k) eqn:EV; cbn [negb]; [|same H].
    pose proof H as (ND & NC & MEM & VAL).
    unfold ci_del. rewrite ape_abs_eq, abs'_mem, MEM.
    destruct (pd_mem (lower k) (ci_dict s)) eqn:EM.
    + unfold sim. cbn [fst snd]. split; [reflexivity|]. split.
      * rewrite ape_abs_eq. cbn [ci_casemap ci_dict]. apply ape_abs_remove.
      * unfold ape_inv. cbn [ci_casemap ci_dict]. repeat split.
        -- apply pd_remove_nodup; auto.
        -- apply pd_remove_nodup; auto.
        -- intros x. deq (lower k) x.
           ++ subst x. rewrite !pd_mem_remove_same. reflexivity.
           ++ rewrite !pd_mem_remove_other by auto. apply MEM.
        -- deq (lower k) lk.
           ++ subst lk. rewrite pd_find_remove_same in H0. discriminate.
           ++ rewrite pd_find_remove_other in H0 by auto. apply (VAL lk k0 H0).
        -- deq (lower k) lk.
           ++ subst lk. rewrite pd_find_remove_same in H0. discriminate.
           ++ rewrite pd_find_remove_other in H0 by auto. apply (VAL lk k0 H0).
    + same H.
Qed.

Lemma ape_empty_inv : ape_inv ape_empty.
Proof.
  unfold ape_inv, ape_empty. cbn. repeat split; try constructor; intros; discriminate.
Qed.

Theorem ape_refines ops s : ape_inv s ->
  outputs (dm_step APE) s ops = outputs (ref_step ape_spec) (ape_abs s) ops /\
  ape_abs (final (dm_step APE) s ops) = final (ref_step ape_spec) (ape_abs s) ops.
Proof.
  intros H. apply (run_refines ape_spec ape_spec_ok APE ape_inv ape_abs ape_prim_refines).
  split; [exact H | apply ape_abs_wf; exact H].
Qed.

Theorem fape_refines ops f : oinv ape_inv f ->
  outputs (dm_step (FileProxy APE ape_empty)) f ops = outputs (fref_step ape_spec) (option_map ape_abs f) ops /\
  option_map ape_abs (final (dm_step (FileProxy APE ape_empty)) f ops) =
  final (fref_step ape_spec) (option_map ape_abs f) ops.
Proof.
  intros H.
  apply (frun_refines ape_spec ape_spec_ok APE ape_inv ape_abs ape_empty ape_prim_refines).
  - exact ape_empty_inv.
  - reflexivity.
  - split; [exact H|]. destruct f as [s|]; cbn; [apply ape_abs_wf; exact H | exact I].
Qed.
