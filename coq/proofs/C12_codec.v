(* C12 (a): text codec lemmas -- decode (encode s) = s for Latin-1, UTF-8, UTF-16 (LE with BOM, BE) over all valid
   code points incl. the astral planes; no embedded terminator; decode_terminated / EncodedTextSpec round trip *)
From Coq Require Import ZArith List Bool Lia.
Import ListNotations.
Require Import Base.Py Base.ZList Model.Id3Spec Proofs.C12_ints.
Open Scope Z_scope.

Lemma valid_cp_spec c : valid_cp c = true <-> (0 <= c < 1114112 /\ ~ (55296 <= c < 57344)).
Proof.
  unfold valid_cp.
  destruct (0 <=? c) eqn:A; [apply Z.leb_le in A|apply Z.leb_gt in A];
  destruct (c <? 1114112) eqn:B; [apply Z.ltb_lt in B|apply Z.ltb_ge in B|apply Z.ltb_lt in B|apply Z.ltb_ge in B];
  destruct (55296 <=? c) eqn:C; [apply Z.leb_le in C|apply Z.leb_gt in C|apply Z.leb_le in C|apply Z.leb_gt in C
                                |apply Z.leb_le in C|apply Z.leb_gt in C|apply Z.leb_le in C|apply Z.leb_gt in C];
  destruct (c <? 57344) eqn:D; [apply Z.ltb_lt in D|apply Z.ltb_ge in D|apply Z.ltb_lt in D|apply Z.ltb_ge in D
                               |apply Z.ltb_lt in D|apply Z.ltb_ge in D|apply Z.ltb_lt in D|apply Z.ltb_ge in D
                               |apply Z.ltb_lt in D|apply Z.ltb_ge in D|apply Z.ltb_lt in D|apply Z.ltb_ge in D
                               |apply Z.ltb_lt in D|apply Z.ltb_ge in D|apply Z.ltb_lt in D|apply Z.ltb_ge in D];
  cbn; split; intros H; try discriminate; try reflexivity; try lia.
Qed.

(* decide every integer comparison in the goal by lia (with div/mod by constants) *)
Ltac decide_cmp :=
  repeat match goal with
  | |- context [?a <? ?b] =>
    first [ let Hc := fresh in assert (Hc : (a <? b) = true) by (apply Z.ltb_lt; zlia); rewrite Hc; clear Hc
          | let Hc := fresh in assert (Hc : (a <? b) = false) by (apply Z.ltb_ge; zlia); rewrite Hc; clear Hc ]
  | |- context [?a <=? ?b] =>
    first [ let Hc := fresh in assert (Hc : (a <=? b) = true) by (apply Z.leb_le; zlia); rewrite Hc; clear Hc
          | let Hc := fresh in assert (Hc : (a <=? b) = false) by (apply Z.leb_gt; zlia); rewrite Hc; clear Hc ]
  | |- context [?a =? ?b] =>
    first [ let Hc := fresh in assert (Hc : (a =? b) = true) by (apply Z.eqb_eq; zlia); rewrite Hc; clear Hc
          | let Hc := fresh in assert (Hc : (a =? b) = false) by (apply Z.eqb_neq; zlia); rewrite Hc; clear Hc ]
  end.

(* one-step unfolding of the decoders (cbn would unfold the recursive calls on literal lists as well) *)
Lemma utf8_decode_unfold l : utf8_decode l =
  match l with
  | [] => Ok []
  | b0 :: r =>
    if (b0 <? 0) then Raise EUnicode
    else if b0 <? 128 then rcons b0 (utf8_decode r)
    else if b0 <? 194 then Raise EUnicode
    else if b0 <? 224 then
      match r with
      | b1 :: r1 => if is_cont b1 then rcons ((b0 - 192) * 64 + (b1 - 128)) (utf8_decode r1) else Raise EUnicode
      | _ => Raise EUnicode
      end
    else if b0 <? 240 then
      match r with
      | b1 :: b2 :: r2 =>
        let c := (b0 - 224) * 4096 + (b1 - 128) * 64 + (b2 - 128) in
        if is_cont b1 && is_cont b2 && (2048 <=? c) && valid_cp c then rcons c (utf8_decode r2) else Raise EUnicode
      | _ => Raise EUnicode
      end
    else if b0 <? 245 then
      match r with
      | b1 :: b2 :: b3 :: r3 =>
        let c := (b0 - 240) * 262144 + (b1 - 128) * 4096 + (b2 - 128) * 64 + (b3 - 128) in
        if is_cont b1 && is_cont b2 && is_cont b3 && (65536 <=? c) && valid_cp c then rcons c (utf8_decode r3) else Raise EUnicode
      | _ => Raise EUnicode
      end
    else Raise EUnicode
  end.
Proof. destruct l; reflexivity. Qed.
Lemma u16_term_unfold be l : u16_term be l =
  match l with
  | [] => Ok ([], None)
  | b0 :: l1 =>
    match l1 with
    | [] => Raise EUnicode
    | b1 :: r =>
      let u := unit_of be b0 b1 in
      if u =? 0 then Ok ([], Some r)
      else if (55296 <=? u) && (u <? 56320) then
        match r with
        | c0 :: r1 =>
          match r1 with
          | c1 :: r2 =>
            let u2 := unit_of be c0 c1 in
            if (56320 <=? u2) && (u2 <? 57344)
            then tcons (65536 + (u - 55296) * 1024 + (u2 - 56320)) (u16_term be r2) else Raise EUnicode
          | [] => Raise EUnicode
          end
        | [] => Raise EUnicode
        end
      else if (56320 <=? u) && (u <? 57344) then Raise EUnicode
      else tcons u (u16_term be r)
    end
  end.
Proof. destruct l; reflexivity. Qed.

(* ---------------------------------------------------------------- UTF-8 *)
Lemma utf8_dec_enc1 c r : valid_cp c = true -> utf8_decode (utf8_enc1 c ++ r) = rcons c (utf8_decode r).
Proof.
  intros Hv. pose proof Hv as H. apply valid_cp_spec in H. destruct H as [H1 H2]. unfold utf8_enc1.
  destruct (c <? 128) eqn:E1; [apply Z.ltb_lt in E1 | apply Z.ltb_ge in E1].
  { cbn [app]. rewrite utf8_decode_unfold at 1. cbv beta iota zeta. decide_cmp. reflexivity. }
  destruct (c <? 2048) eqn:E2; [apply Z.ltb_lt in E2 | apply Z.ltb_ge in E2].
  { cbn [app]. rewrite utf8_decode_unfold at 1. cbv beta iota zeta. unfold is_cont. decide_cmp. cbn [andb]. f_equal. zlia. }
  destruct (c <? 65536) eqn:E3; [apply Z.ltb_lt in E3 | apply Z.ltb_ge in E3].
  { cbn [app]. rewrite utf8_decode_unfold at 1. cbv beta iota zeta.
    match goal with |- context [valid_cp ?e] => replace e with c by zlia end.
    rewrite Hv. unfold is_cont. decide_cmp. reflexivity. }
  cbn [app]. rewrite utf8_decode_unfold at 1. cbv beta iota zeta.
  match goal with |- context [valid_cp ?e] => replace e with c by zlia end.
  rewrite Hv. unfold is_cont. decide_cmp. reflexivity.
Qed.

Lemma utf8_roundtrip s : forallb valid_cp s = true -> utf8_decode (utf8_encode s) = Ok s.
Proof.
  induction s as [|c s IH]; intros H; [reflexivity|].
  cbn [forallb] in H. apply andb_true_iff in H as [Hc Hs].
  unfold utf8_encode. cbn [flat_map]. rewrite utf8_dec_enc1 by assumption.
  fold (utf8_encode s). rewrite IH by assumption. reflexivity.
Qed.

Lemma no_zero_app a b : no_zero (a ++ b) = no_zero a && no_zero b.
Proof. unfold no_zero. apply forallb_app. Qed.
Lemma utf8_enc1_no_zero c : valid_cp c = true -> c <> 0 -> no_zero (utf8_enc1 c) = true.
Proof.
  intros H Hz. apply valid_cp_spec in H. destruct H as [H1 H2]. unfold utf8_enc1, no_zero.
  destruct (c <? 128) eqn:E1; [apply Z.ltb_lt in E1 | apply Z.ltb_ge in E1];
  [|destruct (c <? 2048) eqn:E2; [apply Z.ltb_lt in E2 | apply Z.ltb_ge in E2];
    [|destruct (c <? 65536) eqn:E3; [apply Z.ltb_lt in E3 | apply Z.ltb_ge in E3]]];
  cbn [forallb]; decide_cmp; reflexivity.
Qed.
(* the UTF-8 encoding contains a 0x00 byte only if the text contains U+0000 *)
Lemma utf8_no_zero s : forallb valid_cp s = true -> no_zero s = true -> no_zero (utf8_encode s) = true.
Proof.
  induction s as [|c s IH]; intros H Hz; [reflexivity|].
  cbn [forallb] in H. apply andb_true_iff in H as [Hc Hs].
  unfold no_zero in Hz. cbn [forallb] in Hz. apply andb_true_iff in Hz as [Hz1 Hz2].
  unfold utf8_encode. cbn [flat_map]. rewrite no_zero_app. fold (utf8_encode s).
  rewrite IH by assumption. rewrite utf8_enc1_no_zero; [reflexivity|assumption|].
  apply negb_true_iff in Hz1. apply Z.eqb_neq in Hz1. exact Hz1.
Qed.

(* ---------------------------------------------------------------- UTF-16 *)
Lemma u16_term_enc1 be c r : valid_cp c = true -> c <> 0 ->
  u16_term be (u16_enc1 be c ++ r) = tcons c (u16_term be r).
Proof.
  intros H Hz. apply valid_cp_spec in H. destruct H as [H1 H2]. unfold u16_enc1, u16_units.
  destruct (c <? 65536) eqn:E1; [apply Z.ltb_lt in E1 | apply Z.ltb_ge in E1].
  - assert (c < 55296 \/ 57344 <= c) as Hr by lia.
    destruct be; cbn [flat_map unit_bytes app]; rewrite u16_term_unfold at 1; cbv beta iota zeta; unfold unit_of;
      (replace (c / 256 * 256 + c mod 256) with c by zlia || replace (c mod 256 * 256 + c / 256) with c by zlia);
      destruct Hr; decide_cmp; cbn [andb]; reflexivity.
  - destruct be; cbn [flat_map unit_bytes app]; rewrite u16_term_unfold at 1; cbv beta iota zeta; unfold unit_of;
      decide_cmp; cbn [andb]; f_equal; zlia.
Qed.

Lemma u16_term_nul be rest : u16_term be (0 :: 0 :: rest) = Ok ([], Some rest).
Proof. destruct be; reflexivity. Qed.

Lemma u16_encode_cons be c s : u16_encode be (c :: s) = u16_enc1 be c ++ u16_encode be s.
Proof. reflexivity. Qed.

(* decoding stops exactly at the terminator unit that follows the encoded text *)
Lemma u16_term_encode be s rest : forallb valid_cp s = true -> no_zero s = true ->
  u16_term be (u16_encode be s ++ 0 :: 0 :: rest) = Ok (s, Some rest).
Proof.
  induction s as [|c s IH]; intros H Hz.
  - cbn [u16_encode flat_map app]. apply u16_term_nul.
  - cbn [forallb] in H. apply andb_true_iff in H as [Hc Hs].
    unfold no_zero in Hz. cbn [forallb] in Hz. apply andb_true_iff in Hz as [Hz1 Hz2].
    apply negb_true_iff in Hz1. apply Z.eqb_neq in Hz1.
    rewrite u16_encode_cons, <- app_assoc, u16_term_enc1 by assumption.
    rewrite IH by assumption. reflexivity.
Qed.
(* without a terminator the whole text is returned *)
Lemma u16_term_encode_end be s : forallb valid_cp s = true -> no_zero s = true ->
  u16_term be (u16_encode be s) = Ok (s, None).
Proof.
  induction s as [|c s IH]; intros H Hz; [reflexivity|].
  cbn [forallb] in H. apply andb_true_iff in H as [Hc Hs].
  unfold no_zero in Hz. cbn [forallb] in Hz. apply andb_true_iff in Hz as [Hz1 Hz2].
  apply negb_true_iff in Hz1. apply Z.eqb_neq in Hz1.
  rewrite u16_encode_cons. rewrite <- (app_nil_r (u16_encode be s)), u16_term_enc1 by assumption.
  rewrite app_nil_r, IH by assumption. reflexivity.
Qed.
(* "no embedded terminator": a code unit of the encoding is zero only if the text contains U+0000 *)
Lemma u16_units_no_zero c : valid_cp c = true -> c <> 0 -> no_zero (u16_units c) = true.
Proof.
  intros H Hz. apply valid_cp_spec in H. destruct H as [H1 H2]. unfold u16_units, no_zero.
  destruct (c <? 65536) eqn:E1; [apply Z.ltb_lt in E1 | apply Z.ltb_ge in E1]; cbn [forallb]; decide_cmp; reflexivity.
Qed.
Lemma u16_no_zero_unit s : forallb valid_cp s = true -> no_zero s = true -> no_zero (flat_map u16_units s) = true.
Proof.
  induction s as [|c s IH]; intros H Hz; [reflexivity|].
  cbn [forallb] in H. apply andb_true_iff in H as [Hc Hs].
  unfold no_zero in Hz. cbn [forallb] in Hz. apply andb_true_iff in Hz as [Hz1 Hz2].
  apply negb_true_iff in Hz1. apply Z.eqb_neq in Hz1.
  cbn [flat_map]. rewrite no_zero_app, IH, u16_units_no_zero by assumption. reflexivity.
Qed.

(* ---------------------------------------------------------------- terminator search for Latin-1 / UTF-8 *)
Lemma split_nul_app p rest : no_zero p = true -> split_nul (p ++ 0 :: rest) = Some (p, rest).
Proof.
  induction p as [|b p IH]; intros H; [reflexivity|].
  unfold no_zero in H. cbn [forallb] in H. apply andb_true_iff in H as [H1 H2].
  apply negb_true_iff in H1. cbn [app split_nul]. rewrite H1. rewrite IH by exact H2. reflexivity.
Qed.
Lemma split_nul_none p : no_zero p = true -> split_nul p = None.
Proof.
  induction p as [|b p IH]; intros H; [reflexivity|].
  unfold no_zero in H. cbn [forallb] in H. apply andb_true_iff in H as [H1 H2].
  apply negb_true_iff in H1. cbn [split_nul]. rewrite H1. rewrite IH by exact H2. reflexivity.
Qed.

(* ---------------------------------------------------------------- encode_endian / decode_terminated *)
(* the bytes encode_endian produces for a valid text *)
Definition enc_bytes (enc : Z) (s : list Z) : list Z :=
  if enc =? 0 then s else if enc =? 1 then 255 :: 254 :: u16_encode false s
  else if enc =? 2 then u16_encode true s else utf8_encode s.

Lemma valid_enc_cases enc : valid_enc enc = true -> enc = 0 \/ enc = 1 \/ enc = 2 \/ enc = 3.
Proof. unfold valid_enc. intros H. apply andb_true_iff in H as [A B]. apply Z.leb_le in A, B. lia. Qed.

Lemma text_ok_parts enc s : text_ok enc s = true ->
  no_zero s = true /\ (enc = 0 -> forallb latin1_cp s = true) /\ (enc <> 0 -> forallb valid_cp s = true).
Proof.
  unfold text_ok. intros H. apply andb_true_iff in H as [A B]. split; [exact A|].
  destruct (enc =? 0) eqn:E; [apply Z.eqb_eq in E|apply Z.eqb_neq in E]; split; intros; try assumption; lia.
Qed.

Lemma text_encode_ok enc s : valid_enc enc = true -> text_ok enc s = true -> text_encode enc s = Ok (enc_bytes enc s).
Proof.
  intros He Ht. apply text_ok_parts in Ht as (Hz & Hl & Hv). unfold text_encode, enc_bytes.
  destruct (valid_enc_cases enc He) as [E|[E|[E|E]]]; subst enc; cbv beta iota delta [Z.eqb Pos.eqb].
  - rewrite Hl by reflexivity. reflexivity.
  - rewrite Hv by lia. reflexivity.
  - rewrite Hv by lia. reflexivity.
  - rewrite Hv by lia. reflexivity.
Qed.

(* decode(encode s) = s for each of the four encodings (whole-buffer decoding, no terminator involved) *)
Lemma latin1_roundtrip s : forallb latin1_cp s = true -> bytes_decode 0 (enc_bytes 0 s) = Ok s.
Proof. reflexivity. Qed.
Lemma utf8_roundtrip' s : forallb valid_cp s = true -> bytes_decode 3 (enc_bytes 3 s) = Ok s.
Proof. intros H. cbn. apply utf8_roundtrip. exact H. Qed.

(* decode_terminated finds the text and returns exactly what follows the terminator *)
Lemma decode_terminated_enc enc strict s rest : valid_enc enc = true -> text_ok enc s = true ->
  decode_terminated enc strict (enc_bytes enc s ++ text_term enc ++ rest) = Ok (s, rest).
Proof.
  intros He Ht. apply text_ok_parts in Ht as (Hz & Hl & Hv). unfold decode_terminated, enc_bytes, text_term, bytes_decode.
  destruct (valid_enc_cases enc He) as [E|[E|[E|E]]]; subst enc; cbv beta iota delta [Z.eqb Pos.eqb orb]; cbn [app].
  - rewrite split_nul_app by exact Hz. reflexivity.
  - unfold u16_bom_term. cbv beta iota. rewrite u16_term_encode by (try apply Hv; try exact Hz; lia). reflexivity.
  - rewrite u16_term_encode by (try apply Hv; try exact Hz; lia). reflexivity.
  - rewrite split_nul_app by (apply utf8_no_zero; [apply Hv; lia|exact Hz]).
    rewrite utf8_roundtrip by (apply Hv; lia). reflexivity.
Qed.

(* EncodedTextSpec: read (write s ++ rest) = (s, rest), except that a v2.2/v2.3 reader swallows an all-zero rest *)
Lemma enc_text_write_ok enc s : valid_enc enc = true -> text_ok enc s = true ->
  enc_text_write enc s = Ok (enc_bytes enc s ++ text_term enc).
Proof.
  intros He Ht. unfold enc_text_write. rewrite He. cbn [negb]. rewrite text_encode_ok by assumption. reflexivity.
Qed.
Lemma enc_text_read_write ver enc s rest : valid_enc enc = true -> text_ok enc s = true ->
  enc_text_read ver enc ((enc_bytes enc s ++ text_term enc) ++ rest)
  = Ok (s, if (ver <? 4) && all_zero rest then [] else rest).
Proof.
  intros He Ht. unfold enc_text_read. rewrite He. cbn [negb].
  assert (F : first_ok (decode_terminated enc false) (text_fixups enc ((enc_bytes enc s ++ text_term enc) ++ rest)) = Ok (s, rest)).
  { assert (D := decode_terminated_enc enc false s rest He Ht). rewrite app_assoc in D.
    unfold text_fixups. destruct (enc =? 2); [|destruct (enc =? 1)]; cbn [first_ok]; rewrite D; reflexivity. }
  rewrite F. reflexivity.
Qed.
Lemma enc_bytes_term_nonnil enc s : enc_bytes enc s ++ text_term enc <> [].
Proof. unfold text_term. destruct (_ || _); intros E; apply app_eq_nil in E as [_ E]; discriminate. Qed.

(* Latin1TextSpec *)
Lemma latin1_read_write s rest : no_zero s = true -> latin1_read ((s ++ [0]) ++ rest) = (s, rest).
Proof. intros H. unfold latin1_read. rewrite <- app_assoc. cbn [app]. rewrite split_nul_app by exact H. reflexivity. Qed.
