(* C05 -- MPEG audio frame header: exhaustive finite-domain proofs (vm_compute) lifted to universally
   quantified statements over the stated field ranges. *)
From Coq Require Import ZArith List Bool Lia.
Import ListNotations.
Require Import Base.Py Base.ZList Model.InfoBase Model.InfoMpeg Gen.Gen_tables Proofs.C05_tables.
Open Scope Z_scope.

Lemma zrange_from_In lo n x : lo <= x < lo + Z.of_nat n -> In x (zrange_from lo n).
Proof.
  revert lo; induction n as [|n IH]; intros lo H; [lia|].
  cbn [zrange_from]. destruct (Z.eq_dec x lo) as [->|N]; [left; reflexivity|right].
  apply IH. lia.
Qed.
Lemma zrange_In lo hi x : lo <= x <= hi -> In x (zrange lo hi).
Proof. intros H. unfold zrange. apply zrange_from_In. lia. Qed.

Lemma list_eqb_eq a b : list_eqb a b = true -> a = b.
Proof. apply list_eqb_spec. Qed.

Lemma result_list_eqb_eq r l : result_list_eqb r l = true -> r = Ok l.
Proof. destruct r as [x|e]; cbn; [intros H; f_equal; apply list_eqb_eq; exact H | discriminate]. Qed.

(* the whole product, computed by the kernel's virtual machine *)
Lemma mpeg_all_checked : forallb mpeg_check mpeg_domain = true.
Proof. vm_compute. reflexivity. Qed.

Lemma mpeg_domain_In vb lb prot bri sri pad priv mode :
  In vb [0; 2; 3] -> In lb [1; 2; 3] -> 0 <= prot <= 1 -> 1 <= bri <= 14 -> 0 <= sri <= 2 ->
  0 <= pad <= 1 -> 0 <= priv <= 1 -> 0 <= mode <= 3 ->
  In (mkMpeg vb lb prot bri sri pad priv mode 0) mpeg_domain.
Proof.
  intros Hv Hl Hp Hb Hs Hpad Hpriv Hm. unfold mpeg_domain.
  apply in_flat_map; exists vb; split; [exact Hv|].
  apply in_flat_map; exists lb; split; [exact Hl|].
  apply in_flat_map; exists prot; split; [apply zrange_In; lia|].
  apply in_flat_map; exists bri; split; [apply zrange_In; lia|].
  apply in_flat_map; exists sri; split; [apply zrange_In; lia|].
  apply in_flat_map; exists pad; split; [apply zrange_In; lia|].
  apply in_flat_map; exists priv; split; [apply zrange_In; lia|].
  apply (in_map (fun mode => mkMpeg vb lb prot bri sri pad priv mode 0)). apply zrange_In; lia.
Qed.

Lemma mpeg_check_true p : mpeg_check p = true -> decode_mpeg_frame (build_mpeg_frame p) = Ok (expected_mpeg p).
Proof. unfold mpeg_check. apply result_list_eqb_eq. Qed.

Theorem mpeg_exhaustive vb lb prot bri sri pad priv mode :
  In vb [0; 2; 3] -> In lb [1; 2; 3] -> 0 <= prot <= 1 -> 1 <= bri <= 14 -> 0 <= sri <= 2 ->
  0 <= pad <= 1 -> 0 <= priv <= 1 -> 0 <= mode <= 3 ->
  decode_mpeg_frame (build_mpeg_frame (mkMpeg vb lb prot bri sri pad priv mode 0)) =
  Ok (expected_mpeg (mkMpeg vb lb prot bri sri pad priv mode 0)).
Proof.
  intros Hv Hl Hp Hb Hs Hpad Hpriv Hm.
  apply mpeg_check_true.
  apply (proj1 (forallb_forall mpeg_check mpeg_domain) mpeg_all_checked).
  apply mpeg_domain_In; assumption.
Qed.

Lemma mpeg_invalid_checked : forallb mpeg_rejects mpeg_invalid_domain = true.
Proof. vm_compute. reflexivity. Qed.

Lemma mpeg_rejects_true p : mpeg_rejects p = true ->
  decode_mpeg_frame (build_mpeg_header p ++ zeros 2000) = Raise EMutagen.
Proof.
  unfold mpeg_rejects. destruct (decode_mpeg_frame (build_mpeg_header p ++ zeros 2000)) as [x|e]; [discriminate|].
  destruct e; try discriminate. reflexivity.
Qed.

Lemma mpeg_invalid_In vb lb bri sri mode :
  0 <= vb <= 3 -> 0 <= lb <= 3 -> 0 <= bri <= 15 -> 0 <= sri <= 3 -> 0 <= mode <= 3 ->
  vb = 1 \/ lb = 0 \/ bri = 0 \/ bri = 15 \/ sri = 3 ->
  In (mkMpeg vb lb 1 bri sri 0 0 mode 0) mpeg_invalid_domain.
Proof.
  intros Hv Hl Hb Hs Hm Hbad.
  unfold mpeg_invalid_domain. apply filter_In. split.
  - apply in_flat_map; exists vb; split; [apply zrange_In; lia|].
    apply in_flat_map; exists lb; split; [apply zrange_In; lia|].
    apply in_flat_map; exists bri; split; [apply zrange_In; lia|].
    apply in_flat_map; exists sri; split; [apply zrange_In; lia|].
    apply (in_map (fun mode => mkMpeg vb lb 1 bri sri 0 0 mode 0)). apply zrange_In; lia.
  - cbn [mp_vb mp_lb mp_bri mp_sri].
    destruct Hbad as [->|[->|[->|[->| ->]]]]; rewrite ?Z.eqb_refl, ?orb_true_r; reflexivity.
Qed.

Theorem mpeg_invalid_rejected vb lb bri sri mode :
  0 <= vb <= 3 -> 0 <= lb <= 3 -> 0 <= bri <= 15 -> 0 <= sri <= 3 -> 0 <= mode <= 3 ->
  vb = 1 \/ lb = 0 \/ bri = 0 \/ bri = 15 \/ sri = 3 ->
  decode_mpeg_frame (build_mpeg_header (mkMpeg vb lb 1 bri sri 0 0 mode 0) ++ zeros 2000) = Raise EMutagen.
Proof.
  intros Hv Hl Hb Hs Hm Hbad.
  apply mpeg_rejects_true.
  apply (proj1 (forallb_forall mpeg_rejects mpeg_invalid_domain) mpeg_invalid_checked).
  apply mpeg_invalid_In; assumption.
Qed.
