(* C18: nameless streams (file name ""), for the types whose magic stays at offset 0 whatever tags are
   added through the type. *)
From Coq Require Import ZArith List Bool Lia.
Import ListNotations.
Require Import Base.Py Model.ScorePrims Gen.Gen_scores Model.Score Proofs.C18_prims.
Open Scope Z_scope.

Lemma nameless_FLAC : forall header trailer,
  family0 C_FLAC header trailer -> no_foreign_marker C_FLAC header = true -> picks C_FLAC [] header trailer.
Proof.
  open_nameless; intro Hnfm; marker_facts Hnfm; pose proof Hfam as Hsw; decide_nameless Hsw.
Qed.

Lemma nameless_OggTheora : forall header trailer,
  family0 C_OggTheora header trailer -> picks C_OggTheora [] header trailer.
Proof.
  open_nameless; destruct Hfam as [Hsw Hm]; decide_nameless Hsw.
Qed.

Lemma nameless_OggSpeex : forall header trailer,
  family0 C_OggSpeex header trailer -> no_foreign_marker C_OggSpeex header = true -> picks C_OggSpeex [] header trailer.
Proof.
  open_nameless; intro Hnfm; marker_facts Hnfm; destruct Hfam as [Hsw Hm]; decide_nameless Hsw.
Qed.

Lemma nameless_OggVorbis : forall header trailer,
  family0 C_OggVorbis header trailer -> no_foreign_marker C_OggVorbis header = true -> picks C_OggVorbis [] header trailer.
Proof.
  open_nameless; intro Hnfm; marker_facts Hnfm; destruct Hfam as [Hsw Hm]; decide_nameless Hsw.
Qed.

Lemma nameless_OggFLAC : forall header trailer,
  family0 C_OggFLAC header trailer -> no_foreign_marker C_OggFLAC header = true -> picks C_OggFLAC [] header trailer.
Proof.
  open_nameless; intro Hnfm; marker_facts Hnfm; destruct Hfam as (Hsw & Hm1 & Hm2); pose proof (contains_tail _ _ _ Hm1) as Hm3; decide_nameless Hsw.
Qed.

Lemma nameless_OggOpus : forall header trailer,
  family0 C_OggOpus header trailer -> no_foreign_marker C_OggOpus header = true -> picks C_OggOpus [] header trailer.
Proof.
  open_nameless; intro Hnfm; marker_facts Hnfm; destruct Hfam as [Hsw Hm]; decide_nameless Hsw.
Qed.

Lemma nameless_AIFF : forall header trailer,
  family0 C_AIFF header trailer -> no_foreign_marker C_AIFF header = true -> picks C_AIFF [] header trailer.
Proof.
  open_nameless; intro Hnfm; marker_facts Hnfm; pose proof Hfam as Hsw; decide_nameless Hsw.
Qed.
