(* IFF family: on a well-formed file mutagen's lenient reader (mirror: mut_id, mut_header, mut_walk, mut_root,
   mut_chunks, find_id3) sees exactly the structure of the strict reader: the root data size is 4 + the extent
   of the chunks, the walk visits every chunk at its offset, and the first ID3 entry is the chunk split_id3 selects. *)
From Coq Require Import ZArith List Bool Lia.
Import ListNotations.
Require Import Base.Py Base.ZList Model.Splice Model.Fam_iff Proofs.Fam_iff_codec Proofs.Fam_iff_chunks.
Open Scope Z_scope.

(* ---- chunk ids: a strictly valid id is a valid id for mutagen *)
Lemma printable_not_space c : printable c = true -> c <> 32 -> is_space c = false.
Proof.
  unfold printable, is_space. intros A C. lia.
Qed.
Lemma rstrip_forallb (P : Z -> bool) l : forallb P l = true -> forallb P (rstrip l) = true.
Proof.
  induction l as [|c r IH]; intros Hl; [reflexivity|].
  cbn [forallb] in Hl. apply andb_true_iff in Hl as [Hc Hr]. specialize (IH Hr).
  cbn [rstrip]. destruct (rstrip r) as [|x r'] eqn:E.
  - destruct (is_space c); [reflexivity|]. cbn [forallb]. rewrite Hc. reflexivity.
  - cbn [forallb] in *. rewrite Hc. exact IH.
Qed.
Lemma rstrip_len l : zlen (rstrip l) <= zlen l.
Proof.
  induction l as [|c r IH]; [cbn; lia|]. cbn [rstrip]. destruct (rstrip r) as [|x r'] eqn:E.
  - unfold zlen in *. destruct (is_space c); cbn [length] in *; lia.
  - unfold zlen in *. cbn [length] in *. lia.
Qed.
Lemma rstrip_nonempty c r : is_space c = false -> 0 < zlen (rstrip (c :: r)).
Proof.
  intros Hc. cbn [rstrip]. destruct (rstrip r) as [|x r'].
  - rewrite Hc. unfold zlen. cbn [length]. lia.
  - unfold zlen. cbn [length]. lia.
Qed.
Lemma printable_ascii l : forallb printable l = true -> ascii l = true.
Proof.
  unfold ascii. induction l as [|c r IH]; intros Hl; [reflexivity|].
  cbn [forallb] in *. apply andb_true_iff in Hl as [Hc Hr]. rewrite IH by exact Hr.
  unfold printable in Hc. apply andb_true_iff in Hc as [_ B]. apply Z.leb_le in B.
  bset (c <? 128) true. reflexivity.
Qed.

Lemma sid_mut_id raw : sid_ok raw = true -> mut_id raw = Some (rstrip raw).
Proof.
  unfold sid_ok. rewrite !andb_true_iff. intros [[A B] C]. apply Z.eqb_eq in A. apply negb_true_iff in C.
  apply Z.eqb_neq in C.
  unfold mut_id. rewrite (printable_ascii _ B). cbn [negb].
  destruct raw as [|c r]; [cbn in A; lia|].
  assert (Hc : is_space c = false).
  { cbn [forallb] in B. apply andb_true_iff in B as [Bc _]. apply printable_not_space; [exact Bc|]. exact C. }
  unfold valid_chunk_id. rewrite (rstrip_forallb _ _ B).
  pose proof (rstrip_nonempty c r Hc). pose proof (rstrip_len (c :: r)).
  bset (0 <? zlen (rstrip (c :: r))) true. bset (zlen (rstrip (c :: r)) <=? 4) true. reflexivity.
Qed.

Section Fl.
Variable fl : flavour.
Hypothesis Hfl : fl_ok fl = true.
Notation H := (hsize fl).
Notation W := (Z.of_nat (fl_w fl)).

(* ---- one header *)
Lemma mut_header_render c rest : chunk_ok fl c = true ->
  mut_header fl (render_chunk fl c ++ rest) = HChunk (cid c) (zlen (cdata c)).
Proof.
  intros Hc. destruct (chunk_ok_inv fl c Hc) as (A & B & C & D & E).
  unfold render_chunk. rewrite <- !app_assoc. set (n := zlen (cdata c)) in *.
  pose proof (zlen_nonneg (cdata c)) as Hn. fold n in Hn. pose proof (mod2_range n) as Hm.
  pose proof (fl_w_pos fl Hfl) as Hw. pose proof (hsize_eq fl) as HH. pose proof (zlen_nonneg rest) as HX.
  destruct (seg5 (cid c) (enc fl n) (cdata c) (cpad c) rest 4 H (H + n) (H + (n + n mod 2)))
    as (S1 & S2 & S3 & S4 & S5); try (rewrite ?enc_zlen, ?hsize_eq; lia).
  set (b := cid c ++ enc fl n ++ cdata c ++ cpad c ++ rest) in *.
  assert (Lb : zlen b = H + n + n mod 2 + zlen rest).
  { unfold b. rewrite !zlen_app, enc_zlen, A, D. fold n. lia. }
  unfold mut_header. bset (zlen b <? H) false. rewrite S1, (sid_mut_id _ B), S2, dec_enc by assumption.
  unfold cont_ok in E. destruct (is_cont fl (cid c)) eqn:Ec; [|reflexivity].
  apply andb_true_iff in E as [E1 E2]. apply Z.leb_le in E1. fold n in E1.
  bset (n <? 4) false.
  assert (En : zslice H (H + 4) b = ztake 4 (cdata c)).
  { unfold zslice. replace (H + 4 - H) with 4 by lia.
    replace b with ((cid c ++ enc fl n) ++ cdata c ++ cpad c ++ rest) by (unfold b; rewrite <- app_assoc; reflexivity).
    rewrite zdrop_app_len by (rewrite zlen_app, enc_zlen; lia). apply ztake_app_l. fold n. lia. }
  rewrite En, E2. reflexivity.
Qed.

(* ---- the walk *)
Fixpoint entries (off : Z) (cs : list chunk) : list centry :=
  match cs with
  | [] => []
  | c :: r => mkCe off (cid c) (zlen (cdata c)) :: entries (off + csize fl c) r
  end.

Lemma render_chunks_zlen_cons c cs : chunk_ok fl c = true ->
  zlen (render_chunks fl (c :: cs)) = csize fl c + zlen (render_chunks fl cs).
Proof.
  intros Hc. destruct (chunk_ok_inv fl c Hc) as (A & _). cbn [render_chunks].
  rewrite zlen_app, render_chunk_zlen by exact A. reflexivity.
Qed.
Lemma csize_pos c : chunk_ok fl c = true -> 0 < csize fl c /\ csize fl c = H + zlen (cdata c) + zlen (cdata c) mod 2.
Proof.
  intros Hc. destruct (chunk_ok_inv fl c Hc) as (_ & _ & _ & D & _). unfold csize.
  pose proof (zlen_nonneg (cdata c)) as H1. pose proof (mod2_range (zlen (cdata c))) as H2. pose proof (fl_w_pos fl Hfl) as H3.
  pose proof (hsize_eq fl) as H4. rewrite D. lia.
Qed.

Lemma mut_walk_render cs : forallb (chunk_ok fl) cs = true ->
  forall fuel off endoff, (length cs < fuel)%nat -> off + zlen (render_chunks fl cs) <= endoff ->
  mut_walk fl fuel off endoff (render_chunks fl cs) = Ok (entries off cs).
Proof.
  induction cs as [|c cs IH]; intros Hok fuel off endoff Hf He.
  - destruct fuel; [lia|]. cbn [mut_walk render_chunks entries].
    destruct (off <? endoff); cbn [negb]; [|reflexivity].
    unfold mut_header. pose proof (fl_w_pos fl Hfl) as Hw. pose proof (hsize_eq fl) as HH. rewrite zlen_nil.
    bset (0 <? H) true. reflexivity.
  - destruct fuel as [|k]; [cbn in Hf; lia|]. cbn [length] in Hf.
    cbn [forallb] in Hok. apply andb_true_iff in Hok as [Hc Hcs].
    rewrite render_chunks_zlen_cons in He by exact Hc.
    destruct (csize_pos c Hc) as [Hp Hs]. pose proof (zlen_nonneg (render_chunks fl cs)) as Hnn.
    cbn [mut_walk render_chunks entries]. bset (off <? endoff) true. cbn [negb].
    rewrite mut_header_render by exact Hc.
    unfold ce_size. cbn [ce_ds ce_off]. rewrite <- Hs.
    destruct (chunk_ok_inv fl c Hc) as (A & _).
    assert (Lb : zlen (render_chunk fl c ++ render_chunks fl cs) = csize fl c + zlen (render_chunks fl cs))
      by (rewrite zlen_app, render_chunk_zlen by exact A; reflexivity).
    bset (zlen (render_chunk fl c ++ render_chunks fl cs) <? csize fl c) false.
    rewrite zdrop_app_len by (rewrite render_chunk_zlen by exact A; reflexivity).
    rewrite IH by (assumption || lia). reflexivity.
Qed.

(* ---- the root *)
Lemma name_ok_inv n : name_ok fl n = true ->
  zlen n = 4 /\ ascii n = true /\ (match fl_type fl with [] => true | t => list_eqb n t end) = true.
Proof. unfold name_ok. rewrite !andb_true_iff. intros [[A B] C]. apply Z.eqb_eq in A. tauto. Qed.

Lemma iff_render_parts s : struct_ok fl s = true ->
  let X := render_chunks fl (s_chunks s) in
  let f := iff_render fl s in
  zlen f = H + 4 + zlen X /\ ztake 4 f = fl_root fl /\ zslice 4 H f = enc fl (4 + zlen X) /\
  zslice H (H + 4) f = s_name s /\ zdrop (H + 4) f = X.
Proof.
  intros Hs X f. destruct (struct_ok_inv fl s Hs) as (Hn & Hcs & Hfit).
  pose proof (name_ok_len fl _ Hn) as Ln. pose proof (sid_ok_len _ (fl_root_sid fl Hfl)) as Lr.
  pose proof (fl_w_pos fl Hfl) as Hw. pose proof (hsize_eq fl) as HH.
  split; [apply iff_render_zlen; assumption|].
  assert (Ef : f = fl_root fl ++ enc fl (4 + zlen X) ++ s_name s ++ [] ++ X).
  { unfold f, iff_render. fold X. rewrite Ln. reflexivity. }
  destruct (seg5 (fl_root fl) (enc fl (4 + zlen X)) (s_name s) [] X 4 H (H + 4) (H + 4))
    as (S1 & S2 & S3 & _ & S5); try (rewrite ?enc_zlen, ?hsize_eq, ?zlen_nil; lia).
  rewrite <- Ef in S1, S2, S3, S5. repeat split; assumption.
Qed.

Lemma mut_root_render s : struct_ok fl s = true ->
  mut_root fl (iff_render fl s) = Ok (4 + zlen (render_chunks fl (s_chunks s))).
Proof.
  intros Hs. destruct (iff_render_parts s Hs) as (L & S1 & S2 & S3 & S5).
  destruct (struct_ok_inv fl s Hs) as (Hn & Hcs & Hfit). destruct (name_ok_inv _ Hn) as (_ & Na & Nt).
  set (X := render_chunks fl (s_chunks s)) in *. set (f := iff_render fl s) in *.
  pose proof (zlen_nonneg X) as HX. pose proof (fl_w_pos fl Hfl) as Hw. pose proof (hsize_eq fl) as HH.
  unfold mut_root. bset (zlen f <? H) false. rewrite S1, (sid_mut_id _ (fl_root_sid fl Hfl)), list_eqb_refl.
  cbn [negb]. rewrite S2, dec_enc by assumption. bset (4 + zlen X <? 4) false.
  rewrite S3, Na, Nt. reflexivity.
Qed.

Lemma mut_chunks_render s : struct_ok fl s = true ->
  mut_chunks fl (iff_render fl s) (4 + zlen (render_chunks fl (s_chunks s))) = Ok (entries (H + 4) (s_chunks s)).
Proof.
  intros Hs. destruct (iff_render_parts s Hs) as (L & S1 & S2 & S3 & S5).
  destruct (struct_ok_inv fl s Hs) as (Hn & Hcs & Hfit).
  unfold mut_chunks. rewrite S5. apply mut_walk_render; [exact Hcs | |].
  - pose proof (render_chunks_len fl Hfl _ Hcs) as Hrl. pose proof (fl_w_pos fl Hfl) as Hw. pose proof (hsize_eq fl) as HH.
    unfold zlen in *. lia.
  - pose proof (mod2_range (4 + zlen (render_chunks fl (s_chunks s)))) as Hm. lia.
Qed.

(* ---- locating the tag chunk *)
Lemma split_id3_some cs pre c post : split_id3 fl cs = Some (pre, c, post) ->
  cs = pre ++ c :: post /\ is_id3 fl (cid c) = true /\ split_id3 fl pre = None.
Proof.
  revert pre; induction cs as [|x cs IH]; intros pre Hs; [discriminate|].
  cbn [split_id3] in Hs. destruct (is_id3 fl (cid x)) eqn:E.
  - inversion Hs; subst. repeat split; [exact E].
  - destruct (split_id3 fl cs) as [[[p y] q]|] eqn:E2; [|discriminate].
    inversion Hs; subst. destruct (IH p eq_refl) as (A & B & C). subst cs.
    repeat split; [exact B|]. cbn [split_id3]. rewrite E, C. reflexivity.
Qed.
Lemma split_id3_none cs : split_id3 fl cs = None -> forallb (fun c => negb (is_id3 fl (cid c))) cs = true.
Proof.
  induction cs as [|x cs IH]; intros Hs; [reflexivity|].
  cbn [split_id3] in Hs. destruct (is_id3 fl (cid x)) eqn:E; [discriminate|].
  destruct (split_id3 fl cs) as [[[p y] q]|] eqn:E2; [discriminate|].
  cbn [forallb]. rewrite E, IH by reflexivity. reflexivity.
Qed.
Lemma split_id3_app_none pre c post : split_id3 fl pre = None -> is_id3 fl (cid c) = true ->
  split_id3 fl (pre ++ c :: post) = Some (pre, c, post).
Proof.
  induction pre as [|x pre IH]; intros Hn Hc.
  - cbn [app split_id3]. rewrite Hc. reflexivity.
  - cbn [split_id3] in Hn. destruct (is_id3 fl (cid x)) eqn:E; [discriminate|].
    destruct (split_id3 fl pre) as [[[p y] q]|] eqn:E2; [discriminate|].
    cbn [app split_id3]. rewrite E, IH by (reflexivity || assumption). reflexivity.
Qed.
Lemma split_id3_app_end cs c : split_id3 fl cs = None -> is_id3 fl (cid c) = false ->
  split_id3 fl (cs ++ [c]) = None.
Proof.
  induction cs as [|x cs IH]; intros Hn Hc.
  - cbn [app split_id3]. rewrite Hc. reflexivity.
  - cbn [split_id3] in Hn. destruct (is_id3 fl (cid x)) eqn:E; [discriminate|].
    destruct (split_id3 fl cs) as [[[p y] q]|] eqn:E2; [discriminate|].
    cbn [app split_id3]. rewrite E, IH by (reflexivity || assumption). reflexivity.
Qed.

Lemma find_entries cs : forallb (chunk_ok fl) cs = true -> forall off,
  find_id3 fl (entries off cs) =
  match split_id3 fl cs with
  | None => None
  | Some (pre, c, _) => Some (mkCe (off + zlen (render_chunks fl pre)) (cid c) (zlen (cdata c)))
  end.
Proof.
  unfold find_id3. induction cs as [|x cs IH]; intros Hok off; [reflexivity|].
  cbn [forallb] in Hok. apply andb_true_iff in Hok as [Hx Hcs].
  cbn [entries find split_id3 ce_id]. destruct (is_id3 fl (cid x)) eqn:E.
  - cbn [render_chunks]. rewrite zlen_nil, Z.add_0_r. reflexivity.
  - rewrite IH by exact Hcs. destruct (split_id3 fl cs) as [[[p y] q]|]; [|reflexivity].
    rewrite render_chunks_zlen_cons by exact Hx. f_equal. f_equal. lia.
Qed.

End Fl.
