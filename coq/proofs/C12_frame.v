(* C12 (c): the spec-list-driven frame round trip  _readData (_writeData values) = values, nothing left over *)
From Coq Require Import ZArith List Bool Lia.
Import ListNotations.
Require Import Base.Py Base.ZList Model.Id3Spec Model.Id3Frame Proofs.C12_ints Proofs.C12_codec Proofs.C12_specs Proofs.C12_specs2.
Open Scope Z_scope.

Section Frame.
Variable sub : list Z -> result (value * list Z).
Variable subw : value -> result (list Z).
Variable subvalid : value -> bool.
Variable ver : Z.
Hypothesis sub_roundtrip : forall v, subvalid v = true -> exists b, subw v = Ok b /\ sub b = Ok (v, []).

Lemma handle_nodata_prim p : handle_nodata (KPrim p) = nodata p.
Proof. destruct p; reflexivity. Qed.

Lemma fields_valid_nil c vs : fields_valid subw subvalid ver c [] vs = true -> vs = [].
Proof. destruct vs; [reflexivity|discriminate]. Qed.

Lemma write_fields_cons c f fs v vs : write_fields subw c (f :: fs) (v :: vs) =
  match spec_write subw c (f_kind f) v with
  | Ok b => rmap (app b) (write_fields subw (ctx_set c (f_name f) v) fs vs)
  | Raise e => Raise e
  end.
Proof. reflexivity. Qed.
Lemma read_fields_cons c nmand f fs data : read_fields sub ver c nmand (f :: fs) data =
  if negb (is_nil data) || handle_nodata (f_kind f) then
    match spec_read sub ver c (f_kind f) data with
    | Ok (v, rest) =>
      match read_fields sub ver (ctx_set c (f_name f) v) (Nat.pred nmand) fs rest with
      | Ok (vs, r) => Ok (v :: vs, r)
      | Raise e => Raise e
      end
    | Raise e => Raise e
    end
  else match nmand with O => Ok ([], data) | S _ => Raise EMutagen end.
Proof. reflexivity. Qed.

Lemma fields_rt : forall fs seen c vs nmand,
  fields_ok seen fs = true ->
  fields_valid subw subvalid ver c fs vs = true -> (nmand <= length vs)%nat ->
  exists b, write_fields subw c fs vs = Ok b /\ read_fields sub ver c nmand fs b = Ok (vs, []).
Proof.
  induction fs as [|f fs IH]; intros seen c vs nmand Hok Hval Hn.
  - apply fields_valid_nil in Hval. subst vs. exists []. split; reflexivity.
  - destruct vs as [|v vs].
    + cbn [fields_valid] in Hval. apply negb_true_iff in Hval. cbn [length] in Hn.
      exists []. split; [reflexivity|]. cbn [read_fields is_nil negb orb]. rewrite Hval.
      destruct nmand; [reflexivity|lia].
    + cbn [fields_valid] in Hval. apply andb_true_iff in Hval as [Hval Hz]. apply andb_true_iff in Hval as [Hv Hrest].
      cbn [fields_ok] in Hok. apply andb_true_iff in Hok as [Hok Hok'].
      apply andb_true_iff in Hok as [Hok _]. apply andb_true_iff in Hok as [Hok _]. apply andb_true_iff in Hok as [_ Hk].
      cbn [length] in Hn.
      destruct (IH (f :: seen) (ctx_set c (f_name f) v) vs (Nat.pred nmand) Hok' Hrest ltac:(lia)) as (b' & Hw' & Hr').
      destruct (f_kind f) as [p|ks] eqn:Ek.
      * (* a plain spec *)
        destruct fs as [|f2 fs2].
        -- (* final field *)
           apply fields_valid_nil in Hrest. subst vs. cbn [write_fields] in Hw'. inversion Hw'; subst b'.
           cbn [is_nil] in Hk. cbn [spec_valid] in Hv.
           destruct (prim_last sub subw subvalid ver sub_roundtrip c p v Hk Hv) as (b & Hw & Hne & Hr).
           exists (b ++ []). rewrite write_fields_cons. rewrite Ek. cbn [spec_write]. rewrite Hw. cbn [rmap].
           split; [reflexivity|]. rewrite app_nil_r. rewrite read_fields_cons. rewrite Ek, handle_nodata_prim. cbn [spec_read].
           assert (G : negb (is_nil b) || nodata p = true).
           { destruct (nodata p) eqn:En; [apply orb_true_r|]. destruct b; [exfalso; apply Hne; reflexivity|reflexivity]. }
           rewrite G, Hr. reflexivity.
        -- (* followed by further fields: self-delimiting *)
           cbn [is_nil] in Hk. cbn [spec_valid] in Hv.
           destruct (prim_sd sub subw subvalid ver c p v Hk Hv) as (b & Hw & Hne & Hr).
           exists (b ++ b'). rewrite write_fields_cons. rewrite Ek. cbn [spec_write]. rewrite Hw.
           rewrite Hw'. cbn [rmap]. split; [reflexivity|].
           rewrite read_fields_cons. rewrite Ek. cbn [spec_read].
           assert (G : negb (is_nil (b ++ b')) = true) by (destruct b; [congruence|reflexivity]).
           rewrite G. cbn [orb]. rewrite Hr.
           ++ rewrite Hr'. reflexivity.
           ++ intros Hs. unfold strips in Hz. rewrite Hs in Hz. cbn [negb orb] in Hz. rewrite Hw' in Hz. exact Hz.
      * (* MultiSpec: final field *)
        destruct fs as [|f2 fs2]; [|cbn [is_nil andb] in Hk; discriminate].
        apply fields_valid_nil in Hrest. subst vs. cbn [write_fields] in Hw'. inversion Hw'; subst b'.
        destruct (multi_rt sub subw subvalid ver c ks v Hv) as (b & Hw & Hne & Hr).
        exists (b ++ []). rewrite write_fields_cons. rewrite Ek, Hw. cbn [rmap]. split; [reflexivity|].
        rewrite app_nil_r. rewrite read_fields_cons. rewrite Ek.
        assert (G : negb (is_nil b) = true) by (destruct b; [congruence|reflexivity]).
        rewrite G. cbn [orb]. rewrite Hr. reflexivity.
Qed.

(* Frame._get_v23_frame leaves valid v2.3 values alone *)
Lemma to_v23_id : forall fs c vs, ver = 3 -> fields_valid subw subvalid ver c fs vs = true -> to_v23 fs vs = vs.
Proof.
  induction fs as [|f fs IH]; intros c vs E Hv; [destruct vs; reflexivity|].
  destruct vs as [|v vs]; [reflexivity|]. cbn [fields_valid] in Hv.
  apply andb_true_iff in Hv as [Hv _]. apply andb_true_iff in Hv as [Hv Hrest].
  cbn [to_v23]. rewrite (IH _ _ E Hrest). f_equal.
  destruct (f_kind f) as [p|]; [|reflexivity]. destruct p; try reflexivity. destruct v as [e| | |]; try reflexivity.
  cbn [spec_valid prim_valid] in Hv. apply andb_true_iff in Hv as [He Hle]. subst ver. cbn [Z.leb orb] in Hle.
  change (4 <=? 3) with false in Hle. cbn [orb] in Hle. apply Z.leb_le in Hle.
  unfold valid_enc in He. apply andb_true_iff in He as [He _]. apply Z.leb_le in He.
  assert (e = 0 \/ e = 1) as [-> | ->] by lia; reflexivity.
Qed.

Theorem frame_roundtrip fr vs :
  spec_list_ok fr = true ->
  frame_valid subw subvalid ver fr vs = true ->
  exists b, frame_write subw ver fr vs = Ok b /\ frame_read sub ver fr b = Ok (vs, []).
Proof.
  intros Hok Hval. unfold frame_valid in Hval. apply andb_true_iff in Hval as [Hlen Hval].
  apply Nat.leb_le in Hlen.
  destruct (fields_rt (all_fields fr) [] ctx0 vs (length (fr_spec fr)) Hok Hval Hlen) as (b & Hw & Hr).
  exists b. unfold frame_write, frame_read.
  replace (length vs <? length (fr_spec fr))%nat with false by (symmetry; apply Nat.ltb_ge; exact Hlen).
  split; [|exact Hr].
  destruct (ver =? 3) eqn:E; [|exact Hw]. apply Z.eqb_eq in E. rewrite (to_v23_id _ _ _ E Hval). exact Hw.
Qed.

(* the written bytes of a frame with at least one mandatory non-BinaryData first field are not empty *)
End Frame.
