(* Ogg family: C09, "returning info.padding leaves the file size and the position of every non-tag byte unchanged":
   when the new comment packet has the length of the old one, _from_packets_try_preserve copies the page layout, every
   page keeps its size (hence its offset) and the pages of the other streams are the same pages *)
From Coq Require Import ZArith List Bool Lia.
Import ListNotations.
Require Import Base.Py Base.ZList Gen.Gen_tags Model.Crc Model.Ogg Model.Fam_flac Model.Fam_ogg.
Require Import Proofs.C15_lacing Proofs.C15_page Proofs.C15_unpage Proofs.C15_paging Proofs.C15_from_packets Proofs.C15_file
  Proofs.C15_replace Proofs.Fam_ogg_scan Proofs.Fam_ogg_locate Proofs.Fam_ogg_replace Proofs.Fam_ogg_stream
  Proofs.Fam_ogg_newpages Proofs.Fam_ogg_preserve Proofs.Fam_ogg_lastpiece Proofs.Fam_ogg_inject Proofs.Fam_ogg_thms
  Proofs.Fam_ogg_packets.
Open Scope Z_scope.

(* the size of a page is a function of its packet lengths and its `complete` flag *)
Lemma fold_lens (g : Z -> Z) pk : fold_right (fun d acc => g (zlen d) + acc) 0 pk = fold_right (fun n acc => g n + acc) 0 (map (@zlen Z) pk).
Proof. induction pk as [|d pk IH]; [reflexivity|]. cbn [fold_right map]. rewrite IH. reflexivity. Qed.
Lemma page_size_lens p q : map (@zlen Z) (p_packets p) = map (@zlen Z) (p_packets q) -> p_complete p = p_complete q ->
  page_size p = page_size q.
Proof.
  intros L C. unfold page_size, data_len.
  assert (E1 : fold_right (fun d acc => zlen d / 255 + 1 + acc) 0 (p_packets p) =
               fold_right (fun d acc => zlen d / 255 + 1 + acc) 0 (p_packets q)).
  { rewrite (fold_lens (fun n => n / 255 + 1) (p_packets p)), (fold_lens (fun n => n / 255 + 1) (p_packets q)), L. reflexivity. }
  assert (E2 : fold_right (fun d acc => zlen d + acc) 0 (p_packets p) = fold_right (fun d acc => zlen d + acc) 0 (p_packets q)).
  { rewrite (fold_lens (fun n => n) (p_packets p)), (fold_lens (fun n => n) (p_packets q)), L. reflexivity. }
  assert (E3 : zlen (last (p_packets p) []) = zlen (last (p_packets q) [])).
  { rewrite <- (ogg_last_map (@zlen Z) (p_packets p) []), <- (ogg_last_map (@zlen Z) (p_packets q) []), L. reflexivity. }
  rewrite E1, E2, E3, C. destruct (p_packets p) as [|a r], (p_packets q) as [|b r']; try discriminate; reflexivity.
Qed.

Definition ogg_ck (p : page) : bool * list (list Z) := (p_complete p, p_packets p).
Lemma page_size_ck p q : ogg_ck p = ogg_ck q -> page_size p = page_size q.
Proof. unfold ogg_ck. intros E. injection E as E1 E2. apply page_size_lens; [rewrite E2; reflexivity|exact E1]. Qed.

Lemma map_map_last_at {B} (f : page -> B) g l : f (g (last l new_page)) = f (last l new_page) -> map f (map_last g l) = map f l.
Proof.
  induction l as [|x r IH]; intros H; [reflexivity|]. destruct r as [|y r'].
  - cbn [map_last map last] in *. rewrite H. reflexivity.
  - rewrite map_last_cons by discriminate. cbn [map]. f_equal. apply IH. exact H.
Qed.
Lemma map_map_head {B} (f : page -> B) g l : (forall x, f (g x) = f x) -> map f (map_head g l) = map f l.
Proof. intros H. destruct l as [|x r]; [reflexivity|]. cbn [map_head map]. rewrite H. reflexivity. Qed.

Lemma prepared_ck old0 oldl news : news <> [] -> p_complete (last news new_page) = p_complete oldl ->
  map ogg_ck (prepare_new old0 oldl news) = map ogg_ck news.
Proof.
  intros Hne Hc. rewrite prepare_new_eq.
  set (l0 := map_head (ogg_gh old0) (number_from (p_serial old0) (p_sequence old0) news)).
  assert (E0 : map ogg_ck l0 = map ogg_ck news).
  { unfold l0. rewrite map_map_head by (intros x; reflexivity). apply map_number_from. intros x q. reflexivity. }
  rewrite map_map_last_at; [exact E0|].
  unfold ogg_ck. destruct (gl_flags oldl (last l0 new_page)) as (_ & _ & _ & F4). destruct (gl_keeps oldl (last l0 new_page)) as (_ & _ & K3 & _).
  rewrite F4, K3. f_equal.
  assert (X : ogg_ck (last l0 new_page) = ogg_ck (last news new_page)).
  { change (ogg_ck (last l0 new_page)) with (ogg_ck (last l0 new_page)).
    assert (D : ogg_ck new_page = ogg_ck new_page) by reflexivity.
    rewrite <- (ogg_last_map ogg_ck l0 new_page), <- (ogg_last_map ogg_ck news new_page), E0. reflexivity. }
  unfold ogg_ck in X. injection X as X1 X2. rewrite X1. symmetry. exact Hc.
Qed.

(* the preserving path is taken when the packet lengths are those of the old pages *)
Lemma try_preserve_same_lens packets olds old_packets news :
  to_packets false olds = Ok old_packets -> map (@zlen Z) packets = map (@zlen Z) old_packets ->
  from_packets_try_preserve packets olds = Ok news -> Forall2 ogg_like olds news.
Proof.
  intros T L. unfold from_packets_try_preserve. rewrite T.
  assert (E : list_eqb (map (@zlen Z) packets) (map (@zlen Z) old_packets) = true) by (apply list_eqb_spec; exact L).
  rewrite E. cbn [negb]. destruct (preserve_loop olds (concat packets)) as [ps rest] eqn:P.
  destruct rest; [|discriminate]. intros H. inversion H; subst ps.
  destruct (preserve_loop_like _ _ _ _ P) as (A & _); [|exact A].
  rewrite zlen_concat_data, (data_len_lens _ _ L), (to_packets_total _ _ T). lia.
Qed.

Lemma Forall2_zlen {A B} (R : A -> B -> Prop) a b : Forall2 R a b -> zlen a = zlen b.
Proof. induction 1 as [|x y a b _ _ IH]; [reflexivity|]. rewrite !zlen_cons, IH. reflexivity. Qed.

(* the old file and the new one, page by page *)
Definition ogg_same_or (R : page -> page -> Prop) (p p' : page) : Prop := p' = p \/ R p p'.
Lemma Forall2_refl_or R l : Forall2 (ogg_same_or R) l l.
Proof. induction l; constructor; [left; reflexivity|assumption]. Qed.
Lemma Forall2_app' {A B} (R : A -> B -> Prop) a a' b b' : Forall2 R a a' -> Forall2 R b b' -> Forall2 R (a ++ b) (a' ++ b').
Proof. induction 1; intros H2; [exact H2|]. cbn [app]. constructor; auto. Qed.

Lemma interleave_zip R (run : run_t) : forall news, Forall2 R (map fst run) news ->
  Forall2 (ogg_same_or R) (old_pages_of run) (interleave run news).
Proof.
  induction run as [|[o G] r IH]; intros news H; [constructor|].
  cbn [map fst] in H. inversion H as [|? n ? ns Hn Hr]; subst.
  unfold old_pages_of. cbn [map concat fst snd]. fold (old_pages_of r). destruct r as [|og2 r2].
  - inversion Hr; subst. cbn [interleave app]. unfold old_pages_of. cbn [map concat]. rewrite app_nil_r.
    constructor; [right; exact Hn|apply Forall2_refl_or].
  - change (interleave ((o, G) :: og2 :: r2) (n :: ns)) with (n :: G ++ interleave (og2 :: r2) ns).
    cbn [app]. constructor; [right; exact Hn|]. apply Forall2_app'; [apply Forall2_refl_or|apply IH; exact Hr].
Qed.

Lemma ogg_Forall2_impl {A B} (R R' : A -> B -> Prop) a b : (forall x y, R x y -> R' x y) -> Forall2 R a b -> Forall2 R' a b.
Proof. intros H. induction 1; constructor; auto. Qed.

Lemma zlen_render_all l : zlen (render_all l) = fold_right (fun n acc => n + acc) 0 (map page_size l).
Proof.
  induction l as [|p r IH]; [reflexivity|]. rewrite render_all_cons, zlen_app, page_bytes_len, IH. reflexivity.
Qed.

Theorem save_obj_same_size f c t pad cb f' pages :
  ogg_parse f = Ok pages -> ogg_f_streams_ok pages = true ->
  ogg_save_obj f c t pad cb = Ok f' ->
  exists olds news k,
    cut_ok c t pad cb pages olds news k /\ ogg_parse f' = Ok (cut_result k news) /\
    (c <> OFlac -> zlen (cut_d k) = zlen (cut_p0 k) ->
     Forall2 (fun p p' => page_size p' = page_size p /\ (p_serial p <> cut_s k -> p' = p)) pages (cut_result k news) /\
     zlen f' = zlen f).
Proof.
  intros Hp Hs H.
  destruct (save_obj_step f c t pad cb f' pages Hp Hs H) as (olds & news & k & K & P' & _ & _ & _ & _ & NK & _ & _).
  exists olds, news, k. split; [exact K|]. split; [exact P'|]. intros Hc Hlen.
  pose proof K as (Ep & Eo & S1 & S2 & S3 & S4 & T & N & F). destruct NK as (Hne & _).
  assert (L : Forall2 ogg_like (map fst (cut_run k)) news).
  { apply (try_preserve_same_lens (cut_d k :: cut_rest k) _ (cut_p0 k :: cut_rest k)); [exact T|cbn [map]; rewrite Hlen; reflexivity|].
    destruct c; try exact F. contradiction. }
  assert (Hcnt : zlen (cut_run k) = zlen news) by (rewrite <- (Forall2_zlen _ _ _ L), zlen_map; reflexivity).
  assert (Erun' : cut_run' k news = cut_run k) by (unfold cut_run'; rewrite Hcnt, Z.eqb_refl; reflexivity).
  (* the prepared pages have the sizes of the old pages and belong to stream s *)
  assert (Emap : map fst (cut_run k) = map fst (cut_a k) ++ [cut_on k]) by (unfold cut_run; rewrite map_app; reflexivity).
  assert (Hne' : map fst (cut_run k) <> []) by (rewrite Emap; destruct (map fst (cut_a k)); discriminate).
  pose proof (like_last _ _ L Hne') as Ll. rewrite Emap, last_last in Ll. destruct Ll as (_ & _ & Cl & _).
  pose proof (prepared_ck (cut_old0 k) (cut_on k) news Hne Cl) as Ck. fold (cut_prepared k news) in Ck.
  set (R := fun o n : page => p_serial o = cut_s k /\ page_size n = page_size o).
  assert (HR : Forall2 R (map fst (cut_run k)) (cut_prepared k news)).
  { assert (X : forall olds0 news0 prep, Forall2 ogg_like olds0 news0 -> map ogg_ck prep = map ogg_ck news0 ->
                Forall (fun o => p_serial o = cut_s k) olds0 -> Forall2 R olds0 prep).
    { induction olds0 as [|o r IH]; intros news0 prep HL HC HS; inversion HL as [|? n ? nr Hl Hr]; subst.
      - destruct prep; [constructor|discriminate].
      - destruct prep as [|q prep']; [discriminate|]. cbn [map] in HC. injection HC as C1 C2. inversion HS; subst.
        constructor; [|eapply IH; eassumption]. split; [assumption|].
        assert (E : ogg_ck q = ogg_ck n) by (unfold ogg_ck; rewrite C1, C2; reflexivity).
        rewrite (page_size_ck q n E). destruct Hl as (_ & _ & Cc & _ & Ln). apply page_size_lens; assumption. }
    apply (X _ news); [exact L|exact Ck|].
    apply Forall_forall. intros o Ho. apply in_map_iff in Ho as (og & <- & Hog). rewrite Forall_forall in S1. exact (S1 og Hog). }
  assert (HF : Forall2 (ogg_same_or R) pages (cut_result k news)).
  { unfold cut_result. rewrite Erun', Ep. apply Forall2_app'; [apply Forall2_refl_or|]. apply interleave_zip. exact HR. }
  assert (HF' : Forall2 (fun p p' => page_size p' = page_size p /\ (p_serial p <> cut_s k -> p' = p)) pages (cut_result k news)).
  { eapply ogg_Forall2_impl; [|exact HF]. intros p p' [->|(Sp & Sz)]; [split; [reflexivity|intros _; reflexivity]|].
    split; [exact Sz|intros X; contradiction]. }
  split; [exact HF'|].
  apply parse_iff in Hp as (-> & _). apply parse_iff in P' as (-> & _). rewrite !zlen_render_all. f_equal.
  clear -HF'. induction HF' as [|p p' l l' (A & _) _ IH]; [reflexivity|]. cbn [map]. rewrite A, IH. reflexivity.
Qed.
