From Coq Require Import ZArith List Bool Lia.
Import ListNotations.
Require Import Base.Py Base.ZList Model.InfoBase Model.InfoFlac Proofs.C05_bits.
Open Scope Z_scope.

Definition valid_flac (p : flac_p) : Prop :=
  0 <= fl_minbs p < 65536 /\ 0 <= fl_maxbs p < 65536 /\
  0 <= fl_minfs p < 16777216 /\ 0 <= fl_maxfs p < 16777216 /\
  1 <= fl_rate p < 1048576 /\ 1 <= fl_channels p <= 8 /\ 1 <= fl_bps p <= 32 /\
  0 <= fl_total p < 68719476736 /\ 0 <= fl_md5 p < 340282366920938463463374607431768211456.

Theorem flac_streaminfo p : valid_flac p ->
  decode_flac_streaminfo (build_flac_streaminfo p) = Ok (expected_flac p).
Proof.
  destruct p as [a b c d r ch bps t m]. unfold valid_flac, expected_flac, build_flac_streaminfo, decode_flac_streaminfo, flac_word.
  cbn [fl_minbs fl_maxbs fl_minfs fl_maxfs fl_rate fl_channels fl_bps fl_total fl_md5].
  intros (Ha & Hb & Hc & Hd & Hr & Hch & Hbps & Ht & Hm).
  rewrite if_false by reflexivity.
  layout.
  remember (r * 17592186044416 + (ch - 1) * 2199023255552 + (bps - 1) * 68719476736 + t) as w eqn:Ew.
  assert (Hw : 0 <= w < 18446744073709551616) by lia.
  rewrite if_false.
  2:{ apply Z.eqb_neq. lia. }
  f_equal. list_lia.
Qed.

(* a sample rate of 0 is rejected whatever the other fields are *)
Theorem flac_rate0_rejected a b c d ch bps t m :
  0 <= a < 65536 -> 0 <= b < 65536 -> 0 <= c < 16777216 -> 0 <= d < 16777216 ->
  1 <= ch <= 8 -> 1 <= bps <= 32 -> 0 <= t < 68719476736 -> 0 <= m < 340282366920938463463374607431768211456 ->
  decode_flac_streaminfo (build_flac_streaminfo (mkFlacP a b c d 0 ch bps t m)) = Raise EMutagen.
Proof.
  intros Ha Hb Hc Hd Hch Hbps Ht Hm.
  unfold build_flac_streaminfo, decode_flac_streaminfo, flac_word.
  cbn [fl_minbs fl_maxbs fl_minfs fl_maxfs fl_rate fl_channels fl_bps fl_total fl_md5].
  rewrite if_false by reflexivity.
  layout.
  remember (0 * 17592186044416 + (ch - 1) * 2199023255552 + (bps - 1) * 68719476736 + t) as w eqn:Ew.
  assert (Hw : 0 <= w < 18446744073709551616) by lia.
  rewrite if_true; [reflexivity|]. apply Z.eqb_eq. lia.
Qed.

(* StreamInfo.write is inverted by StreamInfo.load, for every attribute value within the field widths *)
Theorem flac_write_read p : valid_flac p ->
  exists bytes, flac_streaminfo_write p = Ok bytes /\ zlen bytes = 34 /\
                decode_flac_streaminfo bytes = Ok (expected_flac p).
Proof.
  destruct p as [a b c d r ch bps t m]. unfold valid_flac, expected_flac, flac_streaminfo_write.
  cbn [fl_minbs fl_maxbs fl_minfs fl_maxfs fl_rate fl_channels fl_bps fl_total fl_md5].
  intros (Ha & Hb & Hc & Hd & Hr & Hch & Hbps & Ht & Hm).
  unfold pack_I_tail, bchr_r.
  repeat (rewrite if_true; [|apply andb_true_iff; split; [apply Z.leb_le; lia | apply Z.ltb_lt; lia]]; cbn [rbind]).
  eexists. split; [reflexivity|]. split; [reflexivity|].
  unfold decode_flac_streaminfo. rewrite if_false by reflexivity. layout.
  rewrite if_false.
  2:{ apply Z.eqb_neq. lia. }
  f_equal. list_lia.
Qed.

(* ... and it produces exactly the block of the specification *)
Theorem flac_write_is_spec p : valid_flac p -> flac_streaminfo_write p = Ok (build_flac_streaminfo p).
Proof.
  destruct p as [a b c d r ch bps t m]. unfold valid_flac, flac_streaminfo_write, build_flac_streaminfo, flac_word.
  cbn [fl_minbs fl_maxbs fl_minfs fl_maxfs fl_rate fl_channels fl_bps fl_total fl_md5].
  intros (Ha & Hb & Hc & Hd & Hr & Hch & Hbps & Ht & Hm).
  unfold pack_I_tail, bchr_r.
  repeat (rewrite if_true; [|apply andb_true_iff; split; [apply Z.leb_le; lia | apply Z.ltb_lt; lia]]; cbn [rbind]).
  layout.
  remember (r * 17592186044416 + (ch - 1) * 2199023255552 + (bps - 1) * 68719476736 + t) as w eqn:Ew.
  f_equal. do 19 (apply (f_equal2 (@cons Z)); [lia|]). clear -Hm. list_lia_dd.
Qed.
