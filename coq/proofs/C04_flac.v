(* Proofs.C04_flac -- totality of the FLAC.load mirror (Model.Parse_flac).
   StrictFileObject.read(n) either returns exactly n bytes that lie inside the data or raises error; every metadata
   block starts with 4 such bytes and every Vorbis comment with 4, so len + 1 rounds of fuel are never used up. *)
From Coq Require Import ZArith List Bool Lia.
Import ListNotations.
Require Import Base.Py Base.ZList Model.Parse_base Model.Parse_musepack Model.Parse_vcomment Model.Parse_flac
  Proofs.C04_lib Proofs.C04_musepack.
Open Scope Z_scope.

Definition sreadQ (d : list Z) (p n : Z) : list Z -> Z -> Prop :=
  fun r p' => zlen r = n /\ bytes_ok r /\ p' = p + n /\ (0 < n -> p + n <= zlen d).

Lemma s_read_spec (E : exc -> Prop) n d p : E EMutagen -> bytes_ok d -> 0 <= n < c04_two62 -> 0 <= p ->
  pspecE E (s_read n) d p (sreadQ d p n).
Proof.
  intros HEM Hd Hn Hp. unfold s_read. unfold c04_two62 in *. pose proof (zlen_nonneg d).
  pstep. pstep.
  replace (0 <=? n) with true by (symmetry; apply Z.leb_le; lia). cbn [andb].
  destruct (zlen r =? n) eqn:E1; cbn [negb]; [|apply pspecE_raise; exact HEM]. apply Z.eqb_eq in E1.
  pstep. unfold sreadQ. split; [assumption|]. split; [apply bytes_ok_rd; assumption|]. lia.
Qed.

Lemma psub_spec {A} (E : exc -> Prop) (m : P A) data d p (Q : A -> Z -> Prop) :
  pspecE E m data 0 (fun a _ => Q a p) -> pspecE E (psub m data) d p Q.
Proof. unfold pspecE, psub. destruct (m data 0) as [[a|e] p']; auto. Qed.

(* `x <~ s_read n ;; k` *)
Ltac sread :=
  apply pspecE_bind; eapply pspecE_post;
  [apply s_read_spec; first [assumption | reflexivity | (left; reflexivity) | lia | (unfold c04_two62 in *; lia)]
  | let r := fresh "r" in let p' := fresh "p" in
    let H1 := fresh "Hl" in let H2 := fresh "Hb" in let H3 := fresh "Hp" in let H4 := fresh "Hi" in
    intros r p' (H1 & H2 & H3 & H4); cbv beta ].

Lemma be4_bound l : bytes_ok l -> zlen l <= 4 -> 0 <= be_decode l < 4294967296.
Proof.
  intros Hb Hl. pose proof (be_decode_bound l Hb). pose proof (zlen_nonneg l).
  assert (256 ^ zlen l <= 256 ^ 4) by (apply Z.pow_le_mono_r; lia). change (256 ^ 4) with 4294967296 in *. lia.
Qed.
Lemma le4_bound l : bytes_ok l -> zlen l <= 4 -> 0 <= le_decode l < 4294967296.
Proof.
  intros Hb Hl. pose proof (le_decode_bound l Hb). pose proof (zlen_nonneg l).
  assert (256 ^ zlen l <= 256 ^ 4) by (apply Z.pow_le_mono_r; lia). change (256 ^ 4) with 4294967296 in *. lia.
Qed.

Lemma flac_streaminfo_spec d p : bytes_ok d -> 0 <= p -> pspec flac_streaminfo d p (fun _ _ => True).
Proof.
  intros Hd Hp. unfold flac_streaminfo.
  sread. sread. sread. sread. sread. sread. sread. cbv zeta.
  destruct (be_decode r3 * 16 + be_decode r4 / 16 =? 0) eqn:E0; [praiseM|].
  sread. pstep. exact I.
Qed.

Lemma flac_cue_indexes_spec d : bytes_ok d -> forall n p, 0 <= p -> pspec (flac_cue_indexes n) d p (fun _ p' => 0 <= p').
Proof.
  intros Hd. induction n as [|n IH]; intros p Hp; cbn [flac_cue_indexes]; [pstep; exact Hp|].
  sread. apply IH. lia.
Qed.
Lemma flac_cue_tracks_spec d : bytes_ok d -> forall n p, 0 <= p -> pspec (flac_cue_tracks n) d p (fun _ p' => 0 <= p').
Proof.
  intros Hd. induction n as [|n IH]; intros p Hp; cbn [flac_cue_tracks]; [pstep; exact Hp|].
  sread. rewrite Hl. cbn [Z.eqb Pos.eqb negb].
  pstep. eapply pspecE_post; [apply flac_cue_indexes_spec; [assumption|lia]|].
  intros _u p' Hp'. cbv beta. apply IH. exact Hp'.
Qed.
Lemma flac_cuesheet_spec d p : bytes_ok d -> 0 <= p -> pspec flac_cuesheet d p (fun _ _ => True).
Proof.
  intros Hd Hp. unfold flac_cuesheet.
  sread. rewrite Hl. cbn [Z.eqb Pos.eqb negb]. cbv zeta.
  pstep. eapply pspecE_post; [apply flac_cue_tracks_spec; [assumption|lia]|].
  intros _u p' Hp'. cbv beta. pstep. exact I.
Qed.

Lemma flac_picture_spec d p : bytes_ok d -> 0 <= p -> zlen d < c04_two62 -> p <= zlen d ->
  pspec flac_picture d p (fun _ p' => p <= p' <= zlen d).
Proof.
  intros Hd Hp Hlen Hpl. unfold flac_picture. unfold c04_two62 in *.
  sread. rewrite Hl. cbn [Z.eqb Pos.eqb negb].
  pose proof (be4_bound (zslice 4 8 r) (bytes_ok_zslice _ _ _ Hb) ltac:(rewrite zlen_zslice; lia)).
  sread. sread. rewrite Hl1. cbn [Z.eqb Pos.eqb negb].
  pose proof (be4_bound r1 Hb1 ltac:(lia)).
  sread. sread. rewrite Hl3. cbn [Z.eqb Pos.eqb negb].
  pose proof (be4_bound (zslice 16 20 r3) (bytes_ok_zslice _ _ _ Hb3) ltac:(rewrite zlen_zslice; lia)).
  sread. pstep. lia.
Qed.

Lemma flac_vc_loop_spec d : bytes_ok d -> zlen d < c04_two62 -> forall fuel i count kept p,
  0 <= p <= zlen d -> 1 <= Z.of_nat fuel -> zlen d + 2 - p <= Z.of_nat fuel ->
  pspecE (fun e => e = EMutagen \/ vc_is_cdata_or_type e = true) (flac_vc_loop fuel i count kept) d p
         (fun _ p' => p <= p' <= zlen d).
Proof.
  intros Hd Hlen. induction fuel as [|f IH]; intros i count kept p Hp Hf1 Hf; [lia|].
  cbn [flac_vc_loop]. unfold c04_two62 in *.
  destruct (count <=? i); [pstep; lia|].
  sread. rewrite unpack_le_ok by assumption. apply pspecE_bind. apply pspecE_lift. cbv beta.
  pose proof (le4_bound r Hb ltac:(lia)).
  apply pspecE_bind.
  apply pspecE_catchM with (c := vc_is_overflow_or_memory); [left; reflexivity|].
  eapply pspecE_post; [apply s_read_spec; first [assumption | (left; left; reflexivity) | lia | (unfold c04_two62; lia)]|].
  intros s p1 (S1 & S2 & S3 & S4). cbv beta.
  eapply pspecE_post; [apply IH; lia|]. intros k p2 Hp2. cbv beta in Hp2. lia.
Qed.

Lemma flac_vcomment_spec d fuel p : bytes_ok d -> zlen d < c04_two62 ->
  0 <= p <= zlen d -> 1 <= Z.of_nat fuel -> zlen d + 2 - p <= Z.of_nat fuel ->
  pspec (flac_vcomment fuel) d p (fun _ p' => p <= p' <= zlen d).
Proof.
  intros Hd Hlen Hp Hf1 Hf. unfold flac_vcomment. unfold c04_two62 in *.
  apply pspec_catchM.
  sread. rewrite unpack_le_ok by assumption. apply pspecE_bind. apply pspecE_lift. cbv beta.
  pose proof (le4_bound r Hb ltac:(lia)).
  sread. sread. rewrite unpack_le_ok by assumption. apply pspecE_bind. apply pspecE_lift. cbv beta.
  eapply pspecE_post; [apply flac_vc_loop_spec; first [assumption | lia | (unfold c04_two62; lia)]|].
  intros k p' Hp'. cbv beta in Hp'. lia.
Qed.

Lemma flac_read_block_spec d fuel st p : bytes_ok d -> zlen d < c04_two62 ->
  0 <= p <= zlen d -> Z.of_nat fuel = zlen d + 1 ->
  pspec (flac_read_block fuel st) d p (fun _ p' => p + 4 <= p' <= zlen d).
Proof.
  intros Hd Hlen Hp Hfuel. unfold flac_read_block. unfold c04_two62 in *.
  sread.
  apply pspecE_bind. apply pspecE_post with (Q := fun _ p' => p' = p0).
  { destruct r as [|x [|y t]]; [exfalso; unfold zlen in Hl; cbn [length] in Hl; lia | pstep; reflexivity | exfalso; unfold zlen in Hl; cbn [length] in Hl; lia]. }
  intros byte p1 ->. cbv beta.
  sread. cbv zeta.
  pose proof (be4_bound r0 Hb0 ltac:(lia)).
  destruct (byte mod 128 =? 4).
  { pstep. eapply pspecE_post; [apply flac_vcomment_spec; first [assumption | lia | (unfold c04_two62; lia)]|].
    intros k p' Hp'. cbv beta in Hp'. cbv beta. pstep. lia. }
  destruct (byte mod 128 =? 6).
  { pstep. eapply pspecE_post; [apply flac_picture_spec; first [assumption | lia | (unfold c04_two62; lia)]|].
    intros k p' Hp'. cbv beta in Hp'. cbv beta. pstep. lia. }
  sread.
  destruct (byte mod 128 =? 0).
  { pstep. apply psub_spec. eapply pspecE_post; [apply flac_streaminfo_spec; [assumption|lia]|].
    intros info p' _. cbv beta. pstep. lia. }
  destruct (byte mod 128 =? 5).
  { pstep. apply psub_spec. eapply pspecE_post; [apply flac_cuesheet_spec; [assumption|lia]|].
    intros n p' _. cbv beta. destruct (fl_cue st); [praiseM|pstep; lia]. }
  destruct (byte mod 128 =? 3).
  { destruct (fl_seek st); [praiseM|pstep; lia]. }
  pstep. lia.
Qed.

Lemma flac_blocks_spec d fuel : bytes_ok d -> zlen d < c04_two62 -> Z.of_nat fuel = zlen d + 1 -> forall n st p,
  0 <= p <= zlen d -> 1 <= Z.of_nat n -> zlen d + 2 - p <= Z.of_nat n ->
  pspec (flac_blocks fuel n st) d p (fun _ p' => 0 <= p').
Proof.
  intros Hd Hlen Hfuel. induction n as [|n IH]; intros st p Hp Hn1 Hn; [lia|].
  cbn [flac_blocks].
  pstep. eapply pspecE_post; [apply flac_read_block_spec; assumption|].
  intros [more st'] p' Hp'. cbv beta iota.
  destruct more; [apply IH; lia|pstep; lia].
Qed.

Lemma flac_check_header_spec d p : bytes_ok d -> 0 <= p <= zlen d -> zlen d < c04_two62 ->
  pspec flac_check_header d p (fun _ p' => 1 <= p' <= zlen d).
Proof.
  intros Hd Hp Hlen. unfold flac_check_header. unfold c04_two62 in *.
  sread. destruct (list_eqb r flac_fLaC); [pstep; lia|].
  destruct (list_eqb (zslice 0 3 r) flac_ID3); [|praiseM].
  sread. cbv zeta.
  pose proof (bpi7_bound (zdrop 2 r0) ltac:(rewrite zlen_zdrop by lia; lia)).
  pstep. pstep.
  sread. destruct (list_eqb r1 flac_fLaC); [pstep; lia|praiseM].
Qed.

Theorem flac_total d : c04_input d -> total (flac_load d).
Proof.
  intros [Hd Hlen]. unfold flac_load. eapply total_prun with (Q := fun _ _ => True).
  unfold flac_init. apply pspec_convert_io. pose proof (zlen_nonneg d).
  assert (Hfuel : Z.of_nat (lin_fuel 1 1 d) = zlen d + 1) by (unfold lin_fuel; lia).
  pstep. eapply pspecE_post; [apply flac_check_header_spec; first [assumption | lia]|].
  intros hsz p1 Hp1. cbv beta in Hp1. cbv beta.
  pstep. eapply pspecE_post; [apply flac_blocks_spec; first [assumption | lia]|].
  intros st p2 Hp2. cbv beta.
  destruct (fl_info st) as [info|]; [|praiseM]. cbv zeta. unfold c04_two62 in *.
  pstep. apply pspecE_post with (Q := fun _ _ => True); [|intros [has n] p3 _; pstep; exact I].
  destruct (nth 5 info 0 =? 0) eqn:Et; cbn [negb]; [pstep; exact I|].
  pstep. pstep. pstep. pstep. pstep. pstep. pstep. exact I.
Qed.
