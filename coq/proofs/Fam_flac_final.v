(* FLAC family: the statements exported to props/C0x_flac.v, in self-contained form *)
From Coq Require Import ZArith List Bool Lia.
Import ListNotations.
Require Import Base.Py Base.ZList Gen.Gen_tags Model.Splice Model.Fam_flac
  Proofs.Fam_flac_codec Proofs.Fam_flac_walk Proofs.Fam_flac_save Proofs.Fam_flac_thms.
Open Scope Z_scope.

(* C02: one save *)
Lemma final_save_preserves f t o f' : flac_wf f = true -> o_deleteid3 o = false -> flac_save f t o = Ok f' ->
  exists s s', flac_parse f = Ok s /\ flac_parse f' = Ok s' /\
    fprefix s' = fprefix s /\ foreign_blocks (fblocks s') = foreign_blocks (fblocks s) /\ faudio s' = faudio s /\
    hd_error (fblocks s') = hd_error (fblocks s).
Proof.
  intros Hwf Hd Hs. destruct (wf_parse f Hwf) as (s & Hp & Hw).
  destruct (save_foreign f s t o f' Hp Hw Hd Hs) as (s' & Hp' & A & B & C & D). exists s, s'. auto 10.
Qed.
Lemma final_delete_preserves f f' : flac_wf f = true -> flac_delete f = Ok f' ->
  exists s s', flac_parse f = Ok s /\ flac_parse f' = Ok s' /\
    fprefix s' = fprefix s /\ foreign_blocks (fblocks s') = foreign_blocks (fblocks s) /\ faudio s' = faudio s /\
    hd_error (fblocks s') = hd_error (fblocks s).
Proof.
  intros Hwf Hd. destruct (wf_parse f Hwf) as (s & Hp & Hw).
  destruct (delete_foreign f s f' Hp Hw Hd) as (s' & Hp' & A & B & C & D). exists s, s'. auto 10.
Qed.
Lemma final_history_preserves ops f : flac_wf f = true ->
  exists s s', flac_parse f = Ok s /\ flac_parse (fold_left flac_step ops f) = Ok s' /\
    fprefix s' = fprefix s /\ foreign_blocks (fblocks s') = foreign_blocks (fblocks s) /\ faudio s' = faudio s /\
    hd_error (fblocks s') = hd_error (fblocks s).
Proof.
  intros Hwf. destruct (history_preserved ops f Hwf) as (s & s' & Hp & Hp' & A & B & C & D). exists s, s'. auto 10.
Qed.
(* byte level: the prefix with the stream marker stays where it is, the audio is the same suffix *)
Lemma final_save_bytes f s t o f' : flac_wf f = true -> flac_parse f = Ok s -> o_deleteid3 o = false ->
  flac_save f t o = Ok f' ->
  ztake (zlen (fprefix s) + 4) f' = ztake (zlen (fprefix s) + 4) f /\
  zdrop (zlen f' - zlen (faudio s)) f' = faudio s /\ zdrop (zlen f - zlen (faudio s)) f = faudio s.
Proof.
  intros Hwf Hp Hd Hs. destruct (wf_parse f Hwf) as (s0 & Hp0 & Hw). rewrite Hp in Hp0. inversion Hp0; subst s0.
  destruct (save_size f s t o f' Hp Hw Hd Hs) as (_ & A & B & C). auto.
Qed.

(* C03: the format's rendering rule -- size field = extent, last-block flag on the final block only *)
Lemma final_wf_layout f : flac_wf f = true ->
  exists s front final, flac_parse f = Ok s /\ fblocks s = front ++ [final] /\
    f = fprefix s ++ MAGIC ++ flat_map (fun b => render_block b false) front ++ render_block final true ++ faudio s /\
    exists b0 r, fblocks s = b0 :: r /\ bcode b0 = 0 /\ zlen (bdata b0) = 34.
Proof.
  intros Hwf. destruct (wf_parse f Hwf) as (s & Hp & Hw).
  destruct (struct_facts f s Hp Hw) as [Hl _ Hne _ Hok (b0 & r & Hb & Hc) _ _ _ _ _].
  destruct (exists_last Hne) as (front & final & Hsplit).
  exists s, front, final. split; [exact Hp|]. split; [exact Hsplit|]. split.
  - rewrite Hl at 1. unfold layout. rewrite Hsplit, render_blocks_snoc, <- app_assoc. reflexivity.
  - exists b0, r. split; [exact Hb|]. split; [exact Hc|].
    rewrite Hb in Hok. cbn [forallb] in Hok. apply andb_true_iff in Hok as [Hok _].
    unfold block_ok in Hok. cbv zeta in Hok. apply andb_true_iff in Hok as [_ Hok].
    replace (bcode b0 =? 0) with true in Hok by lia. apply andb_true_iff in Hok as [Hok _]. lia.
Qed.

(* C07 with the default policy *)
Lemma final_idempotent_default f t f1 : flac_wf f = true -> flac_save f t (mkOpts None false) = Ok f1 ->
  flac_save f1 t (mkOpts None false) = Ok f1.
Proof.
  intros Hwf Hs. apply (save_idempotent f t None f1 Hwf Hs). intros s _. apply default_pad_stable. apply zlen_nonneg.
Qed.

(* C08 *)
Lemma final_delete_padding f f' : flac_wf f = true -> flac_load f <> Ok None -> flac_delete f = Ok f' ->
  exists s', flac_parse f' = Ok s' /\ flac_padding s' = 0 /\ existsb is_vcb (fblocks s') = false.
Proof.
  intros Hwf Hl Hd. destruct (wf_parse f Hwf) as (s & Hp & Hw).
  apply (delete_padding f s f' Hp Hw); [|exact Hd].
  destruct (existsb is_vcb (fblocks s)) eqn:E; [reflexivity|]. exfalso. apply Hl.
  unfold flac_load. rewrite Hp. rewrite existsb_find_none by exact E. reflexivity.
Qed.
Lemma final_delete_size f s f' : flac_wf f = true -> flac_parse f = Ok s -> existsb is_vcb (fblocks s) = true ->
  flac_delete f = Ok f' ->
  zlen f' = zlen f - blocks_extent (filter is_vcb (fblocks s)) - blocks_extent (filter is_pad (fblocks s)) + 4.
Proof.
  intros Hwf Hp E Hd. destruct (wf_parse f Hwf) as (s0 & Hp0 & Hw). rewrite Hp in Hp0. inversion Hp0; subst s0.
  apply (delete_size f s f' Hp Hw E Hd).
Qed.
Lemma final_retag f f' t o : flac_wf f = true -> flac_delete f = Ok f' -> o_deleteid3 o = false ->
  vc_valid t = true -> vc_fits32 t = true -> zlen (vc_render t) <= MAXSZ ->
  exists f'', flac_save f' t o = Ok f'' /\ flac_load f'' = Ok (Some t) /\ flac_wf f'' = true.
Proof.
  intros Hwf Hd Ho Hv Hf Hsz. pose proof (delete_wf f f' Hwf Hd) as Hwf'.
  destruct (save_total f' t o Hwf' Ho Hv Hf Hsz) as (f'' & Hs). exists f''. split; [exact Hs|].
  split; [apply (save_load f' t o f'' Hwf' Ho Hs)|apply (save_wf f' t o f'' Hwf' Ho Hs)].
Qed.

(* C09 *)
Lemma final_save_padding f s t o f' : flac_wf f = true -> flac_parse f = Ok s -> o_deleteid3 o = false ->
  flac_save f t o = Ok f' ->
  info_padding s t = (zlen f - zlen (fprefix s) - 4 - zlen (faudio s)) -
                     (blocks_extent (nonpad (set_vc (fblocks s) (vc_render t))) + 4) /\
  exists s', flac_parse f' = Ok s' /\
    flac_padding s' = Z.max 0 (Z.min (_get_padding (o_cb o) (info_padding s t) (zlen (faudio s))) MAXSZ) /\
    zlen f' = zlen f - info_padding s t + flac_padding s'.
Proof.
  intros Hwf Hp Hd Hs. destruct (wf_parse f Hwf) as (s0 & Hp0 & Hw). rewrite Hp in Hp0. inversion Hp0; subst s0.
  split; [unfold info_padding; rewrite (old_region f s Hp); reflexivity|].
  destruct (save_padding f s t o f' Hp Hw Hd Hs) as (s' & Hp' & Hpad). exists s'. split; [exact Hp'|]. split; [exact Hpad|].
  rewrite Hpad. apply (save_size f s t o f' Hp Hw Hd Hs).
Qed.
Lemma final_save_keep f s t o f' : flac_wf f = true -> flac_parse f = Ok s -> o_deleteid3 o = false ->
  flac_save f t o = Ok f' ->
  _get_padding (o_cb o) (info_padding s t) (zlen (faudio s)) = info_padding s t -> 0 <= info_padding s t <= MAXSZ ->
  zlen f' = zlen f /\
  ztake (zlen (fprefix s) + 4) f' = ztake (zlen (fprefix s) + 4) f /\
  zdrop (zlen f - zlen (faudio s)) f' = zdrop (zlen f - zlen (faudio s)) f.
Proof.
  intros Hwf Hp Hd Hs. destruct (wf_parse f Hwf) as (s0 & Hp0 & Hw). rewrite Hp in Hp0. inversion Hp0; subst s0.
  apply (save_keep f s t o f' Hp Hw Hd Hs).
Qed.
Lemma final_fits_moderate f s t f' : flac_wf f = true -> flac_parse f = Ok s ->
  flac_save f t (mkOpts None false) = Ok f' -> 0 <= info_padding s t <= 1024 ->
  zlen f' = zlen f /\
  ztake (zlen (fprefix s) + 4) f' = ztake (zlen (fprefix s) + 4) f /\
  zdrop (zlen f - zlen (faudio s)) f' = zdrop (zlen f - zlen (faudio s)) f.
Proof.
  intros Hwf Hp Hs. destruct (wf_parse f Hwf) as (s0 & Hp0 & Hw). rewrite Hp in Hp0. inversion Hp0; subst s0.
  apply (save_fits_moderate f s t f' Hp Hw Hs).
Qed.
