(* C05 -- tactics for byte-layout proofs: reduce the list structure of `decode (build p)` with a
   delta whitelist (never touching Z arithmetic on symbolic field values), then close the remaining
   div/mod arithmetic with lia (Euclidean-division hook). *)
From Coq Require Import ZArith List Bool Lia.
Import ListNotations.
Require Import Base.Py Base.ZList Model.InfoBase.
Open Scope Z_scope.

Ltac Zify.zify_post_hook ::= Z.to_euclidean_division_equations.

(* structural reduction of slicing / codecs over lists whose spine is concrete *)
Ltac layout :=
  cbv [sub_at le_at be_at byte_at firstn skipn app nth rev le_encode be_encode le_decode be_decode be_decode_acc
       Nat.sub hd tl].

Lemma if_true {A} (c : bool) (a b : A) : c = true -> (if c then a else b) = a.
Proof. intros ->; reflexivity. Qed.
Lemma if_false {A} (c : bool) (a b : A) : c = false -> (if c then a else b) = b.
Proof. intros ->; reflexivity. Qed.

Ltac eqb_false := apply Z.eqb_neq; lia.
Ltac eqb_true := apply Z.eqb_eq; lia.

(* element-wise proof of an equality between two lists with the same concrete spine *)
Ltac list_lia := repeat (apply (f_equal2 (@cons Z)); [lia|]); try reflexivity.
Ltac list_lia_timed := repeat (apply (f_equal2 (@cons Z)); [time (timeout 60 lia)|]); try reflexivity.

(* same after folding chains of divisions a / b / c into a / (b * c) (much easier for lia) *)
Ltac list_lia_dd := rewrite !Z.div_div by lia; list_lia.
