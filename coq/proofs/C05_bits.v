(* C05 -- tactics for byte-layout proofs: reduce the list structure of `decode (build p)` with a
   delta whitelist (never touching Z arithmetic on symbolic field values), then close the remaining
   div/mod arithmetic with lia (Euclidean-division hook). *)
From Coq Require Import ZArith List Bool Lia.
Import ListNotations.
Require Import Base.Py Base.ZList Model.InfoBase.
Open Scope Z_scope.

Ltac Zify.zify_post_hook ::= Z.to_euclidean_division_equations.

(* structural reduction of slicing / codecs over lists whose spine is concrete *)
Ltac layout :=
  cbv [sub_at le_at be_at byte_at firstn skipn app rev le_encode be_encode le_decode be_decode be_decode_acc List.repeat
       Nat.sub].

Lemma if_true {A} (c : bool) (a b : A) : c = true -> (if c then a else b) = a.
Proof. intros ->; reflexivity. Qed.
Lemma if_false {A} (c : bool) (a b : A) : c = false -> (if c then a else b) = b.
Proof. intros ->; reflexivity. Qed.

Ltac eqb_false := apply Z.eqb_neq; lia.
Ltac eqb_true := apply Z.eqb_eq; lia.

(* element-wise proof of an equality between two lists with the same concrete spine *)
Ltac list_lia := repeat (apply (f_equal2 (@cons Z)); [lia|]); try reflexivity.
Ltac list_lia_timed := repeat (apply (f_equal2 (@cons Z)); [time (timeout 60 lia)|]); try reflexivity.

(* same after folding chains of divisions a / b / c into a / (b * c) (much easier for lia) *)
Ltac list_lia_dd := rewrite !Z.div_div by lia; list_lia.

(* decode (encode v) = v in the shape `layout` leaves behind *)
Lemma le1_eq v : 0 <= v < 256 -> v mod 256 + 256 * 0 = v. Proof. lia. Qed.
Lemma le2_eq v : 0 <= v < 65536 -> v mod 256 + 256 * ((v / 256) mod 256 + 256 * 0) = v. Proof. lia. Qed.
Lemma le4_eq v : 0 <= v < 4294967296 ->
  v mod 256 + 256 * ((v / 256) mod 256 + 256 * ((v / 256 / 256) mod 256 + 256 * ((v / 256 / 256 / 256) mod 256 + 256 * 0))) = v.
Proof. lia. Qed.
Lemma le6_eq v : 0 <= v < 281474976710656 ->
  v mod 256 + 256 * ((v / 256) mod 256 + 256 * ((v / 256 / 256) mod 256 + 256 * ((v / 256 / 256 / 256) mod 256 + 256 *
  ((v / 256 / 256 / 256 / 256) mod 256 + 256 * ((v / 256 / 256 / 256 / 256 / 256) mod 256 + 256 * 0))))) = v.
Proof. lia. Qed.
Lemma le8_eq v : 0 <= v < 18446744073709551616 ->
  v mod 256 + 256 * ((v / 256) mod 256 + 256 * ((v / 256 / 256) mod 256 + 256 * ((v / 256 / 256 / 256) mod 256 + 256 *
  ((v / 256 / 256 / 256 / 256) mod 256 + 256 * ((v / 256 / 256 / 256 / 256 / 256) mod 256 + 256 *
  ((v / 256 / 256 / 256 / 256 / 256 / 256) mod 256 + 256 * ((v / 256 / 256 / 256 / 256 / 256 / 256 / 256) mod 256 + 256 * 0))))))) = v.
Proof. lia. Qed.
Lemma be2_eq v : 0 <= v < 65536 -> (0 * 256 + (v / 256) mod 256) * 256 + v mod 256 = v. Proof. lia. Qed.
Lemma be3_eq v : 0 <= v < 16777216 -> ((0 * 256 + (v / 256 / 256) mod 256) * 256 + (v / 256) mod 256) * 256 + v mod 256 = v.
Proof. lia. Qed.
Lemma be4_eq v : 0 <= v < 4294967296 ->
  (((0 * 256 + (v / 256 / 256 / 256) mod 256) * 256 + (v / 256 / 256) mod 256) * 256 + (v / 256) mod 256) * 256 + v mod 256 = v.
Proof. lia. Qed.

(* each tactic backtracks over all instances of its pattern until the range side condition holds *)
Ltac de_le8 := match goal with |- context [?v mod 256 + 256 * ((?v / 256) mod 256 + 256 * ((?v / 256 / 256) mod 256 + 256 *
  ((?v / 256 / 256 / 256) mod 256 + 256 * ((?v / 256 / 256 / 256 / 256) mod 256 + 256 * ((?v / 256 / 256 / 256 / 256 / 256) mod 256 + 256 *
  ((?v / 256 / 256 / 256 / 256 / 256 / 256) mod 256 + 256 * ((?v / 256 / 256 / 256 / 256 / 256 / 256 / 256) mod 256 + 256 * 0)))))))] =>
  rewrite (le8_eq v) by lia end.
Ltac de_le6 := match goal with |- context [?v mod 256 + 256 * ((?v / 256) mod 256 + 256 * ((?v / 256 / 256) mod 256 + 256 *
  ((?v / 256 / 256 / 256) mod 256 + 256 * ((?v / 256 / 256 / 256 / 256) mod 256 + 256 * ((?v / 256 / 256 / 256 / 256 / 256) mod 256 + 256 * 0)))))] =>
  rewrite (le6_eq v) by lia end.
Ltac de_le4 := match goal with |- context [?v mod 256 + 256 * ((?v / 256) mod 256 + 256 * ((?v / 256 / 256) mod 256 + 256 *
  ((?v / 256 / 256 / 256) mod 256 + 256 * 0)))] => rewrite (le4_eq v) by lia end.
Ltac de_le2 := match goal with |- context [?v mod 256 + 256 * ((?v / 256) mod 256 + 256 * 0)] => rewrite (le2_eq v) by lia end.
Ltac de_be4 := match goal with |- context [(((0 * 256 + (?v / 256 / 256 / 256) mod 256) * 256 + (?v / 256 / 256) mod 256) * 256 +
  (?v / 256) mod 256) * 256 + ?v mod 256] => rewrite (be4_eq v) by lia end.
Ltac de_be3 := match goal with |- context [((0 * 256 + (?v / 256 / 256) mod 256) * 256 + (?v / 256) mod 256) * 256 + ?v mod 256] =>
  rewrite (be3_eq v) by lia end.
Ltac de_be2 := match goal with |- context [(0 * 256 + (?v / 256) mod 256) * 256 + ?v mod 256] => rewrite (be2_eq v) by lia end.
Ltac decode_encode := repeat first [ de_le8 | de_le6 | de_le4 | de_le2 | de_be4 | de_be3 | de_be2 ].

(* resolve the guards of a decoder one by one *)
Ltac guard_false := rewrite if_false by lia.
Ltac guard_true := rewrite if_true by lia.
Ltac guards := repeat first [ rewrite if_false by lia | rewrite if_true by lia ].

(* the fixed-size header at the start of a longer file *)
Lemma sub_at_0_app (n : nat) (h rest : list Z) : length h = n -> sub_at 0 n (h ++ rest) = h.
Proof.
  intros <-. unfold sub_at. cbn [skipn]. rewrite firstn_app, Nat.sub_diag, firstn_all. cbn [firstn]. apply app_nil_r.
Qed.

(* Python list indexing inside the bounds *)
Lemma idx_in i l : 0 <= i < zlen l -> idx i l = Some (nth (Z.to_nat i) l 0).
Proof. intros H. unfold idx. rewrite if_true by lia. reflexivity. Qed.

Lemma ztake_c_app {A} (a b : list A) n : zlen a = n -> ztake_c n (a ++ b) = a.
Proof.
  intros <-. unfold ztake_c. destruct (zlen (a ++ b) <=? zlen a) eqn:E.
  - rewrite zlen_app in E. assert (zlen b = 0) by (pose proof (zlen_nonneg b); lia).
    destruct b; [apply app_nil_r | rewrite zlen_cons in H; pose proof (zlen_nonneg b); lia].
  - apply ztake_app_exact.
Qed.
Lemma zdrop_c_app {A} (a b : list A) n : zlen a = n -> zdrop_c n (a ++ b) = b.
Proof.
  intros <-. unfold zdrop_c. destruct (zlen (a ++ b) <=? zlen a) eqn:E.
  - rewrite zlen_app in E. assert (zlen b = 0) by (pose proof (zlen_nonneg b); lia).
    destruct b; [reflexivity | rewrite zlen_cons in H; pose proof (zlen_nonneg b); lia].
  - apply zdrop_app_exact.
Qed.

