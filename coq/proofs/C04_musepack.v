(* Proofs.C04_musepack -- totality of the MusepackInfo mirror; termination of the SV8 packet loop. *)
From Coq Require Import ZArith List Bool Lia.
Import ListNotations.
Require Import Base.Py Base.ZList Model.Parse_base Model.Parse_musepack Proofs.C04_lib.
Open Scope Z_scope.

Section WithE.
Variable E : exc -> Prop.
Hypothesis HM : E EMutagen.
Variable d : list Z.
Hypothesis Hd : bytes_ok d.
Hypothesis Hlen : zlen d < c04_two62.

Definition Ecatch (e : exc) := E e \/ is_eof_or_value e = true.

(* _parse_sv8_int: reads k - i bytes, all present; the number has at most 7 * limit bits *)
Lemma sv8_int_spec : forall limit num i p, 0 <= p -> 0 <= num ->
  pspecE Ecatch (mpc_sv8_int limit num i) d p
    (fun r p' => p' = p + (snd r - i) /\ i < snd r <= i + Z.of_nat limit /\ p' <= zlen d /\
                 0 <= fst r < (num + 1) * 128 ^ Z.of_nat limit).
Proof.
  induction limit as [|l IH]; intros num i p Hp Hnum.
  - cbn [mpc_sv8_int]. apply pspecE_raise. right. reflexivity.
  - cbn [mpc_sv8_int]. pbind. pread.
    pose proof (rd_len 1 p d Hp ltac:(lia)) as Hr. set (c := rd 1 p d) in *.
    destruct (zlen c =? 1) eqn:E1; cbn [negb].
    2:{ apply pspecE_raise. right. reflexivity. }
    apply Z.eqb_eq in E1.
    pose proof (bytes_ok_znth c 0 (bytes_ok_rd 1 p d Hd)) as Hb.
    assert (Hm : 0 <= znth 0 c mod 128 < 128) by (apply Z.mod_pos_bound; lia).
    assert (Hpow : 128 ^ Z.of_nat (S l) = 128 * 128 ^ Z.of_nat l).
    { rewrite Nat2Z.inj_succ, Z.pow_succ_r by lia. reflexivity. }
    assert (Hpos : 0 < 128 ^ Z.of_nat l) by (apply Z.pow_pos_nonneg; lia).
    destruct (znth 0 c <? 128) eqn:E2.
    + apply pspecE_ret. cbn [fst snd]. rewrite Hpow. repeat split; try lia. nia.
    + eapply pspecE_post; [apply IH; lia|]. intros [n k] p'. cbn [fst snd]. rewrite Hpow.
      intros (A & B & C & D). repeat split; try lia. nia.
Qed.

Lemma parse_sv8_int_spec p : 0 <= p ->
  pspecE Ecatch mpc_parse_sv8_int d p
    (fun r p' => p' = p + snd r /\ 0 < snd r <= 9 /\ p' <= zlen d /\ 0 <= fst r < c04_two63).
Proof.
  intro Hp. eapply pspecE_post; [apply (sv8_int_spec 9 0 0 p Hp); lia|].
  intros [n k] p'. cbn [fst snd]. intros (A & B & C & D).
  change (128 ^ Z.of_nat 9) with c04_two63 in D. lia.
Qed.

Lemma parse_sv8_int_caught p (Q : Z * Z -> Z -> Prop) : 0 <= p ->
  (forall n k p', p' = p + k -> 0 < k <= 9 -> p' <= zlen d -> 0 <= n < c04_two63 -> Q (n, k) p') ->
  pspecE E (pcatch mpc_parse_sv8_int is_eof_or_value (fun _ => praise EMutagen)) d p Q.
Proof.
  intros Hp HQ. apply pspecE_catchM; [exact HM|].
  eapply pspecE_post; [apply parse_sv8_int_spec; exact Hp|].
  intros [n k] p'. cbn [fst snd]. intros (A & B & C & D). apply HQ; assumption.
Qed.

Lemma rate_index_total i p (Q : Z -> Z -> Prop) :
  (forall r, In r mpc_rates -> Q r p) ->
  pspecE E (pcatch (plift (list_index i mpc_rates)) (fun e => exc_eqb e EIndex) (fun _ => praise EMutagen)) d p Q.
Proof.
  intro HQ. apply pspecE_catchM; [exact HM|]. apply pspecE_lift.
  destruct (list_index_cases i mpc_rates) as [(a & -> & Ha)| ->]; [apply HQ; exact Ha|right; reflexivity].
Qed.

Lemma rates_nonzero r : In r mpc_rates -> r <> 0.
Proof. cbn. intros [H|[H|[H|[H|[]]]]]; subst; discriminate. Qed.

Lemma parse_sh_spec st data_size p : 0 <= p <= zlen d -> 0 <= data_size < c04_two63 ->
  pspecE E (mpc_parse_sh st data_size) d p (fun st' p' => p <= p' <= zlen d /\ mi_rate st' <> 0).
Proof.
  intros Hp Hds. unfold mpc_parse_sh. unfold c04_two62 in Hlen.
  pbind. apply pspecE_seek_rel; unfold c04_two63 in *; try lia.
  rewrite Z.max_r by lia.
  pbind. pread. pose proof (rd_len 1 (p + 4) d ltac:(lia) ltac:(lia)) as Hr. set (v := rd 1 (p + 4) d) in *.
  pbind. apply pspecE_catchM; [exact HM|]. apply pspecE_lift.
  unfold index_at. destruct ((0 <=? 0) && (0 <? zlen v)) eqn:E1; [|right; reflexivity].
  apply andb_true_iff in E1. destruct E1 as [_ E1]. apply Z.ltb_lt in E1.
  pbind. apply pspecE_catchM; [exact HM|].
  pbind. eapply pspecE_post; [apply parse_sv8_int_spec; lia|].
  intros [s l1] p1. cbn [fst snd]. intros (A1 & B1 & C1 & D1).
  pbind. eapply pspecE_post; [apply parse_sv8_int_spec; lia|].
  intros [s2 l2] p2. cbn [fst snd]. intros (A2 & B2 & C2 & D2).
  apply pspecE_ret.
  set (remaining := data_size - 4 - 1 - (l1 + l2)).
  pbind. pread.
  destruct (remaining <? 0) eqn:Eneg.
  - apply Z.ltb_lt in Eneg. pose proof (zlen_nonneg (rd remaining p2 d)).
    destruct (zlen (rd remaining p2 d) =? remaining) eqn:E2; [apply Z.eqb_eq in E2; lia|].
    cbn [negb orb]. praiseM.
  - apply Z.ltb_ge in Eneg. pose proof (rd_len remaining p2 d ltac:(lia) Eneg) as Hr2.
    set (data := rd remaining p2 d) in *.
    destruct (zlen data =? remaining) eqn:E2; cbn [negb orb]; [|praiseM].
    apply Z.eqb_eq in E2.
    destruct (zlen data <? 2) eqn:E3; [praiseM|]. apply Z.ltb_ge in E3.
    pbind. apply rate_index_total. intros r Hr0. apply pspecE_ret. cbn [mi_rate].
    split; [lia|apply rates_nonzero; exact Hr0].
Qed.

Lemma parse_rg_spec st data_size p : 0 <= p <= zlen d -> 0 <= data_size < c04_two63 ->
  pspecE E (mpc_parse_rg st data_size) d p (fun st' p' => p <= p' <= zlen d /\ mi_rate st' = mi_rate st).
Proof.
  intros Hp Hds. unfold mpc_parse_rg.
  pbind. pread. pose proof (rd_len data_size p d ltac:(lia) ltac:(lia)) as Hr. set (data := rd data_size p d) in *.
  destruct (data_size <? 9) eqn:E1; [praiseM|]. apply Z.ltb_ge in E1.
  destruct (zlen data =? data_size) eqn:E2; cbn [negb]; [|praiseM]. apply Z.eqb_eq in E2.
  pbind. apply pspecE_unpack_be; [rewrite zlen_zslice; lia|].
  pbind. apply pspecE_unpack_be; [rewrite zlen_zslice; lia|].
  pbind. apply pspecE_unpack_be; [rewrite zlen_zslice; lia|].
  pbind. apply pspecE_unpack_be; [rewrite zlen_zslice; lia|].
  apply pspecE_ret. cbn [mi_rate]. split; [lia|reflexivity].
Qed.

Lemma read_key_spec p (Q : list Z -> Z -> Prop) : 0 <= p ->
  (forall ft, p + 2 <= zlen d -> Q ft (p + 2)) -> pspecE E mpc_read_key d p Q.
Proof.
  intros Hp HQ. unfold mpc_read_key. pbind. pread.
  pose proof (rd_len 2 p d Hp ltac:(lia)) as Hr. set (ft := rd 2 p d) in *.
  destruct (mpc_key_ok ft) eqn:Ek; [|praiseM].
  apply pspecE_ret.
  assert (zlen ft = 2).
  { destruct ft as [|a [|b [|c t]]]; try discriminate Ek. reflexivity. }
  replace (p + zlen ft) with (p + 2) by lia. apply HQ. lia.
Qed.

(* the skip of an unknown packet: try: seek(data_size, 1) except OverflowError: raise error *)
Lemma skip_spec data_size p (Q : unit -> Z -> Prop) : 0 <= p -> 0 <= data_size ->
  (forall p', p <= p' -> Q tt p') ->
  pspecE E (pcatch (p_seek data_size 1) (fun e => exc_eqb e EOverflow) (fun _ => praise EMutagen)) d p Q.
Proof.
  intros Hp Hds HQ. apply pspecE_catchM; [exact HM|]. unfold pspecE, p_seek.
  destruct (in_ssize data_size); cbn [negb]; [|right; reflexivity].
  replace (1 =? 0) with false by reflexivity. replace (1 =? 1) with true by reflexivity.
  destruct (c04_two63 - 1 - p <? data_size); [right; reflexivity|]. apply HQ. lia.
Qed.

Lemma sv8_loop_spec : forall fuel sh rg st ft p,
  0 <= p <= zlen d -> zlen d - p < Z.of_nat fuel -> (sh = false -> mi_rate st <> 0) ->
  pspecE E (mpc_sv8_loop fuel sh rg st ft) d p
    (fun r p' => 0 <= p' /\ (fst (fst r) = false -> mi_rate (snd r) <> 0)).
Proof.
  induction fuel as [|fuel IH]; intros sh rg st ft p Hp Hf Hinv; [lia|].
  cbn [mpc_sv8_loop].
  destruct (list_eqb ft mpc_AP || list_eqb ft mpc_SE || negb (sh || rg)).
  { apply pspecE_ret. cbn [fst snd]. split; [lia|exact Hinv]. }
  pbind. apply parse_sv8_int_caught; [lia|]. intros n k p1 Hp1 Hk Hle Hn.
  destruct (n - 2 - k <? 0) eqn:Eds; [praiseM|]. apply Z.ltb_ge in Eds.
  assert (Hnext : forall sh' rg' st' p2, p1 <= p2 -> (sh' = false -> mi_rate st' <> 0) ->
            pspecE E (ft' <~ mpc_read_key ;; mpc_sv8_loop fuel sh' rg' st' ft') d p2
              (fun r p' => 0 <= p' /\ (fst (fst r) = false -> mi_rate (snd r) <> 0))).
  { intros sh' rg' st' p2 Hp2 Hinv'. pbind. apply read_key_spec; [lia|]. intros ft' Hle2.
    apply IH; [lia|lia|exact Hinv']. }
  pbind.
  destruct (list_eqb ft mpc_SH).
  { destruct sh; cbn [negb]; [|praiseM].
    pbind. eapply pspecE_post; [apply parse_sh_spec; unfold c04_two63 in *; lia|].
    intros st' p2 (A & B). pretn. apply Hnext; [lia|intros _; exact B]. }
  destruct (list_eqb ft mpc_RG).
  { destruct rg; cbn [negb]; [|praiseM].
    pbind. eapply pspecE_post; [apply parse_rg_spec; unfold c04_two63 in *; lia|].
    intros st' p2 (A & B). pretn. apply Hnext; [lia|rewrite B; exact Hinv]. }
  pbind. apply skip_spec; [lia|lia|]. intros p2 Hp2. pretn. apply Hnext; [lia|exact Hinv].
Qed.

Lemma parse_sv8_spec fuel p : 0 <= p <= zlen d -> zlen d < Z.of_nat fuel ->
  pspecE E (mpc_parse_sv8 fuel) d p (fun st p' => 0 <= p').
Proof.
  intros Hp Hf. unfold mpc_parse_sv8.
  pbind. apply read_key_spec; [lia|]. intros ft Hle.
  pbind. eapply pspecE_post; [apply sv8_loop_spec; [lia|lia|discriminate]|].
  intros [[sh rg] st] p'. cbn [fst snd]. intros (A & B).
  destruct (sh || rg) eqn:Es; [praiseM|]. apply orb_false_iff in Es. destruct Es as [-> ->].
  destruct (mi_rate st =? 0) eqn:Er; [apply Z.eqb_eq in Er; specialize (B eq_refl); contradiction|].
  pretn. exact A.
Qed.

Lemma parse_sv467_spec p : 0 <= p <= zlen d + 4 ->
  pspecE E mpc_parse_sv467 d p (fun st p' => 0 <= p').
Proof.
  intros Hp. unfold mpc_parse_sv467. unfold c04_two62 in Hlen.
  pbind. apply pspecE_seek_rel; unfold c04_two63; try lia.
  set (q := Z.max 0 (p + -4)). assert (Hq : 0 <= q) by lia.
  pbind. pread. pose proof (rd_len 32 q d Hq ltac:(lia)) as Hr. set (header := rd 32 q d) in *.
  destruct (zlen header =? 32) eqn:E1; cbn [negb]; [|praiseM]. apply Z.eqb_eq in E1.
  assert (Hh : bytes_ok header) by (apply bytes_ok_rd; exact Hd).
  destruct (starts_with mpc_MPplus header).
  - destruct (znth 3 header mod 16 <? 7); [praiseM|].
    pbind. apply pspecE_unpack_le; [rewrite zlen_zslice; lia|].
    pbind. apply pspecE_unpack_le; [rewrite zlen_zslice; lia|].
    pbind. apply pspecE_unpack_le; [rewrite zlen_zslice; lia|].
    pbind. apply pspecE_unpack_le; [rewrite zlen_zslice; lia|].
    pbind. apply pspecE_unpack_le; [rewrite zlen_zslice; lia|].
    pbind. apply pspecE_unpack_le; [rewrite zlen_zslice; lia|].
    pbind. apply pspecE_lift.
    set (fl := le_decode (zslice 8 12 header)).
    destruct (list_index_ok ((fl / 65536) mod 4) mpc_rates) as (r & -> & Hr0).
    { change (zlen mpc_rates) with 4. apply Z.mod_pos_bound. lia. }
    destruct (r =? 0) eqn:Er; [apply Z.eqb_eq in Er; apply rates_nonzero in Hr0; contradiction|].
    pretn. lia.
  - pbind. apply pspecE_unpack_le; [rewrite zlen_zslice; lia|].
    match goal with |- context [if ?c then praise EMutagen else _] => destruct c end; [praiseM|].
    pbind. match goal with |- context [if ?c then plift _ else _] => destruct c end;
      (apply pspecE_unpack_le; [rewrite zlen_zslice; lia|]); pretn; lia.
Qed.

Lemma bpi7_bound l : zlen l <= 4 -> 0 <= mpc_bpi7 l < 268435456.
Proof.
  intro H. unfold mpc_bpi7.
  assert (G : forall l acc, 0 <= acc -> 0 <= fold_left (fun acc b => acc * 128 + b mod 128) l acc < (acc + 1) * 128 ^ zlen l).
  { induction l0 as [|x t IH]; intros acc Ha; [cbn; lia|].
    cbn [fold_left]. rewrite zlen_cons. pose proof (zlen_nonneg t).
    replace (1 + zlen t) with (Z.succ (zlen t)) by lia. rewrite Z.pow_succ_r by lia.
    assert (0 <= x mod 128 < 128) by (apply Z.mod_pos_bound; lia).
    specialize (IH (acc * 128 + x mod 128) ltac:(nia)).
    assert (0 < 128 ^ zlen t) by (apply Z.pow_pos_nonneg; lia). nia. }
  specialize (G l 0 ltac:(lia)). pose proof (zlen_nonneg l).
  assert (128 ^ zlen l <= 128 ^ 4) by (apply Z.pow_le_mono_r; lia).
  change (128 ^ 4) with 268435456 in *. lia.
Qed.

Lemma mpc_init_spec fuel : zlen d < Z.of_nat fuel ->
  pspecE E (mpc_init fuel) d 0 (fun _ _ => True).
Proof.
  intros Hf. unfold mpc_init. unfold c04_two62 in Hlen. pose proof (zlen_nonneg d) as Hz.
  apply pspecE_convert_io; [exact HM|].
  pbind. pread. pose proof (rd_len 4 0 d ltac:(lia) ltac:(lia)) as Hr. set (header := rd 4 0 d) in *.
  destruct (zlen header =? 4) eqn:E1; cbn [negb]; [|praiseM]. apply Z.eqb_eq in E1.
  replace (0 + zlen header) with 4 by lia.
  assert (Hrest : forall h p, 0 <= p <= zlen d + 4 -> (starts_with mpc_MPCK h = true -> p <= zlen d) ->
     pspecE E (st <~ (if starts_with mpc_MPCK h then mpc_parse_sv8 fuel else mpc_parse_sv467) ;;
               if (mi_bitrate st =? 0) && negb (mi_len_num st =? 0) then
                 p_seek 0 2 ;;~ size <~ p_tell ;;
                 pret (mpc_with_size st size)
               else pret st) d p (fun _ _ => True)).
  { intros h p Hp Hk. pbind.
    eapply pspecE_post.
    - destruct (starts_with mpc_MPCK h).
      + apply parse_sv8_spec; [specialize (Hk eq_refl); lia|lia].
      + apply parse_sv467_spec; lia.
    - intros st p' Hp'. cbv beta.
      destruct ((mi_bitrate st =? 0) && negb (mi_len_num st =? 0)); [|pretn; exact I].
      pbind. apply pspecE_seek_end; unfold c04_two63; try lia.
      pbind. apply pspecE_tell. pretn. exact I. }
  destruct (list_eqb (ztake 3 header) mpc_ID3).
  - pbind. pbind. pread. pose proof (rd_len 6 4 d ltac:(lia) ltac:(lia)) as Hr6. set (h6 := rd 6 4 d) in *.
    destruct (zlen h6 =? 6) eqn:E6; cbn [negb]; [|praiseM]. apply Z.eqb_eq in E6.
    pose proof (bpi7_bound (zslice 2 6 h6) ltac:(rewrite zlen_zslice; lia)) as Hb.
    pbind. apply pspecE_seek_abs; [unfold c04_two63; lia|].
    set (q := 10 + mpc_bpi7 (zslice 2 6 h6)) in *.
    pbind. pread. pose proof (rd_len 4 q d ltac:(lia) ltac:(lia)) as Hr4. set (h4 := rd 4 q d) in *.
    destruct (zlen h4 =? 4) eqn:E4; cbn [negb]; [|praiseM]. apply Z.eqb_eq in E4.
    pretn. apply Hrest; lia.
  - pbind. pretn. apply Hrest; lia.
Qed.
End WithE.

Theorem musepack_total d : c04_input d -> total (musepack_load d).
Proof.
  intros [Hb Hl]. unfold musepack_load. eapply total_prun.
  apply (mpc_init_spec isM eq_refl d Hb Hl). apply lin_fuel_gt; lia.
Qed.
