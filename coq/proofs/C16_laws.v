(* C16: the reference really is a finite map keyed by the NORMALISED key: get-after-set, get-after-del,
   keys() reflects membership; invalid keys raise the documented class and change nothing.
   Through the refinement theorems these transfer to every modelled tag object. *)
From Coq Require Import ZArith List Bool Lia.
Import ListNotations.
Require Import Base.Py Base.ZList Model.Dict Proofs.C16_pydict Proofs.C16_generic.
Open Scope Z_scope.

Section Laws.
  Context {V W : Type} (sp : RefSpec V W).
  Implicit Types (r : refmap W).

  (* any spelling k' of the key just set reads the new value *)
  Lemma ref_get_after_set r k k' nk v w :
    r_key sp k = Ok nk -> r_key sp k' = Ok nk -> r_val sp v = Ok (Some w) ->
    fst (ref_set sp r k v) = Ok tt /\ ref_get sp (snd (ref_set sp r k v)) k' = Ok (r_out sp w).
  Proof.
    intros K K' VV. unfold ref_set, ref_get. rewrite K, VV, K'. cbn [fst snd]. split; [reflexivity|].
    unfold ref_put. destruct (r_append sp).
    - rewrite pd_find_app, pd_find_remove_same. cbn. rewrite list_eqb_refl. reflexivity.
    - rewrite pd_find_set_same. reflexivity.
  Qed.
  (* other keys are unaffected *)
  Lemma ref_get_set_other r k k' nk nk' v :
    r_key sp k = Ok nk -> r_key sp k' = Ok nk' -> nk <> nk' ->
    ref_get sp (snd (ref_set sp r k v)) k' = ref_get sp r k'.
  Proof.
    intros K K' N. unfold ref_set, ref_get. rewrite K, K'.
    destruct (r_val sp v) as [[w|]|e]; cbn [snd]; auto.
    - unfold ref_put. destruct (r_append sp).
      + rewrite pd_find_app, pd_find_remove_other by auto. cbn.
        destruct (list_eqb nk' nk) eqn:E; [apply list_eqb_spec in E; congruence|].
        destruct (pd_find nk' r); reflexivity.
      + rewrite pd_find_set_other by auto. reflexivity.
    - rewrite pd_find_remove_other by auto. reflexivity.
  Qed.
  (* a rejected set changes nothing *)
  Lemma ref_set_raise_unchanged r k v e : fst (ref_set sp r k v) = Raise e -> snd (ref_set sp r k v) = r.
  Proof.
    unfold ref_set. destruct (r_key sp k); [|reflexivity].
    destruct (r_val sp v) as [[w|]|e']; cbn; try discriminate; reflexivity.
  Qed.
  (* delete: KeyError iff absent; afterwards every spelling is absent; other keys unaffected *)
  Lemma ref_del_present r k k' nk : r_key sp k = Ok nk -> r_key sp k' = Ok nk -> pd_mem nk r = true ->
    fst (ref_del sp r k) = Ok tt /\ ref_get sp (snd (ref_del sp r k)) k' = Raise EKey.
  Proof.
    intros K K' M. unfold ref_del, ref_get. rewrite K, M, K'. cbn [fst snd].
    rewrite pd_find_remove_same. auto.
  Qed.
  Lemma ref_del_absent r k nk : r_key sp k = Ok nk -> pd_mem nk r = false ->
    ref_del sp r k = (Raise EKey, r).
  Proof. intros K M. unfold ref_del. rewrite K, M. reflexivity. Qed.
  Lemma ref_get_del_other r k k' nk nk' : r_key sp k = Ok nk -> r_key sp k' = Ok nk' -> nk <> nk' ->
    ref_get sp (snd (ref_del sp r k)) k' = ref_get sp r k'.
  Proof.
    intros K K' N. unfold ref_del, ref_get. rewrite K, K'. destruct (pd_mem nk r); cbn [snd]; auto.
    rewrite pd_find_remove_other by auto. reflexivity.
  Qed.
  (* an invalid key: every keyed primitive raises the class r_key dictates, nothing changes *)
  Lemma ref_invalid_key r k e v : r_key sp k = Raise e ->
    ref_get sp r k = Raise e /\ ref_set sp r k v = (Raise e, r) /\ ref_del sp r k = (Raise e, r).
  Proof. intros K. unfold ref_get, ref_set, ref_del. rewrite K. auto. Qed.

  (* keys() reflects membership *)
  Lemma ref_keys_membership r k nk : ref_wf sp r -> r_key sp k = Ok nk ->
    (pd_mem nk r = true <-> exists dk, In dk (ref_keys r) /\ r_key sp dk = Ok nk).
  Proof.
    intros [ND HK] K. split.
    - intros M. unfold pd_mem in M. destruct (pd_find nk r) as [[dk w]|] eqn:F; [|discriminate].
      apply pd_find_some_in in F. exists dk. split.
      + unfold ref_keys. apply in_map_iff. exists (nk, (dk, w)). auto.
      + apply (HK _ F).
    - intros [dk [I R]]. unfold ref_keys in I. apply in_map_iff in I as [e [E I]].
      pose proof (HK e I) as H. rewrite E, R in H. inversion H; subst.
      apply pd_mem_in. apply in_map. exact I.
  Qed.
  (* membership as DictMixin computes it (try self[key] / except KeyError) *)
  Lemma ref_contains_spec r k nk : r_key sp k = Ok nk ->
    dm_contains (RefD sp) r k = Ok (pd_mem nk r).
  Proof.
    intros K. unfold dm_contains. cbn. unfold ref_get, pd_mem. rewrite K.
    destruct (pd_find nk r); reflexivity.
  Qed.
  Lemma ref_keys_nodup r : ref_wf sp r -> NoDup (map fst r) /\ zlen (ref_keys r) = zlen r.
  Proof. intros [ND _]. split; auto. unfold ref_keys. apply zlen_map. Qed.
End Laws.

(* the documented error classes of the three key rules *)
Lemma vc_invalid_key k : vc_valid k = false -> r_key vc_spec k = Raise EValue.
Proof. intros H. cbn. rewrite H. reflexivity. Qed.
Lemma vc_valid_key k : vc_valid k = true -> r_key vc_spec k = Ok (lower k).
Proof. intros H. cbn. rewrite H. reflexivity. Qed.
Lemma ape_invalid_key k : ape_valid k = false -> r_key ape_spec k = Raise EKey.
Proof. intros H. cbn. rewrite H. reflexivity. Qed.
Lemma ape_valid_key k : ape_valid k = true -> r_key ape_spec k = Ok (lower k).
Proof. intros H. cbn. rewrite H. reflexivity. Qed.

(* the model primitives on an invalid key, directly *)
Lemma vc_model_invalid s k v : vc_valid k = false ->
  vc_get s k = Raise EValue /\ vc_set s k v = (Raise EValue, s) /\ vc_del s k = (Raise EValue, s) /\
  vc_contains s k = Raise EValue.
Proof. intros H. unfold vc_get, vc_set, vc_del, vc_contains. rewrite H. auto. Qed.
Lemma ape_model_invalid s k v : ape_valid k = false ->
  ape_get s k = Raise EKey /\ ape_set s k v = (Raise EKey, s) /\ ape_del s k = (Raise EKey, s) /\
  dm_contains APE s k = Ok false.
Proof. intros H. unfold dm_contains. cbn. unfold ape_get, ape_set, ape_del. rewrite H. auto. Qed.
