(* Proofs.C04_apev2 -- totality of the _APEv2Data.__init__ mirror. *)
From Coq Require Import ZArith List Bool Lia.
Import ListNotations.
Require Import Base.Py Base.ZList Model.Parse_base Model.Parse_apev2 Proofs.C04_lib.
Open Scope Z_scope.

(* int() of at most six characters stays below a million *)
Lemma ape_digits_bound : forall l acc us v, 0 <= acc -> ape_digits l acc us = Ok v ->
  0 <= v < (acc + 1) * 10 ^ zlen l.
Proof.
  induction l as [|x t IH]; intros acc us v Ha H; cbn [ape_digits] in H.
  - destruct us; [discriminate|]. inversion H; subst. cbn. lia.
  - rewrite zlen_cons. pose proof (zlen_nonneg t).
    replace (1 + zlen t) with (Z.succ (zlen t)) by lia. rewrite Z.pow_succ_r by lia.
    assert (Hpos : 0 < 10 ^ zlen t) by (apply Z.pow_pos_nonneg; lia).
    destruct (ape_is_digit x) eqn:Ed.
    + unfold ape_is_digit in Ed. apply andb_true_iff in Ed. destruct Ed as [E1 E2].
      apply Z.leb_le in E1. apply Z.leb_le in E2.
      apply IH in H; [|lia]. nia.
    + destruct (x =? 95).
      * destruct us; [discriminate|]. apply IH in H; [|lia]. nia.
      * destruct us; [discriminate|]. destruct (ape_lstrip (x :: t)); [|discriminate].
        inversion H; subst. nia.
Qed.

Lemma ape_lstrip_len l : zlen (ape_lstrip l) <= zlen l.
Proof.
  induction l as [|x t IH]; cbn [ape_lstrip]; [lia|].
  destruct (ape_is_space x); [rewrite zlen_cons; lia|lia].
Qed.

Lemma ape_py_int_bound l v : zlen l <= 6 -> ape_py_int l = Ok v -> -1000000 < v < 1000000.
Proof.
  intros Hl H. unfold ape_py_int in H. pose proof (ape_lstrip_len l) as Hs.
  set (s := ape_lstrip l) in *. cbv zeta in H.
  set (neg := match s with x :: _ => x =? 45 | [] => false end) in *.
  set (t := match s with x :: t => if (x =? 43) || (x =? 45) then t else s | [] => s end) in *.
  assert (Ht : zlen t <= 6).
  { unfold t. destruct s as [|x s']; [lia|]. destruct ((x =? 43) || (x =? 45)); [rewrite zlen_cons in Hs|]; lia. }
  clearbody t neg. destruct t as [|x t0]; [discriminate|].
  destruct (ape_is_digit x) eqn:Ed; [|discriminate].
  unfold ape_is_digit in Ed. apply andb_true_iff in Ed. destruct Ed as [E1 E2].
  apply Z.leb_le in E1. apply Z.leb_le in E2.
  destruct (ape_digits t0 (x - 48) false) as [w|] eqn:Edg; [|discriminate].
  apply ape_digits_bound in Edg; [|lia]. rewrite zlen_cons in Ht. pose proof (zlen_nonneg t0).
  assert (10 ^ zlen t0 <= 10 ^ 5) by (apply Z.pow_le_mono_r; lia).
  change (10 ^ 5) with 100000 in *. cbn [rmap] in H. inversion H; subst.
  destruct neg; nia.
Qed.

Lemma ape_digits_raise : forall l acc us e, ape_digits l acc us = Raise e -> e = EValue.
Proof.
  induction l as [|x t IH]; intros acc us e H; cbn [ape_digits] in H.
  - destruct us; [inversion H; reflexivity|discriminate].
  - destruct (ape_is_digit x); [eapply IH; exact H|].
    destruct (x =? 95); [destruct us; [inversion H; reflexivity|eapply IH; exact H]|].
    destruct us; [inversion H; reflexivity|]. destruct (ape_lstrip (x :: t)); [discriminate|inversion H; reflexivity].
Qed.
Lemma ape_py_int_raise l e : ape_py_int l = Raise e -> e = EValue.
Proof.
  unfold ape_py_int. cbv zeta.
  set (t := match ape_lstrip l with x :: t => if (x =? 43) || (x =? 45) then t else ape_lstrip l | [] => ape_lstrip l end).
  destruct t as [|x t0]; [intro H; inversion H; reflexivity|].
  destruct (ape_is_digit x); [|intro H; inversion H; reflexivity].
  destruct (ape_digits t0 (x - 48) false) eqn:E; cbn [rmap]; [discriminate|].
  intro H. inversion H; subst. eapply ape_digits_raise; exact E.
Qed.

Lemma apetagex_len b : list_eqb b ape_APETAGEX = true -> zlen b = 8.
Proof. intro H. apply list_eqb_spec in H. subst b. reflexivity. Qed.

Ltac apelen := repeat match goal with H : list_eqb ?b ape_APETAGEX = true |- _ => apply apetagex_len in H end.

Section WithD.
Variable d : list Z.
Hypothesis Hd : bytes_ok d.
Hypothesis Hlen : zlen d < c04_two62.

Definition EioM (e : exc) := e = EMutagen \/ is_eio e = true.
Definition found_ok (fm : ape_found) : Prop :=
  (af_header fm = None \/ af_header fm = Some 0) /\
  match af_footer fm with Some f => 0 <= f <= zlen d | None => True end.

Lemma get_size_spec E p (Q : Z -> Z -> Prop) : 0 <= p < c04_two63 ->
  Q (zlen d) p -> pspecE E ape_get_size d p Q.
Proof.
  intros Hp HQ. unfold ape_get_size. pose proof (zlen_nonneg d). unfold c04_two62 in Hlen.
  psteps. rewrite Z.max_r by lia. replace (zlen d + 0) with (zlen d) by lia. exact HQ.
Qed.

Lemma find_metadata_spec : pspec ape_find_metadata d 0 (fun fm _ => found_ok fm).
Proof.
  unfold ape_find_metadata. pose proof (zlen_nonneg d) as Hz. unfold c04_two62 in Hlen.
  pstep. apply get_size_spec; [unfold c04_two63; lia|].
  destruct (zlen d <? 32) eqn:E32.
  { psteps. split; [left; reflexivity|exact I]. }
  apply Z.ltb_ge in E32.
  set (p0 := Z.max 0 (zlen d + -32)).
  psteps.
  { (* simple footer *) apply apetagex_len in Heqb. split; [left; reflexivity|]. cbn [af_footer]. unfold p0 in *. lia. }
  (* the ID3v1 / Lyrics3 block *)
  assert (Hcont : forall found p1, match found with Some f => 0 <= f <= zlen d | None => True end ->
     pspec match found with
           | Some pos => pret (mkFound None (Some pos) None false)
           | None => p_seek 0 0 ;;~ b <~ p_read 8 ;;
                     if list_eqb b ape_APETAGEX then pret (mkFound (Some 0) None None true) else pret ape_nothing
           end d p1 (fun fm _ => found_ok fm)).
  { intros [f|] p1 Hf.
    - psteps. split; cbn; [left; reflexivity|exact Hf].
    - psteps; (split; cbn; [first [left; reflexivity|right; reflexivity]|exact I]). }
  eapply pspecE_catch' with (E' := fun e => is_eio e = true)
    (Q0 := fun found _ => match found with Some f => 0 <= f <= zlen d | None => True end).
  3:{ intros found p1 Hf. apply Hcont. exact Hf. }
  2:{ intros e He. rewrite He. intros. pstep. apply (Hcont None). exact I. }
  pstep. apply get_size_spec; [unfold c04_two63, p0; lia|].
  pstep; [apply pspecE_raise; reflexivity|].
  apply Z.ltb_ge in Heqb0.
  psteps; try exact I.
  - apelen. unfold p0 in *. lia.
  - eapply pspecE_catch' with (E' := fun e => e = EValue) (Q0 := fun a p' => -1000000 < a < 1000000 /\ 0 <= p' <= zlen d + 64).
    + apply pspecE_lift. destruct (ape_py_int r3) as [v|e] eqn:Ei.
      * split; [eapply ape_py_int_bound; [|exact Ei]; lia|]. unfold p0 in *. lia.
      * eapply ape_py_int_raise; exact Ei.
    + intros e ->. unfold ape_is_value. cbn [exc_eqb]. intros. apply pspecE_raise. reflexivity.
    + cbv beta. intros a p' [Ha Hp'].
      repeat match goal with H : zlen _ = Z.min _ _ |- _ => clear H end.
      psteps; try exact I. apelen. lia.
Qed.
Lemma fix_loop_spec : forall fuel start, 0 <= start < c04_two62 + 64 -> start < Z.of_nat fuel ->
  pspec (ape_fix_loop fuel start) d start (fun s _ => 0 <= s).
Proof.
  induction fuel as [|fuel IH]; intros start Hs Hf; [lia|].
  cbn [ape_fix_loop]. unfold c04_two62 in *.
  destruct (24 <=? start) eqn:E24; cbn [negb]; [|pstep; lia]. apply Z.leb_le in E24.
  pstep. eapply pspecE_catch' with (E' := fun _ => False) (Q0 := fun r p' => r = true /\ p' = start - 24).
  { psteps. split; [reflexivity|lia]. }
  { intros e []. }
  intros r p' [-> ->]. cbn [negb].
  psteps; try lia.
  assert (Heq : Z.max 0 (start - 24 + zlen r + -8) = start - 24).
  { match goal with H : list_eqb r ape_APETAGEX = true |- _ => apply apetagex_len in H end. lia. }
  rewrite Heq. apply IH; lia.
Qed.

Lemma ape_init_spec fuel : zlen d + 33 < Z.of_nat fuel -> pspec (ape_init fuel) d 0 (fun _ _ => True).
Proof.
  intro Hf. unfold ape_init. pose proof (zlen_nonneg d) as Hz. unfold c04_two62 in Hlen.
  pstep. eapply pspecE_post; [apply find_metadata_spec|].
  intros fm p [Hh Hft]. cbv beta.
  destruct (ape_opt_max (af_header fm) (af_footer fm)) as [metadata|] eqn:Em; [|pstep; exact I].
  assert (Hm : 0 <= metadata <= zlen d).
  { destruct (af_footer fm) as [f|]; destruct Hh as [Hh|Hh]; rewrite Hh in Em; cbn in Em; inversion Em; subst; lia. }
  psteps.
  assert (Hr16 : zlen r = 16) by (apply Z.eqb_eq; assumption).
  assert (Hrb : bytes_ok r) by (apply bytes_ok_rd; exact Hd).
  apply pspecE_unpack_le; [rewrite zlen_zslice; lia|cbv beta].
  pose proof (le_decode_bound (zslice 4 8 r) (bytes_ok_zslice _ _ _ Hrb)) as Hsz.
  rewrite zlen_zslice in Hsz by lia. replace (Z.min (8 - 4) (Z.max 0 (zlen r - 4))) with 4 in Hsz by lia.
  change (256 ^ 4) with 4294967296 in Hsz. set (size := le_decode (zslice 4 8 r)) in *.
  pstep. apply pspecE_unpack_le; [rewrite zlen_zslice; lia|cbv beta].
  pstep. apply pspecE_unpack_le; [rewrite zlen_zslice; lia|cbv beta].
  set (flags := le_decode (zslice 12 16 r)).
  (* what __fill_missing leaves: header <= data, header bounded *)
  pstep.
  apply pspecE_post with (Q := fun x _ => let '(header, footer, dat, end_) := x in
                                          header <= dat <= header + 32 /\ header <= zlen d + 32).
  { destruct (af_header fm) as [h|] eqn:Eh.
    - destruct Hh as [Hh|Hh]; [discriminate|]. inversion Hh; subst h.
      pstep. apply get_size_spec; [unfold c04_two63; lia|].
      psteps; lia.
    - destruct (af_footer fm) as [f|] eqn:Ef; [|pstep].
      pstep. destruct ((flags / ape_HAS_HEADER) mod 2 =? 1); lia. }
  intros [[[header footer] dat] end_] p2 [Hhd Hhd2]. cbv beta.
  set (size' := match footer with Some _ => size - 32 | None => size end).
  assert (Hs' : size' < 4294967296) by (unfold size'; destruct footer; lia).
  pstep; [pstep|]. pstep; [pstep|].
  repeat match goal with H : (_ <? 0) = false |- _ => apply Z.ltb_ge in H end.
  psteps. eapply pspecE_post; [apply fix_loop_spec; unfold c04_two62; lia|].
  intros start p3 Hst. cbv beta. psteps. exact I.
Qed.
End WithD.

Theorem apev2data_total d : c04_input d -> total (apev2data_load d).
Proof.
  intros [Hb Hl]. unfold apev2data_load. eapply total_prun.
  apply (ape_init_spec d Hb Hl). apply lin_fuel_gt; lia.
Qed.

