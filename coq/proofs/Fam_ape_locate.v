(* APEv2 family: mutagen's locator (_APEv2Data mirror) against the strict reader.
   - a file without the marker: both find nothing;
   - strict_end f = Some e: the mirror finds the same footer (EOF / before ID3v1 / before Lyrics3v2+ID3v1;
     Python's int() on six ASCII digits is their decimal value), for both seek flavours;
   - ape_parse f = Ok s on a well-formed file: ape_locate returns start = |pbody s|, end = |f| - |ptrailer s|,
     not "at start" (the PyMusepack fix-up finds nothing to extend). *)
From Coq Require Import ZArith List Bool Lia.
Import ListNotations.
Require Import Base.Py Base.ZList Model.Sort Model.Splice Model.Fam_ape Proofs.Fam_ape_codec.
Open Scope Z_scope.

(* ------------------------------------------------------------------ no marker: nothing is found *)
Lemma find_start_none f : has_marker f = false -> find_start f = FNone.
Proof. intros H. unfold find_start. rewrite (no_marker_probe f 0 H). reflexivity. Qed.

Lemma find_metadata_none real f : has_marker f = false -> find_metadata real f = FNone.
Proof.
  intros H. pose proof (find_start_none f H) as Hs. unfold find_metadata. cbv zeta.
  destruct (if zlen f <? 32 then None else Some (zlen f - 32)) as [p0|]; [|reflexivity].
  rewrite (no_marker_probe f p0 H).
  destruct (zlen f <? 128); [exact Hs|].
  destruct (negb _); [exact Hs|].
  destruct (rseek real (zlen f - 125) (-35)) as [p1|]; [|exact Hs].
  change (list_eqb (rd f p1 8) APETAGEX) with (is_marker f p1). rewrite (no_marker_probe f p1 H).
  destruct (negb _); [exact Hs|].
  destruct (rseek _ _ _) as [pos5|]; [|exact Hs].
  destruct (ape_pyint _) as [off|]; [|exact Hs].
  destruct (rseek _ _ _) as [pos7|]; [|exact Hs].
  rewrite (no_marker_probe f pos7 H). exact Hs.
Qed.
Lemma locate_none real f : has_marker f = false -> ape_locate real f = Ok None.
Proof. intros H. unfold ape_locate. rewrite (find_metadata_none real f H). reflexivity. Qed.

Lemma strict_end_none f : has_marker f = false -> strict_end f = None.
Proof.
  intros H. unfold strict_end. cbv zeta.
  rewrite (no_marker_probe f _ H), andb_false_r.
  destruct (_ && _); [|reflexivity].
  rewrite (no_marker_probe f _ H).
  destruct (_ && _); [|reflexivity].
  rewrite (no_marker_probe f _ H), andb_false_r. reflexivity.
Qed.
Lemma parse_untagged f : has_marker f = false -> ape_parse f = Ok (mkS f None false []).
Proof. intros H. unfold ape_parse. rewrite (strict_end_none f H). reflexivity. Qed.

(* ------------------------------------------------------------------ Python's int() on ASCII digits *)
Lemma digit_not_ws c : is_digit c = true -> is_ws c = false.
Proof. unfold is_digit, is_ws. lia. Qed.
Lemma strip_l_digits l : forallb is_digit l = true -> strip_l l = l.
Proof.
  destruct l as [|c r]; [reflexivity|]. cbn [forallb strip_l]. intros H.
  apply andb_true_iff in H as [H _]. rewrite (digit_not_ws c H). reflexivity.
Qed.
Lemma forallb_rev {A} (p : A -> bool) l : forallb p (rev l) = forallb p l.
Proof.
  destruct (forallb p l) eqn:E.
  - apply forallb_forall. intros x Hx. apply in_rev in Hx. rewrite forallb_forall in E. auto.
  - destruct (forallb p (rev l)) eqn:E2; [|reflexivity].
    rewrite forallb_forall in E2. assert (forallb p l = true); [|congruence].
    apply forallb_forall. intros x Hx. apply E2. apply in_rev in Hx. exact Hx.
Qed.
Lemma strip_digits l : forallb is_digit l = true -> strip l = l.
Proof.
  intros H. unfold strip. rewrite (strip_l_digits l H).
  rewrite strip_l_digits by (rewrite forallb_rev; exact H). apply rev_involutive.
Qed.
Lemma digits_acc_digits l : forall acc prev, forallb is_digit l = true -> (l <> [] \/ prev = true) ->
  digits_acc acc prev l = Some (dec_val acc l).
Proof.
  induction l as [|c r IH]; intros acc prev H Hn.
  - destruct Hn as [Hn|Hn]; [congruence|]. subst prev. reflexivity.
  - cbn [forallb] in H. apply andb_true_iff in H as [H1 H2]. cbn [digits_acc dec_val]. rewrite H1.
    apply IH; auto.
Qed.
Lemma pyint_digits l : l <> [] -> forallb is_digit l = true -> ape_pyint l = Some (dec_val 0 l).
Proof.
  intros Hn H. unfold ape_pyint. rewrite (strip_digits l H).
  destruct l as [|c r]; [congruence|].
  pose proof H as H'. cbn [forallb] in H'. apply andb_true_iff in H' as [Hc _]. unfold is_digit in Hc.
  destruct (c =? 45) eqn:E1; [lia|]. destruct (c =? 43) eqn:E2; [lia|].
  apply digits_acc_digits; auto.
Qed.

Lemma dec_val_nonneg l : forall acc, 0 <= acc -> forallb is_digit l = true -> 0 <= dec_val acc l.
Proof.
  induction l as [|c r IH]; intros acc Ha Hd; [exact Ha|]. cbn [forallb] in Hd. apply andb_true_iff in Hd as [Hc Hr].
  cbn [dec_val]. apply IH; [|exact Hr]. unfold is_digit in Hc. lia.
Qed.

(* ------------------------------------------------------------------ the footer position *)
Lemma rseek_ok real pos off : 0 <= pos + off -> rseek real pos off = Some (pos + off).
Proof. intros. unfold rseek. destruct (pos + off <? 0) eqn:E; [lia|reflexivity]. Qed.

Lemma first_seek_ok n : 32 <= n -> (if n <? 32 then None else Some (n - 32)) = Some (n - 32).
Proof. intros H. destruct (n <? 32) eqn:E; [lia|reflexivity]. Qed.

Lemma strict_end_inv f e : strict_end f = Some e ->
  32 <= e <= zlen f /\ is_marker f (e - 32) = true /\ forall real, find_metadata real f = FFooter (e - 32).
Proof.
  unfold strict_end. cbv zeta. set (n := zlen f). intros H.
  destruct ((32 <=? n) && is_marker f (n - 32)) eqn:C1.
  { injection H as <-. apply andb_true_iff in C1 as [C1a C1b].
    split; [lia|]. split; [exact C1b|]. intros real. unfold find_metadata. cbv zeta. fold n.
    rewrite first_seek_ok by lia. rewrite C1b. reflexivity. }
  destruct ((160 <=? n) && list_eqb (rd f (n - 128) 3) TAG3) eqn:C2; [|discriminate].
  apply andb_true_iff in C2 as [C2a C2b].
  assert (M0 : is_marker f (n - 32) = false).
  { destruct (is_marker f (n - 32)); [|reflexivity]. rewrite andb_true_r in C1. lia. }
  destruct (is_marker f (n - 160)) eqn:C3.
  { injection H as <-. split; [lia|]. replace (n - 128 - 32) with (n - 160) by lia. split; [exact C3|].
    intros real. unfold find_metadata. cbv zeta. fold n.
    rewrite first_seek_ok by lia. rewrite M0.
    destruct (n <? 128) eqn:E; [lia|]. rewrite C2b. cbn [negb].
    rewrite rseek_ok by lia. replace (n - 125 + -35) with (n - 160) by lia.
    change (list_eqb (rd f (n - 160) 8) APETAGEX) with (is_marker f (n - 160)). rewrite C3. reflexivity. }
  destruct (list_eqb (rd f (n - 137) 9) LYRICS200 && forallb is_digit (rd f (n - 143) 6)) eqn:C4; [|discriminate].
  apply andb_true_iff in C4 as [C4a C4b].
  set (off := dec_val 0 (rd f (n - 143) 6)) in *.
  destruct ((32 <=? n - 143 - off) && is_marker f (n - 143 - off - 32) && list_eqb (rd f (n - 143 - off) 11) LYRICSBEGIN) eqn:C5;
    [|discriminate].
  injection H as <-. apply andb_true_iff in C5 as [C5 C5c]. apply andb_true_iff in C5 as [C5a C5b].
  assert (L6 : zlen (rd f (n - 143) 6) = 6) by (apply zlen_rd; lia).
  assert (Hoff : 0 <= off) by (unfold off; apply dec_val_nonneg; [lia | exact C4b]).
  split; [lia|]. split; [exact C5b|].
  intros real. unfold find_metadata. cbv zeta. fold n.
  rewrite first_seek_ok by lia. rewrite M0.
  destruct (n <? 128) eqn:E; [lia|]. rewrite C2b. cbn [negb].
  rewrite rseek_ok by lia. replace (n - 125 + -35) with (n - 160) by lia.
  change (list_eqb (rd f (n - 160) 8) APETAGEX) with (is_marker f (n - 160)). rewrite C3.
  rewrite (zlen_rd f (n - 160) 8) by lia. replace (n - 160 + 8 + 15) with (n - 137) by lia.
  rewrite C4a. cbn [negb].
  rewrite (zlen_rd f (n - 137) 9) by lia. rewrite rseek_ok by lia. replace (n - 137 + 9 + -15) with (n - 143) by lia.
  rewrite pyint_digits; [|intros E0; rewrite E0 in L6; discriminate|exact C4b].
  fold off. rewrite L6. rewrite rseek_ok by lia.
  replace (n - 143 + 6 + (-32 - off - 6)) with (n - 143 - off - 32) by lia. rewrite C5b. reflexivity.
Qed.

(* ------------------------------------------------------------------ geometry of the tag the strict reader accepts *)
Definition ft_size (f : list Z) (e : Z) : Z := le_decode (rd f (e - 32 + 12) 4).
Definition ft_count (f : list Z) (e : Z) : Z := le_decode (rd f (e - 32 + 16) 4).
Definition ft_flags (f : list Z) (e : Z) : Z := le_decode (rd f (e - 32 + 20) 4).
Definition ft_hashdr (f : list Z) (e : Z) : bool := negb (Z.land (ft_flags f e) HAS_HEADER =? 0).
Definition tag_start (f : list Z) (e : Z) : Z := e - ft_size f e - (if ft_hashdr f e then 32 else 0).

Lemma parse_inv f s : ape_parse f = Ok s ->
  (strict_end f = None /\ s = mkS f None false []) \/
  (exists e its, strict_end f = Some e /\ 32 <= ft_size f e /\ 0 <= tag_start f e /\
     s = mkS (ztake (tag_start f e) f) (Some its) (ft_hashdr f e) (zdrop e f) /\
     exists n d, ape_items n d = Ok (its, [])).
Proof.
  unfold ape_parse. destruct (strict_end f) as [e|] eqn:SE.
  2:{ intros H. injection H as <-. left. split; reflexivity. }
  cbv zeta. fold (ft_size f e) (ft_count f e) (ft_flags f e). fold (ft_hashdr f e). fold (tag_start f e).
  intros H. right.
  destruct (ft_size f e <? 32) eqn:C1; [discriminate|].
  destruct (tag_start f e <? 0) eqn:C2; [discriminate|].
  destruct (negb (Z.land (ft_flags f e) IS_HEADER =? 0)); [discriminate|].
  destruct (ft_hashdr f e && negb _); [discriminate|].
  destruct (ft_size f e - 32 <? ft_count f e); [discriminate|].
  destruct (ape_items _ _) as [[its [|x r]]|] eqn:EI; try discriminate.
  injection H as <-. exists e, its. repeat split; try lia. eexists _, _. exact EI.
Qed.

Lemma d16_fields f p : 0 <= p ->
  zslice 4 8 (rd f (p + 8) 16) = rd f (p + 12) 4 /\
  zslice 8 12 (rd f (p + 8) 16) = rd f (p + 16) 4 /\
  zslice 12 16 (rd f (p + 8) 16) = rd f (p + 20) 4.
Proof.
  intros. rewrite !zslice_rd by lia.
  replace (p + 8 + 4) with (p + 12) by lia. replace (p + 8 + 8) with (p + 16) by lia.
  replace (p + 8 + 12) with (p + 20) by lia. repeat split; reflexivity.
Qed.

Lemma is_marker_ztake f start p : 0 <= p -> p + 8 <= start <= zlen f ->
  is_marker f p = is_marker (ztake start f) p.
Proof.
  intros. unfold is_marker. rewrite <- (ztake_zdrop start f) at 1.
  rewrite rd_app_l by (rewrite ?zlen_ztake; lia). reflexivity.
Qed.

(* the PyMusepack fix-up never seeks before the start of the file: both seek flavours agree *)
Lemma fix_start_flavour k f : forall start, fix_start k true f start = fix_start k false f start.
Proof.
  induction k as [|k IH]; intros start; cbn [fix_start]; destruct (start <? 24) eqn:E; try reflexivity.
  unfold rseek. destruct (start + -24 <? 0) eqn:E2; [lia|].
  destruct (is_marker f (start + -24)); [apply IH|reflexivity].
Qed.

(* ... and finds nothing to extend when the body carries no marker *)
Lemma fix_start_id k real f start :
  0 <= start <= zlen f -> has_marker (ztake start f) = false -> fix_start (S k) real f start = Ok start.
Proof.
  intros Hs Hm. cbn [fix_start]. destruct (start <? 24) eqn:E; [reflexivity|].
  unfold rseek. destruct (start + -24 <? 0) eqn:E2; [lia|].
  rewrite (is_marker_ztake f start) by lia. rewrite (no_marker_probe _ _ Hm). reflexivity.
Qed.

Definition tagged_loc (f : list Z) (e : Z) : loc :=
  mkLoc (tag_start f e) (tag_start f e) (e - ft_size f e) (Some (e - 32)) e (ft_size f e - 32)
        (ft_count f e) (ft_flags f e) false.

(* the same record for both flavours *)
Theorem locate_tagged_eq real f e :
  strict_end f = Some e -> 32 <= ft_size f e -> 0 <= tag_start f e ->
  has_marker (ztake (tag_start f e) f) = false ->
  ape_locate real f = Ok (Some (tagged_loc f e)).
Proof.
  intros SE Hsz Hst Hm.
  destruct (strict_end_inv f e SE) as (He & _ & Hfm).
  unfold ape_locate. rewrite (Hfm real). cbv beta iota zeta.
  rewrite (zlen_rd f (e - 32 + 8) 16) by lia. change (negb (16 =? 16)) with false. cbv iota.
  destruct (d16_fields f (e - 32)) as (F1 & F2 & F3); [lia|]. rewrite F1, F2, F3.
  fold (ft_size f e) (ft_count f e) (ft_flags f e).
  replace (e - 32 + 32) with e by lia.
  assert (Hh : (if Z.land (ft_flags f e) HAS_HEADER =? 0 then e - ft_size f e
                else e - ft_size f e - 32) = tag_start f e).
  { unfold tag_start, ft_hashdr. destruct (Z.land (ft_flags f e) HAS_HEADER =? 0); cbn [negb]; lia. }
  rewrite Hh. destruct (ft_size f e - 32 <? 0) eqn:C0; [lia|].
  destruct (tag_start f e <? 0) eqn:C; [lia|].
  assert (Hle : tag_start f e <= zlen f).
  { unfold tag_start. destruct (ft_hashdr f e); lia. }
  rewrite fix_start_id by (auto; lia). reflexivity.
Qed.

Theorem locate_tagged real f e :
  strict_end f = Some e -> 32 <= ft_size f e -> 0 <= tag_start f e ->
  has_marker (ztake (tag_start f e) f) = false ->
  exists l, ape_locate real f = Ok (Some l) /\
    l_start l = tag_start f e /\ l_end l = e /\ l_at_start l = false /\
    l_data l = e - ft_size f e /\ l_size l = ft_size f e - 32 /\ l_items l = ft_count f e /\ l_footer l = Some (e - 32).
Proof.
  intros SE Hsz Hst Hm. exists (tagged_loc f e). split; [apply locate_tagged_eq; assumption|].
  repeat split.
Qed.
