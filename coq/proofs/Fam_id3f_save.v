(* Fam_id3f_save: shape of what id3f_save / id3f_delete write, and how the strict reader sees it. *)
From Coq Require Import ZArith List Bool Lia.
Import ListNotations.
Require Import Base.Py Base.ZList Gen.Gen_tags Model.Splice Model.Id3Util Model.Fam_id3f
  Proofs.Fam_id3f_base.
Open Scope Z_scope.

(* ------------------------------------------------------------------ what a strict parse says about the bytes *)
Lemma zslice_ztake10 (f : list Z) : zslice 6 10 (ztake 10 f) = zslice 6 10 f.
Proof.
  unfold zslice. change 10 with (6 + 4) at 2. rewrite zdrop_ztake_comm by lia.
  rewrite ztake_ztake. reflexivity.
Qed.

Lemma parse_tag_inv f t : parse_tag f = Ok (Some t) ->
  starts_with M_ID3 f = true /\ 10 <= zlen f /\
  (znth 3 f = 2 \/ znth 3 f = 3 \/ znth 3 f = 4) /\ znth 5 f = 0 /\
  forallb is_7bit (zslice 6 10 f) = true /\
  t_size t = 10 + syncsafe4 (zslice 6 10 f) /\ 10 <= t_size t <= zlen f /\ t_ver t = znth 3 f /\
  frames_len (t_ver t) (ztake (t_size t - 10) (zdrop 10 f)) = Some (zlen (t_frames t)) /\
  t_frames t = ztake (zlen (t_frames t)) (zdrop 10 f) /\
  0 <= t_pad t /\ t_size t = 10 + zlen (t_frames t) + t_pad t /\
  frames_ok (t_ver t) (t_frames t) = true.
Proof.
  unfold parse_tag. intros H.
  destruct (starts_with M_ID3 f) eqn:S; cbn [negb] in H; [|discriminate].
  destruct (zlen f <? 10) eqn:L; [discriminate|].
  destruct ((znth 3 f =? 2) || (znth 3 f =? 3) || (znth 3 f =? 4)) eqn:V; cbn [negb] in H; [|discriminate].
  destruct (is_byte (znth 4 f)); cbn [negb] in H; [|discriminate].
  destruct (znth 5 f =? 0) eqn:F5; cbn [negb] in H; [|discriminate].
  destruct (forallb is_7bit (zslice 6 10 f)) eqn:S7; cbn [negb] in H; [|discriminate].
  destruct (zlen f <? 10 + syncsafe4 (zslice 6 10 f)) eqn:L2; [discriminate|].
  destruct (frames_len (znth 3 f) (ztake (syncsafe4 (zslice 6 10 f)) (zdrop 10 f))) as [n|] eqn:W; [|discriminate].
  assert (Et : t = mkT (znth 3 f) (10 + syncsafe4 (zslice 6 10 f)) (ztake n (ztake (syncsafe4 (zslice 6 10 f)) (zdrop 10 f)))
                       (syncsafe4 (zslice 6 10 f) - n)) by congruence.
  clear H. subst t. unfold t_size, t_ver, t_frames, t_pad.
  pose proof (syncsafe4_nonneg _ (proj1 (is_7bit_Forall _) S7)) as Hs.
  pose proof (walk_bounds _ _ _ _ W) as Hb.
  assert (Lb : zlen (ztake (syncsafe4 (zslice 6 10 f)) (zdrop 10 f)) = syncsafe4 (zslice 6 10 f)).
  { rewrite zlen_ztake by lia. rewrite zlen_zdrop by lia. lia. }
  rewrite Lb in Hb.
  assert (Ln : zlen (ztake n (ztake (syncsafe4 (zslice 6 10 f)) (zdrop 10 f))) = n).
  { rewrite zlen_ztake by lia. rewrite Lb. lia. }
  rewrite Ln.
  repeat apply conj; try lia.
  - replace (10 + syncsafe4 (zslice 6 10 f) - 10) with (syncsafe4 (zslice 6 10 f)) by lia. exact W.
  - rewrite ztake_ztake. f_equal. lia.
  - apply frames_len_prefix. exact W.
Qed.

Lemma parse_tag_none f : parse_tag f = Ok None -> starts_with M_ID3 f = false.
Proof.
  unfold parse_tag. intros H. destruct (starts_with M_ID3 f); [|reflexivity]. cbn [negb] in H.
  repeat match type of H with
  | (if ?c then _ else _) = _ => destruct c; try discriminate
  | match ?c with Some _ => _ | None => _ end = _ => destruct c; try discriminate
  end.
Qed.

(* mutagen's ID3Header accepts what the strict reader accepts, with the same size *)
Lemma header_of_parse known f t : parse_tag f = Ok t -> mut_header known f = Ok (option_map t_size t).
Proof.
  intros H. destruct t as [t|].
  - destruct (parse_tag_inv _ _ H) as (S & L & V & F5 & S7 & Sz & Bd & _).
    unfold mut_header. rewrite zlen_ztake by lia. bset (Z.min 10 (zlen f)) 10.
    change (negb (10 =? 10)) with false. cbv iota. cbv zeta.
    rewrite zslice_ztake10. rewrite bpi_syncsafe by exact S7.
    rewrite starts_with_ztake by (cbn; lia). rewrite S. cbn [negb].
    rewrite !znth_ztake by lia. rewrite F5.
    assert (V' : (znth 3 f =? 2) || (znth 3 f =? 3) || (znth 3 f =? 4) = true).
    { destruct V as [V|[V|V]]; rewrite V; reflexivity. }
    rewrite V'. cbn [negb]. rewrite hvp_syncsafe by exact S7. cbn [negb].
    change (Z.land 0 15 =? 0) with true. change (Z.land 0 31 =? 0) with true. change (Z.land 0 64 =? 0) with true.
    cbn [negb]. rewrite !andb_false_r. cbn [option_map]. f_equal. f_equal. lia.
  - apply parse_tag_none in H. unfold mut_header. cbn [option_map].
    destruct (zlen (ztake 10 f) =? 10) eqn:L; cbn [negb]; [|reflexivity]. cbv zeta.
    destruct (bpi_total (zslice 6 10 (ztake 10 f))) as [v Ev]. rewrite Ev.
    rewrite starts_with_ztake by (cbn; lia). rewrite H. reflexivity.
Qed.

(* decomposition of a strictly parsed file: tag bytes ++ payload ++ ID3v1 *)
Lemma parse_dec f s : id3f_parse f = Ok s ->
  parse_tag f = Ok (i_tag s) /\ 0 <= tag_size s <= zlen f /\
  zdrop (tag_size s) f = i_mid s ++ optb (i_v1 s) /\
  f = ztake (tag_size s) f ++ i_mid s ++ optb (i_v1 s) /\
  match i_v1 s with
  | Some v => zlen v = 128 /\ strict_v1 (i_mid s ++ v) = true
  | None => strict_v1 (i_mid s) = false
  end.
Proof.
  unfold id3f_parse. intros H. destruct (parse_tag f) as [t|] eqn:P; [|discriminate].
  set (off := match t with Some t0 => t_size t0 | None => 0 end) in *.
  assert (Hoff : 0 <= off <= zlen f).
  { subst off. destruct t as [t|]; [|pose proof (zlen_nonneg f); lia].
    destruct (parse_tag_inv _ _ P) as (_ & _ & _ & _ & _ & _ & B & _). lia. }
  assert (TS : forall m v, tag_size (mkI t m v) = off) by (intros; reflexivity).
  destruct (strict_v1 (zdrop off f)) eqn:SV.
  - assert (Es : s = mkI t (ztake (zlen (zdrop off f) - 128) (zdrop off f)) (Some (zdrop (zlen (zdrop off f) - 128) (zdrop off f)))) by congruence.
    clear H. subst s. rewrite TS. unfold i_tag, i_mid, i_v1, optb.
    assert (L : 128 <= zlen (zdrop off f)).
    { unfold strict_v1 in SV. destruct (128 <=? zlen (zdrop off f)) eqn:E; [lia|discriminate]. }
    assert (E1 : ztake (zlen (zdrop off f) - 128) (zdrop off f) ++ zdrop (zlen (zdrop off f) - 128) (zdrop off f) = zdrop off f)
      by apply ztake_zdrop.
    repeat apply conj; try lia; try reflexivity.
    + symmetry. exact E1.
    + rewrite E1. symmetry. apply ztake_zdrop.
    + rewrite zlen_zdrop by lia. lia.
    + rewrite E1. exact SV.
  - assert (Es : s = mkI t (zdrop off f) None) by congruence.
    clear H. subst s. rewrite TS. unfold i_tag, i_mid, i_v1, optb. rewrite app_nil_r.
    repeat apply conj; try lia; try reflexivity.
    + symmetry. apply ztake_zdrop.
    + exact SV.
Qed.

(* ------------------------------------------------------------------ the writer *)
Definition v1_after (mode : Z) (vb : list Z) (old : option (list Z)) : option (list Z) :=
  match old with
  | Some _ => if (mode =? 1) || (mode =? 2) then Some vb else None
  | None => if mode =? 2 then Some vb else None
  end.

Lemma v1_after_idem mode vb old : v1_after mode vb (v1_after mode vb old) = v1_after mode vb old.
Proof.
  unfold v1_after. destruct old; destruct (mode =? 1) eqn:A; destruct (mode =? 2) eqn:B; cbn [orb]; try reflexivity;
    try rewrite A; try rewrite B; reflexivity.
Qed.

Lemma prepare_data_inv fsize avail fr o data : prepare_data fsize avail fr o = Ok data ->
  let r := o_cb o (avail - (zlen fr + 10)) (Z.max 0 (fsize - 0 - avail)) in
  (o_v2 o = 3 \/ o_v2 o = 4) /\ 0 <= r /\ zlen fr + r < 2 ^ 28 /\
  exists bs, to_str (zlen fr + r) 7 true 4 4 = Ok bs /\ zlen bs = 4 /\ forallb is_7bit bs = true /\
    syncsafe4 bs = zlen fr + r /\ data = render_tag (o_v2 o) bs fr r.
Proof.
  intros H r. unfold prepare_data in H. cbv zeta in H.
  destruct ((o_v2 o =? 3) || (o_v2 o =? 4)) eqn:V; cbn [negb] in H; [|discriminate].
  fold r in H. destruct (r <? 0) eqn:R; [discriminate|].
  replace (zlen fr + 10 + r - 10) with (zlen fr + r) in H by lia.
  replace (zlen fr + 10 + r - (zlen fr + 10)) with r in H by lia.
  destruct (to_str (zlen fr + r) 7 true 4 4) as [bs|] eqn:T; [|discriminate].
  inversion H; subst data; clear H.
  destruct (to_str_size_inv _ _ T) as (A & B & C & D).
  repeat apply conj; try lia.
  exists bs. repeat apply conj; try assumption; reflexivity.
Qed.

Lemma prepare_data_ok fsize avail fr o :
  let r := o_cb o (avail - (zlen fr + 10)) (Z.max 0 (fsize - 0 - avail)) in
  (o_v2 o = 3 \/ o_v2 o = 4) -> 0 <= r -> zlen fr + r < 2 ^ 28 ->
  exists data, prepare_data fsize avail fr o = Ok data.
Proof.
  intros r V R W. unfold prepare_data. cbv zeta.
  assert (V' : (o_v2 o =? 3) || (o_v2 o =? 4) = true) by (destruct V as [V|V]; rewrite V; reflexivity).
  rewrite V'. cbn [negb]. fold r. bset (r <? 0) false.
  replace (zlen fr + 10 + r - 10) with (zlen fr + r) by lia.
  pose proof (zlen_nonneg fr).
  destruct (to_str_size_ok (zlen fr + r) ltac:(lia)) as [bs E]. rewrite E. eexists. reflexivity.
Qed.

Lemma render_tag_len v2 bs fr r : zlen bs = 4 -> 0 <= r -> zlen (render_tag v2 bs fr r) = 10 + zlen fr + r.
Proof.
  intros B R. unfold render_tag. rewrite !zlen_app, zlen_zeros by lia. rewrite B.
  change (zlen M_ID3) with 3. change (zlen [v2; 0; 0]) with 3. lia.
Qed.

(* the ID3v2 half of save: the new tag followed by everything that was behind the old one;
   info.size handed to the callback = the bytes behind the old tag *)
Lemma save_v2_shape f s fr o g n : id3f_parse f = Ok s -> id3f_save_v2 f fr o = Ok (g, n) ->
  let r := o_cb o (tag_size s - (zlen fr + 10)) (zlen f - tag_size s) in
  (o_v2 o = 3 \/ o_v2 o = 4) /\ 0 <= r /\ zlen fr + r < 2 ^ 28 /\
  exists bs, to_str (zlen fr + r) 7 true 4 4 = Ok bs /\ zlen bs = 4 /\ forallb is_7bit bs = true /\
    syncsafe4 bs = zlen fr + r /\ n = 10 + zlen fr + r /\
    g = splice f 0 (tag_size s) (render_tag (o_v2 o) bs fr r) /\
    g = render_tag (o_v2 o) bs fr r ++ i_mid s ++ optb (i_v1 s).
Proof.
  intros P H r. destruct (parse_dec _ _ P) as (PT & B & D & _).
  unfold id3f_save_v2 in H. rewrite (header_of_parse _ _ _ PT) in H.
  assert (O : old_size_of (option_map t_size (i_tag s)) = tag_size s).
  { unfold tag_size. destruct (i_tag s); reflexivity. }
  rewrite O in H.
  destruct (prepare_data (zlen f) (tag_size s) fr o) as [data|] eqn:E; [|discriminate].
  destruct (prepare_data_inv _ _ _ _ _ E) as (V & R & W & bs & T & L & S7 & SS & Dd).
  replace (Z.max 0 (zlen f - 0 - tag_size s)) with (zlen f - tag_size s) in * by lia.
  fold r in R, W, T, SS, Dd.
  assert (Lt : (zlen f <? tag_size s) = false) by lia. rewrite Lt in H. cbn [andb] in H.
  assert (Eg : g = splice f 0 (tag_size s) data) by congruence.
  assert (En : n = zlen data) by congruence. clear H.
  repeat apply conj; try assumption. exists bs. repeat apply conj; try assumption.
  - rewrite En, Dd. apply render_tag_len; assumption.
  - rewrite Eg, Dd. reflexivity.
  - rewrite Eg. unfold splice. rewrite ztake_0. cbn [app]. rewrite Z.add_0_l. rewrite D, Dd. reflexivity.
Qed.

(* a save on a strictly parsed file succeeds whenever the callback result is usable *)
Lemma save_v2_ok f s fr o : id3f_parse f = Ok s ->
  let r := o_cb o (tag_size s - (zlen fr + 10)) (zlen f - tag_size s) in
  (o_v2 o = 3 \/ o_v2 o = 4) -> 0 <= r -> zlen fr + r < 2 ^ 28 ->
  exists g n, id3f_save_v2 f fr o = Ok (g, n).
Proof.
  intros P r V R W. destruct (parse_dec _ _ P) as (PT & B & _).
  unfold id3f_save_v2. rewrite (header_of_parse _ _ _ PT).
  assert (O : old_size_of (option_map t_size (i_tag s)) = tag_size s).
  { unfold tag_size. destruct (i_tag s); reflexivity. }
  rewrite O.
  assert (Em : Z.max 0 (zlen f - 0 - tag_size s) = zlen f - tag_size s) by lia.
  destruct (prepare_data_ok (zlen f) (tag_size s) fr o V) as [data E]; try (rewrite Em; assumption).
  rewrite E. assert (Lt : (zlen f <? tag_size s) = false) by lia. rewrite Lt. cbn [andb]. eexists. eexists. reflexivity.
Qed.

(* the ID3v1 half: the search may not begin inside the new tag a; payload of any length *)
Lemma save_v1_shape a mid v1 mode vb :
  find_id3v1 0 mid = None ->
  (forall v, v1 = Some v -> v1_fits mid v = true) ->
  ((mode =? 1) || (mode =? 2) = true -> zlen vb = 128) ->
  save_v1 (a ++ mid ++ optb v1) mode vb (zlen a) = a ++ mid ++ optb (v1_after mode vb v1).
Proof.
  intros Fm Fv Hvb. unfold save_v1. pose proof (zlen_nonneg a). pose proof (zlen_nonneg mid).
  destruct v1 as [v|]; cbn [optb v1_after].
  - specialize (Fv v eq_refl). unfold v1_fits in Fv.
    apply andb_true_iff in Fv as [Fv F3]. apply andb_true_iff in Fv as [Fv F2]. apply andb_true_iff in Fv as [F0 F1].
    apply Z.eqb_eq in F1.
    rewrite find_id3v1_app by (try rewrite zlen_app; lia).
    destruct (find_id3v1 0 (mid ++ v)) as [n|]; [|discriminate]. cbn [is_some128] in F3. apply Z.eqb_eq in F3. subst n.
    assert (T : ztake (zlen (a ++ mid ++ v) - 128) (a ++ mid ++ v) = a ++ mid).
    { rewrite app_assoc. rewrite zlen_app, F1. replace (zlen (a ++ mid) + 128 - 128) with (zlen (a ++ mid)) by lia.
      apply ztake_app_exact. }
    destruct ((mode =? 1) || (mode =? 2)) eqn:M.
    + specialize (Hvb eq_refl). unfold patch. rewrite T.
      rewrite zdrop_all by (rewrite !zlen_app in *; lia). rewrite app_nil_r. rewrite <- app_assoc. reflexivity.
    + rewrite T. rewrite app_nil_r. reflexivity.
  - rewrite app_nil_r. rewrite find_id3v1_prefix by exact Fm.
    destruct (mode =? 2) eqn:M; [rewrite <- app_assoc; reflexivity|rewrite app_nil_r; reflexivity].
Qed.

(* ------------------------------------------------------------------ the strict reader on what was written *)
Lemma parse_tag_render v2 bs fr r rest :
  (v2 = 3 \/ v2 = 4) -> zlen bs = 4 -> forallb is_7bit bs = true -> syncsafe4 bs = zlen fr + r -> 0 <= r ->
  frames_ok v2 fr = true ->
  parse_tag (render_tag v2 bs fr r ++ rest) = Ok (Some (mkT v2 (10 + zlen fr + r) fr r)).
Proof.
  intros V L S7 SS R FO. destruct (len4 _ L) as (a & b & c & d & ->).
  change (render_tag v2 [a; b; c; d] fr r ++ rest) with
    (73 :: 68 :: 51 :: v2 :: 0 :: 0 :: a :: b :: c :: d :: ((fr ++ zeros r) ++ rest)).
  set (X := (fr ++ zeros r) ++ rest).
  unfold parse_tag.
  change (starts_with M_ID3 (73 :: 68 :: 51 :: v2 :: 0 :: 0 :: a :: b :: c :: d :: X)) with true. cbn [negb].
  rewrite !zlen_cons. pose proof (zlen_nonneg X). pose proof (zlen_nonneg fr).
  bset (1 + (1 + (1 + (1 + (1 + (1 + (1 + (1 + (1 + (1 + zlen X))))))))) <? 10) false.
  change (znth 3 (73 :: 68 :: 51 :: v2 :: 0 :: 0 :: a :: b :: c :: d :: X)) with v2.
  change (znth 4 (73 :: 68 :: 51 :: v2 :: 0 :: 0 :: a :: b :: c :: d :: X)) with 0.
  change (znth 5 (73 :: 68 :: 51 :: v2 :: 0 :: 0 :: a :: b :: c :: d :: X)) with 0.
  change (zslice 6 10 (73 :: 68 :: 51 :: v2 :: 0 :: 0 :: a :: b :: c :: d :: X)) with [a; b; c; d].
  change (zdrop 10 (73 :: 68 :: 51 :: v2 :: 0 :: 0 :: a :: b :: c :: d :: X)) with X.
  assert (V' : (v2 =? 2) || (v2 =? 3) || (v2 =? 4) = true) by (destruct V as [V|V]; rewrite V; reflexivity).
  rewrite V'. cbn [negb]. change (is_byte 0) with true. change (0 =? 0) with true. cbn [negb].
  rewrite S7. cbn [negb]. rewrite SS.
  assert (LX : zlen X = zlen fr + r + zlen rest).
  { subst X. rewrite !zlen_app, zlen_zeros by lia. lia. }
  pose proof (zlen_nonneg rest).
  bset (1 + (1 + (1 + (1 + (1 + (1 + (1 + (1 + (1 + (1 + zlen X))))))))) <? 10 + (zlen fr + r)) false.
  assert (B : ztake (zlen fr + r) X = fr ++ zeros r).
  { subst X. replace (zlen fr + r) with (zlen (fr ++ zeros r)) by (rewrite zlen_app, zlen_zeros by lia; lia).
    apply ztake_app_exact. }
  rewrite B. rewrite frames_len_padded by exact FO.
  rewrite ztake_app_exact. f_equal. f_equal. f_equal; lia.
Qed.

Lemma parse_built v2 bs fr r mid v1 :
  (v2 = 3 \/ v2 = 4) -> zlen bs = 4 -> forallb is_7bit bs = true -> syncsafe4 bs = zlen fr + r -> 0 <= r ->
  frames_ok v2 fr = true ->
  strict_v1 mid = false -> (forall v, v1 = Some v -> v1_fits mid v = true) ->
  id3f_parse (render_tag v2 bs fr r ++ mid ++ optb v1) = Ok (mkI (Some (mkT v2 (10 + zlen fr + r) fr r)) mid v1).
Proof.
  intros V L S7 SS R FO SM Fv. unfold id3f_parse.
  rewrite parse_tag_render by assumption. cbn [t_size].
  rewrite <- (render_tag_len v2 bs fr r L R). rewrite zdrop_app_exact.
  destruct v1 as [v|]; cbn [optb].
  - specialize (Fv v eq_refl). unfold v1_fits in Fv.
    apply andb_true_iff in Fv as [Fv _]. apply andb_true_iff in Fv as [Fv F2]. apply andb_true_iff in Fv as [_ F1].
    apply Z.eqb_eq in F1. rewrite F2. rewrite zlen_app, F1. replace (zlen mid + 128 - 128) with (zlen mid) by lia.
    rewrite ztake_app_exact, zdrop_app_exact. reflexivity.
  - rewrite app_nil_r. rewrite SM. reflexivity.
Qed.

(* ------------------------------------------------------------------ well-formedness unpacked *)
Lemma wf_inv f : id3f_wf f = true -> exists s, id3f_parse f = Ok s /\
  starts_with M_ID3 (i_mid s) = false /\ strict_v1 (i_mid s) = false /\
  find_id3v1 0 (i_mid s) = None /\ (forall v, i_v1 s = Some v -> v1_fits (i_mid s) v = true).
Proof.
  unfold id3f_wf. destruct (id3f_parse f) as [s|]; [|discriminate]. intros H. exists s.
  unfold payload_ok in H. repeat (apply andb_true_iff in H as [H ?]).
  split; [reflexivity|]. repeat apply conj.
  - destruct (starts_with M_ID3 (i_mid s)); [discriminate|reflexivity].
  - destruct (strict_v1 (i_mid s)); [discriminate|reflexivity].
  - destruct (find_id3v1 0 (i_mid s)); [discriminate|reflexivity].
  - intros v E. rewrite E in *. assumption.
Qed.

Lemma wf_intro f s : id3f_parse f = Ok s ->
  starts_with M_ID3 (i_mid s) = false -> strict_v1 (i_mid s) = false ->
  find_id3v1 0 (i_mid s) = None -> (forall v, i_v1 s = Some v -> v1_fits (i_mid s) v = true) ->
  id3f_wf f = true.
Proof.
  intros P B C D E. unfold id3f_wf. rewrite P. unfold payload_ok.
  rewrite B, C, D. cbn [negb is_none andb].
  destruct (i_v1 s) as [v|]; [apply E; reflexivity|reflexivity].
Qed.

(* the hypothesis on the ID3v1 bytes of a save: whenever they are (or may be) written they fit behind the payload *)
Definition v1_hyp (mid : list Z) (o : opts) : Prop :=
  (o_v1 o =? 1) || (o_v1 o =? 2) = true -> v1_fits mid (o_v1bytes o) = true.

Lemma v1_after_fits mid o old :
  v1_hyp mid o -> (forall v, old = Some v -> v1_fits mid v = true) ->
  forall v, v1_after (o_v1 o) (o_v1bytes o) old = Some v -> v1_fits mid v = true.
Proof.
  intros Hh Ho v E. unfold v1_after in E. unfold v1_hyp in Hh.
  destruct old as [w|].
  - destruct ((o_v1 o =? 1) || (o_v1 o =? 2)) eqn:M; [|discriminate]. inversion E; subst v. auto.
  - destruct (o_v1 o =? 2) eqn:M; [|discriminate]. inversion E; subst v. apply Hh. apply orb_true_r.
Qed.

Lemma v1_fits_len mid v : v1_fits mid v = true -> zlen v = 128 /\ 3 <= zlen mid.
Proof.
  unfold v1_fits. intros H. apply andb_true_iff in H as [H _]. apply andb_true_iff in H as [H _].
  apply andb_true_iff in H as [A B]. lia.
Qed.

(* THE shape theorem of save on a well-formed file *)
Lemma save_shape f fr o f' : id3f_wf f = true -> id3f_save f fr o = Ok f' ->
  exists s, id3f_parse f = Ok s /\
  let r := o_cb o (tag_size s - (zlen fr + 10)) (zlen f - tag_size s) in
  (o_v2 o = 3 \/ o_v2 o = 4) /\ 0 <= r /\ zlen fr + r < 2 ^ 28 /\
  exists bs, to_str (zlen fr + r) 7 true 4 4 = Ok bs /\ zlen bs = 4 /\ forallb is_7bit bs = true /\
    syncsafe4 bs = zlen fr + r /\
    (v1_hyp (i_mid s) o ->
     f' = render_tag (o_v2 o) bs fr r ++ i_mid s ++ optb (v1_after (o_v1 o) (o_v1bytes o) (i_v1 s))).
Proof.
  intros WF H. destruct (wf_inv _ WF) as (s & P & NI & SM & Fm & Fv). exists s. split; [exact P|].
  unfold id3f_save in H. destruct (id3f_save_v2 f fr o) as [[g n]|] eqn:E; [|discriminate].
  assert (Ef : f' = save_v1 g (o_v1 o) (o_v1bytes o) n) by congruence. clear H.
  destruct (save_v2_shape _ _ _ _ _ _ P E) as (V & R & W & bs & T & L & S7 & SS & En & _ & G).
  cbv zeta. repeat apply conj; try assumption. exists bs. repeat apply conj; try assumption.
  intros Hh. rewrite Ef, G. rewrite En. rewrite <- (render_tag_len (o_v2 o) bs fr _ L R).
  apply save_v1_shape; try assumption.
  intros M. specialize (Hh M). apply v1_fits_len in Hh. lia.
Qed.

(* ------------------------------------------------------------------ delete *)
Lemma delete_shape f : id3f_wf f = true -> exists s, id3f_parse f = Ok s /\ id3f_delete f = Ok (i_mid s).
Proof.
  intros WF. destruct (wf_inv _ WF) as (s & P & NI & SM & Fm & Fv). exists s. split; [exact P|].
  destruct (parse_dec _ _ P) as (PT & B & D & Ff & V1).
  set (T := ztake (tag_size s) f) in *.
  assert (LT : zlen T = tag_size s) by (subst T; rewrite zlen_ztake by lia; lia).
  unfold id3f_delete. pose proof (zlen_nonneg (i_mid s)) as Hm0. pose proof (zlen_nonneg T).
  (* the end of the ID3v2 tag as delete computes it *)
  assert (V2 : (if (zlen (ztake 10 f) =? 10) && starts_with M_ID3 (ztake 10 f)
                then match bpi_of_bytes 7 true (zslice 6 10 (ztake 10 f)) with Ok v => Ok (v + 10) | Raise e => Raise e end
                else Ok 0) = Ok (zlen T)).
  { destruct (i_tag s) as [t|] eqn:ET.
    - destruct (parse_tag_inv _ _ PT) as (S & L & Vv & F5 & S7 & Sz & Bd & _).
      rewrite zlen_ztake by lia. bset (Z.min 10 (zlen f)) 10. rewrite starts_with_ztake by (cbn; lia). rewrite S.
      change ((10 =? 10) && true) with true. cbv iota. rewrite zslice_ztake10, bpi_syncsafe by exact S7.
      f_equal. unfold tag_size in LT. rewrite ET in LT. lia.
    - apply parse_tag_none in PT. rewrite starts_with_ztake by (cbn; lia). rewrite PT. rewrite andb_false_r.
      f_equal. unfold tag_size in LT. rewrite ET in LT. lia. }
  rewrite V2. clear V2.
  assert (F1 : match find_id3v1 (zlen T) f with Some n => ztake (zlen f - n) f | None => f end = T ++ i_mid s).
  { destruct (i_v1 s) as [v|] eqn:EV; cbn [optb] in *.
    - destruct V1 as [Lv _]. specialize (Fv v eq_refl). destruct (v1_fits_len _ _ Fv) as [_ L3].
      unfold v1_fits in Fv. apply andb_true_iff in Fv as [_ F3].
      rewrite Ff at 1. rewrite find_id3v1_app by (try rewrite zlen_app; lia).
      destruct (find_id3v1 0 (i_mid s ++ v)) as [n|]; [|discriminate]. cbn [is_some128] in F3. apply Z.eqb_eq in F3. subst n.
      rewrite Ff. rewrite app_assoc. rewrite zlen_app, Lv.
      replace (zlen (T ++ i_mid s) + 128 - 128) with (zlen (T ++ i_mid s)) by lia. apply ztake_app_exact.
    - rewrite app_nil_r in Ff. rewrite Ff at 1. rewrite find_id3v1_prefix by exact Fm. exact Ff. }
  rewrite F1. clear F1.
  destruct (i_tag s) as [t|] eqn:ET.
  - destruct (parse_tag_inv _ _ PT) as (S & L & Vv & F5 & S7 & Sz & Bd & _).
    unfold tag_size in *. rewrite ET in *.
    assert (L10 : zlen (ztake 10 (T ++ i_mid s)) = 10) by (rewrite zlen_ztake, zlen_app by lia; lia).
    rewrite L10. change (negb (10 =? 10)) with false. cbv iota.
    assert (E10 : ztake 10 (T ++ i_mid s) = ztake 10 f).
    { rewrite ztake_app_l by lia. subst T. rewrite ET. rewrite ztake_ztake. f_equal. lia. }
    rewrite E10. rewrite zslice_ztake10. rewrite bpi_syncsafe by exact S7.
    rewrite starts_with_ztake by (cbn; lia). rewrite S.
    pose proof (syncsafe4_nonneg _ (proj1 (is_7bit_Forall _) S7)) as Hs.
    bset (0 <=? syncsafe4 (zslice 6 10 f)) true. cbn [andb].
    rewrite zlen_app. bset (zlen T + zlen (i_mid s) <? syncsafe4 (zslice 6 10 f) + 10) false.
    f_equal. unfold splice. rewrite ztake_0, Z.add_0_l. cbn [app].
    replace (syncsafe4 (zslice 6 10 f) + 10) with (zlen T) by lia. apply zdrop_app_exact.
  - unfold tag_size in *. rewrite ET in *.
    assert (TN : T = []) by (subst T; rewrite ET; apply ztake_0). rewrite TN in *. cbn [app].
    destruct (negb (zlen (ztake 10 (i_mid s)) =? 10)) eqn:L10; [reflexivity|].
    destruct (bpi_total (zslice 6 10 (ztake 10 (i_mid s)))) as [v Ev]. rewrite Ev.
    rewrite starts_with_ztake by (cbn; lia). rewrite NI. cbn [andb]. reflexivity.
Qed.

(* the payload alone is a well-formed file without tags *)
Lemma parse_payload mid : starts_with M_ID3 mid = false -> strict_v1 mid = false ->
  id3f_parse mid = Ok (mkI None mid None).
Proof.
  intros NI SM. unfold id3f_parse, parse_tag. rewrite NI. cbn [negb]. rewrite zdrop_0. rewrite SM. reflexivity.
Qed.
