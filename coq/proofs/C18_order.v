(* C18: File's selection is the unique maximum of the (score, name) pairs under Python's tuple order,
   hence independent of the order of the options list; the literal sort-and-take-last formulation
   agrees with it. *)
From Coq Require Import ZArith List Bool Lia Permutation.
Import ListNotations.
Require Import Base.Py Model.ScorePrims Gen.Gen_scores Model.Score.
Open Scope Z_scope.

(* ---- Python's str order on code-point lists is a strict total order ---- *)
Lemma str_ltb_irrefl : forall a, str_ltb a a = false.
Proof.
  induction a as [|x a IH]; cbn [str_ltb]; [reflexivity|].
  rewrite IH, Z.ltb_irrefl, andb_false_r. reflexivity.
Qed.

Lemma str_ltb_trans : forall a b c, str_ltb a b = true -> str_ltb b c = true -> str_ltb a c = true.
Proof.
  induction a as [|x a IH]; intros [|y b] [|z c]; cbn [str_ltb]; intros H1 H2; try discriminate; try reflexivity.
  apply orb_true_iff in H1. apply orb_true_iff in H2. apply orb_true_iff.
  destruct H1 as [H1|H1]; destruct H2 as [H2|H2];
    try (apply andb_true_iff in H1; destruct H1 as [E1 L1]; apply Z.eqb_eq in E1);
    try (apply andb_true_iff in H2; destruct H2 as [E2 L2]; apply Z.eqb_eq in E2);
    try apply Z.ltb_lt in H1; try apply Z.ltb_lt in H2.
  - left. apply Z.ltb_lt. lia.
  - left. apply Z.ltb_lt. lia.
  - left. apply Z.ltb_lt. lia.
  - right. apply andb_true_iff. split; [apply Z.eqb_eq; lia | eapply IH; eassumption].
Qed.

Lemma str_ltb_total : forall a b, str_ltb a b = false -> str_ltb b a = false -> a = b.
Proof.
  induction a as [|x a IH]; intros [|y b]; cbn [str_ltb]; intros H1 H2; try discriminate; try reflexivity.
  apply orb_false_iff in H1. apply orb_false_iff in H2. destruct H1 as [A1 B1]. destruct H2 as [A2 B2].
  apply Z.ltb_ge in A1. apply Z.ltb_ge in A2. assert (x = y) by lia. subst y.
  rewrite Z.eqb_refl in B1, B2. cbn [andb] in B1, B2. f_equal. apply IH; assumption.
Qed.

(* ---- the (int, str) tuple order ---- *)
Lemma key_ltb_irrefl : forall p, key_ltb p p = false.
Proof.
  intros [s n]. unfold key_ltb. cbn [fst snd]. rewrite Z.ltb_irrefl, str_ltb_irrefl, andb_false_r. reflexivity.
Qed.

Lemma key_ltb_trans : forall p q r, key_ltb p q = true -> key_ltb q r = true -> key_ltb p r = true.
Proof.
  intros [s1 n1] [s2 n2] [s3 n3]. unfold key_ltb. cbn [fst snd]. intros H1 H2.
  apply orb_true_iff in H1. apply orb_true_iff in H2. apply orb_true_iff.
  destruct H1 as [H1|H1]; destruct H2 as [H2|H2];
    try (apply andb_true_iff in H1; destruct H1 as [E1 L1]; apply Z.eqb_eq in E1);
    try (apply andb_true_iff in H2; destruct H2 as [E2 L2]; apply Z.eqb_eq in E2);
    try apply Z.ltb_lt in H1; try apply Z.ltb_lt in H2.
  - left. apply Z.ltb_lt. lia.
  - left. apply Z.ltb_lt. lia.
  - left. apply Z.ltb_lt. lia.
  - right. apply andb_true_iff. split; [apply Z.eqb_eq; lia | eapply str_ltb_trans; eassumption].
Qed.

Lemma key_ltb_total : forall p q, key_ltb p q = false -> key_ltb q p = false -> p = q.
Proof.
  intros [s1 n1] [s2 n2]. unfold key_ltb. cbn [fst snd]. intros H1 H2.
  apply orb_false_iff in H1. apply orb_false_iff in H2. destruct H1 as [A1 B1]. destruct H2 as [A2 B2].
  apply Z.ltb_ge in A1. apply Z.ltb_ge in A2. assert (s1 = s2) by lia. subst s2.
  rewrite Z.eqb_refl in B1, B2. cbn [andb] in B1, B2. f_equal. apply str_ltb_total; assumption.
Qed.

Lemma key_ltb_asym : forall p q, key_ltb p q = true -> key_ltb q p = false.
Proof.
  intros p q H. destruct (key_ltb q p) eqn:E; [|reflexivity].
  pose proof (key_ltb_trans _ _ _ H E) as T. rewrite key_ltb_irrefl in T. discriminate.
Qed.

(* p <= q *)
Definition kle (p q : Z * name) : Prop := key_ltb q p = false.

Lemma kle_refl : forall p, kle p p.
Proof. intro p. apply key_ltb_irrefl. Qed.

Lemma kle_trans : forall p q r, kle p q -> kle q r -> kle p r.
Proof.
  unfold kle. intros p q r H1 H2. destruct (key_ltb r p) eqn:E; [|reflexivity].
  (* r < p ; q <= ... *)
  destruct (key_ltb p q) eqn:Epq.
  - pose proof (key_ltb_trans _ _ _ E Epq) as T. rewrite T in H2. discriminate.
  - pose proof (key_ltb_total _ _ Epq H1) as EQ. subst q. rewrite E in H2. discriminate.
Qed.

Lemma kle_antisym : forall p q, kle p q -> kle q p -> p = q.
Proof. unfold kle. intros p q H1 H2. apply key_ltb_total; assumption. Qed.

Lemma kmax_cases : forall p q, let m := kmax p q in (m = p \/ m = q) /\ kle p m /\ kle q m.
Proof.
  intros p q. unfold kmax, kle. destruct (key_ltb p q) eqn:E; cbv zeta.
  - split; [right; reflexivity|]. split; [apply key_ltb_asym; exact E | apply key_ltb_irrefl].
  - split; [left; reflexivity|]. split; [apply key_ltb_irrefl | exact E].
Qed.

Definition is_max (m : Z * name) (l : list (Z * name)) : Prop := In m l /\ forall y, In y l -> kle y m.

Lemma fold_kmax_is_max : forall r x, is_max (fold_left kmax r x) (x :: r).
Proof.
  induction r as [|y r IH]; intro x; cbn [fold_left].
  - split; [left; reflexivity|]. intros z [<-|[]]. apply kle_refl.
  - destruct (IH (kmax x y)) as [Hin Hmax].
    destruct (kmax_cases x y) as [Hc [Hx Hy]]. cbv zeta in Hc, Hx, Hy.
    split.
    + destruct Hin as [Hin|Hin].
      * rewrite <- Hin. destruct Hc as [-> | ->]; [left; reflexivity | right; left; reflexivity].
      * right. right. exact Hin.
    + intros z [<-|[<-|Hz]].
      * eapply kle_trans; [exact Hx | apply Hmax; left; reflexivity].
      * eapply kle_trans; [exact Hy | apply Hmax; left; reflexivity].
      * apply Hmax. right. exact Hz.
Qed.

Lemma is_max_unique : forall l m m', is_max m l -> is_max m' l -> m = m'.
Proof. intros l m m' [I1 M1] [I2 M2]. apply kle_antisym; [apply M2, I1 | apply M1, I2]. Qed.

Lemma is_max_perm : forall l l' m, Permutation l l' -> is_max m l -> is_max m l'.
Proof.
  intros l l' m P [I M]. split; [eapply Permutation_in; eassumption|].
  intros y Hy. apply M. eapply Permutation_in; [apply Permutation_sym; exact P | exact Hy].
Qed.

(* choose l = pick (the maximum) *)
Lemma choose_spec : forall l m, is_max m l -> choose l = pick m.
Proof.
  intros [|x r] m H; [destruct H as [[] _]|]. unfold choose. f_equal.
  eapply is_max_unique; [apply fold_kmax_is_max | exact H].
Qed.

Theorem choose_perm : forall l l', Permutation l l' -> choose l = choose l'.
Proof.
  intros l l' P. destruct l as [|x r].
  - apply Permutation_nil in P. subst l'. reflexivity.
  - pose proof (fold_kmax_is_max r x) as M. rewrite (choose_spec (x :: r) _ M).
    symmetry. apply choose_spec. eapply is_max_perm; eassumption.
Qed.

Theorem detect_with_perm : forall opts opts' fname header trailer, Permutation opts opts' ->
  detect_with opts fname header trailer = detect_with opts' fname header trailer.
Proof. intros. unfold detect_with, scores_with. apply choose_perm. apply Permutation_map. assumption. Qed.

(* class names of the default options are pairwise distinct: the sort in File never has to compare two
   class objects (which would raise TypeError), and a name identifies its class *)
Lemma NoDup_by_compute : forall (l : list (list Z)),
  (fix nodup (l : list (list Z)) : bool :=
     match l with [] => true | x :: r => negb (existsb (list_eqb x) r) && nodup r end) l = true -> NoDup l.
Proof.
  assert (EQ : forall a b, a = b -> list_eqb a b = true).
  { induction a as [|x a IH]; intros b <-; cbn [list_eqb]; [reflexivity|]. rewrite Z.eqb_refl, IH; reflexivity. }
  induction l as [|x r IH]; intro H; [constructor|].
  apply andb_true_iff in H. destruct H as [H1 H2]. constructor; [|apply IH; exact H2].
  intro Hin. apply negb_true_iff in H1. assert (existsb (list_eqb x) r = true); [|congruence].
  apply existsb_exists. exists x. split; [exact Hin | apply EQ; reflexivity].
Qed.

Theorem names_distinct : NoDup option_names /\ NoDup option_easy_names.
Proof. split; apply NoDup_by_compute; vm_compute; reflexivity. Qed.

(* ---- sort-and-take-last = maximum ---- *)
Lemma insert_key_in : forall x l y, In y (insert_key x l) <-> y = x \/ In y l.
Proof.
  induction l as [|z l IH]; intro y; cbn [insert_key].
  - cbn [In]. intuition.
  - destruct (key_ltb x z); cbn [In]; [intuition|]. rewrite IH. intuition.
Qed.

Lemma sort_keys_in : forall l y, In y (sort_keys l) <-> In y l.
Proof.
  induction l as [|x l IH]; intro y; cbn [sort_keys fold_right]; [tauto|].
  change (fold_right insert_key [] l) with (sort_keys l). rewrite insert_key_in, IH. cbn [In]. intuition.
Qed.

Fixpoint ascending (l : list (Z * name)) : Prop :=
  match l with
  | [] => True
  | x :: r => (forall y, In y r -> kle x y) /\ ascending r
  end.

Lemma insert_key_ascending : forall x l, ascending l -> ascending (insert_key x l).
Proof.
  induction l as [|z l IH]; intro A; cbn [insert_key].
  - cbn. split; [intros y []|exact I].
  - destruct A as [Az Al]. destruct (key_ltb x z) eqn:E.
    + cbn [ascending]. split; [|split; assumption].
      intros y [<-|Hy]; [apply key_ltb_asym; exact E|].
      eapply kle_trans; [apply key_ltb_asym; exact E | apply Az; exact Hy].
    + cbn [ascending]. split; [|apply IH; exact Al].
      intros y Hy. apply insert_key_in in Hy. destruct Hy as [->|Hy]; [exact E | apply Az; exact Hy].
Qed.

Lemma sort_keys_ascending : forall l, ascending (sort_keys l).
Proof.
  induction l as [|x l IH]; cbn [sort_keys fold_right]; [exact I|]. apply insert_key_ascending. exact IH.
Qed.

Lemma ascending_last_is_max : forall l m r, ascending l -> rev l = m :: r -> is_max m l.
Proof.
  intros l m r A R. assert (L : l = rev r ++ [m]).
  { rewrite <- (rev_involutive l), R. reflexivity. }
  subst l. clear R. split; [apply in_or_app; right; left; reflexivity|].
  induction (rev r) as [|z t IH]; cbn [app] in *.
  - intros y [<-|[]]. apply kle_refl.
  - destruct A as [Az At]. intros y [<-|Hy]; [apply Az; apply in_or_app; right; left; reflexivity|].
    apply IH; assumption.
Qed.

Theorem choose_sorted_eq : forall l, choose_sorted l = choose l.
Proof.
  intro l. unfold choose_sorted. destruct (rev (sort_keys l)) as [|m r] eqn:R.
  - assert (sort_keys l = []) as E.
    { rewrite <- (rev_involutive (sort_keys l)), R. reflexivity. }
    destruct l as [|x l]; [reflexivity|]. exfalso.
    assert (In x (sort_keys (x :: l))) as Hin by (apply sort_keys_in; left; reflexivity).
    rewrite E in Hin. exact Hin.
  - pose proof (ascending_last_is_max _ _ _ (sort_keys_ascending l) R) as [I M].
    symmetry. apply choose_spec. split; [apply sort_keys_in; exact I|].
    intros y Hy. apply M. apply sort_keys_in. exact Hy.
Qed.
