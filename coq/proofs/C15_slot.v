(* C15: Model.Ogg.replace_slot (the byte-level effect assumed for one iteration of the slot loop of
   OggPage.replace) IS what the generated _util.resize_bytes (property C11) followed by seek + write
   does on the file monad *)
From Coq Require Import ZArith List Bool Lia.
Import ListNotations.
Require Import Base.Py Base.ZList Base.FileModel Gen.Gen_util Proofs.FileLemmas Proofs.C11_bytes Proofs.C11_rejects
  Model.Crc Model.Ogg.
Open Scope Z_scope.

Section Slot.
Variables (real : bool) (part : Z) (BUF : Z).
Hypothesis HBUF : 1 <= BUF.
Notation cf := (benign real part).

(* resize_bytes(fileobj, old_size, len(data), offset); fileobj.seek(offset, 0); fileobj.write(data) *)
Definition slot_prog (off old : Z) (data : list Z) : M unit :=
  resize_bytes BUF old (zlen data) off ;; f_seek off 0 ;; f_write data.

Theorem slot_is_resize_bytes f p off old data :
  0 <= old -> 0 <= off -> (off + old <= zlen f \/ zlen data = old) ->
  fst (slot_prog off old data (mkF f p cf)) = Ok tt /\
  replace_slot f off old data = Ok (fdata (snd (slot_prog off old data (mkF f p cf)))).
Proof.
  intros Ho Hoff Hfit. pose proof (zlen_nonneg data) as Hd.
  assert (HR : exists d' p', slot_prog off old data (mkF f p cf) = (Ok tt, mkF d' p' cf) /\
                             replace_slot f off old data = Ok d').
  { unfold slot_prog, replace_slot.
    destruct (old <? 0) eqn:E1; [lia|]. destruct (off <? 0) eqn:E2; [lia|]. cbn [orb].
    destruct (zlen data =? old) eqn:E3.
    - apply Z.eqb_eq in E3. rewrite E3.
      exists (write_at f off data), (off + zlen data). split; [|reflexivity].
      unfold bind at 1. rewrite (resize_bytes_same_size_noop real part BUF f p old off Ho Hoff).
      unfold bind. rewrite (run_seek_abs real part f p off Hoff). rewrite run_write. reflexivity.
    - destruct Hfit as [Hfit|Hfit]; [|apply Z.eqb_neq in E3; lia].
      destruct (zlen f <? off + old) eqn:E4; [lia|].
      destruct (resize_bytes_spec real part BUF HBUF f p old (zlen data) off Ho Hd Hoff Hfit) as (R1 & R2 & R3 & R4 & R5).
      unfold bind at 1.
      destruct (resize_bytes BUF old (zlen data) off {| fdata := f; fpos := p; fcfg_of := cf |}) as [r [d1 p1 c1]].
      cbn [fst snd fdata fcfg_of] in *. subst r c1.
      exists (write_at d1 off data), (off + zlen data). split.
      + unfold bind. rewrite (run_seek_abs real part d1 p1 off Hoff). rewrite run_write. reflexivity.
      + f_equal. unfold write_at.
        destruct (zlen d1 <? off) eqn:E5; [lia|].
        f_equal; [|f_equal; exact (eq_sym R4)].
        assert (T : ztake off d1 = ztake off (ztake (off + Z.min old (zlen data)) d1)).
        { rewrite ztake_ztake. f_equal. lia. }
        rewrite T, R3, ztake_ztake. f_equal. lia. }
  destruct HR as (d' & p' & E & R). rewrite E, R. split; reflexivity.
Qed.
End Slot.
