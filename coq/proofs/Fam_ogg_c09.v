(* Ogg family: C09 -- a callback that returns the padding it is offered (when that is not negative) leaves the file
   size and the position of every page unchanged *)
From Coq Require Import ZArith List Bool Lia.
Import ListNotations.
Require Import Base.Py Base.ZList Gen.Gen_tags Model.Crc Model.Ogg Model.Fam_flac Model.Fam_ogg.
Require Import Proofs.Fam_ogg_inject Proofs.Fam_ogg_thms Proofs.Fam_ogg_c01 Proofs.Fam_ogg_samesize.
Open Scope Z_scope.

Lemma keep_same_length c t pad fsize old d : c <> OFlac -> (c = OOpus -> pad = []) ->
  ogg_f_new_packet c t pad (Some cb_keep) fsize old = Ok d -> zlen (ogg_vdata c t) <= zlen old -> zlen d = zlen old.
Proof.
  intros Hc Hp H Hfit. destruct (new_packet_shape _ _ _ _ _ _ _ H) as (_ & _ & S).
  assert (X : d = ogg_vdata c t ++ zeros (_get_padding (Some cb_keep) (zlen old - zlen (ogg_vdata c t)) (fsize - zlen old))).
  { destruct c; try contradiction; destruct S as [(E & Hn & _)|(_ & E)]; try exact E; try discriminate.
    exfalso. apply Hn. apply Hp. reflexivity. }
  rewrite X, zlen_app, zlen_zeros_max. cbn [_get_padding]. unfold cb_keep. lia.
Qed.

Theorem save_obj_keep f c t pad f' pages : c <> OFlac -> (c = OOpus -> pad = []) ->
  ogg_parse f = Ok pages -> ogg_f_streams_ok pages = true ->
  ogg_save_obj f c t pad (Some cb_keep) = Ok f' ->
  exists olds news k,
    cut_ok c t pad (Some cb_keep) pages olds news k /\ ogg_parse f' = Ok (cut_result k news) /\
    (zlen (ogg_vdata c t) <= zlen (cut_p0 k) ->
     Forall2 (fun p p' => page_size p' = page_size p /\ (p_serial p <> cut_s k -> p' = p)) pages (cut_result k news) /\
     zlen f' = zlen f).
Proof.
  intros Hc Hp P S H. destruct (save_obj_same_size f c t pad _ f' pages P S H) as (olds & news & k & K & P' & X).
  exists olds, news, k. split; [exact K|]. split; [exact P'|]. intros Hfit. apply X; [exact Hc|].
  pose proof K as (_ & _ & _ & _ & _ & _ & _ & N & _). exact (keep_same_length _ _ _ _ _ _ Hc Hp N Hfit).
Qed.
