(* Ogg family: the packets of a stream, reassembled by the independent reader (ogg_f_unpage), before and after a
   save: when the comment packet starts on a page boundary, the packet list changes in exactly that one element *)
From Coq Require Import ZArith List Bool Lia.
Import ListNotations.
Require Import Base.Py Base.ZList Gen.Gen_tags Model.Crc Model.Ogg Model.Fam_flac Model.Fam_ogg.
Require Import Proofs.C15_lacing Proofs.C15_page Proofs.C15_unpage Proofs.C15_paging Proofs.C15_from_packets Proofs.C15_file
  Proofs.C15_replace Proofs.Fam_ogg_scan Proofs.Fam_ogg_locate Proofs.Fam_ogg_replace Proofs.Fam_ogg_stream
  Proofs.Fam_ogg_newpages Proofs.Fam_ogg_preserve Proofs.Fam_ogg_lastpiece Proofs.Fam_ogg_inject Proofs.Fam_ogg_thms.
Open Scope Z_scope.

Definition Ufrom (acc : list (list Z)) (l : list page) : list (list Z) := fold_left ogg_f_unpage_step l acc.
Lemma Ufrom_cons acc p l : Ufrom acc (p :: l) = Ufrom (ogg_f_unpage_step acc p) l.
Proof. reflexivity. Qed.
Lemma Ufrom_app acc a b : Ufrom acc (a ++ b) = Ufrom (Ufrom acc a) b.
Proof. unfold Ufrom. apply fold_left_app. Qed.
Lemma unpage_is_Ufrom l : ogg_f_unpage l = Ufrom [] l.
Proof. reflexivity. Qed.

(* the reassembly only touches the last packet collected so far *)
Lemma step_prefix P Q p : Q <> [] ->
  ogg_f_unpage_step (P ++ Q) p = P ++ ogg_f_unpage_step Q p /\ ogg_f_unpage_step Q p <> [].
Proof.
  intros HQ. unfold ogg_f_unpage_step. destruct (p_packets p) as [|f others]; [split; [reflexivity|exact HQ]|].
  destruct (continued p).
  - rewrite (app_last_app P Q f HQ), <- app_assoc. split; [reflexivity|].
    pose proof (app_last_nonempty Q f). destruct (app_last Q f); [contradiction|discriminate].
  - rewrite <- !app_assoc. split; [reflexivity|]. destruct Q; [contradiction|discriminate].
Qed.
Lemma Ufrom_prefix l : forall P Q, Q <> [] -> Ufrom (P ++ Q) l = P ++ Ufrom Q l.
Proof.
  induction l as [|p r IH]; intros P Q HQ; [reflexivity|]. rewrite !Ufrom_cons.
  destruct (step_prefix P Q p HQ) as (E & N). rewrite E. apply IH. exact N.
Qed.

(* a stream part that starts with a fresh packet does not touch what was collected before *)
Lemma Ufrom_fresh l : chain false l -> Forall (fun p => canonicalb p = true) l ->
  forall P, Ufrom P l = P ++ Ufrom [] l.
Proof.
  induction l as [|p r IH]; intros Hc HW P; [cbn; rewrite app_nil_r; reflexivity|].
  destruct Hc as (C1 & C2). inversion HW as [|? ? Wp Wr]; subst. rewrite !Ufrom_cons.
  unfold ogg_f_unpage_step. rewrite C1. destruct (p_packets p) as [|f others] eqn:E.
  - assert (p_complete p = true) as Cp.
    { unfold canonicalb in Wp. rewrite E in Wp. destruct (p_complete p); [reflexivity|]. cbn in Wp. discriminate. }
    rewrite Cp in C2. exact (IH C2 Wr P).
  - cbn [app]. rewrite <- app_assoc. apply Ufrom_prefix. discriminate.
Qed.

(* to_packets is this reassembly *)
Lemma tp_step_fold serial seq acc p seq' acc' : tp_step serial (seq, acc) p = Ok (seq', acc') ->
  acc' = ogg_f_unpage_step acc p.
Proof.
  unfold tp_step, ogg_f_unpage_step. destruct (negb (serial =? p_serial p)); [discriminate|].
  destruct (negb (seq =? p_sequence p)); [discriminate|].
  destruct (p_packets p) as [|f others]; [intros E; inversion E; reflexivity|].
  destruct (continued p).
  - destruct acc as [|a0 acc0]; [discriminate|]. intros E.
    assert (X : acc' = app_last (a0 :: acc0) f ++ others) by (inversion E; reflexivity). exact X.
  - intros E. inversion E. reflexivity.
Qed.
Lemma tp_loop_fold serial l : forall seq acc seq' acc', tp_loop serial (seq, acc) l = Ok (seq', acc') -> acc' = Ufrom acc l.
Proof.
  induction l as [|p r IH]; intros seq acc seq' acc' H; [inversion H; reflexivity|].
  cbn [tp_loop] in H. destruct (tp_step serial (seq, acc) p) as [[s1 a1]|e] eqn:S; [|discriminate].
  rewrite Ufrom_cons, <- (tp_step_fold _ _ _ _ _ _ S). exact (IH _ _ _ _ H).
Qed.
Lemma to_packets_fold strict l pk : to_packets strict l = Ok pk ->
  pk = Ufrom (if negb strict && continued (hd new_page l) then [[]] else []) l.
Proof.
  unfold to_packets. destruct l as [|p0 r]; [discriminate|]. cbn [hd].
  assert (X : forall acc, rmap snd (tp_loop (p_serial p0) (p_sequence p0, acc) (p0 :: r)) = Ok pk -> pk = Ufrom acc (p0 :: r)).
  { intros acc H. destruct (tp_loop (p_serial p0) (p_sequence p0, acc) (p0 :: r)) as [[s1 a1]|e] eqn:T; [|discriminate].
    cbn [rmap snd] in H. inversion H; subst a1. exact (tp_loop_fold _ _ _ _ _ _ T). }
  destruct strict; cbn [negb andb].
  - destruct (continued p0); [discriminate|]. destruct (negb (p_complete (last (p0 :: r) p0))); [discriminate|]. apply X.
  - destruct (continued p0); apply X.
Qed.

(* the reassembly looks at the continued flag and the packets of each page only *)
Definition ogg_cp (p : page) : bool * list (list Z) := (continued p, p_packets p).
Lemma step_ext acc p q : ogg_cp p = ogg_cp q -> ogg_f_unpage_step acc p = ogg_f_unpage_step acc q.
Proof. unfold ogg_cp, ogg_f_unpage_step. intros E. inversion E as [[E1 E2]]. rewrite E1, E2. reflexivity. Qed.
Lemma Ufrom_ext l1 : forall l2 acc, map ogg_cp l1 = map ogg_cp l2 -> Ufrom acc l1 = Ufrom acc l2.
Proof.
  induction l1 as [|p r IH]; intros [|q r2] acc H; try discriminate; [reflexivity|].
  cbn [map] in H. injection H as H1 H2 H3.
  assert (E : ogg_cp p = ogg_cp q) by (unfold ogg_cp; rewrite H1, H2; reflexivity).
  rewrite !Ufrom_cons, (step_ext acc p q E). apply IH. exact H3.
Qed.

Lemma map_map_last {B} (f : page -> B) g l : (forall x, f (g x) = f x) -> map f (map_last g l) = map f l.
Proof.
  intros Hg. induction l as [|x r IH]; [reflexivity|]. destruct r as [|y r'].
  - cbn [map_last map]. rewrite Hg. reflexivity.
  - rewrite map_last_cons by discriminate. cbn [map] in *. rewrite IH. reflexivity.
Qed.
Lemma map_number_from {B} (f : page -> B) s l : (forall x q, f (ogg_nm s q x) = f x) -> forall q, map f (number_from s q l) = map f l.
Proof.
  intros Hf. induction l as [|x r IH]; intros q; [reflexivity|]. cbn [number_from map]. fold (ogg_nm s q x). rewrite Hf, IH. reflexivity.
Qed.

(* the prepared pages carry the packets of the new pages; with the same continued flag on the first page the
   reassembly is the same *)
Lemma prepared_cp old0 oldl news : continued (hd new_page news) = continued old0 ->
  map ogg_cp (prepare_new old0 oldl news) = map ogg_cp news.
Proof.
  intros Hc. rewrite prepare_new_eq.
  rewrite map_map_last by (intros x; unfold ogg_cp; destruct (gl_flags oldl x) as (_ & F2 & _); destruct (gl_keeps oldl x) as (_ & _ & K3 & _);
                           rewrite F2, K3; reflexivity).
  destruct news as [|h t]; [reflexivity|]. cbn [number_from map_head map]. fold (ogg_nm (p_serial old0) (p_sequence old0) h).
  rewrite map_number_from by (intros x q; reflexivity). f_equal.
  unfold ogg_cp. destruct (gh_flags old0 (ogg_nm (p_serial old0) (p_sequence old0) h)) as (_ & F2 & _). rewrite F2.
  cbn [hd] in Hc. rewrite <- Hc. reflexivity.
Qed.

(* ---- the layout-preserving path: same shape, same bytes, hence the same packets ------------------------- *)
Definition ogg_flat (l : list page) : list Z := concat (map (fun p => concat (p_packets p)) l).

Lemma take_like_concat olds : forall data ps rest, take_like olds data = (ps, rest) -> concat ps ++ rest = data.
Proof.
  induction olds as [|o r IH]; intros data ps rest H; [inversion H; reflexivity|].
  cbn [take_like] in H. destruct (take_like r (zdrop (zlen o) data)) as [ps' rest'] eqn:T. inversion H; subst ps rest.
  cbn [concat]. rewrite <- app_assoc, (IH _ _ _ T). apply ztake_zdrop.
Qed.
Lemma preserve_loop_flat olds : forall data ps rest, preserve_loop olds data = (ps, rest) -> ogg_flat ps ++ rest = data.
Proof.
  induction olds as [|o r IH]; intros data ps rest H; [inversion H; reflexivity|].
  cbn [preserve_loop] in H. destruct (take_like (p_packets o) data) as [pk data'] eqn:T.
  destruct (preserve_loop r data') as [ps' rest'] eqn:P. inversion H; subst ps rest.
  unfold ogg_flat. cbn [map concat p_packets set_packets]. fold (ogg_flat ps'). rewrite <- app_assoc, (IH _ _ _ P).
  exact (take_like_concat _ _ _ _ T).
Qed.

Lemma concat_app_last acc f : concat (app_last acc f) = concat acc ++ f.
Proof.
  destruct (snoc_cases acc) as [->|(a & x & ->)]; [cbn; rewrite app_nil_r; reflexivity|].
  rewrite app_last_snoc, !concat_app. cbn [concat]. rewrite !app_nil_r, app_assoc. reflexivity.
Qed.
Lemma step_concat acc p : concat (ogg_f_unpage_step acc p) = concat acc ++ concat (p_packets p).
Proof.
  unfold ogg_f_unpage_step. destruct (p_packets p) as [|f others]; [cbn; rewrite app_nil_r; reflexivity|].
  destruct (continued p); rewrite concat_app.
  - rewrite concat_app_last. cbn [concat]. rewrite app_assoc. reflexivity.
  - rewrite concat_app. cbn [concat]. rewrite app_nil_r, app_assoc. reflexivity.
Qed.
Lemma Ufrom_concat l : forall acc, concat (Ufrom acc l) = concat acc ++ ogg_flat l.
Proof.
  induction l as [|p r IH]; intros acc; [cbn; rewrite app_nil_r; reflexivity|].
  rewrite Ufrom_cons, IH, step_concat. unfold ogg_flat. cbn [map concat]. rewrite app_assoc. reflexivity.
Qed.

Lemma app_last_lens a1 : forall a2 f1 f2, map (@zlen Z) a1 = map (@zlen Z) a2 -> zlen f1 = zlen f2 ->
  map (@zlen Z) (app_last a1 f1) = map (@zlen Z) (app_last a2 f2).
Proof.
  induction a1 as [|x r IH]; intros [|y r2] f1 f2 H Hf; try discriminate.
  - cbn. rewrite Hf. reflexivity.
  - cbn [map] in H. inversion H as [[H1 H2]]. destruct r as [|x2 r'], r2 as [|y2 r2']; try discriminate.
    + cbn [app_last map]. rewrite !zlen_app, H1, Hf. reflexivity.
    + change (app_last (x :: x2 :: r') f1) with (x :: app_last (x2 :: r') f1).
      change (app_last (y :: y2 :: r2') f2) with (y :: app_last (y2 :: r2') f2). cbn [map]. rewrite H1. f_equal.
      apply IH; assumption.
Qed.
Lemma step_lens a1 a2 o n : ogg_like o n -> map (@zlen Z) a1 = map (@zlen Z) a2 ->
  map (@zlen Z) (ogg_f_unpage_step a2 n) = map (@zlen Z) (ogg_f_unpage_step a1 o).
Proof.
  intros (_ & Ff & _ & _ & L) H. pose proof (continued_b2f n _ Ff) as Cn. unfold ogg_f_unpage_step. rewrite Cn.
  destruct (p_packets n) as [|fn on], (p_packets o) as [|fo oo]; try discriminate; [symmetry; exact H|].
  cbn [map] in L. inversion L as [[L1 L2]]. destruct (continued o); rewrite !map_app.
  - rewrite L2. f_equal. apply app_last_lens; [symmetry; exact H|exact L1].
  - rewrite L2, H. cbn [map]. rewrite L1. reflexivity.
Qed.
Lemma Ufrom_lens olds : forall news a1 a2, Forall2 ogg_like olds news -> map (@zlen Z) a1 = map (@zlen Z) a2 ->
  map (@zlen Z) (Ufrom a2 news) = map (@zlen Z) (Ufrom a1 olds).
Proof.
  induction olds as [|o r IH]; intros news a1 a2 HF H; inversion HF as [|? n ? nr Hl Hr]; subst; [symmetry; exact H|].
  rewrite !Ufrom_cons. apply IH; [exact Hr|]. symmetry. exact (step_lens a1 a2 o n Hl H).
Qed.

Lemma lens_concat_unique (a : list (list Z)) : forall b, map (@zlen Z) a = map (@zlen Z) b -> concat a = concat b -> a = b.
Proof.
  induction a as [|x a IH]; intros [|y b] H C; try discriminate; [reflexivity|].
  cbn [map] in H. inversion H as [[H1 H2]]. cbn [concat] in C.
  assert (x = y /\ concat a = concat b) as (-> & C').
  { assert (E : ztake (zlen x) (x ++ concat a) = ztake (zlen x) (y ++ concat b)) by (rewrite C; reflexivity).
    rewrite ztake_app_exact in E. rewrite H1, ztake_app_exact in E. subst y. split; [reflexivity|].
    exact (app_inv_head _ _ _ C). }
  f_equal. exact (IH b H2 C').
Qed.

(* the two ways new pages are made, with what the layout-preserving one guarantees beyond ogg_like *)
Lemma try_preserve_cases2 packets olds news : from_packets_try_preserve packets olds = Ok news -> olds <> [] ->
  (Forall2 ogg_like olds news /\ ogg_flat news = concat packets /\
   exists old_packets, to_packets false olds = Ok old_packets /\ map (@zlen Z) packets = map (@zlen Z) old_packets) \/
  from_packets 4096 2048 packets (p_sequence (hd new_page olds)) = Ok news.
Proof.
  unfold from_packets_try_preserve. intros H Hne.
  destruct (to_packets false olds) as [old_packets|e] eqn:T; [|discriminate].
  destruct (negb (list_eqb (map (@zlen Z) packets) (map (@zlen Z) old_packets))) eqn:L.
  - destruct olds as [|o r]; [contradiction|]. right. exact H.
  - left. apply negb_false_iff, list_eqb_spec in L.
    destruct (preserve_loop olds (concat packets)) as [ps rest] eqn:P.
    destruct rest; [|discriminate]. inversion H; subst ps.
    destruct (preserve_loop_like _ _ _ _ P) as (A & _).
    { rewrite zlen_concat_data, (data_len_lens _ _ L), (to_packets_total _ _ T). lia. }
    split; [exact A|]. split; [|exists old_packets; auto].
    pose proof (preserve_loop_flat _ _ _ _ P) as F. rewrite app_nil_r in F. exact F.
Qed.

(* ---- the packets of the new pages ------------------------------------------------------------------------- *)
(* for old pages starting a fresh packet: the prepared new pages reassemble to the new packet list *)
Lemma prepared_packets (olds : list page) oldl news (packets old_packets : list (list Z)) seq :
  olds <> [] -> continued (hd new_page olds) = false ->
  to_packets false olds = Ok old_packets -> packets <> [] ->
  (from_packets 4096 2048 packets seq = Ok news \/ from_packets_try_preserve packets olds = Ok news) ->
  Ufrom [] (prepare_new (hd new_page olds) oldl news) = packets.
Proof.
  intros Hne Hc T Hp H.
  assert (FP : forall sq, from_packets 4096 2048 packets sq = Ok news ->
               Ufrom [] (prepare_new (hd new_page olds) oldl news) = packets).
  { intros sq F. destruct (from_packets_spec packets sq 4096 2048 ltac:(lia) Hp) as (pg & E & TP & Hn & _ & Ch & _).
    rewrite F in E. inversion E; subst pg. clear E.
    pose proof (to_packets_fold true news packets TP) as X. cbn [negb andb] in X.
    rewrite (Ufrom_ext _ news); [symmetry; exact X|]. apply prepared_cp. rewrite Hc.
    destruct news as [|n0 nr]; [contradiction|]. destruct Ch as (C1 & _). exact C1. }
  destruct H as [F|F]; [exact (FP _ F)|].
  destruct (try_preserve_cases2 _ _ _ F Hne) as [(L & Fl & op & T' & Ln)|F']; [|exact (FP _ F')].
  rewrite T in T'. inversion T'; subst op. clear T'.
  pose proof (to_packets_fold false olds old_packets T) as X. cbn [negb andb] in X. rewrite Hc in X.
  assert (Hcn : continued (hd new_page news) = false).
  { inversion L as [|o n ? ? Hl Hr]; subst; [contradiction|]. cbn [hd] in *. destruct Hl as (_ & Ff & _).
    rewrite (continued_b2f n _ Ff). exact Hc. }
  rewrite (Ufrom_ext _ news) by (apply prepared_cp; rewrite Hcn, Hc; reflexivity).
  apply lens_concat_unique.
  - rewrite (Ufrom_lens olds news [] [] L eq_refl), <- X. symmetry. exact Ln.
  - rewrite Ufrom_concat. cbn [concat app]. exact Fl.
Qed.
