(* C13 lemma library: the tag as an association list keyed by HashKey (conv_has/get/del/set/add_if),
   an induction principle for the nested frame type, Forall-preservation of the conversion steps. *)
From Coq Require Import ZArith List Bool Lia.
Import ListNotations.
Require Import Base.Py Base.ZList Model.Id3Util Model.Id3Conv.
Open Scope Z_scope.

(* ---------------------------------------------------------------- frame induction *)
Definition conv_is_leaf (f : frame) : bool :=
  match f with FChap _ _ _ _ _ _ | FCtoc _ _ _ _ => false | _ => true end.

Section FrameInd.
  Variable P : frame -> Prop.
  Hypothesis Hleaf : forall f, conv_is_leaf f = true -> P f.
  Hypothesis Hchap : forall e a b c d sub, Forall P sub -> P (FChap e a b c d sub).
  Hypothesis Hctoc : forall e fl ch sub, Forall P sub -> P (FCtoc e fl ch sub).
  Fixpoint frame_ind' (f : frame) : P f :=
    match f as f0 return P f0 with
    | FChap e a b c d sub =>
      Hchap e a b c d sub ((fix go (l : list frame) : Forall P l :=
        match l with [] => Forall_nil P | x :: r => Forall_cons x (frame_ind' x) (go r) end) sub)
    | FCtoc e fl ch sub =>
      Hctoc e fl ch sub ((fix go (l : list frame) : Forall P l :=
        match l with [] => Forall_nil P | x :: r => Forall_cons x (frame_ind' x) (go r) end) sub)
    | f0 => Hleaf f0 eq_refl
    end.
End FrameInd.

(* a property of every frame at every nesting depth *)
Fixpoint conv_deep (P : frame -> Prop) (f : frame) : Prop :=
  P f /\
  match f with
  | FChap _ _ _ _ _ sub => (fix go (l : list frame) : Prop := match l with [] => True | x :: r => conv_deep P x /\ go r end) sub
  | FCtoc _ _ _ sub => (fix go (l : list frame) : Prop := match l with [] => True | x :: r => conv_deep P x /\ go r end) sub
  | _ => True
  end.
Definition conv_deep_all (P : frame -> Prop) (t : tag) : Prop := Forall (conv_deep P) t.

Lemma conv_deep_go (P : frame -> Prop) l :
  (fix go (l : list frame) : Prop := match l with [] => True | x :: r => conv_deep P x /\ go r end) l
  <-> Forall (conv_deep P) l.
Proof.
  induction l as [|x r IH]; split; intro H.
  - constructor.
  - exact I.
  - destruct H as [A B]. constructor; [exact A | apply IH; exact B].
  - inversion H; subst. split; [assumption | apply IH; assumption].
Qed.
Lemma conv_deep_chap (P : frame -> Prop) e a b c d sub :
  conv_deep P (FChap e a b c d sub) <-> P (FChap e a b c d sub) /\ Forall (conv_deep P) sub.
Proof. cbn [conv_deep]. rewrite conv_deep_go. tauto. Qed.
Lemma conv_deep_ctoc (P : frame -> Prop) e fl ch sub :
  conv_deep P (FCtoc e fl ch sub) <-> P (FCtoc e fl ch sub) /\ Forall (conv_deep P) sub.
Proof. cbn [conv_deep]. rewrite conv_deep_go. tauto. Qed.
Lemma conv_deep_head (P : frame -> Prop) f : conv_deep P f -> P f.
Proof. destruct f; cbn [conv_deep]; tauto. Qed.
Lemma conv_deep_leaf (P : frame -> Prop) f : conv_is_leaf f = true -> P f -> conv_deep P f.
Proof. destruct f; cbn; try discriminate; tauto. Qed.

(* ---------------------------------------------------------------- keys *)
Lemma keyeq_true k f : conv_keyeq k f = true <-> conv_key f = k.
Proof. unfold conv_keyeq. apply list_eqb_spec. Qed.
Lemma keyeq_false k f : conv_keyeq k f = false <-> conv_key f <> k.
Proof.
  split; intro H.
  - intro E. apply keyeq_true in E. congruence.
  - destruct (conv_keyeq k f) eqn:E; [|reflexivity]. apply keyeq_true in E. contradiction.
Qed.
Lemma list_eqb_refl a : list_eqb a a = true.
Proof. apply list_eqb_spec. reflexivity. Qed.
Lemma list_eqb_false a b : list_eqb a b = false <-> a <> b.
Proof.
  split; intro H.
  - intro E. apply list_eqb_spec in E. congruence.
  - destruct (list_eqb a b) eqn:E; [|reflexivity]. apply list_eqb_spec in E. contradiction.
Qed.
Lemma keyeq_self f : conv_keyeq (conv_key f) f = true.
Proof. apply keyeq_true. reflexivity. Qed.

(* ---------------------------------------------------------------- has / get *)
Lemma has_get k t : conv_has k t = match conv_get k t with Some _ => true | None => false end.
Proof.
  unfold conv_has, conv_get. induction t as [|f r IH]; cbn; [reflexivity|].
  destruct (conv_keyeq k f); cbn; [reflexivity | exact IH].
Qed.
Lemma get_key k t f : conv_get k t = Some f -> conv_key f = k.
Proof. unfold conv_get. intro H. apply find_some in H. apply keyeq_true. apply H. Qed.
Lemma get_in k t f : conv_get k t = Some f -> In f t.
Proof. unfold conv_get. intro H. apply find_some in H. apply H. Qed.
Lemma has_false_get k t : conv_has k t = false -> conv_get k t = None.
Proof. rewrite has_get. destruct (conv_get k t); [discriminate | reflexivity]. Qed.
Lemma get_none_has k t : conv_get k t = None -> conv_has k t = false.
Proof. rewrite has_get. intros ->. reflexivity. Qed.
Lemma get_some_has k t f : conv_get k t = Some f -> conv_has k t = true.
Proof. rewrite has_get. intros ->. reflexivity. Qed.

(* ---------------------------------------------------------------- del *)
Lemma get_del_same k t : conv_get k (conv_del k t) = None.
Proof.
  unfold conv_get, conv_del. induction t as [|f r IH]; cbn; [reflexivity|].
  destruct (conv_keyeq k f) eqn:E; cbn; [exact IH|]. rewrite E. exact IH.
Qed.
Lemma get_del_other k k' t : k <> k' -> conv_get k (conv_del k' t) = conv_get k t.
Proof.
  intro N. unfold conv_get, conv_del. induction t as [|f r IH]; cbn; [reflexivity|].
  destruct (conv_keyeq k' f) eqn:E; cbn.
  - destruct (conv_keyeq k f) eqn:E2; [|exact IH].
    apply keyeq_true in E. apply keyeq_true in E2. congruence.
  - destruct (conv_keyeq k f); [reflexivity | exact IH].
Qed.
Lemma has_del_same k t : conv_has k (conv_del k t) = false.
Proof. rewrite has_get, get_del_same. reflexivity. Qed.
Lemma has_del_other k k' t : k <> k' -> conv_has k (conv_del k' t) = conv_has k t.
Proof. intro N. rewrite !has_get, get_del_other by exact N. reflexivity. Qed.
Lemma del_absent k t : conv_has k t = false -> conv_del k t = t.
Proof.
  unfold conv_has, conv_del. induction t as [|f r IH]; cbn; [reflexivity|].
  destruct (conv_keyeq k f); cbn; [discriminate|]. intro H. rewrite IH by exact H. reflexivity.
Qed.
Lemma del_Forall (Q : frame -> Prop) k t : Forall Q t -> Forall Q (conv_del k t).
Proof.
  intro H. unfold conv_del. apply Forall_forall. intros x Hx. apply filter_In in Hx.
  rewrite Forall_forall in H. apply H. apply Hx.
Qed.

(* ---------------------------------------------------------------- set / add_if *)
Lemma get_app k a b : conv_get k (a ++ b) = match conv_get k a with Some f => Some f | None => conv_get k b end.
Proof.
  unfold conv_get. induction a as [|f r IH]; cbn; [reflexivity|]. destruct (conv_keyeq k f); [reflexivity | exact IH].
Qed.
Lemma get_set_same f t : conv_get (conv_key f) (conv_set f t) = Some f.
Proof.
  unfold conv_set. destruct (conv_has (conv_key f) t) eqn:H.
  - unfold conv_has in H. unfold conv_get. induction t as [|g r IH]; cbn in *; [discriminate|].
    destruct (conv_keyeq (conv_key f) g) eqn:E; cbn.
    + rewrite keyeq_self. reflexivity.
    + rewrite E. apply IH. exact H.
  - rewrite get_app. rewrite (has_false_get _ _ H). cbn. unfold conv_get. cbn. rewrite keyeq_self. reflexivity.
Qed.
Lemma get_set_other k f t : k <> conv_key f -> conv_get k (conv_set f t) = conv_get k t.
Proof.
  intro N. unfold conv_set. destruct (conv_has (conv_key f) t).
  - unfold conv_get. induction t as [|g r IH]; cbn; [reflexivity|].
    destruct (conv_keyeq (conv_key f) g) eqn:E.
    + assert (A : conv_keyeq k f = false) by (apply keyeq_false; congruence).
      assert (B : conv_keyeq k g = false).
      { apply keyeq_false. apply keyeq_true in E. congruence. }
      rewrite A, B. exact IH.
    + destruct (conv_keyeq k g); [reflexivity | exact IH].
  - rewrite get_app. destruct (conv_get k t); [reflexivity|]. unfold conv_get. cbn.
    assert (A : conv_keyeq k f = false) by (apply keyeq_false; congruence). rewrite A. reflexivity.
Qed.
Lemma set_Forall (Q : frame -> Prop) f t : Q f -> Forall Q t -> Forall Q (conv_set f t).
Proof.
  intros Hf H. unfold conv_set. destruct (conv_has (conv_key f) t).
  - induction H; cbn; constructor; [destruct (conv_keyeq (conv_key f) x); assumption | assumption].
  - apply Forall_app. split; [assumption | constructor; [assumption | constructor]].
Qed.

Lemma get_add_if_same c f t :
  conv_get (conv_key f) (conv_add_if c f t) =
  if c && negb (conv_has (conv_key f) t) then Some f else conv_get (conv_key f) t.
Proof. unfold conv_add_if. destruct (c && negb (conv_has (conv_key f) t)); [apply get_set_same | reflexivity]. Qed.
Lemma get_add_if_other k c f t : k <> conv_key f -> conv_get k (conv_add_if c f t) = conv_get k t.
Proof. intro N. unfold conv_add_if. destruct (c && negb (conv_has (conv_key f) t)); [apply get_set_other; exact N | reflexivity]. Qed.
Lemma has_add_if_other k c f t : k <> conv_key f -> conv_has k (conv_add_if c f t) = conv_has k t.
Proof. intro N. rewrite !has_get, get_add_if_other by exact N. reflexivity. Qed.
Lemma add_if_Forall (Q : frame -> Prop) c f t : Q f -> Forall Q t -> Forall Q (conv_add_if c f t).
Proof. intros. unfold conv_add_if. destruct (c && negb (conv_has (conv_key f) t)); [apply set_Forall|]; assumption. Qed.
Lemma add_if_false f t : conv_add_if false f t = t.
Proof. reflexivity. Qed.

(* ---------------------------------------------------------------- del_all *)
Lemma del_all_cons k r t : conv_del_all (k :: r) t = conv_del_all r (conv_del k t).
Proof. reflexivity. Qed.
Lemma del_all_nil t : conv_del_all [] t = t.
Proof. reflexivity. Qed.
Lemma get_del_all k ks t : existsb (list_eqb k) ks = false -> conv_get k (conv_del_all ks t) = conv_get k t.
Proof.
  revert t. induction ks as [|k' r IH]; intros t H; [reflexivity|].
  cbn [existsb] in H. apply orb_false_iff in H. destruct H as [A B]. rewrite del_all_cons, IH by exact B.
  apply get_del_other. apply list_eqb_false. exact A.
Qed.
Lemma has_del_all_other k ks t : existsb (list_eqb k) ks = false -> conv_has k (conv_del_all ks t) = conv_has k t.
Proof. intro H. rewrite !has_get, get_del_all by exact H. reflexivity. Qed.
Lemma has_del_absent k k' t : conv_has k t = false -> conv_has k (conv_del k' t) = false.
Proof.
  unfold conv_has, conv_del. induction t as [|f r IH]; cbn; [reflexivity|].
  intro H. apply orb_false_iff in H. destruct H as [A B].
  destruct (conv_keyeq k' f); cbn; [apply IH; exact B|]. rewrite A. apply IH. exact B.
Qed.
Lemma has_del_all_absent k ks t : conv_has k t = false -> conv_has k (conv_del_all ks t) = false.
Proof.
  revert t. induction ks as [|k' r IH]; intros t H; [exact H|].
  rewrite del_all_cons. apply IH. apply has_del_absent. exact H.
Qed.
Lemma has_del_all_in k ks t : existsb (list_eqb k) ks = true -> conv_has k (conv_del_all ks t) = false.
Proof.
  revert t. induction ks as [|k' r IH]; intros t H; [discriminate|].
  cbn [existsb] in H. rewrite del_all_cons. apply orb_true_iff in H. destruct H as [A|B].
  - apply list_eqb_spec in A. subst k'. apply (has_del_all_absent k r). apply has_del_same.
  - apply IH. exact B.
Qed.
Lemma del_all_absent ks t : (forall k, In k ks -> conv_has k t = false) -> conv_del_all ks t = t.
Proof.
  revert t. induction ks as [|k r IH]; intros t H; [reflexivity|].
  rewrite del_all_cons. rewrite del_absent by (apply H; left; reflexivity). apply IH. intros k' Hk. apply H. right. exact Hk.
Qed.
Lemma del_all_Forall (Q : frame -> Prop) ks t : Forall Q t -> Forall Q (conv_del_all ks t).
Proof.
  revert t. induction ks as [|k r IH]; intros t H; [exact H|]. rewrite del_all_cons. apply IH. apply del_Forall. exact H.
Qed.
Lemma In_existsb k ks : In k ks -> existsb (list_eqb k) ks = true.
Proof. intro H. apply existsb_exists. exists k. split; [exact H | apply list_eqb_refl]. Qed.
Lemma del_all_idem ks t : conv_del_all ks (conv_del_all ks t) = conv_del_all ks t.
Proof. apply del_all_absent. intros k Hk. apply has_del_all_in. apply In_existsb. exact Hk. Qed.

(* ---------------------------------------------------------------- map with a key-preserving function *)
Lemma get_map g k t : (forall f, conv_key (g f) = conv_key f) ->
  conv_get k (map g t) = option_map g (conv_get k t).
Proof.
  intro Hk. unfold conv_get. induction t as [|f r IH]; cbn; [reflexivity|].
  unfold conv_keyeq at 1. rewrite Hk. fold (conv_keyeq k f). destruct (conv_keyeq k f); [reflexivity | exact IH].
Qed.
Lemma has_map g k t : (forall f, conv_key (g f) = conv_key f) -> conv_has k (map g t) = conv_has k t.
Proof. intro Hk. rewrite !has_get, get_map by exact Hk. destruct (conv_get k t); reflexivity. Qed.
Lemma map_fixed {A} (g : A -> A) l : Forall (fun x => g x = x) l -> map g l = l.
Proof. induction 1; cbn; [reflexivity|]. congruence. Qed.
