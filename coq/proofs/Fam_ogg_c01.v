(* Ogg family: the new comment packet (ogg_f_new_packet) -- the padding arithmetic (C09), what the independent reader
   decodes from it (C01), the packet written by delete (C08), the packet of a second save (C07) *)
From Coq Require Import ZArith List Bool Lia.
Import ListNotations.
Require Import Base.Py Base.ZList Gen.Gen_tags Model.Crc Model.Ogg Model.Fam_flac Model.Fam_ogg.
Require Import Proofs.Fam_flac_codec Proofs.Fam_ogg_scan.
Open Scope Z_scope.

Definition ogg_framing (c : ogg_codec) : list Z := match c with OVorbis => [1] | _ => [] end.
(* prefix + VComment.write(...) (+ framing bit) *)
Definition ogg_vdata (c : ogg_codec) (t : vc) : list Z := ogg_f_tagprefix c ++ vc_render t ++ ogg_framing c.

Lemma vc_write_ok t data : vc_write t = Ok data -> vc_valid t = true /\ vc_fits32 t = true /\ data = vc_render t.
Proof.
  unfold vc_write. destruct (vc_valid t); [|discriminate]. destruct (vc_fits32 t); [|discriminate].
  cbn [negb]. intros E. inversion E. auto.
Qed.

(* C09: the arithmetic.  The callback is asked with (len(old packet) - len(new comment data), file size - len(old
   packet)); its answer is the number of zero bytes appended (none for a non-positive answer); no call and no
   padding when an Opus tail has to be preserved; OggFLAC has no padding *)
Theorem new_packet_shape c t pad cb fsize old d : ogg_f_new_packet c t pad cb fsize old = Ok d ->
  vc_valid t = true /\ vc_fits32 t = true /\
  match c with
  | OFlac => zlen (vc_render t) <= MAXSZ /\ d = ztake 1 old ++ be_encode 3 (zlen (vc_render t)) ++ vc_render t
  | _ => (c = OOpus /\ pad <> [] /\ d = ogg_vdata c t ++ pad) \/
         ((c <> OOpus \/ pad = []) /\
          d = ogg_vdata c t ++ zeros (_get_padding cb (zlen old - zlen (ogg_vdata c t)) (fsize - zlen old)))
  end.
Proof.
  unfold ogg_f_new_packet. destruct (vc_write t) as [data|e] eqn:Wt; [|discriminate].
  destruct (vc_write_ok t data Wt) as (V & F & ->). intros H. split; [exact V|]. split; [exact F|].
  unfold ogg_vdata, ogg_framing.
  destruct c.
  - right. split; [left; discriminate|]. inversion H. reflexivity.
  - destruct pad as [|b r].
    + right. split; [right; reflexivity|]. inversion H. reflexivity.
    + left. split; [reflexivity|]. split; [discriminate|]. inversion H. reflexivity.
  - right. split; [left; discriminate|]. inversion H. reflexivity.
  - right. split; [left; discriminate|]. inversion H. reflexivity.
  - destruct (MAXSZ <? zlen (vc_render t)) eqn:E; [discriminate|]. inversion H. split; [lia|reflexivity].
Qed.

Lemma all_zero_zeros n : ogg_f_all_zero (zeros n) = true.
Proof. unfold ogg_f_all_zero, zeros. induction (Z.to_nat n) as [|k IH]; [reflexivity|]. cbn [repeat forallb]. exact IH. Qed.
Lemma zlen_zeros_max n : zlen (zeros n) = Z.max 0 n.
Proof.
  destruct (Z.le_gt_cases 0 n); [rewrite zlen_zeros by lia; lia|]. rewrite zeros_neg by lia. rewrite zlen_nil. lia.
Qed.

Lemma zdrop_prefix (p r : list Z) : zdrop (zlen p) (p ++ r) = r.
Proof. apply zdrop_app_exact. Qed.

(* what the independent reader decodes from prefix + comment + framing + rest *)
Lemma decode_vdata c t rest : c <> OFlac -> vc_valid t = true -> vc_fits32 t = true ->
  ogg_f_decode c (ogg_vdata c t ++ rest) =
  match c with
  | OVorbis => if ogg_f_all_zero rest then Ok (t, zlen rest) else Raise EMutagen
  | OOpus => match rest with
             | b :: _ => if ogg_f_odd b then Ok (t, -1) else Ok (t, zlen rest)
             | [] => Ok (t, 0) end
  | _ => if ogg_f_all_zero rest then Ok (t, zlen rest) else Raise EMutagen
  end.
Proof.
  intros Hc V F. pose proof (vc_valid_no_eq t V) as K. unfold ogg_vdata.
  assert (P : forall fr, vc_parse (vc_render t ++ fr ++ rest) = Ok (t, fr ++ rest)) by (intros fr; apply vc_parse_render; assumption).
  destruct c; try contradiction; unfold ogg_f_decode, ogg_framing;
    rewrite <- !app_assoc, ogg_sw_app; cbn [negb]; rewrite zdrop_prefix, P; cbn [app]; try reflexivity.
Qed.

(* C01 + C09 on the packet: the new packet decodes to exactly the tags that were set, and the padding measured behind
   them is the callback's answer *)
Theorem new_packet_decode c t pad cb fsize old d : ogg_f_new_packet c t pad cb fsize old = Ok d ->
  (c = OOpus -> pad = [] \/ exists b r, pad = b :: r /\ ogg_f_odd b = true) ->
  (c = OFlac -> exists h r, old = h :: r /\ h mod 128 = 4) ->
  ogg_f_decode c d =
  Ok (t, match c with
         | OFlac => -1
         | _ => match c, pad with
                | OOpus, _ :: _ => -1
                | _, _ => Z.max 0 (_get_padding cb (zlen old - zlen (ogg_vdata c t)) (fsize - zlen old)) end
         end).
Proof.
  intros H Hop Hfl. destruct (new_packet_shape _ _ _ _ _ _ _ H) as (V & F & S).
  destruct c.
  - destruct S as [(X & _)|(_ & ->)]; [discriminate|].
    rewrite decode_vdata by (try discriminate; assumption). rewrite all_zero_zeros, zlen_zeros_max. destruct pad; reflexivity.
  - destruct S as [(_ & Hp & ->)|([X|X] & ->)].
    + destruct (Hop eq_refl) as [E|(b & r & -> & Ob)]; [contradiction|].
      rewrite decode_vdata by (try discriminate; assumption). rewrite Ob. reflexivity.
    + contradiction.
    + subst pad. rewrite decode_vdata by (try discriminate; assumption).
      rewrite zlen_zeros_max. set (n := _get_padding cb _ _).
      destruct (zeros n) as [|b r] eqn:E.
      * assert (Z.max 0 n = 0) as ->; [|reflexivity]. rewrite <- zlen_zeros_max, E. reflexivity.
      * assert (b = 0) as ->.
        { unfold zeros in E. destruct (Z.to_nat n); [discriminate|]. cbn [repeat] in E. inversion E. reflexivity. }
        cbn [ogg_f_odd Z.odd]. reflexivity.
  - destruct S as [(X & _)|(_ & ->)]; [discriminate|].
    rewrite decode_vdata by (try discriminate; assumption). rewrite all_zero_zeros, zlen_zeros_max. destruct pad; reflexivity.
  - destruct S as [(X & _)|(_ & ->)]; [discriminate|].
    rewrite decode_vdata by (try discriminate; assumption). rewrite all_zero_zeros, zlen_zeros_max. destruct pad; reflexivity.
  - destruct S as (Hm & ->). destruct (Hfl eq_refl) as (h & r & -> & Hh).
    pose proof (vc_valid_no_eq t V) as K.
    destruct (be_encode3_shape (zlen (vc_render t))) as (s1 & s2 & s3 & E3 & B1 & B2 & B3).
    change (ztake 1 (h :: r)) with [h]. rewrite E3. cbn [app]. unfold ogg_f_decode. rewrite Hh. cbn [Z.eqb negb].
    assert (D : be_decode [s1; s2; s3] = zlen (vc_render t)).
    { rewrite <- E3. apply be24_round. pose proof (zlen_nonneg (vc_render t)). lia. }
    rewrite D, Z.eqb_refl. cbn [negb].
    rewrite <- (app_nil_r (vc_render t)), vc_parse_render by assumption. reflexivity.
Qed.

(* C08 on the packet: delete writes vendor + zero comments + zero padding *)
Theorem delete_packet_decode c vendor pad fsize old d :
  ogg_f_new_packet c (mkVC vendor []) pad (Some (fun _ _ => 0)) fsize old = Ok d ->
  (c = OOpus -> pad = [] \/ exists b r, pad = b :: r /\ ogg_f_odd b = true) ->
  (c = OFlac -> exists h r, old = h :: r /\ h mod 128 = 4) ->
  ogg_f_decode c d = Ok (mkVC vendor [], match c with
                                         | OFlac => -1
                                         | _ => match c, pad with OOpus, _ :: _ => -1 | _, _ => 0 end end).
Proof.
  intros H Hop Hfl. rewrite (new_packet_decode _ _ _ _ _ _ _ H Hop Hfl). destruct c; try reflexivity; destruct pad; reflexivity.
Qed.

(* C07 on the packet: saving the same tags again over the packet just written, with a callback that keeps the padding
   it is offered (cb_keep; the default policy for moderate amounts), produces the same packet *)
Theorem resave_packet_keep c t pad cb fsize fsize' old d : c <> OFlac ->
  ogg_f_new_packet c t pad cb fsize old = Ok d ->
  ogg_f_new_packet c t pad (Some cb_keep) fsize' d = Ok d.
Proof.
  intros Hc H. destruct (new_packet_shape _ _ _ _ _ _ _ H) as (V & F & S).
  unfold ogg_f_new_packet. unfold vc_write. rewrite V, F. cbn [negb].
  fold (ogg_framing c). fold (ogg_vdata c t).
  assert (K : forall n, ogg_vdata c t ++ zeros (_get_padding (Some cb_keep) (zlen (ogg_vdata c t ++ zeros n) - zlen (ogg_vdata c t)) (fsize' - zlen (ogg_vdata c t ++ zeros n)))
                        = ogg_vdata c t ++ zeros n).
  { intros n. cbn [_get_padding]. unfold cb_keep. rewrite zlen_app, zlen_zeros_max.
    replace (zlen (ogg_vdata c t) + Z.max 0 n - zlen (ogg_vdata c t)) with (Z.max 0 n) by lia.
    f_equal. destruct (Z.le_gt_cases 0 n); [f_equal; lia|]. rewrite (zeros_neg n) by lia. replace (Z.max (Z.max 0 n) 0) with 0 by lia. reflexivity. }
  destruct c; try contradiction.
  - destruct S as [(X & _)|(_ & ->)]; [discriminate|]. destruct pad; rewrite K; reflexivity.
  - destruct S as [(_ & Hp & ->)|([X|X] & ->)]; [destruct pad; [contradiction|reflexivity]|contradiction|].
    subst pad. rewrite K. reflexivity.
  - destruct S as [(X & _)|(_ & ->)]; [discriminate|]. destruct pad; rewrite K; reflexivity.
  - destruct S as [(X & _)|(_ & ->)]; [discriminate|]. destruct pad; rewrite K; reflexivity.
Qed.
