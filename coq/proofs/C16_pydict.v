(* C16: the association-list dictionary is a finite map (the laws everything else uses). *)
From Coq Require Import ZArith List Bool Lia.
Import ListNotations.
Require Import Base.Py Base.ZList Model.Dict.
Open Scope Z_scope.

Lemma list_eqb_refl k : list_eqb k k = true.
Proof. apply list_eqb_spec; reflexivity. Qed.
Lemma list_eqb_false k k' : list_eqb k k' = false <-> k <> k'.
Proof.
  split; intros H.
  - intros E. apply list_eqb_spec in E. congruence.
  - destruct (list_eqb k k') eqn:E; auto. apply list_eqb_spec in E. contradiction.
Qed.
Lemma list_eqb_sym k k' : list_eqb k k' = list_eqb k' k.
Proof.
  destruct (list_eqb k k') eqn:E.
  - apply list_eqb_spec in E. subst. symmetry. apply list_eqb_refl.
  - apply list_eqb_false in E. symmetry. apply list_eqb_false. congruence.
Qed.

(* case split on a key comparison, turning it into = / <> *)
Ltac deq a b :=
  let E := fresh "E" in
  destruct (list_eqb a b) eqn:E;
  [apply list_eqb_spec in E | pose proof (proj1 (list_eqb_false _ _) E)].

Section Laws.
  Context {A : Type}.
  Implicit Types (d : list (key * A)) (k : key) (a : A).

  Lemma pd_find_none d k : pd_find k d = None <-> ~ In k (map fst d).
  Proof.
    induction d as [|[k' a'] d IH]; cbn.
    - tauto.
    - deq k k'.
      + split; [discriminate | intros H; exfalso; apply H; auto].
      + rewrite IH. split; intros H1; [intros [H2|H2]; [congruence | auto] | tauto].
  Qed.
  Lemma pd_find_some_in d k a : pd_find k d = Some a -> In (k, a) d.
  Proof.
    induction d as [|[k' a'] d IH]; cbn; [discriminate|].
    deq k k'; intros H1.
    - inversion H1; subst; auto.
    - auto.
  Qed.
  Lemma pd_mem_in d k : pd_mem k d = true <-> In k (map fst d).
  Proof.
    unfold pd_mem. destruct (pd_find k d) eqn:E.
    - split; auto. intros _. apply pd_find_some_in in E. apply (in_map fst) in E. exact E.
    - apply pd_find_none in E. split; [discriminate | contradiction].
  Qed.
  Lemma pd_mem_false d k : pd_mem k d = false <-> ~ In k (map fst d).
  Proof.
    rewrite <- pd_mem_in. destruct (pd_mem k d); split; intros H; try congruence.
  Qed.
  Lemma pd_find_in_nodup d k a : NoDup (map fst d) -> In (k, a) d -> pd_find k d = Some a.
  Proof.
    induction d as [|[k' a'] d IH]; cbn; [tauto|].
    intros ND [H|H].
    - inversion H; subst. rewrite list_eqb_refl. reflexivity.
    - inversion ND; subst. deq k k'.
      + subst. exfalso. apply H2. apply (in_map fst) in H. exact H.
      + auto.
  Qed.

  (* remove *)
  Lemma pd_remove_keys d k : map fst (pd_remove k d) = filter (fun x => negb (list_eqb k x)) (map fst d).
  Proof.
    unfold pd_remove. induction d as [|[k' a'] d IH]; cbn; auto.
    destruct (list_eqb k k'); cbn; rewrite ?IH; reflexivity.
  Qed.
  Lemma pd_remove_in d k x : In x (map fst (pd_remove k d)) <-> In x (map fst d) /\ x <> k.
  Proof.
    rewrite pd_remove_keys, filter_In, negb_true_iff, list_eqb_false. intuition congruence.
  Qed.
  Lemma pd_remove_notin d k : ~ In k (map fst d) -> pd_remove k d = d.
  Proof.
    unfold pd_remove. induction d as [|[k' a'] d IH]; cbn; auto.
    intros H. deq k k'.
    - exfalso; apply H; auto.
    - cbn. f_equal. apply IH. tauto.
  Qed.
  Lemma pd_find_remove_same d k : pd_find k (pd_remove k d) = None.
  Proof. apply pd_find_none. rewrite pd_remove_in. tauto. Qed.
  Lemma pd_find_remove_other d k k' : k <> k' -> pd_find k' (pd_remove k d) = pd_find k' d.
  Proof.
    intros N. unfold pd_remove. induction d as [|[k2 a2] d IH]; cbn; auto.
    deq k k2; cbn.
    - subst. deq k' k2; [congruence | auto].
    - rewrite IH. reflexivity.
  Qed.
  Lemma pd_mem_remove_same d k : pd_mem k (pd_remove k d) = false.
  Proof. unfold pd_mem. rewrite pd_find_remove_same. reflexivity. Qed.
  Lemma pd_mem_remove_other d k k' : k <> k' -> pd_mem k' (pd_remove k d) = pd_mem k' d.
  Proof. intros. unfold pd_mem. rewrite pd_find_remove_other; auto. Qed.
  Lemma pd_remove_nodup d k : NoDup (map fst d) -> NoDup (map fst (pd_remove k d)).
  Proof. intros. rewrite pd_remove_keys. apply NoDup_filter. assumption. Qed.
  Lemma pd_remove_incl d k e : In e (pd_remove k d) -> In e d.
  Proof. unfold pd_remove. rewrite filter_In. tauto. Qed.
  Lemma pd_remove_idem d k : pd_remove k (pd_remove k d) = pd_remove k d.
  Proof. apply pd_remove_notin. rewrite pd_remove_in. tauto. Qed.
  Lemma pd_remove_comm d k k' : pd_remove k (pd_remove k' d) = pd_remove k' (pd_remove k d).
  Proof.
    unfold pd_remove. induction d as [|[k2 a2] d IH]; cbn; auto.
    destruct (list_eqb k' k2) eqn:E1, (list_eqb k k2) eqn:E2; cbn; rewrite ?E1, ?E2; cbn; congruence.
  Qed.
  Lemma pd_remove_app d1 d2 k : pd_remove k (d1 ++ d2) = pd_remove k d1 ++ pd_remove k d2.
  Proof. unfold pd_remove. apply filter_app. Qed.
  Lemma pd_remove_head d k a : ~ In k (map fst d) -> pd_remove k ((k, a) :: d) = d.
  Proof.
    intros H. unfold pd_remove. cbn. rewrite list_eqb_refl. cbn. apply pd_remove_notin. exact H.
  Qed.

  (* set *)
  Lemma pd_find_set_same d k a : pd_find k (pd_set k a d) = Some a.
  Proof.
    induction d as [|[k' a'] d IH]; cbn.
    - rewrite list_eqb_refl. reflexivity.
    - deq k k'; cbn.
      + subst. rewrite list_eqb_refl. reflexivity.
      + destruct (list_eqb k k') eqn:E2; [apply list_eqb_spec in E2; contradiction | exact IH].
  Qed.
  Lemma pd_find_set_other d k k' a : k <> k' -> pd_find k' (pd_set k a d) = pd_find k' d.
  Proof.
    intros N. induction d as [|[k2 a2] d IH]; cbn.
    - deq k' k; [congruence | reflexivity].
    - deq k k2; cbn.
      + subst. deq k' k2; [congruence | reflexivity].
      + rewrite IH. reflexivity.
  Qed.
  Lemma pd_mem_set_same d k a : pd_mem k (pd_set k a d) = true.
  Proof. unfold pd_mem. rewrite pd_find_set_same. reflexivity. Qed.
  Lemma pd_mem_set_other d k k' a : k <> k' -> pd_mem k' (pd_set k a d) = pd_mem k' d.
  Proof. intros. unfold pd_mem. rewrite pd_find_set_other; auto. Qed.
  Lemma pd_set_keys d k a :
    map fst (pd_set k a d) = if pd_mem k d then map fst d else map fst d ++ [k].
  Proof.
    unfold pd_mem. induction d as [|[k' a'] d IH]; cbn; auto.
    deq k k'; cbn; auto.
    rewrite IH. destruct (pd_find k d); reflexivity.
  Qed.
  Lemma pd_set_absent d k a : pd_mem k d = false -> pd_set k a d = d ++ [(k, a)].
  Proof.
    unfold pd_mem. induction d as [|[k' a'] d IH]; cbn; auto.
    deq k k'; [discriminate|]. intros H1. rewrite IH; auto.
  Qed.
  Lemma pd_set_nodup d k a : NoDup (map fst d) -> NoDup (map fst (pd_set k a d)).
  Proof.
    intros ND. rewrite pd_set_keys. destruct (pd_mem k d) eqn:E; auto.
    apply pd_mem_false in E.
    apply NoDup_rev in ND. rewrite <- (rev_involutive (map fst d ++ [k])). apply NoDup_rev.
    rewrite rev_app_distr. cbn. constructor; auto. rewrite <- in_rev. exact E.
  Qed.
  Lemma pd_set_in d k a e : NoDup (map fst d) -> In e (pd_set k a d) -> e = (k, a) \/ (In e d /\ fst e <> k).
  Proof.
    induction d as [|[k' a'] d IH]; cbn.
    - intros _ [H|[]]; auto.
    - intros ND. inversion ND; subst. deq k k'; cbn.
      + subst. intros [H|H]; auto. right. split; auto. intros E1. apply H1. rewrite <- E1.
        apply (in_map fst) in H. exact H.
      + intros [H0|H0].
        * right. subst e. cbn. split; auto.
        * destruct (IH H2 H0) as [H3|[H3 H4]]; auto.
  Qed.

  Lemma nodup_app_single (l : list key) k : NoDup l -> ~ In k l -> NoDup (l ++ [k]).
  Proof.
    intros ND H. apply NoDup_rev in ND. rewrite <- (rev_involutive (l ++ [k])). apply NoDup_rev.
    rewrite rev_app_distr. cbn. constructor; auto. rewrite <- in_rev. exact H.
  Qed.
  Lemma pd_find_app d1 d2 k :
    pd_find k (d1 ++ d2) = match pd_find k d1 with Some a => Some a | None => pd_find k d2 end.
  Proof.
    induction d1 as [|[k' a'] d1 IH]; cbn; auto. destruct (list_eqb k k'); auto.
  Qed.
End Laws.
