(* Ogg family: C07 on the comment packet -- saving the same tags again with the default padding policy over a packet
   that carries a moderate amount of padding (0..1024 bytes) gives the same packet *)
From Coq Require Import ZArith List Bool Lia.
Import ListNotations.
Require Import Base.Py Base.ZList Gen.Gen_tags Model.Crc Model.Ogg Model.Fam_flac Model.Fam_ogg.
Require Import Proofs.Fam_flac_codec Proofs.Fam_ogg_scan Proofs.Fam_ogg_c01 Proofs.C09_policy.
Open Scope Z_scope.

Theorem resave_packet_default c t pad fsize' n : c <> OFlac -> vc_valid t = true -> vc_fits32 t = true ->
  (c = OOpus -> pad = []) ->
  0 <= n <= 1024 -> zlen (ogg_vdata c t) + n <= fsize' ->
  ogg_f_new_packet c t pad None fsize' (ogg_vdata c t ++ zeros n) = Ok (ogg_vdata c t ++ zeros n).
Proof.
  intros Hc V F Hp Hn Hs. unfold ogg_f_new_packet, vc_write. rewrite V, F. cbn [negb].
  fold (ogg_framing c). fold (ogg_vdata c t).
  assert (K : ogg_vdata c t ++ zeros (_get_padding None (zlen (ogg_vdata c t ++ zeros n) - zlen (ogg_vdata c t))
                                                     (fsize' - zlen (ogg_vdata c t ++ zeros n))) = ogg_vdata c t ++ zeros n).
  { cbn [_get_padding]. rewrite zlen_app, zlen_zeros by lia.
    replace (zlen (ogg_vdata c t) + n - zlen (ogg_vdata c t)) with n by lia.
    rewrite default_keeps_moderate by lia. reflexivity. }
  destruct c; try contradiction; try (destruct pad; rewrite K; reflexivity).
  rewrite (Hp eq_refl), K. reflexivity.
Qed.
