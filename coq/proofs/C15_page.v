(* C15 (a): a page within the Ogg limits renders, has the announced size, a correct CRC field and
   parses back to the same page (OggPage.write / size / __init__) *)
From Coq Require Import ZArith List Bool Lia.
Import ListNotations.
Require Import Base.Py Base.ZList Model.Crc Model.Ogg Proofs.C15_lacing.
Open Scope Z_scope.

(* `complete` is what __init__ would derive: an incomplete page ends in a non-empty packet piece
   that is a multiple of 255 bytes (its last lacing value is 255) *)
Definition canonicalb (p : page) : bool :=
  p_complete p ||
  (negb (zlen (last (p_packets p) []) =? 0) && (zlen (last (p_packets p) []) mod 255 =? 0)).

Definition page_wf (p : page) : Prop :=
  header_ok p = true /\ p_version p = 0 /\ lacing_count p <= 255 /\ canonicalb p = true.

(* the rendering *)
Definition page_body (p : page) : list Z :=
  header26 p ++ [lacing_count p] ++ lacing_data p ++ concat (p_packets p).
Definition page_bytes (p : page) : list Z := put_crc (page_body p).

(* the CRC field of a rendered page is the Ogg CRC of the page with that field zeroed *)
Definition crc_field_ok (bs : list Z) : Prop :=
  le_decode (zslice 22 26 bs) = ogg_crc (ztake 22 bs ++ [0; 0; 0; 0] ++ zdrop 26 bs).

Lemma ztake_app_len {A} n (a b : list A) : zlen a = n -> ztake n (a ++ b) = a.
Proof. intros <-. apply ztake_app_exact. Qed.
Lemma zdrop_app_len {A} n (a b : list A) : zlen a = n -> zdrop n (a ++ b) = b.
Proof. intros <-. apply zdrop_app_exact. Qed.

Definition h22 (p : page) : list Z :=
  oggs ++ [p_version p; p_flags p] ++ le_encode 8 (p_position p mod two64) ++
  le_encode 4 (p_serial p) ++ le_encode 4 (p_sequence p).

Lemma header26_h22 p : header26 p = h22 p ++ [0; 0; 0; 0].
Proof. unfold header26, h22. repeat rewrite <- app_assoc. reflexivity. Qed.
Lemma zlen_h22 p : zlen (h22 p) = 22.
Proof. unfold h22, oggs. rewrite !zlen_app, !zlen_le_encode. reflexivity. Qed.

Definition hdr27 (p : page) : list Z :=
  h22 p ++ le_encode 4 (ogg_crc (page_body p)) ++ [lacing_count p].
Lemma zlen_hdr27 p : zlen (hdr27 p) = 27.
Proof. unfold hdr27. rewrite !zlen_app, zlen_h22, zlen_le_encode. reflexivity. Qed.

Lemma page_bytes_shape p :
  page_bytes p = hdr27 p ++ lacing_data p ++ concat (p_packets p).
Proof.
  unfold page_bytes, put_crc, hdr27. set (c := ogg_crc (page_body p)).
  unfold page_body. rewrite header26_h22. repeat rewrite <- app_assoc.
  rewrite (ztake_app_len 22 (h22 p)) by apply zlen_h22.
  replace (h22 p ++ [0; 0; 0; 0] ++ [lacing_count p] ++ lacing_data p ++ concat (p_packets p))
    with ((h22 p ++ [0; 0; 0; 0]) ++ [lacing_count p] ++ lacing_data p ++ concat (p_packets p))
    by (rewrite <- app_assoc; reflexivity).
  rewrite (zdrop_app_len 26 (h22 p ++ [0; 0; 0; 0])) by (rewrite zlen_app, zlen_h22; reflexivity).
  reflexivity.
Qed.

Theorem page_bytes_len p : zlen (page_bytes p) = page_size p.
Proof.
  rewrite page_bytes_shape, page_size_spec, !zlen_app, zlen_hdr27, zlen_concat_data.
  unfold lacing_count. lia.
Qed.

Theorem page_write_ok p : header_ok p = true -> lacing_count p <= 255 ->
  page_write p = Ok (page_bytes p).
Proof.
  intros H L. unfold page_write. rewrite H. cbn [negb]. fold (lacing_count p).
  destruct (255 <? lacing_count p) eqn:E; [lia|]. reflexivity.
Qed.

Theorem page_write_too_many p : header_ok p = true -> 255 < lacing_count p ->
  page_write p = Raise EValue.
Proof.
  intros H L. unfold page_write. rewrite H. cbn [negb]. fold (lacing_count p).
  destruct (255 <? lacing_count p) eqn:E; [reflexivity|lia].
Qed.

Theorem page_crc_ok p : crc_field_ok (page_bytes p).
Proof.
  unfold crc_field_ok.
  assert (D : zdrop 26 (page_bytes p) = [lacing_count p] ++ lacing_data p ++ concat (p_packets p)).
  { rewrite page_bytes_shape. unfold hdr27. generalize (ogg_crc (page_body p)) as c. intros c.
    repeat rewrite <- app_assoc.
    replace (h22 p ++ le_encode 4 c ++ [lacing_count p] ++ lacing_data p ++ concat (p_packets p))
      with ((h22 p ++ le_encode 4 c) ++ [lacing_count p] ++ lacing_data p ++ concat (p_packets p))
      by (rewrite <- app_assoc; reflexivity).
    apply zdrop_app_len. rewrite zlen_app, zlen_h22, zlen_le_encode. reflexivity. }
  assert (B : page_body p = h22 p ++ [0; 0; 0; 0] ++ zdrop 26 (page_bytes p)).
  { rewrite D. unfold page_body. rewrite header26_h22. repeat rewrite <- app_assoc. reflexivity. }
  assert (T : ztake 22 (page_bytes p) = h22 p).
  { rewrite page_bytes_shape. unfold hdr27. repeat rewrite <- app_assoc. apply ztake_app_len, zlen_h22. }
  assert (S : zslice 22 26 (page_bytes p) = le_encode 4 (ogg_crc (page_body p))).
  { unfold zslice. rewrite page_bytes_shape. unfold hdr27. repeat rewrite <- app_assoc.
    rewrite (zdrop_app_len 22) by apply zlen_h22. change (26 - 22) with 4.
    apply ztake_app_len. apply zlen_le_encode. }
  rewrite S, T, <- B, le_decode_encode. change (256 ^ Z.of_nat 4) with two32.
  apply Z.mod_small. apply ogg_crc_range.
Qed.

(* field extraction from a 27-byte header, for arbitrary field values *)
Lemma hdr_fields v f x s q c n :
  let h := oggs ++ [v; f] ++ le_encode 8 x ++ le_encode 4 s ++ le_encode 4 q ++ le_encode 4 c ++ [n] in
  ztake 4 h = oggs /\ znth 4 h = v /\ znth 5 h = f /\ zslice 6 14 h = le_encode 8 x /\
  zslice 14 18 h = le_encode 4 s /\ zslice 18 22 h = le_encode 4 q /\ znth 26 h = n.
Proof. cbv zeta. repeat split; reflexivity. Qed.

Lemma last_snoc_nonempty {A} (l : list A) (d : A) : l <> [] -> exists a x, l = a ++ [x] /\ last l d = x.
Proof.
  intros H. exists (removelast l), (last l d). split; [apply app_removelast_last; exact H|reflexivity].
Qed.

(* the lacing table of a canonical page decodes to the packet lengths and the `complete` flag *)
Lemma lacing_scan_page p : canonicalb p = true ->
  let '(racc, total) := lacing_scan (lacing_data p) 0 [] in
  rev (if total =? 0 then racc else total :: racc) = map (@zlen Z) (p_packets p) /\
  (total =? 0) = p_complete p.
Proof.
  unfold canonicalb. intros Hc. destruct (p_complete p) eqn:C.
  - rewrite (lacing_data_complete p C).
    pose proof (lacing_scan_all (p_packets p) [] []) as H. rewrite !app_nil_r in H. rewrite H.
    cbn [lacing_scan]. change (0 =? 0) with true. cbn iota. rewrite rev_involutive. split; reflexivity.
  - cbn [orb] in Hc. apply andb_true_iff in Hc as [Hn Hm].
    destruct (p_packets p) eqn:E.
    + cbn in Hn. discriminate.
    + assert (Hne : l :: l0 <> []) by discriminate. rewrite <- E in *.
      destruct (last_snoc_nonempty (p_packets p) [] Hne) as (a & d & Ea & El). rewrite El in *.
      rewrite (lacing_data_snoc p a d Ea C), Hm.
      rewrite lacing_scan_all. rewrite <- (app_nil_r (repeat 255 (Z.to_nat (zlen d / 255)))).
      rewrite lacing_scan_255s. cbn [lacing_scan].
      pose proof (zlen_nonneg d). assert (0 <= zlen d / 255) by (apply Z.div_pos; lia).
      rewrite Z2Nat.id by lia. apply Z.eqb_eq in Hm.
      assert (Hd : 0 + 255 * (zlen d / 255) = zlen d).
      { rewrite (Z.div_mod (zlen d) 255) at 2 by lia. lia. }
      rewrite Hd. destruct (zlen d =? 0) eqn:Z0; [cbn [negb] in Hn; discriminate|].
      split; [|reflexivity]. rewrite app_nil_r. cbn [rev]. rewrite rev_involutive, Ea, map_app. reflexivity.
Qed.

Theorem page_parse_write p rest : page_wf p ->
  page_parse (page_bytes p ++ rest) = Ok (p, rest).
Proof.
  intros (Hh & Hv & Hl & Hc).
  rewrite page_bytes_shape. repeat rewrite <- app_assoc.
  unfold page_parse.
  rewrite (ztake_app_len 27 (hdr27 p)) by apply zlen_hdr27.
  rewrite (zdrop_app_len 27 (hdr27 p)) by apply zlen_hdr27.
  cbv zeta. rewrite zlen_hdr27. change (27 =? 0) with false. change (27 <? 27) with false. cbn iota.
  destruct (hdr_fields (p_version p) (p_flags p) (p_position p mod two64) (p_serial p) (p_sequence p)
              (ogg_crc (page_body p)) (lacing_count p)) as (F1 & F2 & F3 & F4 & F5 & F6 & F7).
  assert (EH : hdr27 p = oggs ++ [p_version p; p_flags p] ++ le_encode 8 (p_position p mod two64) ++
               le_encode 4 (p_serial p) ++ le_encode 4 (p_sequence p) ++
               le_encode 4 (ogg_crc (page_body p)) ++ [lacing_count p]).
  { unfold hdr27, h22. repeat rewrite <- app_assoc. reflexivity. }
  rewrite EH. cbv zeta in F1, F2, F3, F4, F5, F6, F7.
  rewrite F1, F2, F3, F4, F5, F6, F7.
  assert (Eo : list_eqb oggs oggs = true) by reflexivity. rewrite Eo. cbn [negb].
  rewrite Hv. change (0 =? 0) with true. cbn [negb].
  rewrite (ztake_app_len (lacing_count p) (lacing_data p)) by reflexivity.
  rewrite Z.eqb_refl. cbn [negb].
  rewrite (zdrop_app_len (lacing_count p) (lacing_data p)) by reflexivity.
  pose proof (lacing_scan_page p Hc) as HS.
  destruct (lacing_scan (lacing_data p) 0 []) as (racc, total). destruct HS as (HL & HC).
  rewrite HL, read_packets_all.
  rewrite !le_decode_encode.
  change (256 ^ Z.of_nat 8) with two64. change (256 ^ Z.of_nat 4) with two32.
  unfold header_ok in Hh. repeat (apply andb_true_iff in Hh as [Hh ?]).
  rewrite Z.mod_mod by (unfold two64; lia). rewrite signed64_mod by lia.
  rewrite !Z.mod_small by lia. rewrite HC. rewrite <- Hv at 1.
  destruct p; reflexivity.
Qed.

(* the whole statement (a) for a well-formed page *)
Theorem page_roundtrip p rest : page_wf p ->
  page_write p = Ok (page_bytes p) /\ zlen (page_bytes p) = page_size p /\
  page_size p <= 27 + 255 + 255 * 255 /\
  crc_field_ok (page_bytes p) /\ page_parse (page_bytes p ++ rest) = Ok (p, rest).
Proof.
  intros W. pose proof W as (Hh & Hv & Hl & Hc).
  split; [apply page_write_ok; assumption|]. split; [apply page_bytes_len|].
  split; [|split; [apply page_crc_ok | apply page_parse_write; exact W]].
  (* size bound: each lacing value stands for at most 255 bytes *)
  rewrite page_size_spec.
  assert (B : data_len (p_packets p) <= 255 * seg_sum (p_packets p)).
  { induction (p_packets p) as [|d pk IH]; [cbn; lia|]. cbn [data_len seg_sum fold_right].
    fold (data_len pk) (seg_sum pk). pose proof (zlen_nonneg d).
    pose proof (Z.div_mod (zlen d) 255 ltac:(lia)). pose proof (Z.mod_pos_bound (zlen d) 255 ltac:(lia)). lia. }
  (* seg_sum <= lacing_count + 1, and when they differ the last piece is a multiple of 255 *)
  assert (D : data_len (p_packets p) <= 255 * lacing_count p).
  { unfold lacing_count. destruct (snoc_cases (p_packets p)) as [E|(a & d & E)].
    - rewrite (lacing_data_nil p E), E. cbn. lia.
    - destruct (p_complete p) eqn:C.
      + rewrite (lacing_data_complete p C), zlen_all_lacing. exact B.
      + rewrite (lacing_data_snoc p a d E C). destruct (zlen d mod 255 =? 0) eqn:M.
        * rewrite zlen_app, zlen_all_lacing, zlen_repeat. rewrite E, data_len_app. cbn [data_len fold_right].
          assert (Ba : data_len a <= 255 * seg_sum a).
          { clear. induction a as [|x a IH]; [cbn; lia|]. cbn [data_len seg_sum fold_right].
            fold (data_len a) (seg_sum a). pose proof (zlen_nonneg x).
            pose proof (Z.div_mod (zlen x) 255 ltac:(lia)). pose proof (Z.mod_pos_bound (zlen x) 255 ltac:(lia)). lia. }
          apply Z.eqb_eq in M. pose proof (zlen_nonneg d).
          pose proof (Z.div_mod (zlen d) 255 ltac:(lia)).
          assert (0 <= zlen d / 255) by (apply Z.div_pos; lia). lia.
        * rewrite zlen_all_lacing, <- E. exact B. }
  lia.
Qed.
