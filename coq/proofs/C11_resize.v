From Coq Require Import ZArith List Bool Lia.
Import ListNotations.
Require Import Base.Py Base.ZList Base.FileModel Gen.Gen_util Proofs.FileLemmas Proofs.C11_move Proofs.C11_move2.
Open Scope Z_scope.

Section Resize.
Variables (real : bool) (part : Z).
Notation cf := (benign real part).
Variable BUF : Z.
Hypothesis HBUF : 1 <= BUF.

Lemma grow_loop : forall fuel diff d,
  0 <= diff -> (Z.to_nat diff < fuel)%nat ->
  resize_file_loop1 BUF fuel diff (mkF d (zlen d) cf) = (Ok 0, mkF (d ++ zeros diff) (zlen d + diff) cf).
Proof.
  induction fuel as [|fuel IH]; intros diff d Hd Hf; [lia|].
  cbn [resize_file_loop1]. destruct (diff =? 0) eqn:E; cbn [negb].
  - assert (diff = 0) by lia; subst. unfold ret, zeros; cbn. rewrite app_nil_r. f_equal. f_equal; lia.
  - cbv zeta. set (t := Z.min BUF diff). assert (Ht : 0 < t <= diff) by (unfold t; lia).
    unfold bind at 1. rewrite zrepeat_zero, run_write, write_at_end. rewrite zlen_zeros by lia.
    replace (zlen d + t) with (zlen (d ++ zeros t)) by (rewrite zlen_app, zlen_zeros; lia).
    rewrite IH by lia. rewrite <- app_assoc, zeros_app by lia. rewrite zlen_app, zlen_zeros by lia.
    f_equal. f_equal; [f_equal; f_equal; lia | lia].
Qed.

Theorem resize_file_spec f p diff :
  0 <= zlen f + diff ->
  fst (resize_file BUF diff (mkF f p cf)) = Ok tt /\
  fdata (snd (resize_file BUF diff (mkF f p cf))) = (if diff <? 0 then ztake (zlen f + diff) f else f ++ zeros diff) /\
  fcfg_of (snd (resize_file BUF diff (mkF f p cf))) = cf.
Proof.
  intros Hd. unfold resize_file.
  rewrite step_seek_end, step_tell.
  rewrite !bind_if_c.
  destruct (diff <? 0) eqn:E.
  - bset (zlen f + diff <? 0) false.
    unfold bind, ret. rewrite run_truncate by (pose proof (zlen_nonneg f); lia).
    cbn. repeat split; reflexivity.
  - destruct (diff >? 0) eqn:E2.
    + unfold bind, try_io. rewrite grow_loop by lia. unfold f_flush, ret; cbn. repeat split; reflexivity.
    + assert (diff = 0) by lia; subst. unfold bind, ret; cbn. unfold zeros; cbn. rewrite app_nil_r. repeat split; reflexivity.
Qed.

Theorem resize_file_rejects f p diff :
  zlen f + diff < 0 -> resize_file BUF diff (mkF f p cf) = (Raise EValue, mkF f (zlen f) cf).
Proof.
  intros Hd. pose proof (zlen_nonneg f). unfold resize_file. rewrite step_seek_end, step_tell.
  rewrite !bind_if_c. bset (diff <? 0) true. bset (zlen f + diff <? 0) true. reflexivity.
Qed.
End Resize.
Print Assumptions resize_file_spec.
