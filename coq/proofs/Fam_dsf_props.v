(* DSF family: the statements of C01 C02 C03 C08 about Model.Fam_dsf, for every file and every tag byte string.
   The strict reader needs the bytes at the pointer to be one ID3v2 tag running to EOF, so the theorems about files
   after a save carry the hypothesis id3_tag_exact tag = true (what ID3._prepare_data produces: C09_dsf). *)
From Coq Require Import ZArith List Bool Lia.
Import ListNotations.
Require Import Base.Py Base.ZList Model.Splice Model.Fam_carrier Model.Fam_dsf
  Proofs.Fam_iff_codec Proofs.Fam_iff_chunks Proofs.Fam_dsf_lemmas.
Open Scope Z_scope.

Inductive dsf_op := DSave (tag : list Z) | DDelete.
Definition dsf_step (r : result (list Z)) (o : dsf_op) : result (list Z) :=
  rbind r (fun f => match o with DSave t => dsf_save f t | DDelete => dsf_delete f end).
Definition dsf_run (f : list Z) (ops : list dsf_op) : result (list Z) := fold_left dsf_step ops (Ok f).
Definition op_ok (o : dsf_op) : Prop := match o with DSave t => id3_tag_exact t = true | DDelete => True end.

Lemma wf_parse f : dsf_wf f = true -> exists s, dsf_parse f = Ok s.
Proof. unfold dsf_wf. destruct (dsf_parse f) as [s|e]; [eauto | discriminate]. Qed.

(* ------------------------------------------------------------------ what the operations do *)
Theorem dsf_save_spec f s tag f' : dsf_parse f = Ok s -> dsf_save f tag = Ok f' ->
  f' = dsf_render (d_audio s) (Some tag) /\ fits64 (28 + zlen (d_audio s) + zlen tag) = true.
Proof.
  intros Hp Hs. destruct (dsf_parse_sound f s Hp) as [Ef Hok]. subst f.
  rewrite dsf_save_render in Hs by exact Hok.
  destruct (fits64 (28 + zlen (d_audio s) + zlen tag)) eqn:F; [|discriminate]. inversion Hs; subst. split; reflexivity.
Qed.
Theorem dsf_delete_spec f s f' : dsf_parse f = Ok s -> dsf_delete f = Ok f' -> f' = dsf_render (d_audio s) None.
Proof.
  intros Hp Hd. destruct (dsf_parse_sound f s Hp) as [Ef Hok]. subst f.
  rewrite dsf_delete_render in Hd by exact Hok. destruct (fmt_supported (d_audio s)); [|discriminate].
  inversion Hd; reflexivity.
Qed.

Theorem dsf_save_parse f s tag f' : dsf_parse f = Ok s -> id3_tag_exact tag = true -> dsf_save f tag = Ok f' ->
  dsf_parse f' = Ok (mkDsf (d_audio s) (Some tag)).
Proof.
  intros Hp Ht Hs. destruct (dsf_save_spec f s tag f' Hp Hs) as [Ef F]. subst f'.
  destruct (dsf_parse_sound f s Hp) as [_ Hok]. apply dsf_parse_render. eapply dsf_ok_some; eassumption.
Qed.
Theorem dsf_delete_parse f s f' : dsf_parse f = Ok s -> dsf_delete f = Ok f' ->
  dsf_parse f' = Ok (mkDsf (d_audio s) None).
Proof.
  intros Hp Hd. rewrite (dsf_delete_spec f s f' Hp Hd). destruct (dsf_parse_sound f s Hp) as [_ Hok].
  apply dsf_parse_render. eapply dsf_ok_none; eassumption.
Qed.

(* ------------------------------------------------------------------ C03 *)
Theorem dsf_save_wf f tag f' : dsf_wf f = true -> id3_tag_exact tag = true -> dsf_save f tag = Ok f' -> dsf_wf f' = true.
Proof.
  intros Hw Ht Hs. destruct (wf_parse f Hw) as [s Hp]. unfold dsf_wf. rewrite (dsf_save_parse f s tag f' Hp Ht Hs). reflexivity.
Qed.
Theorem dsf_delete_wf f f' : dsf_wf f = true -> dsf_delete f = Ok f' -> dsf_wf f' = true.
Proof.
  intros Hw Hd. destruct (wf_parse f Hw) as [s Hp]. unfold dsf_wf. rewrite (dsf_delete_parse f s f' Hp Hd). reflexivity.
Qed.

(* the three header fields of a well-formed file, read with mutagen's own loader *)
Theorem dsf_wf_fields f : dsf_wf f = true ->
  exists ptr, mut_dsd f = Ok (zlen f, ptr) /\ le_decode (zslice 4 12 f) = 28 /\
    (ptr = 0 \/ (92 <= ptr <= zlen f /\ id3_tag_exact (zdrop ptr f) = true)).
Proof.
  intros Hw. destruct (wf_parse f Hw) as [s Hp]. destruct (dsf_parse_sound f s Hp) as [Ef Hok].
  pose proof (mut_dsd_render _ _ Hok) as Hm. rewrite <- Ef in Hm. pose proof (dsf_render_zlen (d_audio s) (d_tag s)) as Lf.
  rewrite <- Ef in Lf. rewrite <- Lf in Hm. eexists. split; [exact Hm|].
  destruct (dsf_ok_inv _ _ Hok) as (Ha & Ht & Hf). destruct (audio_ok_inv _ Ha) as (A1 & _).
  split.
  - rewrite Ef. unfold dsf_render.
    destruct (dsd_header_parts (28 + zlen (d_audio s) + zlen (tag_bytes (d_tag s)))
               (match d_tag s with Some _ => 28 + zlen (d_audio s) | None => 0 end) (d_audio s ++ tag_bytes (d_tag s))) as (_ & S2 & _).
    cbv zeta in S2. rewrite S2. apply (u64_decode 28 fits64_28).
  - destruct (d_tag s) as [t|] eqn:Et; [right | left; reflexivity].
    cbn [tag_bytes tag_opt_ok] in *. pose proof (zlen_nonneg t). split; [lia|].
    rewrite Ef. unfold dsf_render. cbn [tag_bytes].
    match goal with |- context [dsd_header ?x ?y] => set (h := dsd_header x y) end.
    replace (h ++ d_audio s ++ t) with ((h ++ d_audio s) ++ t) by (rewrite <- app_assoc; reflexivity).
    rewrite zdrop_app_len by (rewrite zlen_app; unfold h; rewrite dsd_header_zlen; reflexivity). exact Ht.
Qed.

Theorem dsf_save_succeeds f tag : dsf_wf f = true -> zlen f + zlen tag < 256 ^ 8 -> exists f', dsf_save f tag = Ok f'.
Proof.
  intros Hw Hb. destruct (wf_parse f Hw) as [s Hp]. destruct (dsf_parse_sound f s Hp) as [Ef Hok]. subst f.
  rewrite dsf_save_render by exact Hok. rewrite dsf_render_zlen in Hb.
  pose proof (zlen_nonneg (d_audio s)). pose proof (zlen_nonneg tag). pose proof (zlen_nonneg (tag_bytes (d_tag s))).
  assert (F : fits64 (28 + zlen (d_audio s) + zlen tag) = true) by (apply fits64_iff; lia).
  rewrite F. eauto.
Qed.
(* delete fails only where mutagen's FormatChunk loader refuses the fmt chunk (format version / id) *)
Theorem dsf_delete_succeeds f : dsf_wf f = true -> mut_fmt f = Ok tt -> exists f', dsf_delete f = Ok f'.
Proof.
  intros Hw Hm. destruct (wf_parse f Hw) as [s Hp]. destruct (dsf_parse_sound f s Hp) as [Ef Hok]. subst f.
  destruct (mut_fmt_data_render _ _ Hok) as [Hf _]. rewrite Hf in Hm.
  rewrite dsf_delete_render by exact Hok. destruct (fmt_supported (d_audio s)); [eauto | discriminate].
Qed.

Lemma dsf_run_raise e ops : fold_left dsf_step ops (Raise e) = Raise e.
Proof. induction ops as [|o ops IH]; [reflexivity | exact IH]. Qed.

Theorem dsf_history ops : forall f f', dsf_wf f = true -> Forall op_ok ops -> dsf_run f ops = Ok f' ->
  dsf_wf f' = true /\ rmap d_audio (dsf_parse f') = rmap d_audio (dsf_parse f).
Proof.
  unfold dsf_run. induction ops as [|o ops IH]; intros f f' Hw Hops Hr.
  - cbn in Hr. inversion Hr; subst. split; [exact Hw | reflexivity].
  - cbn [fold_left] in Hr. unfold dsf_step at 2 in Hr. cbn [rbind] in Hr.
    inversion Hops as [|? ? Ho Hrest]; subst. destruct (wf_parse f Hw) as [s Hp].
    destruct o as [t|]; cbn [op_ok] in Ho.
    + destruct (dsf_save f t) as [f1|e] eqn:E; [|rewrite dsf_run_raise in Hr; discriminate].
      pose proof (dsf_save_parse f s t f1 Hp Ho E) as Hp1.
      destruct (IH f1 f' (dsf_save_wf f t f1 Hw Ho E) Hrest Hr) as [A B]. split; [exact A|].
      rewrite B, Hp1, Hp. reflexivity.
    + destruct (dsf_delete f) as [f1|e] eqn:E; [|rewrite dsf_run_raise in Hr; discriminate].
      pose proof (dsf_delete_parse f s f1 Hp E) as Hp1.
      destruct (IH f1 f' (dsf_delete_wf f f1 Hw E) Hrest Hr) as [A B]. split; [exact A|].
      rewrite B, Hp1, Hp. reflexivity.
Qed.

(* ------------------------------------------------------------------ C02: bytes [28, pointer) at their offsets *)
Theorem dsf_audio_bytes a t : zslice 28 (28 + zlen a) (dsf_render a t) = a.
Proof.
  unfold dsf_render. pose proof (zlen_nonneg a). rewrite render_audio_slice by lia.
  change (28 - 28) with 0. replace (28 + zlen a - 28) with (zlen a) by lia. apply zslice_all. reflexivity.
Qed.
Theorem dsf_save_audio f s tag f' : dsf_parse f = Ok s -> dsf_save f tag = Ok f' ->
  zslice 28 (28 + zlen (d_audio s)) f' = d_audio s /\ zslice 28 (28 + zlen (d_audio s)) f = d_audio s /\
  zdrop (28 + zlen (d_audio s)) f' = tag.
Proof.
  intros Hp Hs. destruct (dsf_save_spec f s tag f' Hp Hs) as [Ef' _]. destruct (dsf_parse_sound f s Hp) as [Ef _].
  rewrite Ef' at 1 2. rewrite Ef at 1. rewrite !dsf_audio_bytes. repeat split.
  unfold dsf_render. cbn [tag_bytes].
  match goal with |- context [dsd_header ?x ?y] => set (h := dsd_header x y) end.
  replace (h ++ d_audio s ++ tag) with ((h ++ d_audio s) ++ tag) by (rewrite <- app_assoc; reflexivity).
  apply zdrop_app_len. rewrite zlen_app. unfold h. rewrite dsd_header_zlen. reflexivity.
Qed.

(* ------------------------------------------------------------------ C01 *)
Theorem dsf_load_after_save f tag f' : dsf_wf f = true -> id3_tag_exact tag = true -> dsf_save f tag = Ok f' ->
  dsf_load f' = Ok (Some tag).
Proof.
  intros Hw Ht Hs. destruct (wf_parse f Hw) as [s Hp]. unfold dsf_load. rewrite (dsf_save_parse f s tag f' Hp Ht Hs). reflexivity.
Qed.

(* ------------------------------------------------------------------ C08 *)
Theorem dsf_load_after_delete f f' : dsf_wf f = true -> dsf_delete f = Ok f' -> dsf_load f' = Ok None.
Proof.
  intros Hw Hd. destruct (wf_parse f Hw) as [s Hp]. unfold dsf_load. rewrite (dsf_delete_parse f s f' Hp Hd). reflexivity.
Qed.
Theorem dsf_delete_twice f f' : dsf_wf f = true -> dsf_delete f = Ok f' -> dsf_delete f' = Ok f'.
Proof.
  intros Hw Hd. destruct (wf_parse f Hw) as [s Hp]. pose proof (dsf_delete_parse f s f' Hp Hd) as Hp'.
  destruct (dsf_parse_sound f s Hp) as [Ef Hok]. pose proof (dsf_delete_spec f s f' Hp Hd) as Ef'.
  rewrite Ef in Hd. rewrite dsf_delete_render in Hd by exact Hok.
  destruct (fmt_supported (d_audio s)) eqn:Fs; [|discriminate].
  rewrite Ef'. rewrite dsf_delete_render by (eapply dsf_ok_none; eassumption). rewrite Fs. reflexivity.
Qed.
(* the file is truncated at the pointer: exactly the tag (header, frames, padding) goes *)
Theorem dsf_delete_length f s f' : dsf_parse f = Ok s -> dsf_delete f = Ok f' ->
  zlen f' = zlen f - zlen (tag_bytes (d_tag s)) /\ zlen f' = 28 + zlen (d_audio s) /\
  zslice 28 (zlen f') f' = d_audio s.
Proof.
  intros Hp Hd. pose proof (dsf_delete_spec f s f' Hp Hd) as Ef'. destruct (dsf_parse_sound f s Hp) as [Ef _].
  assert (L' : zlen f' = 28 + zlen (d_audio s)).
  { rewrite Ef', dsf_render_zlen. cbn [tag_bytes]. change (zlen (@nil Z)) with 0. lia. }
  split; [|split; [exact L'|]].
  - rewrite L'. rewrite Ef at 1. rewrite dsf_render_zlen. lia.
  - rewrite L'. rewrite Ef'. apply dsf_audio_bytes.
Qed.
Theorem dsf_retag f f' tag f'' : dsf_wf f = true -> id3_tag_exact tag = true ->
  dsf_delete f = Ok f' -> dsf_save f' tag = Ok f'' -> dsf_wf f'' = true /\ dsf_load f'' = Ok (Some tag).
Proof.
  intros Hw Ht Hd Hs. pose proof (dsf_delete_wf f f' Hw Hd) as Hw'.
  split; [eapply dsf_save_wf; eassumption | eapply dsf_load_after_save; eassumption].
Qed.
