(* C14: has_valid_padding -- the padding mask selects exactly the bits at and above `bits` of a byte
   (finite fact, checked exhaustively by vm_compute for bits 0..8 x byte 0..255), and the int form
   reads the same bytes as the bytes form. *)
From Coq Require Import ZArith List Bool Lia.
Import ListNotations.
Require Import Base.Py Base.ZList Model.Id3Util Proofs.C14_digits.
Open Scope Z_scope.

Definition zrange (n : nat) : list Z := map Z.of_nat (seq 0 n).
Lemma in_zrange n x : 0 <= x < Z.of_nat n -> In x (zrange n).
Proof.
  intros H. unfold zrange. apply in_map_iff. exists (Z.to_nat x). split; [lia|].
  apply in_seq. lia.
Qed.

Definition pad_check : bool :=
  forallb (fun bits => forallb (fun b =>
     Bool.eqb (Z.land b (padding_mask bits) =? 0) (b <? 2 ^ bits) &&
     ((0 <=? padding_mask bits) && (padding_mask bits <? 256))) (zrange 256)) (zrange 9).
Lemma pad_check_true : pad_check = true.
Proof. vm_compute. reflexivity. Qed.

Lemma pad_byte_full bits b : 0 <= bits <= 8 -> 0 <= b < 256 ->
  (Z.land b (padding_mask bits) =? 0) = (b <? 2 ^ bits) /\ 0 <= padding_mask bits < 256.
Proof.
  intros Hb Hx. pose proof pad_check_true as H. unfold pad_check in H.
  rewrite forallb_forall in H. specialize (H bits (in_zrange 9 bits ltac:(lia))).
  rewrite forallb_forall in H. specialize (H b (in_zrange 256 b ltac:(lia))).
  apply andb_true_iff in H as [H1 H2]. apply andb_true_iff in H2 as [H2 H3].
  apply Bool.eqb_prop in H1. split; [exact H1|lia].
Qed.
Lemma pad_byte bits b : 0 <= bits <= 8 -> 0 <= b < 256 ->
  (Z.land b (padding_mask bits) =? 0) = (b <? 2 ^ bits).
Proof. intros. apply pad_byte_full; assumption. Qed.
Lemma padding_mask_range bits : 0 <= bits <= 8 -> 0 <= padding_mask bits < 256.
Proof. intros. apply (pad_byte_full bits 0); lia. Qed.

Lemma hvp_bytes_loop_forallb l m : hvp_bytes_loop l m = forallb (fun b => Z.land b m =? 0) l.
Proof.
  induction l as [|b l IH]; cbn [hvp_bytes_loop forallb]; [reflexivity|].
  destruct (Z.land b m =? 0); cbn [negb andb]; [exact IH|reflexivity].
Qed.
Lemma hvp_bytes_loop_rev l m : hvp_bytes_loop (rev l) m = hvp_bytes_loop l m.
Proof.
  rewrite !hvp_bytes_loop_forallb. induction l as [|b l IH]; cbn [rev forallb]; [reflexivity|].
  rewrite forallb_app, IH. cbn [forallb]. rewrite andb_true_r. apply andb_comm.
Qed.

(* bytes form: true exactly when every byte is below 2^bits *)
Lemma hvp_bytes_spec bits l : 0 <= bits <= 8 -> all_bytes l = true ->
  has_valid_padding_bytes bits l = Ok (forallb (fun b => b <? 2 ^ bits) l).
Proof.
  intros Hb Hl. unfold has_valid_padding_bytes.
  destruct (8 <? bits) eqn:E1; [lia|]. destruct (bits <? 0) eqn:E2; [lia|]. f_equal.
  rewrite hvp_bytes_loop_forallb. unfold all_bytes in Hl.
  induction l as [|b l IH]; cbn [forallb] in *; [reflexivity|].
  apply andb_true_iff in Hl as [H1 H2]. unfold is_byte in H1.
  rewrite pad_byte by lia. rewrite IH by assumption. reflexivity.
Qed.
Lemma hvp_bytes_digits bits l : 0 <= bits <= 8 -> Forall (fun d => 0 <= d < 2 ^ bits) l ->
  has_valid_padding_bytes bits l = Ok true.
Proof.
  intros Hb Hl. pose proof (pow2_le_256 bits Hb) as H8.
  rewrite hvp_bytes_spec; [f_equal|assumption|].
  - apply forallb_forall. intros x Hx. rewrite Forall_forall in Hl. specialize (Hl x Hx). lia.
  - unfold all_bytes. apply forallb_forall. intros x Hx. rewrite Forall_forall in Hl.
    specialize (Hl x Hx). unfold is_byte. lia.
Qed.

(* int form *)
Lemma hvp_int_loop_unfold k value mask :
  hvp_int_loop (S k) value mask =
    if value =? 0 then Ok true
    else if negb (Z.land value mask =? 0) then Ok false
    else hvp_int_loop k (Z.shiftr value 8) mask.
Proof. reflexivity. Qed.
Lemma hvp_bytes_loop_le_encode0 n m : hvp_bytes_loop (le_encode n 0) m = true.
Proof.
  induction n; cbn [le_encode hvp_bytes_loop]; [reflexivity|].
  change (0 mod 256) with 0. change (0 / 256) with 0. rewrite Z.land_0_l. cbn. exact IHn.
Qed.
Lemma hvp_int_loop_spec mask : 0 <= mask < 256 -> forall f n v,
  0 <= v < 2 ^ Z.of_nat f -> v < 256 ^ Z.of_nat n ->
  hvp_int_loop (S f) v mask = Ok (hvp_bytes_loop (le_encode n v) mask).
Proof.
  intros Hm. induction f as [|f IH]; intros n v Hv Hn.
  - change (2 ^ Z.of_nat 0) with 1 in Hv. assert (v = 0) by lia. subst v.
    rewrite hvp_int_loop_unfold, Z.eqb_refl, hvp_bytes_loop_le_encode0. reflexivity.
  - rewrite hvp_int_loop_unfold. destruct (v =? 0) eqn:E.
    + apply Z.eqb_eq in E. subst v. rewrite hvp_bytes_loop_le_encode0. reflexivity.
    + apply Z.eqb_neq in E. destruct n as [|n].
      { change (256 ^ Z.of_nat 0) with 1 in Hn. lia. }
      cbn [le_encode hvp_bytes_loop]. rewrite <- (land_low_byte v mask Hm).
      destruct (negb (Z.land v mask =? 0)); [reflexivity|].
      rewrite Z.shiftr_div_pow2 by lia. change (2 ^ 8) with 256. apply IH.
      * split; [apply Z.div_pos; lia|]. apply Z.div_lt_upper_bound; [lia|].
        rewrite Nat2Z.inj_succ, Z.pow_succ_r in Hv by lia.
        assert (0 < 2 ^ Z.of_nat f) by (apply pow2_pos; lia). nia.
      * apply Z.div_lt_upper_bound; [lia|].
        rewrite Nat2Z.inj_succ, Z.pow_succ_r in Hn by lia. lia.
Qed.

Lemma hvp_int_as_bytes bits n v : 0 <= bits <= 8 -> 0 <= v < 256 ^ Z.of_nat n ->
  has_valid_padding_int bits v = has_valid_padding_bytes bits (be_encode n v).
Proof.
  intros Hb Hv. unfold has_valid_padding_int, has_valid_padding_bytes.
  destruct (8 <? bits) eqn:E1; [lia|]. destruct (bits <? 0) eqn:E2; [lia|].
  unfold loop_fuel, be_encode. rewrite hvp_bytes_loop_rev.
  apply hvp_int_loop_spec; [apply padding_mask_range; assumption| |lia].
  split; [lia|]. apply loop_fuel_enough. lia.
Qed.
