(* C16: concrete operation sequences used by the Examples in props/C16.v (definitions only). *)
From Coq Require Import ZArith List Bool.
Import ListNotations.
Require Import Base.Py Model.Dict.
Open Scope Z_scope.

Definition k_Title : key := [84;105;116;108;101].
Definition k_TITLE : key := [84;73;84;76;69].
Definition k_title : key := [116;105;116;108;101].
Definition k_TiTle : key := [84;105;84;108;101].
Definition k_artist : key := [97;114;116;105;115;116].
Definition k_Artist : key := [65;114;116;105;115;116].
Definition k_bad_eq : key := [97;61;98].          (* 'a=b' : invalid Vorbis key *)
Definition k_TAG : key := [84;65;71].             (* reserved APEv2 name *)
Definition k_short : key := [97].                 (* too short for APEv2 *)
Definition s_a : str := [97]. Definition s_x : str := [120]. Definition s_p : str := [112].
Definition s_q : str := [113]. Definition s_z : str := [122].

(* set 'Title', 'TITLE' in?, delete 'TITLE', get 'title', setdefault 'TiTle', update with mixed case,
   get, pop-less part of the interface, invalid key, keys/items/len *)
Definition ex_vc_ops : list (dop vval) :=
  [ OpSet k_Title (VMany [s_a]); OpContains k_TITLE; OpDel k_TITLE; OpGet k_title;
    OpSetDefault k_TiTle (VOne s_x); OpSetDefault k_title (VOne s_z);
    OpUpdate [(k_TITLE, VMany [s_p; s_q]); (k_artist, VOne s_z)];
    OpGet k_title; OpKeys; OpSet k_bad_eq (VOne s_a); OpContains k_bad_eq; OpGetD k_Artist (VOne s_q);
    OpItems; OpLen; OpSet k_artist (VMany []); OpKeys; OpClear; OpKeys ].
(* the same through a file object that has no tags yet, with pop / popitem *)
Definition ex_fvc_ops : list (dop vval) :=
  [ OpGet k_bad_eq; OpContains k_title; OpPop k_title; OpSet k_Title (VMany [s_a; s_x]);
    OpPop k_TITLE; OpPopD k_title (VOne s_z); OpSet k_artist (VOne s_p); OpSet k_Title (VOne s_q);
    OpPopItem; OpItems; OpGet k_bad_eq ].
Definition ex_ape_ops : list (dop aval) :=
  [ OpSet k_Title (AStr s_a); OpContains k_TITLE; OpKeys; OpSet k_title (AList [Some s_p; Some s_q]);
    OpKeys; OpGet k_TiTle; OpDel k_TITLE; OpGet k_title; OpSet k_TAG (AStr s_a); OpContains k_TAG;
    OpSet k_short (AStr s_a); OpSet k_artist (AList [Some s_a; None]); OpSet k_artist AOther;
    OpSetDefault k_Artist (ABytes [0; 255]); OpSetDefault k_artist (AStr s_z);
    OpUpdate [(k_TITLE, AStr s_x); (k_Title, AStr s_z)]; OpItems; OpPop k_title; OpPopItem; OpLen ].
Definition ex_id3_ops : list (dop ival) :=
  [ OpSet k_TITLE (IFrame k_TITLE 1); OpSet k_title (IFrame k_TITLE 2); OpKeys; OpContains k_Title;
    OpSet k_artist (INotFrame 5); OpSetDefault k_artist (INotFrame 5); OpPop k_TITLE; OpItems ].
