(* C15 (b)(c): OggPage.from_packets -- loop invariant on the accumulator page, termination for
   default_size >= 255, round trip through to_packets(strict), and validity of every page *)
From Coq Require Import ZArith List Bool Lia.
Import ListNotations.
Require Import Base.Py Base.ZList Model.Crc Model.Ogg Proofs.C15_lacing Proofs.C15_page Proofs.C15_unpage.
Open Scope Z_scope.

Definition b2f (b : bool) : Z := if b then 1 else 0.

Lemma continued_set_continued b : continued (set_continued b new_page) = b.
Proof. destruct b; reflexivity. Qed.
Lemma flags_set_continued b : p_flags (set_continued b new_page) = b2f b.
Proof. destruct b; reflexivity. Qed.

Lemma seg_sum_pos pk : pk <> [] -> 1 <= seg_sum pk.
Proof.
  destruct pk as [|d pk]; [contradiction|]. intros _. cbn [seg_sum fold_right]. fold (seg_sum pk).
  pose proof (seg_sum_nonneg pk). pose proof (zlen_nonneg d).
  assert (0 <= zlen d / 255) by (apply Z.div_pos; lia). lia.
Qed.

Lemma data_len_removelast pk : data_len (removelast pk) <= data_len pk.
Proof.
  destruct (snoc_cases pk) as [->|(a & l & ->)]; [cbn; lia|].
  rewrite removelast_last, data_len_app. cbn [data_len fold_right]. pose proof (zlen_nonneg l). lia.
Qed.

Lemma add_mod_0 a b : a mod 255 = 0 -> (a + b) mod 255 = b mod 255.
Proof. intros H. rewrite Z.add_mod, H, Z.add_0_l, Z.mod_mod by lia. reflexivity. Qed.

(* sum of the quotients is at most the quotient of the sum *)
Lemma seg_sum_le pk : seg_sum pk <= zlen pk + data_len pk / 255.
Proof.
  induction pk as [|d pk IH]; [cbn; lia|].
  cbn [seg_sum data_len fold_right]. fold (seg_sum pk) (data_len pk). rewrite zlen_cons.
  pose proof (zlen_nonneg d). pose proof (data_len_nonneg pk).
  assert (zlen d / 255 + data_len pk / 255 <= (zlen d + data_len pk) / 255).
  { apply Z.div_le_lower_bound; [lia|].
    pose proof (Z.mul_div_le (zlen d) 255 ltac:(lia)). pose proof (Z.mul_div_le (data_len pk) 255 ltac:(lia)). lia. }
  lia.
Qed.

(* the reassembled packets when the rest `pk` of the current packet is still to be placed *)
Definition acc_with (R : list (list Z)) (pk : list Z) : list (list Z) :=
  match pk with [] => R | _ => app_last R pk end.
Lemma acc_with_snoc R pk : acc_with (R ++ [[]]) pk = R ++ [pk].
Proof. destruct pk; [reflexivity|]. unfold acc_with. rewrite app_last_snoc. reflexivity. Qed.

Section Paging.
Variables ds wr seq0 : Z.
Hypothesis Hds : 255 <= ds.

Lemma cs_ge : 255 <= chunk_size ds.
Proof.
  unfold chunk_size. assert (1 <= ds / 255) by (apply Z.div_le_lower_bound; lia). lia.
Qed.
Lemma cs_le : chunk_size ds <= ds.
Proof. unfold chunk_size. pose proof (Z.mul_div_le ds 255 ltac:(lia)). lia. Qed.
Lemma cs_mod : chunk_size ds mod 255 = 0.
Proof. unfold chunk_size. apply Z_mod_mult. Qed.

(* bytes of packet data a page of from_packets can hold *)
Definition bmax : Z := ds - 29 + chunk_size ds + Z.max (wr - 1) 0.

Definition cur_ok (B : Z) (cur : page) : Prop :=
  p_version cur = 0 /\ p_flags cur = b2f (continued cur) /\ p_complete cur = true /\ p_position cur = 0 /\
  (p_packets cur = [] -> continued cur = false) /\ data_len (p_packets cur) <= B.

Definition done_ok (p : page) : Prop :=
  p_version p = 0 /\ p_flags p = b2f (continued p) /\ p_packets p <> [] /\ canonicalb p = true /\
  p_position p = (if negb (p_complete p) && (zlen (p_packets p) =? 1) then -1 else 0) /\
  data_len (p_packets p) <= bmax.

(* newest first: continued = not complete of the predecessor, the oldest page is not continued *)
Fixpoint rlinked (l : list page) : Prop :=
  match l with
  | [] => True
  | p :: r => continued p = match r with [] => false | d :: _ => negb (p_complete d) end /\ rlinked r
  end.

Lemma cur_ok_weaken B B' cur : B <= B' -> cur_ok B cur -> cur_ok B' cur.
Proof. intros HB (A1 & A2 & A3 & A4 & A5 & A6). repeat split; try assumption. lia. Qed.

Lemma cur_done cur : cur_ok bmax cur -> p_packets cur <> [] -> done_ok cur.
Proof.
  intros (A1 & A2 & A3 & A4 & A5 & A6) Hne. repeat split; try assumption.
  - unfold canonicalb. rewrite A3. reflexivity.
  - rewrite A3. exact A4.
Qed.

Lemma tp_ok_head serial cur cur' pr : tp_ok serial seq0 (cur :: pr) ->
  p_serial cur' = p_serial cur -> p_sequence cur' = p_sequence cur -> continued cur' = continued cur ->
  tp_ok serial seq0 (cur' :: pr).
Proof.
  cbn [tp_ok]. intros (A & B & C & D) -> -> ->. repeat split; assumption.
Qed.
Lemma rlinked_head cur cur' pr : rlinked (cur :: pr) -> continued cur' = continued cur -> rlinked (cur' :: pr).
Proof. cbn [rlinked]. intros (A & B) ->. split; assumption. Qed.

(* the guard of the loop passes on a page that holds one empty packet *)
Lemma guard_single_empty cur : p_packets cur = [[]] -> p_complete cur = true ->
  (page_size cur <? ds) && (zlen (p_packets cur) <? 255) = true.
Proof.
  intros E C. unfold page_size. rewrite E, C. cbn [fold_right negb andb data_len].
  change (zlen (@nil Z)) with 0. change (zlen [@nil Z]) with 1. change (0 / 255) with 0.
  apply andb_true_iff. split; [apply Z.ltb_lt; lia|reflexivity].
Qed.

(* ---- the if/else that places one chunk ------------------------------------------------------- *)
Lemma place_chunk_inv data pr cur pr' cur' :
  tp_ok 0 seq0 (cur :: pr) -> rlinked (cur :: pr) -> cur_ok bmax cur -> Forall done_ok pr ->
  p_packets cur <> [] -> zlen (last (p_packets cur) []) mod 255 = 0 ->
  data <> [] -> zlen data <= chunk_size ds ->
  place_chunk ds data pr cur = (pr', cur') ->
  tp_ok 0 seq0 (cur' :: pr') /\ rlinked (cur' :: pr') /\ cur_ok (ds - 29 + chunk_size ds) cur' /\
  Forall done_ok pr' /\ p_packets cur' <> [] /\
  zlen (last (p_packets cur') []) mod 255 = zlen data mod 255 /\
  racc (cur' :: pr') = app_last (racc (cur :: pr)) data.
Proof.
  intros Htp Hrl Hc Hd Hne Hm Hdata Hlen. pose proof Hc as (C1 & C2 & C3 & C4 & C5 & C6).
  pose proof cs_ge as Hcs.
  unfold place_chunk. destruct ((page_size cur <? ds) && (zlen (p_packets cur) <? 255)) eqn:G.
  - (* page.packets[-1] += data *)
    intros E; inversion E; subst pr' cur'; clear E.
    apply andb_true_iff in G as [G1 G2]. apply Z.ltb_lt in G1.
    split; [eapply tp_ok_head; [exact Htp|reflexivity..]|].
    split; [eapply rlinked_head; [exact Hrl|reflexivity]|].
    split; [|split; [exact Hd|split; [|split]]].
    + repeat split; try assumption.
      * intros E. exfalso. unfold add_to_last in E. fields. exact (app_last_nonempty _ _ E).
      * unfold add_to_last. fields. rewrite data_len_app_last.
        rewrite page_size_spec in G1. unfold lacing_count in G1.
        rewrite (lacing_data_complete cur C3), zlen_all_lacing in G1.
        pose proof (seg_sum_pos _ Hne). lia.
    + unfold add_to_last. fields. apply app_last_nonempty.
    + unfold add_to_last. fields. rewrite last_app_last by exact Hne. rewrite zlen_app. apply add_mod_0. exact Hm.
    + rewrite !racc_cons. apply unpage_add_to_last. exact Hne.
  - (* the page is full *)
    intros E; inversion E; subst pr' cur'; clear E.
    assert (Hnext_fields : forall done, p_version (next_page done data) = 0 /\ p_serial (next_page done data) = 0 /\
              p_sequence (next_page done data) = p_sequence done + 1 /\ p_complete (next_page done data) = true /\
              p_position (next_page done data) = 0 /\ p_packets (next_page done data) = [data] /\
              continued (next_page done data) = negb (p_complete done) /\
              p_flags (next_page done data) = b2f (negb (p_complete done))).
    { intros done. unfold next_page. repeat split; try reflexivity;
        try exact (continued_set_continued (negb (p_complete done)));
        try exact (flags_set_continued (negb (p_complete done))). }
    set (done := close_page cur).
    destruct (Hnext_fields done) as (N1 & N2 & N3 & N4 & N5 & N6 & N7 & N8).
    assert (Hdl : zlen data <> 0).
    { destruct data; [contradiction|]. rewrite zlen_cons. pose proof (zlen_nonneg data). lia. }
    (* facts about the closed page, by the two cases of `if page.packets[-1]` *)
    assert (HD : p_serial done = p_serial cur /\ p_sequence done = p_sequence cur /\ continued done = continued cur /\
                 done_ok done /\
                 (continued (next_page done data) = true -> racc (done :: pr) <> []) /\
                 racc (next_page done data :: done :: pr) = app_last (racc (cur :: pr)) data).
    { unfold done, close_page. destruct (negb (zlen (last (p_packets cur) []) =? 0)) eqn:L.
      - (* data of the current packet is on the page: mark it incomplete *)
        set (c := set_complete cur false).
        assert (Hcf : forall q, (q = c \/ q = set_position c (-1)) ->
                  p_serial q = p_serial cur /\ p_sequence q = p_sequence cur /\ continued q = continued cur /\
                  p_packets q = p_packets cur /\ p_complete q = false /\ p_version q = 0 /\ p_flags q = b2f (continued cur)).
        { intros q [->| ->]; repeat split; try reflexivity; assumption. }
        assert (Hpos : p_position (if zlen (p_packets c) =? 1 then set_position c (-1) else c) =
                       if zlen (p_packets cur) =? 1 then -1 else 0).
        { change (p_packets c) with (p_packets cur). destruct (zlen (p_packets cur) =? 1); [reflexivity|exact C4]. }
        assert (Hq : (if zlen (p_packets c) =? 1 then set_position c (-1) else c) = c \/
                     (if zlen (p_packets c) =? 1 then set_position c (-1) else c) = set_position c (-1)).
        { destruct (zlen (p_packets c) =? 1); [right|left]; reflexivity. }
        set (q := if zlen (p_packets c) =? 1 then set_position c (-1) else c) in *.
        destruct (Hcf q Hq) as (Q1 & Q2 & Q3 & Q4 & Q5 & Q6 & Q7).
        split; [exact Q1|]. split; [exact Q2|]. split; [exact Q3|].
        assert (Hqne : unpage_step (racc pr) q <> []).
        { apply unpage_step_nonempty. rewrite Q4. exact Hne. }
        split; [|split].
        + repeat split.
          * exact Q6.
          * rewrite Q3. exact Q7.
          * rewrite Q4. exact Hne.
          * unfold canonicalb. rewrite Q5, Q4. cbn [orb]. rewrite L. cbn [andb]. apply Z.eqb_eq. exact Hm.
          * rewrite Q5, Q4. cbn [negb andb]. exact Hpos.
          * rewrite Q4. exact C6.
        + intros _. rewrite racc_cons. exact Hqne.
        + rewrite !racc_cons. unfold unpage_step at 1.
          destruct (Hnext_fields q) as (_ & _ & _ & _ & _ & M6 & M7 & _). rewrite M6, M7, Q5. cbn [negb].
          rewrite app_nil_r. f_equal. apply unpage_step_ext; [exact Q4|exact Q3].
      - (* the packet was only just started on a full page: take it back *)
        apply negb_false_iff in L. apply Z.eqb_eq in L.
        destruct (last_snoc_nonempty (p_packets cur) [] Hne) as (a & l & Ea & El). rewrite El in L.
        assert (l = []) as -> by (destruct l; [reflexivity|rewrite zlen_cons in L; pose proof (zlen_nonneg l); lia]).
        assert (Ha : a <> []).
        { intros ->. cbn [app] in Ea. rewrite (guard_single_empty cur Ea C3) in G. discriminate. }
        set (q := set_packets cur (removelast (p_packets cur))).
        assert (Q4 : p_packets q = a) by (unfold q; fields; rewrite Ea; apply removelast_last).
        split; [reflexivity|]. split; [reflexivity|]. split; [reflexivity|].
        destruct (Hnext_fields q) as (_ & _ & _ & _ & _ & M6 & M7 & _).
        change (p_complete q) with (p_complete cur) in M7. rewrite C3 in M7. cbn [negb] in M7.
        split; [|split].
        + repeat split.
          * exact C1.
          * exact C2.
          * rewrite Q4. exact Ha.
          * unfold canonicalb. change (p_complete q) with (p_complete cur). rewrite C3. reflexivity.
          * change (p_complete q) with (p_complete cur). rewrite C3. exact C4.
          * unfold q. fields. pose proof (data_len_removelast (p_packets cur)). lia.
        + rewrite M7. discriminate.
        + rewrite !racc_cons. unfold unpage_step at 1. rewrite M6, M7. rewrite app_nil_r.
          unfold unpage_step. rewrite Q4, Ea. change (continued q) with (continued cur).
          destruct a as [|f o]; [contradiction|]. cbn [app].
          rewrite app_assoc, app_last_snoc. reflexivity. }
    destruct HD as (D1 & D2 & D3 & D4 & D5 & D6).
    split.
    { cbn [tp_ok]. destruct Htp as (T1 & T2 & T3 & T4). fold done.
      repeat split; try assumption.
      - rewrite D1. exact T2.
      - rewrite D2. exact T3.
      - rewrite D3. exact T4.
      - rewrite N3, D2, T3, zlen_cons. lia. }
    split.
    { cbn [rlinked]. destruct Hrl as (R1 & R2). fold done. split; [exact N7|]. split; [rewrite D3; exact R1|exact R2]. }
    fold done. split.
    { repeat split; try assumption.
      - rewrite N7. exact N8.
      - rewrite N6. discriminate.
      - rewrite N6. cbn [data_len fold_right]. lia. }
    split; [constructor; assumption|].
    split; [rewrite N6; discriminate|].
    split; [rewrite N6; reflexivity|exact D6].
Qed.

(* ---- the whole invariant ------------------------------------------------------------------- *)
Definition inv (pk : list Z) (pr : list page) (cur : page) (T : list (list Z)) : Prop :=
  tp_ok 0 seq0 (cur :: pr) /\ rlinked (cur :: pr) /\ cur_ok bmax cur /\ Forall done_ok pr /\
  (pk <> [] -> zlen (last (p_packets cur) []) mod 255 = 0) /\
  acc_with (racc (cur :: pr)) pk = T.

Lemma chunk_step_inv pk pr cur T pk' pr' cur' :
  inv pk pr cur T -> p_packets cur <> [] -> pk <> [] ->
  chunk_step ds wr pk pr cur = (pk', pr', cur') ->
  inv pk' pr' cur' T /\ p_packets cur' <> [] /\ (length pk' < length pk)%nat.
Proof.
  intros (I1 & I2 & I3 & I4 & I5 & I6) Hne Hpk. unfold chunk_step.
  pose proof cs_ge as Hcs. pose proof cs_mod as Hcm.
  set (data := ztake (chunk_size ds) pk). set (rest := zdrop (chunk_size ds) pk).
  assert (Hsplit : data ++ rest = pk) by apply ztake_zdrop.
  assert (Hdata : data <> []).
  { destruct pk as [|x pk]; [contradiction|]. unfold data, ztake.
    destruct (Z.to_nat (chunk_size ds)) eqn:E; [lia|]. discriminate. }
  assert (Hdl : zlen data = Z.min (chunk_size ds) (zlen pk)) by (apply zlen_ztake; lia).
  assert (Hrl : zlen rest = Z.max 0 (zlen pk - chunk_size ds)) by (apply zlen_zdrop; lia).
  assert (Hdec : (length rest < length pk)%nat).
  { assert (zlen rest < zlen pk); [|unfold zlen in *; lia].
    assert (0 < zlen pk); [|lia]. destruct pk; [contradiction|]. rewrite zlen_cons. pose proof (zlen_nonneg pk). lia. }
  destruct (place_chunk ds data pr cur) as [pr1 cur1] eqn:EP.
  destruct (place_chunk_inv data pr cur pr1 cur1 I1 I2 I3 I4 Hne (I5 Hpk) Hdata ltac:(lia) EP)
    as (P1 & P2 & P3 & P4 & P5 & P6 & P7).
  destruct (zlen rest <? wr) eqn:W; intros E; inversion E; subst pk' pr' cur'; clear E.
  - (* the rest of the packet fits the wiggle room *)
    apply Z.ltb_lt in W. split; [|split].
    + split; [eapply tp_ok_head; [exact P1|reflexivity..]|].
      split; [eapply rlinked_head; [exact P2|reflexivity]|].
      split; [|split; [exact P4|split; [intros X; contradiction|]]].
      * destruct P3 as (A1 & A2 & A3 & A4 & A5 & A6). repeat split; try assumption.
        -- intros E. exfalso. unfold add_to_last in E. fields. exact (app_last_nonempty _ _ E).
        -- unfold add_to_last. fields. rewrite data_len_app_last. unfold bmax. lia.
      * unfold acc_with. rewrite racc_cons. rewrite (unpage_add_to_last _ cur1 rest P5). rewrite <- racc_cons, P7.
        rewrite app_last_twice, Hsplit. rewrite <- I6. destruct pk; [contradiction|reflexivity].
    + unfold add_to_last. fields. apply app_last_nonempty.
    + destruct pk; [contradiction|]. cbn [length]. lia.
  - apply Z.ltb_ge in W. split; [|split; [exact P5|exact Hdec]].
    split; [exact P1|]. split; [exact P2|].
    split; [eapply cur_ok_weaken; [|exact P3]; unfold bmax; lia|].
    split; [exact P4|]. split.
    + intros Hr. rewrite P6.
      assert (0 < zlen rest) by (destruct rest; [contradiction|rewrite zlen_cons; pose proof (zlen_nonneg rest); lia]).
      assert (zlen data = chunk_size ds) as -> by lia. exact Hcm.
    + rewrite <- I6. unfold acc_with at 2. destruct pk as [|x0 pk0] eqn:Epk; [contradiction|]. rewrite <- Epk in *.
      rewrite P7. unfold acc_with. destruct rest as [|r0 rest0] eqn:Er.
      * rewrite app_nil_r in Hsplit. rewrite Hsplit. reflexivity.
      * rewrite app_last_twice, Hsplit. reflexivity.
Qed.

Lemma chunks_inv fuel : forall pk pr cur T, (length pk < fuel)%nat ->
  inv pk pr cur T -> p_packets cur <> [] ->
  exists pr' cur', chunks ds wr fuel pk pr cur = Ok (pr', cur') /\ inv [] pr' cur' T /\ p_packets cur' <> [].
Proof.
  induction fuel as [|fuel IH]; intros pk pr cur T Hf HI Hne; [lia|].
  destruct pk as [|x pk].
  - exists pr, cur. split; [reflexivity|]. split; assumption.
  - cbn [chunks]. destruct (chunk_step ds wr (x :: pk) pr cur) as [[pk' pr'] cur'] eqn:E.
    destruct (chunk_step_inv (x :: pk) pr cur T pk' pr' cur' HI Hne ltac:(discriminate) E) as (A & B & C).
    apply IH; [cbn [length] in *; lia|exact A|exact B].
Qed.

(* between packets: the pages so far reassemble to the packets consumed so far *)
Lemma fp_loop_inv packets : forall pr cur D, inv [] pr cur D ->
  exists pr' cur', fp_loop ds wr packets pr cur = Ok (pr', cur') /\ inv [] pr' cur' (D ++ packets) /\
                   (packets <> [] -> p_packets cur' <> []).
Proof.
  induction packets as [|pk packets IH]; intros pr cur D HI.
  - exists pr, cur. split; [reflexivity|]. rewrite app_nil_r. split; [exact HI|intros X; contradiction].
  - cbn [fp_loop]. set (cur0 := set_packets cur (p_packets cur ++ [[]])).
    destruct HI as (I1 & I2 & I3 & I4 & I5 & I6).
    assert (HI0 : inv pk pr cur0 (D ++ [pk])).
    { split; [eapply tp_ok_head; [exact I1|reflexivity..]|].
      split; [eapply rlinked_head; [exact I2|reflexivity]|].
      destruct I3 as (A1 & A2 & A3 & A4 & A5 & A6).
      split; [|split; [exact I4|split]].
      - repeat split; try assumption.
        + intros E. exfalso. unfold cur0 in E. fields. destruct (p_packets cur); discriminate.
        + unfold cur0. fields. rewrite data_len_app. cbn [data_len fold_right]. change (zlen (@nil Z)) with 0. lia.
      - intros _. unfold cur0. fields. rewrite last_last. reflexivity.
      - rewrite racc_cons. unfold cur0. rewrite (unpage_start_packet (racc pr) cur A5).
        rewrite <- racc_cons. rewrite acc_with_snoc. unfold acc_with in I6. rewrite I6. reflexivity. }
    assert (Hne0 : p_packets cur0 <> []) by (unfold cur0; fields; destruct (p_packets cur); discriminate).
    destruct (chunks_inv (S (length pk)) pk pr cur0 (D ++ [pk]) ltac:(lia) HI0 Hne0) as (pr1 & cur1 & E1 & J1 & N1).
    rewrite E1. destruct (IH pr1 cur1 (D ++ [pk]) J1) as (pr2 & cur2 & E2 & J2 & N2).
    exists pr2, cur2. split; [exact E2|]. rewrite <- app_assoc in J2. split; [exact J2|].
    intros _. destruct packets as [|pk2 packets].
    + cbn [fp_loop] in E2. inversion E2; subst. exact N1.
    + apply N2. discriminate.
Qed.

End Paging.
