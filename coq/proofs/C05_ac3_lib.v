(* C05 (stage 2) -- AC-3: membership in the finite domain and the meaning of the boolean check. *)
From Coq Require Import ZArith List Bool Lia.
Import ListNotations.
Require Import Base.Py Base.ZList Model.InfoBase Model.InfoMpeg Model.InfoAc3 Gen.Gen_tables Proofs.C05_bits Proofs.C05_mpeg.
Open Scope Z_scope.

Lemma ac3_domain_In acmods fscod frmsizecod bsid acmod lfe mix :
  0 <= fscod <= 2 -> 0 <= frmsizecod <= 37 -> 0 <= bsid <= 10 -> In acmod acmods -> 0 <= lfe <= 1 -> In mix [0; 5; 10] ->
  In (mkAc3 fscod frmsizecod bsid 0 acmod (mix mod 4) ((mix / 4) mod 4) (mix mod 4) lfe 27) (ac3_domain acmods).
Proof.
  intros H1 H2 H3 H4 H5 H6. unfold ac3_domain.
  apply in_flat_map; exists fscod; split; [apply zrange_In; lia|].
  apply in_flat_map; exists frmsizecod; split; [apply zrange_In; lia|].
  apply in_flat_map; exists bsid; split; [apply zrange_In; lia|].
  apply in_flat_map; exists acmod; split; [exact H4|].
  apply in_flat_map; exists lfe; split; [apply zrange_In; lia|].
  apply (in_map (fun mix => mkAc3 fscod frmsizecod bsid 0 acmod (mix mod 4) ((mix / 4) mod 4) (mix mod 4) lfe 27)). exact H6.
Qed.

Lemma ac3_check_true p : ac3_check p = true ->
  exists l, decode_ac3 (build_ac3_frame p) = Ok l /\ firstn 4 l = expected_ac3 p.
Proof.
  unfold ac3_check. destruct (decode_ac3 (build_ac3_frame p)) as [l|e]; [|discriminate].
  intros H. exists l. split; [reflexivity | apply list_eqb_eq; exact H].
Qed.

