(* C16: generic part, proved once.
   (1) simulation: if the primitives of D1 refine those of D2 then every DictMixin operation of D1
       refines the same operation of D2;
   (2) DictMixin over the reference primitives = the operations stated directly on the map;
   (3) FileType proxying; (4) operation sequences. *)
From Coq Require Import ZArith List Bool Lia.
Import ListNotations.
Require Import Base.Py Base.ZList Model.Dict Proofs.C16_pydict.
Open Scope Z_scope.

(* ---------------------------------------------------------------------------------------- *)
Section Simulation.
  Context {S1 S2 V : Type} (D1 : DictBase S1 V) (D2 : DictBase S2 V)
          (inv : S1 -> Prop) (abs : S1 -> S2).

  Definition sim {O} (x1 : result O * S1) (x2 : result O * S2) : Prop :=
    fst x1 = fst x2 /\ abs (snd x1) = snd x2 /\ inv (snd x1).

  Record prim_refines : Prop := {
    pr_keys : forall s, inv s -> d_keys D1 s = d_keys D2 (abs s);
    pr_get : forall s k, inv s -> d_get D1 s k = d_get D2 (abs s) k;
    pr_set : forall s k v, inv s -> sim (d_set D1 s k v) (d_set D2 (abs s) k v);
    pr_del : forall s k, inv s -> sim (d_del D1 s k) (d_del D2 (abs s) k)
  }.

  Hypothesis PR : prim_refines.

  (* destruct a pair of corresponding set/del calls *)
  Ltac two H :=
    let A := fresh "A" in let B := fresh "B" in let C := fresh "C" in
    destruct H as (A & B & C);
    match type of A with fst ?x = fst ?y =>
      let x1 := fresh "x" in let s1 := fresh "s" in let x2 := fresh "y" in let s2 := fresh "t" in
      destruct x as [x1 s1]; destruct y as [x2 s2]; cbn [fst snd] in A, B, C; subst x2; subst s2
    end.

  Lemma sim_values_of s ks : inv s -> dm_values_of D1 s ks = dm_values_of D2 (abs s) ks.
  Proof.
    intros H. induction ks as [|k ks IH]; cbn; auto.
    rewrite (pr_get PR s k H), IH. reflexivity.
  Qed.

  Lemma sim_del_all ks : forall s, inv s -> sim (dm_del_all D1 s ks) (dm_del_all D2 (abs s) ks).
  Proof.
    induction ks as [|k ks IH]; intros s H; cbn.
    - repeat split; auto.
    - pose proof (pr_del PR s k H) as P. two P.
      destruct x as [u|e].
      + apply IH. exact C.
      + repeat split; auto.
  Qed.

  Lemma sim_update l : forall s, inv s -> sim (dm_update D1 s l) (dm_update D2 (abs s) l).
  Proof.
    induction l as [|[k v] l IH]; intros s H; cbn.
    - repeat split; auto.
    - pose proof (pr_set PR s k v H) as P. two P.
      destruct x as [u|e].
      + apply IH. exact C.
      + repeat split; auto.
  Qed.

  Lemma sim_pop s k d : inv s -> sim (dm_pop D1 s k d) (dm_pop D2 (abs s) k d).
  Proof.
    intros H. unfold dm_pop. rewrite (pr_get PR s k H).
    destruct (d_get D2 (abs s) k) as [v|e].
    - pose proof (pr_del PR s k H) as P. two P. destruct x; repeat split; auto.
    - destruct e; try (repeat split; auto; fail). destruct d; repeat split; auto.
  Qed.

  Lemma sim_setdefault s k v : inv s -> sim (dm_setdefault D1 s k v) (dm_setdefault D2 (abs s) k v).
  Proof.
    intros H. unfold dm_setdefault. rewrite (pr_get PR s k H).
    destruct (d_get D2 (abs s) k) as [x|e].
    - repeat split; auto.
    - destruct e; try (repeat split; auto; fail).
      pose proof (pr_set PR s k v H) as P. two P. destruct x; repeat split; auto.
  Qed.

  Lemma sim_lift_unit (x1 : result unit * S1) (x2 : result unit * S2) :
    sim x1 x2 -> sim (@lift_unit S1 V x1) (@lift_unit S2 V x2).
  Proof. intros (A & B & C). unfold lift_unit, sim. cbn. rewrite A. auto. Qed.
  Lemma sim_lift_val (x1 : result V * S1) (x2 : result V * S2) :
    sim x1 x2 -> sim (lift_val x1) (lift_val x2).
  Proof. intros (A & B & C). unfold lift_val, sim. cbn. rewrite A. auto. Qed.

  Theorem dm_step_sim s o : inv s -> sim (dm_step D1 s o) (dm_step D2 (abs s) o).
  Proof.
    intros H. destruct o; cbn [dm_step].
    - rewrite (pr_get PR s k H). repeat split; auto.
    - apply sim_lift_unit, (pr_set PR); auto.
    - apply sim_lift_unit, (pr_del PR); auto.
    - unfold dm_contains. rewrite (pr_get PR s k H). repeat split; auto.
    - rewrite (pr_keys PR s H). repeat split; auto.
    - unfold dm_values. rewrite (pr_keys PR s H), sim_values_of by auto. repeat split; auto.
    - unfold dm_items, dm_values. rewrite (pr_keys PR s H), sim_values_of by auto. repeat split; auto.
    - unfold dm_len. rewrite (pr_keys PR s H). repeat split; auto.
    - apply sim_lift_unit. unfold dm_clear. rewrite (pr_keys PR s H). apply sim_del_all; auto.
    - unfold dm_getd. rewrite (pr_get PR s k H). repeat split; auto.
    - apply sim_lift_val, sim_setdefault; auto.
    - apply sim_lift_val, sim_pop; auto.
    - apply sim_lift_val, sim_pop; auto.
    - unfold dm_popitem. rewrite (pr_keys PR s H).
      destruct (d_keys D2 (abs s)) as [|k ks].
      + repeat split; auto.
      + pose proof (sim_pop s k None H) as P. two P. destruct x; repeat split; auto.
    - apply sim_lift_unit, sim_update; auto.
  Qed.
End Simulation.

(* ---------------------------------------------------------------------------------------- *)
(* operation sequences *)
Section RunSim.
  Context {S1 S2 O P : Type} (step1 : S1 -> P -> result O * S1) (step2 : S2 -> P -> result O * S2)
          (inv : S1 -> Prop) (abs : S1 -> S2) (okp : P -> Prop).
  Hypothesis STEP : forall s o, inv s -> okp o ->
    fst (step1 s o) = fst (step2 (abs s) o) /\ abs (snd (step1 s o)) = snd (step2 (abs s) o) /\
    inv (snd (step1 s o)).

  Theorem run_sim ops : forall s, inv s -> Forall okp ops ->
    fst (run step1 s ops) = fst (run step2 (abs s) ops) /\
    abs (snd (run step1 s ops)) = snd (run step2 (abs s) ops) /\
    inv (snd (run step1 s ops)).
  Proof.
    induction ops as [|o ops IH]; intros s H F; cbn [run fst snd].
    - auto.
    - inversion F; subst. destruct (STEP s o H H2) as (A & B & C).
      destruct (IH (snd (step1 s o)) C H3) as (A' & B' & C').
      rewrite B in A', B'. rewrite A, A'. auto.
  Qed.
End RunSim.

Lemma final_run {S O P} (step : S -> P -> result O * S) ops : forall s, final step s ops = snd (run step s ops).
Proof. unfold final. induction ops as [|o ops IH]; intros s; cbn; auto. Qed.

(* ---------------------------------------------------------------------------------------- *)
(* DictMixin over the reference primitives = the direct statement on the map *)
Section RefDirect.
  Context {V W : Type} (sp : RefSpec V W).
  Hypothesis SPOK : spec_ok sp.
  Implicit Types (r : refmap W).

  Lemma wf_nil : ref_wf sp [].
  Proof. split; [constructor | intros e []]. Qed.
  Lemma wf_remove r nk : ref_wf sp r -> ref_wf sp (pd_remove nk r).
  Proof.
    intros [ND HK]. split.
    - apply pd_remove_nodup; auto.
    - intros e He. apply HK. eapply pd_remove_incl; eauto.
  Qed.
  Lemma wf_tail e r : ref_wf sp (e :: r) -> ref_wf sp r.
  Proof.
    intros [ND HK]. split.
    - inversion ND; auto.
    - intros e' He. apply HK. right; auto.
  Qed.
  Lemma wf_put r k nk w : ref_wf sp r -> r_key sp k = Ok nk -> ref_wf sp (ref_put sp r nk (r_disp sp k) w).
  Proof.
    intros WF HK. pose proof (wf_remove r nk WF) as [ND' HK']. destruct WF as [ND HKr].
    unfold ref_put. destruct (r_append sp).
    - split.
      + rewrite map_app. cbn. apply nodup_app_single; auto. rewrite pd_remove_in. tauto.
      + intros e He. apply in_app_or in He as [He|[He|[]]]; auto.
        subst e. cbn. apply SPOK. exact HK.
    - split.
      + apply pd_set_nodup; auto.
      + intros e He. apply pd_set_in in He; auto. destruct He as [He|[He _]]; auto.
        subst e. cbn. apply SPOK. exact HK.
  Qed.
  Lemma wf_set r k v : ref_wf sp r -> ref_wf sp (snd (ref_set sp r k v)).
  Proof.
    intros WF. unfold ref_set. destruct (r_key sp k) as [nk|e] eqn:EK; cbn; auto.
    destruct (r_val sp v) as [[w|]|e]; cbn; auto.
    - apply wf_put; auto.
    - apply wf_remove; auto.
  Qed.
  Lemma wf_del r k : ref_wf sp r -> ref_wf sp (snd (ref_del sp r k)).
  Proof.
    intros WF. unfold ref_del. destruct (r_key sp k) as [nk|e]; cbn; auto.
    destruct (pd_mem nk r); cbn; auto. apply wf_remove; auto.
  Qed.
  Lemma wf_update l : forall r, ref_wf sp r -> ref_wf sp (snd (ref_update sp r l)).
  Proof.
    induction l as [|[k v] l IH]; intros r WF; cbn; auto.
    pose proof (wf_set r k v WF) as H. destruct (ref_set sp r k v) as [[u|e] r']; cbn in *; auto.
  Qed.

  (* an entry of a well-formed map is found under its own display key *)
  Lemma wf_find_entry r e : ref_wf sp r -> In e r ->
    r_key sp (fst (snd e)) = Ok (fst e) /\ pd_find (fst e) r = Some (snd e).
  Proof.
    intros [ND HK] He. split; auto. apply pd_find_in_nodup; auto. destruct e; exact He.
  Qed.

  Lemma ref_values_of r l : ref_wf sp r -> incl l r ->
    dm_values_of (RefD sp) r (map (fun e => fst (snd e)) l) = Ok (map (fun e => r_out sp (snd (snd e))) l).
  Proof.
    intros WF. induction l as [|e l IH]; intros I; cbn; auto.
    destruct (wf_find_entry r e WF (I e (or_introl eq_refl))) as [A B].
    unfold ref_get. rewrite A, B. rewrite IH; auto. intros x Hx. apply I. right; auto.
  Qed.

  Lemma ref_clear_all r : ref_wf sp r -> dm_del_all (RefD sp) r (ref_keys r) = (Ok tt, []).
  Proof.
    induction r as [|e r IH]; intros WF; cbn; auto.
    destruct (wf_find_entry (e :: r) e WF (or_introl eq_refl)) as [A B].
    unfold ref_del. rewrite A. unfold pd_mem. rewrite B.
    destruct e as [nk [dk w]]. cbn [fst snd] in *.
    rewrite pd_remove_head.
    - apply IH. eapply wf_tail; eauto.
    - destruct WF as [ND _]. inversion ND; auto.
  Qed.

  Lemma ref_update_eq l : forall r, dm_update (RefD sp) r l = ref_update sp r l.
  Proof. induction l as [|[k v] l IH]; intros r; cbn; auto. Qed.

  Lemma combine_map {A B C} (f : A -> B) (g : A -> C) (l : list A) :
    combine (map f l) (map g l) = map (fun x => (f x, g x)) l.
  Proof. induction l; cbn; congruence. Qed.

  Theorem ref_direct r o : ref_wf sp r -> dm_step (RefD sp) r o = ref_step sp r o.
  Proof.
    intros WF. destruct o; cbn [dm_step ref_step d_get d_set d_del d_keys RefD].
    - reflexivity.
    - reflexivity.
    - reflexivity.
    - (* contains *)
      unfold dm_contains. cbn [d_get RefD]. unfold ref_get.
      destruct (r_key sp k) as [nk|e]; [|destruct e; reflexivity].
      unfold pd_mem. destruct (pd_find nk r); reflexivity.
    - reflexivity.
    - (* values *)
      unfold dm_values. cbn [d_keys RefD]. unfold ref_keys. rewrite ref_values_of; auto. apply incl_refl.
    - (* items *)
      unfold dm_items, dm_values. cbn [d_keys RefD]. unfold ref_keys.
      rewrite ref_values_of; auto; [|apply incl_refl]. cbn. rewrite combine_map. reflexivity.
    - (* len *)
      unfold dm_len. cbn [d_keys RefD]. unfold ref_keys. rewrite zlen_map. reflexivity.
    - (* clear *)
      unfold dm_clear. cbn [d_keys RefD]. rewrite ref_clear_all; auto.
    - (* get with default *)
      unfold dm_getd. cbn [d_get RefD]. unfold ref_get.
      destruct (r_key sp k) as [nk|e]; [|destruct e; reflexivity].
      destruct (pd_find nk r); reflexivity.
    - (* setdefault *)
      unfold dm_setdefault. cbn [d_get d_set RefD]. unfold ref_get.
      destruct (r_key sp k) as [nk|e] eqn:EK.
      + destruct (pd_find nk r); [reflexivity|].
        destruct (ref_set sp r k v) as [[u|e] r']; reflexivity.
      + destruct e; try reflexivity. unfold ref_set. rewrite EK. reflexivity.
    - (* pop *)
      unfold dm_pop. cbn [d_get d_del RefD]. unfold ref_get, ref_del.
      destruct (r_key sp k) as [nk|e] eqn:EK; [|destruct e; reflexivity].
      unfold pd_mem. destruct (pd_find nk r); reflexivity.
    - (* pop with default *)
      unfold dm_pop. cbn [d_get d_del RefD]. unfold ref_get, ref_del.
      destruct (r_key sp k) as [nk|e] eqn:EK; [|destruct e; reflexivity].
      unfold pd_mem. destruct (pd_find nk r); reflexivity.
    - (* popitem *)
      unfold dm_popitem. cbn [d_keys RefD]. destruct r as [|e r]; [reflexivity|].
      cbn [ref_keys map]. unfold dm_pop. cbn [d_get d_del RefD]. unfold ref_get, ref_del.
      destruct (wf_find_entry (e :: r) e WF (or_introl eq_refl)) as [A B].
      rewrite A. unfold pd_mem. rewrite B.
      destruct e as [nk [dk w]]. cbn [fst snd] in *.
      rewrite pd_remove_head; [reflexivity|]. destruct WF as [ND _]. inversion ND; auto.
    - (* update *)
      rewrite ref_update_eq. reflexivity.
  Qed.

  Theorem ref_step_wf r o : ref_wf sp r -> ref_wf sp (snd (ref_step sp r o)).
  Proof.
    intros WF. destruct o; cbn [ref_step]; auto.
    - cbn. apply wf_set; auto.
    - cbn. apply wf_del; auto.
    - destruct (r_key sp k) as [nk|e]; [|destruct e]; auto.
    - apply wf_nil.
    - destruct (r_key sp k) as [nk|e]; [destruct (pd_find nk r)|destruct e]; auto.
    - destruct (r_key sp k) as [nk|e]; [destruct (pd_find nk r)|]; auto.
      cbn. apply wf_set; auto.
    - destruct (r_key sp k) as [nk|e]; [destruct (pd_find nk r)|]; auto.
      cbn. apply wf_remove; auto.
    - destruct (r_key sp k) as [nk|e]; [destruct (pd_find nk r)|destruct e]; auto.
      cbn. apply wf_remove; auto.
    - destruct r as [|e r]; auto. cbn. eapply wf_tail; eauto.
    - cbn. apply wf_update; auto.
  Qed.

  (* a model whose primitives refine the reference primitives refines the direct reference,
     operation by operation and over whole sequences *)
  Section Against.
    Context {S : Type} (D : DictBase S V) (inv : S -> Prop) (abs : S -> refmap W).
    Hypothesis PR : prim_refines D (RefD sp) inv abs.
    Definition inv_wf (s : S) : Prop := inv s /\ ref_wf sp (abs s).

    Theorem step_refines s o : inv_wf s ->
      fst (dm_step D s o) = fst (ref_step sp (abs s) o) /\
      abs (snd (dm_step D s o)) = snd (ref_step sp (abs s) o) /\
      inv_wf (snd (dm_step D s o)).
    Proof.
      intros [H WF]. destruct (dm_step_sim D (RefD sp) inv abs PR s o H) as (A & B & C).
      rewrite ref_direct in A, B by auto.
      split; [exact A|]. split; [exact B|]. split; [exact C|].
      rewrite B. apply ref_step_wf; auto.
    Qed.

    Theorem run_refines ops s : inv_wf s ->
      outputs (dm_step D) s ops = outputs (ref_step sp) (abs s) ops /\
      abs (final (dm_step D) s ops) = final (ref_step sp) (abs s) ops.
    Proof.
      intros H. rewrite !final_run. unfold outputs.
      destruct (run_sim (dm_step D) (ref_step sp) inv_wf abs (fun _ => True)
                        (fun s o Hs _ => step_refines s o Hs) ops s H) as (A & B & _).
      - apply Forall_forall. auto.
      - auto.
    Qed.
  End Against.
End RefDirect.

(* ---------------------------------------------------------------------------------------- *)
(* FileType proxying *)
Section FileProxyLemmas.
  Context {S V : Type} (D : DictBase S V) (fresh : S).
  Let F := FileProxy D fresh.

  Definition lift_some {O} (x : result O * S) : result O * option S := (fst x, Some (snd x)).

  Lemma fp_values_of s ks : dm_values_of F (Some s) ks = dm_values_of D s ks.
  Proof. induction ks as [|k ks IH]; cbn; auto. rewrite IH. reflexivity. Qed.
  Lemma fp_del_all ks : forall s, dm_del_all F (Some s) ks = lift_some (dm_del_all D s ks).
  Proof.
    induction ks as [|k ks IH]; intros s; cbn; auto.
    destruct (d_del D s k) as [[u|e] s']; cbn; auto.
  Qed.
  Lemma fp_update l : forall s, dm_update F (Some s) l = lift_some (dm_update D s l).
  Proof.
    induction l as [|[k v] l IH]; intros s; cbn; auto.
    destruct (d_set D s k v) as [[u|e] s']; cbn; auto.
  Qed.
  Lemma fp_pop s k d : dm_pop F (Some s) k d = lift_some (dm_pop D s k d).
  Proof.
    unfold dm_pop. cbn. destruct (d_get D s k) as [v|e].
    - destruct (d_del D s k) as [[u|e] s']; reflexivity.
    - destruct e; try reflexivity. destruct d; reflexivity.
  Qed.

  Theorem fp_some_step s o : dm_step F (Some s) o = lift_some (dm_step D s o).
  Proof.
    destruct o; cbn [dm_step]; try reflexivity.
    - unfold dm_values. cbn [d_keys F FileProxy fp_keys]. rewrite fp_values_of. reflexivity.
    - unfold dm_items, dm_values. cbn [d_keys F FileProxy fp_keys]. rewrite fp_values_of. reflexivity.
    - unfold dm_clear. cbn [d_keys F FileProxy fp_keys]. rewrite fp_del_all. reflexivity.
    - unfold dm_setdefault. cbn. destruct (d_get D s k) as [x|e]; [reflexivity|].
      destruct e; try reflexivity. destruct (d_set D s k v) as [[u|e] s']; reflexivity.
    - rewrite fp_pop. reflexivity.
    - rewrite fp_pop. reflexivity.
    - unfold dm_popitem. cbn [d_keys F FileProxy fp_keys]. destruct (d_keys D s) as [|k ks]; [reflexivity|].
      rewrite fp_pop. unfold lift_some. destruct (dm_pop D s k None) as [[v|e] s']; reflexivity.
    - rewrite fp_update. reflexivity.
  Qed.
End FileProxyLemmas.

Section FileProxySim.
  Context {S1 S2 V : Type} (D1 : DictBase S1 V) (D2 : DictBase S2 V)
          (inv : S1 -> Prop) (abs : S1 -> S2) (fresh1 : S1) (fresh2 : S2).
  Hypothesis PR : prim_refines D1 D2 inv abs.
  Hypothesis FI : inv fresh1.
  Hypothesis FA : abs fresh1 = fresh2.
  Definition oinv (f : option S1) : Prop := match f with None => True | Some s => inv s end.

  Theorem fp_prim_refines :
    prim_refines (FileProxy D1 fresh1) (FileProxy D2 fresh2) oinv (option_map abs).
  Proof.
    split.
    - intros [s|] H; cbn; auto. apply (pr_keys _ _ _ _ PR); auto.
    - intros [s|] k H; cbn; auto. apply (pr_get _ _ _ _ PR); auto.
    - intros [s|] k v H; cbn.
      + destruct (pr_set _ _ _ _ PR s k v H) as (A & B & C). unfold sim, fp_set. cbn. rewrite A, B. auto.
      + destruct (pr_set _ _ _ _ PR fresh1 k v FI) as (A & B & C). unfold sim, fp_set. cbn.
        rewrite <- FA, A, B. auto.
    - intros [s|] k H; cbn.
      + destruct (pr_del _ _ _ _ PR s k H) as (A & B & C). unfold sim, fp_del. cbn. rewrite A, B. auto.
      + unfold sim. cbn. auto.
  Qed.
End FileProxySim.

Section FileRefDirect.
  Context {V W : Type} (sp : RefSpec V W).
  Hypothesis SPOK : spec_ok sp.
  Definition owf (f : option (refmap W)) : Prop := match f with None => True | Some r => ref_wf sp r end.

  Theorem fref_direct f o : owf f -> dm_step (FileProxy (RefD sp) []) f o = fref_step sp f o.
  Proof.
    intros WF. destruct f as [r|].
    - rewrite fp_some_step. unfold lift_some. rewrite ref_direct by auto. reflexivity.
    - destruct o; cbn [dm_step fref_step fref_none_step]; try reflexivity.
      + (* setdefault *)
        unfold dm_setdefault. cbn. destruct (ref_set sp [] k v) as [[u|e] r']; reflexivity.
      + (* update *)
        destruct l as [|[k v] l]; [reflexivity|]. cbn [dm_update d_set FileProxy fp_set RefD].
        cbn [ref_update]. destruct (ref_set sp [] k v) as [[u|e] r']; cbn [fst snd].
        * rewrite fp_update. unfold lift_some, lift_unit. rewrite ref_update_eq. reflexivity.
        * reflexivity.
  Qed.

  Theorem fref_step_wf f o : owf f -> owf (snd (fref_step sp f o)).
  Proof.
    intros WF. destruct f as [r|]; cbn [fref_step].
    - cbn. apply ref_step_wf; auto.
    - destruct o; cbn; auto.
      + apply wf_set; auto. apply wf_nil.
      + apply wf_set; auto. apply wf_nil.
      + destruct l as [|p l]; cbn [snd]; [exact I|]. cbn [owf snd]. apply wf_update; auto. apply wf_nil.
  Qed.

  Section Against.
    Context {S : Type} (D : DictBase S V) (inv : S -> Prop) (abs : S -> refmap W) (fresh : S).
    Hypothesis PR : prim_refines D (RefD sp) inv abs.
    Hypothesis FI : inv fresh.
    Hypothesis FA : abs fresh = [].
    Definition oinv_wf (f : option S) : Prop := oinv inv f /\ owf (option_map abs f).

    Theorem fstep_refines f o : oinv_wf f ->
      fst (dm_step (FileProxy D fresh) f o) = fst (fref_step sp (option_map abs f) o) /\
      option_map abs (snd (dm_step (FileProxy D fresh) f o)) = snd (fref_step sp (option_map abs f) o) /\
      oinv_wf (snd (dm_step (FileProxy D fresh) f o)).
    Proof.
      intros [H WF].
      pose proof (fp_prim_refines D (RefD sp) inv abs fresh [] PR FI FA) as PR'.
      destruct (dm_step_sim _ _ _ _ PR' f o H) as (A & B & C).
      rewrite fref_direct in A, B by auto.
      split; [exact A|]. split; [exact B|]. split; [exact C|].
      rewrite B. apply fref_step_wf; auto.
    Qed.

    Theorem frun_refines ops f : oinv_wf f ->
      outputs (dm_step (FileProxy D fresh)) f ops = outputs (fref_step sp) (option_map abs f) ops /\
      option_map abs (final (dm_step (FileProxy D fresh)) f ops) = final (fref_step sp) (option_map abs f) ops.
    Proof.
      intros H. rewrite !final_run. unfold outputs.
      destruct (run_sim (dm_step (FileProxy D fresh)) (fref_step sp) oinv_wf (option_map abs) (fun _ => True)
                        (fun s o Hs _ => fstep_refines s o Hs) ops f H) as (A & B & _).
      - apply Forall_forall. auto.
      - auto.
    Qed.
  End Against.
End FileRefDirect.
