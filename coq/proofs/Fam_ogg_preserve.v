(* Ogg family: _from_packets_try_preserve copies the layout of the old pages (ogg_like); well-formedness of the
   prepared pages (version, canonical `complete`) *)
From Coq Require Import ZArith List Bool Lia.
Import ListNotations.
Require Import Base.Py Base.ZList Model.Crc Model.Ogg Model.Fam_flac Model.Fam_ogg.
Require Import Proofs.C15_lacing Proofs.C15_page Proofs.C15_unpage Proofs.C15_paging Proofs.C15_from_packets Proofs.C15_file
  Proofs.C15_replace Proofs.Fam_ogg_scan Proofs.Fam_ogg_locate Proofs.Fam_ogg_replace Proofs.Fam_ogg_stream
  Proofs.Fam_ogg_newpages.
Open Scope Z_scope.

(* ---- the amount of packet data ------------------------------------------------------------------------- *)
Definition ogg_total (pages : list page) : Z := fold_right (fun p acc => data_len (p_packets p) + acc) 0 pages.

Lemma data_len_cons d pk : data_len (d :: pk) = zlen d + data_len pk.
Proof. reflexivity. Qed.

Lemma tp_step_total serial seq acc p seq' acc' : tp_step serial (seq, acc) p = Ok (seq', acc') ->
  data_len acc' = data_len acc + data_len (p_packets p).
Proof.
  unfold tp_step. destruct (negb (serial =? p_serial p)); [discriminate|].
  destruct (negb (seq =? p_sequence p)); [discriminate|].
  destruct (p_packets p) as [|f others].
  - intros E. inversion E. cbn. lia.
  - destruct (continued p).
    + destruct acc as [|a0 acc0]; [discriminate|]. intros E.
      assert (E' : acc' = app_last (a0 :: acc0) f ++ others) by (inversion E; reflexivity). rewrite E'.
      rewrite data_len_app, data_len_app_last, (data_len_cons f). lia.
    + intros E. inversion E. rewrite !data_len_app, !data_len_cons. change (data_len []) with 0. lia.
Qed.
Lemma tp_loop_total serial pages : forall seq acc seq' acc', tp_loop serial (seq, acc) pages = Ok (seq', acc') ->
  data_len acc' = data_len acc + ogg_total pages.
Proof.
  induction pages as [|p r IH]; intros seq acc seq' acc' H.
  - inversion H. cbn. lia.
  - cbn [tp_loop] in H. destruct (tp_step serial (seq, acc) p) as [[s1 a1]|e] eqn:S; [|discriminate].
    rewrite (IH _ _ _ _ H), (tp_step_total _ _ _ _ _ _ S). cbn [ogg_total fold_right]. fold (ogg_total r). lia.
Qed.
Lemma to_packets_total pages pk : to_packets false pages = Ok pk -> data_len pk = ogg_total pages.
Proof.
  unfold to_packets. destruct pages as [|p0 r]; [discriminate|]. cbn beta iota.
  destruct (tp_loop (p_serial p0) (p_sequence p0, if continued p0 then [[]] else []) (p0 :: r)) as [[s1 a1]|e] eqn:T;
    [|discriminate].
  cbn [rmap snd]. intros E. inversion E; subst a1. rewrite (tp_loop_total _ _ _ _ _ _ T).
  destruct (continued p0); cbn; lia.
Qed.

Lemma data_len_lens a b : map (@zlen Z) a = map (@zlen Z) b -> data_len a = data_len b.
Proof.
  revert b; induction a as [|x a IH]; intros [|y b] H; try discriminate; [reflexivity|].
  cbn [map] in H. inversion H. rewrite !data_len_cons. rewrite (IH b) by assumption. lia.
Qed.

(* ---- take_like / preserve_loop -------------------------------------------------------------------------- *)
Lemma take_like_spec olds : forall data ps rest, take_like olds data = (ps, rest) -> data_len olds <= zlen data ->
  map (@zlen Z) ps = map (@zlen Z) olds /\ zlen rest = zlen data - data_len olds.
Proof.
  induction olds as [|o r IH]; intros data ps rest H Hl.
  - inversion H. cbn. split; [reflexivity|lia].
  - cbn [take_like] in H. destruct (take_like r (zdrop (zlen o) data)) as [ps' rest'] eqn:T.
    inversion H; subst ps rest. clear H. rewrite data_len_cons in Hl.
    pose proof (zlen_nonneg o). pose proof (data_len_nonneg r).
    destruct (IH _ _ _ T) as (A & B); [rewrite zlen_zdrop by lia; lia|].
    split.
    + cbn [map]. rewrite A, zlen_ztake by lia. f_equal. lia.
    + rewrite B, zlen_zdrop, data_len_cons by lia. lia.
Qed.

Lemma preserve_loop_like olds : forall data ps rest, preserve_loop olds data = (ps, rest) -> ogg_total olds <= zlen data ->
  Forall2 ogg_like olds ps /\ zlen rest = zlen data - ogg_total olds.
Proof.
  induction olds as [|o r IH]; intros data ps rest H Hl.
  - inversion H. split; [constructor|cbn; lia].
  - cbn [preserve_loop] in H. destruct (take_like (p_packets o) data) as [pk data'] eqn:T.
    destruct (preserve_loop r data') as [ps' rest'] eqn:P. inversion H; subst ps rest. clear H.
    cbn [ogg_total fold_right] in Hl. fold (ogg_total r) in Hl.
    pose proof (data_len_nonneg (p_packets o)).
    assert (Hr : 0 <= ogg_total r).
    { clear. induction r as [|x r IH]; [cbn; lia|]. cbn [ogg_total fold_right]. fold (ogg_total r).
      pose proof (data_len_nonneg (p_packets x)). lia. }
    destruct (take_like_spec _ _ _ _ T) as (A & B); [lia|].
    destruct (IH _ _ _ P) as (C & D); [lia|].
    split.
    + constructor; [|exact C]. unfold ogg_like. cbn [p_version p_flags p_complete p_position p_packets set_packets set_position].
      repeat split; try reflexivity; try exact A; try (destruct (continued o); reflexivity).
    + rewrite D, B. cbn [ogg_total fold_right]. fold (ogg_total r). lia.
Qed.

(* _from_packets_try_preserve: either the layout is copied or it is from_packets *)
Lemma try_preserve_cases packets olds news : from_packets_try_preserve packets olds = Ok news -> olds <> [] ->
  (Forall2 ogg_like olds news) \/ from_packets 4096 2048 packets (p_sequence (hd new_page olds)) = Ok news.
Proof.
  unfold from_packets_try_preserve. intros H Hne.
  destruct (to_packets false olds) as [old_packets|e] eqn:T; [|discriminate].
  destruct (negb (list_eqb (map (@zlen Z) packets) (map (@zlen Z) old_packets))) eqn:L.
  - destruct olds as [|o r]; [contradiction|]. right. exact H.
  - left. apply negb_false_iff, list_eqb_spec in L.
    destruct (preserve_loop olds (concat packets)) as [ps rest] eqn:P.
    destruct rest; [|discriminate]. inversion H; subst ps.
    destruct (preserve_loop_like _ _ _ _ P) as (A & _); [|exact A].
    rewrite zlen_concat_data, (data_len_lens _ _ L), (to_packets_total _ _ T). lia.
Qed.

(* ---- well-formedness of the prepared pages -------------------------------------------------------------- *)
Definition ogg_Q (p : page) : Prop := p_version p = 0 /\ canonicalb p = true.
(* what the last new page must satisfy for an incomplete last old page *)
Definition ogg_tail_open (p : page) : Prop :=
  zlen (last (p_packets p) []) <> 0 /\ zlen (last (p_packets p) []) mod 255 = 0.

Lemma gl_Q oldl p : p_version p = 0 -> (p_complete oldl = false -> ogg_tail_open p) -> ogg_Q (ogg_gl oldl p).
Proof.
  intros Hv Ht. destruct (gl_keeps oldl p) as (_ & _ & K3 & K4). destruct (gl_flags oldl p) as (_ & _ & _ & F4).
  split; [rewrite K4; exact Hv|]. unfold canonicalb. rewrite F4, K3. destruct (p_complete oldl); [reflexivity|].
  destruct (Ht eq_refl) as (A & B). cbn [orb]. apply andb_true_iff. split.
  - apply negb_true_iff. apply Z.eqb_neq. exact A.
  - apply Z.eqb_eq. exact B.
Qed.

Lemma tail_Q oldl s t : forall q, Forall ogg_Q t -> t <> [] ->
  (p_complete oldl = false -> ogg_tail_open (last t new_page)) ->
  Forall ogg_Q (map_last (ogg_gl oldl) (number_from s q t)).
Proof.
  induction t as [|x t' IH]; intros q HQ Hne Ht; [contradiction|]. inversion HQ as [|? ? Qx Qt]; subst.
  cbn [number_from]. fold (ogg_nm s q x). destruct t' as [|y t''].
  - cbn [number_from map_last]. constructor; [|constructor]. apply gl_Q; [exact (proj1 Qx)|exact Ht].
  - rewrite map_last_cons by (cbn [number_from]; discriminate). constructor; [exact Qx|].
    apply IH; [exact Qt|discriminate|exact Ht].
Qed.

Lemma prepared_Q old0 oldl news : Forall ogg_Q news -> news <> [] ->
  (p_complete oldl = false -> ogg_tail_open (last news new_page)) ->
  Forall ogg_Q (prepare_new old0 oldl news).
Proof.
  intros HQ Hne Ht. rewrite prepare_new_eq. destruct news as [|h t]; [contradiction|].
  inversion HQ as [|? ? Qh Qt]; subst. cbn [number_from map_head]. fold (ogg_nm (p_serial old0) (p_sequence old0) h).
  destruct t as [|y t'].
  - cbn [number_from map_last]. constructor; [|constructor]. apply gl_Q; [exact (proj1 Qh)|exact Ht].
  - rewrite map_last_cons by (cbn [number_from]; discriminate). constructor; [exact Qh|].
    apply tail_Q; [exact Qt|discriminate|exact Ht].
Qed.

Lemma prepared_wf old0 oldl news : Forall ogg_Q news -> news <> [] ->
  (p_complete oldl = false -> ogg_tail_open (last news new_page)) ->
  Forall (fun p => header_ok p = true /\ lacing_count p <= 255) (prepare_new old0 oldl news) ->
  Forall page_wf (prepare_new old0 oldl news).
Proof.
  intros HQ Hne Ht HR. pose proof (prepared_Q old0 oldl news HQ Hne Ht) as Q.
  rewrite Forall_forall in *. intros p Hp. destruct (HR p Hp) as (A & B). destruct (Q p Hp) as (C & D).
  repeat split; assumption.
Qed.

Lemma ogg_last_map {A B} (f : A -> B) l d : last (map f l) (f d) = f (last l d).
Proof. induction l as [|x r IH]; [reflexivity|]. cbn [map]. destruct r; [reflexivity|]. exact IH. Qed.
Lemma like_last_len o n : ogg_like o n -> zlen (last (p_packets n) []) = zlen (last (p_packets o) []).
Proof.
  intros (_ & _ & _ & _ & L).
  rewrite <- (ogg_last_map (@zlen Z) (p_packets n) []), <- (ogg_last_map (@zlen Z) (p_packets o) []), L. reflexivity.
Qed.

(* pages that copy an old layout: version, canonical, and the open tail of the last page *)
Lemma like_Q olds news : Forall2 ogg_like olds news -> Forall page_wf olds -> Forall ogg_Q news.
Proof.
  induction 1 as [|o n olds' news' Hl Hr IH]; intros HW; [constructor|]. inversion HW as [|? ? Wo Wr]; subst.
  constructor; [|exact (IH Wr)]. pose proof (like_last_len o n Hl) as E. destruct Hl as (V & _ & C & _ & L).
  destruct Wo as (_ & _ & _ & Co). split; [exact V|]. unfold canonicalb in *. rewrite C, E. exact Co.
Qed.
Lemma like_last olds news : Forall2 ogg_like olds news -> olds <> [] ->
  ogg_like (last olds new_page) (last news new_page).
Proof.
  induction 1 as [|o n olds' news' Hl Hr IH]; intros Hne; [contradiction|].
  destruct Hr as [|o2 n2 olds2 news2 Hl2 Hr2]; [exact Hl|]. apply IH. discriminate.
Qed.
Lemma like_tail_open olds news : Forall2 ogg_like olds news -> olds <> [] -> Forall page_wf olds ->
  p_complete (last olds new_page) = false -> ogg_tail_open (last news new_page).
Proof.
  intros HF Hne HW Hc. pose proof (like_last _ _ HF Hne) as Hl. pose proof (like_last_len _ _ Hl) as E.
  assert (W : page_wf (last olds new_page)) by (apply Forall_last; assumption).
  destruct W as (_ & _ & _ & Co). unfold canonicalb in Co. rewrite Hc in Co. cbn [orb] in Co.
  apply andb_true_iff in Co as [A B]. apply negb_true_iff, Z.eqb_neq in A. apply Z.eqb_eq in B.
  unfold ogg_tail_open. rewrite E. split; assumption.
Qed.
