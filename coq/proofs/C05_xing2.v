(* C05 -- MPEG Layer III, continued: Xing/Info header without LAME extension, and VBRI. *)
From Coq Require Import ZArith List Bool Lia.
Import ListNotations.
Require Import Base.Py Base.ZList Model.InfoBase Model.InfoMpeg Model.InfoXing Gen.Gen_tables Proofs.C05_bits.
Open Scope Z_scope.


(* without a LAME extension the duration is frames * samples per frame; without a frame count it stays unknown *)
Theorem xing_plain_tag spf sr off pre info frames bytes toc scale rest :
  zlen pre = off -> opt_u32 frames -> opt_u32 bytes -> opt_u32 scale -> 0 <= spf ->
  decode_vbr_tags spf sr off (pre ++ build_xing_tag (mkXing info frames bytes toc scale) ++ repeat 0 36%nat ++ rest) =
  [if info then 2 else 1; opt_val frames; opt_val bytes; 0; 0; 0;
   match frames with Some fr => spf * fr | None => -1 end; match frames with Some _ => sr | None => 1 end].
Proof.
  intros Hpre Hf Hb Hs Hspf.
  unfold decode_vbr_tags.
  rewrite zdrop_c_app by exact Hpre.
  destruct info, frames as [fr|], bytes as [by_|], toc, scale as [sc|]; cbn [opt_u32] in Hf, Hb, Hs;
    unfold build_xing_tag, ascii_Info, ascii_Xing, opt_flag, opt_be4, opt_val;
    cbn [xg_info xg_frames xg_bytes xg_toc xg_scale].
  all: repeat first [ rewrite if_true by (lia || reflexivity) | rewrite if_false by (lia || reflexivity)
                    | progress cbv beta iota zeta | progress layout ].
  all: match goal with |- context [lame_parse_version ?l] => replace (lame_parse_version l) with (@None (Z * Z * bool)) by reflexivity end.
  all: repeat first [ rewrite if_true by (lia || reflexivity) | rewrite if_false by (lia || reflexivity)
                    | progress cbv beta iota zeta | progress layout ].
  all: decode_encode.
  all: try (rewrite if_false by nia); try reflexivity.
  all: try (rewrite !Z.sub_0_r; reflexivity).
Qed.

(* VBRI (looked for at offset 36 when no Xing header is found at the Xing offset) *)
Theorem vbri_tag spf sr xoff pre delay quality bytes frames entries scale entry_size toc_frames rest :
  let f := pre ++ build_vbri_tag delay quality bytes frames entries scale entry_size toc_frames ++ rest in
  zlen pre = 36 ->
  (zlen (firstn 8 (zdrop_c xoff f)) =? 8) &&
    (list_eqb (firstn 4 (firstn 8 (zdrop_c xoff f))) ascii_Xing || list_eqb (firstn 4 (firstn 8 (zdrop_c xoff f))) ascii_Info) = false ->
  0 <= delay < 65536 -> 0 <= quality < 65536 -> 0 <= bytes < 4294967296 -> 0 <= frames < 4294967296 ->
  0 <= entries < 65536 -> 0 <= scale < 65536 -> (entry_size = 2 \/ entry_size = 4) -> 0 <= toc_frames < 65536 ->
  decode_vbr_tags spf sr xoff f = [3; frames; bytes; 0; 0; 0; spf * frames; sr].
Proof.
  intros f Hpre Hx H1 H2 H3 H4 H5 H6 H7 H8.
  unfold decode_vbr_tags. cbv zeta. rewrite Hx. cbv iota.
  unfold f. rewrite zdrop_c_app by exact Hpre.
  unfold build_vbri_tag, ascii_VBRI. rewrite <- !app_assoc.
  remember (zeros (entries * entry_size) ++ rest) as tocrest eqn:Et.
  layout. decode_encode.
  rewrite if_true by reflexivity. rewrite if_false by lia.
  subst tocrest.
  rewrite ztake_c_app by (rewrite zlen_zeros by nia; ring).
  rewrite zlen_zeros by nia.
  rewrite if_false by lia. rewrite if_false by lia. reflexivity.
Qed.
