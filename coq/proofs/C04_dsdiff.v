(* Proofs.C04_dsdiff -- totality of the DSDIFF.load mirror (Model.Parse_dsdiff).  The walk argument is that of
   Proofs.C04_aiff with a 12-byte header: a parsed chunk starts where the walk sought to and its header lies
   inside the data, so next_offset grows by at least 12 per round. *)
From Coq Require Import ZArith List Bool Lia.
Import ListNotations.
Require Import Base.Py Base.ZList Model.Parse_base Model.Parse_aiff Model.Parse_dsdiff Proofs.C04_lib Proofs.C04_aiff.
Open Scope Z_scope.

Lemma dff_size_even ds : (12 + ds + ds mod 2) mod 2 = 0.
Proof.
  pose proof (Z.div_mod ds 2 ltac:(lia)).
  replace (12 + ds + ds mod 2) with ((6 + ds / 2 + ds mod 2) * 2) by lia. apply Z.mod_mul. lia.
Qed.

Definition dchunk_ok (d : list Z) (p : Z) (c : dff_chunk) : Prop :=
  0 <= dff_dsize c /\ dff_doff c = p + 12 /\ dff_doff c <= zlen d.
Definition odchunk_ok (d : list Z) (p : Z) (c : option dff_chunk) : Prop :=
  match c with None => True | Some ch => dchunk_ok d p ch end.

Lemma dff_parse_spec d p : bytes_ok d -> 0 <= p ->
  pspec dff_parse d p (fun c p' => 0 <= p' /\ odchunk_ok d p c).
Proof.
  intros Hd Hp. unfold dff_parse. pose proof (zlen_nonneg d).
  pstep. pstep.
  destruct (zlen r <? 12) eqn:E8; [pstep; split; [lia|exact I]|]. apply Z.ltb_ge in E8.
  destruct (zlen r =? 12) eqn:E8'; cbn [negb]; [|apply Z.eqb_neq in E8'; lia]. apply Z.eqb_eq in E8'.
  cbv zeta.
  pose proof (be_decode_bound (zslice 4 12 r) (bytes_ok_zslice _ _ _ (bytes_ok_rd _ _ _ Hd))) as Hds.
  set (ds := be_decode (zslice 4 12 r)) in *.
  destruct (iff_ascii (zslice 0 4 r)); cbn [negb]; [|pstep; split; [lia|exact I]].
  destruct (iff_valid_id (iff_rstrip (zslice 0 4 r))); cbn [negb]; [|pstep; split; [lia|exact I]].
  pstep. pstep. rewrite dff_size_even. cbn [Z.eqb negb].
  assert (Hok : forall nm, dchunk_ok d p (iff_rstrip (zslice 0 4 r), ds, p + zlen r, nm)).
  { intro nm. unfold dchunk_ok, dff_dsize, dff_doff. cbn [fst snd]. lia. }
  destruct (list_eqb (iff_rstrip (zslice 0 4 r)) dff_FRM8 || list_eqb (iff_rstrip (zslice 0 4 r)) dff_PROP).
  - destruct (ds <? 4); [pstep; split; [lia|exact I]|].
    pstep. pstep. destruct (iff_ascii r0); cbn [negb]; [|praiseM].
    pstep. split; [lia|apply Hok].
  - destruct (list_eqb (iff_rstrip (zslice 0 4 r)) dff_DST).
    + destruct (ds <? 0); pstep; (split; [lia|]); [exact I|apply Hok].
    + pstep. split; [lia|apply Hok].
Qed.

(* what is known about a listed chunk: its data offset lies inside the data, behind a 12-byte header *)
Definition dchunks_in (d : list Z) (l : list dff_chunk) : Prop := Forall (fun c => 12 <= dff_doff c <= zlen d) l.

Lemma dff_subchunks_spec d end_ : bytes_ok d -> forall fuel next p,
  0 <= next -> 0 <= p -> 1 <= Z.of_nat fuel -> zlen d + 2 - next <= Z.of_nat fuel ->
  pspec (dff_subchunks fuel next end_) d p (fun l p' => 0 <= p' /\ dchunks_in d l).
Proof.
  intros Hd. induction fuel as [|f IH]; intros next p Hn Hp Hf1 Hf; [lia|].
  cbn [dff_subchunks]. pose proof (zlen_nonneg d).
  destruct (next <? end_); cbn [negb]; [|pstep; split; [lia|constructor]].
  pstep. eapply pspecE_post; [apply seek_try_spec; assumption|].
  intros b p1 [Hp1 Hb]. cbv beta.
  destruct b; cbn [negb]; [|pstep; split; [lia|constructor]].
  specialize (Hb eq_refl). subst p1.
  pstep. eapply pspecE_post; [apply dff_parse_spec; assumption|].
  intros [[[[id ds] doff] name]|] p2 [Hp2 Hc]; cbv beta iota; [|pstep; split; [lia|constructor]].
  destruct Hc as (Hds & Hdoff & Hle). unfold dff_dsize, dff_doff in Hds, Hdoff, Hle. cbn [fst snd] in Hds, Hdoff, Hle.
  pose proof (Z.mod_pos_bound ds 2 ltac:(lia)).
  pstep. eapply pspecE_post.
  - apply IH; unfold dff_end, dff_size, dff_dsize, dff_doff; cbn [fst snd]; lia.
  - intros rest p3 [Hp3 Hall]. cbv beta. pstep. split; [lia|].
    constructor; [unfold dff_doff; cbn [fst snd]; lia|exact Hall].
Qed.

Lemma dff_walk_spec d c p : bytes_ok d -> 12 <= dff_doff c -> 0 <= p ->
  pspec (dff_walk (lin_fuel 1 1 d) c) d p (fun l p' => 0 <= p' /\ dchunks_in d l).
Proof.
  intros Hd Hc Hp. unfold dff_walk. pose proof (zlen_nonneg d).
  apply dff_subchunks_spec; first [assumption | (destruct (list_eqb (dff_id c) dff_DST); unfold lin_fuel; lia)].
Qed.

Lemma dff_find_In id l c : dff_find id l = Some c -> In c l.
Proof.
  induction l as [|x t IH]; cbn [dff_find]; [discriminate|].
  destruct (list_eqb (dff_id x) id); [intros [= <-]; left; reflexivity|intro H; right; auto].
Qed.
Lemma dff_find_ok d id l c : dchunks_in d l -> dff_find id l = Some c -> 12 <= dff_doff c <= zlen d.
Proof. intros Hall Hf. apply dff_find_In in Hf. unfold dchunks_in in Hall. rewrite Forall_forall in Hall. auto. Qed.

Lemma dff_file_spec d p : bytes_ok d -> pspec dff_file d p (fun f p' => 0 <= p' /\ odchunk_ok d 0 f).
Proof.
  intros Hd. unfold dff_file. pstep. pstep. pstep.
  eapply pspecE_post; [apply dff_parse_spec; [assumption|lia]|].
  intros [ch|] p' [Hp' Hc]; cbv beta iota; [|pstep; split; [lia|exact I]].
  destruct (list_eqb (dff_id ch) dff_FRM8); cbn [negb]; pstep; (split; [lia|]); [exact Hc|exact I].
Qed.

Lemma p_read_any_pos n d p :
  pspecE (fun e => e = EMutagen \/ is_eoverflow e = true) (p_read n) d p (fun r p' => r = rd n p d /\ p' = p + zlen r).
Proof. unfold pspecE, p_read. destruct (in_ssize n); cbn [negb]; [split; reflexivity|right; reflexivity]. Qed.

Lemma dff_read_spec d c p : c04_input d -> 12 <= dff_doff c <= zlen d ->
  pspec (dff_read c) d p (fun _ p' => 0 <= p').
Proof.
  intros [Hd Hlen] Hc. unfold dff_read. unfold c04_two62 in *.
  pstep. pstep. eapply pspecE_post; [apply pspec_catchM; apply p_read_any_pos|].
  intros data p' [-> ->]. pose proof (zlen_nonneg (rd (dff_dsize c) (dff_doff c) d)). lia.
Qed.

Lemma dff_read_n_spec d c n p : c04_input d -> 12 <= dff_doff c <= zlen d -> 0 <= n ->
  pspec (dff_read_n c n) d p (fun _ p' => 0 <= p').
Proof.
  intros Hin Hc Hn. unfold dff_read_n.
  pstep. eapply pspecE_post; [apply dff_read_spec; assumption|].
  intros data p' Hp'. cbv beta.
  destruct (zlen data <? n) eqn:E; [praiseM|]. apply Z.ltb_ge in E. cbv zeta.
  rewrite zlen_zslice by lia. replace (Z.min (n - 0) (Z.max 0 (zlen data - 0))) with n by lia.
  rewrite Z.eqb_refl. cbn [negb]. pstep. exact Hp'.
Qed.

Lemma dff_prop_loop_spec d : c04_input d -> forall l st p, dchunks_in d l -> 0 <= p ->
  pspec (dff_prop_loop l st) d p (fun _ p' => 0 <= p').
Proof.
  intros Hin. induction l as [|c t IH]; intros st p Hall Hp; cbn [dff_prop_loop]; [pstep; exact Hp|].
  destruct st as [[sr ch] comp]. inversion Hall as [|c' t' Hc Ht]; subst.
  pstep. apply pspecE_post with (Q := fun _ p' => 0 <= p').
  - destruct (list_eqb (dff_id c) dff_FS && (dff_dsize c =? 4)).
    { pstep. eapply pspecE_post; [apply dff_read_n_spec; first [assumption|lia]|]. intros s p' Hp'. cbv beta. pstep. exact Hp'. }
    destruct (list_eqb (dff_id c) dff_CHNL && (2 <=? dff_dsize c)).
    { pstep. eapply pspecE_post; [apply dff_read_n_spec; first [assumption|lia]|]. intros s p' Hp'. cbv beta. pstep. exact Hp'. }
    destruct (list_eqb (dff_id c) dff_CMPR && (4 <=? dff_dsize c)).
    { pstep. eapply pspecE_post; [apply dff_read_n_spec; first [assumption|lia]|]. intros s p' Hp'. cbv beta.
      destruct (iff_ascii s); cbn [negb]; [pstep; exact Hp'|praiseM]. }
    pstep. exact Hp.
  - intros st' p' Hp'. cbv beta. apply IH; assumption.
Qed.

Lemma guard_spec (x : Z) d p (Q : unit -> Z -> Prop) : Q tt p ->
  pspec (if negb (x =? 0) then (if x =? 0 then praise EZeroDiv else pret tt) else pret tt) d p Q.
Proof. intro H. destruct (x =? 0); cbn [negb]; apply pspecE_ret; exact H. Qed.

Lemma dff_info_spec d p : c04_input d -> 0 <= p ->
  pspec (dff_info (lin_fuel 1 1 d)) d p (fun _ _ => True).
Proof.
  intros Hin Hp. pose proof Hin as [Hd Hlen]. unfold dff_info. apply pspec_convert_io.
  pstep. eapply pspecE_post; [apply dff_file_spec; assumption|].
  intros [root|] p1 [Hp1 Hroot]; cbv beta iota; [|praiseM].
  destruct Hroot as (_ & Hro & _).
  pstep. eapply pspecE_post; [apply dff_walk_spec; first [assumption|lia]|].
  intros subs p2 [Hp2 Hsubs]. cbv beta.
  destruct (dff_find dff_PROP subs) as [prop|] eqn:Eprop; [|praiseM].
  pose proof (dff_find_ok _ _ _ _ Hsubs Eprop) as Hprop.
  pstep. apply pspecE_post with (Q := fun _ p' => 0 <= p').
  { destruct (list_eqb (dff_name prop) dff_SND_); [|pstep; exact Hp2].
    pstep. eapply pspecE_post; [apply dff_walk_spec; first [assumption|lia]|].
    intros psubs p3 [Hp3 Hps]. cbv beta. apply dff_prop_loop_spec; assumption. }
  intros [[sr ch] comp] p3 Hp3. cbv beta iota.
  destruct (sr <? 0); [praiseM|]. cbv zeta.
  destruct (match comp with Some s => list_eqb s dff_DSD | None => false end).
  { destruct (dff_find dff_DSD subs) as [dsd|]; [|praiseM].
    destruct ((if ch =? 0 then 1 else ch) =? 0) eqn:Ez.
    { destruct (ch =? 0) eqn:Ec; apply Z.eqb_eq in Ez; [lia|apply Z.eqb_neq in Ec; lia]. }
    pstep. apply guard_spec. pstep. exact I. }
  destruct (match comp with Some s => list_eqb s dff_DST | None => false end); [|pstep; exact I].
  destruct (dff_find dff_DST subs) as [dst|] eqn:Edst; [|praiseM].
  pose proof (dff_find_ok _ _ _ _ Hsubs Edst) as Hdst.
  pstep. eapply pspecE_post; [apply dff_walk_spec; first [assumption|lia]|].
  intros dsubs p4 [Hp4 Hds]. cbv beta.
  destruct (dff_find dff_FRTE dsubs) as [frte|] eqn:Efr; [|praiseM].
  pose proof (dff_find_ok _ _ _ _ Hds Efr) as Hfrte.
  destruct (6 <=? dff_dsize frte); [|pstep; exact I].
  pstep. eapply pspecE_post; [apply dff_read_n_spec; first [assumption|lia]|].
  intros s p5 Hp5. cbv beta zeta.
  pstep. apply guard_spec. pstep. apply guard_spec. pstep. exact I.
Qed.

Lemma dff_pre_load_header_spec d p : c04_input d -> 0 <= p ->
  pspec (dff_pre_load_header (lin_fuel 1 1 d)) d p (fun _ _ => True).
Proof.
  intros [Hd Hlen] Hp. unfold dff_pre_load_header. unfold c04_two62 in *.
  pstep. eapply pspecE_post; [apply dff_file_spec; assumption|].
  intros [root|] p1 [Hp1 Hroot]; cbv beta iota; [|pstep; exact I].
  destruct Hroot as (_ & Hro & _).
  pstep. eapply pspecE_post; [apply dff_walk_spec; first [assumption|lia]|].
  intros subs p2 [Hp2 Hsubs]. cbv beta.
  destruct (dff_find dff_ID3 subs) as [c|] eqn:Ec; [|pstep; exact I].
  pose proof (dff_find_ok _ _ _ _ Hsubs Ec) as Hc.
  pstep. pstep. pstep. exact I.
Qed.

Theorem dsdiff_total d : c04_input d -> total (dsdiff_load d).
Proof.
  intros Hin. unfold dsdiff_load. eapply total_prun with (Q := fun _ _ => True).
  unfold dff_init. apply pspec_convert_io.
  pstep. eapply pspecE_post; [apply dff_pre_load_header_spec; [assumption|lia]|].
  intros loc p1 _. cbv beta.
  pstep. pstep. pstep.
  eapply pspecE_post; [apply dff_info_spec; [assumption|lia]|].
  intros info p2 _. cbv beta. pstep. exact I.
Qed.
