(* Proofs.C04_ogg -- totality of the OggVorbisInfo mirror under OggFileType.load's exception mapping. *)
From Coq Require Import ZArith List Bool Lia.
Import ListNotations.
Require Import Base.Py Base.ZList Model.Parse_base Model.Ogg Model.Parse_ogg Proofs.C04_lib.
Open Scope Z_scope.

Lemma read_packets_len : forall ls bs pk rest, read_packets ls bs = Some (pk, rest) -> zlen rest <= zlen bs.
Proof.
  induction ls as [|l r IH]; intros bs pk rest H; cbn [read_packets] in H.
  - inversion H. lia.
  - destruct (negb (zlen (ztake l bs) =? l)); [discriminate|].
    destruct (read_packets r (zdrop l bs)) as [[ps rest']|] eqn:E; [|discriminate].
    inversion H; subst. apply IH in E.
    destruct (Z_le_dec 0 l).
    + rewrite zlen_zdrop in E by lia. pose proof (zlen_nonneg bs). lia.
    + rewrite zdrop_neg in E by lia. exact E.
Qed.

Definition EofM (e : exc) := e = EMutagen \/ e = EEOF.

Lemma page_parse_cases bs :
  match page_parse bs with
  | Ok (pg, rest) => zlen rest + 27 <= zlen bs
  | Raise e => EofM e
  end.
Proof.
  unfold page_parse. cbv zeta.
  destruct (zlen (ztake 27 bs) =? 0) eqn:E0; [right; reflexivity|].
  destruct (zlen (ztake 27 bs) <? 27) eqn:E1; [left; reflexivity|].
  apply Z.ltb_ge in E1. rewrite zlen_ztake in E1 by lia.
  destruct (negb (list_eqb (ztake 4 (ztake 27 bs)) oggs)); [left; reflexivity|].
  destruct (negb (znth 4 (ztake 27 bs) =? 0)); [left; reflexivity|].
  set (segments := znth 26 (ztake 27 bs)).
  destruct (negb (zlen (ztake segments (zdrop 27 bs)) =? segments)); [left; reflexivity|].
  destruct (lacing_scan (ztake segments (zdrop 27 bs)) 0 []) as [racc tot].
  destruct (read_packets _ _) as [[pk rest']|] eqn:ER; [|left; reflexivity].
  apply read_packets_len in ER.
  destruct (Z_le_dec 0 segments).
  - rewrite zlen_zdrop in ER by lia. rewrite zlen_zdrop in ER by lia. lia.
  - rewrite zdrop_neg in ER by lia. rewrite zlen_zdrop in ER by lia. lia.
Qed.

Section WithD.
Variable d : list Z.

Lemma read_page_spec p : 0 <= p <= zlen d ->
  pspecE EofM ogg_read_page d p (fun _ p' => p + 27 <= p' <= zlen d).
Proof.
  intro Hp. unfold pspecE, ogg_read_page. rewrite ldrop_zdrop.
  pose proof (page_parse_cases (zdrop p d)) as H.
  destruct (page_parse (zdrop p d)) as [[pg rest]|e]; [|exact H].
  rewrite zlen_zdrop in * by lia. pose proof (zlen_nonneg rest). lia.
Qed.

Lemma find_id_spec : forall fuel pg p, 0 <= p <= zlen d -> zlen d - p < Z.of_nat fuel ->
  pspecE EofM (ogg_find_id fuel pg) d p (fun pg' _ => ogg_first_is_id pg' = true).
Proof.
  induction fuel as [|fuel IH]; intros pg p Hp Hf; [lia|].
  cbn [ogg_find_id]. destruct (ogg_first_is_id pg) eqn:E; [pretn; exact E|].
  pbind. eapply pspecE_post; [apply read_page_spec; exact Hp|].
  intros pg' p' Hp'. cbv beta in Hp'. apply IH; lia.
Qed.

Lemma ogv_init_spec fuel : zlen d < Z.of_nat fuel -> pspecE EofM (ogv_init fuel) d 0 (fun _ _ => True).
Proof.
  intro Hf. unfold ogv_init. pose proof (zlen_nonneg d).
  pbind. eapply pspecE_post; [apply read_page_spec; lia|].
  intros pg p Hp. cbv beta in *.
  destruct (p_packets pg) eqn:Epk; [praiseM|].
  pbind. eapply pspecE_post; [apply find_id_spec; lia|].
  intros pg' p' Hid. cbv beta.
  destruct (first pg'); cbn [negb]; [|praiseM].
  unfold ogg_first_is_id in Hid. destruct (p_packets pg') as [|pk t] eqn:E2; [discriminate|].
  pbind. apply pspecE_lift. change (list_index 0 (pk :: t)) with (@Ok (list Z) pk). cbv beta iota.
  destruct (zlen pk <? 28) eqn:E3; [praiseM|]. apply Z.ltb_ge in E3.
  assert (H17 : zlen (zslice 11 28 pk) = 17) by (rewrite zlen_zslice; lia).
  cbv zeta. rewrite H17. change (17 =? 17) with true. cbn [negb].
  destruct (le_decode (zslice 1 5 (zslice 11 28 pk)) =? 0); [praiseM|]. pretn. exact I.
Qed.
End WithD.

(* OggVorbisInfo(fileobj) itself may let EOFError out ... *)
Theorem oggvorbis_info_cases d :
  match oggvorbis_info_load d with Ok _ => True | Raise e => e = EMutagen \/ e = EEOF end.
Proof.
  unfold oggvorbis_info_load, prun.
  pose proof (ogv_init_spec d (ogv_fuel d) ltac:(apply lin_fuel_gt; lia)) as H.
  unfold pspecE in H. destruct (ogv_init (ogv_fuel d) d 0) as [[a|e] p]; cbn; auto.
Qed.
(* ... which OggFileType.load turns into its own error *)
Theorem oggvorbis_total d : total (oggvorbis_load d).
Proof.
  unfold oggvorbis_load. eapply total_prun with (Q := fun _ _ => True).
  eapply pspecE_catch with (E' := EofM).
  - apply pspecE_convert_io; [left; reflexivity|]. apply ogv_init_spec. apply lin_fuel_gt; lia.
  - intros e [He|He]; subst e; cbn; [reflexivity|]. intros. reflexivity.
Qed.
