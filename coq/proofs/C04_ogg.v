(* Proofs.C04_ogg -- totality of the OggVorbisInfo mirror under OggFileType.load's exception mapping. *)
From Coq Require Import ZArith List Bool Lia.
Import ListNotations.
Require Import Base.Py Base.ZList Model.Parse_base Model.Ogg Model.Parse_ogg Proofs.C04_lib.
Open Scope Z_scope.

Lemma read_packets_len : forall ls bs pk rest, read_packets ls bs = Some (pk, rest) -> zlen rest <= zlen bs.
Proof.
  induction ls as [|l r IH]; intros bs pk rest H; cbn [read_packets] in H.
  - inversion H. lia.
  - destruct (negb (zlen (ztake l bs) =? l)); [discriminate|].
    destruct (read_packets r (zdrop l bs)) as [[ps rest']|] eqn:E; [|discriminate].
    inversion H; subst. apply IH in E.
    destruct (Z_le_dec 0 l).
    + rewrite zlen_zdrop in E by lia. pose proof (zlen_nonneg bs). lia.
    + rewrite zdrop_neg in E by lia. exact E.
Qed.

Definition EofM (e : exc) := e = EMutagen \/ e = EEOF.

Lemma page_parse_cases bs :
  match page_parse bs with
  | Ok (pg, rest) => zlen rest + 27 <= zlen bs
  | Raise e => EofM e
  end.
Proof.
  unfold page_parse. cbv zeta.
  destruct (zlen (ztake 27 bs) =? 0) eqn:E0; [right; reflexivity|].
  destruct (zlen (ztake 27 bs) <? 27) eqn:E1; [left; reflexivity|].
  apply Z.ltb_ge in E1. rewrite zlen_ztake in E1 by lia.
  destruct (negb (list_eqb (ztake 4 (ztake 27 bs)) oggs)); [left; reflexivity|].
  destruct (negb (znth 4 (ztake 27 bs) =? 0)); [left; reflexivity|].
  set (segments := znth 26 (ztake 27 bs)).
  destruct (negb (zlen (ztake segments (zdrop 27 bs)) =? segments)); [left; reflexivity|].
  destruct (lacing_scan (ztake segments (zdrop 27 bs)) 0 []) as [racc tot].
  destruct (read_packets _ _) as [[pk rest']|] eqn:ER; [|left; reflexivity].
  apply read_packets_len in ER.
  destruct (Z_le_dec 0 segments).
  - rewrite zlen_zdrop in ER by lia. rewrite zlen_zdrop in ER by lia. lia.
  - rewrite zdrop_neg in ER by lia. rewrite zlen_zdrop in ER by lia. lia.
Qed.

Section WithD.
Variable d : list Z.

Lemma read_page_spec p : 0 <= p <= zlen d ->
  pspecE EofM ogg_read_page d p (fun _ p' => p + 27 <= p' <= zlen d).
Proof.
  intro Hp. unfold pspecE, ogg_read_page. rewrite ldrop_zdrop.
  pose proof (page_parse_cases (zdrop p d)) as H.
  destruct (page_parse (zdrop p d)) as [[pg rest]|e]; [|exact H].
  rewrite zlen_zdrop in * by lia. pose proof (zlen_nonneg rest). lia.
Qed.

Lemma find_spec : forall fuel magic pg p, 0 <= p <= zlen d -> zlen d - p < Z.of_nat fuel ->
  pspecE EofM (ogg_find fuel magic pg) d p (fun pg' _ => ogg_first_is magic pg' = true).
Proof.
  induction fuel as [|fuel IH]; intros magic pg p Hp Hf; [lia|].
  cbn [ogg_find]. destruct (ogg_first_is magic pg) eqn:E; [pretn; exact E|].
  pbind. eapply pspecE_post; [apply read_page_spec; exact Hp|].
  intros pg' p' Hp'. cbv beta in Hp'. apply IH; lia.
Qed.
Lemma find_id_spec : forall fuel pg p, 0 <= p <= zlen d -> zlen d - p < Z.of_nat fuel ->
  pspecE EofM (ogg_find_id fuel pg) d p (fun pg' _ => ogg_first_is_id pg' = true).
Proof. intros. apply find_spec; assumption. Qed.

(* the common prologue: first page, find loop; then the packet exists *)
Lemma find_first_packet fuel magic (k : page -> P (list Z)) :
  zlen d < Z.of_nat fuel ->
  (forall pg pk t p, p_packets pg = pk :: t -> pspecE EofM (k pg) d p (fun _ _ => True)) ->
  pspecE EofM (pg <~ ogg_read_page ;; pg <~ ogg_find fuel magic pg ;; k pg) d 0 (fun _ _ => True).
Proof.
  intros Hf Hk. pose proof (zlen_nonneg d).
  pbind. eapply pspecE_post; [apply read_page_spec; lia|].
  intros pg p Hp. cbv beta in *.
  pbind. eapply pspecE_post; [apply find_spec; lia|].
  intros pg' p' Hid. cbv beta in *.
  unfold ogg_first_is in Hid. destruct (p_packets pg') as [|pk t] eqn:E2; [discriminate|].
  eapply Hk. exact E2.
Qed.

Lemma ogv_init_spec fuel : zlen d < Z.of_nat fuel -> pspecE EofM (ogv_init fuel) d 0 (fun _ _ => True).
Proof.
  intro Hf. unfold ogv_init. pose proof (zlen_nonneg d).
  pbind. eapply pspecE_post; [apply read_page_spec; lia|].
  intros pg p Hp. cbv beta in *.
  destruct (p_packets pg) eqn:Epk; [praiseM|].
  pbind. eapply pspecE_post; [apply find_id_spec; lia|].
  intros pg' p' Hid. cbv beta.
  destruct (first pg'); cbn [negb]; [|praiseM].
  unfold ogg_first_is_id, ogg_first_is in Hid. destruct (p_packets pg') as [|pk t] eqn:E2; [discriminate|].
  pbind. apply pspecE_lift. change (list_index 0 (pk :: t)) with (@Ok (list Z) pk). cbv beta iota.
  destruct (zlen pk <? 28) eqn:E3; [praiseM|]. apply Z.ltb_ge in E3.
  assert (H17 : zlen (zslice 11 28 pk) = 17) by (rewrite zlen_zslice; lia).
  cbv zeta. rewrite H17. change (17 =? 17) with true. cbn [negb].
  destruct (le_decode (zslice 1 5 (zslice 11 28 pk)) =? 0); [praiseM|]. pretn. exact I.
Qed.
Ltac zs17 n := rewrite zlen_zslice by lia; lia.

Lemma ogo_init_spec fuel : zlen d < Z.of_nat fuel -> pspecE EofM (ogo_init fuel) d 0 (fun _ _ => True).
Proof.
  intro Hf. unfold ogo_init. apply find_first_packet; [exact Hf|].
  intros pg pk t p E2. rewrite E2.
  destruct (first pg); cbn [negb]; [|praiseM].
  pbind. apply pspecE_lift. change (list_index 0 (pk :: t)) with (@Ok (list Z) pk). cbv beta iota zeta.
  pbind. eapply pspecE_catch' with (E' := fun e => e = EStruct) (Q0 := fun _ _ => True).
  - apply pspecE_lift. destruct (zlen (zslice 8 19 pk) =? 11); [exact I|reflexivity].
  - intros e ->. cbn [exc_eqb]. intros. praiseM.
  - intros s p' _. destruct (znth 0 s / 16 =? 0); cbn [negb]; [pretn; exact I|praiseM].
Qed.

Lemma ogs_init_spec fuel : zlen d < Z.of_nat fuel -> pspecE EofM (ogs_init fuel) d 0 (fun _ _ => True).
Proof.
  intro Hf. unfold ogs_init. apply find_first_packet; [exact Hf|].
  intros pg pk t p E2. rewrite E2.
  destruct (first pg); cbn [negb]; [|praiseM].
  pbind. apply pspecE_lift. change (list_index 0 (pk :: t)) with (@Ok (list Z) pk). cbv beta iota.
  destruct (zlen pk <? 56) eqn:E3; [praiseM|]. apply Z.ltb_ge in E3.
  pbind. apply pspecE_unpack_le; [rewrite zlen_zslice; lia|]. cbv beta.
  destruct (le_decode (zslice 36 40 pk) =? 0); [praiseM|].
  pbind. apply pspecE_unpack_le; [rewrite zlen_zslice; lia|]. cbv beta.
  pbind. apply pspecE_unpack_le; [rewrite zlen_zslice; lia|]. cbv beta.
  pretn. exact I.
Qed.

Lemma ogt_init_spec fuel : zlen d < Z.of_nat fuel -> pspecE EofM (ogt_init fuel) d 0 (fun _ _ => True).
Proof.
  intro Hf. unfold ogt_init. apply find_first_packet; [exact Hf|].
  intros pg data t p E2. rewrite E2.
  destruct (first pg); cbn [negb]; [|praiseM].
  pbind. apply pspecE_lift. change (list_index 0 (data :: t)) with (@Ok (list Z) data). cbv beta iota.
  destruct (zlen data <? 42) eqn:E3; [praiseM|]. apply Z.ltb_ge in E3.
  cbv zeta.
  rewrite (zlen_zslice 7 9 data) by lia. replace (Z.min (9 - 7) (Z.max 0 (zlen data - 7)) =? 2) with true by (symmetry; apply Z.eqb_eq; lia).
  cbn [negb].
  destruct ((znth 0 (zslice 7 9 data) =? 3) && (znth 1 (zslice 7 9 data) =? 2)); cbn [negb]; [|praiseM].
  rewrite (zlen_zslice 22 30 data) by lia. replace (Z.min (30 - 22) (Z.max 0 (zlen data - 22)) =? 8) with true by (symmetry; apply Z.eqb_eq; lia).
  cbn [negb].
  destruct (be_decode (zslice 4 8 (zslice 22 30 data)) =? 0) eqn:Eden; cbn [orb]; [praiseM|].
  destruct (be_decode (zslice 0 4 (zslice 22 30 data)) =? 0); [praiseM|].
  pbind. apply pspecE_unpack_be; [rewrite zlen_cons, zlen_zslice; lia|]. cbv beta.
  pbind. apply pspecE_unpack_be; [rewrite zlen_zslice; lia|]. cbv beta.
  pretn. exact I.
Qed.

Lemma mapped_total (m : nat -> P (list Z)) :
  (forall fuel, zlen d < Z.of_nat fuel -> pspecE EofM (m fuel) d 0 (fun _ _ => True)) -> total (ogg_mapped m d).
Proof.
  intro H. unfold ogg_mapped. eapply total_prun with (Q := fun _ _ => True).
  eapply pspecE_catch with (E' := EofM).
  - apply pspecE_convert_io; [left; reflexivity|]. apply H. apply lin_fuel_gt; lia.
  - intros e [He|He]; subst e; cbn; [reflexivity|]. intros. reflexivity.
Qed.
End WithD.

Theorem oggopus_total d : total (oggopus_load d).
Proof. apply mapped_total. apply ogo_init_spec. Qed.
Theorem oggspeex_total d : total (oggspeex_load d).
Proof. apply mapped_total. apply ogs_init_spec. Qed.
Theorem oggtheora_total d : total (oggtheora_load d).
Proof. apply mapped_total. apply ogt_init_spec. Qed.

(* OggVorbisInfo(fileobj) itself may let EOFError out ... *)
Theorem oggvorbis_info_cases d :
  match oggvorbis_info_load d with Ok _ => True | Raise e => e = EMutagen \/ e = EEOF end.
Proof.
  unfold oggvorbis_info_load, prun.
  pose proof (ogv_init_spec d (ogv_fuel d) ltac:(apply lin_fuel_gt; lia)) as H.
  unfold pspecE in H. destruct (ogv_init (ogv_fuel d) d 0) as [[a|e] p]; cbn; auto.
Qed.
(* ... which OggFileType.load turns into its own error *)
Theorem oggvorbis_total d : total (oggvorbis_load d).
Proof.
  unfold oggvorbis_load. eapply total_prun with (Q := fun _ _ => True).
  eapply pspecE_catch with (E' := EofM).
  - apply pspecE_convert_io; [left; reflexivity|]. apply ogv_init_spec. apply lin_fuel_gt; lia.
  - intros e [He|He]; subst e; cbn; [reflexivity|]. intros. reflexivity.
Qed.
