(* Path lookups of the MP4 model decomposed: where moov / udta / meta / ilst sit among their siblings, and what
   region (ilst plus the adjacent free atom _find_padding returns) __save_existing replaces. *)
From Coq Require Import ZArith List Bool Lia.
Import ListNotations.
Require Import Base.Py Base.ZList Model.Splice Model.Fam_mp4 Proofs.Fam_mp4_bytes Proofs.Fam_mp4_tree.
Open Scope Z_scope.

Lemma child_split n ks a : mp4_child n ks = Some a ->
  exists pre post, ks = pre ++ a :: post /\ ma_name a = n /\ Forall (fun x => ma_name x <> n) pre.
Proof.
  unfold mp4_child. induction ks as [|k r IH]; intros H; [discriminate|].
  cbn [find] in H. destruct (list_eqb (ma_name k) n) eqn:E.
  - inversion H; subst. exists [], r. apply list_eqb_spec in E. repeat split; auto.
  - destruct (IH H) as (pre & post & -> & Hn & Hp). exists (k :: pre), post. repeat split; auto.
    constructor; [|exact Hp]. intros C. apply list_eqb_spec in C. congruence.
Qed.
Lemma child_of_split n pre a post : ma_name a = n -> Forall (fun x => ma_name x <> n) pre ->
  mp4_child n (pre ++ a :: post) = Some a.
Proof.
  intros Hn Hp. unfold mp4_child. induction Hp as [|k r Hk Hr IH]; cbn [app find].
  - assert (E : list_eqb (ma_name a) n = true) by (apply list_eqb_spec; exact Hn). rewrite E. reflexivity.
  - destruct (list_eqb (ma_name k) n) eqn:E; [apply list_eqb_spec in E; congruence|]. exact IH.
Qed.

Lemma index_split n pre a post : ma_name a = n -> Forall (fun x => ma_name x <> n) pre ->
  mp4_index n (pre ++ a :: post) = Some (length pre).
Proof.
  intros Hn Hp. induction Hp as [|k r Hk Hr IH]; cbn [app mp4_index length].
  - assert (E : list_eqb (ma_name a) n = true) by (apply list_eqb_spec; exact Hn). rewrite E. reflexivity.
  - destruct (list_eqb (ma_name k) n) eqn:E; [apply list_eqb_spec in E; congruence|]. rewrite IH. reflexivity.
Qed.

(* the four levels of moov.udta.meta.ilst *)
Lemma ilst_path_decomp atoms path : mp4_path atoms ILST_PATH = Some path ->
  exists moov udta meta ilst km ku ke,
    path = [moov; udta; meta; ilst] /\
    mp4_child N_moov atoms = Some moov /\ ma_kids moov = Some km /\
    mp4_child N_udta km = Some udta /\ ma_kids udta = Some ku /\
    mp4_child N_meta ku = Some meta /\ ma_kids meta = Some ke /\
    mp4_child N_ilst ke = Some ilst.
Proof.
  unfold ILST_PATH. cbn [mp4_path]. intros H.
  destruct (mp4_child N_moov atoms) as [moov|] eqn:E1; [|discriminate].
  destruct (ma_kids moov) as [km|] eqn:K1; [|discriminate].
  destruct (mp4_child N_udta km) as [udta|] eqn:E2; [|discriminate].
  destruct (ma_kids udta) as [ku|] eqn:K2; [|discriminate].
  destruct (mp4_child N_meta ku) as [meta|] eqn:E3; [|discriminate].
  destruct (ma_kids meta) as [ke|] eqn:K3; [|discriminate].
  destruct (mp4_child N_ilst ke) as [ilst|] eqn:E4; [|discriminate].
  inversion H; subst. exists moov, udta, meta, ilst, km, ku, ke. repeat split; auto.
Qed.

(* a child in a tiled forest: where it starts and what surrounds it *)
Lemma forest_ok_split f top pre a post p e :
  mp4_forest_ok f top (pre ++ a :: post) p e = true ->
  mp4_forest_ok f top pre p (ma_off a) = true /\ mp4_atom_ok f top a = true /\
  mp4_forest_ok f top post (ma_off a + ma_len a) e = true.
Proof.
  intros H. apply forest_ok_app in H. destruct H as (m & H1 & H2).
  apply forest_ok_cons in H2. destruct H2 as (E & H2 & H3). subst m. auto.
Qed.

Lemma nth_error_app_len {A} (l1 : list A) x l2 : nth_error (l1 ++ x :: l2) (length l1) = Some x.
Proof. induction l1; cbn; auto. Qed.
Lemma nth_error_app_len1 {A} (l1 : list A) x l2 : nth_error (l1 ++ x :: l2) (S (length l1)) = nth_error l2 0.
Proof. induction l1; cbn; auto. Qed.
Lemma nth_error_snoc {A} (l1 : list A) p x l2 : nth_error ((l1 ++ [p]) ++ x :: l2) (length l1) = Some p.
Proof. rewrite <- app_assoc. cbn [app]. apply nth_error_app_len. Qed.

(* the replaced region of __save_existing: ilst and at most one directly adjacent free atom *)
Definition next_free_of (post : list mp4_atom) : option mp4_atom :=
  match post with q :: _ => if mp4_is_free q then Some q else None | [] => None end.

Definition prev_free_of (pre : list mp4_atom) : option mp4_atom :=
  match rev pre with p :: _ => if mp4_is_free p then Some p else None | [] => None end.

Lemma find_padding_value meta pre ilst post :
  ma_kids meta = Some (pre ++ ilst :: post) -> ma_name ilst = N_ilst -> Forall (fun x => ma_name x <> N_ilst) pre ->
  mp4_find_padding meta =
  match next_free_of post with
  | Some q => Some q
  | None => prev_free_of pre
  end.
Proof.
  intros Hk Hn Hpre. unfold mp4_find_padding. rewrite Hk. rewrite (index_split _ _ _ _ Hn Hpre).
  assert (Hnext : mp4_next_free (pre ++ ilst :: post) (length pre) = next_free_of post).
  { unfold mp4_next_free, next_free_of. rewrite nth_error_app_len1. destruct post; reflexivity. }
  rewrite Hnext. destruct (next_free_of post); [reflexivity|].
  unfold prev_free_of. destruct (rev pre) as [|p l] eqn:Er.
  - assert (pre = []) by (rewrite <- (rev_involutive pre), Er; reflexivity). subst pre. reflexivity.
  - assert (Ep : pre = rev l ++ [p]) by (rewrite <- (rev_involutive pre), Er; reflexivity).
    subst pre. rewrite app_length. cbn [length]. replace (length (rev l) + 1)%nat with (S (length (rev l))) by lia.
    cbn [mp4_prev_free]. rewrite nth_error_snoc. reflexivity.
Qed.

Inductive region_shape (ilst : mp4_atom) : list mp4_atom -> Prop :=
| RS_alone : region_shape ilst [ilst]
| RS_prev p : mp4_is_free p = true -> region_shape ilst [p; ilst]
| RS_next q : mp4_is_free q = true -> region_shape ilst [ilst; q].

Lemma region_decomp f meta ke ilst moov udta start stop :
  ma_kids meta = Some ke -> mp4_child N_ilst ke = Some ilst ->
  mp4_forest_ok f false ke start stop = true ->
  exists A R B off old,
    ke = A ++ R ++ B /\ region_shape ilst R /\
    mp4_region_of [moov; udta; meta; ilst] = Some (off, old) /\
    mp4_forest_ok f false A start off = true /\
    mp4_forest_ok f false R off (off + old) = true /\
    mp4_forest_ok f false B (off + old) stop = true /\
    Forall (fun x => ma_name x <> N_ilst) A.
Proof.
  intros Hk Hc Hf. destruct (child_split _ _ _ Hc) as (pre & post & -> & Hn & Hpre).
  unfold mp4_region_of. rewrite (find_padding_value _ _ _ _ Hk Hn Hpre).
  destruct (forest_ok_split _ _ _ _ _ _ _ Hf) as (F1 & F2 & F3).
  pose proof (atom_ok_len _ _ _ F2) as Hli.
  unfold next_free_of. destruct post as [|q post'].
  - (* nothing behind ilst: the atom before it, if free *)
    unfold prev_free_of. destruct (rev pre) as [|p l] eqn:Er.
    + exists pre, [ilst], [], (ma_off ilst), (ma_len ilst). repeat split; auto; try constructor.
      apply forest_ok_intro; auto. cbn. apply Z.eqb_refl.
    + assert (Ep : pre = rev l ++ [p]) by (rewrite <- (rev_involutive pre), Er; reflexivity).
      destruct (mp4_is_free p) eqn:Efp.
      * subst pre. apply forest_ok_app in F1. destruct F1 as (m & F1a & F1b).
        apply forest_ok_cons in F1b. destruct F1b as (Eo & F1p & F1n). apply forest_ok_nil in F1n.
        pose proof (atom_ok_len _ _ _ F1p) as Hlp. apply Forall_app in Hpre. destruct Hpre as (HpreA & _).
        exists (rev l), [p; ilst], [], (ma_off p), (ma_len ilst + ma_len p).
        rewrite <- app_assoc. cbn [app]. repeat split; auto.
        -- apply RS_prev; exact Efp.
        -- f_equal. f_equal. lia.
        -- subst m. exact F1a.
        -- apply forest_ok_intro; auto. apply forest_ok_intro; [lia|exact F2|]. cbn. apply Z.eqb_eq. lia.
        -- replace (ma_off p + (ma_len ilst + ma_len p)) with (ma_off ilst + ma_len ilst) by lia. exact F3.
      * exists pre, [ilst], [], (ma_off ilst), (ma_len ilst). repeat split; auto; try constructor.
        apply forest_ok_intro; auto. cbn. apply Z.eqb_refl.
  - apply forest_ok_cons in F3. destruct F3 as (Eo & F3a & F3b). destruct (mp4_is_free q) eqn:Eq.
    + (* the free atom behind ilst wins *)
      exists pre, [ilst; q], post', (ma_off ilst), (ma_len ilst + ma_len q). repeat split; auto.
      * apply RS_next; exact Eq.
      * f_equal. f_equal. lia.
      * apply forest_ok_intro; auto. apply forest_ok_intro; auto. cbn. apply Z.eqb_eq. lia.
      * replace (ma_off ilst + (ma_len ilst + ma_len q)) with (ma_off ilst + ma_len ilst + ma_len q) by lia. exact F3b.
    + unfold prev_free_of. destruct (rev pre) as [|p l] eqn:Er.
      * exists pre, [ilst], (q :: post'), (ma_off ilst), (ma_len ilst). repeat split; auto; try constructor.
        -- apply forest_ok_intro; auto. cbn. apply Z.eqb_refl.
        -- apply forest_ok_intro; auto.
      * assert (Ep : pre = rev l ++ [p]) by (rewrite <- (rev_involutive pre), Er; reflexivity).
        destruct (mp4_is_free p) eqn:Efp.
        -- subst pre. apply forest_ok_app in F1. destruct F1 as (m & F1a & F1b).
           apply forest_ok_cons in F1b. destruct F1b as (Eo' & F1p & F1n). apply forest_ok_nil in F1n.
           pose proof (atom_ok_len _ _ _ F1p) as Hlp. apply Forall_app in Hpre. destruct Hpre as (HpreA & _).
           exists (rev l), [p; ilst], (q :: post'), (ma_off p), (ma_len ilst + ma_len p).
           rewrite <- app_assoc. cbn [app]. repeat split; auto.
           ++ apply RS_prev; exact Efp.
           ++ f_equal. f_equal. lia.
           ++ subst m. exact F1a.
           ++ apply forest_ok_intro; auto. apply forest_ok_intro; [lia|exact F2|]. cbn. apply Z.eqb_eq. lia.
           ++ replace (ma_off p + (ma_len ilst + ma_len p)) with (ma_off ilst + ma_len ilst) by lia.
              apply forest_ok_intro; auto.
        -- exists pre, [ilst], (q :: post'), (ma_off ilst), (ma_len ilst). repeat split; auto; try constructor.
           ++ apply forest_ok_intro; auto. cbn. apply Z.eqb_refl.
           ++ apply forest_ok_intro; auto.
Qed.
