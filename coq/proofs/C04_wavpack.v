(* Proofs.C04_wavpack -- totality of the WavPackInfo mirror; termination of the block walk. *)
From Coq Require Import ZArith List Bool Lia.
Import ListNotations.
Require Import Base.Py Base.ZList Model.Parse_base Model.Parse_wavpack Proofs.C04_lib.
Open Scope Z_scope.

Section WithD.
Variable d : list Z.
Hypothesis Hd : bytes_ok d.
Hypothesis Hlen : zlen d < c04_two62.

Lemma le4_bound l : bytes_ok l -> zlen l = 4 -> 0 <= le_decode l < 4294967296.
Proof. intros H H4. pose proof (le_decode_bound l H) as B. rewrite H4 in B. exact B. Qed.

Lemma py_ord_ok l : zlen l = 1 -> exists x, py_ord l = Ok x.
Proof.
  destruct l as [|x [|y t]]; intro H.
  - rewrite zlen_nil in H. lia.
  - exists x. reflexivity.
  - rewrite !zlen_cons in H. pose proof (zlen_nonneg t). lia.
Qed.

Lemma from_fileobj_spec p : 0 <= p ->
  pspec wv_from_fileobj d p (fun h p' => p' = p + 32 /\ p' <= zlen d /\ 0 <= wh_block_size h < 4294967296).
Proof.
  intro Hp. unfold wv_from_fileobj. apply pspec_convert_io.
  pbind. pread. pose proof (rd_len 32 p d Hp ltac:(lia)) as Hr. set (header := rd 32 p d) in *.
  assert (Hh : bytes_ok header) by (apply bytes_ok_rd; exact Hd).
  destruct (zlen header =? 32) eqn:E1; cbn [negb orb]; [|praiseM]. apply Z.eqb_eq in E1.
  destruct (starts_with wv_magic header); cbn [negb]; [|praiseM].
  pbind. apply pspecE_unpack_le; [rewrite zlen_zslice; lia|].
  pbind. apply pspecE_unpack_le; [rewrite zlen_zslice; lia|].
  destruct (py_ord_ok (zslice 10 11 header)) as (t & ->); [rewrite zlen_zslice; lia|].
  pbind. apply pspecE_lift.
  destruct (py_ord_ok (zslice 11 12 header)) as (ix & ->); [rewrite zlen_zslice; lia|].
  pbind. apply pspecE_lift.
  pbind. apply pspecE_unpack_le; [rewrite zlen_zslice; lia|].
  pbind. apply pspecE_unpack_le; [rewrite zlen_zslice; lia|].
  pbind. apply pspecE_unpack_le; [rewrite zlen_zslice; lia|].
  pbind. apply pspecE_unpack_le; [rewrite zlen_zslice; lia|].
  pbind. apply pspecE_unpack_le; [rewrite zlen_zslice; lia|].
  pretn. cbn [wh_block_size].
  pose proof (le4_bound (zslice 4 8 header) (bytes_ok_zslice _ _ _ Hh) ltac:(rewrite zlen_zslice; lia)).
  lia.
Qed.

Lemma wv_walk_spec : forall fuel h samples p,
  32 <= p <= zlen d -> zlen d - p < Z.of_nat fuel -> 0 <= wh_block_size h < 4294967296 ->
  pspec (wv_walk fuel h samples) d p (fun _ _ => True).
Proof.
  induction fuel as [|fuel IH]; intros h samples p Hp Hf Hb; [lia|].
  cbn [wv_walk]. unfold c04_two62 in Hlen.
  pbind. apply pspecE_seek_rel; unfold c04_two63; try lia.
  rewrite Z.max_r by lia. set (q := p + (wh_block_size h - 32 + 8)).
  pbind. eapply pspecE_post.
  { eapply pspecE_catch with (E' := isM)
      (Q := fun r p' => match r with
                        | None => True
                        | Some h' => p' = q + 32 /\ p' <= zlen d /\ 0 <= wh_block_size h' < 4294967296
                        end).
    - pbind. eapply pspecE_post; [apply (from_fileobj_spec q); lia|].
      intros h' p' (A & B & C). pretn. exact (conj A (conj B C)).
    - intros e He. red in He. subst e. unfold is_mutagen. cbn [exc_eqb]. intros. pretn. exact I. }
  cbv beta. intros [h'|] p'; cbv iota; [|intros _; pretn; exact I].
  intros (A & B & C). apply IH; [lia|lia|exact C].
Qed.

Lemma wv_rates_nonzero r : In r wv_rates -> r <> 0.
Proof. cbn. intros H. repeat (destruct H as [H|H]; [subst; discriminate|]). destruct H. Qed.

Lemma wv_init_spec fuel : zlen d < Z.of_nat fuel -> pspec (wv_init fuel) d 0 (fun _ _ => True).
Proof.
  intro Hf. unfold wv_init. apply pspec_convert_io.
  pbind. apply pspec_catchM. eapply pspecE_weaken; [apply (from_fileobj_spec 0); lia| |].
  { intros e He. left. exact He. }
  intros h p' (A & B & C). cbv beta.
  pbind. apply pspec_catchM. apply pspecE_lift.
  destruct (list_index_cases ((wh_flags h / 8388608) mod 16) wv_rates) as [(r & -> & Hr)| ->]; [|right; reflexivity].
  apply wv_rates_nonzero in Hr.
  set (rate := if (wh_flags h / 2147483648) mod 2 =? 1 then r * 4 else r).
  assert (Hrate : rate <> 0) by (unfold rate; destruct (_ =? 1); lia).
  pbind. eapply pspecE_post with (Q := fun _ _ => True).
  - destruct ((wh_total_samples h =? -1) || negb (wh_block_index h =? 0)).
    + apply wv_walk_spec; [lia|lia|exact C].
    + pretn. exact I.
  - intros samples p2 _. cbv beta. fold rate.
    destruct (rate =? 0) eqn:E0; [apply Z.eqb_eq in E0; contradiction|]. pretn. exact I.
Qed.
End WithD.

Theorem wavpack_total d : c04_input d -> total (wavpack_load d).
Proof.
  intros [Hb Hl]. unfold wavpack_load. eapply total_prun.
  apply (wv_init_spec d Hb Hl). apply lin_fuel_gt; lia.
Qed.
