(* C05 (stage 2) -- AC-3 syncframe, channel modes 1+1, 1/0 (no field between acmod and lfeon) and 3/1, 3/2 (two fields). *)
From Coq Require Import ZArith List Bool Lia.
Import ListNotations.
Require Import Base.Py Base.ZList Model.InfoBase Model.InfoMpeg Model.InfoAc3 Gen.Gen_tables Proofs.C05_bits Proofs.C05_mpeg Proofs.C05_ac3_lib.
Open Scope Z_scope.

Lemma ac3_other_checked : forallb ac3_check (ac3_domain ac3_other_acmods) = true.
Proof. vm_compute. reflexivity. Qed.

Theorem ac3_header_other_modes fscod frmsizecod bsid acmod lfe mix :
  0 <= fscod <= 2 -> 0 <= frmsizecod <= 37 -> 0 <= bsid <= 10 -> In acmod [0; 1; 5; 7] -> 0 <= lfe <= 1 -> In mix [0; 5; 10] ->
  let p := mkAc3 fscod frmsizecod bsid 0 acmod (mix mod 4) ((mix / 4) mod 4) (mix mod 4) lfe 27 in
  exists l, decode_ac3 (build_ac3_frame p) = Ok l /\ firstn 4 l = expected_ac3 p.
Proof.
  intros H1 H2 H3 H4 H5 H6 p. apply ac3_check_true.
  apply (proj1 (forallb_forall ac3_check (ac3_domain ac3_other_acmods)) ac3_other_checked).
  apply ac3_domain_In; assumption.
Qed.
