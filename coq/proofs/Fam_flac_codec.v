(* FLAC family: integer codecs (widths 3 and 4 and general), the Vorbis comment round trip
   vc_parse (vc_render t ++ rest) = Ok (t, rest), and stream-extent lemmas for the blocks mutagen reads by content. *)
From Coq Require Import ZArith List Bool Lia.
Import ListNotations.
Require Import Base.Py Base.ZList Model.Fam_flac.
Open Scope Z_scope.
Ltac Zify.zify_post_hook ::= Z.to_euclidean_division_equations.

(* ------------------------------------------------------------------ integer codecs *)
Lemma zlen_le_encode n v : zlen (le_encode n v) = Z.of_nat n.
Proof. revert v; induction n; intros v; cbn [le_encode]; [reflexivity|]. rewrite zlen_cons, IHn. lia. Qed.
Lemma zlen_be_encode n v : zlen (be_encode n v) = Z.of_nat n.
Proof. unfold be_encode. rewrite zlen_rev. apply zlen_le_encode. Qed.

Lemma le_decode_encode n v : 0 <= v < 256 ^ Z.of_nat n -> le_decode (le_encode n v) = v.
Proof.
  revert v; induction n; intros v Hv.
  - cbn in *. lia.
  - cbn [le_encode le_decode]. rewrite IHn.
    + lia.
    + rewrite Nat2Z.inj_succ, Z.pow_succ_r in Hv by lia. lia.
Qed.

Lemma be_decode_acc_snoc l : forall acc b, be_decode_acc acc (l ++ [b]) = be_decode_acc acc l * 256 + b.
Proof. induction l; intros; cbn [app be_decode_acc]; [reflexivity|]. apply IHl. Qed.
Lemma be_decode_rev l : be_decode (rev l) = le_decode l.
Proof.
  unfold be_decode. induction l; [reflexivity|].
  cbn [rev le_decode]. rewrite be_decode_acc_snoc, IHl. lia.
Qed.
Lemma be_decode_encode n v : 0 <= v < 256 ^ Z.of_nat n -> be_decode (be_encode n v) = v.
Proof. intros. unfold be_encode. rewrite be_decode_rev. apply le_decode_encode; assumption. Qed.

(* the widths the format uses *)
Lemma le32_round v : 0 <= v < U32 -> le_decode (le_encode 4 v) = v.
Proof. intros. apply le_decode_encode. unfold U32 in *. cbn. lia. Qed.
Lemma be24_round v : 0 <= v <= MAXSZ -> be_decode (be_encode 3 v) = v.
Proof. intros. apply be_decode_encode. unfold MAXSZ in *. cbn. lia. Qed.
Lemma be32_round v : 0 <= v < U32 -> be_decode (be_encode 4 v) = v.
Proof. intros. apply be_decode_encode. unfold U32 in *. cbn. lia. Qed.

Lemma le_encode_bytes n v : forallb is_byte (le_encode n v) = true.
Proof.
  revert v; induction n; intros v; cbn [le_encode forallb]; [reflexivity|].
  rewrite IHn, andb_true_r. unfold is_byte. lia.
Qed.

(* three explicit bytes *)
Lemma be_encode3_shape n : exists s1 s2 s3, be_encode 3 n = [s1; s2; s3] /\
  is_byte s1 = true /\ is_byte s2 = true /\ is_byte s3 = true.
Proof.
  unfold be_encode. cbn [le_encode rev app]. do 3 eexists. split; [reflexivity|].
  unfold is_byte. repeat split; lia.
Qed.
Lemma be_decode3 a b c : be_decode [a; b; c] = (a * 256 + b) * 256 + c.
Proof. unfold be_decode. cbn [be_decode_acc]. lia. Qed.
Lemma be_encode3_decode a b c : is_byte a = true -> is_byte b = true -> is_byte c = true ->
  be_encode 3 (be_decode [a; b; c]) = [a; b; c] /\ 0 <= be_decode [a; b; c] <= MAXSZ.
Proof.
  unfold is_byte, MAXSZ. intros Ha Hb Hc. rewrite be_decode3.
  unfold be_encode. cbn [le_encode rev app].
  split; [|lia]. f_equal; [|f_equal; [|f_equal]]; lia.
Qed.

(* ------------------------------------------------------------------ Vorbis comment round trip *)
Definition key_no_eq (k : list Z) : bool := negb (existsb (Z.eqb 61) k).
Definition keys_no_eq (t : vc) : bool := forallb (fun kv => key_no_eq (fst kv)) (comments t).

Lemma valid_key_no_eq k : valid_key k = true -> key_no_eq k = true.
Proof.
  unfold valid_key, key_no_eq. destruct k as [|c k]; [discriminate|].
  generalize (c :: k) as l. induction l as [|x l IH]; cbn [forallb existsb]; [reflexivity|].
  intros H. apply andb_true_iff in H as [H1 H2]. specialize (IH H2).
  unfold valid_key_char in H1. apply negb_true_iff in IH. rewrite IH, orb_false_r.
  destruct (61 =? x) eqn:E; [|reflexivity]. apply Z.eqb_eq in E. subst x. cbn in H1. discriminate.
Qed.
Lemma vc_valid_no_eq t : vc_valid t = true -> keys_no_eq t = true.
Proof.
  unfold vc_valid, keys_no_eq. induction (comments t) as [|kv l IH]; cbn [forallb]; [reflexivity|].
  intros H. apply andb_true_iff in H as [H1 H2]. rewrite (valid_key_no_eq _ H1), (IH H2). reflexivity.
Qed.

Lemma split_eq_render k v : key_no_eq k = true -> split_eq (k ++ [61] ++ v) = Some (k, v).
Proof.
  unfold key_no_eq. induction k as [|c k IH]; cbn [existsb app split_eq]; intros H.
  - reflexivity.
  - apply negb_true_iff, orb_false_iff in H as [H1 H2].
    replace (c =? 61) with false by (rewrite Z.eqb_sym; symmetry; exact H1).
    cbn [app] in IH. rewrite IH; [reflexivity|]. apply negb_true_iff. exact H2.
Qed.

Lemma zlen_render_comment kv : zlen (render_comment kv) = 4 + (zlen (fst kv) + 1 + zlen (snd kv)).
Proof. unfold render_comment. cbv zeta. rewrite !zlen_app, zlen_le_encode, zlen_cons, zlen_nil. lia. Qed.
Lemma zlen_render_comments_ge cs : 4 * zlen cs <= zlen (flat_map render_comment cs).
Proof.
  induction cs as [|kv cs IH]; cbn [flat_map]; [unfold zlen; cbn [length]; lia|].
  rewrite zlen_app, zlen_cons, zlen_render_comment.
  pose proof (zlen_nonneg (fst kv)); pose proof (zlen_nonneg (snd kv)). lia.
Qed.

Definition comment_fits (kv : comment) : bool := zlen (fst kv) + 1 + zlen (snd kv) <? U32.

Lemma take4 (a b : list Z) : zlen a = 4 -> ztake 4 (a ++ b) = a.
Proof. intros H. rewrite <- H. apply ztake_app_exact. Qed.
Lemma drop4 (a b : list Z) : zlen a = 4 -> zdrop 4 (a ++ b) = b.
Proof. intros H. rewrite <- H. apply zdrop_app_exact. Qed.

Lemma vc_items_render cs : forall rest,
  forallb (fun kv => key_no_eq (fst kv)) cs = true -> forallb comment_fits cs = true ->
  vc_items (length cs) (flat_map render_comment cs ++ rest) = Ok (cs, rest).
Proof.
  induction cs as [|[k v] cs IH]; intros rest Hk Hf; cbn [length flat_map]; [reflexivity|].
  cbn [forallb fst snd] in Hk, Hf. apply andb_true_iff in Hk as [Hk1 Hk2]. apply andb_true_iff in Hf as [Hf1 Hf2].
  unfold comment_fits in Hf1. cbn [fst snd] in Hf1.
  assert (Hrc : render_comment (k, v) = le_encode 4 (zlen (k ++ [61] ++ v)) ++ (k ++ [61] ++ v)) by reflexivity.
  rewrite Hrc. clear Hrc. set (c := k ++ [61] ++ v). cbn [vc_items].
  assert (Hc : zlen c = zlen k + 1 + zlen v) by (unfold c; rewrite !zlen_app, zlen_cons, zlen_nil; lia).
  pose proof (zlen_nonneg k); pose proof (zlen_nonneg v).
  rewrite <- !app_assoc.
  assert (H4 : zlen (le_encode 4 (zlen c)) = 4) by apply zlen_le_encode.
  destruct (zlen (le_encode 4 (zlen c) ++ c ++ flat_map render_comment cs ++ rest) <? 4) eqn:E.
  { rewrite zlen_app, H4 in E. pose proof (zlen_nonneg (c ++ flat_map render_comment cs ++ rest)). lia. }
  rewrite take4, drop4 by exact H4. rewrite le32_round by lia.
  destruct ((zlen c <? 0) || (zlen (c ++ flat_map render_comment cs ++ rest) <? zlen c)) eqn:E2.
  { rewrite zlen_app in E2. pose proof (zlen_nonneg (flat_map render_comment cs ++ rest)). lia. }
  rewrite ztake_app_exact, zdrop_app_exact. unfold c at 1. rewrite split_eq_render by exact Hk1.
  rewrite IH by assumption. reflexivity.
Qed.

Lemma zlen_vc_render t : zlen (vc_render t) = 8 + zlen (vendor t) + zlen (flat_map render_comment (comments t)).
Proof. unfold vc_render. rewrite !zlen_app, !zlen_le_encode. lia. Qed.

Theorem vc_parse_render t rest : keys_no_eq t = true -> vc_fits32 t = true ->
  vc_parse (vc_render t ++ rest) = Ok (t, rest).
Proof.
  destruct t as [vd cs]. unfold keys_no_eq, vc_fits32, vc_render. cbn [vendor comments]. intros Hk Hf.
  apply andb_true_iff in Hf as [Hf Hf3]. apply andb_true_iff in Hf as [Hf1 Hf2].
  pose proof (zlen_nonneg vd); pose proof (zlen_nonneg cs).
  pose proof (zlen_render_comments_ge cs) as Hge.
  unfold vc_parse. rewrite <- !app_assoc.
  assert (H4 : forall x, zlen (le_encode 4 x) = 4) by (intros; apply zlen_le_encode).
  set (tail := flat_map render_comment cs ++ rest).
  assert (Ht : 4 * zlen cs <= zlen tail).
  { unfold tail. rewrite zlen_app. pose proof (zlen_nonneg rest). lia. }
  destruct (zlen (le_encode 4 (zlen vd) ++ vd ++ le_encode 4 (zlen cs) ++ tail) <? 4) eqn:E.
  { rewrite zlen_app, H4 in E. pose proof (zlen_nonneg (vd ++ le_encode 4 (zlen cs) ++ tail)). lia. }
  rewrite take4, drop4 by apply H4. rewrite le32_round by lia.
  destruct ((zlen vd <? 0) || (zlen (vd ++ le_encode 4 (zlen cs) ++ tail) <? zlen vd + 4)) eqn:E2.
  { rewrite !zlen_app, H4 in E2. lia. }
  rewrite ztake_app_exact, zdrop_app_exact. rewrite take4, drop4 by apply H4. rewrite le32_round by lia.
  destruct ((zlen cs <? 0) || (zlen tail <? 4 * zlen cs)) eqn:E3; [lia|].
  unfold zlen at 1. rewrite Nat2Z.id. unfold tail.
  rewrite vc_items_render; [reflexivity|exact Hk|exact Hf3].
Qed.

(* ------------------------------------------------------------------ extents: reading a block by content *)
Lemma vc_skip_app n : forall p r u v, vc_skip n p u = Ok v -> vc_skip n (p ++ r) u = Ok v.
Proof.
  induction n as [|n IH]; intros p r u v; cbn [vc_skip]; [auto|].
  destruct (zlen p <? 4) eqn:E1; [discriminate|].
  assert (Hp4 : 4 <= zlen p) by lia.
  assert (Ht : ztake 4 (p ++ r) = ztake 4 p) by (apply ztake_app_l; lia).
  assert (Hd : zdrop 4 (p ++ r) = zdrop 4 p ++ r) by (apply zdrop_app_l; lia).
  rewrite Ht, Hd.
  destruct ((le_decode (ztake 4 p) <? 0) || (zlen (zdrop 4 p) <? le_decode (ztake 4 p))) eqn:E2; [discriminate|].
  intros H.
  replace (zlen (p ++ r) <? 4) with false by (rewrite zlen_app; pose proof (zlen_nonneg r); lia).
  replace ((le_decode (ztake 4 p) <? 0) || (zlen (zdrop 4 p ++ r) <? le_decode (ztake 4 p))) with false
    by (rewrite zlen_app; pose proof (zlen_nonneg r); lia).
  rewrite zdrop_app_l by lia. apply IH. exact H.
Qed.

Lemma vc_extent_app p r n : vc_extent p = Ok n -> vc_extent (p ++ r) = Ok n.
Proof.
  unfold vc_extent. pose proof (zlen_nonneg r) as Hr.
  destruct (zlen p <? 4) eqn:E1; [discriminate|].
  assert (Ht : ztake 4 (p ++ r) = ztake 4 p) by (apply ztake_app_l; lia).
  assert (Hd : zdrop 4 (p ++ r) = zdrop 4 p ++ r) by (apply zdrop_app_l; lia).
  rewrite Ht, Hd. set (vl := le_decode (ztake 4 p)).
  destruct ((vl <? 0) || (zlen (zdrop 4 p) <? vl + 4)) eqn:E2; [discriminate|].
  replace (zlen (p ++ r) <? 4) with false by (rewrite zlen_app; lia).
  replace ((vl <? 0) || (zlen (zdrop 4 p ++ r) <? vl + 4)) with false by (rewrite zlen_app; lia).
  rewrite (zdrop_app_l vl) by lia.
  set (d2 := zdrop vl (zdrop 4 p)).
  assert (Hd2 : zlen d2 = zlen (zdrop 4 p) - vl) by (unfold d2; rewrite zlen_zdrop by lia; lia).
  rewrite (ztake_app_l 4 d2) by lia. rewrite (zdrop_app_l 4 d2) by lia.
  set (cnt := le_decode (ztake 4 d2)).
  destruct ((cnt <? 0) || (zlen (zdrop 4 d2) <? 4 * cnt)) eqn:E3; [discriminate|].
  replace ((cnt <? 0) || (zlen (zdrop 4 d2 ++ r) <? 4 * cnt)) with false by (rewrite zlen_app; lia).
  apply vc_skip_app.
Qed.

Lemma vc_skip_render cs : forall u, forallb comment_fits cs = true ->
  vc_skip (length cs) (flat_map render_comment cs) u = Ok (u + zlen (flat_map render_comment cs)).
Proof.
  induction cs as [|[k v] cs IH]; intros u Hf; cbn [length flat_map].
  - cbn [vc_skip]. f_equal. unfold zlen. cbn [length]. lia.
  - cbn [forallb] in Hf. apply andb_true_iff in Hf as [Hf1 Hf2].
    unfold comment_fits in Hf1. cbn [fst snd] in Hf1.
    assert (Hrc : render_comment (k, v) = le_encode 4 (zlen (k ++ [61] ++ v)) ++ (k ++ [61] ++ v)) by reflexivity.
    rewrite Hrc. clear Hrc. set (c := k ++ [61] ++ v). cbn [vc_skip].
    assert (Hc : zlen c = zlen k + 1 + zlen v) by (unfold c; rewrite !zlen_app, zlen_cons, zlen_nil; lia).
    pose proof (zlen_nonneg k); pose proof (zlen_nonneg v).
    rewrite <- !app_assoc.
    assert (H4 : zlen (le_encode 4 (zlen c)) = 4) by apply zlen_le_encode.
    destruct (zlen (le_encode 4 (zlen c) ++ c ++ flat_map render_comment cs) <? 4) eqn:E.
    { rewrite zlen_app, H4 in E. pose proof (zlen_nonneg (c ++ flat_map render_comment cs)). lia. }
    rewrite take4, drop4 by exact H4. rewrite le32_round by lia.
    destruct ((zlen c <? 0) || (zlen (c ++ flat_map render_comment cs) <? zlen c)) eqn:E2.
    { rewrite zlen_app in E2. pose proof (zlen_nonneg (flat_map render_comment cs)). lia. }
    rewrite zdrop_app_exact. rewrite IH by exact Hf2. f_equal.
    rewrite !zlen_app, H4. lia.
Qed.

Theorem vc_extent_render t : vc_fits32 t = true -> vc_extent (vc_render t) = Ok (zlen (vc_render t)).
Proof.
  intros Hf. rewrite zlen_vc_render. destruct t as [vd cs]. unfold vc_fits32, vc_render in *. cbn [vendor comments] in *.
  apply andb_true_iff in Hf as [Hf Hf3]. apply andb_true_iff in Hf as [Hf1 Hf2].
  pose proof (zlen_nonneg vd); pose proof (zlen_nonneg cs).
  pose proof (zlen_render_comments_ge cs) as Hge.
  unfold vc_extent.
  assert (H4 : forall x, zlen (le_encode 4 x) = 4) by (intros; apply zlen_le_encode).
  set (tail := flat_map render_comment cs) in *.
  destruct (zlen (le_encode 4 (zlen vd) ++ vd ++ le_encode 4 (zlen cs) ++ tail) <? 4) eqn:E.
  { rewrite zlen_app, H4 in E. pose proof (zlen_nonneg (vd ++ le_encode 4 (zlen cs) ++ tail)). lia. }
  rewrite take4, drop4 by apply H4. rewrite le32_round by lia.
  destruct ((zlen vd <? 0) || (zlen (vd ++ le_encode 4 (zlen cs) ++ tail) <? zlen vd + 4)) eqn:E2.
  { rewrite !zlen_app, H4 in E2. lia. }
  rewrite zdrop_app_exact. rewrite take4, drop4 by apply H4. rewrite le32_round by lia.
  destruct ((zlen cs <? 0) || (zlen tail <? 4 * zlen cs)) eqn:E3; [lia|].
  unfold zlen at 1. rewrite Nat2Z.id. unfold tail. rewrite vc_skip_render by exact Hf3. try (f_equal; lia).
Qed.

Lemma pic_extent_app p r n : pic_extent p = Ok n -> pic_extent (p ++ r) = Ok n.
Proof.
  unfold pic_extent, zslice. pose proof (zlen_nonneg r) as Hr.
  destruct (zlen p <? 8) eqn:E1; [discriminate|].
  replace (zlen (p ++ r) <? 8) with false by (rewrite zlen_app; lia).
  rewrite (zdrop_app_l 4 p) by lia. rewrite (zdrop_app_l 8 p) by lia.
  rewrite (ztake_app_l (8 - 4)) by (rewrite zlen_zdrop by lia; lia).
  set (l1 := be_decode (ztake (8 - 4) (zdrop 4 p))). set (d1 := zdrop 8 p).
  destruct ((l1 <? 0) || (zlen d1 <? l1 + 4)) eqn:E2; [discriminate|].
  replace ((l1 <? 0) || (zlen (d1 ++ r) <? l1 + 4)) with false by (rewrite zlen_app; lia).
  rewrite (zdrop_app_l l1 d1) by lia.
  set (d1' := zdrop l1 d1).
  assert (Hd1' : zlen d1' = zlen d1 - l1) by (unfold d1'; rewrite zlen_zdrop by lia; lia).
  rewrite (ztake_app_l 4 d1') by lia. rewrite (zdrop_app_l 4 d1') by lia.
  set (l2 := be_decode (ztake 4 d1')). set (d2 := zdrop 4 d1').
  destruct ((l2 <? 0) || (zlen d2 <? l2 + 20)) eqn:E3; [discriminate|].
  replace ((l2 <? 0) || (zlen (d2 ++ r) <? l2 + 20)) with false by (rewrite zlen_app; lia).
  rewrite (zdrop_app_l l2 d2) by lia.
  set (d2' := zdrop l2 d2).
  assert (Hd2' : zlen d2' = zlen d2 - l2) by (unfold d2'; rewrite zlen_zdrop by lia; lia).
  rewrite (zdrop_app_l 16 d2') by lia. rewrite (zdrop_app_l 20 d2') by lia.
  rewrite (ztake_app_l (20 - 16)) by (rewrite zlen_zdrop by lia; lia).
  set (l3 := be_decode (ztake (20 - 16) (zdrop 16 d2'))). set (d3 := zdrop 20 d2').
  destruct ((l3 <? 0) || (zlen d3 <? l3)) eqn:E4; [discriminate|].
  replace ((l3 <? 0) || (zlen (d3 ++ r) <? l3)) with false by (rewrite zlen_app; lia).
  auto.
Qed.
