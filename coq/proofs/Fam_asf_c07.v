(* ASF family, C07: idempotence of save for every valid tag list (no hypothesis on loadability left) and reopening. *)
From Coq Require Import ZArith List Bool Lia.
Import ListNotations.
Require Import Base.Py Base.ZList Model.Fam_asf Proofs.Fam_asf_codec Proofs.Fam_asf_save Proofs.Fam_asf_agree
  Proofs.Fam_asf_attr Proofs.Fam_asf_reopen Proofs.Fam_asf_c01 Proofs.Fam_asf_mirror Proofs.Fam_asf_hist Proofs.Fam_asf_pad.
Open Scope Z_scope.

Lemma save_loadable f t cb f' : Forall mvalid_attr t -> asf_save f t cb = Ok f' -> place_loadable (place t) = true.
Proof.
  intros Hv H. destruct (asf_save_form _ _ _ _ H) as (objs & ts & _ & _ & Hpp & _).
  apply place_loadable_valid; assumption.
Qed.

Theorem asf_save_default_twice_valid f t f1 : 0 <= header_size f -> Forall mvalid_attr t ->
  asf_save f t cb_default = Ok f1 -> asf_save f1 t cb_default = Ok f1.
Proof.
  intros H0 Hv H. apply (asf_save_default_twice f t f1 H0 H). eapply save_loadable; eassumption.
Qed.

Theorem asf_save_again_valid f t cb f1 t' cb' : 0 <= header_size f -> Forall mvalid_attr t -> asf_save f t cb = Ok f1 ->
  place t' = place t ->
  (forall p s, asf_info f t = Ok (p, s) -> cb' (Z.max 0 (cb p s)) s = Z.max 0 (cb p s)) ->
  asf_save f1 t' cb' = Ok f1.
Proof.
  intros H0 Hv H Hpl Hcb. eapply save_again; try eassumption. eapply save_loadable; eassumption.
Qed.

Theorem asf_save_reopens_valid f t cb f' : Forall mvalid_attr t -> asf_save f t cb = Ok f' ->
  exists objs ts, asf_open f = Ok (objs, ts) /\
    asf_open f' = Ok (save_tree f objs t cb, gather (objs_tags (save_tree f objs t cb))).
Proof. intros Hv H. apply asf_save_reopens; [exact H|]. eapply save_loadable; eassumption. Qed.
