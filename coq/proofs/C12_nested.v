(* C12: nested frames (CHAP / CTOC sub_frames).  ID3FramesSpec.read inverts ID3FramesSpec.write at every
   nesting depth; hence the frame and tag round trips hold with the real nested reader/writer plugged in. *)
From Coq Require Import ZArith List Bool Lia.
Import ListNotations.
Require Import Base.Py Base.ZList Model.Id3Spec Model.Id3Frame
  Proofs.C12_ints Proofs.C12_codec Proofs.C12_specs Proofs.C12_specs2 Proofs.C12_frame Proofs.C12_tag.
Open Scope Z_scope.

(* every class of the table has a composable spec list and a proper four-character id *)
Definition table_ok (tbl : list frame_desc) : bool := forallb (fun fr => spec_list_ok fr && id_ok (fr_id fr)) tbl.

Lemma lookup_in tbl id fr : frame_lookup tbl id = Some fr -> In fr tbl /\ fr_id fr = id.
Proof.
  induction tbl as [|g tbl IH]; [discriminate|]. cbn [frame_lookup]. destruct (list_eqb (fr_id g) id) eqn:E.
  - intros H; inversion H; subst. split; [left; reflexivity|]. apply list_eqb_spec. exact E.
  - intros H. destruct (IH H) as [A B]. split; [right; exact A|exact B].
Qed.

Section Nested.
Variable tbl22 tbl : list frame_desc.
Variable ver : Z.
Hypothesis Hver : ver = 3 \/ ver = 4.
Hypothesis Htbl : table_ok tbl = true.

Definition entries (l : list value) : list (frame_desc * list value) :=
  flat_map (fun e => match e with
                     | VList [VBytes id; VList vs] => match frame_lookup tbl id with Some fr => [(fr, vs)] | None => [] end
                     | _ => []
                     end) l.

Definition elem_ok (d' : nat) (e : value) : bool :=
  match e with
  | VList [VBytes id; VList vs] =>
    match frame_lookup tbl id with
    | Some fr => frame_valid (tag_write tbl22 tbl ver d') (tag_valid tbl22 tbl ver d') ver fr vs &&
                 match save_frame (tag_write tbl22 tbl ver d') ver fr vs with
                 | Ok b => 10 <? zlen b
                 | Raise _ => false
                 end
    | None => false
    end
  | _ => false
  end.

Lemma tag_valid_S d' v : tag_valid tbl22 tbl ver (S d') v = true ->
  exists l, v = VList l /\ forallb (elem_ok d') l = true /\
            match tag_write tbl22 tbl ver (S d') v with Ok b => (ver <? 4) || determine_bpi tbl b | Raise _ => false end = true.
Proof.
  cbn [tag_valid]. destruct v as [| | |l]; try discriminate. intros H.
  apply andb_true_iff in H as [H Hb]. apply andb_true_iff in H as [_ Hl]. exists l. split; [reflexivity|]. split; [|exact Hb].
  rewrite forallb_forall in Hl |- *. intros e He. specialize (Hl e He). unfold elem_ok.
  destruct e as [| | |[|[| |id|] [|[| | |vs] [|]]]]; try discriminate. exact Hl.
Qed.

Lemma tbl_is : (if ver <? 3 then tbl22 else tbl) = tbl.
Proof. destruct Hver as [E|E]; rewrite E; reflexivity. Qed.

Lemma entries_ok d' (IH : forall v, tag_valid tbl22 tbl ver d' v = true ->
                          exists b, tag_write tbl22 tbl ver d' v = Ok b /\ sub_of tbl22 tbl ver d' false b = Ok (v, [])) :
  forall l, forallb (elem_ok d') l = true ->
  Forall (entry_ok (tag_write tbl22 tbl ver d') (tag_valid tbl22 tbl ver d') ver tbl) (entries l) /\
  map loaded_value (map loaded_of (entries l)) = l /\
  exists bs, rmapM (saved (tag_write tbl22 tbl ver d') ver) (entries l) = Ok bs /\
             tag_write tbl22 tbl ver (S d') (VList l) = Ok (concat bs).
Proof.
  induction l as [|e l IHl]; intros H.
  - split; [constructor|]. split; [reflexivity|]. exists []. split; reflexivity.
  - cbn [forallb] in H. apply andb_true_iff in H as [He Hl]. destruct (IHl Hl) as (F & M & bs & R & W).
    unfold elem_ok in He. destruct e as [| | |[|[| |id|] [|[| | |vs] [|]]]]; try discriminate.
    destruct (frame_lookup tbl id) as [fr|] eqn:Lk; [|discriminate].
    apply andb_true_iff in He as [Hv Hs].
    destruct (save_frame (tag_write tbl22 tbl ver d') ver fr vs) as [b|] eqn:Sv; [|discriminate]. apply Z.ltb_lt in Hs.
    destruct (lookup_in tbl id fr Lk) as [Hin Hid].
    unfold table_ok in Htbl. pose proof (forallb_In _ _ _ Htbl Hin) as Hfr. apply andb_true_iff in Hfr as [Hok Hidok].
    assert (En : entries (VList [VBytes id; VList vs] :: l) = (fr, vs) :: entries l).
    { unfold entries. cbn [flat_map]. rewrite Lk. reflexivity. }
    rewrite En. split; [|split].
    + constructor; [|exact F]. unfold entry_ok. cbn [fst snd]. rewrite Hid.
      split; [exact Hok|]. split; [rewrite <- Hid; exact Hidok|]. split; [exact Lk|]. split; [exact Hv|].
      exists b. split; [exact Sv|exact Hs].
    + cbn [map]. rewrite M. unfold loaded_of, loaded_value. cbn [fst snd]. rewrite Hid. reflexivity.
    + exists (b :: bs). split.
      * cbn [rmapM]. unfold saved at 1. cbn [fst snd]. rewrite Sv, R. reflexivity.
      * cbn [tag_write as_list rbind] in W |- *. unfold rconcat in W |- *. cbn [rmapM as_loaded rbind fst snd] in W |- *.
        rewrite tbl_is in W |- *. rewrite Lk, Sv.
        destruct (rmapM _ l) as [ys|]; [|discriminate]. cbn [rmap] in W |- *. inversion W as [H0]. cbn [concat]. rewrite H0. reflexivity.
Qed.

Theorem nested_roundtrip : forall d v, tag_valid tbl22 tbl ver d v = true ->
  exists b, tag_write tbl22 tbl ver d v = Ok b /\ sub_of tbl22 tbl ver d false b = Ok (v, []).
Proof.
  induction d as [|d' IH]; intros v Hv; [discriminate|].
  destruct (tag_valid_S d' v Hv) as (l & -> & Hl & Hb).
  destruct (entries_ok d' IH l Hl) as (F & M & bs & R & W).
  exists (concat bs). split; [exact W|]. rewrite W in Hb.
  assert (Hbpi : ver = 4 -> determine_bpi tbl (concat bs) = true).
  { intros E. rewrite E in Hb. exact Hb. }
  pose proof (tag_roundtrip (sub_of tbl22 tbl ver d' false) (tag_write tbl22 tbl ver d') (tag_valid tbl22 tbl ver d') ver
                            IH Hver tbl22 tbl (entries l) bs F R Hbpi) as T.
  unfold sub_of at 1. unfold nested_gunsync. cbn [tag_read].
  change (fun x => match tag_read tbl22 tbl ver d' (nested_gunsync ver false) x with
                   | Ok p => Ok (VList (map loaded_value (p_frames p)), p_rest p)
                   | Raise e => Raise e
                   end) with (sub_of tbl22 tbl ver d' false).
  rewrite T. cbn [p_frames p_rest]. rewrite M. reflexivity.
Qed.

(* the entry points of the model with the real nested reader / writer *)
Theorem frame_roundtrip_d d g fr vs :
  spec_list_ok fr = true -> frame_valid_d tbl22 tbl ver d fr vs = true ->
  exists b, frame_write_d tbl22 tbl ver d fr vs = Ok b /\ frame_read_d tbl22 tbl ver d g fr b = Ok (vs, []).
Proof.
  intros Hok Hv. unfold frame_valid_d, frame_write_d, frame_read_d in *.
  change (sub_of tbl22 tbl ver d g) with (sub_of tbl22 tbl ver d false).
  apply (frame_roundtrip (sub_of tbl22 tbl ver d false) (tag_write tbl22 tbl ver d) (tag_valid tbl22 tbl ver d) ver
                         (nested_roundtrip d) fr vs Hok Hv).
Qed.

Theorem tag_roundtrip_d d xs bs :
  Forall (entry_ok (tag_write tbl22 tbl ver d) (tag_valid tbl22 tbl ver d) ver tbl) xs ->
  rmapM (saved (tag_write tbl22 tbl ver d) ver) xs = Ok bs ->
  (ver = 4 -> determine_bpi tbl (concat bs) = true) ->
  tag_read tbl22 tbl ver (S d) false (concat bs) = Ok (mkParsed (map loaded_of xs) [] []).
Proof.
  intros F R B. cbn [tag_read].
  change (fun x => match tag_read tbl22 tbl ver d (nested_gunsync ver false) x with
                   | Ok p => Ok (VList (map loaded_value (p_frames p)), p_rest p)
                   | Raise e => Raise e
                   end) with (sub_of tbl22 tbl ver d false).
  apply (tag_roundtrip (sub_of tbl22 tbl ver d false) (tag_write tbl22 tbl ver d) (tag_valid tbl22 tbl ver d) ver
                       (nested_roundtrip d) Hver tbl22 tbl xs bs F R B).
Qed.
End Nested.
