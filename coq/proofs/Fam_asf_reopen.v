(* ASF family: mutagen's reader (the mirror asf_open) on a file that asf_save wrote; the object list of a saved file
   is a fixed point of the re-rendering; saving again with the same placement and a callback that keeps the padding
   reproduces the file byte for byte (C07, C08: second delete). *)
From Coq Require Import ZArith List Bool Lia.
Import ListNotations.
Require Import Base.Py Base.ZList Model.Splice Model.Fam_asf Proofs.Fam_asf_codec Proofs.Fam_asf_save Proofs.Fam_asf_agree.
Open Scope Z_scope.

(* ------------------------------------------------------------------ what the mirror reader demands of each object *)
Definition leaf_tags (g d : list Z) : list (Z * attr) := match mut_leaf g d with Ok ts => ts | Raise _ => [] end.
Definition raws_tags (ch : list rawobj) : list (Z * attr) := flat_map (fun c => leaf_tags (fst c) (snd c)) ch.
Definition obj_tags (o : obj) : list (Z * attr) :=
  match o with OLeaf g d => leaf_tags g d | OExt _ ch => raws_tags ch end.
Definition objs_tags (l : list obj) : list (Z * attr) := flat_map obj_tags l.

Definition raw_loadable (c : rawobj) : Prop := is_hext (fst c) = false /\ is_ok (mut_leaf (fst c) (snd c)) = true.
Definition obj_loadable (o : obj) : Prop :=
  match o with OLeaf g d => is_ok (mut_leaf g d) = true | OExt _ ch => Forall raw_loadable ch end.
(* the same, with nothing demanded of the payload of a tag object (it is about to be re-rendered) *)
Definition raw_preload (c : rawobj) : Prop :=
  is_hext (fst c) = false /\ (is_some (tagcls (fst c)) = true \/ is_ok (mut_leaf (fst c) (snd c)) = true).
Definition obj_preload (o : obj) : Prop :=
  match o with
  | OLeaf g d => is_some (tagcls g) = true \/ is_ok (mut_leaf g d) = true
  | OExt _ ch => Forall raw_preload ch end.

Lemma leaf_tags_ok g d : is_ok (mut_leaf g d) = true -> mut_leaf g d = Ok (leaf_tags g d).
Proof. unfold leaf_tags. destruct (mut_leaf g d); [reflexivity|discriminate]. Qed.

Lemma mut_children_loadable : forall fuel d rem ch ts,
  mut_children fuel d rem = Ok (ch, ts) -> Forall raw_loadable ch.
Proof.
  induction fuel as [|k IH]; intros d rem ch ts H; [discriminate|].
  cbn [mut_children] in H.
  destruct (rem <=? 0); [inversion H; constructor|].
  destruct (zlen d <? 24) eqn:E1; [discriminate|].
  destruct (le_decode (zslice 16 24 d) <? 1); [discriminate|].
  destruct (is_hext (ztake 16 d)) eqn:Eh; [discriminate|].
  destruct (mut_leaf _ _) eqn:El; [|discriminate].
  destruct (mut_children k _ _) as [[ch' ts']|] eqn:E; [|discriminate].
  inversion H; subst. constructor; [|eapply IH; eassumption].
  split; cbn [fst snd]; [exact Eh|rewrite El; reflexivity].
Qed.
Lemma mut_objects_loadable : forall n more d rem objs ts,
  mut_objects n more d rem = Ok (objs, ts) -> Forall obj_loadable objs.
Proof.
  induction n as [|k IH]; intros more d rem objs ts H; cbn [mut_objects] in H.
  - destruct more; [discriminate|]. inversion H; constructor.
  - destruct (rem <? 24); [discriminate|].
    destruct (zlen d <? 24) eqn:E1; [discriminate|].
    destruct (rem - 24 <? le_decode (zslice 16 24 d) - 24); [discriminate|].
    destruct ((le_decode (zslice 16 24 d) - 24 <? 0) || _); [discriminate|].
    destruct (is_hext (ztake 16 d)) eqn:Eh.
    + destruct (mut_ext _) as [[o ts0]|] eqn:Ee; [|discriminate].
      destruct (mut_objects k _ _ _) as [[os ts']|] eqn:Er; [|discriminate].
      inversion H; subst. constructor; [|eapply IH; eassumption].
      unfold mut_ext in Ee. destruct (zlen _ <? 22); [discriminate|].
      destruct (mut_children _ _ _) as [[ch tsc]|] eqn:Ec; [|discriminate].
      inversion Ee; subst. cbn [obj_loadable]. eapply mut_children_loadable; eassumption.
    + destruct (mut_leaf _ _) eqn:El; [|discriminate].
      destruct (mut_objects k _ _ _) as [[os ts']|] eqn:Er; [|discriminate].
      inversion H; subst. constructor; [|eapply IH; eassumption].
      cbn [obj_loadable]. rewrite El. reflexivity.
Qed.
Lemma asf_open_loadable f objs ts : asf_open f = Ok (objs, ts) -> Forall obj_loadable objs.
Proof.
  unfold asf_open. destruct (_ || _); [discriminate|].
  destruct (mut_objects _ _ _ _) as [[os ts']|] eqn:E; [|discriminate].
  intros H; inversion H; subst. eapply mut_objects_loadable; eassumption.
Qed.

(* ------------------------------------------------------------------ the mirror reader on rendered objects *)
Lemma mut_children_render : forall ch fuel, Forall raw_shaped ch -> Forall raw_loadable ch ->
  forallb raw_packs ch = true -> (length (render_raws ch) < fuel)%nat ->
  mut_children fuel (render_raws ch) (zlen (render_raws ch)) = Ok (ch, raws_tags ch).
Proof.
  induction ch as [|c ch IH]; intros fuel Hs Hl Hp Hf.
  - destruct fuel; [cbn in Hf; lia|]. reflexivity.
  - inversion Hs as [|? ? Hc Hs']; subst. inversion Hl as [|? ? Hlc Hl']; subst.
    cbn [forallb] in Hp. apply andb_true_iff in Hp as [Hp1 Hp2].
    destruct fuel as [|k]; [lia|]. rewrite render_raws_cons in *.
    destruct (raw_fields c (render_raws ch) Hc Hp1) as (F1 & F2 & F3 & F4 & F5).
    pose proof (zlen_nonneg (snd c)). pose proof (zlen_nonneg (render_raws ch)).
    cbn [mut_children]. rewrite F5, F1, F2.
    bset (24 + zlen (snd c) + zlen (render_raws ch) <=? 0) false.
    bset (24 + zlen (snd c) + zlen (render_raws ch) <? 24) false.
    bset (24 + zlen (snd c) <? 1) false.
    destruct Hlc as [Hh Hok]. rewrite Hh.
    assert (Hpl : zslice 24 (24 + zlen (snd c)) (render_raw c ++ render_raws ch) = snd c).
    { unfold zslice. replace (24 + zlen (snd c) - 24) with (zlen (snd c)) by lia. exact F3. }
    rewrite Hpl. rewrite (leaf_tags_ok _ _ Hok).
    assert (Hrest : zdrop (24 + zlen (snd c)) (render_raw c ++ render_raws ch) = render_raws ch).
    { rewrite <- F4 at 2. rewrite zdrop_zdrop by lia. f_equal. lia. }
    rewrite Hrest.
    replace (24 + zlen (snd c) + zlen (render_raws ch) - (24 + zlen (snd c))) with (zlen (render_raws ch)) by lia.
    rewrite IH; [|assumption|assumption|assumption|].
    2:{ rewrite app_length in Hf. unfold zlen in F5. rewrite app_length in F5. lia. }
    destruct c as [g d]. reflexivity.
Qed.

Lemma mut_ext_render fx ch : zlen fx = 18 -> Forall raw_shaped ch -> Forall raw_loadable ch ->
  forallb raw_packs ch = true -> zlen (render_raws ch) < U32 ->
  mut_ext (ext_payload fx ch) = Ok (OExt fx ch, raws_tags ch).
Proof.
  intros Hfx Hs Hl Hp Hlen. unfold mut_ext, ext_payload. pose proof (zlen_nonneg (render_raws ch)).
  zl. bset (zlen fx + (4 + zlen (render_raws ch)) <? 22) false.
  rewrite (zslice_mid fx (le_encode 4 (zlen (render_raws ch)))) by (zl; lia).
  rewrite le4_round by lia.
  rewrite app_assoc. rewrite (zdrop_exact (fx ++ le_encode 4 (zlen (render_raws ch)))) by (zl; lia).
  rewrite mut_children_render; [|assumption|assumption|assumption|].
  2:{ rewrite !app_length. lia. }
  rewrite <- app_assoc. rewrite (ztake_exact fx) by lia. reflexivity.
Qed.

Lemma mut_objects_render : forall l rest more, Forall obj_shaped l -> Forall obj_loadable l ->
  forallb obj_packs l = true ->
  mut_objects (length l) more (render_objs l ++ rest) (zlen (render_objs l)) =
    if more then Raise EMutagen else Ok (l, objs_tags l).
Proof.
  induction l as [|o l IH]; intros rest more Hs Hl Hp.
  - cbn. destruct more; reflexivity.
  - inversion Hs as [|? ? Ho Hs']; subst. inversion Hl as [|? ? Hlo Hl']; subst.
    cbn [forallb] in Hp. apply andb_true_iff in Hp as [Hp1 Hp2].
    unfold render_objs. cbn [map]. rewrite render_raws_cons. fold (render_objs l).
    rewrite <- app_assoc.
    destruct (raw_fields (obj_raw o) (render_objs l ++ rest) (obj_raw_shaped o Ho) (obj_packs_raw o Hp1))
      as (F1 & F2 & F3 & F4 & F5).
    pose proof (zlen_nonneg (snd (obj_raw o))). pose proof (zlen_nonneg (render_objs l)). pose proof (zlen_nonneg rest).
    pose proof (zlen_nonneg (render_objs l ++ rest)).
    cbn [length mut_objects].
    rewrite zlen_app, zlen_render_raw by (apply obj_raw_shaped, Ho).
    rewrite F5, F1, F2.
    bset (24 + zlen (snd (obj_raw o)) + zlen (render_objs l) <? 24) false.
    bset (24 + zlen (snd (obj_raw o)) + zlen (render_objs l ++ rest) <? 24) false.
    replace (24 + zlen (snd (obj_raw o)) - 24) with (zlen (snd (obj_raw o))) by lia.
    bset (24 + zlen (snd (obj_raw o)) + zlen (render_objs l) - 24 <? zlen (snd (obj_raw o))) false.
    rewrite F3, F4.
    rewrite zlen_zdrop by lia. rewrite F5.
    bset ((zlen (snd (obj_raw o)) <? 0) ||
          (Z.max 0 (24 + zlen (snd (obj_raw o)) + zlen (render_objs l ++ rest) - 24) <? zlen (snd (obj_raw o)))) false.
    replace (24 + zlen (snd (obj_raw o)) + zlen (render_objs l) - 24 - zlen (snd (obj_raw o))) with (zlen (render_objs l)) by lia.
    rewrite IH by assumption.
    destruct o as [g d|fx ch]; cbn [obj_raw fst snd].
    + destruct Ho as [_ Hh]. rewrite Hh. cbn [obj_loadable] in Hlo. rewrite (leaf_tags_ok _ _ Hlo).
      destruct more; reflexivity.
    + unfold is_hext. rewrite list_eqb_refl. destruct Ho as [Hfx Hch].
      cbn [obj_packs] in Hp1. apply andb_true_iff in Hp1 as [Hq _]. apply andb_true_iff in Hq as [Hq1 Hq2].
      rewrite mut_ext_render; [|assumption|assumption|exact Hlo|assumption|lia].
      destruct more; reflexivity.
Qed.

Definition gather (ts : list (Z * attr)) : list attr := of_cls 0 ts ++ of_cls 1 ts ++ of_cls 2 ts ++ of_cls 3 ts.

(* mutagen loads a rendered header as exactly the tree it was rendered from *)
Theorem open_render l data : Forall obj_shaped l -> Forall obj_loadable l -> forallb obj_packs l = true ->
  header_packs l = true -> asf_open (render_header l ++ data) = Ok (l, gather (objs_tags l)).
Proof.
  intros Hs Hl Hp Hh. pose proof Hh as Hh'. unfold header_packs in Hh. apply andb_true_iff in Hh as [Hh1 Hh2].
  pose proof (zlen_nonneg (render_objs l)) as Hb. pose proof (zlen_nonneg l) as Hc. pose proof (zlen_nonneg data) as Hdn.
  destruct (header_fields l data Hs Hp Hh') as [A B]. rewrite <- zlen_render_objs_sum in A by exact Hs.
  unfold asf_open. rewrite A, B.
  assert (Hf : render_header l ++ data = (G_HDR ++ le_encode 8 (30 + zlen (render_objs l)) ++ le_encode 4 (zlen l) ++ [1; 2]) ++ (render_objs l ++ data)).
  { unfold render_header. rewrite <- !app_assoc. reflexivity. }
  assert (Hlen : zlen (render_header l ++ data) = 30 + zlen (render_objs l) + zlen data).
  { rewrite zlen_app, zlen_render_header. lia. }
  rewrite Hlen. bset (30 + zlen (render_objs l) + zlen data <? 30) false.
  assert (Hst : starts_with G_HDR (render_header l ++ data) = true).
  { unfold render_header. rewrite <- !app_assoc. apply starts_with_app. }
  rewrite Hst. cbn [negb orb].
  assert (Hd : zdrop 30 (render_header l ++ data) = render_objs l ++ data).
  { rewrite Hf. apply zdrop_exact. zl. rewrite zlen_G_HDR. reflexivity. }
  rewrite Hd.
  assert (Hcount : 24 * zlen l <= zlen (render_objs l)).
  { rewrite zlen_render_objs_sum by exact Hs. clear. induction l as [|o l IH]; [cbn; lia|].
    rewrite zlen_cons. cbn [fold_right]. pose proof (zlen_nonneg (snd (obj_raw o))). lia. }
  rewrite zlen_app.
  replace (Z.min (zlen l) (zlen (render_objs l) + zlen data)) with (zlen l) by lia.
  unfold zlen at 1. rewrite Nat2Z.id.
  replace (30 + zlen (render_objs l) - 30) with (zlen (render_objs l)) by lia.
  rewrite mut_objects_render by assumption.
  bset (zlen (render_objs l) + zlen data <? zlen l) false. reflexivity.
Qed.

(* ------------------------------------------------------------------ a complete object list is a fixed point *)
Fixpoint fec (l : list obj) : bool :=       (* the first header extension has both metadata objects *)
  match l with
  | [] => false
  | OExt _ ch :: _ => raw_has G_META ch && raw_has G_LIB ch
  | _ :: r => fec r
  end.
Definition complete (l : list obj) : Prop := top_has G_CD l = true /\ top_has G_ECD l = true /\ fec l = true.

Lemma fec_has_ext l : fec l = true -> existsb is_ext l = true.
Proof. induction l as [|o l IH]; [discriminate|]. destruct o; cbn; auto. Qed.
Lemma upd_id l : fec l = true -> upd_first_ext add_children l = l.
Proof.
  induction l as [|o l IH]; [reflexivity|]. destruct o as [g d|fx ch]; cbn [fec upd_first_ext]; intros H.
  - rewrite IH by exact H. reflexivity.
  - apply andb_true_iff in H as [H1 H2]. unfold add_children. rewrite H1, H2. reflexivity.
Qed.
Lemma add_missing_id l : complete l -> add_missing l = l.
Proof.
  intros (H1 & H2 & H3). unfold add_missing. rewrite H1, H2, (fec_has_ext l H3). apply upd_id, H3.
Qed.

Lemma top_has_app g0 a b : top_has g0 (a ++ b) = top_has g0 a || top_has g0 b.
Proof. unfold top_has. apply existsb_app. Qed.
Lemma top_has_upd g0 g l : top_has g0 (upd_first_ext g l) = top_has g0 l.
Proof.
  induction l as [|o l IH]; [reflexivity|]. destruct o; cbn [upd_first_ext]; unfold top_has in *; cbn [existsb];
    [rewrite IH|]; reflexivity.
Qed.
Lemma raw_has_app g0 a b : raw_has g0 (a ++ b) = raw_has g0 a || raw_has g0 b.
Proof. unfold raw_has. apply existsb_app. Qed.
Lemma add_children_has ch : raw_has G_META (add_children ch) && raw_has G_LIB (add_children ch) = true.
Proof.
  unfold add_children.
  set (c1 := if raw_has G_META ch then ch else ch ++ [(G_META, [])]).
  assert (H1 : raw_has G_META c1 = true).
  { unfold c1. destruct (raw_has G_META ch) eqn:E; [exact E|]. rewrite raw_has_app. cbn. apply orb_true_r. }
  destruct (raw_has G_LIB c1) eqn:E2.
  - rewrite H1, E2. reflexivity.
  - rewrite !raw_has_app, H1. cbn. rewrite orb_true_r. reflexivity.
Qed.
Lemma fec_upd l : existsb is_ext l = true -> fec (upd_first_ext add_children l) = true.
Proof.
  induction l as [|o l IH]; [discriminate|]. destruct o as [g d|fx ch]; cbn [existsb is_ext orb upd_first_ext fec]; intros H.
  - apply IH, H.
  - apply add_children_has.
Qed.
Lemma add_missing_complete l : complete (add_missing l).
Proof.
  unfold add_missing, complete. rewrite !top_has_upd.
  set (l1 := if top_has G_CD l then l else l ++ [OLeaf G_CD []]).
  assert (H1 : top_has G_CD l1 = true).
  { unfold l1. destruct (top_has G_CD l) eqn:E; [exact E|]. rewrite top_has_app. cbn. apply orb_true_r. }
  set (l2 := if top_has G_ECD l1 then l1 else l1 ++ [OLeaf G_ECD []]).
  assert (H2 : top_has G_CD l2 = true /\ top_has G_ECD l2 = true).
  { unfold l2. destruct (top_has G_ECD l1) eqn:E; [split; assumption|]. rewrite !top_has_app, H1. cbn.
    rewrite orb_true_r. split; reflexivity. }
  destruct H2 as [A B].
  set (l3 := if existsb is_ext l2 then l2 else l2 ++ [OExt HEXT_FIXED []]).
  assert (H3 : top_has G_CD l3 = true /\ top_has G_ECD l3 = true /\ existsb is_ext l3 = true).
  { unfold l3. destruct (existsb is_ext l2) eqn:E; [repeat split; assumption|].
    rewrite !top_has_app, A, B, existsb_app. cbn. rewrite orb_true_r. repeat split; reflexivity. }
  destruct H3 as (C & D & E). repeat split; [exact C|exact D|apply fec_upd, E].
Qed.

(* GUID-preserving maps over the non-padding objects keep completeness *)
Lemma is_pad_not g g0 : is_pad g = true -> is_pad g0 = false -> list_eqb g g0 = false.
Proof.
  unfold is_pad. intros H1 H2. apply list_eqb_spec in H1. subst g.
  destruct (list_eqb G_PAD g0) eqn:E; [|reflexivity]. apply list_eqb_spec in E. subst g0. discriminate.
Qed.
Lemma top_has_core P g0 l : is_pad g0 = false ->
  top_has g0 (map (retag_obj P) (filter nonpad_obj l)) = top_has g0 l.
Proof.
  intros Hg. unfold top_has. induction l as [|o l IH]; [reflexivity|].
  destruct o as [g d|fx ch]; cbn [filter nonpad_obj].
  - destruct (is_pad g) eqn:Ep; cbn [negb].
    + cbn [existsb]. rewrite (is_pad_not g g0 Ep Hg). exact IH.
    + cbn [map retag_obj existsb]. rewrite IH. reflexivity.
  - cbn [map retag_obj existsb]. rewrite IH. reflexivity.
Qed.
Lemma raw_has_core P g0 ch : is_pad g0 = false ->
  raw_has g0 (map (retag_raw P) (filter nonpad_raw ch)) = raw_has g0 ch.
Proof.
  intros Hg. unfold raw_has. induction ch as [|c ch IH]; [reflexivity|]. cbn [filter].
  unfold nonpad_raw at 1. destruct (is_pad (fst c)) eqn:Ep; cbn [negb].
  - cbn [existsb]. rewrite (is_pad_not _ g0 Ep Hg). exact IH.
  - cbn [map existsb]. rewrite IH. reflexivity.
Qed.
Lemma fec_core P l : fec (map (retag_obj P) (filter nonpad_obj l)) = fec l.
Proof.
  induction l as [|o l IH]; [reflexivity|]. destruct o as [g d|fx ch]; cbn [filter nonpad_obj].
  - destruct (is_pad g); cbn [negb map retag_obj fec]; exact IH.
  - cbn [map retag_obj fec]. rewrite !raw_has_core by reflexivity. reflexivity.
Qed.
Lemma core_complete P l : complete (core_objs P l).
Proof.
  destruct (add_missing_complete l) as (A & B & C). unfold core_objs, complete.
  rewrite !top_has_core by reflexivity. rewrite fec_core. auto.
Qed.
Lemma fec_app a b : fec a = true -> fec (a ++ b) = true.
Proof. induction a as [|o a IH]; [discriminate|]. destruct o; cbn [app fec]; auto. Qed.
Lemma complete_app l x : complete l -> complete (l ++ x).
Proof.
  intros (A & B & C). unfold complete. rewrite !top_has_app, A, B. repeat split; try reflexivity. apply fec_app, C.
Qed.

(* re-rendering twice = re-rendering once *)
Lemma retag_raw_idem P c : retag_raw P (retag_raw P c) = retag_raw P c.
Proof. destruct c as [g d]. unfold retag_raw. cbn [fst snd]. destruct (cls_of g); reflexivity. Qed.
Lemma filter_nonpad_retag P ch : filter nonpad_raw (map (retag_raw P) ch) = map (retag_raw P) (filter nonpad_raw ch).
Proof.
  induction ch as [|c ch IH]; [reflexivity|]. cbn [map filter].
  assert (H : nonpad_raw (retag_raw P c) = nonpad_raw c) by reflexivity. rewrite H.
  destruct (nonpad_raw c); cbn [map]; rewrite IH; reflexivity.
Qed.
Lemma filter_idem {A} (f : A -> bool) l : filter f (filter f l) = filter f l.
Proof.
  induction l as [|x l IH]; [reflexivity|]. cbn [filter]. destruct (f x) eqn:E; [cbn [filter]; rewrite E, IH|]; auto.
Qed.
Lemma retag_obj_idem P o : retag_obj P (retag_obj P o) = retag_obj P o.
Proof.
  destruct o as [g d|fx ch]; cbn [retag_obj].
  - f_equal. pose proof (retag_raw_idem P (g, d)) as H. unfold retag_raw in *. cbn [fst snd] in *.
    inversion H. rewrite H1. destruct (cls_of g); reflexivity.
  - f_equal. rewrite filter_nonpad_retag, filter_idem, map_map.
    apply map_ext. intros c. apply retag_raw_idem.
Qed.
Lemma core_nonpad P l : filter nonpad_obj (core_objs P l) = core_objs P l.
Proof.
  unfold core_objs. induction (add_missing l) as [|o r IH]; [reflexivity|]. cbn [filter].
  destruct (nonpad_obj o) eqn:E; [|exact IH]. cbn [map filter]. rewrite (retag_nonpad P o E), IH. reflexivity.
Qed.
Theorem core_idem P l n : core_objs P (core_objs P l ++ [pad_obj n]) = core_objs P l.
Proof.
  unfold core_objs at 1. rewrite add_missing_id by (apply complete_app, core_complete).
  rewrite filter_app, core_nonpad. cbn [filter pad_obj nonpad_obj]. change (is_pad G_PAD) with true. cbn [negb].
  rewrite app_nil_r. unfold core_objs. rewrite map_map. apply map_ext. intros o. apply retag_obj_idem.
Qed.

(* ------------------------------------------------------------------ loadability of the re-rendered tree *)
Definition place_loadable (P : placement) : bool :=
  is_ok (mut_leaf G_CD (cd_payload P)) && is_ok (mut_leaf G_ECD (ecd_payload P)) &&
  is_ok (mut_leaf G_META (m_payload P)) && is_ok (mut_leaf G_LIB (ml_payload P)).

Lemma retag_loadable_payload P g d : place_loadable P = true ->
  is_some (tagcls g) = true \/ is_ok (mut_leaf g d) = true ->
  is_ok (mut_leaf g (snd (retag_raw P (g, d)))) = true.
Proof.
  unfold place_loadable. intros H Hp. apply andb_true_iff in H as [H H4]. apply andb_true_iff in H as [H H3].
  apply andb_true_iff in H as [H1 H2].
  unfold retag_raw, tagcls in *. cbn [fst snd]. pose proof (cls_of_inv g) as Hi.
  destruct (cls_of g) eqn:E; try (subst g; assumption);
    destruct Hp as [Hp|Hp]; try discriminate; exact Hp.
Qed.
Lemma retag_loadable P o : place_loadable P = true -> obj_preload o -> obj_loadable (retag_obj P o).
Proof.
  intros HP. destruct o as [g d|fx ch]; cbn [obj_preload retag_obj obj_loadable].
  - apply retag_loadable_payload, HP.
  - intros H. apply Forall_forall. intros r Hr. apply in_map_iff in Hr as (c & <- & Hc).
    apply filter_In in Hc as [Hc _]. rewrite Forall_forall in H. destruct (H c Hc) as [A B].
    split; [exact A|]. cbn [fst]. destruct c as [g d]. apply retag_loadable_payload; assumption.
Qed.
Lemma loadable_preload o : obj_loadable o -> obj_preload o.
Proof.
  destruct o as [g d|fx ch]; cbn; [auto|]. intros H. eapply Forall_impl; [|exact H].
  intros c [A B]. split; auto.
Qed.
Lemma add_missing_preload l : Forall obj_preload l -> Forall obj_preload (add_missing l).
Proof.
  intros H. unfold add_missing.
  assert (Hupd : forall x, Forall obj_preload x -> Forall obj_preload (upd_first_ext add_children x)).
  { induction x as [|o x IH]; intros Hx; [constructor|]. inversion Hx; subst.
    destruct o as [g d|fx ch]; cbn [upd_first_ext]; constructor; auto.
    cbn [obj_preload] in *. unfold add_children.
    assert (H1 : Forall raw_preload (if raw_has G_META ch then ch else ch ++ [(G_META, [])])).
    { destruct (raw_has G_META ch); [assumption|]. apply Forall_app. split; [assumption|].
      constructor; [|constructor]. split; [reflexivity|left; reflexivity]. }
    destruct (raw_has G_LIB _); [exact H1|]. apply Forall_app. split; [exact H1|].
    constructor; [|constructor]. split; [reflexivity|left; reflexivity]. }
  apply Hupd.
  set (l1 := if top_has G_CD l then l else l ++ [OLeaf G_CD []]).
  assert (H1 : Forall obj_preload l1).
  { unfold l1. destruct (top_has G_CD l); [exact H|]. apply Forall_app. split; [exact H|].
    constructor; [left; reflexivity|constructor]. }
  set (l2 := if top_has G_ECD l1 then l1 else l1 ++ [OLeaf G_ECD []]).
  assert (H2 : Forall obj_preload l2).
  { unfold l2. destruct (top_has G_ECD l1); [exact H1|]. apply Forall_app. split; [exact H1|].
    constructor; [left; reflexivity|constructor]. }
  destruct (existsb is_ext l2); [exact H2|]. apply Forall_app. split; [exact H2|].
  constructor; [constructor|constructor].
Qed.
Lemma save_tree_loadable f objs t cb : place_loadable (place t) = true -> Forall obj_loadable objs ->
  Forall obj_loadable (save_tree f objs t cb).
Proof.
  intros HP H. unfold save_tree, core_objs. apply Forall_app. split.
  - apply Forall_forall. intros o Ho. apply in_map_iff in Ho as (x & <- & Hx). apply retag_loadable; [exact HP|].
    apply filter_In in Hx as [Hx _].
    assert (Hpre : Forall obj_preload (add_missing objs)).
    { apply add_missing_preload. eapply Forall_impl; [|exact H]. apply loadable_preload. }
    rewrite Forall_forall in Hpre. exact (Hpre x Hx).
  - constructor; [reflexivity|constructor].
Qed.

(* C03 "the file loads again": mutagen's reader accepts what save wrote and sees the rendered tree *)
Theorem asf_save_reopens f t cb f' : asf_save f t cb = Ok f' -> place_loadable (place t) = true ->
  exists objs ts, asf_open f = Ok (objs, ts) /\
    asf_open f' = Ok (save_tree f objs t cb, gather (objs_tags (save_tree f objs t cb))).
Proof.
  intros H HP. destruct (asf_save_form _ _ _ _ H) as (objs & ts & Ho & -> & _ & Hp & Hh & _).
  exists objs, ts. split; [exact Ho|].
  apply open_render; [|apply save_tree_loadable; [exact HP|eapply asf_open_loadable; eassumption]|exact Hp|exact Hh].
  apply save_tree_shaped. eapply asf_open_shaped; eassumption.
Qed.

(* ------------------------------------------------------------------ saving again *)
Lemma rejoin (hdr rest f1 : list Z) n : f1 = hdr ++ rest -> zlen hdr = n -> hdr ++ zdrop n f1 = f1.
Proof. intros -> <-. rewrite zdrop_app_exact. reflexivity. Qed.

(* the second save re-renders the same header when the placement is the same and the callback, handed the padding
   now present, returns it *)
Theorem save_again f t cb f1 t' cb' : 0 <= header_size f -> asf_save f t cb = Ok f1 ->
  place_loadable (place t) = true -> place t' = place t ->
  (forall p s, asf_info f t = Ok (p, s) -> cb' (Z.max 0 (cb p s)) s = Z.max 0 (cb p s)) ->
  asf_save f1 t' cb' = Ok f1.
Proof.
  intros Hold0 H HP Hpl Hcb.
  destruct (asf_save_reopens _ _ _ _ H HP) as (objs & ts & Ho & Ho1).
  destruct (asf_save_form _ _ _ _ H) as (objs' & ts' & Ho' & Hf & Hpp & Hp & Hh & Hold).
  rewrite Ho in Ho'. inversion Ho'; subst objs' ts'; clear Ho'.
  destruct (asf_save_padding _ _ _ _ H) as (p & s & s1 & Hi & Hparse & Hs & Hpad & Hsz & _ & _).
  specialize (Hcb p s Hi).
  assert (Hi' := Hi). unfold asf_info in Hi'. rewrite Ho in Hi'. inversion Hi' as [[Hpv Hsv]]. clear Hi'.
  set (core := core_objs (place t) objs) in *.
  assert (Htree : save_tree f objs t cb = core ++ [pad_obj (cb p s)]).
  { unfold save_tree. fold core. rewrite Hpv, Hsv. reflexivity. }
  assert (Hlen1 : zlen f1 = header_size f1 + s).
  { rewrite Hf at 1. rewrite zlen_app, zlen_render_header, Htree, zlen_render_objs_app, zlen_render_pad.
    rewrite zlen_zdrop by lia. rewrite Hsz. rewrite <- Hpv. fold core. lia. }
  unfold asf_save. rewrite Ho1, Hpl, Hpp. cbn [negb].
  rewrite Htree. unfold core. rewrite core_idem. fold core.
  assert (Hcp : forallb obj_packs core = true).
  { rewrite Htree, forallb_app in Hp. apply andb_true_iff in Hp as [Hp _]. exact Hp. }
  rewrite Hcp. cbn [negb].
  assert (Hp1 : header_size f1 - (zlen (render_objs core) + 30 + 24) = Z.max 0 (cb p s)).
  { rewrite Hsz. rewrite <- Hpv. fold core. lia. }
  rewrite Hp1. replace (zlen f1 - header_size f1) with s by lia.
  bset (s <? 0) false. rewrite Hcb.
  assert (Hpadeq : pad_obj (Z.max 0 (cb p s)) = pad_obj (cb p s)).
  { unfold pad_obj. f_equal. destruct (Z.le_gt_cases 0 (cb p s)).
    - f_equal. lia.
    - rewrite (zeros_neg (cb p s)) by lia. replace (Z.max 0 (cb p s)) with 0 by lia. reflexivity. }
  rewrite Hpadeq. rewrite <- Htree.
  assert (Hpk : obj_packs (pad_obj (cb p s)) = true).
  { rewrite Htree, forallb_app in Hp. apply andb_true_iff in Hp as [_ Hp]. cbn [forallb] in Hp.
    apply andb_true_iff in Hp as [Hp _]. exact Hp. }
  rewrite Hpk, Hh. cbn [negb andb]. f_equal. rewrite splice0.
  apply (rejoin _ _ _ _ Hf).
  rewrite zlen_render_header, Htree, zlen_render_objs_app, zlen_render_pad. rewrite Hsz, <- Hpv. fold core. lia.
Qed.
