(* Proofs.C04_mp4 -- totality of the Atom / Atoms mirror: the recursive container parse terminates with
   fuel len + 3 and lets only AtomError out, which MP4.load maps to mp4.error. *)
From Coq Require Import ZArith List Bool Lia.
Import ListNotations.
Require Import Base.Py Base.ZList Model.Parse_base Model.Parse_mp4 Proofs.C04_lib.
Open Scope Z_scope.

Definition EA (e : exc) : Prop := e = EAtom.

Section WithD.
Variable d : list Z.
Hypothesis Hlen : zlen d < c04_two62.

Lemma mp4_unpack_spec n h p (Q : list Z -> Z -> Prop) :
  (zlen h = n -> Q h p) -> pspecE EA (mp4_unpack n h) d p Q.
Proof.
  intro HQ. unfold mp4_unpack. eapply pspecE_catch' with (E' := fun e => e = EStruct) (Q0 := fun a p' => Q a p').
  - apply pspecE_lift. destruct (zlen h =? n) eqn:E; [apply HQ; apply Z.eqb_eq; exact E|reflexivity].
  - intros e ->. unfold mp4_is_struct. cbn [exc_eqb]. intros. apply pspecE_raise. reflexivity.
  - auto.
Qed.

Lemma both_spec : forall fuel,
  (forall level p, 0 <= p -> Z.max 0 (zlen d - p) + 1 <= Z.of_nat fuel ->
     pspecE EA (mp4_atom fuel level) d p (fun _ p' => p + 8 <= p' /\ p + 8 <= zlen d)) /\
  (forall cl cond p, 0 <= p -> Z.max 0 (zlen d - p) + 2 <= Z.of_nat fuel ->
     pspecE EA (mp4_seq fuel cl cond) d p (fun _ p' => p <= p')).
Proof.
  induction fuel as [|fuel [IHa IHs]]; [split; intros; lia|].
  pose proof (zlen_nonneg d) as Hz. unfold c04_two62 in Hlen.
  split.
  - intros level p Hp Hf. cbn [mp4_atom].
    eapply pspecE_catch with (E' := EA).
    2:{ intros e ->. cbn. reflexivity. }
    destruct (64 <? level); [apply pspecE_raise; reflexivity|].
    pstep. pstep. pstep. pstep.
    pstep. apply mp4_unpack_spec. intro H8. rewrite H8 in *.
    assert (Hp8 : p + 8 <= zlen d) by lia. clear Hr.
    cbv zeta.
    set (length := be_decode (ztake 4 r)). set (name := zdrop 4 r).
    (* after the header: (length', dataoffset) with length' >= 8 and a position q >= p + 8 *)
    pstep.
    apply pspecE_post with (Q := fun x q => 8 <= fst x /\ p + 8 <= q <= zlen d).
    { destruct (length =? 1).
      - pstep. pstep. pstep. apply mp4_unpack_spec. intro H82. rewrite H82 in *.
        pstep; [apply pspecE_raise; reflexivity|]. pstep. cbn [fst]. lia.
      - destruct (length =? 0).
        + destruct (level =? 0); cbn [negb]; [|apply pspecE_raise; reflexivity].
          psteps. cbn [fst]. lia.
        + pstep; [apply pspecE_raise; reflexivity|]. pstep. cbn [fst]. lia. }
    intros [length' dataoffset] q. cbn [fst]. intros [Hl8 Hq]. cbv beta.
    destruct (mp4_is_container name).
    + assert (Hsk : 0 <= mp4_skip name <= 4) by (unfold mp4_skip; destruct (list_eqb name mp4_meta); lia).
      pstep. pstep. rewrite Z.max_r by lia.
      pstep. eapply pspecE_post; [apply IHs; lia|].
      cbv beta. intros kids p' Hp'. pstep. lia.
    + pstep. eapply pspecE_catch' with (E' := fun e => e = EOverflow) (Q0 := fun _ p' => p' = p + length').
      * unfold pspecE, p_seek. destruct (in_ssize (p + length')); cbn [negb]; [|reflexivity].
        replace (0 =? 0) with true by reflexivity. destruct (p + length' <? 0) eqn:En; [lia|reflexivity].
      * intros e ->. unfold mp4_is_overflow. cbn [exc_eqb]. intros. apply pspecE_raise. reflexivity.
      * cbv beta. intros _ p' ->. pstep. lia.
  - intros cl cond p Hp Hf. cbn [mp4_seq].
    pstep. pstep. destruct (cond p); cbn [negb]; [|pstep; lia].
    pstep. eapply pspecE_post; [apply IHa; lia|].
    cbv beta. intros a p' [Hp' Hp8].
    pstep. eapply pspecE_post; [apply IHs; lia|].
    cbv beta. intros r p'' Hp''. pstep. lia.
Qed.

Lemma mp4_atoms_spec fuel : zlen d + 2 <= Z.of_nat fuel -> pspecE EA (mp4_atoms fuel) d 0 (fun _ _ => True).
Proof.
  intro Hf. unfold mp4_atoms. pose proof (zlen_nonneg d) as Hz. unfold c04_two62 in Hlen.
  eapply pspecE_catch with (E' := EA).
  2:{ intros e ->. cbn. reflexivity. }
  psteps. eapply pspecE_post; [apply (proj2 (both_spec fuel)); lia|]. auto.
Qed.
End WithD.

(* Atoms(fileobj): accepted, or AtomError *)
Theorem mp4_atoms_raw_cases d : zlen d < c04_two62 ->
  match mp4_atoms_raw d with Ok _ => True | Raise e => e = EAtom end.
Proof.
  intro Hl. unfold mp4_atoms_raw, prun.
  pose proof (mp4_atoms_spec d Hl (mp4_fuel d)) as H.
  assert (Hf : zlen d + 2 <= Z.of_nat (mp4_fuel d)).
  { unfold mp4_fuel, lin_fuel. pose proof (zlen_nonneg d). lia. }
  specialize (H Hf). unfold pspecE in H. destruct (mp4_atoms (mp4_fuel d) d 0) as [[a|e] p]; cbn; auto.
Qed.
(* at the head of MP4.load *)
Theorem mp4_total d : c04_input d -> total (mp4_atoms_load d).
Proof.
  intros [_ Hl]. unfold mp4_atoms_load. eapply total_prun with (Q := fun _ _ => True).
  eapply pspecE_catch with (E' := EA).
  - apply mp4_atoms_spec; [exact Hl|]. unfold mp4_fuel, lin_fuel. pose proof (zlen_nonneg d). lia.
  - intros e ->. cbn. intros. reflexivity.
Qed.
