(* Fam_id3f_prog: the file program ID3.save runs for the ID3v2 part (regenerated insert_bytes / delete_bytes, seek,
   write) computes the pure splice at offset 0 that Model.Fam_id3f.id3f_save_v2 uses (from the C11 theorems). *)
From Coq Require Import ZArith List Bool Lia.
Import ListNotations.
Require Import Base.Py Base.ZList Base.FileModel Gen.Gen_util Model.Splice Model.Fam_id3f
  Proofs.FileLemmas Proofs.C11_bytes.
Open Scope Z_scope.

Section Prog.
Variables (real : bool) (part : Z) (BUF : Z).
Hypothesis HBUF : 1 <= BUF.
Notation cf := (benign real part).

Lemma seek_write d p data : (f_seek 0 0 ;; f_write data) (mkF d p cf) = (Ok tt, mkF (write_at d 0 data) (0 + zlen data) cf).
Proof. rewrite step_seek_abs by lia. apply run_write. Qed.

Theorem id3_save_prog_spec f p old data : 0 <= old <= zlen f ->
  fst (id3_save_prog BUF old data (mkF f p cf)) = Ok tt /\
  fdata (snd (id3_save_prog BUF old data (mkF f p cf))) = splice f 0 old data.
Proof.
  intros Ho. pose proof (zlen_nonneg data) as Hd. unfold id3_save_prog. cbv zeta.
  assert (SP : splice f 0 old data = data ++ zdrop old f).
  { unfold splice. rewrite ztake_0, Z.add_0_l. reflexivity. }
  destruct (old <? zlen data) eqn:E1.
  - pose proof (insert_bytes_spec real part BUF HBUF f p (zlen data - old) old ltac:(lia) ltac:(lia)) as I.
    destruct (bind_spec (insert_bytes BUF (zlen data - old) old) (fun _ => f_seek 0 0 ;; f_write data) _ _ _ _ I) as [p1 E].
    rewrite E, seek_write. cbn [fst snd fdata]. split; [reflexivity|].
    assert (L : zlen (inserted f (zlen data - old) old) = zlen f + (zlen data - old)) by (apply inserted_len; lia).
    rewrite write_at_inside by lia. rewrite ztake_0, Z.add_0_l. cbn [app]. rewrite SP. f_equal.
    pose proof (inserted_suffix f (zlen data - old) old ltac:(lia) ltac:(lia)) as S.
    replace (old + (zlen data - old)) with (zlen data) in S by lia. exact S.
  - destruct (zlen data <? old) eqn:E2.
    + pose proof (delete_bytes_spec real part BUF HBUF f p (old - zlen data) (zlen data) ltac:(lia) ltac:(lia) ltac:(lia)) as D.
      destruct (bind_spec (delete_bytes BUF (old - zlen data) (zlen data)) (fun _ => f_seek 0 0 ;; f_write data) _ _ _ _ D) as [p1 E].
      rewrite E, seek_write. cbn [fst snd fdata]. split; [reflexivity|].
      unfold deleted. replace (zlen data + (old - zlen data)) with old by lia.
      assert (Lt : zlen (ztake (zlen data) f) = zlen data) by (rewrite zlen_ztake by lia; lia).
      rewrite write_at_inside by (rewrite ?zlen_app, ?Lt; pose proof (zlen_nonneg (zdrop old f)); lia).
      rewrite ztake_0, Z.add_0_l. cbn [app]. rewrite SP. f_equal.
      rewrite <- Lt at 1. apply zdrop_app_exact.
    + assert (old = zlen data) by lia. subst old.
      rewrite step_ret. rewrite seek_write. cbn [fst snd fdata]. split; [reflexivity|].
      rewrite write_at_inside by lia. rewrite ztake_0, Z.add_0_l. cbn [app]. rewrite SP. reflexivity.
Qed.
End Prog.
