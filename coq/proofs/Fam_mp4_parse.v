(* The mirror of mutagen's lenient atom reader returns exactly the tree that satisfies the strict rules:
   mp4_forest_ok f true ks 0 (zlen f)  ->  mp4_atoms f = Ok ks   (parser completeness w.r.t. the strict description),
   so a strict description of a file determines what mutagen's Atoms sees. *)
From Coq Require Import ZArith List Bool Lia.
Import ListNotations.
Require Import Base.Py Base.ZList Model.Splice Model.Fam_mp4 Proofs.Fam_mp4_bytes Proofs.Fam_mp4_tree.
Open Scope Z_scope.

Lemma resolve_ok f top n o l h level :
  mp4_header_ok f top n o l h = true -> (top = true -> level = 0) ->
  mp4_resolve_len f o level (be_decode (ztake 4 (mp4_rd f o 8))) = Ok (l, h).
Proof.
  unfold mp4_header_ok. intros H Hlvl.
  apply andb_true_iff in H. destruct H as [H HE].
  apply andb_true_iff in H. destruct H as [H HD].
  apply andb_true_iff in H. destruct H as [H HC].
  apply andb_true_iff in H. destruct H as [HA HB].
  unfold mp4_resolve_len.
  apply orb_true_iff in HE. destruct HE as [HE|HE]; [apply orb_true_iff in HE; destruct HE as [HE|HE]|].
  - apply andb_true_iff in HE. destruct HE as [HE H3]. apply andb_true_iff in HE. destruct HE as [H1 H2].
    apply Z.eqb_eq in H1, H2. apply Z.leb_le in H3. rewrite H2. subst h.
    destruct (l =? 1) eqn:E1; [lia|]. destruct (l =? 0) eqn:E2; [lia|]. destruct (l <? 8) eqn:E3; [lia|]. reflexivity.
  - apply andb_true_iff in HE. destruct HE as [HE H5]. apply andb_true_iff in HE. destruct HE as [HE H4].
    apply andb_true_iff in HE. destruct HE as [HE H3]. apply andb_true_iff in HE. destruct HE as [H1 H2].
    apply Z.eqb_eq in H1, H2, H3, H4. apply Z.leb_le in H5. rewrite H2. cbn [Z.eqb Pos.eqb].
    rewrite H3. cbn [Z.ltb Z.compare Pos.compare Pos.compare_cont]. rewrite H4. subst h.
    destruct (l <? 16) eqn:E; [lia|]. reflexivity.
  - apply andb_true_iff in HE. destruct HE as [HE H4]. apply andb_true_iff in HE. destruct HE as [HE H3].
    apply andb_true_iff in HE. destruct HE as [H1 H2]. apply Z.eqb_eq in H2, H3, H4. rewrite H3. cbn [Z.eqb].
    rewrite (Hlvl H1). cbn [Z.eqb]. subst. reflexivity.
Qed.

Lemma parse_complete_atom f : forall a top fuel level,
  mp4_atom_ok f top a = true -> (top = true -> level = 0) -> (2 * cnt_atom a <= fuel)%nat ->
  level + mp4_height a <= MP4_MAXDEPTH ->
  mp4_parse_atom fuel f (ma_off a) level = Ok (a, ma_off a + ma_len a).
Proof.
  induction a as [n o l h|n o l h ks IH] using mp4_atom_ind'; intros top fuel level H Hlvl Hfuel Hdepth.
  - pose proof (atom_ok_header _ _ _ H) as Hh. cbn [ma_name ma_off ma_len ma_hdr] in *.
    pose proof (header_ok_facts _ _ _ _ _ _ Hh) as (F1 & F2 & F3 & F4 & F5 & F6 & F7).
    destruct fuel as [|fuel]; [cbn in Hfuel; lia|]. cbn [mp4_parse_atom].
    rewrite height_leaf in Hdepth. unfold MP4_MAXDEPTH in Hdepth. destruct (level >? 64) eqn:Elv; [lia|].
    rewrite zlen_rd_in by lia. cbn [Z.ltb Z.compare Pos.compare Pos.compare_cont].
    rewrite (resolve_ok _ _ _ _ _ _ _ Hh Hlvl).
    rewrite zdrop_rd by lia. replace (8 - 4) with 4 by lia. rewrite F7.
    pose proof (atom_ok_leaf_name _ _ _ H eq_refl) as Hnc. cbn [ma_name] in Hnc. rewrite Hnc. reflexivity.
  - pose proof (atom_ok_header _ _ _ H) as Hh. cbn [ma_name ma_off ma_len ma_hdr] in *.
    pose proof (header_ok_facts _ _ _ _ _ _ Hh) as (F1 & F2 & F3 & F4 & F5 & F6 & F7).
    destruct (atom_ok_kids _ _ _ ks H eq_refl) as (Hc & Hk). cbn [ma_name ma_off ma_len ma_hdr] in *.
    rewrite cnt_node in Hfuel.
    destruct fuel as [|fuel]; [lia|]. cbn [mp4_parse_atom].
    rewrite height_node in Hdepth. pose proof (forest_height_nonneg ks) as Hfh0.
    unfold MP4_MAXDEPTH in Hdepth. destruct (level >? 64) eqn:Elv; [lia|].
    rewrite zlen_rd_in by lia. cbn [Z.ltb Z.compare Pos.compare Pos.compare_cont].
    rewrite (resolve_ok _ _ _ _ _ _ _ Hh Hlvl).
    rewrite zdrop_rd by lia. replace (8 - 4) with 4 by lia. rewrite F7. rewrite Hc.
    assert (Hkids : forall fuel' p, mp4_forest_ok f false ks p (o + l) = true -> (2 * cnt_forest ks + 1 <= fuel')%nat ->
              level + 1 + mp4_forest_height ks <= 65 ->
              mp4_parse_kids fuel' f p (o + l) (level + 1) = Ok (ks, o + l)).
    { clear H Hk Hfuel Hh Hdepth Hfh0. induction ks as [|k r IHr]; intros fuel' p Hf Hfu Hdp.
      - apply forest_ok_nil in Hf. subst p. destruct fuel' as [|fuel']; [lia|]. cbn [mp4_parse_kids].
        rewrite Z.ltb_irrefl. reflexivity.
      - apply forest_ok_cons in Hf. destruct Hf as (H1 & H2 & H3).
        inversion IH as [|? ? Hk0 Hr0]; subst.
        pose proof (forest_ok_le _ _ _ _ _ H3) as Hle. pose proof (atom_ok_len _ _ _ H2) as Hlk.
        cbn [cnt_forest] in Hfu. pose proof (cnt_pos k) as Hpos. rewrite forest_height_cons in Hdp.
        destruct fuel' as [|fuel']; [lia|]. cbn [mp4_parse_kids].
        destruct (ma_off k <? o + l) eqn:E; [|lia].
        rewrite (Hk0 false fuel' (level + 1) H2) by (try discriminate; unfold MP4_MAXDEPTH; lia).
        rewrite (IHr Hr0 fuel' _ H3) by lia. reflexivity. }
    rewrite (Hkids fuel _ Hk) by lia. reflexivity.
Qed.

Lemma parse_complete_top f ks : forall fuel p,
  mp4_forest_ok f true ks p (zlen f) = true -> (2 * cnt_forest ks + 1 <= fuel)%nat ->
  mp4_forest_height ks <= MP4_MAXDEPTH ->
  mp4_parse_top fuel f p = Ok ks.
Proof.
  induction ks as [|k r IH]; intros fuel p H Hfu Hdp.
  - apply forest_ok_nil in H. subst p. destruct fuel as [|fuel]; [lia|]. cbn [mp4_parse_top].
    destruct (zlen f + 8 <=? zlen f) eqn:E; [lia|]. reflexivity.
  - apply forest_ok_cons in H. destruct H as (H1 & H2 & H3). subst p.
    pose proof (atom_ok_len _ _ _ H2) as Hlk. cbn [cnt_forest] in Hfu. pose proof (cnt_pos k) as Hpos.
    destruct fuel as [|fuel]; [lia|]. cbn [mp4_parse_top].
    destruct (ma_off k + 8 <=? zlen f) eqn:E; [|lia].
    rewrite forest_height_cons in Hdp.
    rewrite (parse_complete_atom f k true fuel 0 H2) by (auto; lia).
    rewrite (IH fuel _ H3) by lia. reflexivity.
Qed.

(* the strict description determines mutagen's view of the file *)
Theorem parse_complete f ks : mp4_forest_ok f true ks 0 (zlen f) = true -> mp4_forest_height ks <= MP4_MAXDEPTH ->
  mp4_atoms f = Ok ks.
Proof.
  intros H Hd. unfold mp4_atoms. apply parse_complete_top; [exact H| |exact Hd].
  pose proof (cnt_forest_bound _ _ _ _ _ H). unfold mp4_fuel.
  assert (zlen f = Z.of_nat (length f)) by reflexivity. lia.
Qed.

(* hence a file has at most one strict description *)
Corollary strict_description_unique f ks ks' :
  mp4_forest_ok f true ks 0 (zlen f) = true -> mp4_forest_ok f true ks' 0 (zlen f) = true ->
  mp4_forest_height ks <= MP4_MAXDEPTH -> mp4_forest_height ks' <= MP4_MAXDEPTH -> ks = ks'.
Proof.
  intros H H' D D'. apply parse_complete in H; [|exact D]. apply parse_complete in H'; [|exact D']. congruence.
Qed.
