(* Proofs.C04_aac -- totality of the AACInfo.__init__ mirror (Model.Parse_aac).
   On top of the reader invariant of Proofs.C04_ac3 the ADTS part needs the exact bit position: every bits(count) /
   skip(count) advances get_position() by exactly count (8 * pos - bits grows by count), which makes the frame skip
   end byte-aligned (`assert r.is_aligned()`), and the stream position grows strictly over a found sync word, which
   keeps the size of a parsed stream positive (the division of the length estimate). *)
From Coq Require Import ZArith List Bool Lia.
Import ListNotations.
Require Import Base.Py Base.ZList Model.Parse_base Model.Parse_musepack Model.Parse_ac3 Model.Parse_aac
  Proofs.C04_lib Proofs.C04_musepack Proofs.C04_ac3.
Open Scope Z_scope.

Definition bitpos (p : Z) (s : brs) : Z := 8 * p - snd s.

Lemma pspecE_and {A} E (m : P A) d p (Q1 Q2 : A -> Z -> Prop) :
  pspecE E m d p Q1 -> pspecE E m d p Q2 -> pspecE E m d p (fun a p' => Q1 a p' /\ Q2 a p').
Proof. unfold pspecE. destruct (m d p) as [[a|e] p']; auto. Qed.
Lemma pspecE_of_eq {A} E (m : P A) d p a p' (Q : A -> Z -> Prop) : m d p = (Ok a, p') -> Q a p' -> pspecE E m d p Q.
Proof. intros H HQ. unfold pspecE. rewrite H. exact HQ. Qed.

(* bits(count) / skip(count) with the exact bit position *)
Definition brXv (p : Z) (s : brs) (c : Z) : Z * brs -> Z -> Prop :=
  fun vs p' => brQv p c c vs p' /\ bitpos p' (snd vs) = bitpos p s + c.
Definition brX (p : Z) (s : brs) (c : Z) : brs -> Z -> Prop :=
  fun s' p' => brQ p c s' p' /\ bitpos p' s' = bitpos p s + c.

Section Pos.
Variable E : exc -> Prop.
Hypothesis HEB : E EBitReader.

Lemma br_bits_pos count s d p : brinv s -> 0 <= count -> 0 <= p -> p + count < c04_two62 ->
  pspecE E (br_bits count s) d p (fun vs p' => bitpos p' (snd vs) = bitpos p s + count).
Proof.
  intros [Hbuf Hbits] Hc Hp Hpc. destruct s as [buffer bits]. unfold bitpos. cbn [fst snd] in *.
  unfold c04_two62 in *. pose proof (zlen_nonneg d).
  unfold br_bits. destruct (count <? 0) eqn:E1; [lia|].
  apply pspecE_bind.
  apply pspecE_post with (Q := fun bb p' => 8 * p' - snd bb = 8 * p - bits /\ count <= snd bb < count + 8).
  - destruct (bits <? count) eqn:E2.
    + apply Z.ltb_lt in E2. cbv zeta. pose proof (div8_bounds (count - bits + 7)) as Hn.
      set (n := (count - bits + 7) / 8) in *.
      pstep. pstep.
      destruct (zlen r =? n) eqn:E3; cbn [negb]; [|apply pspecE_raise; exact HEB].
      apply Z.eqb_eq in E3. pstep. cbn [fst snd]. lia.
    + apply Z.ltb_ge in E2. pstep. cbn [fst snd]. lia.
  - intros [buf b] p' [H1 H2]. cbn [fst snd] in *. cbv zeta.
    destruct (b - count <? 8) eqn:E4; cbn [negb]; [|apply Z.ltb_ge in E4; lia].
    pstep. cbn [fst snd]. lia.
Qed.

Lemma br_bits_x count s d p : bytes_ok d -> brinv s -> 0 <= count -> 0 <= p -> p + count < c04_two62 ->
  pspecE E (br_bits count s) d p (brXv p s count).
Proof. intros. apply pspecE_and; [apply br_bits_spec|apply br_bits_pos]; assumption. Qed.

Lemma br_skip_pos count s d p : bytes_ok d -> brinv s -> 0 <= count -> 0 <= p -> p + count < c04_two62 ->
  pspecE E (br_skip count s) d p (fun s' p' => bitpos p' s' = bitpos p s + count).
Proof.
  intros Hd Hs Hc Hp Hpc. destruct s as [buffer bits]. unfold br_skip.
  destruct (count <? 0) eqn:E1; [lia|].
  destruct (count <=? bits) eqn:E2.
  - pstep. eapply pspecE_post; [apply br_bits_pos; assumption|].
    intros [v s'] p' H. cbn [snd] in *. pstep. exact H.
  - apply Z.leb_gt in E2. destruct Hs as [Hbuf Hbits]; cbn [fst snd] in *. cbv zeta.
    unfold c04_two62 in *.
    pose proof (div8_bounds (count - bits)) as Hn. set (n := (count - bits) / 8) in *.
    pstep. pstep. pstep.
    eapply pspecE_post; [apply br_bits_pos; [apply brinv0|lia|lia|unfold c04_two62; lia]|].
    intros [v s'] p' H. cbn [snd] in *. pstep. unfold bitpos in *. cbn [snd] in *. lia.
Qed.

Lemma br_skip_x count s d p : bytes_ok d -> brinv s -> 0 <= count -> 0 <= p -> p + count < c04_two62 ->
  pspecE E (br_skip count s) d p (brX p s count).
Proof. intros. apply pspecE_and; [apply br_skip_spec|apply br_skip_pos]; assumption. Qed.

End Pos.

(* ---------------------------------------------------------------- ADIF *)
Lemma freq_lookup_spec E i d p : pspecE E (pcatch (plift (list_index i aac_freqs)) is_eindex (fun _ => pret 0)) d p (fun _ p' => p' = p).
Proof.
  unfold pspecE, pcatch, plift, pret. destruct (list_index_cases i aac_freqs) as [(a & Ha & _)|Hr]; [rewrite Ha|rewrite Hr]; reflexivity.
Qed.

Section Adif.
Variable E : exc -> Prop.
Hypothesis HEB : E EBitReader.
Hypothesis HEM : E EMutagen.

Lemma br_flag_skip_spec n s d p :
  bytes_ok d -> brinv s -> 0 <= n -> 0 <= p -> p + (n + 1) < c04_two62 ->
  pspecE E (br_flag_skip n s) d p (brQ p (n + 1)).
Proof.
  intros Hd Hs Hn Hp Hpc. unfold br_flag_skip. unfold c04_two62 in *.
  br_b. destruct (v =? 1); [br_done br_skip_spec|br_ret].
Qed.

Lemma pce_elements_spec d : bytes_ok d -> forall n ch s p,
  brinv s -> 0 <= p -> p + 5 * Z.of_nat n < c04_two62 ->
  pspecE E (pce_elements n ch s) d p (fun r p' => brinv (snd r) /\ p <= p' <= p + 5 * Z.of_nat n).
Proof.
  intros Hd. induction n as [|n IH]; intros ch s p Hs Hp Hpc; cbn [pce_elements].
  - apply pspecE_ret. cbn [snd]. split; [assumption|lia].
  - unfold c04_two62 in *. br_b. br_s.
    eapply pspecE_post; [apply IH; first [assumption | lia | (unfold c04_two62; lia)]|].
    intros r p' [H1 H2]. split; [assumption|lia].
Qed.

Ltac br_f := apply pspecE_bind; eapply pspecE_post; [apply br_flag_skip_spec; br_side | br_intro].

Lemma aac_pce_spec s d p : bytes_ok d -> brinv s -> 0 <= p -> p + 2500 < c04_two62 ->
  pspecE E (aac_pce s) d p (fun r p' => brinv (snd r) /\ p <= p' <= p + 2500).
Proof.
  intros Hd Hs Hp Hpc. unfold aac_pce. unfold c04_two62 in *.
  br_b. br_b. br_b. br_b. br_b. br_b. br_b. br_b. br_b.
  br_f. br_f. br_f.
  apply pspecE_bind. eapply pspecE_post; [apply pce_elements_spec; first [assumption | lia | (unfold c04_two62; lia)]|].
  intros [ch s'] p' [Hs' Hp']. cbn [snd] in Hs'. cbv beta iota.
  br_s. br_s. br_s. br_b. br_s.
  apply pspecE_ret. cbn [snd]. split; [assumption|lia].
Qed.

Lemma aac_other_pces_spec d bt : bytes_ok d -> forall n s p,
  brinv s -> 0 <= p -> p + 2520 * Z.of_nat n < c04_two62 ->
  pspecE E (aac_other_pces n bt s) d p (fun s' p' => brinv s' /\ p <= p' <= p + 2520 * Z.of_nat n).
Proof.
  intros Hd. induction n as [|n IH]; intros s p Hs Hp Hpc; cbn [aac_other_pces].
  - apply pspecE_ret. split; [assumption|lia].
  - unfold c04_two62 in *.
    br_if 20 ltac:(apply br_skip_spec; br_side).
    apply pspecE_bind. eapply pspecE_post; [apply aac_pce_spec; first [assumption | lia | (unfold c04_two62; lia)]|].
    intros [[sfi ch] s'] p' [Hs' Hp']. cbn [snd] in Hs'. cbv beta iota.
    eapply pspecE_post; [apply IH; first [assumption | lia | (unfold c04_two62; lia)]|].
    intros r p'' [H1 H2]. split; [assumption|lia].
Qed.

End Adif.

Lemma aac_parse_adif_spec d p : c04_input d -> 0 <= p <= 1000000000 ->
  pspec aac_parse_adif d p (fun _ _ => True).
Proof.
  intros [Hd Hlen] Hp. unfold aac_parse_adif. unfold c04_two62 in *. pose proof (zlen_nonneg d).
  apply pspecE_bind.
  apply pspecE_post with (Q := fun _ p' => 0 <= p').
  { apply pspec_catchM.
    set (E := fun e : exc => e = EMutagen \/ is_ebitreader e = true).
    assert (HEB : E EBitReader) by (right; reflexivity).
    assert (HEM : E EMutagen) by (left; reflexivity).
    br_b.
    br_if 72 ltac:(apply br_skip_spec; br_side).
    br_s. br_b. br_b. br_b.
    br_if 20 ltac:(apply br_skip_spec; br_side).
    apply pspecE_bind. eapply pspecE_post; [apply aac_pce_spec; first [assumption | lia | (unfold c04_two62; lia)]|].
    intros [[sfi ch] s'] p' [Hs' Hp']. cbn [snd] in Hs'. cbv beta iota.
    apply pspecE_bind. eapply pspecE_post; [apply freq_lookup_spec|]. intros sr p'' ->. cbv beta.
    apply pspecE_bind. eapply pspecE_post; [apply aac_other_pces_spec; first [assumption | lia | (unfold c04_two62; lia)]|].
    intros s'' p'' [Hs'' Hp'']. cbv beta. apply pspecE_ret. lia. }
  intros [[bitrate sr] ch] p1 Hp1. cbv beta iota.
  pstep. pstep. pstep. pstep. pstep. pstep. pstep.
  apply pspecE_post with (Q := fun _ _ => True); [|intros; pstep; exact I].
  destruct (bitrate =? 0); cbn [negb]; pstep; exact I.
Qed.

(* ---------------------------------------------------------------- ADTS *)
Definition EB (e : exc) : Prop := e = EMutagen \/ is_ebitreader e = true.
Lemma EB_B : EB EBitReader. Proof. right; reflexivity. Qed.
Lemma EB_M : EB EMutagen. Proof. left; reflexivity. Qed.

(* `' (v, s) <~ br_bits c s ;; k` and `s <~ br_skip c s ;; k` with the exact bit position *)
Ltac br_bx :=
  apply pspecE_bind; eapply pspecE_post;
  [apply br_bits_x; first [exact EB_B | assumption | lia | (unfold c04_two62 in *; lia) | apply brinv0]
  | let v := fresh "v" in let s' := fresh "s" in let p' := fresh "p" in
    let Hv := fresh "Hv" in let Hs := fresh "Hs" in let Hp := fresh "Hp" in let Hx := fresh "Hx" in
    intros [v s'] p' [(Hv & Hs & Hp) Hx]; cbn [fst snd] in Hv, Hs, Hp, Hx; br_norm Hv; cbv beta iota ].
Ltac br_sx :=
  apply pspecE_bind; eapply pspecE_post;
  [apply br_skip_x; first [exact EB_B | assumption | lia | (unfold c04_two62 in *; lia) | apply brinv0]
  | let s' := fresh "s" in let p' := fresh "p" in
    let Hs := fresh "Hs" in let Hp := fresh "Hp" in let Hx := fresh "Hx" in
    intros s' p' [[Hs Hp] Hx]; cbv beta iota ].

(* a round of the sync loop: what the try block yields *)
Definition syncQ (p mb : Z) : option bool * brs * Z -> Z -> Prop :=
  fun r p' => match fst (fst r) with
              | Some true => brinv (snd (fst r)) /\ snd (snd (fst r)) = 4 /\ p' = p + 2
              | Some false => True
              | None => brinv (snd (fst r)) /\ snd (snd (fst r)) = 0 /\ p <= p' <= p + 2 /\ snd r <= mb - 1
              end.

Lemma adts_sync_loop_spec d : bytes_ok d -> forall fuel mb s p,
  brinv s -> snd s = 0 -> 0 <= p -> p + 2 * Z.of_nat fuel + 8 < c04_two62 -> mb < Z.of_nat fuel -> 1 <= Z.of_nat fuel ->
  pspec (adts_sync_loop fuel mb s) d p
        (fun r p' => fst r = true -> brinv (snd r) /\ snd (snd r) = 4 /\ p + 1 <= p' <= p + 2 * Z.of_nat fuel).
Proof.
  intros Hd. induction fuel as [|f IH]; intros mb s p Hs Hs0 Hp Hpc Hmb Hf1; cbn [adts_sync_loop]; [lia|].
  - destruct (0 <? mb) eqn:E0; cbn [negb]; [|apply pspecE_ret; cbn [fst]; discriminate]. apply Z.ltb_lt in E0.
    unfold c04_two62 in *. pose proof (zlen_nonneg d).
    apply pspecE_bind.
    apply pspecE_catch' with (E' := EB) (Q0 := syncQ p mb).
    + unfold br_byte. rewrite Hs0. cbn [Z.eqb].
      pstep. pstep. pstep.
      destruct (zlen r =? 1) eqn:E1; cbn [negb]; [|apply pspecE_raise; exact EB_B]. apply Z.eqb_eq in E1.
      pstep. destruct (znth 0 r =? 255).
      * br_bx. unfold bitpos in Hx. rewrite Hs0 in Hx. pose proof Hs1 as [_ Hb].
        destruct (v =? 15); apply pspecE_ret; unfold syncQ; cbn [fst snd].
        -- split; [assumption|split; lia].
        -- split; [apply brinv0|]. cbn [snd]. lia.
      * apply pspecE_ret. unfold syncQ. cbn [fst snd]. split; [assumption|split; [assumption|lia]].
    + intros e He. destruct (is_ebitreader e) eqn:Ee.
      * intros p'. apply pspecE_ret. cbv beta iota. apply pspecE_ret. cbn [fst]. discriminate.
      * destruct He as [He|He]; [exact He|congruence].
    + intros [[ret s'] mb'] p' HQ. unfold syncQ in HQ. cbn [fst snd] in HQ. cbv beta iota.
      destruct ret as [[|]|].
      * apply pspecE_ret. cbn [fst snd]. intros _. destruct HQ as (H1 & H2 & H3). split; [assumption|split; [assumption|lia]].
      * apply pspecE_ret. cbn [fst]. discriminate.
      * destruct HQ as (H1 & H2 & H3 & H4).
        eapply pspecE_post; [apply IH; first [assumption | lia | (unfold c04_two62; lia)]|].
        intros r p'' Hr Ht. specialize (Hr Ht). destruct Hr as (R1 & R2 & R3). split; [assumption|split; [assumption|lia]].
Qed.

Lemma adts_sync_spec d mb0 p : bytes_ok d -> 0 <= mb0 <= 512 -> 0 <= p -> p + 1100 < c04_two62 ->
  pspec (adts_sync mb0) d p
        (fun r p' => fst r = true -> brinv (snd r) /\ snd (snd r) = 4 /\ p + 1 <= p' <= p + 1030).
Proof.
  intros Hd Hmb Hp Hpc. unfold adts_sync. cbv zeta. unfold c04_two62 in *.
  eapply pspecE_post; [apply adts_sync_loop_spec; first [assumption | apply brinv0 | reflexivity | lia | (unfold c04_two62; lia)]|].
  intros r p' Hr Ht. specialize (Hr Ht). destruct Hr as (R1 & R2 & R3). split; [assumption|split; [assumption|lia]].
Qed.

(* the stream record: a key, once set, has its nine fields; a stream with a parsed frame has a positive size *)
Definition key9 (k : list Z) : Prop := exists a b c d e f g h i, k = [a; b; c; d; e; f; g; h; i].
Definition stinv (st : adts) : Prop :=
  0 <= adts_parsed st /\
  match adts_key st with Some k => key9 k | None => adts_parsed st = 0 end /\
  (0 < adts_parsed st -> 0 < adts_last8 st).

Lemma br_get_position_spec E pos0 s d p (Q : Z -> Z -> Prop) :
  Q ((p - pos0) * 8 - snd s) p -> pspecE E (br_get_position pos0 s) d p Q.
Proof. intro H. exact H. Qed.

Definition frameA (p pos0 : Z) (s : brs) : option (Z * Z * list Z * brs) -> Z -> Prop :=
  fun a p' => match a with
              | None => True
              | Some (start, _, key, s') =>
                  brinv s' /\ p <= p' <= p + 16 /\ bitpos p' s' = bitpos p s + 16 /\
                  start = (p - pos0) * 8 - snd s - 12 /\ key9 key
              end.

Lemma adts_parse_frame_spec d pos0 st s p :
  bytes_ok d -> brinv s -> snd s = 4 -> stinv st -> 0 <= pos0 < p -> p + 70000 < c04_two62 ->
  pspec (adts_parse_frame pos0 st s) d p
        (fun r p' => stinv (snd (fst r)) /\ (fst (fst r) = true -> brinv (snd r) /\ p <= p' <= p + 70000)).
Proof.
  intros Hd Hs Hs4 Hst Hpos Hpc. unfold adts_parse_frame. unfold c04_two62 in *.
  apply pspecE_bind.
  apply pspecE_catch' with (E' := EB) (Q0 := frameA p pos0 s).
  - apply pspecE_bind. apply br_get_position_spec. cbv beta.
    br_bx. br_bx. br_bx. br_bx. br_bx. br_bx. br_bx. br_bx. br_bx.
    apply pspecE_ret. unfold frameA. unfold bitpos in *.
    split; [assumption|]. split; [lia|]. split; [lia|]. split; [lia|]. do 9 eexists; reflexivity.
  - intros e He. destruct (is_ebitreader e) eqn:Ee.
    + intros p'. apply pspecE_ret. cbv beta iota. apply pspecE_ret. cbn [fst snd]. split; [assumption|discriminate].
    + destruct He as [He|He]; [exact He|congruence].
  - intros [[[[start pa] key] s1]|] p1 HA; cbv beta iota; [|apply pspecE_ret; cbn [fst snd]; split; [assumption|discriminate]].
    destruct HA as (Hs1 & Hp1 & Hx1 & Hstart & Hkey).
    destruct st as [[[[okey parsed] samples] payload8] last8].
    destruct Hst as (Hpar & Hk & Hlast). cbn [adts_parsed adts_key adts_last8 fst snd] in Hpar, Hk, Hlast.
    cbv zeta.
    destruct (match okey with Some k => list_eqb k key | None => true end); cbn [negb];
      [|apply pspecE_ret; cbn [fst snd]; split; [|discriminate]; unfold stinv; cbn [adts_parsed adts_key adts_last8 fst snd]; auto].
    set (key' := match okey with Some k => Some k | None => Some key end).
    assert (Hk' : match key' with Some k => key9 k | None => parsed = 0 end).
    { unfold key'. destruct okey; assumption. }
    assert (Hst1 : stinv (key', parsed, samples, payload8, last8)).
    { unfold stinv. cbn [adts_parsed adts_key adts_last8 fst snd]. auto. }
    apply pspecE_bind.
    apply pspecE_catch' with (E' := EB)
      (Q0 := fun b p' => match b with None => True | Some (st2, s') => stinv st2 /\ brinv s' /\ p <= p' <= p + 70000 end).
    + br_sx. br_bx. br_sx. br_bx. cbv zeta.
      apply pspecE_bind. apply br_get_position_spec. cbv beta.
      unfold bitpos in *. rewrite Hs4 in *.
      match goal with |- context [br_skip ?l _] => set (left := l) end.
      assert (Hleft : left = v * 8 - 56) by (unfold left; lia).
      destruct (left <? 0) eqn:El; [apply pspecE_ret; exact I|]. apply Z.ltb_ge in El.
      br_sx. unfold bitpos in *.
      match goal with Hb : brinv ?s |- context [negb (snd ?s =? 0)] =>
        pose proof Hb as [_ Hb6]; destruct (snd s =? 0) eqn:Eal; cbn [negb]; [|apply Z.eqb_neq in Eal; lia]; apply Z.eqb_eq in Eal end.
      apply pspecE_bind. apply br_get_position_spec. cbv beta.
      apply pspecE_ret. split; [|split; [assumption|lia]].
      unfold stinv. cbn [adts_parsed adts_key adts_last8 fst snd].
      split; [lia|]. split; [unfold key'; destruct okey; [exact Hk|exact Hkey]|]. intros _. lia.
    + intros e He. destruct (is_ebitreader e) eqn:Ee.
      * intros p'. apply pspecE_ret. cbv beta iota. apply pspecE_ret. cbn [fst snd]. split; [assumption|discriminate].
      * destruct He as [He|He]; [exact He|congruence].
    + intros [[st2 s2]|] p2 HB; cbv beta iota; apply pspecE_ret; cbn [fst snd].
      * destruct HB as (B1 & B2 & B3). split; [assumption|]. intros _. split; assumption.
      * split; [assumption|discriminate].
Qed.

Lemma adts_frames_spec d pos0 : bytes_ok d -> forall n st s p,
  brinv s -> snd s = 4 -> stinv st -> 0 <= pos0 < p -> p + 72000 * Z.of_nat n < c04_two62 ->
  pspec (adts_frames n pos0 st s) d p (fun st' _ => stinv st').
Proof.
  intros Hd. induction n as [|n IH]; intros st s p Hs Hs4 Hst Hpos Hpc; cbn [adts_frames]; [apply pspecE_ret; exact Hst|].
  unfold c04_two62 in *.
  apply pspecE_bind. eapply pspecE_post; [apply adts_parse_frame_spec; first [assumption | lia | (unfold c04_two62; lia)]|].
  intros [[ok st1] s1] p1 [Hst1 Hok]. cbn [fst snd] in Hst1, Hok. cbv beta iota.
  destruct ok; cbn [negb]; [|apply pspecE_ret; exact Hst1].
  destruct (Hok eq_refl) as [Hs1 Hp1].
  apply pspecE_bind. eapply pspecE_post; [apply adts_sync_spec; first [assumption | lia | (unfold c04_two62; lia)]|].
  intros [ok2 s2] p2 Hok2. cbn [fst snd] in Hok2. cbv beta iota.
  destruct ok2; cbn [negb]; [|apply pspecE_ret; exact Hst1].
  destruct (Hok2 eq_refl) as (Hs2 & Hs24 & Hp2).
  apply IH; first [assumption | lia | (unfold c04_two62; lia)].
Qed.

Lemma adts_find_stream_spec d p : bytes_ok d -> 0 <= p -> p + 1100 < c04_two62 ->
  pspec adts_find_stream d p
        (fun f p' => match f with
                     | None => True
                     | Some (pos0, soff, s) => pos0 = p /\ brinv s /\ snd s = 4 /\ p + 1 <= p' <= p + 1030 /\ -1 <= soff <= 1100
                     end).
Proof.
  intros Hd Hp Hpc. unfold adts_find_stream.
  pstep. pstep.
  pstep. eapply pspecE_post; [apply adts_sync_spec; first [assumption | lia]|].
  intros [ok s] p' Hok. cbn [fst snd] in Hok. cbv beta iota.
  destruct ok; cbn [negb]; [|apply pspecE_ret; exact I].
  destruct (Hok eq_refl) as (Hs & Hs4 & Hp').
  apply pspecE_bind. apply br_get_position_spec. cbv beta. apply pspecE_ret.
  rewrite Hs4. pose proof (div8_bounds ((p' - p) * 8 - 4 - 12)).
  split; [reflexivity|split; [assumption|split; [reflexivity|split; [assumption|lia]]]].
Qed.

Definition st0 : adts := (None, 0, 0, 0, 0).
Lemma stinv0 : stinv st0.
Proof. unfold stinv, st0. cbn. split; [lia|]. split; [reflexivity|lia]. Qed.

Lemma adts_tries_spec d : bytes_ok d -> forall n offset p,
  0 <= offset -> offset + 1200 * Z.of_nat n + 10000000 < c04_two62 ->
  pspec (adts_tries n offset) d p (fun r _ => stinv (snd r) /\ 3 <= adts_parsed (snd r)).
Proof.
  intros Hd. induction n as [|n IH]; intros offset p Ho Hoc; cbn [adts_tries]; [praiseM|].
  unfold c04_two62 in *.
  pstep. pstep.
  pstep. eapply pspecE_post; [apply adts_find_stream_spec; first [assumption | lia | (unfold c04_two62; lia)]|].
  intros [[[pos0 soff] s]|] p1 Hf; cbv beta iota; [|praiseM].
  destruct Hf as (-> & Hs & Hs4 & Hp1 & Hsoff). cbv zeta.
  apply pspecE_bind. eapply pspecE_post; [apply (adts_frames_spec d offset Hd 100 st0 s p1); first [assumption | apply stinv0 | lia | (unfold c04_two62; lia)]|].
  intros st p2 Hst. cbv beta.
  destruct (3 <=? adts_parsed st) eqn:E3.
  - apply Z.leb_le in E3. apply pspecE_ret. cbn [snd]. split; assumption.
  - apply IH; lia.
Qed.

(* the properties of a stream with a parsed frame are plain values *)
Lemma key9_index k i : key9 k -> 0 <= i < 9 -> exists v, list_index i k = Ok v.
Proof. intros Hk Hi. destruct (list_index_ok i k) as (v & Hv & _); [|exists v; exact Hv]. destruct Hk as (a&b&c&d0&e&f&g&h&i0&->). cbn. lia. Qed.

Lemma adts_frequency_eq st : stinv st -> 0 < adts_parsed st ->
  exists f, forall d p, adts_frequency st d p = (Ok f, p).
Proof.
  intros (Hpar & Hk & _) Hpos. destruct (adts_key st) as [k|] eqn:Ek; [|lia].
  destruct (key9_index k 4 Hk ltac:(lia)) as (fi & Hfi).
  exists (match list_index fi aac_freqs with Ok a => a | Raise _ => 0 end). intros d p.
  unfold adts_frequency, adts_assert_parsed, adts_key_at, pbind, pcatch, plift, pret, praise.
  destruct (adts_parsed st =? 0) eqn:E0; [apply Z.eqb_eq in E0; lia|].
  rewrite Ek, Hfi.
  destruct (list_index_cases fi aac_freqs) as [(a & Ha & _)|Hr]; [rewrite Ha|rewrite Hr]; reflexivity.
Qed.
Lemma adts_channels_eq st : stinv st -> 0 < adts_parsed st ->
  exists c, forall d p, adts_channels st d p = (Ok c, p).
Proof.
  intros (Hpar & Hk & _) Hpos. destruct (adts_key st) as [k|] eqn:Ek; [|lia].
  destruct (key9_index k 6 Hk ltac:(lia)) as (bi & Hbi).
  eexists. intros d p.
  unfold adts_channels, adts_assert_parsed, adts_key_at, pbind, plift, pret, praise.
  destruct (adts_parsed st =? 0) eqn:E0; [apply Z.eqb_eq in E0; lia|].
  rewrite Ek, Hbi. reflexivity.
Qed.

Lemma aac_parse_adts_spec d start_offset p : c04_input d -> 0 <= start_offset <= 1000000000 ->
  pspec (aac_parse_adts start_offset) d p (fun _ _ => True).
Proof.
  intros [Hd Hlen] Hso. unfold aac_parse_adts. unfold c04_two62 in *. pose proof (zlen_nonneg d).
  apply pspecE_bind. eapply pspecE_post; [apply adts_tries_spec; first [assumption | lia | (unfold c04_two62; cbn; lia)]|].
  intros [[offset soff] st] p1 [Hst H3]. cbn [snd] in Hst, H3. cbv beta iota.
  destruct (adts_frequency_eq st Hst ltac:(lia)) as (f & Hf).
  destruct (adts_channels_eq st Hst ltac:(lia)) as (c & Hc).
  assert (Hassert : forall d p, adts_assert_parsed st d p = (Ok tt, p)).
  { intros d' p'. unfold adts_assert_parsed. destruct (adts_parsed st =? 0) eqn:E0; [apply Z.eqb_eq in E0; lia|reflexivity]. }
  apply pspecE_bind. eapply pspecE_of_eq; [apply Hf|]. cbv beta.
  apply pspecE_bind. eapply pspecE_of_eq; [apply Hc|]. cbv beta.
  apply pspecE_bind. eapply pspecE_of_eq; [apply Hassert|]. cbv beta.
  apply pspecE_bind. apply pspecE_post with (Q := fun _ p' => p' = p1).
  { destruct (adts_samples st =? 0); [apply pspecE_ret; reflexivity|].
    apply pspecE_bind. eapply pspecE_of_eq; [apply Hf|]. cbv beta. apply pspecE_ret. reflexivity. }
  intros [hasf bitrate] p2 ->. cbv beta iota.
  pstep. pstep. pstep. pstep. cbv zeta.
  apply pspecE_bind. eapply pspecE_of_eq; [apply Hf|]. cbv beta.
  apply pspecE_bind. apply pspecE_post with (Q := fun _ _ => True); [|intros; apply pspecE_ret; exact I].
  destruct (f =? 0) eqn:Ef; cbn [negb]; [apply pspecE_ret; exact I|]. apply Z.eqb_neq in Ef.
  apply pspecE_bind. eapply pspecE_of_eq; [apply Hassert|]. cbv beta.
  apply pspecE_bind. eapply pspecE_of_eq; [apply Hassert|]. cbv beta.
  apply pspecE_bind. eapply pspecE_of_eq; [apply Hf|]. cbv beta.
  destruct Hst as (_ & _ & Hlast). specialize (Hlast ltac:(lia)).
  destruct ((adts_last8 st - 0) * f =? 0) eqn:Ez; [apply Z.eqb_eq in Ez; nia|]. apply pspecE_ret. exact I.
Qed.

Theorem aac_total d : c04_input d -> total (aac_load d).
Proof.
  intros Hin. pose proof Hin as [Hd Hlen]. unfold aac_load. eapply total_prun with (Q := fun _ _ => True).
  unfold aac_init. apply pspec_convert_io. pose proof (zlen_nonneg d).
  pstep. pstep. cbv zeta.
  set (so := if starts_with aac_ID3 r then mpc_bpi7 (zdrop 6 r) + 10 else 0).
  assert (Hso : 0 <= so <= 300000000).
  { unfold so. destruct (starts_with aac_ID3 r); [|lia].
    pose proof (bpi7_bound (zdrop 6 r) ltac:(rewrite zlen_zdrop by lia; lia)). lia. }
  pstep. pstep. pstep. pstep.
  destruct (list_eqb r0 aac_ADIF).
  - apply aac_parse_adif_spec; [assumption|lia].
  - apply aac_parse_adts_spec; [assumption|lia].
Qed.
