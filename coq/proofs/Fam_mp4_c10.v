(* The C10 statements over mp4_wf / mp4_save, assembled from Fam_mp4_main (existing-tags case). *)
From Coq Require Import ZArith List Bool Lia.
Import ListNotations.
Require Import Base.Py Base.ZList Model.Splice Model.Fam_mp4 Proofs.Splice_lemmas
  Proofs.Fam_mp4_bytes Proofs.Fam_mp4_tree Proofs.Fam_mp4_parse Proofs.Fam_mp4_steps Proofs.Fam_mp4_agree Proofs.Fam_mp4_path
  Proofs.Fam_mp4_lists Proofs.Fam_mp4_surgery Proofs.Fam_mp4_shift Proofs.Fam_mp4_existing Proofs.Fam_mp4_main.
Open Scope Z_scope.

(* the rendered ilst handed to save is itself one well-formed atom *)
Definition ilst_wellformed (ilst_data : list Z) (it : mp4_atom) : Prop :=
  mp4_forest_ok ilst_data false [it] 0 (zlen ilst_data) = true.

Lemma wf_forest f atoms : mp4_wf f = true -> mp4_atoms f = Ok atoms ->
  mp4_forest_ok f true atoms 0 (zlen f) = true /\ mp4_tables_ok f atoms = true.
Proof.
  intros Hwf Ha. destruct (wf_parts f Hwf) as (a & Ha' & H1 & H2 & _). rewrite Ha in Ha'. inversion Ha'; subst. auto.
Qed.

Theorem c10_parents_consistent f ilst_data cb f' atoms path it :
  mp4_wf f = true -> mp4_atoms f = Ok atoms -> mp4_path atoms ILST_PATH = Some path -> mp4_tags_clean atoms = true ->
  ilst_wellformed ilst_data it -> mp4_save f ilst_data cb = Ok f' ->
  exists atoms', mp4_atoms f' = Ok atoms' /\ mp4_forest_ok f' true atoms' 0 (zlen f') = true.
Proof.
  intros Hwf Ha Hp Hc Hit Hs. destruct (wf_forest f atoms Hwf Ha) as (H1 & H2).
  destruct (save_existing_wellformed f atoms path ilst_data cb f' Ha H1 H2 Hp Hc Hs it Hit) as (atoms' & E1 & E2 & _).
  exists atoms'. auto.
Qed.

Theorem c10_offsets_follow_data f ilst_data cb f' atoms path :
  mp4_wf f = true -> mp4_atoms f = Ok atoms -> mp4_path atoms ILST_PATH = Some path -> mp4_tags_clean atoms = true ->
  mp4_save f ilst_data cb = Ok f' ->
  exists off old, mp4_region_of path = Some (off, old) /\ 0 <= off /\ 8 <= old /\ off + old <= zlen f /\
    let delta := zlen f' - zlen f in
    let np := mp4_newpos off old delta in
    (forall T, In T (mp4_stco_list atoms) ->
       tab_entries 4 f' (np (ma_off T)) = map (mp4_shift off delta) (tab_entries 4 f (ma_off T))) /\
    (forall T, In T (mp4_co64_list atoms) ->
       tab_entries 8 f' (np (ma_off T)) = map (mp4_shift off delta) (tab_entries 8 f (ma_off T))) /\
    (forall T, In T (mp4_tfhd_list atoms) -> tfhd_flag f (ma_off T) = true ->
       tfhd_flag f' (np (ma_off T)) = true /\
       tfhd_base f' (np (ma_off T)) = mp4_shift off delta (tfhd_base f (ma_off T))) /\
    (forall L, In L (mp4_flat atoms) -> ma_kids L = None -> is_table_name L = false ->
       (ma_off L + ma_len L <= off \/ off + old <= ma_off L) ->
       agree f (ma_off L) f' (np (ma_off L)) (ma_len L)) /\
    agree (new_region cb f off old ilst_data) 0 f' off (zlen (new_region cb f off old ilst_data)) /\
    delta = zlen (new_region cb f off old ilst_data) - old.
Proof.
  intros Hwf Ha Hp Hc Hs. destruct (wf_forest f atoms Hwf Ha) as (H1 & H2).
  exact (save_existing_offsets f atoms path ilst_data cb f' Ha H1 H2 Hp Hc Hs).
Qed.

(* a sample chunk: an offset o recorded in the file that points into a media atom L behind (before) the replaced region;
   the n bytes it addresses are found at o + delta (at o) in the result -- with the table entry rewritten accordingly *)
Corollary c10_chunk_bytes f ilst_data cb f' atoms path :
  mp4_wf f = true -> mp4_atoms f = Ok atoms -> mp4_path atoms ILST_PATH = Some path -> mp4_tags_clean atoms = true ->
  mp4_save f ilst_data cb = Ok f' ->
  exists off old, mp4_region_of path = Some (off, old) /\
    let delta := zlen f' - zlen f in
    forall L o n, In L (mp4_flat atoms) -> ma_kids L = None -> is_table_name L = false ->
      ma_off L <= o -> 0 <= n -> o + n <= ma_off L + ma_len L ->
      (off + old <= ma_off L ->
         mp4_shift off delta o = o + delta /\ mp4_rd f' (o + delta) n = mp4_rd f o n) /\
      (ma_off L + ma_len L <= off ->
         mp4_shift off delta o = o /\ mp4_rd f' o n = mp4_rd f o n).
Proof.
  intros Hwf Ha Hp Hc Hs.
  destruct (c10_offsets_follow_data f ilst_data cb f' atoms path Hwf Ha Hp Hc Hs) as (off & old & Hr & H0 & H8 & Hf & HH).
  exists off, old. split; [exact Hr|]. cbv zeta in *. destruct HH as (_ & _ & _ & HL & _ & _).
  intros L o n HLin KL NL Ho Hn Hon. split.
  - intros Hpos. pose proof (HL L HLin KL NL (or_intror Hpos)) as AG.
    unfold mp4_newpos in AG. destruct (off + old <=? ma_off L) eqn:E; [|lia].
    split; [unfold mp4_shift; destruct (off <? o) eqn:E2; lia|].
    pose proof (agree_rd _ _ _ _ _ (o - ma_off L) n AG) as X.
    replace (ma_off L + (o - ma_off L)) with o in X by lia.
    replace (ma_off L + (zlen f' - zlen f) + (o - ma_off L)) with (o + (zlen f' - zlen f)) in X by lia.
    symmetry. apply X; lia.
  - intros Hpos. pose proof (HL L HLin KL NL (or_introl Hpos)) as AG.
    unfold mp4_newpos in AG. destruct (off + old <=? ma_off L) eqn:E; [lia|].
    split; [unfold mp4_shift; destruct (off <? o) eqn:E2; lia|].
    pose proof (agree_rd _ _ _ _ _ (o - ma_off L) n AG) as X.
    replace (ma_off L + (o - ma_off L)) with o in X by lia.
    symmetry. apply X; lia.
Qed.
