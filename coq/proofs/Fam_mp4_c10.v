(* The C10 statements over mp4_wf / mp4_save, assembled from Fam_mp4_main (existing-tags case). *)
From Coq Require Import ZArith List Bool Lia.
Import ListNotations.
Require Import Base.Py Base.ZList Model.Splice Model.Fam_mp4 Proofs.Splice_lemmas
  Proofs.Fam_mp4_bytes Proofs.Fam_mp4_tree Proofs.Fam_mp4_parse Proofs.Fam_mp4_steps Proofs.Fam_mp4_agree Proofs.Fam_mp4_path
  Proofs.Fam_mp4_lists Proofs.Fam_mp4_surgery Proofs.Fam_mp4_shift Proofs.Fam_mp4_existing Proofs.Fam_mp4_main.
Open Scope Z_scope.

(* the rendered ilst handed to save is itself one well-formed atom *)
Definition ilst_wellformed (ilst_data : list Z) (it : mp4_atom) : Prop :=
  mp4_forest_ok ilst_data false [it] 0 (zlen ilst_data) = true.

Lemma wf_forest f atoms : mp4_wf f = true -> mp4_atoms f = Ok atoms ->
  mp4_forest_ok f true atoms 0 (zlen f) = true /\ mp4_tables_ok f atoms = true.
Proof.
  intros Hwf Ha. destruct (wf_parts f Hwf) as (a & Ha' & H1 & H2 & _ & _). rewrite Ha in Ha'. inversion Ha'; subst. auto.
Qed.
Lemma wf_height f atoms : mp4_wf f = true -> mp4_atoms f = Ok atoms -> mp4_forest_height atoms <= MP4_MAXDEPTH.
Proof.
  intros Hwf Ha. destruct (wf_parts f Hwf) as (a & Ha' & _ & _ & _ & H). rewrite Ha in Ha'. inversion Ha'; subst. exact H.
Qed.

Theorem c10_parents_consistent f ilst_data cb f' atoms path it :
  mp4_wf f = true -> mp4_atoms f = Ok atoms -> mp4_path atoms ILST_PATH = Some path -> mp4_tags_clean atoms = true ->
  ilst_wellformed ilst_data it -> mp4_height it <= 62 -> mp4_save f ilst_data cb = Ok f' ->
  exists atoms', mp4_atoms f' = Ok atoms' /\ mp4_forest_ok f' true atoms' 0 (zlen f') = true /\
                 mp4_forest_height atoms' <= MP4_MAXDEPTH.
Proof.
  intros Hwf Ha Hp Hc Hit Hih Hs. destruct (wf_forest f atoms Hwf Ha) as (H1 & H2).
  exact (save_existing_wellformed f atoms path ilst_data cb f' Ha H1 H2 Hp Hc Hs (wf_height f atoms Hwf Ha) it Hit Hih).
Qed.

Theorem c10_offsets_follow_data f ilst_data cb f' atoms path :
  mp4_wf f = true -> mp4_atoms f = Ok atoms -> mp4_path atoms ILST_PATH = Some path -> mp4_tags_clean atoms = true ->
  mp4_save f ilst_data cb = Ok f' ->
  exists off old, mp4_region_of path = Some (off, old) /\ 0 <= off /\ 8 <= old /\ off + old <= zlen f /\
    let delta := zlen f' - zlen f in
    let np := mp4_newpos off old delta in
    (forall T, In T (mp4_stco_list atoms) ->
       tab_entries 4 f' (np (ma_off T)) = map (mp4_shift off delta) (tab_entries 4 f (ma_off T))) /\
    (forall T, In T (mp4_co64_list atoms) ->
       tab_entries 8 f' (np (ma_off T)) = map (mp4_shift off delta) (tab_entries 8 f (ma_off T))) /\
    (forall T, In T (mp4_tfhd_list atoms) -> tfhd_flag f (ma_off T) = true ->
       tfhd_flag f' (np (ma_off T)) = true /\
       tfhd_base f' (np (ma_off T)) = mp4_shift off delta (tfhd_base f (ma_off T))) /\
    (forall L, In L (mp4_flat atoms) -> ma_kids L = None -> is_table_name L = false ->
       (ma_off L + ma_len L <= off \/ off + old <= ma_off L) ->
       agree f (ma_off L) f' (np (ma_off L)) (ma_len L)) /\
    agree (new_region cb f off old ilst_data) 0 f' off (zlen (new_region cb f off old ilst_data)) /\
    delta = zlen (new_region cb f off old ilst_data) - old.
Proof.
  intros Hwf Ha Hp Hc Hs. destruct (wf_forest f atoms Hwf Ha) as (H1 & H2).
  exact (save_existing_offsets f atoms path ilst_data cb f' Ha H1 H2 Hp Hc Hs).
Qed.

(* a sample chunk: an offset o recorded in the file that points into a media atom L behind (before) the replaced region;
   the n bytes it addresses are found at o + delta (at o) in the result -- with the table entry rewritten accordingly *)
Corollary c10_chunk_bytes f ilst_data cb f' atoms path :
  mp4_wf f = true -> mp4_atoms f = Ok atoms -> mp4_path atoms ILST_PATH = Some path -> mp4_tags_clean atoms = true ->
  mp4_save f ilst_data cb = Ok f' ->
  exists off old, mp4_region_of path = Some (off, old) /\
    let delta := zlen f' - zlen f in
    forall L o n, In L (mp4_flat atoms) -> ma_kids L = None -> is_table_name L = false ->
      ma_off L <= o -> 0 <= n -> o + n <= ma_off L + ma_len L ->
      (off + old <= ma_off L ->
         mp4_shift off delta o = o + delta /\ mp4_rd f' (o + delta) n = mp4_rd f o n) /\
      (ma_off L + ma_len L <= off ->
         mp4_shift off delta o = o /\ mp4_rd f' o n = mp4_rd f o n).
Proof.
  intros Hwf Ha Hp Hc Hs.
  destruct (c10_offsets_follow_data f ilst_data cb f' atoms path Hwf Ha Hp Hc Hs) as (off & old & Hr & H0 & H8 & Hf & HH).
  exists off, old. split; [exact Hr|]. cbv zeta in *. destruct HH as (_ & _ & _ & HL & _ & _).
  intros L o n HLin KL NL Ho Hn Hon. split.
  - intros Hpos. pose proof (HL L HLin KL NL (or_intror Hpos)) as AG.
    unfold mp4_newpos in AG. destruct (off + old <=? ma_off L) eqn:E; [|lia].
    split; [unfold mp4_shift; destruct (off <? o) eqn:E2; lia|].
    pose proof (agree_rd _ _ _ _ _ (o - ma_off L) n AG) as X.
    replace (ma_off L + (o - ma_off L)) with o in X by lia.
    replace (ma_off L + (zlen f' - zlen f) + (o - ma_off L)) with (o + (zlen f' - zlen f)) in X by lia.
    symmetry. apply X; lia.
  - intros Hpos. pose proof (HL L HLin KL NL (or_introl Hpos)) as AG.
    unfold mp4_newpos in AG. destruct (off + old <=? ma_off L) eqn:E; [lia|].
    split; [unfold mp4_shift; destruct (off <? o) eqn:E2; lia|].
    pose proof (agree_rd _ _ _ _ _ (o - ma_off L) n AG) as X.
    replace (ma_off L + (o - ma_off L)) with o in X by lia.
    symmetry. apply X; lia.
Qed.

Lemma wf_entries f atoms : mp4_wf f = true -> mp4_atoms f = Ok atoms -> mp4_entries_in_file f atoms = true.
Proof.
  intros Hwf Ha. destruct (wf_parts f Hwf) as (a & Ha' & _ & _ & H3 & _). rewrite Ha in Ha'. inversion Ha'; subst. exact H3.
Qed.

(* mp4_wf is preserved: with every table of the file among those the save visits, and no item of the new ilst named like a table *)
Theorem c10_wf_preserved f ilst_data cb f' atoms path it :
  mp4_wf f = true -> mp4_atoms f = Ok atoms -> mp4_path atoms ILST_PATH = Some path -> mp4_tags_clean atoms = true ->
  covered atoms -> ilst_wellformed ilst_data it -> ilst_clean it = true -> mp4_height it <= 62 ->
  mp4_save f ilst_data cb = Ok f' -> mp4_wf f' = true.
Proof.
  intros Hwf Ha Hp Hc Hcov Hit Hic Hih Hs. destruct (wf_forest f atoms Hwf Ha) as (H1 & H2).
  exact (save_existing_wf f atoms path ilst_data cb f' Ha H1 H2 Hp Hc Hs (wf_height f atoms Hwf Ha) it Hit Hic Hih Hcov (wf_entries f atoms Hwf Ha)).
Qed.

(* ------------------------------------------------------------------ `covered` is decidable on a well-formed tree *)
Definition same_key (x y : mp4_atom) : bool :=
  list_eqb (ma_name x) (ma_name y) && (ma_off x =? ma_off y) && (ma_len x =? ma_len y) && (ma_hdr x =? ma_hdr y).
Definition covered_b (ks : list mp4_atom) : bool :=
  forallb (fun x =>
    (if mp4_named N_stco x then existsb (same_key x) (mp4_stco_list ks) else true) &&
    (if mp4_named N_co64 x then existsb (same_key x) (mp4_co64_list ks) else true) &&
    (if mp4_named N_tfhd x then existsb (same_key x) (mp4_tfhd_list ks) else true)) (mp4_flat ks).

Lemma same_key_leaf x y : same_key x y = true -> ma_kids x = None -> ma_kids y = None -> x = y.
Proof.
  unfold same_key. intros H Kx Ky. destruct x as [n o l h k], y as [n' o' l' h' k']. cbn in *. subst.
  apply andb_true_iff in H. destruct H as [H H4]. apply andb_true_iff in H. destruct H as [H H3].
  apply andb_true_iff in H. destruct H as [H1 H2]. apply list_eqb_spec in H1. apply Z.eqb_eq in H2, H3, H4. subst. reflexivity.
Qed.

Lemma covered_of_b f ks : mp4_forest_ok f true ks 0 (zlen f) = true -> covered_b ks = true -> covered ks.
Proof.
  intros Hwf Hb x Hx. unfold covered_b in Hb. rewrite forallb_forall in Hb. specialize (Hb x Hx).
  apply andb_true_iff in Hb. destruct Hb as [Hb H3]. apply andb_true_iff in Hb. destruct Hb as [H1 H2].
  assert (Hleaf : forall y n, In y (mp4_flat ks) -> ma_name y = n -> mp4_is_container n = false -> ma_kids y = None).
  { intros y n Hy Hn Hc. destruct (flat_member_ok f ks Hwf y Hy) as (top & Hok).
    destruct (ma_kids y) as [k|] eqn:E; [|reflexivity]. destruct (atom_ok_kids _ _ _ _ Hok E) as (C & _). congruence. }
  unfold mp4_named in *. repeat split; intros E; rewrite E in *.
  - change (list_eqb N_stco N_stco) with true in H1. cbv iota in H1. apply existsb_exists in H1. destruct H1 as (y & Hy & K).
    destruct (stco_in ks y Hy) as (Hyf & Hyn).
    rewrite (same_key_leaf x y K (Hleaf x N_stco Hx E eq_refl) (Hleaf y N_stco Hyf Hyn eq_refl)). exact Hy.
  - change (list_eqb N_co64 N_co64) with true in H2. cbv iota in H2. apply existsb_exists in H2. destruct H2 as (y & Hy & K).
    destruct (co64_in ks y Hy) as (Hyf & Hyn).
    rewrite (same_key_leaf x y K (Hleaf x N_co64 Hx E eq_refl) (Hleaf y N_co64 Hyf Hyn eq_refl)). exact Hy.
  - change (list_eqb N_tfhd N_tfhd) with true in H3. cbv iota in H3. apply existsb_exists in H3. destruct H3 as (y & Hy & K).
    destruct (tfhd_in ks y Hy) as (Hyf & Hyn).
    rewrite (same_key_leaf x y K (Hleaf x N_tfhd Hx E eq_refl) (Hleaf y N_tfhd Hyf Hyn eq_refl)). exact Hy.
Qed.

(* ------------------------------------------------------------------ the file has no moov.udta.meta.ilst yet (__save_new) *)
Require Import Proofs.Fam_mp4_new.

Theorem c10_offsets_follow_data_new f ilst_data cb f' atoms path last rest :
  mp4_wf f = true -> mp4_atoms f = Ok atoms -> mp4_path atoms ILST_PATH = None ->
  insert_path atoms = Some path -> rev path = last :: rest ->
  mp4_save f ilst_data cb = Ok f' ->
  let off := ma_off last + ma_hdr last in
  let data := new_insert cb f last ilst_data in
  let delta := zlen f' - zlen f in
  let np := mp4_newpos off 0 delta in
  0 <= off <= zlen f /\ delta = zlen data /\
  (forall T, In T (mp4_stco_list atoms) ->
     tab_entries 4 f' (np (ma_off T)) = map (mp4_shift (off - 1) delta) (tab_entries 4 f (ma_off T))) /\
  (forall T, In T (mp4_co64_list atoms) ->
     tab_entries 8 f' (np (ma_off T)) = map (mp4_shift (off - 1) delta) (tab_entries 8 f (ma_off T))) /\
  (forall T, In T (mp4_tfhd_list atoms) -> tfhd_flag f (ma_off T) = true ->
     tfhd_flag f' (np (ma_off T)) = true /\
     tfhd_base f' (np (ma_off T)) = mp4_shift (off - 1) delta (tfhd_base f (ma_off T))) /\
  (forall L, In L (mp4_flat atoms) -> ma_kids L = None -> is_table_name L = false ->
     (ma_off L + ma_len L <= off \/ off <= ma_off L) ->
     agree f (ma_off L) f' (np (ma_off L)) (ma_len L)) /\
  agree data 0 f' off (zlen data) /\
  (forall A, In A path -> anc_updated f delta f' A).
Proof.
  intros Hwf Ha Hnone Hip Hlast Hs. destruct (wf_forest f atoms Hwf Ha) as (H1 & H2).
  unfold mp4_save in Hs. rewrite Ha, Hnone in Hs.
  destruct (save_new_unfold f atoms ilst_data cb f' Hs) as (path' & last' & rest' & Hip' & Hlast' & Hfit & f2 & R1 & R2).
  rewrite Hip in Hip'. inversion Hip'; subst path'. rewrite Hlast in Hlast'. inversion Hlast'; subst last' rest'.
  cbv zeta in *. set (off := ma_off last + ma_hdr last) in *. set (data := new_insert cb f last ilst_data) in *.
  assert (R1' : mp4_update_parents (zlen data - 0) (splice f off 0 data) (map ma_off path) = Ok f2) by (rewrite Z.sub_0_r; exact R1).
  assert (R2' : mp4_update_offsets atoms (zlen data - 0) (off - 1) f2 = Ok f') by (rewrite Z.sub_0_r; exact R2).
  pose proof (new_result f atoms H1 H2 path last rest Hip Hlast data f2 f' R1' R2') as (Z & Fr & AGD & UA & U4 & U8 & UT).
  pose proof (last_facts f atoms H1 H2 path last rest Hip Hlast) as (_ & _ & _ & _ & Hoff).
  assert (Hd : zlen f' - zlen f = zlen data - 0) by lia.
  rewrite Hd. split; [exact Hoff|]. split; [lia|]. split; [|split; [|split; [|split; [|split]]]].
  - intros T HT. destruct (U4 T HT) as (_ & E). rewrite mv_newpos in E. exact E.
  - intros T HT. destruct (U8 T HT) as (_ & E). rewrite mv_newpos in E. exact E.
  - intros T HT Hfl. destruct (UT T HT) as (A12 & _ & UTT). destruct (UTT Hfl) as (TB & A16 & _).
    rewrite mv_newpos in *. split; [|exact TB].
    rewrite <- Hfl. symmetry. apply (tfhd_flag_agree _ _ _ _ _ A12). lia.
  - intros L HL KL NL Hpos. rewrite <- mv_newpos.
    exact (new_leaf_kept f atoms H1 H2 path last rest Hip Hlast data f2 f' R1' R2' L HL KL NL Hpos).
  - exact AGD.
  - exact UA.
Qed.

(* well-formedness of the result of __save_new *)
Require Import Proofs.Fam_mp4_newwf.

Theorem c10_parents_consistent_new f ilst_data cb f' atoms path last rest it :
  mp4_wf f = true -> mp4_atoms f = Ok atoms -> mp4_path atoms ILST_PATH = None ->
  mp4_insert_path atoms = Some path -> rev path = last :: rest ->
  ilst_wellformed ilst_data it -> mp4_height it <= 62 -> zlen ilst_data < 4611686018427387904 ->
  mp4_save f ilst_data cb = Ok f' ->
  exists atoms', mp4_atoms f' = Ok atoms' /\ mp4_forest_ok f' true atoms' 0 (zlen f') = true /\
                 mp4_forest_height atoms' <= MP4_MAXDEPTH.
Proof.
  intros Hwf Ha Hnone Hip Hlast Hit Hih Hsmall Hs. destruct (wf_forest f atoms Hwf Ha) as (H1 & H2).
  pose proof (wf_height f atoms Hwf Ha) as Hh.
  unfold mp4_save in Hs. rewrite Ha, Hnone in Hs.
  destruct (save_new_unfold f atoms ilst_data cb f' Hs) as (path' & last' & rest' & Hip' & Hlast' & Hfit & f2 & R1 & R2).
  rewrite Hip in Hip'. inversion Hip'; subst path'. rewrite Hlast in Hlast'. inversion Hlast'; subst last' rest'.
  cbv zeta in *.
  assert (R1' : mp4_update_parents (zlen (mp4_new_insert cb f last ilst_data) - 0)
                  (splice f (ma_off last + ma_hdr last) 0 (mp4_new_insert cb f last ilst_data)) (map ma_off path) = Ok f2)
    by (rewrite Z.sub_0_r; exact R1).
  assert (R2' : mp4_update_offsets atoms (zlen (mp4_new_insert cb f last ilst_data) - 0) (ma_off last + ma_hdr last - 1) f2 = Ok f')
    by (rewrite Z.sub_0_r; exact R2).
  assert (Hfin : exists atoms', mp4_forest_ok f' true atoms' 0 (zlen f') = true /\
                   mp4_forest_height atoms' <= Z.max (mp4_forest_height atoms) (3 + Z.max 1 (mp4_height it))).
  { destruct (insert_path_cases atoms path Hip) as [(moov & udta & km & -> & C1 & K1 & C2)|(moov & -> & C1)].
    - cbn in Hlast. inversion Hlast; subst last rest.
      destruct (child_split _ _ _ C1) as (T1 & T2 & E1 & N1 & _). destruct (child_split _ _ _ C2) as (M1 & M2 & E2 & N2 & _).
      subst km.
      assert (Ku : exists K, ma_kids udta = Some K).
      { rewrite E1 in H1. pose proof (forest_ok_split _ _ _ _ _ _ _ H1) as (_ & Hm & _).
        destruct (atom_ok_kids _ _ _ _ Hm K1) as (_ & Hk). pose proof (forest_ok_split _ _ _ _ _ _ _ Hk) as (_ & Hu & _).
        apply (proj1 (atom_ok_kids_iff _ _ _ Hu)). rewrite N2. reflexivity. }
      destruct Ku as (K & Ku).
      exact (new_wellformed_udta f atoms H1 H2 cb ilst_data it Hit Hsmall moov udta T1 T2 M1 M2 K [moov] f2 f'
               Hip E1 N1 K1 N2 Ku eq_refl R1' R2').
    - cbn in Hlast. inversion Hlast; subst last rest.
      destruct (child_split _ _ _ C1) as (T1 & T2 & E1 & N1 & _).
      assert (Km : exists K, ma_kids moov = Some K).
      { rewrite E1 in H1. pose proof (forest_ok_split _ _ _ _ _ _ _ H1) as (_ & Hm & _).
        apply (proj1 (atom_ok_kids_iff _ _ _ Hm)). rewrite N1. reflexivity. }
      destruct Km as (K & Km).
      exact (new_wellformed_moov f atoms H1 H2 cb ilst_data it Hit Hsmall moov T1 T2 K [] f2 f'
               Hip E1 N1 Km eq_refl R1' R2'). }
  destruct Hfin as (atoms' & W & HH). pose proof (height_pos it).
  assert (HH' : mp4_forest_height atoms' <= MP4_MAXDEPTH) by (unfold MP4_MAXDEPTH in *; lia).
  exists atoms'. split; [apply parse_complete; assumption|]. split; assumption.
Qed.

(* ------------------------------------------------------------------ two readings of the offsets theorem spelled out *)
(* (1) the tfhd base offset is shifted whenever bit 0 (base-data-offset-present) of tf_flags is set, whatever the other flag
   bits (0x020000 default-base-is-moof, 0x010000 duration-is-empty, 0x02/0x08/0x10/0x20 optional fields) are *)
Lemma tfhd_flag_bit0 g ao : tfhd_flag g ao = Z.testbit (be_decode (mp4_rd g (ao + 9) 3)) 0.
Proof. unfold tfhd_flag. symmetry. apply Z.bit0_odd. Qed.

Theorem c10_tfhd_any_flags f ilst_data cb f' atoms path :
  mp4_wf f = true -> mp4_atoms f = Ok atoms -> mp4_path atoms ILST_PATH = Some path -> mp4_tags_clean atoms = true ->
  mp4_save f ilst_data cb = Ok f' ->
  exists off old, mp4_region_of path = Some (off, old) /\
    let delta := zlen f' - zlen f in
    forall T flags, In T (mp4_tfhd_list atoms) ->
      be_decode (mp4_rd f (ma_off T + 9) 3) = flags -> Z.testbit flags 0 = true ->
      tfhd_base f' (mp4_newpos off old delta (ma_off T)) = mp4_shift off delta (tfhd_base f (ma_off T)).
Proof.
  intros Hwf Ha Hp Hc Hs.
  destruct (c10_offsets_follow_data f ilst_data cb f' atoms path Hwf Ha Hp Hc Hs) as (off & old & Hr & _ & _ & _ & HH).
  exists off, old. split; [exact Hr|]. cbv zeta in *. destruct HH as (_ & _ & HT & _).
  intros T flags HTin Hfl Hb. apply HT; [exact HTin|]. rewrite tfhd_flag_bit0, Hfl. exact Hb.
Qed.

(* (2) the entries of a table are shifted one by one: entry i moves iff entry i itself lies behind the region start,
   independently of the first (or any other) entry of the table *)
Lemma znth_map_in (g : Z -> Z) l i : 0 <= i < zlen l -> znth i (map g l) = g (znth i l).
Proof.
  unfold znth, zlen. intros Hi. rewrite (nth_indep (map g l) 0 (g 0)) by (rewrite map_length; lia). apply map_nth.
Qed.

Theorem c10_entries_individually f ilst_data cb f' atoms path :
  mp4_wf f = true -> mp4_atoms f = Ok atoms -> mp4_path atoms ILST_PATH = Some path -> mp4_tags_clean atoms = true ->
  mp4_save f ilst_data cb = Ok f' ->
  exists off old, mp4_region_of path = Some (off, old) /\
    let delta := zlen f' - zlen f in
    let np := mp4_newpos off old delta in
    (forall T i, In T (mp4_stco_list atoms) -> 0 <= i < zlen (tab_entries 4 f (ma_off T)) ->
       zlen (tab_entries 4 f' (np (ma_off T))) = zlen (tab_entries 4 f (ma_off T)) /\
       znth i (tab_entries 4 f' (np (ma_off T))) = mp4_shift off delta (znth i (tab_entries 4 f (ma_off T)))) /\
    (forall T i, In T (mp4_co64_list atoms) -> 0 <= i < zlen (tab_entries 8 f (ma_off T)) ->
       zlen (tab_entries 8 f' (np (ma_off T))) = zlen (tab_entries 8 f (ma_off T)) /\
       znth i (tab_entries 8 f' (np (ma_off T))) = mp4_shift off delta (znth i (tab_entries 8 f (ma_off T)))).
Proof.
  intros Hwf Ha Hp Hc Hs.
  destruct (c10_offsets_follow_data f ilst_data cb f' atoms path Hwf Ha Hp Hc Hs) as (off & old & Hr & _ & _ & _ & HH).
  exists off, old. split; [exact Hr|]. cbv zeta in *. destruct HH as (H4 & H8 & _).
  split; intros T i HT Hi; [rewrite (H4 T HT)|rewrite (H8 T HT)]; (split; [apply zlen_map|apply znth_map_in; exact Hi]).
Qed.
