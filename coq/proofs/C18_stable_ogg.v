(* C18: per-type stability of File's choice over the regenerated scores (Ogg types).
   Each lemma: for every file name carrying a usual extension of the type in any letter case, every
   header in the type's family, every trailer: File picks the type and File(easy=True) its Easy
   counterpart.  Proof: the atomic tests of every score are decided from the hypotheses where possible,
   the remaining ones are enumerated by reflection (C18_prims.ball). *)
From Coq Require Import ZArith List Bool Lia.
Import ListNotations.
Require Import Base.Py Model.ScorePrims Gen.Gen_scores Model.Score Proofs.C18_prims.
Open Scope Z_scope.

Lemma stable_OggTheora : forall fname header trailer,
  named_as C_OggTheora fname -> family C_OggTheora header trailer -> picks C_OggTheora fname header trailer.
Proof.
  open_named; destruct Hfam as [Hsw Hm]; each_ext Hin Hew Hsw.
Qed.

Lemma stable_OggSpeex : forall fname header trailer,
  named_as C_OggSpeex fname -> family C_OggSpeex header trailer -> no_foreign_marker C_OggSpeex header = true ->
  picks C_OggSpeex fname header trailer.
Proof.
  open_named; intro Hnfm; marker_facts Hnfm; destruct Hfam as [Hsw Hm]; each_ext Hin Hew Hsw.
Qed.

Lemma stable_OggVorbis : forall fname header trailer,
  named_as C_OggVorbis fname -> family C_OggVorbis header trailer -> no_foreign_marker C_OggVorbis header = true ->
  picks C_OggVorbis fname header trailer.
Proof.
  open_named; intro Hnfm; marker_facts Hnfm; destruct Hfam as [Hsw Hm]; each_ext Hin Hew Hsw.
Qed.

Lemma stable_OggFLAC : forall fname header trailer,
  named_as C_OggFLAC fname -> family C_OggFLAC header trailer -> no_foreign_marker C_OggFLAC header = true ->
  picks C_OggFLAC fname header trailer.
Proof.
  open_named; intro Hnfm; marker_facts Hnfm; destruct Hfam as (Hsw & Hm1 & Hm2); pose proof (contains_tail _ _ _ Hm1) as Hm3; each_ext Hin Hew Hsw.
Qed.

Lemma stable_OggOpus : forall fname header trailer,
  named_as C_OggOpus fname -> family C_OggOpus header trailer -> no_foreign_marker C_OggOpus header = true ->
  picks C_OggOpus fname header trailer.
Proof.
  open_named; intro Hnfm; marker_facts Hnfm; destruct Hfam as [Hsw Hm]; each_ext Hin Hew Hsw.
Qed.
