(* C17: the resize family behaves identically on a BytesIO-like and a real-file-like file object
   (negative seek targets clamp vs. raise EINVAL): same outcome, same bytes -- for ALL arguments. *)
From Coq Require Import ZArith List Bool Lia.
Import ListNotations.
Require Import Base.Py Base.ZList Base.FileModel Gen.Gen_util Proofs.FileLemmas
  Proofs.C11_move2 Proofs.C11_bytes Proofs.C11_rejects.
Open Scope Z_scope.

Section Flavour.
Variables (part1 part2 BUF : Z).
Hypothesis HBUF : 1 <= BUF.

Theorem resize_bytes_flavour f p old new off :
  let r1 := resize_bytes BUF old new off (mkF f p (benign false part1)) in
  let r2 := resize_bytes BUF old new off (mkF f p (benign true part2)) in
  fst r1 = fst r2 /\ fdata (snd r1) = fdata (snd r2).
Proof.
  cbv zeta.
  destruct (Z_lt_dec old 0) as [H1|H1]; [|destruct (Z_lt_dec new 0) as [H2|H2]; [|destruct (Z_lt_dec off 0) as [H3|H3]]].
  1-3: destruct (resize_bytes_rejects false part1 BUF f p old new off ltac:(lia)) as [A1 B1];
       destruct (resize_bytes_rejects true part2 BUF f p old new off ltac:(lia)) as [A2 B2];
       rewrite A1, A2, B1, B2; split; reflexivity.
  destruct (Z_le_gt_dec (off + old) (zlen f)) as [Hfit|Hout].
  - (* valid request: both flavours produce the characterised result; we compare through insert/delete specs *)
    unfold resize_bytes. rewrite !step_guard.
    assert (Eg : (old <? 0) || (new <? 0) || (off <? 0) = false) by lia. rewrite Eg. rewrite !bind_if_c.
    destruct (new <? old) eqn:E1.
    + cbv zeta.
      destruct (delete_bytes_spec false part1 BUF HBUF f p (old - new) (off + new) ltac:(lia) ltac:(lia) ltac:(lia)) as (A1 & B1 & _).
      destruct (delete_bytes_spec true part2 BUF HBUF f p (old - new) (off + new) ltac:(lia) ltac:(lia) ltac:(lia)) as (A2 & B2 & _).
      unfold bind, ret.
      destruct (delete_bytes BUF (old - new) (off + new) (mkF f p (benign false part1))) as [r1 s1].
      destruct (delete_bytes BUF (old - new) (off + new) (mkF f p (benign true part2))) as [r2 s2].
      cbn in *. subst. cbn. split; congruence.
    + destruct (new >? old) eqn:E2.
      * cbv zeta.
        destruct (insert_bytes_spec false part1 BUF HBUF f p (new - old) (off + old) ltac:(lia) ltac:(lia)) as (A1 & B1 & _).
        destruct (insert_bytes_spec true part2 BUF HBUF f p (new - old) (off + old) ltac:(lia) ltac:(lia)) as (A2 & B2 & _).
        unfold bind, ret.
        destruct (insert_bytes BUF (new - old) (off + old) (mkF f p (benign false part1))) as [r1 s1].
        destruct (insert_bytes BUF (new - old) (off + old) (mkF f p (benign true part2))) as [r2 s2].
        cbn in *. subst. cbn. split; congruence.
      * split; reflexivity.
  - destruct (Z.eq_dec new old) as [->|Hne].
    + rewrite !resize_bytes_same_size_noop by lia. split; reflexivity.
    + destruct (resize_bytes_rejects false part1 BUF f p old new off ltac:(lia)) as [A1 B1].
      destruct (resize_bytes_rejects true part2 BUF f p old new off ltac:(lia)) as [A2 B2].
      rewrite A1, A2, B1, B2. split; reflexivity.
Qed.

Theorem move_bytes_flavour f p dest src count :
  let r1 := move_bytes BUF dest src count (mkF f p (benign false part1)) in
  let r2 := move_bytes BUF dest src count (mkF f p (benign true part2)) in
  fst r1 = fst r2 /\ fdata (snd r1) = fdata (snd r2).
Proof.
  cbv zeta.
  destruct (Z_lt_dec dest 0) as [H1|H1]; [|destruct (Z_lt_dec src 0) as [H2|H2]; [|destruct (Z_lt_dec count 0) as [H3|H3];
    [|destruct (Z_le_gt_dec (Z.max dest src + count) (zlen f)) as [H4|H4]]]].
  1-3,5: destruct (move_bytes_rejects false part1 BUF f p dest src count ltac:(lia)) as [A1 B1];
       destruct (move_bytes_rejects true part2 BUF f p dest src count ltac:(lia)) as [A2 B2];
       rewrite A1, A2, B1, B2; split; reflexivity.
  destruct (move_bytes_spec false part1 BUF HBUF f p dest src count ltac:(lia) ltac:(lia) ltac:(lia) H4) as (A1 & B1 & _).
  destruct (move_bytes_spec true part2 BUF HBUF f p dest src count ltac:(lia) ltac:(lia) ltac:(lia) H4) as (A2 & B2 & _).
  rewrite A1, A2, B1, B2. split; reflexivity.
Qed.
End Flavour.

(* seek_end: the end-relative seek that never targets a negative offset -- same position under both
   flavours, for every file and offset; the plain seek(-offset, 2) it replaces differs. *)
Require Import Model.SeekEnd.
Section SeekEnd.
Variables (real : bool) (part : Z).
Notation cf := (benign real part).

Lemma get_size_run d p : 0 <= p -> get_size (mkF d p cf) = (Ok (zlen d), mkF d p cf).
Proof.
  intros Hp. unfold get_size. unfold bind at 1. rewrite run_tell.
  unfold finally, bind. rewrite run_seek_end0. rewrite run_tell. rewrite run_seek_abs by lia. reflexivity.
Qed.

Theorem seek_end_spec d p offset : 0 <= p -> 0 <= offset ->
  seek_end offset (mkF d p cf) = (Ok tt, mkF d (Z.max 0 (zlen d - offset)) cf).
Proof.
  intros Hp Ho. unfold seek_end. destruct (offset <? 0) eqn:E; [lia|].
  unfold bind at 1. rewrite get_size_run by lia. pose proof (zlen_nonneg d).
  destruct (zlen d <? offset) eqn:E2.
  - rewrite run_seek_abs by lia. f_equal. f_equal. lia.
  - unfold f_seek, bind, tick; cbn. destruct (zlen d + - offset <? 0) eqn:E3; [lia|].
    f_equal. f_equal. lia.
Qed.
End SeekEnd.

Lemma naive_seek_end_differs :
  fst (naive_seek_end 5 (mkF [1;2;3] 0 (benign false 0))) = Ok tt /\
  fst (naive_seek_end 5 (mkF [1;2;3] 0 (benign true 0))) = Raise (EIO 22).
Proof. vm_compute. split; reflexivity. Qed.
