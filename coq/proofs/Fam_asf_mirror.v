(* ASF family: mutagen's own reader (the mirrors mut_cd / mut_ecd / mut_meta / mut_val) accepts what the writer emits
   and returns the attributes in their reloaded form.  Consequence: place_loadable holds for every valid tag list, so the
   idempotence theorems of Fam_asf_reopen need no hypothesis beyond validity (C07). *)
From Coq Require Import ZArith List Bool Lia.
Import ListNotations.
Require Import Base.Py Base.ZList Model.Fam_asf Proofs.Fam_asf_codec Proofs.Fam_asf_attr Proofs.Fam_asf_c01 Proofs.Fam_asf_reopen.
Open Scope Z_scope.

(* text as mutagen can hold and re-read it: valid UTF-16, no NUL at either end *)
Definition mvalid_text (u : list Z) : Prop := utf16_ok u = true /\ lstrip0 u = u /\ rstrip0 u = u.
Definition mvalid_val (v : aval) : Prop := match v with VText u => mvalid_text u | _ => True end.
Definition mvalid_attr (a : attr) : Prop := mvalid_text (a_name a) /\ mvalid_val (a_val a).
Lemma mvalid_valid a : mvalid_attr a -> valid_attr a.
Proof.
  intros [[_ [_ H1]] H2]. split; [exact H1|]. destruct (a_val a); try exact I. destruct H2 as [_ [_ H2]]. exact H2.
Qed.

Lemma utf16_ok_snoc0 u : utf16_ok u = true -> utf16_ok (u ++ [0]) = true.
Proof.
  assert (G : forall n u, (length u <= n)%nat -> utf16_ok u = true -> utf16_ok (u ++ [0]) = true).
  { induction n as [|n IH]; intros v Hl H.
    - destruct v; [reflexivity|cbn in Hl; lia].
    - destruct v as [|x [|y r]].
      + reflexivity.
      + cbn [utf16_ok app] in *. destruct (is_high x); [discriminate|]. destruct (is_low x); [discriminate|]. reflexivity.
      + cbn [length] in Hl. change ((x :: y :: r) ++ [0]) with (x :: y :: (r ++ [0])).
        cbn [utf16_ok] in H. cbn [utf16_ok]. destruct (is_high x).
        * apply andb_true_iff in H as [H1 H2]. rewrite H1. cbn [andb]. apply IH; [lia|exact H2].
        * destruct (is_low x); [discriminate|].
          change (y :: (r ++ [0])) with ((y :: r) ++ [0]).
          assert (H' : utf16_ok (y :: r) = true) by exact H.
          apply (IH (y :: r)); [cbn [length]; lia|exact H']. }
  apply (G (length u)). lia.
Qed.
Lemma mut_text_term u : mvalid_text u -> mut_text (bytes_of_units u ++ [0; 0]) = Ok u.
Proof.
  intros (H1 & H2 & H3). unfold mut_text. change [0; 0] with (bytes_of_units [0]).
  rewrite <- bytes_of_units_app, units_round. rewrite (utf16_ok_snoc0 u H1). f_equal.
  destruct u as [|x r]; [reflexivity|]. cbn [app lstrip0] in *.
  destruct (x =? 0) eqn:E.
  - (* lstrip0 (x :: r) = x :: r with x = 0 is impossible: the result is a suffix strictly shorter *)
    exfalso. assert (Hlen : forall l, (length (lstrip0 l) <= length l)%nat).
    { induction l as [|y l IHl]; [cbn; lia|]. cbn [lstrip0]. destruct (y =? 0); cbn [length]; lia. }
    specialize (Hlen r). rewrite H2 in Hlen. cbn [length] in Hlen. lia.
  - change (x :: r ++ [0]) with ((x :: r) ++ [0]). rewrite rstrip0_snoc. exact H3.
Qed.

Lemma mut_val_round v (dword : bool) : mvalid_val v -> val_packs v = true ->
  mut_val (vtype v) (render_val v dword) dword = Ok v.
Proof.
  intros Hv Hp. destruct v as [u|b|b|n|n|n|b]; cbn [vtype render_val]; unfold mut_val; cbn [Z.eqb Pos.eqb].
  - rewrite mut_text_term by exact Hv. reflexivity.
  - reflexivity.
  - unfold mexact. destruct dword; [rewrite zlen_le4|rewrite zlen_le2]; cbn [Z.eqb Pos.eqb];
      destruct b; reflexivity.
  - unfold mexact. rewrite zlen_le4. cbn [Z.eqb Pos.eqb]. cbn [val_packs] in Hp. rewrite le4_round by lia. reflexivity.
  - unfold mexact. rewrite zlen_le8. cbn [Z.eqb Pos.eqb]. cbn [val_packs] in Hp. rewrite le8_round by lia. reflexivity.
  - unfold mexact. rewrite zlen_le2. cbn [Z.eqb Pos.eqb]. cbn [val_packs] in Hp. rewrite le2_round by lia. reflexivity.
  - reflexivity.
Qed.

(* ------------------------------------------------------------------ ExtendedContentDescription *)
Definition ecd_reload (a : attr) : attr := mkA (a_name a) (a_val a) None None.
Lemma mut_ecd_render : forall l, Forall mvalid_attr l -> forallb ecd_attr_packs l = true ->
  mut_ecd (length l) (flat_map render_ecd_attr l) = Ok (map ecd_reload l).
Proof.
  induction l as [|a l IH]; intros Hv Hp; [reflexivity|].
  inversion Hv as [|? ? Ha Hl]; subst. cbn [forallb] in Hp. apply andb_true_iff in Hp as [Hp1 Hp2].
  unfold ecd_attr_packs in Hp1. apply andb_true_iff in Hp1 as [Hq Hp1c]. apply andb_true_iff in Hq as [Hp1a Hp1b].
  destruct Ha as [Hn Hval].
  cbn [length flat_map mut_ecd].
  set (nm := name_bytes (a_name a)) in *. set (val := render_val (a_val a) true) in *.
  set (rest := flat_map render_ecd_attr l).
  pose proof (zlen_nonneg nm). pose proof (zlen_nonneg val). pose proof (zlen_nonneg rest).
  assert (Hty : 0 <= vtype (a_val a) < U16) by (destruct (a_val a); cbn; unfold U16; lia).
  set (h1 := le_encode 2 (zlen nm)). set (h2 := le_encode 2 (vtype (a_val a))). set (h3 := le_encode 2 (zlen val)).
  assert (L1 : zlen h1 = 2) by apply zlen_le2. assert (L2 : zlen h2 = 2) by apply zlen_le2.
  assert (L3 : zlen h3 = 2) by apply zlen_le2.
  assert (Hd : render_ecd_attr a ++ rest = h1 ++ (nm ++ (h2 ++ h3 ++ (val ++ rest)))).
  { unfold render_ecd_attr. fold nm. fold val. fold h1 h2 h3. rewrite <- !app_assoc. reflexivity. }
  rewrite Hd. set (D := h1 ++ nm ++ h2 ++ h3 ++ val ++ rest) in *.
  assert (E0 : zlen D = 2 + zlen nm + 2 + 2 + zlen val + zlen rest) by (unfold D; rewrite !zlen_app; lia).
  assert (E1 : le_decode (ztake 2 D) = zlen nm).
  { unfold D. rewrite (ztake_exact h1) by lia. apply le2_round. lia. }
  assert (E2 : zdrop 2 D = nm ++ h2 ++ h3 ++ val ++ rest) by (unfold D; apply zdrop_exact; lia).
  rewrite E0. bset (2 + zlen nm + 2 + 2 + zlen val + zlen rest <? 2) false.
  rewrite E1, E2. rewrite (ztake_exact nm) by reflexivity. rewrite (zdrop_exact nm) by reflexivity.
  unfold nm at 1, name_bytes. rewrite mut_text_term by exact Hn.
  set (D2 := h2 ++ h3 ++ val ++ rest).
  assert (F0 : zlen D2 = 4 + zlen val + zlen rest) by (unfold D2; rewrite !zlen_app; lia).
  assert (F1 : le_decode (ztake 2 D2) = vtype (a_val a)).
  { unfold D2. rewrite (ztake_exact h2) by lia. apply le2_round, Hty. }
  assert (F2 : le_decode (zslice 2 4 D2) = zlen val).
  { unfold D2. rewrite (zslice_mid h2 h3) by lia. apply le2_round. lia. }
  assert (F3 : zdrop 4 D2 = val ++ rest).
  { unfold D2. rewrite (app_assoc h2 h3). apply zdrop_exact. rewrite zlen_app. lia. }
  rewrite F0. bset (4 + zlen val + zlen rest <? 4) false. rewrite F1, F2, F3.
  rewrite (ztake_exact val) by reflexivity. rewrite (zdrop_exact val) by reflexivity.
  unfold val at 1. rewrite (mut_val_round (a_val a) true Hval Hp1a).
  unfold rest. rewrite IH by assumption. reflexivity.
Qed.

Lemma mcounted_render (f : nat -> list Z -> result (list attr)) {A} (l : list A) body :
  zlen l < U16 -> mcounted f (le_encode 2 (zlen l) ++ body) = f (length l) body.
Proof.
  intros Hl. unfold mcounted. pose proof (zlen_nonneg l). pose proof (zlen_nonneg body).
  zl. bset (2 + zlen body <? 2) false.
  rewrite (ztake_exact (le_encode 2 (zlen l))) by (zl; reflexivity). rewrite le2_round by lia.
  rewrite (zdrop_exact (le_encode 2 (zlen l))) by (zl; reflexivity).
  unfold zlen. rewrite Nat2Z.id. reflexivity.
Qed.

(* ------------------------------------------------------------------ Metadata / MetadataLibrary *)
Definition meta_reload (lib : bool) (a : attr) : attr :=
  mkA (a_name a) (a_val a) (if lib then Some (oz (a_lang a)) else None) (Some (oz (a_stream a))).
Lemma mut_meta_render (lib : bool) : forall l, Forall mvalid_attr l -> forallb (meta_attr_packs lib) l = true ->
  mut_meta lib (length l) (flat_map (render_meta_attr lib) l) = Ok (map (meta_reload lib) l).
Proof.
  induction l as [|a l IH]; intros Hv Hp; [reflexivity|].
  inversion Hv as [|? ? Ha Hl]; subst. cbn [forallb] in Hp. apply andb_true_iff in Hp as [Hp1 Hp2].
  unfold meta_attr_packs in Hp1. apply andb_true_iff in Hp1 as [Hq Hlang]. apply andb_true_iff in Hq as [Hq Hstream].
  apply andb_true_iff in Hq as [Hq Hp1c]. apply andb_true_iff in Hq as [Hp1a Hp1b].
  destruct Ha as [Hn Hval].
  cbn [length flat_map mut_meta].
  set (nm := name_bytes (a_name a)) in *. set (val := render_val (a_val a) false) in *.
  set (rest := flat_map (render_meta_attr lib) l).
  set (lg := if lib then oz (a_lang a) else 0). set (sm := oz (a_stream a)) in *.
  pose proof (zlen_nonneg nm). pose proof (zlen_nonneg val). pose proof (zlen_nonneg rest).
  assert (Hlg : 0 <= lg < U16).
  { unfold lg. destruct lib; [unfold fits16 in Hlang; lia|unfold U16; lia]. }
  assert (Hsm : 0 <= sm < U16) by (unfold fits16 in Hstream; lia).
  assert (Hty : 0 <= vtype (a_val a) < U16) by (destruct (a_val a); cbn; unfold U16; lia).
  set (h1 := le_encode 2 lg). set (h2 := le_encode 2 sm). set (h3 := le_encode 2 (zlen nm)).
  set (h4 := le_encode 2 (vtype (a_val a))). set (h5 := le_encode 4 (zlen val)).
  assert (Hd : render_meta_attr lib a ++ rest = h1 ++ h2 ++ h3 ++ h4 ++ h5 ++ (nm ++ val ++ rest)).
  { unfold render_meta_attr. fold nm. fold val. fold lg. fold sm. fold h1 h2 h3 h4 h5. rewrite <- !app_assoc. reflexivity. }
  rewrite Hd.
  assert (L1 : zlen h1 = 2) by apply zlen_le2. assert (L2 : zlen h2 = 2) by apply zlen_le2.
  assert (L3 : zlen h3 = 2) by apply zlen_le2. assert (L4 : zlen h4 = 2) by apply zlen_le2.
  assert (L5 : zlen h5 = 4) by apply zlen_le4.
  set (D := h1 ++ h2 ++ h3 ++ h4 ++ h5 ++ nm ++ val ++ rest) in *.
  assert (Hlen : zlen D = 12 + zlen nm + zlen val + zlen rest) by (unfold D; rewrite !zlen_app; lia).
  assert (E1 : le_decode (ztake 2 D) = lg).
  { unfold D. rewrite (ztake_exact h1) by lia. apply le2_round, Hlg. }
  assert (E2 : le_decode (zslice 2 4 D) = sm).
  { unfold D. rewrite (zslice_mid h1 h2) by lia. apply le2_round, Hsm. }
  assert (E3 : le_decode (zslice 4 6 D) = zlen nm).
  { unfold D. rewrite (app_assoc h1 h2). rewrite (zslice_mid (h1 ++ h2) h3) by (rewrite ?zlen_app; lia).
    apply le2_round. lia. }
  assert (E4 : le_decode (zslice 6 8 D) = vtype (a_val a)).
  { unfold D. rewrite (app_assoc h1 h2), (app_assoc (h1 ++ h2) h3).
    rewrite (zslice_mid ((h1 ++ h2) ++ h3) h4) by (rewrite ?zlen_app; lia). apply le2_round, Hty. }
  assert (E5 : le_decode (zslice 8 12 D) = zlen val).
  { unfold D. rewrite (app_assoc h1 h2), (app_assoc (h1 ++ h2) h3), (app_assoc ((h1 ++ h2) ++ h3) h4).
    rewrite (zslice_mid (((h1 ++ h2) ++ h3) ++ h4) h5) by (rewrite ?zlen_app; lia). apply le4_round. lia. }
  assert (E6 : zdrop 12 D = nm ++ val ++ rest).
  { unfold D. rewrite (app_assoc h1 h2), (app_assoc (h1 ++ h2) h3), (app_assoc ((h1 ++ h2) ++ h3) h4),
      (app_assoc (((h1 ++ h2) ++ h3) ++ h4) h5).
    apply zdrop_exact. rewrite ?zlen_app. lia. }
  rewrite Hlen. bset (12 + zlen nm + zlen val + zlen rest <? 12) false.
  rewrite E1, E2, E3, E4, E5, E6.
  rewrite (ztake_exact nm) by reflexivity. rewrite (zdrop_exact nm) by reflexivity.
  rewrite (ztake_exact val) by reflexivity. rewrite (zdrop_exact val) by reflexivity.
  unfold nm at 1, name_bytes. rewrite mut_text_term by exact Hn.
  unfold val at 1. rewrite (mut_val_round (a_val a) false Hval Hp1a).
  unfold rest. rewrite IH by assumption. unfold meta_reload. fold lg. fold sm.
  destruct lib; reflexivity.
Qed.

(* ------------------------------------------------------------------ ContentDescription *)
Definition cd_attrs_of (nts : list (list Z * option (list Z))) : list attr :=
  flat_map (fun nt => match snd nt with Some u => [mkA (fst nt) (VText u) None None] | None => [] end) nts.
Lemma mut_cd_texts_render : forall nts,
  Forall (fun nt => match snd nt with Some u => mvalid_text u | None => True end) nts ->
  mut_cd_texts (map fst nts) (map (fun nt => zlen (cd_render_opt (snd nt))) nts) (concat (map (fun nt => cd_render_opt (snd nt)) nts))
  = Ok (cd_attrs_of nts).
Proof.
  induction nts as [|[n o] nts IH]; intros Hv; [reflexivity|].
  inversion Hv as [|? ? Ho Hl]; subst. cbn [map concat fst snd mut_cd_texts].
  rewrite (zdrop_exact (cd_render_opt o)) by reflexivity. rewrite IH by exact Hl.
  destruct o as [u|]; cbn [cd_render_opt snd] in *.
  - zl. rewrite zlen_bytes_of_units. pose proof (zlen_nonneg u).
    bset (0 <? 2 * zlen u + 2) true.
    rewrite (ztake_exact (bytes_of_units u ++ [0; 0])) by (zl; rewrite zlen_bytes_of_units; reflexivity).
    rewrite mut_text_term by exact Ho. reflexivity.
  - reflexivity.
Qed.

Lemma mut_cd_render P : cd_texts_ok P -> Forall mvalid_attr (p_cd P) ->
  forallb (fun n => zlen (cd_text P n) <? U16) CD_NAMES = true ->
  mut_cd (cd_payload P) = Ok (cd_attrs_of (cd_view P)).
Proof.
  intros Ht Hv Hp. unfold mut_cd, cd_payload.
  set (texts := map (cd_text P) CD_NAMES).
  assert (Htexts : texts = map (fun nt => cd_render_opt (snd nt)) (cd_view P)).
  { unfold texts, cd_view. rewrite map_map. apply map_ext. intros n. cbn [snd]. apply cd_text_view, Ht. }
  assert (Hb : Forall (fun t => 0 <= zlen t < U16) texts).
  { unfold texts. apply Forall_forall. intros t Hin. apply in_map_iff in Hin as (n & <- & Hn).
    rewrite forallb_forall in Hp. specialize (Hp n Hn). pose proof (zlen_nonneg (cd_text P n)). lia. }
  assert (H5 : exists t1 t2 t3 t4 t5, texts = [t1; t2; t3; t4; t5]).
  { unfold texts, CD_NAMES. cbn [map]. repeat eexists. }
  destruct H5 as (t1 & t2 & t3 & t4 & t5 & E5). rewrite E5 in Hb.
  inversion Hb as [|? ? B1 Hb1]; subst. inversion Hb1 as [|? ? B2 Hb2]; subst. inversion Hb2 as [|? ? B3 Hb3]; subst.
  inversion Hb3 as [|? ? B4 Hb4]; subst. inversion Hb4 as [|? ? B5 _]; subst.
  assert (Hhead : flat_map (fun t => le_encode 2 (zlen t)) texts = flat_map (fun t => le_encode 2 t) (map (@zlen Z) texts)).
  { clear. induction texts as [|t r IH]; [reflexivity|]. cbn [flat_map map]. rewrite IH. reflexivity. }
  assert (Hm : map (@zlen Z) texts = [zlen t1; zlen t2; zlen t3; zlen t4; zlen t5]) by (rewrite E5; reflexivity).
  rewrite Hhead, Hm.
  assert (Hl10 : zlen (flat_map (fun t => le_encode 2 t) [zlen t1; zlen t2; zlen t3; zlen t4; zlen t5]) = 10).
  { cbn [flat_map]. rewrite app_nil_r. zl. reflexivity. }
  pose proof (zlen_nonneg (concat texts)).
  rewrite zlen_app, Hl10. bset (10 + zlen (concat texts) <? 10) false.
  rewrite cd_lens5 by assumption.
  rewrite (zdrop_exact (flat_map (fun t => le_encode 2 t) [zlen t1; zlen t2; zlen t3; zlen t4; zlen t5])) by (symmetry; exact Hl10).
  assert (Hnames : CD_NAMES = map fst (cd_view P)).
  { unfold cd_view. rewrite map_map. cbn [fst]. symmetry. apply map_id. }
  assert (Hlens : [zlen t1; zlen t2; zlen t3; zlen t4; zlen t5] = map (fun nt => zlen (cd_render_opt (snd nt))) (cd_view P)).
  { change [zlen t1; zlen t2; zlen t3; zlen t4; zlen t5] with (map (@zlen Z) [t1; t2; t3; t4; t5]).
    rewrite <- E5, Htexts, map_map. reflexivity. }
  rewrite Hlens, Htexts. rewrite Hnames at 1.
  apply mut_cd_texts_render.
  unfold cd_view. apply Forall_forall. intros nt Hin. apply in_map_iff in Hin as (n & <- & _). cbn [snd].
  destruct (find _ (p_cd P)) as [a|] eqn:E; [|exact I].
  apply find_some in E as [Hin _]. rewrite Forall_forall in Hv. destruct (Hv a Hin) as [_ Hval].
  destruct (a_val a); try exact I. exact Hval.
Qed.

(* ------------------------------------------------------------------ every valid tag list is loadable again *)
Theorem place_loadable_valid t : Forall mvalid_attr t -> place_packs (place t) = true -> place_loadable (place t) = true.
Proof.
  intros Hv Hp. pose proof (place_from t) as Hf. rewrite Forall_forall in Hv.
  assert (Hsub : forall l, (forall a, In a l -> In a (all_of (place t))) -> Forall mvalid_attr l).
  { intros l Hl. apply Forall_forall. intros a Ha. apply Hv, Hf, Hl, Ha. }
  assert (V1 : Forall mvalid_attr (p_cd (place t))) by (apply Hsub; intros a Ha; apply in_all_of; tauto).
  assert (V2 : Forall mvalid_attr (p_ecd (place t))) by (apply Hsub; intros a Ha; apply in_all_of; tauto).
  assert (V3 : Forall mvalid_attr (p_m (place t))) by (apply Hsub; intros a Ha; apply in_all_of; tauto).
  assert (V4 : Forall mvalid_attr (p_ml (place t))) by (apply Hsub; intros a Ha; apply in_all_of; tauto).
  unfold place_packs in Hp.
  apply andb_true_iff in Hp as [Hp H]. apply andb_true_iff in Hp as [Hp H0]. apply andb_true_iff in Hp as [Hp H1].
  apply andb_true_iff in Hp as [Hp H2]. apply andb_true_iff in Hp as [Hp H3]. apply andb_true_iff in Hp as [Hp H4].
  unfold place_loadable, mut_leaf. change (cls_of G_CD) with KCD. change (cls_of G_ECD) with KECD.
  change (cls_of G_META) with KMETA. change (cls_of G_LIB) with KLIB.
  rewrite (mut_cd_render _ (place_cd_text t) V1 Hp).
  unfold ecd_payload, m_payload, ml_payload.
  rewrite !mcounted_render by lia.
  rewrite (mut_ecd_render _ V2 H3), (mut_meta_render false _ V3 H1), (mut_meta_render true _ V4 H). reflexivity.
Qed.
