(* ASF family: the attribute codecs.  What render / render_m / render_ml and the four object renderers emit is read back
   by the independent reader (load_cd, load_ecd, load_meta) as exactly the placed attributes, with type and value. *)
From Coq Require Import ZArith List Bool Lia.
Import ListNotations.
Require Import Base.Py Base.ZList Model.Fam_asf Proofs.Fam_asf_codec.
Open Scope Z_scope.

(* ------------------------------------------------------------------ text *)
Lemma units_round u : units_of_bytes (bytes_of_units u) = Some u.
Proof.
  induction u as [|x u IH]; [reflexivity|]. cbn [bytes_of_units flat_map app units_of_bytes].
  fold (bytes_of_units u). rewrite IH. f_equal. f_equal. pose proof (Z.div_mod x 256). lia.
Qed.
Lemma bytes_of_units_app a b : bytes_of_units (a ++ b) = bytes_of_units a ++ bytes_of_units b.
Proof. unfold bytes_of_units. apply flat_map_app. Qed.
Lemma zlen_bytes_of_units u : zlen (bytes_of_units u) = 2 * zlen u.
Proof.
  induction u as [|x u IH]; [reflexivity|]. cbn [bytes_of_units flat_map app]. fold (bytes_of_units u).
  rewrite !zlen_cons, IH. lia.
Qed.
Lemma rstrip0_snoc u : rstrip0 (u ++ [0]) = rstrip0 u.
Proof.
  induction u as [|x u IH]; [reflexivity|]. cbn [app rstrip0]. rewrite IH. reflexivity.
Qed.
Definition valid_text (u : list Z) : Prop := rstrip0 u = u.
(* a terminated string decodes to the string *)
Lemma dec_text_term u : valid_text u -> dec_text (bytes_of_units u ++ [0; 0]) = Ok u.
Proof.
  intros H. unfold dec_text. change [0; 0] with (bytes_of_units [0]). rewrite <- bytes_of_units_app, units_round.
  rewrite rstrip0_snoc, H. reflexivity.
Qed.

(* ------------------------------------------------------------------ values *)
Definition valid_val (v : aval) : Prop := match v with VText u => valid_text u | _ => True end.
Definition valid_attr (a : attr) : Prop := valid_text (a_name a) /\ valid_val (a_val a).

Lemma dec_val_round v (dword : bool) : valid_val v -> val_packs v = true ->
  dec_val (vtype v) (render_val v dword) (if dword then 4 else 2) = Ok v.
Proof.
  intros Hv Hp. destruct v as [u|b|b|n|n|n|b]; cbn [vtype render_val]; unfold dec_val; cbn [Z.eqb Pos.eqb].
  - rewrite dec_text_term by exact Hv. reflexivity.
  - reflexivity.
  - unfold exact. destruct dword; [rewrite zlen_le4|rewrite zlen_le2]; cbn [Z.eqb Pos.eqb];
      destruct b; reflexivity.
  - unfold exact. rewrite zlen_le4. cbn [Z.eqb Pos.eqb]. cbn [val_packs] in Hp. rewrite le4_round by lia. reflexivity.
  - unfold exact. rewrite zlen_le8. cbn [Z.eqb Pos.eqb]. cbn [val_packs] in Hp. rewrite le8_round by lia. reflexivity.
  - unfold exact. rewrite zlen_le2. cbn [Z.eqb Pos.eqb]. cbn [val_packs] in Hp. rewrite le2_round by lia. reflexivity.
  - reflexivity.
Qed.

Lemma zlen_name_bytes n : zlen (name_bytes n) = 2 * zlen n + 2.
Proof. unfold name_bytes. zl. rewrite zlen_bytes_of_units. lia. Qed.

(* ------------------------------------------------------------------ ExtendedContentDescription *)
Definition ecd_tag (a : attr) : ltag := mkT 1 (a_name a) 0 0 (a_val a).

Lemma load_ecd_render : forall l, Forall valid_attr l -> forallb ecd_attr_packs l = true ->
  load_ecd (length l) (flat_map render_ecd_attr l) = Ok (map ecd_tag l).
Proof.
  induction l as [|a l IH]; intros Hv Hp; [reflexivity|].
  inversion Hv as [|? ? Ha Hl]; subst. cbn [forallb] in Hp. apply andb_true_iff in Hp as [Hp1 Hp2].
  unfold ecd_attr_packs in Hp1. apply andb_true_iff in Hp1 as [Hq Hp1c]. apply andb_true_iff in Hq as [Hp1a Hp1b].
  destruct Ha as [Hn Hval].
  cbn [length flat_map load_ecd].
  set (nm := name_bytes (a_name a)) in *. set (val := render_val (a_val a) true) in *.
  set (rest := flat_map render_ecd_attr l).
  pose proof (zlen_nonneg nm). pose proof (zlen_nonneg val). pose proof (zlen_nonneg rest).
  assert (Hd : render_ecd_attr a ++ rest =
               le_encode 2 (zlen nm) ++ (nm ++ le_encode 2 (vtype (a_val a)) ++ le_encode 2 (zlen val) ++ (val ++ rest))).
  { unfold render_ecd_attr. fold nm. fold val. rewrite <- !app_assoc. reflexivity. }
  rewrite Hd.
  assert (Hlen : zlen (le_encode 2 (zlen nm) ++ nm ++ le_encode 2 (vtype (a_val a)) ++ le_encode 2 (zlen val) ++ val ++ rest)
                 = 2 + zlen nm + 2 + 2 + zlen val + zlen rest) by (zl; lia).
  rewrite Hlen. bset (2 + zlen nm + 2 + 2 + zlen val + zlen rest <? 2) false.
  rewrite (ztake_exact (le_encode 2 (zlen nm))) by (zl; reflexivity).
  rewrite le2_round by lia.
  rewrite (zdrop_exact (le_encode 2 (zlen nm))) by (zl; reflexivity).
  assert (Hlen1 : zlen (nm ++ le_encode 2 (vtype (a_val a)) ++ le_encode 2 (zlen val) ++ val ++ rest)
                  = zlen nm + 2 + 2 + zlen val + zlen rest) by (zl; lia).
  rewrite Hlen1. bset (zlen nm + 2 + 2 + zlen val + zlen rest <? zlen nm + 4) false.
  rewrite (zslice_mid nm (le_encode 2 (vtype (a_val a))) _ (zlen nm) (zlen nm + 2)) by (zl; lia).
  assert (Hty : 0 <= vtype (a_val a) < U16) by (destruct (a_val a); cbn; unfold U16; lia).
  rewrite le2_round by exact Hty.
  rewrite (app_assoc nm).
  rewrite (zslice_mid (nm ++ le_encode 2 (vtype (a_val a))) (le_encode 2 (zlen val)) _ (zlen nm + 2) (zlen nm + 4)) by (zl; lia).
  rewrite le2_round by lia.
  rewrite (app_assoc (nm ++ le_encode 2 (vtype (a_val a)))).
  rewrite (zdrop_exact ((nm ++ le_encode 2 (vtype (a_val a))) ++ le_encode 2 (zlen val))) by (zl; lia).
  zl. bset (zlen val + zlen rest <? zlen val) false.
  rewrite <- !app_assoc. rewrite (ztake_exact nm) by reflexivity.
  rewrite (ztake_exact val) by reflexivity. rewrite (zdrop_exact val) by reflexivity.
  unfold nm, name_bytes. rewrite dec_text_term by exact Hn.
  unfold val. rewrite (dec_val_round (a_val a) true Hval Hp1a).
  unfold rest. rewrite IH by assumption. reflexivity.
Qed.

Lemma counted_render (f : nat -> list Z -> result (list ltag)) {A} (l : list A) body :
  zlen l < U16 -> counted f (le_encode 2 (zlen l) ++ body) = f (length l) body.
Proof.
  intros Hl. unfold counted. pose proof (zlen_nonneg l). pose proof (zlen_nonneg body).
  zl. bset (2 + zlen body <? 2) false.
  rewrite (ztake_exact (le_encode 2 (zlen l))) by (zl; reflexivity). rewrite le2_round by lia.
  bset ((zlen l <? 0) || (U16 <=? zlen l)) false.
  rewrite (zdrop_exact (le_encode 2 (zlen l))) by (zl; reflexivity).
  unfold zlen. rewrite Nat2Z.id. reflexivity.
Qed.

(* ------------------------------------------------------------------ Metadata / MetadataLibrary *)
Definition meta_tag (lib : bool) (a : attr) : ltag :=
  mkT (if lib then 3 else 2) (a_name a) (if lib then oz (a_lang a) else 0) (oz (a_stream a)) (a_val a).

Lemma load_meta_render (lib : bool) : forall l, Forall valid_attr l -> forallb (meta_attr_packs lib) l = true ->
  load_meta (if lib then 3 else 2) (length l) (flat_map (render_meta_attr lib) l) = Ok (map (meta_tag lib) l).
Proof.
  induction l as [|a l IH]; intros Hv Hp; [reflexivity|].
  inversion Hv as [|? ? Ha Hl]; subst. cbn [forallb] in Hp. apply andb_true_iff in Hp as [Hp1 Hp2].
  unfold meta_attr_packs in Hp1. apply andb_true_iff in Hp1 as [Hq Hlang]. apply andb_true_iff in Hq as [Hq Hstream].
  apply andb_true_iff in Hq as [Hq Hp1c]. apply andb_true_iff in Hq as [Hp1a Hp1b].
  destruct Ha as [Hn Hval].
  cbn [length flat_map load_meta].
  set (nm := name_bytes (a_name a)) in *. set (val := render_val (a_val a) false) in *.
  set (rest := flat_map (render_meta_attr lib) l).
  set (lg := if lib then oz (a_lang a) else 0). set (sm := oz (a_stream a)) in *.
  pose proof (zlen_nonneg nm). pose proof (zlen_nonneg val). pose proof (zlen_nonneg rest).
  assert (Hlg : 0 <= lg < U16).
  { unfold lg. destruct lib; [unfold fits16 in Hlang; lia|unfold U16; lia]. }
  assert (Hsm : 0 <= sm < U16) by (unfold fits16 in Hstream; lia).
  assert (Hty : 0 <= vtype (a_val a) < U16) by (destruct (a_val a); cbn; unfold U16; lia).
  set (h1 := le_encode 2 lg). set (h2 := le_encode 2 sm). set (h3 := le_encode 2 (zlen nm)).
  set (h4 := le_encode 2 (vtype (a_val a))). set (h5 := le_encode 4 (zlen val)).
  assert (Hd : render_meta_attr lib a ++ rest = h1 ++ h2 ++ h3 ++ h4 ++ h5 ++ (nm ++ val ++ rest)).
  { unfold render_meta_attr. fold nm. fold val. fold lg. fold sm. fold h1 h2 h3 h4 h5. rewrite <- !app_assoc. reflexivity. }
  rewrite Hd.
  assert (L1 : zlen h1 = 2) by apply zlen_le2. assert (L2 : zlen h2 = 2) by apply zlen_le2.
  assert (L3 : zlen h3 = 2) by apply zlen_le2. assert (L4 : zlen h4 = 2) by apply zlen_le2.
  assert (L5 : zlen h5 = 4) by apply zlen_le4.
  assert (Hlen : zlen (h1 ++ h2 ++ h3 ++ h4 ++ h5 ++ nm ++ val ++ rest) = 12 + zlen nm + zlen val + zlen rest).
  { rewrite !zlen_app. lia. }
  set (D := h1 ++ h2 ++ h3 ++ h4 ++ h5 ++ nm ++ val ++ rest) in *.
  assert (E1 : le_decode (ztake 2 D) = lg).
  { unfold D. rewrite (ztake_exact h1) by lia. apply le2_round, Hlg. }
  assert (E2 : le_decode (zslice 2 4 D) = sm).
  { unfold D. rewrite (zslice_mid h1 h2) by lia. apply le2_round, Hsm. }
  assert (E3 : le_decode (zslice 4 6 D) = zlen nm).
  { unfold D. rewrite (app_assoc h1 h2). rewrite (zslice_mid (h1 ++ h2) h3) by (rewrite ?zlen_app; lia).
    apply le2_round. lia. }
  assert (E4 : le_decode (zslice 6 8 D) = vtype (a_val a)).
  { unfold D. rewrite (app_assoc h1 h2), (app_assoc (h1 ++ h2) h3).
    rewrite (zslice_mid ((h1 ++ h2) ++ h3) h4) by (rewrite ?zlen_app; lia). apply le2_round, Hty. }
  assert (E5 : le_decode (zslice 8 12 D) = zlen val).
  { unfold D. rewrite (app_assoc h1 h2), (app_assoc (h1 ++ h2) h3), (app_assoc ((h1 ++ h2) ++ h3) h4).
    rewrite (zslice_mid (((h1 ++ h2) ++ h3) ++ h4) h5) by (rewrite ?zlen_app; lia). apply le4_round. lia. }
  assert (E6 : zdrop 12 D = nm ++ val ++ rest).
  { unfold D. rewrite (app_assoc h1 h2), (app_assoc (h1 ++ h2) h3), (app_assoc ((h1 ++ h2) ++ h3) h4),
      (app_assoc (((h1 ++ h2) ++ h3) ++ h4) h5).
    apply zdrop_exact. rewrite ?zlen_app. lia. }
  rewrite Hlen. bset (12 + zlen nm + zlen val + zlen rest <? 12) false.
  rewrite E1, E2, E3, E4, E5, E6.
  rewrite !zlen_app. bset (zlen nm + (zlen val + zlen rest) <? zlen nm + zlen val) false.
  rewrite (ztake_exact nm) by reflexivity.
  rewrite (zslice_mid nm val) by lia.
  rewrite (app_assoc nm val). rewrite (zdrop_exact (nm ++ val)) by (rewrite zlen_app; lia).
  unfold nm, name_bytes. rewrite dec_text_term by exact Hn.
  unfold val. rewrite (dec_val_round (a_val a) false Hval Hp1a).
  unfold rest. rewrite IH by assumption. unfold meta_tag. fold lg. fold sm. reflexivity.
Qed.

(* ------------------------------------------------------------------ ContentDescription *)
Definition cd_render_opt (o : option (list Z)) : list Z :=
  match o with Some u => bytes_of_units u ++ [0; 0] | None => [] end.
Definition cd_tags_of (nts : list (list Z * option (list Z))) : list ltag :=
  flat_map (fun nt => match snd nt with Some u => [mkT 0 (fst nt) 0 0 (VText u)] | None => [] end) nts.

Lemma load_cd_texts_render : forall nts,
  Forall (fun nt => match snd nt with Some u => valid_text u | None => True end) nts ->
  load_cd_texts (map fst nts) (map (fun nt => zlen (cd_render_opt (snd nt))) nts) (concat (map (fun nt => cd_render_opt (snd nt)) nts))
  = Ok (cd_tags_of nts).
Proof.
  induction nts as [|[n o] nts IH]; intros Hv; [reflexivity|].
  inversion Hv as [|? ? Ho Hl]; subst. cbn [map concat fst snd load_cd_texts].
  pose proof (zlen_nonneg (concat (map (fun nt => cd_render_opt (snd nt)) nts))).
  rewrite zlen_app. bset (zlen (cd_render_opt o) + zlen (concat (map (fun nt => cd_render_opt (snd nt)) nts)) <? zlen (cd_render_opt o)) false.
  rewrite (zdrop_exact (cd_render_opt o)) by reflexivity. rewrite IH by exact Hl.
  destruct o as [u|]; cbn [cd_render_opt snd] in *.
  - zl. rewrite zlen_bytes_of_units. pose proof (zlen_nonneg u).
    bset (2 * zlen u + 2 =? 0) false.
    rewrite (ztake_exact (bytes_of_units u ++ [0; 0])) by (zl; rewrite zlen_bytes_of_units; reflexivity).
    rewrite dec_text_term by exact Ho. reflexivity.
  - reflexivity.
Qed.

(* the five 16-bit lengths in front of the strings *)
Lemma cd_lens5 a b c d e rest : 0 <= a < U16 -> 0 <= b < U16 -> 0 <= c < U16 -> 0 <= d < U16 -> 0 <= e < U16 ->
  map (fun i => le_decode (zslice (2 * i) (2 * i + 2)
         (flat_map (fun t => le_encode 2 t) [a; b; c; d; e] ++ rest))) [0; 1; 2; 3; 4] = [a; b; c; d; e].
Proof.
  intros Ha Hb Hc Hd He. cbn [flat_map map]. rewrite app_nil_r.
  set (h1 := le_encode 2 a). set (h2 := le_encode 2 b). set (h3 := le_encode 2 c). set (h4 := le_encode 2 d).
  set (h5 := le_encode 2 e).
  assert (L1 : zlen h1 = 2) by apply zlen_le2. assert (L2 : zlen h2 = 2) by apply zlen_le2.
  assert (L3 : zlen h3 = 2) by apply zlen_le2. assert (L4 : zlen h4 = 2) by apply zlen_le2.
  assert (L5 : zlen h5 = 2) by apply zlen_le2.
  change (2 * 0) with 0. change (2 * 0 + 2) with 2. change (2 * 1) with 2. change (2 * 1 + 2) with 4.
  change (2 * 2) with 4. change (2 * 2 + 2) with 6. change (2 * 3) with 6. change (2 * 3 + 2) with 8.
  change (2 * 4) with 8. change (2 * 4 + 2) with 10.
  rewrite <- !app_assoc.
  f_equal; [|f_equal; [|f_equal; [|f_equal; [|f_equal]]]].
  - unfold zslice. rewrite zdrop_0. change (2 - 0) with 2. rewrite (ztake_exact h1) by lia. apply le2_round, Ha.
  - rewrite (zslice_mid h1 h2) by lia. apply le2_round, Hb.
  - rewrite (app_assoc h1 h2). rewrite (zslice_mid (h1 ++ h2) h3) by (rewrite ?zlen_app; lia). apply le2_round, Hc.
  - rewrite (app_assoc h1 h2), (app_assoc (h1 ++ h2) h3).
    rewrite (zslice_mid ((h1 ++ h2) ++ h3) h4) by (rewrite ?zlen_app; lia). apply le2_round, Hd.
  - rewrite (app_assoc h1 h2), (app_assoc (h1 ++ h2) h3), (app_assoc ((h1 ++ h2) ++ h3) h4).
    rewrite (zslice_mid (((h1 ++ h2) ++ h3) ++ h4) h5) by (rewrite ?zlen_app; lia). apply le2_round, He.
Qed.

(* the ContentDescription view of a placement: per name, the text placed there *)
Definition cd_view (P : placement) : list (list Z * option (list Z)) :=
  map (fun n => (n, match find (fun a => list_eqb (a_name a) n) (p_cd P) with
                    | Some a => match a_val a with VText u => Some u | _ => None end
                    | None => None end)) CD_NAMES.
Definition cd_texts_ok (P : placement) : Prop := Forall (fun a => is_text (a_val a) = true) (p_cd P).

Lemma cd_text_view P n : cd_texts_ok P ->
  cd_text P n = cd_render_opt (match find (fun a => list_eqb (a_name a) n) (p_cd P) with
                               | Some a => match a_val a with VText u => Some u | _ => None end
                               | None => None end).
Proof.
  intros H. unfold cd_text. destruct (find _ (p_cd P)) as [a|] eqn:E; [|reflexivity].
  apply find_some in E as [Hin _]. unfold cd_texts_ok in H. rewrite Forall_forall in H. specialize (H a Hin).
  destruct (a_val a); try discriminate. reflexivity.
Qed.

Lemma load_cd_render P : cd_texts_ok P ->
  Forall (fun a => valid_attr a) (p_cd P) ->
  forallb (fun n => zlen (cd_text P n) <? U16) CD_NAMES = true ->
  load_cd (cd_payload P) = Ok (cd_tags_of (cd_view P)).
Proof.
  intros Ht Hv Hp. unfold load_cd, cd_payload.
  set (texts := map (cd_text P) CD_NAMES).
  assert (Htexts : texts = map (fun nt => cd_render_opt (snd nt)) (cd_view P)).
  { unfold texts, cd_view. rewrite map_map. apply map_ext. intros n. cbn [snd]. apply cd_text_view, Ht. }
  assert (Hb : Forall (fun t => 0 <= zlen t < U16) texts).
  { unfold texts. apply Forall_forall. intros t Hin. apply in_map_iff in Hin as (n & <- & Hn).
    rewrite forallb_forall in Hp. specialize (Hp n Hn). pose proof (zlen_nonneg (cd_text P n)). lia. }
  assert (H5 : exists t1 t2 t3 t4 t5, texts = [t1; t2; t3; t4; t5]).
  { unfold texts, CD_NAMES. cbn [map]. repeat eexists. }
  destruct H5 as (t1 & t2 & t3 & t4 & t5 & E5). rewrite E5 in Hb.
  inversion Hb as [|? ? B1 Hb1]; subst. inversion Hb1 as [|? ? B2 Hb2]; subst. inversion Hb2 as [|? ? B3 Hb3]; subst.
  inversion Hb3 as [|? ? B4 Hb4]; subst. inversion Hb4 as [|? ? B5 _]; subst.
  assert (Hhead : flat_map (fun t => le_encode 2 (zlen t)) texts = flat_map (fun t => le_encode 2 t) (map (@zlen Z) texts)).
  { clear. induction texts as [|t r IH]; [reflexivity|]. cbn [flat_map map]. rewrite IH. reflexivity. }
  assert (Hm : map (@zlen Z) texts = [zlen t1; zlen t2; zlen t3; zlen t4; zlen t5]) by (rewrite E5; reflexivity).
  rewrite Hhead, Hm.
  assert (Hl10 : zlen (flat_map (fun t => le_encode 2 t) [zlen t1; zlen t2; zlen t3; zlen t4; zlen t5]) = 10).
  { cbn [flat_map]. rewrite app_nil_r. zl. reflexivity. }
  pose proof (zlen_nonneg (concat texts)).
  rewrite zlen_app, Hl10. bset (10 + zlen (concat texts) <? 10) false.
  rewrite cd_lens5 by assumption.
  rewrite (zdrop_exact (flat_map (fun t => le_encode 2 t) [zlen t1; zlen t2; zlen t3; zlen t4; zlen t5])) by (symmetry; exact Hl10).
  assert (Hnames : CD_NAMES = map fst (cd_view P)).
  { unfold cd_view. rewrite map_map. cbn [fst]. symmetry. apply map_id. }
  assert (Hlens : [zlen t1; zlen t2; zlen t3; zlen t4; zlen t5] = map (fun nt => zlen (cd_render_opt (snd nt))) (cd_view P)).
  { change [zlen t1; zlen t2; zlen t3; zlen t4; zlen t5] with (map (@zlen Z) [t1; t2; t3; t4; t5]).
    rewrite <- E5, Htexts, map_map. reflexivity. }
  rewrite Hlens, Htexts. rewrite Hnames at 1.
  apply load_cd_texts_render.
  unfold cd_view. apply Forall_forall. intros nt Hin. apply in_map_iff in Hin as (n & <- & _). cbn [snd].
  destruct (find _ (p_cd P)) as [a|] eqn:E; [|exact I].
  apply find_some in E as [Hin _]. rewrite Forall_forall in Hv. destruct (Hv a Hin) as [_ Hval].
  destruct (a_val a); try exact I. exact Hval.
Qed.
