(* Ogg family: the piece of the LAST packet that from_packets (default_size 4096, wiggle_room 2048) leaves on its last
   page has the length of that packet modulo 255 and is non-empty when the packet is.  Needed when the last old page
   is incomplete (the packet behind the comment continues on later pages): replace() marks the last new page
   incomplete, which is a canonical page only if its last piece is a non-empty multiple of 255 bytes. *)
From Coq Require Import ZArith List Bool Lia.
Import ListNotations.
Require Import Base.Py Base.ZList Model.Crc Model.Ogg.
Require Import Proofs.C15_lacing Proofs.C15_page Proofs.C15_unpage Proofs.C15_paging Proofs.C15_from_packets Proofs.C15_file
  Proofs.C15_replace.
Open Scope Z_scope.

Definition ogg_ds : Z := 4096.
Definition ogg_wr : Z := 2048.
Lemma ogg_cs : chunk_size ogg_ds = 4080. Proof. reflexivity. Qed.

Definition lastpiece (p : page) : list Z := last (p_packets p) [].

Lemma lastpiece_add cur d : p_packets cur <> [] -> lastpiece (add_to_last cur d) = lastpiece cur ++ d.
Proof. intros H. unfold lastpiece, add_to_last. fields. apply last_app_last. exact H. Qed.

Lemma place_chunk_last data pr cur pr' cur' : p_packets cur <> [] -> data <> [] ->
  zlen (lastpiece cur) mod 255 = 0 ->
  place_chunk ogg_ds data pr cur = (pr', cur') ->
  p_packets cur' <> [] /\ lastpiece cur' <> [] /\ zlen (lastpiece cur') mod 255 = zlen data mod 255.
Proof.
  intros Hne Hd Hm. unfold place_chunk. destruct ((page_size cur <? ogg_ds) && (zlen (p_packets cur) <? 255)).
  - intros E; inversion E; subst. split; [unfold add_to_last; fields; apply app_last_nonempty|].
    rewrite lastpiece_add by exact Hne. split.
    + intros X. apply app_eq_nil in X as [_ X]. contradiction.
    + rewrite zlen_app. apply add_mod_0. exact Hm.
  - intros E; inversion E; subst. unfold next_page, lastpiece. fields. cbn [last].
    split; [discriminate|]. split; [exact Hd|reflexivity].
Qed.

Lemma chunk_step_last pk pr cur pk' pr' cur' : p_packets cur <> [] -> pk <> [] ->
  zlen (lastpiece cur) mod 255 = 0 ->
  chunk_step ogg_ds ogg_wr pk pr cur = (pk', pr', cur') ->
  p_packets cur' <> [] /\ lastpiece cur' <> [] /\
  (zlen (lastpiece cur') + zlen pk') mod 255 = zlen pk mod 255 /\
  (pk' <> [] -> zlen (lastpiece cur') mod 255 = 0) /\ (length pk' < length pk)%nat.
Proof.
  intros Hne Hpk Hm. unfold chunk_step. rewrite ogg_cs.
  set (data := ztake 4080 pk). set (rest := zdrop 4080 pk).
  assert (Hsplit : data ++ rest = pk) by apply ztake_zdrop.
  assert (Hdata : data <> []).
  { destruct pk as [|x pk]; [contradiction|]. unfold data, ztake. cbn. discriminate. }
  assert (Hdl : zlen data = Z.min 4080 (zlen pk)) by (apply zlen_ztake; lia).
  assert (Hrl : zlen rest = Z.max 0 (zlen pk - 4080)) by (apply zlen_zdrop; lia).
  assert (Hpos : 0 < zlen pk) by (destruct pk; [contradiction|rewrite zlen_cons; pose proof (zlen_nonneg pk); lia]).
  destruct (place_chunk ogg_ds data pr cur) as [pr1 cur1] eqn:EP.
  destruct (place_chunk_last data pr cur pr1 cur1 Hne Hdata Hm EP) as (P1 & P2 & P3).
  assert (Hlen : zlen data + zlen rest = zlen pk) by (rewrite <- zlen_app, Hsplit; reflexivity).
  destruct (zlen rest <? ogg_wr) eqn:W; intros E; inversion E; subst pk' pr' cur'; clear E.
  - split; [unfold add_to_last; fields; apply app_last_nonempty|]. rewrite lastpiece_add by exact P1.
    split; [intros X; apply app_eq_nil in X as [X _]; contradiction|].
    split; [|split; [intros X; contradiction|unfold zlen in *; cbn [length]; lia]].
    rewrite zlen_app, zlen_nil, Z.add_0_r, Z.add_mod, P3, <- Z.add_mod by lia. rewrite Hlen. reflexivity.
  - split; [exact P1|]. split; [exact P2|]. split; [|split].
    + rewrite Z.add_mod, P3, <- Z.add_mod by lia. rewrite Hlen. reflexivity.
    + intros Hr. rewrite P3. assert (0 < zlen rest) by (destruct rest; [contradiction|rewrite zlen_cons; pose proof (zlen_nonneg rest); lia]).
      assert (zlen data = 4080) as -> by lia. reflexivity.
    + unfold zlen in *. lia.
Qed.

Lemma chunks_last fuel : forall pk pr cur pr' cur', pk <> [] -> p_packets cur <> [] ->
  zlen (lastpiece cur) mod 255 = 0 ->
  chunks ogg_ds ogg_wr fuel pk pr cur = Ok (pr', cur') ->
  p_packets cur' <> [] /\ lastpiece cur' <> [] /\ zlen (lastpiece cur') mod 255 = zlen pk mod 255.
Proof.
  induction fuel as [|fuel IH]; intros pk pr cur pr' cur' Hpk Hne Hm H.
  - destruct pk; [contradiction|discriminate].
  - destruct pk as [|x pk0]; [contradiction|]. cbn [chunks] in H.
    destruct (chunk_step ogg_ds ogg_wr (x :: pk0) pr cur) as [[pk1 pr1] cur1] eqn:E.
    destruct (chunk_step_last _ _ _ _ _ _ Hne Hpk Hm E) as (A & B & C & D & _).
    destruct pk1 as [|y pk1'].
    + destruct fuel; cbn [chunks] in H; inversion H; subst; rewrite zlen_nil, Z.add_0_r in C; repeat split; assumption.
    + assert (Hy : y :: pk1' <> []) by discriminate.
      destruct (IH (y :: pk1') pr1 cur1 pr' cur' Hy A (D Hy) H) as (A' & B' & C').
      split; [exact A'|]. split; [exact B'|]. rewrite C', <- C.
      rewrite Z.add_mod, (D Hy), Z.add_0_l, Z.mod_mod by lia. reflexivity.
Qed.

Lemma fp_loop_app a : forall b pr cur,
  fp_loop ogg_ds ogg_wr (a ++ b) pr cur =
  match fp_loop ogg_ds ogg_wr a pr cur with Ok (pr1, c1) => fp_loop ogg_ds ogg_wr b pr1 c1 | Raise e => Raise e end.
Proof.
  induction a as [|x a IH]; intros b pr cur; [reflexivity|]. cbn [app fp_loop].
  destruct (chunks ogg_ds ogg_wr (S (length x)) x pr (set_packets cur (p_packets cur ++ [[]]))) as [[pr1 c1]|e]; [apply IH|reflexivity].
Qed.

Theorem from_packets_lastpiece a q seq pages : q <> [] ->
  from_packets ogg_ds ogg_wr (a ++ [q]) seq = Ok pages ->
  lastpiece (last pages new_page) <> [] /\ zlen (lastpiece (last pages new_page)) mod 255 = zlen q mod 255.
Proof.
  intros Hq. unfold from_packets. rewrite fp_loop_app.
  destruct (fp_loop ogg_ds ogg_wr a [] (set_sequence new_page seq)) as [[pr1 c1]|e]; [|discriminate].
  cbn [fp_loop].
  destruct (chunks ogg_ds ogg_wr (S (length q)) q pr1 (set_packets c1 (p_packets c1 ++ [[]]))) as [[pr2 c2]|e] eqn:C; [|discriminate].
  assert (Hne : p_packets (set_packets c1 (p_packets c1 ++ [[]])) <> []) by (fields; destruct (p_packets c1); discriminate).
  assert (Hm : zlen (lastpiece (set_packets c1 (p_packets c1 ++ [[]]))) mod 255 = 0)
    by (unfold lastpiece; fields; rewrite last_last; reflexivity).
  destruct (chunks_last _ _ _ _ _ _ Hq Hne Hm C) as (A & B & D).
  destruct (p_packets c2) eqn:E; [contradiction|]. intros H. inversion H; subst pages.
  cbn [rev]. rewrite last_last. split; assumption.
Qed.

Lemma ogg_last_app {A} (Y Z : list A) d : Z <> [] -> last (Y ++ Z) d = last Z d.
Proof.
  intros HZ. induction Y as [|y Y IH]; [reflexivity|]. cbn [app]. destruct (Y ++ Z) eqn:E; [|exact IH].
  apply app_eq_nil in E as [_ E]. contradiction.
Qed.

(* the last packet reassembled from pages whose last page carries more than one packet is the last piece of that page *)
Lemma to_packets_last l pl pk : to_packets false (l ++ [pl]) = Ok pk -> 1 < zlen (p_packets pl) ->
  last pk [] = lastpiece pl /\ 2 <= zlen pk.
Proof.
  intros H H1. unfold to_packets in H. destruct (l ++ [pl]) as [|p0 r] eqn:E; [discriminate|]. rewrite <- E in H.
  cbn beta iota in H. rewrite tp_loop_app in H.
  destruct (tp_loop (p_serial p0) (p_sequence p0, if continued p0 then [[]] else []) l) as [[s1 a1]|e]; [|discriminate].
  cbn [tp_loop] in H. unfold tp_step in H.
  destruct (negb (p_serial p0 =? p_serial pl)); [discriminate|]. destruct (negb (s1 =? p_sequence pl)); [discriminate|].
  unfold lastpiece. destruct (p_packets pl) as [|f [|g others]].
  - rewrite zlen_nil in H1. lia.
  - cbn in H1. lia.
  - assert (X : forall Y : list (list Z), Y <> [] -> last (Y ++ g :: others) [] = last (f :: g :: others) [] /\ 2 <= zlen (Y ++ g :: others)).
    { intros Y HY. split.
      - rewrite ogg_last_app by discriminate. reflexivity.
      - rewrite zlen_app, zlen_cons. pose proof (zlen_nonneg others).
        destruct Y; [contradiction|]. rewrite zlen_cons. pose proof (zlen_nonneg Y). lia. }
    destruct (continued pl).
    + destruct a1 as [|x a1']; [discriminate|]. cbn [rmap snd] in H.
      assert (E' : pk = app_last (x :: a1') f ++ g :: others) by (inversion H; reflexivity). rewrite E'.
      apply X. apply app_last_nonempty.
    + cbn [rmap snd] in H. assert (E' : pk = (a1 ++ [f]) ++ g :: others) by (inversion H; reflexivity). rewrite E'.
      apply X. destruct a1; discriminate.
Qed.
