(* Ogg family: the statements of C02 / C03 for save, delete and edit histories *)
From Coq Require Import ZArith List Bool Lia.
Import ListNotations.
Require Import Base.Py Base.ZList Gen.Gen_tags Model.Crc Model.Ogg Model.Fam_flac Model.Fam_ogg.
Require Import Proofs.C15_lacing Proofs.C15_page Proofs.C15_unpage Proofs.C15_paging Proofs.C15_from_packets Proofs.C15_file
  Proofs.C15_replace Proofs.Fam_ogg_scan Proofs.Fam_ogg_locate Proofs.Fam_ogg_replace Proofs.Fam_ogg_stream
  Proofs.Fam_ogg_newpages Proofs.Fam_ogg_preserve Proofs.Fam_ogg_lastpiece Proofs.Fam_ogg_inject Proofs.Fam_ogg_thms.
Open Scope Z_scope.

Lemma wf_parse f : ogg_wf f = true -> exists pages, ogg_parse f = Ok pages /\ ogg_f_streams_ok pages = true.
Proof. unfold ogg_wf. destruct (ogg_parse f) as [pages|e]; [|discriminate]. intros H. exists pages. auto. Qed.
Lemma parse_wf f pages : ogg_parse f = Ok pages -> ogg_f_streams_ok pages = true -> ogg_wf f = true.
Proof. unfold ogg_wf. intros -> H. exact H. Qed.

(* what a well-formed file is: the rendering (checksums included) of well-formed pages whose streams pass the walk *)
Theorem wf_layout f : ogg_wf f = true <->
  exists pages, f = render_all pages /\ Forall page_wf pages /\ ogg_f_streams_ok pages = true.
Proof.
  split.
  - intros H. destruct (wf_parse f H) as (pages & P & S). apply parse_iff in P as (E & W). exists pages. auto.
  - intros (pages & E & W & S). apply (parse_wf f pages); [apply parse_iff; auto|exact S].
Qed.

(* ---- one step ------------------------------------------------------------------------------------------- *)
Theorem save_obj_wf f c t pad cb f' : ogg_wf f = true -> ogg_save_obj f c t pad cb = Ok f' -> ogg_wf f' = true.
Proof.
  intros H S. destruct (wf_parse f H) as (pages & P & St).
  destruct (save_obj_step f c t pad cb f' pages P St S) as (olds & news & k & _ & P' & S' & _).
  exact (parse_wf f' _ P' S').
Qed.

Lemma save_is_obj f c t cb f' : ogg_save f c t cb = Ok f' -> exists pad, ogg_save_obj f c t pad cb = Ok f'.
Proof. unfold ogg_save. destruct (ogg_open f c) as [[v pad]|e]; [|discriminate]. intros H. exists pad. exact H. Qed.
Lemma delete_is_obj f c f' : ogg_delete f c = Ok f' ->
  exists vendor pad, ogg_save_obj f c (mkVC vendor []) pad (Some (fun _ _ => 0)) = Ok f'.
Proof. unfold ogg_delete, ogg_delete_obj. destruct (ogg_open f c) as [[v pad]|e]; [|discriminate]. intros H. exists v, pad. exact H. Qed.

Theorem save_wf f c t cb f' : ogg_wf f = true -> ogg_save f c t cb = Ok f' -> ogg_wf f' = true.
Proof. intros H S. destruct (save_is_obj _ _ _ _ _ S) as (pad & S'). exact (save_obj_wf _ _ _ _ _ _ H S'). Qed.
Theorem delete_wf f c f' : ogg_wf f = true -> ogg_delete f c = Ok f' -> ogg_wf f' = true.
Proof. intros H S. destruct (delete_is_obj _ _ _ S) as (v & pad & S'). exact (save_obj_wf _ _ _ _ _ _ H S'). Qed.

(* C02, first half: every page of every other stream is the same page, in the same relative order.
   s is the stream of the old comment pages; the file is read by the strict walker before and after *)
Definition ogg_others_kept (f f' : list Z) : Prop :=
  exists pages pages' s, ogg_parse f = Ok pages /\ ogg_parse f' = Ok pages' /\
    filter (not_serial s) pages' = filter (not_serial s) pages.

Theorem save_obj_others f c t pad cb f' : ogg_wf f = true -> ogg_save_obj f c t pad cb = Ok f' -> ogg_others_kept f f'.
Proof.
  intros H S. destruct (wf_parse f H) as (pages & P & St).
  destruct (save_obj_step f c t pad cb f' pages P St S) as (olds & news & k & _ & P' & _ & O & _).
  exists pages, (cut_result k news), (cut_s k). auto.
Qed.
Theorem save_others f c t cb f' : ogg_wf f = true -> ogg_save f c t cb = Ok f' -> ogg_others_kept f f'.
Proof. intros H S. destruct (save_is_obj _ _ _ _ _ S) as (pad & S'). exact (save_obj_others _ _ _ _ _ _ H S'). Qed.
Theorem delete_others f c f' : ogg_wf f = true -> ogg_delete f c = Ok f' -> ogg_others_kept f f'.
Proof. intros H S. destruct (delete_is_obj _ _ _ S) as (v & pad & S'). exact (save_obj_others _ _ _ _ _ _ H S'). Qed.

(* the edited stream: its pages in front of the old comment pages are untouched, the old comment pages are replaced
   by the new ones, the pages behind them are the same pages up to their sequence numbers *)
Definition ogg_unnumbered (l : list page) : list page := map (fun p => set_sequence p 0) l.
Theorem save_obj_stream f c t pad cb f' : ogg_wf f = true -> ogg_save_obj f c t pad cb = Ok f' ->
  exists pages pages' s A olds news T T',
    ogg_parse f = Ok pages /\ ogg_parse f' = Ok pages' /\ olds <> [] /\ news <> [] /\
    filter (is_serial s) pages = A ++ olds ++ T /\ filter (is_serial s) pages' = A ++ news ++ T' /\
    ogg_unnumbered T' = ogg_unnumbered T /\ zlen (filter (not_serial s) pages') = zlen (filter (not_serial s) pages).
Proof.
  intros H S. destruct (wf_parse f H) as (pages & P & St).
  destruct (save_obj_step f c t pad cb f' pages P St S) as (olds & news & k & K & P' & _ & O & V1 & V2 & NK & _ & _).
  exists pages, (cut_result k news), (cut_s k), (filter (is_serial (cut_s k)) (cut_before k)), (map fst (cut_run k)),
    (cut_prepared k news), (filter (is_serial (cut_s k)) (cut_gn k)), (filter (is_serial (cut_s k)) (cut_tail k news)).
  destruct NK as (Hne & _).
  repeat split; try assumption.
  - pose proof (cut_run_ne k). destruct (cut_run k); [contradiction|discriminate].
  - apply prepare_new_nonempty. exact Hne.
  - unfold cut_tail. destruct (zlen (cut_run k) =? zlen news); [reflexivity|].
    apply (proj2 (renumber_pages_gapless (cut_s k) (p_sequence (cut_old0 k) + zlen news) (cut_gn k))).
  - rewrite O. reflexivity.
Qed.

(* ---- histories ------------------------------------------------------------------------------------------ *)
Lemma step_wf c f o : ogg_wf f = true -> ogg_wf (ogg_step c f o) = true.
Proof.
  intros H. destruct o as [t cb|]; cbn [ogg_step].
  - destruct (ogg_save f c t cb) as [f'|e] eqn:S; [exact (save_wf _ _ _ _ _ H S)|exact H].
  - destruct (ogg_delete f c) as [f'|e] eqn:S; [exact (delete_wf _ _ _ H S)|exact H].
Qed.
Theorem history_wf c ops : forall f, ogg_wf f = true -> ogg_wf (fold_left (ogg_step c) ops f) = true.
Proof. induction ops as [|o ops IH]; intros f H; [exact H|]. cbn [fold_left]. apply IH. apply step_wf. exact H. Qed.

(* a stream that is never the edited one keeps its pages through the whole history *)
Definition ogg_same_stream (s : Z) (f f' : list Z) : Prop :=
  exists pages pages', ogg_parse f = Ok pages /\ ogg_parse f' = Ok pages' /\
    filter (is_serial s) pages' = filter (is_serial s) pages.

Lemma step_streams c f o : ogg_wf f = true ->
  exists ss, (length ss <= 1)%nat /\ forall s, ~ In s ss -> ogg_same_stream s f (ogg_step c f o).
Proof.
  intros H. destruct (wf_parse f H) as (pages & P & St).
  assert (Same : exists ss, (length ss <= 1)%nat /\ forall s, ~ In s ss -> ogg_same_stream s f f).
  { exists []. split; [cbn; lia|]. intros s _. exists pages, pages. auto. }
  assert (Obj : forall t pad cb f', ogg_save_obj f c t pad cb = Ok f' ->
            exists ss, (length ss <= 1)%nat /\ forall s, ~ In s ss -> ogg_same_stream s f f').
  { intros t pad cb f' S.
    destruct (save_obj_step f c t pad cb f' pages P St S) as (olds & news & k & _ & P' & _ & O & _).
    exists [cut_s k]. split; [cbn; lia|]. intros s Hs. exists pages, (cut_result k news). split; [exact P|]. split; [exact P'|].
    assert (Hne : s <> cut_s k) by (intros E; apply Hs; left; symmetry; exact E).
    rewrite (filter_other (cut_s k) s _ Hne), O, <- (filter_other (cut_s k) s _ Hne). reflexivity. }
  destruct o as [t cb|]; cbn [ogg_step].
  - destruct (ogg_save f c t cb) as [f'|e] eqn:S; [|exact Same].
    destruct (save_is_obj _ _ _ _ _ S) as (pad & S'). exact (Obj _ _ _ _ S').
  - destruct (ogg_delete f c) as [f'|e] eqn:S; [|exact Same].
    destruct (delete_is_obj _ _ _ S) as (v & pad & S'). exact (Obj _ _ _ _ S').
Qed.

Lemma same_stream_trans s a b c : ogg_same_stream s a b -> ogg_same_stream s b c -> ogg_same_stream s a c.
Proof.
  intros (p1 & p2 & A1 & A2 & A3) (q2 & q3 & B1 & B2 & B3). rewrite A2 in B1. inversion B1; subst q2.
  exists p1, q3. split; [exact A1|]. split; [exact B2|]. rewrite B3. exact A3.
Qed.

Theorem history_streams c ops : forall f, ogg_wf f = true ->
  exists ss, (length ss <= length ops)%nat /\
    forall s, ~ In s ss -> ogg_same_stream s f (fold_left (ogg_step c) ops f).
Proof.
  induction ops as [|o ops IH]; intros f H.
  - exists []. split; [cbn; lia|]. intros s _. destruct (wf_parse f H) as (pages & P & _). exists pages, pages. auto.
  - cbn [fold_left]. destruct (step_streams c f o H) as (s1 & L1 & K1).
    destruct (IH _ (step_wf c f o H)) as (s2 & L2 & K2). exists (s1 ++ s2).
    split; [rewrite app_length; cbn [length]; lia|]. intros s Hs.
    eapply same_stream_trans; [apply K1|apply K2]; intros X; apply Hs; apply in_or_app; auto.
Qed.
