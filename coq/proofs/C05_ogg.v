(* C05 -- WAVE fmt chunk and the identification headers of the Ogg codecs. *)
From Coq Require Import ZArith List Bool Lia.
Import ListNotations.
Require Import Base.Py Base.ZList Model.InfoBase Model.InfoIff Model.InfoFlac Model.InfoOgg Proofs.C05_bits Proofs.C05_flac.
Open Scope Z_scope.

Lemma signed_roundtrip m v : 0 < m -> - m <= 2 * v < m -> to_signed m (of_signed m v) = v.
Proof.
  intros Hm Hv. unfold to_signed, of_signed.
  destruct (v <? 0) eqn:E; [rewrite if_true by lia | rewrite if_false by lia]; lia.
Qed.
Lemma of_signed_range m v : 0 < m -> - m <= 2 * v < m -> 0 <= of_signed m v < m.
Proof. intros Hm Hv. unfold of_signed. destruct (v <? 0) eqn:E; lia. Qed.

(* ------------------------------------------------------------------ WAVE *)
Theorem wave_fmt format channels rate byte_rate block_align bits ext data_size :
  0 <= format < 65536 -> 0 <= channels < 65536 -> 0 <= rate < 4294967296 -> 0 <= byte_rate < 4294967296 ->
  0 <= block_align < 65536 -> 0 <= bits < 65536 ->
  decode_wave_fmt (build_wave_fmt format channels rate byte_rate block_align bits ext) data_size =
  Ok [format; channels; rate; bits; channels * bits * rate;
      (if block_align >? 0 then match data_size with Some ds => ds | None => 0 end else 0);
      (if block_align >? 0 then match data_size with Some _ => block_align | None => 1 end else 1);
      b2z (rate >? 0)].
Proof.
  intros H1 H2 H3 H4 H5 H6.
  unfold decode_wave_fmt, build_wave_fmt.
  layout.
  rewrite if_false by (repeat rewrite zlen_cons; pose proof (zlen_nonneg ext); lia).
  decode_encode.
  destruct (block_align >? 0); [destruct data_size|]; reflexivity.
Qed.

(* a chunk shorter than the 16 bytes of WAVEFORMAT is rejected *)
Theorem wave_fmt_short fmt data_size : zlen fmt < 16 -> decode_wave_fmt fmt data_size = Raise EMutagen.
Proof. intros H. unfold decode_wave_fmt. rewrite if_true by lia. reflexivity. Qed.

(* ------------------------------------------------------------------ Vorbis *)
Theorem vorbis_id channels rate maxbr nombr minbr blocksizes granule :
  0 <= channels < 256 -> 1 <= rate < 4294967296 -> -2147483648 <= maxbr < 2147483648 ->
  -2147483648 <= nombr < 2147483648 -> -2147483648 <= minbr < 2147483648 -> 0 <= blocksizes < 256 ->
  decode_vorbis_id (build_vorbis_id channels rate maxbr nombr minbr blocksizes) granule =
  Ok [channels; rate; spec_vorbis_bitrate maxbr nombr minbr; granule; rate].
Proof.
  intros H1 H2 H3 H4 H5 H6.
  unfold decode_vorbis_id, build_vorbis_id, ascii_vorbis1.
  rewrite if_false by reflexivity.
  pose proof (of_signed_range 4294967296 maxbr) as R1. pose proof (of_signed_range 4294967296 nombr) as R2.
  pose proof (of_signed_range 4294967296 minbr) as R3.
  layout. decode_encode.
  rewrite !signed_roundtrip by lia.
  rewrite if_false by lia. reflexivity.
Qed.

Theorem vorbis_rate0 channels maxbr nombr minbr blocksizes granule :
  0 <= channels < 256 -> -2147483648 <= maxbr < 2147483648 ->
  -2147483648 <= nombr < 2147483648 -> -2147483648 <= minbr < 2147483648 -> 0 <= blocksizes < 256 ->
  decode_vorbis_id (build_vorbis_id channels 0 maxbr nombr minbr blocksizes) granule = Raise EMutagen.
Proof.
  intros H1 H3 H4 H5 H6.
  unfold decode_vorbis_id, build_vorbis_id, ascii_vorbis1.
  rewrite if_false by reflexivity.
  layout. decode_encode. reflexivity.
Qed.

(* ------------------------------------------------------------------ Opus *)
Theorem opus_head version channels pre_skip rate gain family table granule :
  0 <= version < 16 -> 0 <= channels < 256 -> 0 <= pre_skip < 65536 -> 0 <= rate < 4294967296 ->
  -32768 <= gain < 32768 -> 0 <= family < 256 ->
  decode_opus_head (build_opus_head version channels pre_skip rate gain family table) granule =
  Ok [channels; granule - pre_skip; 48000].
Proof.
  intros H1 H2 H3 H4 H5 H6.
  unfold decode_opus_head, build_opus_head, ascii_OpusHead.
  rewrite if_false by reflexivity.
  layout. decode_encode.
  rewrite if_false by lia. reflexivity.
Qed.

Theorem opus_bad_version version channels pre_skip rate gain family table granule :
  16 <= version < 256 -> 0 <= channels < 256 -> 0 <= pre_skip < 65536 -> 0 <= rate < 4294967296 ->
  -32768 <= gain < 32768 -> 0 <= family < 256 ->
  decode_opus_head (build_opus_head version channels pre_skip rate gain family table) granule = Raise EMutagen.
Proof.
  intros H1 H2 H3 H4 H5 H6.
  unfold decode_opus_head, build_opus_head, ascii_OpusHead.
  rewrite if_false by reflexivity.
  layout. decode_encode.
  rewrite if_true by lia. reflexivity.
Qed.

(* ------------------------------------------------------------------ Speex *)
Theorem speex_header vstring rate mode channels bitrate frame_size vbr fpp granule :
  1 <= rate < 4294967296 -> 0 <= mode < 4294967296 -> 0 <= channels < 4294967296 ->
  -2147483648 <= bitrate < 2147483648 -> 0 <= frame_size < 4294967296 -> 0 <= vbr < 4294967296 ->
  0 <= fpp < 4294967296 ->
  decode_speex_header (build_speex_header vstring rate mode channels bitrate frame_size vbr fpp) granule =
  Ok [rate; channels; Z.max 0 bitrate; granule; rate].
Proof.
  intros H1 H2 H3 H4 H5 H6 H7.
  unfold decode_speex_header, build_speex_header, ascii_Speex.
  set (vs := firstn 20 (vstring ++ zeros 20)).
  assert (Hvs : length vs = 20%nat).
  { unfold vs. rewrite firstn_length, app_length. unfold zeros. rewrite repeat_length.
    change (Z.to_nat 20) with 20%nat. lia. }
  do 20 (destruct vs as [|? vs]; [discriminate|]). destruct vs; [|discriminate].
  rewrite if_false by reflexivity.
  pose proof (of_signed_range 4294967296 bitrate) as R1.
  layout. decode_encode.
  rewrite !signed_roundtrip by lia.
  rewrite if_false by lia. reflexivity.
Qed.

(* ------------------------------------------------------------------ Theora *)
Theorem theora_id vrev fmbw fmbh picw pich picx picy frn frd parn pard cs nombr qual kfgshift pf granule :
  0 <= vrev < 256 -> 0 <= fmbw < 65536 -> 0 <= fmbh < 65536 -> 0 <= picw < 16777216 -> 0 <= pich < 16777216 ->
  0 <= picx < 256 -> 0 <= picy < 256 -> 1 <= frn < 4294967296 -> 1 <= frd < 4294967296 ->
  0 <= parn < 16777216 -> 0 <= pard < 16777216 -> 0 <= cs < 256 -> 0 <= nombr < 16777216 ->
  0 <= qual < 64 -> 0 <= kfgshift < 32 -> 0 <= pf < 4 ->
  decode_theora_id (build_theora_id vrev fmbw fmbh picw pich picx picy frn frd parn pard cs nombr qual kfgshift pf) granule =
  Ok [frn; frd; nombr; granule / 2 ^ kfgshift + granule mod 2 ^ kfgshift; kfgshift].
Proof.
  intros H1 H2 H3 H4 H5 H6 H7 H8 H9 H10 H11 H12 H13 H14 H15 H16.
  unfold decode_theora_id, build_theora_id, ascii_theora80.
  rewrite if_false by reflexivity.
  layout. decode_encode.
  rewrite if_false by reflexivity.
  rewrite if_false by lia.
  assert (Hs : ((qual * 1024 + kfgshift * 32 + pf * 8) / 32) mod 32 = kfgshift) by lia.
  rewrite Hs. reflexivity.
Qed.

Theorem theora_zero_rate vrev fmbw fmbh picw pich picx picy frn frd parn pard cs nombr qual kfgshift pf granule :
  0 <= vrev < 256 -> 0 <= fmbw < 65536 -> 0 <= fmbh < 65536 -> 0 <= picw < 16777216 -> 0 <= pich < 16777216 ->
  0 <= picx < 256 -> 0 <= picy < 256 -> 0 <= frn < 4294967296 -> 0 <= frd < 4294967296 -> frn = 0 \/ frd = 0 ->
  0 <= parn < 16777216 -> 0 <= pard < 16777216 -> 0 <= cs < 256 -> 0 <= nombr < 16777216 ->
  0 <= qual < 64 -> 0 <= kfgshift < 32 -> 0 <= pf < 4 ->
  decode_theora_id (build_theora_id vrev fmbw fmbh picw pich picx picy frn frd parn pard cs nombr qual kfgshift pf) granule =
  Raise EMutagen.
Proof.
  intros H1 H2 H3 H4 H5 H6 H7 H8 H9 Hz H10 H11 H12 H13 H14 H15 H16.
  unfold decode_theora_id, build_theora_id, ascii_theora80.
  rewrite if_false by reflexivity.
  layout. decode_encode.
  rewrite if_false by reflexivity.
  rewrite if_true by lia. reflexivity.
Qed.

(* ------------------------------------------------------------------ Ogg FLAC *)
Theorem oggflac_id header_packets p granule : 0 <= header_packets < 65536 -> valid_flac p ->
  decode_oggflac_id (build_oggflac_id header_packets p) granule =
  Ok [fl_minbs p; fl_maxbs p; fl_rate p; fl_channels p; fl_bps p; fl_total p;
      (if fl_total p =? 0 then granule else fl_total p); fl_rate p; header_packets].
Proof.
  intros Hh Hv.
  unfold decode_oggflac_id, build_oggflac_id, ascii_7fFLAC, ascii_fLaC.
  rewrite if_false by reflexivity.
  assert (Hs : skipn 17 ([127; 70; 76; 65; 67] ++ [1; 0] ++ be_encode 2 header_packets ++ [102; 76; 97; 67] ++ [0; 0; 0; 34] ++
                         build_flac_streaminfo p) = build_flac_streaminfo p) by reflexivity.
  rewrite Hs. rewrite (flac_streaminfo p Hv). unfold expected_flac.
  layout. decode_encode.
  rewrite if_false by reflexivity. rewrite if_false by reflexivity.
  destruct (fl_total p =? 0); reflexivity.
Qed.
