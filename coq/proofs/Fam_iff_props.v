(* IFF family: the statements of C01 C02 C03 C08 about Model.Fam_iff, for every flavour satisfying fl_ok
   (AIFF, WAVE, DSDIFF), every file, every tag byte string.  No size bounds except where a size would leave its
   32/64-bit field (then iff_save raises struct.error, which the hypotheses `= Ok _` exclude and
   iff_save_succeeds characterises). *)
From Coq Require Import ZArith List Bool Lia.
Import ListNotations.
Require Import Base.Py Base.ZList Model.Splice Model.Fam_iff
  Proofs.Fam_iff_codec Proofs.Fam_iff_chunks Proofs.Fam_iff_walk Proofs.Fam_iff_ops.
Open Scope Z_scope.

(* operations of an edit history; a failed operation ends the history (the hypothesis `= Ok _` excludes it) *)
Inductive iff_op := OSave (tag : list Z) | ODelete.
Definition iff_step (fl : flavour) (r : result (list Z)) (o : iff_op) : result (list Z) :=
  rbind r (fun f => match o with OSave t => iff_save fl f t | ODelete => iff_delete fl f end).
Definition iff_run (fl : flavour) (f : list Z) (ops : list iff_op) : result (list Z) :=
  fold_left (iff_step fl) ops (Ok f).
(* C02: what must not change -- form type and every chunk except the first ID3 chunk, in order *)
Definition iff_foreign (fl : flavour) (f : list Z) : result (list Z * list chunk) :=
  rmap (fun s => (s_name s, others fl (s_chunks s))) (iff_parse fl f).

Section Fl.
Variable fl : flavour.
Hypothesis Hfl : fl_ok fl = true.
Notation HS := (hsize fl).

Lemma wf_parse f : iff_wf fl f = true -> exists s, iff_parse fl f = Ok s.
Proof. unfold iff_wf. destruct (iff_parse fl f) as [s|e]; [eauto | discriminate]. Qed.

(* ------------------------------------------------------------------ structure-level facts *)
Lemma others_save s tag : others fl (s_chunks (save_struct fl s tag)) = others fl (s_chunks s).
Proof.
  unfold save_struct, others at 2. destruct (split_id3 fl (s_chunks s)) as [[[pre c] post]|] eqn:Sp.
  - destruct (split_id3_some fl _ _ _ _ Sp) as (_ & Hid & Hpre). cbn [s_chunks]. unfold others.
    rewrite (split_id3_app_none fl pre (with_tag c tag) post Hpre Hid). reflexivity.
  - cbn [s_chunks]. unfold others.
    rewrite (split_id3_app_none fl (s_chunks s) (with_tag (new_chunk fl) tag) [] Sp (fl_new_id3 fl Hfl)).
    apply app_nil_r.
Qed.
Lemma split_save s tag : exists pre c post,
  split_id3 fl (s_chunks (save_struct fl s tag)) = Some (pre, c, post) /\ cdata c = tag.
Proof.
  unfold save_struct. destruct (split_id3 fl (s_chunks s)) as [[[pre c] post]|] eqn:Sp.
  - destruct (split_id3_some fl _ _ _ _ Sp) as (_ & Hid & Hpre). cbn [s_chunks].
    exists pre, (with_tag c tag), post. split; [|reflexivity]. apply split_id3_app_none; assumption.
  - cbn [s_chunks]. exists (s_chunks s), (with_tag (new_chunk fl) tag), []. split; [|reflexivity].
    apply split_id3_app_none; [exact Sp | exact (fl_new_id3 fl Hfl)].
Qed.
Lemma chunks_delete s : s_chunks (delete_struct fl s) = others fl (s_chunks s).
Proof. unfold delete_struct, others. destruct (split_id3 fl (s_chunks s)) as [[[pre c] post]|]; reflexivity. Qed.
Lemma name_save s tag : s_name (save_struct fl s tag) = s_name s.
Proof. unfold save_struct. destruct (split_id3 fl (s_chunks s)) as [[[pre c] post]|]; reflexivity. Qed.
Lemma name_delete s : s_name (delete_struct fl s) = s_name s.
Proof. unfold delete_struct. destruct (split_id3 fl (s_chunks s)) as [[[pre c] post]|]; reflexivity. Qed.

(* counting tag chunks *)
Lemma count_id3_app a b : count_id3 fl (a ++ b) = count_id3 fl a + count_id3 fl b.
Proof. unfold count_id3. rewrite filter_app, zlen_app. reflexivity. Qed.
Lemma count_id3_nonneg a : 0 <= count_id3 fl a. Proof. apply zlen_nonneg. Qed.
Lemma count_zero_split a : count_id3 fl a = 0 -> split_id3 fl a = None.
Proof.
  induction a as [|x a IH]; intros Hc; [reflexivity|].
  unfold count_id3 in Hc. cbn [filter] in Hc. cbn [split_id3]. destruct (is_id3 fl (cid x)).
  - rewrite zlen_cons in Hc. pose proof (zlen_nonneg (filter (fun c => is_id3 fl (cid c)) a)). lia.
  - rewrite IH by exact Hc. reflexivity.
Qed.
Lemma split_none_count a : split_id3 fl a = None -> count_id3 fl a = 0.
Proof.
  induction a as [|x a IH]; intros Hs; [reflexivity|].
  cbn [split_id3] in Hs. unfold count_id3. cbn [filter]. destruct (is_id3 fl (cid x)); [discriminate|].
  destruct (split_id3 fl a) as [[[p y] q]|]; [discriminate|]. apply IH. reflexivity.
Qed.
Lemma others_no_id3 cs : count_id3 fl cs <= 1 -> split_id3 fl (others fl cs) = None.
Proof.
  intros Hc. unfold others. destruct (split_id3 fl cs) as [[[pre c] post]|] eqn:Sp; [|exact Sp].
  destruct (split_id3_some fl _ _ _ _ Sp) as (Ecs & Hid & Hpre). subst cs.
  rewrite count_id3_app in Hc. unfold count_id3 at 2 in Hc. cbn [filter] in Hc. rewrite Hid, zlen_cons in Hc.
  fold (count_id3 fl post) in Hc. pose proof (count_id3_nonneg pre). pose proof (count_id3_nonneg post).
  apply count_zero_split. rewrite count_id3_app. rewrite (split_none_count _ Hpre). lia.
Qed.

(* ------------------------------------------------------------------ C03: one step and histories *)
Theorem iff_save_spec f s tag f' : iff_parse fl f = Ok s -> iff_save fl f tag = Ok f' ->
  iff_parse fl f' = Ok (save_struct fl s tag) /\ f' = iff_render fl (save_struct fl s tag).
Proof.
  intros Hp Hsv. destruct (iff_parse_sound fl Hfl f s Hp) as [Ef Hs]. subst f.
  destruct (iff_save_wf_struct fl Hfl s tag f' Hs Hsv) as [Ef' Hs']. subst f'.
  split; [apply iff_parse_render; assumption | reflexivity].
Qed.
Theorem iff_delete_spec f s : iff_parse fl f = Ok s ->
  iff_delete fl f = Ok (iff_render fl (delete_struct fl s)) /\
  iff_parse fl (iff_render fl (delete_struct fl s)) = Ok (delete_struct fl s).
Proof.
  intros Hp. destruct (iff_parse_sound fl Hfl f s Hp) as [Ef Hs]. subst f.
  split; [apply iff_delete_render; assumption|]. apply iff_parse_render; [assumption|].
  apply delete_struct_ok; assumption.
Qed.

Theorem iff_save_wf f tag f' : iff_wf fl f = true -> iff_save fl f tag = Ok f' -> iff_wf fl f' = true.
Proof.
  intros Hw Hsv. destruct (wf_parse f Hw) as [s Hp]. destruct (iff_save_spec f s tag f' Hp Hsv) as [Hp' _].
  unfold iff_wf. rewrite Hp'. reflexivity.
Qed.
Theorem iff_delete_wf f f' : iff_wf fl f = true -> iff_delete fl f = Ok f' -> iff_wf fl f' = true.
Proof.
  intros Hw Hd. destruct (wf_parse f Hw) as [s Hp]. destruct (iff_delete_spec f s Hp) as [Hd' Hp'].
  rewrite Hd' in Hd. inversion Hd; subst. unfold iff_wf. rewrite Hp'. reflexivity.
Qed.
(* delete never fails on a well-formed file *)
Theorem iff_delete_succeeds f : iff_wf fl f = true -> exists f', iff_delete fl f = Ok f'.
Proof. intros Hw. destruct (wf_parse f Hw) as [s Hp]. destruct (iff_delete_spec f s Hp) as [Hd _]. eauto. Qed.
(* save fails only when a size field overflows: explicit bound on the sizes *)
Theorem iff_save_succeeds f tag : iff_wf fl f = true ->
  zlen f + zlen tag + HS + 1 < 256 ^ Z.of_nat (fl_w fl) -> exists f', iff_save fl f tag = Ok f'.
Proof.
  intros Hw Hb. destruct (wf_parse f Hw) as [s Hp]. destruct (iff_parse_sound fl Hfl f s Hp) as [Ef Hs]. subst f.
  rewrite iff_save_render by assumption.
  pose proof (iff_render_zlen fl Hfl s Hs) as Lf. pose proof (zlen_nonneg tag) as Ht.
  pose proof (fl_w_pos fl Hfl) as Hw1. pose proof (hsize_eq fl) as HH. pose proof (mod2_range (zlen tag)) as Hm.
  destruct (struct_ok_inv fl s Hs) as (Hn & Hcs & Hfit).
  pose proof (zlen_nonneg (render_chunks fl (s_chunks s))) as HX.
  assert (F1 : fits fl (zlen tag) = true) by (apply fits_iff; lia).
  assert (F2 : fits fl (4 + zlen (render_chunks fl (s_chunks (save_struct fl s tag)))) = true).
  { apply fits_iff. unfold save_struct. destruct (split_id3 fl (s_chunks s)) as [[[pre c] post]|] eqn:Sp; cbn [s_chunks].
    - destruct (split_id3_some fl _ _ _ _ Sp) as (Ecs & Hid & _). rewrite Ecs in Hcs, Lf.
      apply chunks_ok_mid in Hcs as (A & B & C). rewrite zlen_render_mid in Lf by (exact Hfl || exact B).
      destruct (chunk_ok_inv fl c B) as (Lc & _).
      rewrite render_mid, !zlen_app, render_chunk_zlen by (exact Hfl || exact Lc). rewrite csize_with_tag by exact Hfl.
      destruct (csize_pos fl Hfl c B) as [Hp0 _].
      pose proof (zlen_nonneg (render_chunks fl pre)). pose proof (zlen_nonneg (render_chunks fl post)). lia.
    - rewrite render_chunks_app, zlen_app. cbn [render_chunks]. rewrite app_nil_r.
      rewrite render_chunk_zlen by (exact Hfl || (cbn [with_tag new_chunk cid]; apply sid_ok_len; apply fl_new_sid; exact Hfl)).
      rewrite csize_with_tag by exact Hfl. lia. }
  rewrite F1, F2. cbn [andb]. eauto.
Qed.

Lemma iff_run_raise e ops : fold_left (iff_step fl) ops (Raise e) = Raise e.
Proof. induction ops as [|o ops IH]; [reflexivity | exact IH]. Qed.

Theorem iff_history_wf ops : forall f f', iff_wf fl f = true -> iff_run fl f ops = Ok f' -> iff_wf fl f' = true.
Proof.
  unfold iff_run. induction ops as [|o ops IH]; intros f f' Hw Hr.
  - cbn in Hr. inversion Hr; subst. exact Hw.
  - cbn [fold_left] in Hr. unfold iff_step at 2 in Hr. cbn [rbind] in Hr.
    destruct o as [t|].
    + destruct (iff_save fl f t) as [f1|e] eqn:E; [|rewrite iff_run_raise in Hr; discriminate].
      apply (IH f1 f'); [eapply iff_save_wf; eassumption | exact Hr].
    + destruct (iff_delete fl f) as [f1|e] eqn:E; [|rewrite iff_run_raise in Hr; discriminate].
      apply (IH f1 f'); [eapply iff_delete_wf; eassumption | exact Hr].
Qed.

(* ------------------------------------------------------------------ C02 *)
Theorem iff_save_foreign f s tag f' : iff_parse fl f = Ok s -> iff_save fl f tag = Ok f' ->
  exists s', iff_parse fl f' = Ok s' /\ s_name s' = s_name s /\ others fl (s_chunks s') = others fl (s_chunks s).
Proof.
  intros Hp Hsv. destruct (iff_save_spec f s tag f' Hp Hsv) as [Hp' _].
  exists (save_struct fl s tag). split; [exact Hp'|]. split; [apply name_save | apply others_save].
Qed.
Theorem iff_delete_foreign f s f' : iff_parse fl f = Ok s -> iff_delete fl f = Ok f' ->
  exists s', iff_parse fl f' = Ok s' /\ s_name s' = s_name s /\ s_chunks s' = others fl (s_chunks s).
Proof.
  intros Hp Hd. destruct (iff_delete_spec f s Hp) as [Hd' Hp']. rewrite Hd' in Hd. inversion Hd; subst.
  exists (delete_struct fl s). split; [exact Hp'|]. split; [apply name_delete | apply chunks_delete].
Qed.

(* along a whole history, for files with at most one ID3 chunk (a second one would become "the" tag chunk after
   a delete, see iff_delete_foreign): form type and all other chunks never change *)
Definition single (f : list Z) : Prop :=
  exists s, iff_parse fl f = Ok s /\ count_id3 fl (s_chunks s) <= 1.

Lemma count_save s tag : count_id3 fl (s_chunks s) <= 1 -> count_id3 fl (s_chunks (save_struct fl s tag)) <= 1.
Proof.
  intros Hc. unfold save_struct. destruct (split_id3 fl (s_chunks s)) as [[[pre c] post]|] eqn:Sp; cbn [s_chunks].
  - destruct (split_id3_some fl _ _ _ _ Sp) as (Ecs & Hid & Hpre). rewrite Ecs in Hc.
    rewrite count_id3_app in *. unfold count_id3 at 2 in Hc. unfold count_id3 at 2. cbn [filter] in *.
    cbn [with_tag cid]. rewrite Hid in *. rewrite zlen_cons in *. exact Hc.
  - rewrite count_id3_app, (split_none_count _ Sp). unfold count_id3. cbn [filter with_tag new_chunk cid].
    rewrite (fl_new_id3 fl Hfl). cbn. lia.
Qed.
Lemma count_delete s : count_id3 fl (s_chunks s) <= 1 -> count_id3 fl (s_chunks (delete_struct fl s)) <= 1.
Proof.
  intros Hc. rewrite chunks_delete. rewrite (split_none_count _ (others_no_id3 _ Hc)). lia.
Qed.
Lemma others_others cs : count_id3 fl cs <= 1 -> others fl (others fl cs) = others fl cs.
Proof. intros Hc. unfold others at 1. rewrite (others_no_id3 _ Hc). reflexivity. Qed.

Theorem iff_history_foreign ops : forall f f', single f -> iff_run fl f ops = Ok f' ->
  single f' /\ iff_foreign fl f' = iff_foreign fl f.
Proof.
  unfold iff_run. induction ops as [|o ops IH]; intros f f' Hsg Hr.
  - cbn in Hr. inversion Hr; subst. split; [exact Hsg | reflexivity].
  - cbn [fold_left] in Hr. unfold iff_step at 2 in Hr. cbn [rbind] in Hr.
    destruct Hsg as (s & Hp & Hc).
    destruct o as [t|].
    + destruct (iff_save fl f t) as [f1|e] eqn:E; [|rewrite iff_run_raise in Hr; discriminate].
      destruct (iff_save_spec f s t f1 Hp E) as [Hp1 _].
      assert (Hsg1 : single f1) by (exists (save_struct fl s t); split; [exact Hp1 | apply count_save; exact Hc]).
      destruct (IH f1 f' Hsg1 Hr) as [A B]. split; [exact A|]. rewrite B.
      unfold iff_foreign. rewrite Hp1, Hp. cbn [rmap]. rewrite name_save, others_save. reflexivity.
    + destruct (iff_delete fl f) as [f1|e] eqn:E; [|rewrite iff_run_raise in Hr; discriminate].
      destruct (iff_delete_spec f s Hp) as [Hd Hp1]. rewrite Hd in E. inversion E; subst f1.
      assert (Hsg1 : single (iff_render fl (delete_struct fl s)))
        by (exists (delete_struct fl s); split; [exact Hp1 | apply count_delete; exact Hc]).
      destruct (IH _ f' Hsg1 Hr) as [A B]. split; [exact A|]. rewrite B.
      unfold iff_foreign. rewrite Hp1, Hp. cbn [rmap]. rewrite name_delete, chunks_delete, others_others by exact Hc.
      reflexivity.
Qed.

(* ------------------------------------------------------------------ C01 *)
Theorem iff_load_after_save f tag f' : iff_wf fl f = true -> iff_save fl f tag = Ok f' -> iff_load fl f' = Ok (Some tag).
Proof.
  intros Hw Hsv. destruct (wf_parse f Hw) as [s Hp]. destruct (iff_save_spec f s tag f' Hp Hsv) as [Hp' _].
  unfold iff_load. rewrite Hp'. cbn [rbind]. destruct (split_save s tag) as (pre & c & post & Sp & Ec).
  rewrite Sp, Ec. reflexivity.
Qed.

(* ------------------------------------------------------------------ C08 *)
Theorem iff_load_after_delete f s f' : iff_parse fl f = Ok s -> count_id3 fl (s_chunks s) <= 1 ->
  iff_delete fl f = Ok f' -> iff_load fl f' = Ok None.
Proof.
  intros Hp Hc Hd. destruct (iff_delete_spec f s Hp) as [Hd' Hp']. rewrite Hd' in Hd. inversion Hd; subst.
  unfold iff_load. rewrite Hp'. cbn [rbind]. rewrite chunks_delete, (others_no_id3 _ Hc). reflexivity.
Qed.
Theorem iff_delete_twice f s f' : iff_parse fl f = Ok s -> count_id3 fl (s_chunks s) <= 1 ->
  iff_delete fl f = Ok f' -> iff_delete fl f' = Ok f'.
Proof.
  intros Hp Hc Hd. destruct (iff_delete_spec f s Hp) as [Hd' Hp']. rewrite Hd' in Hd. inversion Hd; subst.
  destruct (iff_delete_spec _ _ Hp') as [Hd2 _]. rewrite Hd2. f_equal. f_equal.
  unfold delete_struct at 1. rewrite chunks_delete, (others_no_id3 _ Hc). reflexivity.
Qed.
(* without a tag chunk delete changes nothing *)
Theorem iff_delete_untagged f : iff_load fl f = Ok None -> iff_delete fl f = Ok f.
Proof.
  unfold iff_load. destruct (iff_parse fl f) as [s|e] eqn:Hp; cbn [rbind]; [|discriminate]. intros Hl.
  destruct (iff_delete_spec f s Hp) as [Hd _]. rewrite Hd.
  destruct (iff_parse_sound fl Hfl f s Hp) as [Ef _]. f_equal. rewrite Ef. f_equal.
  unfold delete_struct. destruct (split_id3 fl (s_chunks s)) as [[[pre c] post]|]; [discriminate | reflexivity].
Qed.
(* length accounting: exactly header + payload + pad byte of the first ID3 chunk disappear *)
Theorem iff_delete_length f s f' : iff_parse fl f = Ok s -> iff_delete fl f = Ok f' ->
  zlen f' = zlen f - match split_id3 fl (s_chunks s) with
                     | Some (_, c, _) => HS + zlen (cdata c) + zlen (cpad c)
                     | None => 0
                     end.
Proof.
  intros Hp Hd. destruct (iff_delete_spec f s Hp) as [Hd' Hp']. rewrite Hd' in Hd. inversion Hd; subst f'.
  destruct (iff_parse_sound fl Hfl f s Hp) as [Ef Hs]. subst f.
  rewrite !iff_render_zlen by (exact Hfl || exact Hs || (apply delete_struct_ok; assumption)).
  unfold delete_struct. destruct (split_id3 fl (s_chunks s)) as [[[pre c] post]|] eqn:Sp; [|lia].
  destruct (split_id3_some fl _ _ _ _ Sp) as (Ecs & _ & _). cbn [s_chunks]. rewrite Ecs.
  destruct (struct_ok_inv fl s Hs) as (_ & Hcs & _). rewrite Ecs in Hcs. apply chunks_ok_mid in Hcs as (_ & B & _).
  rewrite zlen_render_mid by (exact Hfl || exact B). rewrite render_chunks_app, zlen_app. unfold csize. lia.
Qed.
(* new tags can be saved after a delete and are read back *)
Theorem iff_retag f f' tag f'' : iff_wf fl f = true -> iff_delete fl f = Ok f' -> iff_save fl f' tag = Ok f'' ->
  iff_wf fl f'' = true /\ iff_load fl f'' = Ok (Some tag).
Proof.
  intros Hw Hd Hsv. pose proof (iff_delete_wf f f' Hw Hd) as Hw'.
  split; [eapply iff_save_wf; eassumption | eapply iff_load_after_save; eassumption].
Qed.

End Fl.
