(* APEv2 family: the statements behind C01 C02 C03 C07 C08 for ape_save / ape_delete / ape_moddelete,
   one step and lifted to every finite operation history.  Both seek flavours (real) everywhere. *)
From Coq Require Import ZArith List Bool Lia Permutation.
Import ListNotations.
Require Import Base.Py Base.ZList Model.Sort Model.Splice Model.Fam_ape
  Proofs.SortPerm Proofs.Splice_lemmas Proofs.Fam_ape_codec Proofs.Fam_ape_locate Proofs.Fam_ape_save.
Open Scope Z_scope.

(* documented canonical form: an empty tag reads as no tag; items come back in the canonical file order *)
Definition canon (t : list item) : option (list item) :=
  match sort_items t with [] => None | i :: r => Some (i :: r) end.

(* ------------------------------------------------------------------ well-formedness of the results *)
Lemma wf_tagged body items :
  has_marker body = false -> forallb item_valid items = true -> tag_fits items = true ->
  ape_wf (body ++ ape_render_tag items) = true.
Proof.
  intros Hm Hv Hf. unfold ape_wf. rewrite parse_rendered by assumption. cbn [pbody ptrailer].
  rewrite app_nil_r, Hm. reflexivity.
Qed.
Lemma wf_untagged g : has_marker g = false -> ape_wf g = true.
Proof.
  intros Hm. unfold ape_wf. rewrite parse_untagged by assumption. cbn [pbody ptrailer].
  rewrite app_nil_r, Hm. reflexivity.
Qed.

(* every successful save on a well-formed file, in one statement *)
Theorem save_result real f s items f' :
  ape_wf f = true -> ape_parse f = Ok s -> forallb item_valid items = true ->
  ape_save real f items = Ok f' ->
  f' = pbody s ++ ape_render_tag items /\ tag_fits items = true /\ has_marker (pbody s) = false /\
  ape_parse f' = Ok (mkS (pbody s) (Some (sort_items items)) true []) /\ ape_wf f' = true.
Proof.
  intros Hwf Hp Hv Hs. rewrite (save_spec real f s items Hwf Hp) in Hs.
  destruct (tag_fits items) eqn:Hf; [|discriminate]. injection Hs as <-.
  destruct (wf_inv f Hwf) as (s' & Hp' & Hm). rewrite Hp in Hp'. injection Hp' as <-.
  destruct (no_marker_app _ _ Hm) as [Hm1 _].
  split; [reflexivity|]. split; [reflexivity|]. split; [exact Hm1|].
  split; [apply parse_rendered; assumption | apply wf_tagged; assumption].
Qed.

Theorem delete_result real f s f' :
  ape_wf f = true -> ape_parse f = Ok s -> ape_delete real f = Ok f' ->
  f' = pbody s ++ ptrailer s /\ has_marker f' = false /\
  ape_parse f' = Ok (mkS f' None false []) /\ ape_wf f' = true.
Proof.
  intros Hwf Hp Hd. rewrite (delete_spec real f s Hwf Hp) in Hd. injection Hd as <-.
  destruct (wf_inv f Hwf) as (s' & Hp' & Hm). rewrite Hp in Hp'. injection Hp' as <-.
  split; [reflexivity|]. split; [exact Hm|]. split; [apply parse_untagged, Hm | apply wf_untagged, Hm].
Qed.

(* ------------------------------------------------------------------ C01 *)
Theorem C01_save_load real f items f' :
  ape_wf f = true -> forallb item_valid items = true -> ape_save real f items = Ok f' ->
  ape_load f' = Ok (canon items) /\ Permutation (sort_items items) items.
Proof.
  intros Hwf Hv Hs. destruct (wf_inv f Hwf) as (s & Hp & _).
  destruct (save_result real f s items f' Hwf Hp Hv Hs) as (_ & _ & _ & Hp' & _).
  split; [|apply sort_items_perm]. unfold ape_load, canon. rewrite Hp'. cbn [ptag]. reflexivity.
Qed.

(* ------------------------------------------------------------------ C02 *)
Theorem C02_save real f s items f' :
  ape_wf f = true -> ape_parse f = Ok s -> forallb item_valid items = true -> ape_save real f items = Ok f' ->
  exists s', ape_parse f' = Ok s' /\ pbody s' = pbody s /\ ptrailer s' = [] /\
             ztake (zlen (pbody s)) f' = pbody s /\ zlen f' = zlen (pbody s) + zlen (ape_render_tag items).
Proof.
  intros Hwf Hp Hv Hs. destruct (save_result real f s items f' Hwf Hp Hv Hs) as (-> & _ & _ & Hp' & _).
  eexists. split; [exact Hp'|]. cbn [pbody ptrailer]. repeat split.
  - apply ztake_app_exact.
  - apply zlen_app.
Qed.
Theorem C02_delete real f s f' :
  ape_wf f = true -> ape_parse f = Ok s -> ape_delete real f = Ok f' ->
  exists s', ape_parse f' = Ok s' /\ pbody s' ++ ptrailer s' = pbody s ++ ptrailer s /\ ptag s' = None /\
             ztake (zlen (pbody s)) f' = pbody s /\ zdrop (zlen (pbody s)) f' = ptrailer s.
Proof.
  intros Hwf Hp Hd. destruct (delete_result real f s f' Hwf Hp Hd) as (-> & _ & Hp' & _).
  eexists. split; [exact Hp'|]. cbn [pbody ptrailer ptag]. rewrite app_nil_r. repeat split.
  - apply ztake_app_exact.
  - apply zdrop_app_exact.
Qed.
(* the trailer is part of the file the strict reader segments: f = body | tag region | trailer *)
Theorem parse_segments f s : ape_wf f = true -> ape_parse f = Ok s ->
  exists tagbytes, f = pbody s ++ tagbytes ++ ptrailer s /\ (ptag s = None -> tagbytes = []).
Proof.
  intros Hwf Hp. pose proof (locate_wf true f s Hwf Hp) as H. destruct (ptag s) as [its|].
  - destruct H as (l & _ & _ & H0 & H1 & H2 & Hb & Ht).
    exists (zslice (l_start l) (l_end l) f). split; [|discriminate].
    rewrite Hb, Ht. unfold zslice.
    rewrite <- (ztake_zdrop (l_start l) f) at 1. f_equal.
    rewrite <- (ztake_zdrop (l_end l - l_start l) (zdrop (l_start l) f)) at 1. f_equal.
    rewrite zdrop_zdrop by lia. f_equal. lia.
  - destruct H as (_ & Hb & Ht). exists []. rewrite Hb, Ht, app_nil_r. split; reflexivity.
Qed.

(* ------------------------------------------------------------------ C03 *)
Theorem C03_save real f items f' :
  ape_wf f = true -> forallb item_valid items = true -> ape_save real f items = Ok f' ->
  ape_wf f' = true /\ exists s', ape_parse f' = Ok s' /\ phashdr s' = true /\ ptag s' = Some (sort_items items).
Proof.
  intros Hwf Hv Hs. destruct (wf_inv f Hwf) as (s & Hp & _).
  destruct (save_result real f s items f' Hwf Hp Hv Hs) as (_ & _ & _ & Hp' & Hwf').
  split; [exact Hwf'|]. eexists. split; [exact Hp'|]. split; reflexivity.
Qed.
Theorem C03_delete real f f' : ape_wf f = true -> ape_delete real f = Ok f' -> ape_wf f' = true.
Proof.
  intros Hwf Hd. destruct (wf_inv f Hwf) as (s & Hp & _).
  destruct (delete_result real f s f' Hwf Hp Hd) as (_ & _ & _ & H). exact H.
Qed.
Theorem C03_moddelete real f f' : ape_wf f = true -> ape_moddelete real f = Ok f' -> ape_wf f' = true.
Proof.
  intros Hwf Hd. destruct (moddelete_cases real f f' Hd) as [->|H]; [exact Hwf|].
  eapply C03_delete; eassumption.
Qed.

(* operation histories *)
Inductive op := OSave (t : list item) | ODelete | OModDelete.
Definition run_op (real : bool) (f : list Z) (o : op) : result (list Z) :=
  match o with OSave t => ape_save real f t | ODelete => ape_delete real f | OModDelete => ape_moddelete real f end.
(* a failed operation leaves the file as it was *)
Definition step (real : bool) (f : list Z) (o : op) : list Z :=
  match run_op real f o with Ok f' => f' | Raise _ => f end.
Definition op_valid (o : op) : bool := match o with OSave t => forallb item_valid t | _ => true end.

Lemma step_wf real f o : ape_wf f = true -> op_valid o = true -> ape_wf (step real f o) = true.
Proof.
  intros Hwf Hv. unfold step. destruct (run_op real f o) as [f'|] eqn:E; [|exact Hwf].
  destruct o as [t| |]; cbn [run_op op_valid] in *.
  - eapply C03_save; eassumption.
  - eapply C03_delete; eassumption.
  - eapply C03_moddelete; eassumption.
Qed.
Theorem C03_history real ops : forall f, ape_wf f = true -> forallb op_valid ops = true ->
  ape_wf (fold_left (step real) ops f) = true.
Proof.
  induction ops as [|o ops IH]; intros f Hwf Hv; [exact Hwf|].
  cbn [forallb] in Hv. apply andb_true_iff in Hv as [Hv1 Hv2]. cbn [fold_left].
  apply IH; [apply step_wf; assumption | exact Hv2].
Qed.

(* the bytes before the original tag never change, through any history *)
Definition body_of (f : list Z) : list Z := match ape_parse f with Ok s => pbody s | Raise _ => f end.
Lemma step_body real f o : ape_wf f = true -> op_valid o = true ->
  exists ext, body_of (step real f o) = body_of f ++ ext.
Proof.
  intros Hwf Hv. destruct (wf_inv f Hwf) as (s & Hp & _). unfold step.
  destruct (run_op real f o) as [f'|] eqn:E; [|exists []; rewrite app_nil_r; reflexivity].
  unfold body_of at 2. rewrite Hp.
  assert (Hdel : forall f', ape_delete real f = Ok f' -> exists ext, body_of f' = pbody s ++ ext).
  { intros g Hd. destruct (delete_result real f s g Hwf Hp Hd) as (-> & _ & Hp' & _).
    unfold body_of. rewrite Hp'. cbn [pbody]. exists (ptrailer s). reflexivity. }
  destruct o as [t| |]; cbn [run_op op_valid] in *.
  - destruct (save_result real f s t f' Hwf Hp Hv E) as (_ & _ & _ & Hp' & _).
    unfold body_of. rewrite Hp'. cbn [pbody]. exists []. rewrite app_nil_r. reflexivity.
  - apply Hdel, E.
  - destruct (moddelete_cases real f f' E) as [->|H]; [|apply Hdel, H].
    unfold body_of. rewrite Hp. exists []. rewrite app_nil_r. reflexivity.
Qed.
Theorem C03_history_body real ops : forall f, ape_wf f = true -> forallb op_valid ops = true ->
  exists ext, body_of (fold_left (step real) ops f) = body_of f ++ ext.
Proof.
  induction ops as [|o ops IH]; intros f Hwf Hv; [exists []; rewrite app_nil_r; reflexivity|].
  cbn [forallb] in Hv. apply andb_true_iff in Hv as [Hv1 Hv2]. cbn [fold_left].
  destruct (step_body real f o Hwf Hv1) as (e1 & E1).
  destruct (IH (step real f o) (step_wf real f o Hwf Hv1) Hv2) as (e2 & E2).
  exists (e1 ++ e2). rewrite E2, E1, app_assoc. reflexivity.
Qed.

(* ------------------------------------------------------------------ C07 *)
Theorem C07_order real f t t' : Permutation t t' -> ape_save real f t = ape_save real f t'.
Proof.
  intros H. unfold ape_save. rewrite (render_tag_perm _ _ H), (tag_fits_perm _ _ H). reflexivity.
Qed.
Theorem C07_idempotent real f t f' :
  ape_wf f = true -> forallb item_valid t = true -> ape_save real f t = Ok f' -> ape_save real f' t = Ok f'.
Proof.
  intros Hwf Hv Hs. destruct (wf_inv f Hwf) as (s & Hp & _).
  destruct (save_result real f s t f' Hwf Hp Hv Hs) as (E & Hf & _ & Hp' & Hwf').
  rewrite (save_spec real f' _ t Hwf' Hp'). rewrite Hf. cbn [pbody]. rewrite E. reflexivity.
Qed.
(* what the strict reader returns is a valid tag set *)
Lemma load_valid f its : ape_load f = Ok (Some its) -> forallb item_valid its = true /\ its <> [].
Proof.
  unfold ape_load. destruct (ape_parse f) as [s|] eqn:Hp; [|discriminate]. intros H.
  destruct (parse_inv f s Hp) as [[_ ->]|(e & its0 & _ & _ & _ & -> & n & d & EI)]; cbn [ptag] in H; [discriminate|].
  destruct its0 as [|i r]; [discriminate|]. injection H as <-. split; [|discriminate].
  eapply ape_items_valid; exact EI.
Qed.
Lemma canon_nonempty its : its <> [] -> canon its = Some (sort_items its).
Proof.
  intros H. unfold canon. destruct (sort_items its) as [|i r] eqn:E; [|reflexivity].
  exfalso. apply H. pose proof (sort_items_length its) as L. rewrite E in L. destruct its; [reflexivity|discriminate].
Qed.
(* saving what the strict reader returns loses nothing *)
Theorem C07_lossless real f its f' :
  ape_wf f = true -> ape_load f = Ok (Some its) -> ape_save real f its = Ok f' ->
  ape_load f' = Ok (Some (sort_items its)) /\ Permutation (sort_items its) its.
Proof.
  intros Hwf Hl Hs. destruct (load_valid f its Hl) as [Hv Hn].
  destruct (C01_save_load real f its f' Hwf Hv Hs) as [H1 H2]. rewrite canon_nonempty in H1 by assumption. auto.
Qed.
(* a file written by save is a fixed point of load + save *)
Theorem C07_resave real f0 t f l :
  ape_wf f0 = true -> forallb item_valid t = true -> ape_save real f0 t = Ok f ->
  ape_load f = Ok (Some l) -> ape_save real f l = Ok f.
Proof.
  intros Hwf Hv Hs Hl. destruct (C01_save_load real f0 t f Hwf Hv Hs) as [H1 H2].
  rewrite Hl in H1. injection H1 as H1. unfold canon in H1.
  destruct (sort_items t) as [|i r] eqn:E; [discriminate|]. injection H1 as ->.
  rewrite (C07_order real f (i :: r) t H2). eapply C07_idempotent; eassumption.
Qed.

(* ------------------------------------------------------------------ C08 *)
Lemma untagged_fixed real g : has_marker g = false ->
  ape_delete real g = Ok g /\ ape_moddelete real g = Ok g /\ ape_load g = Ok None /\ ape_mut_load real g = Ok None.
Proof.
  intros Hm. unfold ape_moddelete, ape_mut_load, ape_delete, ape_load.
  rewrite (locate_none real g Hm), (parse_untagged g Hm). repeat split; reflexivity.
Qed.

Theorem C08_delete real f s f' :
  ape_wf f = true -> ape_parse f = Ok s -> ape_delete real f = Ok f' ->
  (exists tagbytes, f = pbody s ++ tagbytes ++ ptrailer s /\ f' = pbody s ++ ptrailer s /\
                    zlen f' = zlen f - zlen tagbytes) /\
  has_marker f' = false /\ ape_load f' = Ok None /\ ape_mut_load real f' = Ok None /\
  ape_delete real f' = Ok f' /\ ape_moddelete real f' = Ok f' /\ ape_wf f' = true.
Proof.
  intros Hwf Hp Hd. destruct (delete_result real f s f' Hwf Hp Hd) as (E & Hm & _ & Hwf').
  destruct (untagged_fixed real f' Hm) as (A & B & C & D).
  split; [|repeat split; assumption].
  destruct (parse_segments f s Hwf Hp) as (tb & Ef & _). exists tb. split; [exact Ef|]. split; [exact E|].
  rewrite E. rewrite Ef at 1. rewrite !zlen_app. lia.
Qed.

Theorem C08_retag real f f' t :
  ape_wf f = true -> ape_delete real f = Ok f' -> forallb item_valid t = true -> tag_fits t = true ->
  ape_save real f' t = Ok (f' ++ ape_render_tag t) /\ ape_load (f' ++ ape_render_tag t) = Ok (canon t) /\
  ape_wf (f' ++ ape_render_tag t) = true.
Proof.
  intros Hwf Hd Hv Hf. destruct (wf_inv f Hwf) as (s & Hp & _).
  destruct (delete_result real f s f' Hwf Hp Hd) as (_ & Hm & Hp' & Hwf').
  assert (Hs : ape_save real f' t = Ok (f' ++ ape_render_tag t)).
  { rewrite (save_spec real f' _ t Hwf' Hp'), Hf. reflexivity. }
  split; [exact Hs|]. destruct (C01_save_load real f' t _ Hwf' Hv Hs) as [H _]. split; [exact H|].
  apply wf_tagged; assumption.
Qed.

(* the module-level function either does what the method does or, for a file whose tag reads as "no tag"
   (absent or EMPTY), leaves the file alone *)
Theorem C08_moddelete real f f' :
  ape_wf f = true -> ape_moddelete real f = Ok f' ->
  (f' = f /\ ape_mut_load real f = Ok None) \/ ape_delete real f = Ok f'.
Proof.
  intros _. unfold ape_moddelete. destruct (ape_mut_load real f) as [[its|]|]; intros H; try discriminate.
  - right; exact H.
  - left. split; [congruence|reflexivity].
Qed.

(* ------------------------------------------------------------------ the locator on a freshly appended tag *)
(* body does not contain anything the locator could take for a tag preamble *)
Definition clean_tail (body : list Z) : bool := negb (has_marker body).

Theorem locate_appended real body items :
  clean_tail body = true -> forallb item_valid items = true -> tag_fits items = true ->
  exists l, ape_locate real (body ++ ape_render_tag items) = Ok (Some l) /\
            l_start l = zlen body /\ l_end l = zlen body + zlen (ape_render_tag items) /\ l_at_start l = false.
Proof.
  intros Hc Hv Hf. unfold clean_tail in Hc. apply negb_true_iff in Hc.
  pose proof (wf_tagged body items Hc Hv Hf) as Hwf.
  pose proof (locate_wf real _ _ Hwf (parse_rendered body items Hv Hf)) as H. cbn [ptag pbody ptrailer] in H.
  destruct H as (l & Hl & Hat & H0 & H1 & H2 & Hb & Ht).
  exists l. split; [exact Hl|]. rewrite zlen_app in H2.
  pose proof (zlen_nonneg (ape_render_tag items)) as Nt.
  assert (E1 : l_start l = zlen body).
  { apply (f_equal zlen) in Hb. rewrite zlen_ztake in Hb by lia. rewrite zlen_app in Hb. lia. }
  assert (E2 : l_end l = zlen body + zlen (ape_render_tag items)).
  { apply (f_equal zlen) in Ht. rewrite zlen_zdrop in Ht by lia. rewrite zlen_app in Ht. unfold zlen at 1 in Ht. cbn [length] in Ht. lia. }
  auto.
Qed.

(* the whole public behaviour is flavour independent on well-formed files *)
Theorem flavour_irrelevant_wf f items : ape_wf f = true ->
  ape_locate true f = ape_locate false f /\ ape_save true f items = ape_save false f items /\
  ape_delete true f = ape_delete false f /\ ape_moddelete true f = ape_moddelete false f.
Proof.
  intros Hwf. pose proof (locate_flavour_wf f Hwf) as H.
  unfold ape_moddelete, ape_mut_load, ape_save, ape_delete. rewrite H. repeat split; reflexivity.
Qed.
