(* C05 -- the rate / bitrate tables regenerated from the live classes of /repo (Gen.Gen_tables) equal the
   specification tables written by hand in the models.  These are the FIRST obligations of the C05 cone:
   when an entry of a table in /repo changes, the failing `reflexivity` prints the computed difference list,
   e.g.  Unable to unify "[((10, 3), (14, 319, 320))]" with "[]"  = version 1 layer 3 index 14: generated 319, specified 320. *)
From Coq Require Import ZArith List Bool.
Import ListNotations.
Require Import Base.Py Model.InfoBase Model.InfoMpeg Model.InfoSimple Gen.Gen_tables.
Open Scope Z_scope.

Theorem mpeg_bitrate_table_matches_spec : mpeg_bitrate_table_diff = [].
Proof. vm_compute. reflexivity. Qed.
Theorem mpeg_rate_table_matches_spec : mpeg_rate_table_diff = [].
Proof. vm_compute. reflexivity. Qed.
Theorem mpeg_modes_match_spec : gen_mpeg_modes = [0; 1; 2; 3].
Proof. vm_compute. reflexivity. Qed.
Theorem mpeg_tables_match_spec : mpeg_bitrate_table_diff = [] /\ mpeg_rate_table_diff = [].
Proof. split; [exact mpeg_bitrate_table_matches_spec | exact mpeg_rate_table_matches_spec]. Qed.

Theorem wavpack_table_matches_spec : list_diff gen_wavpack_rates spec_wavpack_rates = [].
Proof. vm_compute. reflexivity. Qed.
Theorem musepack_table_matches_spec : list_diff gen_musepack_rates spec_musepack_rates = [].
Proof. vm_compute. reflexivity. Qed.
Theorem optimfrog_table_matches_spec :
  list_diff (map fst gen_optimfrog_bits) (map fst spec_optimfrog_bits) = [] /\
  list_diff (map snd gen_optimfrog_bits) (map snd spec_optimfrog_bits) = [].
Proof. split; vm_compute; reflexivity. Qed.
