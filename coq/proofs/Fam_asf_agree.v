(* ASF family: on a file the strict walker accepts, mutagen's lenient reader (the mirror asf_open) sees exactly the
   same object tree; the re-rendering of asf_save keeps every foreign element (C02). *)
From Coq Require Import ZArith List Bool Lia.
Import ListNotations.
Require Import Base.Py Base.ZList Model.Splice Model.Fam_asf Proofs.Fam_asf_codec Proofs.Fam_asf_save.
Open Scope Z_scope.

Ltac bseth t v H := let X := fresh in assert (X : t = v) by lia; rewrite X in H; clear X.

(* ------------------------------------------------------------------ slices of a prefix *)
Lemma zdrop_ztake {A} a r (l : list A) : 0 <= a -> zdrop a (ztake r l) = ztake (r - a) (zdrop a l).
Proof.
  intros Ha. unfold zdrop, ztake.
  destruct (Z.le_gt_cases a r).
  - replace (Z.to_nat r) with (Z.to_nat a + Z.to_nat (r - a))%nat by lia.
    rewrite <- firstn_skipn_comm. reflexivity.
  - replace (Z.to_nat (r - a)) with O by lia. cbn [firstn].
    apply skipn_all2. rewrite firstn_length. lia.
Qed.
Lemma zslice_ztake {A} a b r (l : list A) : 0 <= a -> b <= r -> zslice a b (ztake r l) = zslice a b l.
Proof.
  intros Ha Hb. unfold zslice. rewrite zdrop_ztake by lia. rewrite ztake_ztake.
  f_equal. lia.
Qed.
Lemma ztake_ztake_le {A} a r (l : list A) : a <= r -> ztake a (ztake r l) = ztake a l.
Proof. intros. rewrite ztake_ztake. f_equal. lia. Qed.

(* every object consumes at least its 24 header bytes *)
Lemma walk_count : forall fuel R raws, walk_objs fuel R = Ok raws -> 24 * zlen raws <= zlen R.
Proof.
  induction fuel as [|k IH]; intros R raws H; [discriminate|].
  destruct R as [|x R'] eqn:ER.
  { cbn in H. inversion H. cbn. lia. }
  rewrite <- ER in *. assert (Hpos : 0 < zlen R) by (rewrite ER, zlen_cons; pose proof (zlen_nonneg R'); lia).
  rewrite walk_objs_step in H by exact Hpos. cbv zeta in H.
  destruct (zlen R <? 24) eqn:E1; [discriminate|].
  destruct (_ || _) eqn:E2; [discriminate|]. apply orb_false_iff in E2 as [E2 E3].
  destruct (walk_objs k _) as [r|] eqn:Er; [|discriminate].
  inversion H; subst raws. specialize (IH _ _ Er).
  rewrite zlen_zdrop in IH by lia. rewrite zlen_cons. lia.
Qed.

(* ------------------------------------------------------------------ header extension children *)
Lemma children_agree : forall fuel1 D ch, walk_objs fuel1 D = Ok ch ->
  forall fuel2 ch' ts, mut_children fuel2 D (zlen D) = Ok (ch', ts) -> ch' = ch.
Proof.
  induction fuel1 as [|k IH]; intros D ch H fuel2 ch' ts H2; [discriminate|].
  destruct fuel2 as [|k2]; [discriminate|].
  destruct D as [|x D'] eqn:ED.
  { cbn in H. inversion H; subst. cbn in H2. inversion H2. reflexivity. }
  rewrite <- ED in *. assert (Hpos : 0 < zlen D) by (rewrite ED, zlen_cons; pose proof (zlen_nonneg D'); lia).
  rewrite walk_objs_step in H by exact Hpos. cbv zeta in H.
  destruct (zlen D <? 24) eqn:E1; [discriminate|].
  destruct (_ || _) eqn:E2; [discriminate|]. apply orb_false_iff in E2 as [E2 E3].
  destruct (walk_objs k _) as [r|] eqn:Er; [|discriminate].
  inversion H; subst ch; clear H.
  cbn [mut_children] in H2.
  bseth (zlen D <=? 0) false H2. rewrite E1 in H2.
  destruct (le_decode (zslice 16 24 D) <? 1); [discriminate|].
  destruct (is_hext (ztake 16 D)); [discriminate|].
  destruct (mut_leaf _ _); [|discriminate].
  destruct (mut_children k2 _ _) as [[ch2 ts2]|] eqn:E4; [|discriminate].
  inversion H2; subst ch'. f_equal.
  eapply IH; [exact Er|].
  rewrite zlen_zdrop by lia.
  replace (Z.max 0 (zlen D - le_decode (zslice 16 24 D))) with (zlen D - le_decode (zslice 16 24 D)) by lia.
  exact E4.
Qed.

Lemma ext_agree pl o o' ts : parse_ext pl = Ok o -> mut_ext pl = Ok (o', ts) -> o' = o.
Proof.
  unfold parse_ext, mut_ext. destruct (zlen pl <? 22) eqn:E1; [discriminate|].
  destruct (negb _) eqn:E2; [discriminate|]. apply negb_false_iff, Z.eqb_eq in E2.
  destruct (walk_objs _ _) as [ch|] eqn:Ew; [|discriminate].
  intros H; inversion H; subst o; clear H.
  destruct (mut_children _ _ _) as [[ch' ts']|] eqn:Em; [|discriminate].
  intros H; inversion H; subst. f_equal.
  eapply children_agree; [exact Ew|].
  rewrite zlen_zdrop by lia. replace (Z.max 0 (zlen pl - 22)) with (zlen pl - 22) by lia.
  rewrite <- E2. exact Em.
Qed.

(* ------------------------------------------------------------------ top level *)
Lemma objects_agree : forall fuel R raws, walk_objs fuel R = Ok raws ->
  forall objs d rem more objs' ts, classify raws = Ok objs -> R = ztake rem d -> 0 <= rem ->
    mut_objects (length raws) more d rem = Ok (objs', ts) -> objs' = objs.
Proof.
  induction fuel as [|k IH]; intros R raws H objs d rem more objs' ts Hc HR Hrem Hm; [discriminate|].
  destruct R as [|x R'] eqn:ER.
  { cbn in H. inversion H; subst raws. cbn in Hc. inversion Hc; subst.
    cbn in Hm. destruct more; [discriminate|]. inversion Hm. reflexivity. }
  rewrite <- ER in *. assert (Hpos : 0 < zlen R) by (rewrite ER, zlen_cons; pose proof (zlen_nonneg R'); lia).
  clear ER x R'.
  rewrite walk_objs_step in H by exact Hpos. cbv zeta in H.
  destruct (zlen R <? 24) eqn:E1; [discriminate|].
  destruct (_ || _) eqn:E2; [discriminate|]. apply orb_false_iff in E2 as [E2 E3].
  destruct (walk_objs k _) as [r|] eqn:Er; [|discriminate].
  inversion H; subst raws; clear H.
  set (n := le_decode (zslice 16 24 R)) in *.
  assert (HlenR : zlen R = Z.min rem (zlen d)) by (rewrite HR; apply zlen_ztake; lia).
  assert (Hn16 : zslice 16 24 d = zslice 16 24 R) by (rewrite HR; symmetry; apply zslice_ztake; lia).
  assert (Hg : ztake 16 d = ztake 16 R) by (rewrite HR; symmetry; apply ztake_ztake_le; lia).
  assert (Hpl : ztake (n - 24) (zdrop 24 d) = zslice 24 n R).
  { rewrite HR. rewrite zslice_ztake by lia. reflexivity. }
  cbn [length mut_objects] in Hm.
  bseth (rem <? 24) false Hm. bseth (zlen d <? 24) false Hm.
  rewrite Hn16 in Hm. fold n in Hm.
  bseth (rem - 24 <? n - 24) false Hm.
  rewrite zlen_zdrop in Hm by lia.
  bseth ((n - 24 <? 0) || (Z.max 0 (zlen d - 24) <? n - 24)) false Hm.
  rewrite Hg, Hpl in Hm.
  cbn [classify fst snd] in Hc.
  assert (Hnext : zdrop n R = ztake (rem - 24 - (n - 24)) (zdrop (n - 24) (zdrop 24 d))).
  { rewrite zdrop_zdrop by lia. rewrite HR. rewrite zdrop_ztake by lia. f_equal; [lia|f_equal; lia]. }
  destruct (is_hext (ztake 16 R)) eqn:Eh.
  - destruct (parse_ext _) as [o|] eqn:Ep; [|discriminate].
    destruct (classify r) as [objs_r|] eqn:Ecr; [|discriminate].
    inversion Hc; subst objs; clear Hc.
    destruct (mut_ext _) as [[o' ts0]|] eqn:Ee; [|discriminate].
    destruct (mut_objects (length r) _ _ _) as [[os ts']|] eqn:Emr; [|discriminate].
    inversion Hm; subst objs'; clear Hm. f_equal.
    + eapply ext_agree; eassumption.
    + eapply IH; [exact Er|exact Ecr|exact Hnext|lia|exact Emr].
  - destruct (classify r) as [objs_r|] eqn:Ecr; [|discriminate].
    inversion Hc; subst objs; clear Hc.
    destruct (mut_leaf _ _) as [ts0|]; [|discriminate].
    destruct (mut_objects (length r) _ _ _) as [[os ts']|] eqn:Emr; [|discriminate].
    inversion Hm; subst objs'; clear Hm. f_equal.
    eapply IH; [exact Er|exact Ecr|exact Hnext|lia|exact Emr].
Qed.

(* mutagen's reader and the strict walker see the same tree; the data section starts at the header size *)
Theorem open_parse_agree f s objs ts : asf_parse f = Ok s -> asf_open f = Ok (objs, ts) ->
  objs = sobjs s /\ sdata s = zdrop (header_size f) f.
Proof.
  unfold asf_parse, asf_open. intros Hp Ho.
  destruct ((zlen f <? 30) || negb (starts_with G_HDR f)) eqn:E0; [discriminate|].
  apply orb_false_iff in E0 as [E0 _].
  destruct (negb (list_eqb _ _)); [discriminate|].
  destruct (_ || _) eqn:E1; [discriminate|]. apply orb_false_iff in E1 as [E1 E2].
  destruct (walk_objs _ _) as [raws|] eqn:Ew; [|discriminate].
  destruct (negb (zlen raws =? _)) eqn:Ec; [discriminate|]. apply negb_false_iff, Z.eqb_eq in Ec.
  destruct (classify raws) as [objs_s|] eqn:Ecl; [|discriminate].
  inversion Hp; subst s; clear Hp. cbn [sobjs sdata]. split; [|reflexivity].
  destruct (mut_objects _ _ _ _) as [[os ts']|] eqn:Em; [|discriminate].
  inversion Ho; subst objs; clear Ho.
  pose proof (walk_count _ _ _ Ew) as Hcount. pose proof (zlen_nonneg raws) as Hr0.
  assert (HzR : zlen (zslice 30 (le_decode (zslice 16 24 f)) f) <= zlen (zdrop 30 f)).
  { unfold zslice. apply zlen_ztake_le. }
  assert (Hmin : Z.min (le_decode (zslice 24 28 f)) (zlen (zdrop 30 f)) = zlen raws) by lia.
  rewrite Hmin in Em. unfold zlen at 1 in Em. rewrite Nat2Z.id in Em.
  eapply objects_agree; [exact Ew|exact Ecl|reflexivity|lia|exact Em].
Qed.

(* ------------------------------------------------------------------ foreign elements under re-rendering *)
Definition fix_elem (e : felem) : felem := match e with FTop o => FTop o | FExt _ ch => FExt HEXT_FIXED ch end.

Lemma foreign_app a b : foreign (a ++ b) = foreign a ++ foreign b.
Proof.
  induction a as [|o a IH]; [reflexivity|]. destruct o as [g d|fx ch]; cbn [app foreign].
  - destruct (foreign_raw (g, d)); cbn [app]; rewrite IH; reflexivity.
  - cbn [app]. rewrite IH. reflexivity.
Qed.
Lemma retag_raw_fst P o : fst (retag_raw P o) = fst o.
Proof. reflexivity. Qed.
Lemma retag_raw_foreign P o : foreign_raw o = true -> retag_raw P o = o.
Proof.
  destruct o as [g d]. unfold foreign_raw, retag_raw, tagcls. cbn [fst snd].
  destruct (cls_of g); cbn; intros H; try discriminate; reflexivity.
Qed.
Lemma foreign_raw_pad o : nonpad_raw o = false -> foreign_raw o = false.
Proof.
  unfold nonpad_raw, foreign_raw. intros H. apply negb_false_iff in H. rewrite H. apply andb_false_r.
Qed.
Lemma filter_foreign_retag P ch :
  filter foreign_raw (map (retag_raw P) (filter nonpad_raw ch)) = filter foreign_raw ch.
Proof.
  induction ch as [|c ch IH]; [reflexivity|]. cbn [filter].
  destruct (nonpad_raw c) eqn:En.
  - cbn [map filter]. assert (Hf : foreign_raw (retag_raw P c) = foreign_raw c) by reflexivity.
    rewrite Hf. destruct (foreign_raw c) eqn:Ef; [|exact IH].
    rewrite (retag_raw_foreign P c Ef), IH. reflexivity.
  - rewrite (foreign_raw_pad c En). exact IH.
Qed.
Lemma foreign_retag P l : foreign (map (retag_obj P) (filter nonpad_obj l)) = map fix_elem (foreign l).
Proof.
  induction l as [|o l IH]; [reflexivity|]. destruct o as [g d|fx ch]; cbn [filter nonpad_obj].
  - destruct (is_pad g) eqn:Ep; cbn [negb].
    + cbn [foreign]. assert (Hf : foreign_raw (g, d) = false).
      { apply foreign_raw_pad. unfold nonpad_raw. cbn [fst]. rewrite Ep. reflexivity. }
      rewrite Hf. exact IH.
    + cbn [map retag_obj foreign].
      assert (Hf : foreign_raw (g, snd (retag_raw P (g, d))) = foreign_raw (g, d)) by reflexivity.
      rewrite Hf. destruct (foreign_raw (g, d)) eqn:Ef; [|exact IH].
      rewrite (retag_raw_foreign P (g, d) Ef). cbn [snd map fix_elem]. rewrite IH. reflexivity.
  - cbn [map retag_obj foreign fix_elem]. rewrite filter_foreign_retag, IH. reflexivity.
Qed.

Lemma foreign_upd g l : (forall ch, filter foreign_raw (g ch) = filter foreign_raw ch) ->
  foreign (upd_first_ext g l) = foreign l.
Proof.
  intros Hg. induction l as [|o l IH]; [reflexivity|]. destruct o as [a d|fx ch]; cbn [upd_first_ext foreign].
  - rewrite IH. reflexivity.
  - rewrite Hg. reflexivity.
Qed.
Lemma filter_foreign_add ch : filter foreign_raw (add_children ch) = filter foreign_raw ch.
Proof.
  unfold add_children.
  assert (H1 : filter foreign_raw (if raw_has G_META ch then ch else ch ++ [(G_META, [])]) = filter foreign_raw ch).
  { destruct (raw_has G_META ch); [reflexivity|]. rewrite filter_app. cbn. apply app_nil_r. }
  destruct (raw_has G_LIB _); [exact H1|]. rewrite filter_app, H1. cbn. apply app_nil_r.
Qed.
Lemma existsb_is_ext_leaf l g d : existsb is_ext (l ++ [OLeaf g d]) = existsb is_ext l.
Proof. rewrite existsb_app. cbn. rewrite orb_false_r. reflexivity. Qed.

Lemma foreign_add_missing l :
  foreign (add_missing l) = foreign l ++ (if existsb is_ext l then [] else [FExt HEXT_FIXED []]).
Proof.
  unfold add_missing. rewrite foreign_upd by apply filter_foreign_add.
  set (l1 := if top_has G_CD l then l else l ++ [OLeaf G_CD []]).
  assert (H1 : foreign l1 = foreign l /\ existsb is_ext l1 = existsb is_ext l).
  { unfold l1. destruct (top_has G_CD l); [split; reflexivity|]. split.
    - rewrite foreign_app. cbn. apply app_nil_r.
    - apply existsb_is_ext_leaf. }
  set (l2 := if top_has G_ECD l1 then l1 else l1 ++ [OLeaf G_ECD []]).
  assert (H2 : foreign l2 = foreign l /\ existsb is_ext l2 = existsb is_ext l).
  { unfold l2. destruct H1 as [A B]. destruct (top_has G_ECD l1); [split; assumption|]. split.
    - rewrite foreign_app, A. cbn. apply app_nil_r.
    - rewrite existsb_is_ext_leaf. exact B. }
  destruct H2 as [A B]. rewrite B. destruct (existsb is_ext l).
  - rewrite A, app_nil_r. reflexivity.
  - rewrite foreign_app, A. reflexivity.
Qed.

Lemma foreign_save_tree f objs t cb :
  foreign (save_tree f objs t cb) =
  map fix_elem (foreign objs) ++ (if existsb is_ext objs then [] else [FExt HEXT_FIXED []]).
Proof.
  unfold save_tree, core_objs. rewrite foreign_app, foreign_retag, foreign_add_missing, map_app.
  cbn [foreign pad_obj]. change (foreign_raw (G_PAD, zeros _)) with false. cbn iota.
  rewrite app_nil_r. destruct (existsb is_ext objs); reflexivity.
Qed.

Lemma fix_elem_id l : forallb ext_fixed_ok l = true -> map fix_elem (foreign l) = foreign l.
Proof.
  induction l as [|o l IH]; intros H; [reflexivity|]. cbn [forallb] in H. apply andb_true_iff in H as [H1 H2].
  destruct o as [g d|fx ch]; cbn [foreign].
  - destruct (foreign_raw (g, d)); cbn [map fix_elem]; rewrite IH by assumption; reflexivity.
  - cbn [map fix_elem]. rewrite IH by assumption. cbn [ext_fixed_ok] in H1. apply list_eqb_spec in H1. subst fx. reflexivity.
Qed.

(* C02: a save keeps every unknown header object (raw, in order), the fixed part and the unknown children of the
   header extension, and the data section; the only addition is a new, empty-but-for-tags header extension when
   the file had none *)
Theorem asf_save_foreign f s t cb f' : asf_parse f = Ok s -> asf_save f t cb = Ok f' ->
  exists s', asf_parse f' = Ok s' /\
    foreign (sobjs s') = map fix_elem (foreign (sobjs s)) ++ (if existsb is_ext (sobjs s) then [] else [FExt HEXT_FIXED []]) /\
    sdata s' = sdata s.
Proof.
  intros Hp Hs. destruct (asf_save_parse _ _ _ _ Hs) as (objs & ts & Ho & Hp').
  destruct (open_parse_agree _ _ _ _ Hp Ho) as [-> Hd].
  eexists. split; [exact Hp'|]. cbn [sobjs sdata]. split; [apply foreign_save_tree|symmetry; exact Hd].
Qed.
Theorem asf_save_foreign_wf f s t cb f' : asf_wf f = true -> asf_parse f = Ok s -> asf_save f t cb = Ok f' ->
  exists s', asf_parse f' = Ok s' /\
    foreign (sobjs s') = foreign (sobjs s) ++ (if existsb is_ext (sobjs s) then [] else [FExt HEXT_FIXED []]) /\
    sdata s' = sdata s.
Proof.
  intros Hw Hp Hs. destruct (asf_save_foreign _ _ _ _ _ Hp Hs) as (s' & A & B & C).
  exists s'. split; [exact A|]. split; [|exact C].
  rewrite B. unfold asf_wf in Hw. rewrite Hp in Hw. rewrite fix_elem_id by exact Hw. reflexivity.
Qed.
