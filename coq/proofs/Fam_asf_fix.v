(* ASF family: placing the reloaded form of a placement renders the same four tag objects, so saving the tags mutagen
   reloads from a saved file reproduces that file byte for byte (C07: load + save unchanged is the identity on files
   written by save). *)
From Coq Require Import ZArith List Bool Lia.
Import ListNotations.
Require Import Base.Py Base.ZList Gen.Gen_tags Model.Splice Model.Fam_asf Proofs.C09_policy
  Proofs.Fam_asf_codec Proofs.Fam_asf_save Proofs.Fam_asf_agree
  Proofs.Fam_asf_attr Proofs.Fam_asf_reopen Proofs.Fam_asf_c01 Proofs.Fam_asf_mirror Proofs.Fam_asf_canon Proofs.Fam_asf_c07
  Proofs.Fam_asf_lossless Proofs.Fam_asf_hist Proofs.Fam_asf_pad.
Open Scope Z_scope.

(* ------------------------------------------------------------------ names *)
Definition hasn (n : list Z) (ns : list (list Z)) : bool := existsb (fun m => list_eqb m n) ns.
Lemma has_name_hasn n l : has_name n l = hasn n (map a_name l).
Proof. unfold has_name, hasn. induction l as [|a l IH]; [reflexivity|]. cbn [existsb map]. rewrite IH. reflexivity. Qed.
Lemma hasn_app n a b : hasn n (a ++ b) = hasn n a || hasn n b.
Proof. unfold hasn. apply existsb_app. Qed.
(* front-to-back distinctness against a list of names already seen *)
Fixpoint uniqn (seen : list (list Z)) (l : list (list Z)) : bool :=
  match l with [] => true | n :: r => negb (hasn n seen) && uniqn (seen ++ [n]) r end.
Lemma uniqn_snoc : forall l seen b, uniqn seen (l ++ [b]) = uniqn seen l && negb (hasn b (seen ++ l)).
Proof.
  induction l as [|n l IH]; intros seen b; cbn [app uniqn].
  - rewrite app_nil_r, andb_true_r. reflexivity.
  - rewrite IH. rewrite <- app_assoc. cbn [app]. rewrite andb_assoc. reflexivity.
Qed.

Definition small (a : attr) : bool := negb ((data_size (a_val a) >? 65535) || is_guidv (a_val a)).

(* ------------------------------------------------------------------ invariants of the placement loop *)
Record pinv (P : placement) : Prop := mkPinv {
  pi_cd_small : forallb small (p_cd P) = true;
  pi_ecd_small : forallb (fun a => small a && negb (is_cd_name (a_name a))) (p_ecd P) = true;
  pi_m_small : forallb small (p_m P) = true;
  pi_ecd_uniq : uniqn [] (map a_name (p_ecd P)) = true;
  pi_m_uniq : uniqn [] (map a_name (p_m P)) = true }.

Lemma place1_pinv P a : pinv P -> pinv (place1 P a).
Proof.
  intros [I1 I2 I3 I4 I5]. unfold place1, to_ml.
  destruct ((data_size (a_val a) >? 65535) || is_guidv (a_val a)) eqn:Elib; cbn [orb].
  { constructor; assumption. }
  assert (Hs : small a = true) by (unfold small; rewrite Elib; reflexivity).
  destruct (is_some (a_lang a)); [constructor; assumption|].
  destruct (is_some (a_stream a)).
  { destruct (has_name (a_name a) (p_m P)) eqn:Eh; [constructor; assumption|].
    constructor; cbn [p_cd p_ecd p_m p_ml]; try assumption.
    - rewrite forallb_app, I3. cbn [forallb]. rewrite Hs. reflexivity.
    - rewrite map_app. cbn [map]. rewrite uniqn_snoc, I5. cbn [app]. rewrite <- has_name_hasn, Eh. reflexivity. }
  destruct (is_cd_name (a_name a)) eqn:Ecd.
  { destruct (negb (has_name (a_name a) (p_cd P)) && is_text (a_val a)); [|constructor; assumption].
    constructor; cbn [p_cd p_ecd p_m p_ml]; try assumption.
    rewrite forallb_app, I1. cbn [forallb]. rewrite Hs. reflexivity. }
  destruct (has_name (a_name a) (p_ecd P)) eqn:Eh; [constructor; assumption|].
  constructor; cbn [p_cd p_ecd p_m p_ml]; try assumption.
  - rewrite forallb_app, I2. cbn [forallb]. rewrite Hs, Ecd. reflexivity.
  - rewrite map_app. cbn [map]. rewrite uniqn_snoc, I4. cbn [app]. rewrite <- has_name_hasn, Eh. reflexivity.
Qed.
Lemma place_pinv t : pinv (place t).
Proof.
  unfold place. assert (H : pinv P0) by (constructor; reflexivity). revert H. generalize P0.
  induction t as [|a l IH]; intros P HP; [exact HP|]. cbn [fold_left]. apply IH, place1_pinv, HP.
Qed.

(* ------------------------------------------------------------------ the placement loop on a reloaded list *)
Lemma small_reload a l s : small (mkA (a_name a) (a_val a) l s) = small a.
Proof. reflexivity. Qed.

Lemma fold_cd : forall l C E M L,
  forallb (fun a => small a && is_cd_name (a_name a) && is_text (a_val a)) l = true ->
  uniqn (map a_name C) (map a_name l) = true ->
  fold_left place1 (map ecd_reload l) (mkP C E M L) = mkP (C ++ map ecd_reload l) E M L.
Proof.
  induction l as [|a l IH]; intros C E M L Hl Hu; cbn [map fold_left]; [rewrite app_nil_r; reflexivity|].
  cbn [forallb] in Hl. apply andb_true_iff in Hl as [Ha Hl]. apply andb_true_iff in Ha as [Ha Ht].
  apply andb_true_iff in Ha as [Hs Hc]. cbn [map uniqn] in Hu. apply andb_true_iff in Hu as [Hn Hu].
  assert (Hstep : place1 (mkP C E M L) (ecd_reload a) = mkP (C ++ [ecd_reload a]) E M L).
  { unfold place1. cbn [ecd_reload a_name a_val a_lang a_stream is_some p_cd p_m p_ecd].
    unfold small in Hs. apply negb_true_iff in Hs. rewrite Hs. cbn [orb]. rewrite Hc.
    rewrite has_name_hasn. apply negb_true_iff in Hn. rewrite Hn, Ht. reflexivity. }
  rewrite Hstep. rewrite IH; [|exact Hl|].
  - rewrite <- app_assoc. reflexivity.
  - rewrite map_app. exact Hu.
Qed.
Lemma fold_ecd : forall l C E M L,
  forallb (fun a => small a && negb (is_cd_name (a_name a))) l = true ->
  uniqn (map a_name E) (map a_name l) = true ->
  fold_left place1 (map ecd_reload l) (mkP C E M L) = mkP C (E ++ map ecd_reload l) M L.
Proof.
  induction l as [|a l IH]; intros C E M L Hl Hu; cbn [map fold_left]; [rewrite app_nil_r; reflexivity|].
  cbn [forallb] in Hl. apply andb_true_iff in Hl as [Ha Hl]. apply andb_true_iff in Ha as [Hs Hc].
  cbn [map uniqn] in Hu. apply andb_true_iff in Hu as [Hn Hu].
  assert (Hstep : place1 (mkP C E M L) (ecd_reload a) = mkP C (E ++ [ecd_reload a]) M L).
  { unfold place1. cbn [ecd_reload a_name a_val a_lang a_stream is_some p_cd p_m p_ecd].
    unfold small in Hs. apply negb_true_iff in Hs. rewrite Hs. cbn [orb]. apply negb_true_iff in Hc. rewrite Hc.
    rewrite has_name_hasn. apply negb_true_iff in Hn. rewrite Hn. reflexivity. }
  rewrite Hstep. rewrite IH; [|exact Hl|].
  - rewrite <- app_assoc. reflexivity.
  - rewrite map_app. exact Hu.
Qed.
Lemma fold_m : forall l C E M L, forallb small l = true -> uniqn (map a_name M) (map a_name l) = true ->
  fold_left place1 (map (meta_reload false) l) (mkP C E M L) = mkP C E (M ++ map (meta_reload false) l) L.
Proof.
  induction l as [|a l IH]; intros C E M L Hl Hu; cbn [map fold_left]; [rewrite app_nil_r; reflexivity|].
  cbn [forallb] in Hl. apply andb_true_iff in Hl as [Hs Hl].
  cbn [map uniqn] in Hu. apply andb_true_iff in Hu as [Hn Hu].
  assert (Hstep : place1 (mkP C E M L) (meta_reload false a) = mkP C E (M ++ [meta_reload false a]) L).
  { unfold place1. cbn [meta_reload a_name a_val a_lang a_stream is_some p_cd p_m p_ecd].
    unfold small in Hs. apply negb_true_iff in Hs. rewrite Hs. cbn [orb].
    rewrite has_name_hasn. apply negb_true_iff in Hn. rewrite Hn. reflexivity. }
  rewrite Hstep. rewrite IH; [|exact Hl|].
  - rewrite <- app_assoc. reflexivity.
  - rewrite map_app. exact Hu.
Qed.
Lemma fold_ml : forall l C E M L,
  fold_left place1 (map (meta_reload true) l) (mkP C E M L) = mkP C E M (L ++ map (meta_reload true) l).
Proof.
  induction l as [|a l IH]; intros C E M L; cbn [map fold_left]; [rewrite app_nil_r; reflexivity|].
  assert (Hstep : place1 (mkP C E M L) (meta_reload true a) = mkP C E M (L ++ [meta_reload true a])).
  { unfold place1, to_ml. cbn [meta_reload a_lang is_some]. rewrite orb_true_r. reflexivity. }
  rewrite Hstep, IH. rewrite <- app_assoc. reflexivity.
Qed.

(* the ContentDescription entries in their fixed order: one per name, names distinct *)
Definition pick (P : placement) (n : list Z) : list attr :=
  match find (fun a => list_eqb (a_name a) n) (p_cd P) with Some a => [a] | None => [] end.
Lemma cd_sorted_pick P : cd_sorted P = flat_map (pick P) CD_NAMES. Proof. reflexivity. Qed.
Fixpoint nodupb (ns : list (list Z)) : bool :=
  match ns with [] => true | n :: r => negb (hasn n r) && nodupb r end.
Lemma pick_name P n a : In a (pick P n) -> a_name a = n /\ In a (p_cd P).
Proof.
  unfold pick. destruct (find _ (p_cd P)) as [b|] eqn:E; [|intros []]. intros [<-|[]].
  apply find_some in E as [Hin Hn]. apply list_eqb_spec in Hn. auto.
Qed.
Lemma hasn_sym_false n m : list_eqb m n = false -> list_eqb n m = false.
Proof.
  intros H. destruct (list_eqb n m) eqn:E; [|reflexivity]. apply list_eqb_spec in E. subst. rewrite list_eqb_refl in H. discriminate.
Qed.
Lemma uniqn_picks P : forall ns seen, nodupb ns = true -> forallb (fun n => negb (hasn n seen)) ns = true ->
  uniqn seen (map a_name (flat_map (pick P) ns)) = true.
Proof.
  induction ns as [|n ns IH]; intros seen Hnd Hdis; [reflexivity|].
  cbn [nodupb] in Hnd. apply andb_true_iff in Hnd as [Hn Hnd].
  cbn [forallb] in Hdis. apply andb_true_iff in Hdis as [Hs Hdis].
  cbn [flat_map]. unfold pick at 1. destruct (find _ (p_cd P)) as [a|] eqn:E; cbn [app map]; [|apply IH; assumption].
  apply find_some in E as [_ Ena]. apply list_eqb_spec in Ena. cbn [uniqn]. rewrite Ena, Hs. cbn [andb].
  apply IH; [exact Hnd|]. apply forallb_forall. intros m Hm. rewrite hasn_app. cbn [hasn existsb]. rewrite orb_false_r.
  rewrite forallb_forall in Hdis. specialize (Hdis m Hm). apply negb_true_iff in Hdis. rewrite Hdis. cbn [orb].
  apply negb_true_iff. destruct (list_eqb n m) eqn:Enm; [|reflexivity].
  apply list_eqb_spec in Enm. subst m. apply negb_true_iff in Hn. unfold hasn in Hn.
  exfalso. assert (Hex : existsb (fun m => list_eqb m n) ns = true).
  { apply existsb_exists. exists n. split; [exact Hm|apply list_eqb_refl]. }
  rewrite Hex in Hn. discriminate.
Qed.

Definition reloaded (P : placement) : placement :=
  mkP (map ecd_reload (cd_sorted P)) (map ecd_reload (p_ecd P)) (map (meta_reload false) (p_m P)) (map (meta_reload true) (p_ml P)).

Theorem place_reload P : pinv P -> cd_texts_ok P -> cd_dict_ok P -> place (reload_attrs P) = reloaded P.
Proof.
  intros [I1 I2 I3 I4 I5] Ht Hd. unfold place, reload_attrs.
  change (fun a : attr => mkA (a_name a) (a_val a) None None) with ecd_reload.
  change (fun a : attr => mkA (a_name a) (a_val a) None (Some (oz (a_stream a)))) with (meta_reload false).
  change (fun a : attr => mkA (a_name a) (a_val a) (Some (oz (a_lang a))) (Some (oz (a_stream a)))) with (meta_reload true).
  rewrite !fold_left_app. unfold P0.
  rewrite fold_cd.
  - rewrite fold_ecd; [|exact I2|exact I4]. rewrite fold_m; [|exact I3|exact I5]. rewrite fold_ml. reflexivity.
  - apply forallb_forall. intros a Ha. rewrite cd_sorted_pick in Ha. apply in_flat_map in Ha as (n & Hn & Ha).
    destruct (pick_name P n a Ha) as [Hna Hin].
    rewrite forallb_forall in I1. rewrite (I1 a Hin). unfold cd_texts_ok in Ht. rewrite Forall_forall in Ht.
    rewrite (Ht a Hin). rewrite Hna. unfold is_cd_name. cbn [andb].
    rewrite andb_true_r. apply existsb_exists. exists n. split; [exact Hn|apply list_eqb_refl].
  - rewrite cd_sorted_pick. apply uniqn_picks; reflexivity.
Qed.

(* ------------------------------------------------------------------ the reloaded placement renders the same objects *)
Lemma find_picks_none P n : forall ns, hasn n ns = false ->
  find (fun a => list_eqb (a_name a) n) (flat_map (pick P) ns) = None.
Proof.
  induction ns as [|m ns IH]; intros H; [reflexivity|]. cbn [hasn existsb] in H. apply orb_false_iff in H as [H1 H2].
  cbn [flat_map]. unfold pick at 1. destruct (find _ (p_cd P)) as [b|] eqn:E; cbn [app]; [|apply IH, H2].
  apply find_some in E as [_ Eb]. apply list_eqb_spec in Eb. cbn [find]. rewrite Eb, H1. apply IH, H2.
Qed.
Lemma find_picks P n : forall ns, nodupb ns = true -> hasn n ns = true ->
  find (fun a => list_eqb (a_name a) n) (flat_map (pick P) ns) = find (fun a => list_eqb (a_name a) n) (p_cd P).
Proof.
  induction ns as [|m ns IH]; intros Hnd Hin; [discriminate|].
  cbn [nodupb] in Hnd. apply andb_true_iff in Hnd as [Hm Hnd]. cbn [hasn existsb] in Hin.
  cbn [flat_map]. destruct (list_eqb m n) eqn:Emn.
  - apply list_eqb_spec in Emn. subst m. unfold pick at 1.
    destruct (find (fun a => list_eqb (a_name a) n) (p_cd P)) as [b|] eqn:E; cbn [app].
    + pose proof E as E'. apply find_some in E' as [_ Eb]. cbn [find]. rewrite Eb. reflexivity.
    + apply find_picks_none. apply negb_true_iff in Hm. exact Hm.
  - cbn [orb] in Hin. unfold pick at 1. destruct (find (fun a => list_eqb (a_name a) m) (p_cd P)) as [b|] eqn:E; cbn [app].
    + apply find_some in E as [_ Eb]. apply list_eqb_spec in Eb. cbn [find]. rewrite Eb, Emn. apply IH; assumption.
    + apply IH; assumption.
Qed.
Lemma find_map_reload n l :
  find (fun a => list_eqb (a_name a) n) (map ecd_reload l) = option_map ecd_reload (find (fun a => list_eqb (a_name a) n) l).
Proof. induction l as [|a l IH]; [reflexivity|]. cbn [map find ecd_reload a_name]. destruct (list_eqb (a_name a) n); [reflexivity|exact IH]. Qed.

Lemma cd_text_reloaded P n : In n CD_NAMES -> cd_text (reloaded P) n = cd_text P n.
Proof.
  intros Hn. unfold cd_text, reloaded. cbn [p_cd]. rewrite find_map_reload, cd_sorted_pick.
  rewrite find_picks; [|reflexivity|apply existsb_exists; exists n; split; [exact Hn|apply list_eqb_refl]].
  destruct (find _ (p_cd P)); reflexivity.
Qed.
Lemma flat_map_map {A B C} (f : A -> B) (g : B -> list C) l : flat_map g (map f l) = flat_map (fun x => g (f x)) l.
Proof. induction l as [|x l IH]; [reflexivity|]. cbn [map flat_map]. rewrite IH. reflexivity. Qed.

Lemma forallb_map' {A B} (f : B -> bool) (g : A -> B) l : forallb f (map g l) = forallb (fun x => f (g x)) l.
Proof. induction l as [|x l IH]; [reflexivity|]. cbn [map forallb]. rewrite IH. reflexivity. Qed.

Theorem reloaded_payloads P :
  cd_payload (reloaded P) = cd_payload P /\ ecd_payload (reloaded P) = ecd_payload P /\
  m_payload (reloaded P) = m_payload P /\ ml_payload (reloaded P) = ml_payload P /\
  place_packs (reloaded P) = place_packs P.
Proof.
  assert (Hcd : map (cd_text (reloaded P)) CD_NAMES = map (cd_text P) CD_NAMES).
  { apply map_ext_in. intros n Hn. apply cd_text_reloaded, Hn. }
  split; [unfold cd_payload; rewrite Hcd; reflexivity|].
  split; [unfold ecd_payload, reloaded; cbn [p_ecd]; rewrite zlen_map, flat_map_map; reflexivity|].
  split; [unfold m_payload, reloaded; cbn [p_m]; rewrite zlen_map, flat_map_map; reflexivity|].
  split; [unfold ml_payload, reloaded; cbn [p_ml]; rewrite zlen_map, flat_map_map; reflexivity|].
  unfold place_packs.
  assert (Hc : forallb (fun n => zlen (cd_text (reloaded P) n) <? U16) CD_NAMES = forallb (fun n => zlen (cd_text P n) <? U16) CD_NAMES).
  { clear Hcd. assert (H : forall ns, (forall n, In n ns -> In n CD_NAMES) ->
       forallb (fun n => zlen (cd_text (reloaded P) n) <? U16) ns = forallb (fun n => zlen (cd_text P n) <? U16) ns).
    { induction ns as [|n ns IH]; intros Hs; [reflexivity|]. cbn [forallb].
      rewrite cd_text_reloaded by (apply Hs; left; reflexivity). rewrite IH; [reflexivity|].
      intros m Hm. apply Hs. right. exact Hm. }
    apply H. auto. }
  rewrite Hc. unfold reloaded. cbn [p_ecd p_m p_ml]. rewrite !zlen_map, !forallb_map'. reflexivity.
Qed.

Lemma retag_raw_payloads P Q c :
  cd_payload Q = cd_payload P -> ecd_payload Q = ecd_payload P -> m_payload Q = m_payload P -> ml_payload Q = ml_payload P ->
  retag_raw Q c = retag_raw P c.
Proof. intros H1 H2 H3 H4. unfold retag_raw. rewrite H1, H2, H3, H4. reflexivity. Qed.
Lemma core_objs_payloads P Q l :
  cd_payload Q = cd_payload P -> ecd_payload Q = ecd_payload P -> m_payload Q = m_payload P -> ml_payload Q = ml_payload P ->
  core_objs Q l = core_objs P l.
Proof.
  intros H1 H2 H3 H4. unfold core_objs. apply map_ext. intros o. destruct o as [g d|fx ch]; cbn [retag_obj].
  - rewrite (retag_raw_payloads P Q (g, d)) by assumption. reflexivity.
  - f_equal. apply map_ext. intros c. apply retag_raw_payloads; assumption.
Qed.

(* saving a tag list that is placed into the same four rendered objects behaves like saving the original list *)
Lemma asf_save_payloads f t t' cb :
  cd_payload (place t') = cd_payload (place t) -> ecd_payload (place t') = ecd_payload (place t) ->
  m_payload (place t') = m_payload (place t) -> ml_payload (place t') = ml_payload (place t) ->
  place_packs (place t') = place_packs (place t) -> asf_save f t' cb = asf_save f t cb.
Proof.
  intros H1 H2 H3 H4 H5. unfold asf_save. destruct (asf_open f) as [[objs ts]|]; [|reflexivity].
  rewrite H5. rewrite (core_objs_payloads (place t) (place t') objs H1 H2 H3 H4). reflexivity.
Qed.

(* C07: load + save of a file written by save changes nothing: the tags mutagen reloads (asf_save_reload), saved again
   with a callback that keeps the padding (the default policy does), give the same bytes *)
Theorem asf_save_reloaded_again f s t cb f1 cb' : asf_parse f = Ok s -> Forall mvalid_attr t ->
  asf_save f t cb = Ok f1 ->
  (forall p s, asf_info f t = Ok (p, s) -> cb' (Z.max 0 (cb p s)) s = Z.max 0 (cb p s)) ->
  asf_save f1 (reload_attrs (place t)) cb' = Ok f1.
Proof.
  intros Hp Hv H Hcb. destruct (header_size_parse _ _ Hp) as [_ Hb].
  destruct (reloaded_payloads (place t)) as (A & B & C & D & E).
  pose proof (place_reload (place t) (place_pinv t) (place_cd_text t) (place_cd_dict t)) as Hr.
  rewrite (asf_save_payloads f1 t (reload_attrs (place t)) cb'); rewrite ?Hr; try assumption.
  apply (asf_save_again_valid f t cb f1 t cb'); [lia|exact Hv|exact H|reflexivity|exact Hcb].
Qed.
Theorem asf_save_reloaded_default f s t f1 : asf_parse f = Ok s -> Forall mvalid_attr t ->
  asf_save f t cb_default = Ok f1 -> asf_save f1 (reload_attrs (place t)) cb_default = Ok f1.
Proof.
  intros Hp Hv H. eapply asf_save_reloaded_again; [exact Hp|exact Hv|exact H|].
  intros p s0 Hi. pose proof (asf_save_info_nonneg _ _ _ _ _ _ H Hi) as Hs.
  unfold cb_default. pose proof (default_nonneg p s0 Hs).
  replace (Z.max 0 (get_default_padding p s0)) with (get_default_padding p s0) by lia.
  apply default_idempotent, Hs.
Qed.
