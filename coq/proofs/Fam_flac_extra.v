(* FLAC family, extras: the save region handed to resize_bytes lies inside the file (so the monadic splice program over
   the regenerated resize_bytes computes the pure splice the model uses), and the deleteid3 option. *)
From Coq Require Import ZArith List Bool Lia.
Import ListNotations.
Require Import Base.Py Base.ZList Base.FileModel Gen.Gen_util Gen.Gen_tags Model.Splice Model.Fam_flac
  Proofs.FileLemmas Proofs.Splice_lemmas
  Proofs.Fam_flac_codec Proofs.Fam_flac_walk Proofs.Fam_flac_save Proofs.Fam_flac_thms Proofs.Fam_flac_session.
Open Scope Z_scope.

Lemma blocks_extent_nonneg bs : 0 <= blocks_extent bs.
Proof. pose proof (blocks_extent_ge bs). pose proof (zlen_nonneg bs). lia. Qed.

Theorem save_region_inside f s : flac_parse f = Ok s ->
  0 <= zlen (fprefix s) + 4 /\ 0 <= blocks_extent (fblocks s) /\
  zlen (fprefix s) + 4 + blocks_extent (fblocks s) <= zlen f.
Proof.
  intros Hp. pose proof (old_region f s Hp). pose proof (zlen_nonneg (fprefix s)). pose proof (zlen_nonneg (faudio s)).
  pose proof (blocks_extent_nonneg (fblocks s)). lia.
Qed.

(* resize_bytes(fileobj, available, len(data), header); seek(header); write(data) as run by FLAC._save, over the
   resize_bytes regenerated from mutagen/_util.py, for every buffer size and both seek flavours *)
Theorem save_splice_prog real part BUF : 1 <= BUF -> forall f s data pos, flac_parse f = Ok s ->
  let off := zlen (fprefix s) + 4 in
  let old := blocks_extent (fblocks s) in
  fst (splice_prog BUF off old data (mkF f pos (benign real part))) = Ok tt /\
  fdata (snd (splice_prog BUF off old data (mkF f pos (benign real part)))) = splice f off old data.
Proof.
  intros HB f s data pos Hp. cbv zeta. destruct (save_region_inside f s Hp) as (A & B & C).
  apply splice_prog_spec; assumption.
Qed.

(* ------------------------------------------------------------------ deleteid3 *)
Lemma syncsafe_nonneg l : Forall (fun b => 0 <= b) l -> 0 <= syncsafe4 l.
Proof.
  unfold syncsafe4. assert (G : forall acc, 0 <= acc -> Forall (fun b => 0 <= b) l -> 0 <= fold_left (fun a b => a * 128 + b) l acc).
  { induction l as [|x l IH]; intros acc Ha Hl; cbn [fold_left]; [exact Ha|]. inversion Hl; subst. apply IH; [lia|assumption]. }
  apply G. lia.
Qed.
Lemma mod128_nonneg l : Forall (fun b => 0 <= b) (map (fun b => b mod 128) l).
Proof. induction l; cbn [map]; constructor; [apply Z.mod_pos_bound; lia|assumption]. Qed.

(* a recognised prefix is empty or at least an ID3v2 header *)
Lemma prefix_len p : prefix_ok p -> p = [] \/ 10 <= zlen p.
Proof.
  intros Hp. destruct (Hp []) as [_ H]. unfold mut_check_header in H.
  destruct (zlen (p ++ MAGIC ++ []) <? 4); [discriminate|].
  destruct (starts_with MAGIC (p ++ MAGIC ++ [])).
  - left. injection H as E. destruct p; [reflexivity|]. rewrite zlen_cons in *. pose proof (zlen_nonneg p). lia.
  - destruct (starts_with ID3MAGIC (p ++ MAGIC ++ [])); [|discriminate].
    destruct (zlen (p ++ MAGIC ++ []) <? 10); [discriminate|].
    pose proof (syncsafe_nonneg _ (mod128_nonneg (zslice 6 10 (p ++ MAGIC ++ [])))) as Hnn.
    remember (14 + syncsafe4 (map (fun b => b mod 128) (zslice 6 10 (p ++ MAGIC ++ [])))) as size eqn:Esz.
    assert (Hsize : 14 <= size) by lia. clear Esz Hnn.
    destruct (zlen (p ++ MAGIC ++ []) <? size); [discriminate|].
    destruct (starts_with MAGIC (zdrop (size - 4) (p ++ MAGIC ++ []))); [|discriminate].
    right. assert (E : size = zlen p + 4) by congruence. lia.
Qed.

(* the ID3v1 trailer is only looked for behind the bytes just written: the audio part loses it, nothing else *)
Definition strip_audio (a : list Z) : list Z := strip_id3v1 0 a.
Lemma strip_app X a : strip_id3v1 (zlen X) (X ++ a) = X ++ strip_audio a.
Proof.
  unfold strip_audio, strip_id3v1. rewrite zlen_app. pose proof (zlen_nonneg X). pose proof (zlen_nonneg a).
  destruct (zlen X <=? zlen X + zlen a - 128) eqn:E.
  - replace (0 <=? zlen a - 128) with true by lia. cbn [andb].
    rewrite zdrop_app_r by lia. replace (zlen X + zlen a - 128 - zlen X) with (zlen a - 128) by lia.
    destruct (starts_with TAGMAGIC (zdrop (zlen a - 128) a)); [|reflexivity].
    rewrite ztake_app_r by lia. f_equal. f_equal. lia.
  - replace (0 <=? zlen a - 128) with false by lia. reflexivity.
Qed.
Lemma ztake_cons k (x : Z) l : 1 <= k -> ztake k (x :: l) = x :: ztake (k - 1) l.
Proof. intros H. unfold ztake. replace (Z.to_nat k) with (S (Z.to_nat (k - 1))) by lia. reflexivity. Qed.
Lemma zdrop_cons k (x : Z) l : 1 <= k -> zdrop k (x :: l) = zdrop (k - 1) l.
Proof. intros H. unfold zdrop. replace (Z.to_nat k) with (S (Z.to_nat (k - 1))) by lia. reflexivity. Qed.
(* audio that starts with a frame sync code still does after the trailer is cut: "TAG" cannot sit on the sync code *)
Lemma audio_ok_strip a : audio_ok a = true -> audio_ok (strip_audio a) = true.
Proof.
  intros Ha. unfold strip_audio, strip_id3v1.
  destruct ((0 <=? zlen a - 128) && starts_with TAGMAGIC (zdrop (zlen a - 128) a)) eqn:E; [|exact Ha].
  apply andb_true_iff in E as [E1 E2].
  destruct a as [|x [|y a2]]; [exact Ha|discriminate|].
  cbn [audio_ok] in Ha. apply andb_true_iff in Ha as [Hx Hy].
  rewrite !zlen_cons in *. pose proof (zlen_nonneg a2) as Hn. set (k := 1 + (1 + zlen a2) - 128) in *.
  destruct (Z.eq_dec k 0) as [K0|K0].
  { rewrite K0, zdrop_0 in E2. cbn [starts_with TAGMAGIC] in E2. apply andb_true_iff in E2 as [E2 _]. lia. }
  destruct (Z.eq_dec k 1) as [K1|K1].
  { rewrite K1 in E2. rewrite zdrop_cons in E2 by lia. replace (1 - 1) with 0 in E2 by lia. rewrite zdrop_0 in E2.
    cbn [starts_with TAGMAGIC] in E2. apply andb_true_iff in E2 as [E2 _].
    assert (y = 84) by lia. subst y. cbn in Hy. discriminate. }
  rewrite ztake_cons by lia. rewrite ztake_cons by lia. cbn [audio_ok]. rewrite Hx, Hy. reflexivity.
Qed.
Lemma struct_wf_change p N a p' a' : struct_wf (mkFlac p N a) = true -> audio_ok a' = true -> struct_wf (mkFlac p' N a') = true.
Proof.
  unfold struct_wf. cbn [fblocks faudio]. intros H Ha. apply andb_true_iff in H as [H _]. rewrite H, Ha. reflexivity.
Qed.

Section LayoutD.
Variables (p : list Z) (bs : list block) (a : list Z).
Hypothesis Hp : prefix_ok p.
Hypothesis Hne : bs <> [].
Hypothesis Hsm : Forall block_small bs.
Hypothesis Hok : forallb block_ok bs = true.

(* FLAC._save with deleteid3=True: the prefix is added to the region that is replaced, fLaC is written at offset 0 *)
Lemma save_obj_eq_did3 bs0 t o : o_deleteid3 o = true ->
  flac_save_obj (layout p bs a) bs0 t o =
  match (match t with
         | None => Ok bs0
         | Some t => match vc_write t with Ok d => Ok (set_vc bs0 d) | Raise e => Raise e end end) with
  | Raise e => Raise e
  | Ok bs1 =>
    match writeblocks bs1 (blocks_extent bs + zlen p) (zlen a) (o_cb o) with
    | Raise e => Raise e
    | Ok data => Ok (strip_id3v1 (4 + zlen data) (MAGIC ++ data ++ a))
    end
  end.
Proof.
  intros Hd. unfold flac_save_obj.
  rewrite (layout_header p bs a Hp), (layout_audio_offset p bs a Hne Hsm Hok), Hd. cbn [andb].
  pose proof (zlen_nonneg p) as Hpn. pose proof (blocks_extent_nonneg bs) as Hbn.
  replace (zlen (layout p bs a) - (zlen p + 4 + blocks_extent bs)) with (zlen a) by (rewrite zlen_layout; lia).
  assert (Hav : (if zlen p + 4 >? 4 then zlen p + 4 + blocks_extent bs - (zlen p + 4) + (zlen p + 4 - 4)
                 else zlen p + 4 + blocks_extent bs - (zlen p + 4)) = blocks_extent bs + zlen p).
  { destruct (zlen p + 4 >? 4) eqn:E; lia. }
  rewrite Hav.
  destruct (match t with
            | None => Ok bs0
            | Some t0 => match vc_write t0 with Ok d => Ok (set_vc bs0 d) | Raise e => Raise e end end) as [bs1|]; [|reflexivity].
  destruct (writeblocks bs1 (blocks_extent bs + zlen p) (zlen a) (o_cb o)) as [data|]; [|reflexivity].
  f_equal.
  assert (Hdrop : zdrop (zlen p + 4 + blocks_extent bs) (layout p bs a) = a).
  { unfold layout. rewrite !app_assoc.
    replace (zlen p + 4 + blocks_extent bs) with (zlen ((p ++ MAGIC) ++ render_blocks bs))
      by (rewrite !zlen_app, zlen_MAGIC, zlen_render_blocks; lia).
    apply zdrop_app_exact. }
  destruct (prefix_len p Hp) as [Hnil|Hlong].
  - subst p. change (zlen (@nil Z)) with 0 in *. replace (0 + 4 >? 4) with false by lia.
    replace (0 + 4 + blocks_extent bs) with (4 + blocks_extent bs) in Hdrop by lia.
    replace (0 + 4) with 4 by lia. replace (blocks_extent bs + 0) with (blocks_extent bs) by lia.
    f_equal; try lia. unfold splice. rewrite Hdrop.
    unfold layout. cbn [app]. rewrite <- zlen_MAGIC at 1. rewrite ztake_app_exact.
    unfold patch. replace (4 - 4) with 0 by lia. rewrite ztake_0, zlen_MAGIC. cbn [app].
    rewrite <- zlen_MAGIC at 1. replace (0 + zlen MAGIC) with (zlen MAGIC) by lia. rewrite zdrop_app_exact. reflexivity.
  - replace (zlen p + 4 >? 4) with true by lia.
    f_equal; try lia. unfold splice. replace (4 + (blocks_extent bs + zlen p)) with (zlen p + 4 + blocks_extent bs) by lia. rewrite Hdrop.
    unfold patch. replace (4 - 4) with 0 by lia. rewrite ztake_0, zlen_MAGIC. cbn [app]. f_equal.
    assert (H4 : zlen (ztake 4 (layout p bs a)) = 4).
    { rewrite zlen_ztake by lia. rewrite zlen_layout. pose proof (zlen_nonneg a). lia. }
    rewrite <- H4 at 1. replace (0 + zlen (ztake 4 (layout p bs a))) with (zlen (ztake 4 (layout p bs a))) by lia.
    rewrite zdrop_app_exact. reflexivity.
Qed.
End LayoutD.

(* C02 / C03 / C01 with the explicit exception deleteid3=True: the ID3v2 prefix is removed, an ID3v1 trailer is cut off the
   end of the AUDIO (never off the blocks just written); everything else as without the option *)
Theorem save_deleteid3 f s t o f' : flac_parse f = Ok s -> struct_wf s = true -> o_deleteid3 o = true ->
  flac_save f t o = Ok f' ->
  exists s', flac_parse f' = Ok s' /\ struct_wf s' = true /\
    fprefix s' = [] /\ foreign_blocks (fblocks s') = foreign_blocks (fblocks s) /\ faudio s' = strip_audio (faudio s) /\
    hd_error (fblocks s') = hd_error (fblocks s) /\ flac_load f' = Ok (Some t).
Proof.
  intros Hp Hw Hd Hs. destruct (struct_facts f s Hp Hw) as [Hl Hpre Hne Hsm Hok (b0 & r & Hb & Hc0) _ _ _ _ Hopen].
  destruct (small_parts _ Hsm) as (Hc & _ & Ho).
  unfold flac_save in Hs. rewrite Hopen in Hs. rewrite Hl in Hs.
  rewrite (save_obj_eq_did3 _ _ _ Hpre Hne Hsm Hok _ _ _ Hd) in Hs.
  destruct (vc_write t) as [d|] eqn:Ev; [|discriminate].
  destruct (vc_write_inv _ _ Ev) as (Hv & Hf & Hdd). subst d.
  set (bs1 := set_vc (fblocks s) (vc_render t)) in *.
  destruct (writeblocks bs1 (blocks_extent (fblocks s) + zlen (fprefix s)) (zlen (faudio s)) (o_cb o)) as [data|] eqn:Ew; [|discriminate].
  assert (Ho1 : Forall ovf_none bs1) by (apply ovf_set_vc; exact Ho).
  assert (Hc1 : Forall code_ok bs1) by (apply code_set_vc; exact Hc).
  destruct (writeblocks_inv _ _ _ _ _ Ho1 Ew) as [Hsz Hdata].
  set (n := padlen (o_cb o) (blocks_extent (fblocks s) + zlen (fprefix s)) bs1 (zlen (faudio s))) in *.
  destruct (small_nonpad_snoc bs1 n Hc1 Ho1 Hsz) as [Hall Hnn]; [unfold n, padlen; lia|].
  assert (Hf' : strip_id3v1 (4 + zlen data) (MAGIC ++ data ++ faudio s) = f') by congruence. clear Hs.
  assert (Hout : f' = (MAGIC ++ data) ++ strip_audio (faudio s)).
  { rewrite <- Hf'. rewrite app_assoc. replace (4 + zlen data) with (zlen (MAGIC ++ data)) by (rewrite zlen_app, zlen_MAGIC; lia).
    apply strip_app. }
  set (N := nonpad bs1 ++ [pad_block n]) in *.
  assert (Hparse : flac_parse f' = Ok (mkFlac [] N (strip_audio (faudio s)))).
  { rewrite Hout, <- app_assoc, Hdata. apply (parse_build [] _ _ prefix_ok_nil Hnn Hall). }
  assert (HforN : foreign_blocks N = foreign_blocks (fblocks s)).
  { unfold N, bs1. rewrite foreign_app, foreign_nonpad, foreign_set_vc, foreign_pad_block, app_nil_r. reflexivity. }
  assert (HheadN : N = b0 :: (nonpad (set_vc r (vc_render t)) ++ [pad_block n])).
  { unfold N, bs1. rewrite Hb. rewrite head_saved by exact Hc0. reflexivity. }
  exists (mkFlac [] N (strip_audio (faudio s))). split; [exact Hparse|]. cbn [fprefix fblocks faudio].
  split.
  { apply (struct_wf_change (fprefix s) N (faudio s)).
    - apply struct_wf_build; [exact Hw| | |exact HforN].
      + exists b0, (nonpad (set_vc r (vc_render t)) ++ [pad_block n]), r. repeat split; assumption.
      + unfold N, bs1. apply block_ok_saved; assumption.
    - apply audio_ok_strip. destruct (struct_facts f s Hp Hw). assumption. }
  split; [reflexivity|]. split; [exact HforN|]. split; [reflexivity|]. split; [rewrite HheadN, Hb; reflexivity|].
  unfold flac_load. rewrite Hparse. cbn [fblocks]. unfold N, bs1.
  destruct (find_set_vc (fblocks s) (vc_render t) [pad_block n]) as (ov & Hfind). rewrite Hfind. cbn [bdata].
  rewrite <- (app_nil_r (vc_render t)). rewrite vc_parse_render; [reflexivity|apply vc_valid_no_eq; exact Hv|exact Hf].
Qed.

Theorem final_deleteid3 f t o f' : flac_wf f = true -> o_deleteid3 o = true -> flac_save f t o = Ok f' ->
  exists s s', flac_parse f = Ok s /\ flac_parse f' = Ok s' /\
    fprefix s' = [] /\ foreign_blocks (fblocks s') = foreign_blocks (fblocks s) /\ faudio s' = strip_audio (faudio s) /\
    hd_error (fblocks s') = hd_error (fblocks s).
Proof.
  intros Hwf Hd Hs. destruct (wf_parse f Hwf) as (s & Hp & Hw).
  destruct (save_deleteid3 f s t o f' Hp Hw Hd Hs) as (s' & Hp' & _ & A & B & C & D & _). exists s, s'. auto 10.
Qed.
Theorem final_deleteid3_wf f t o f' : flac_wf f = true -> o_deleteid3 o = true -> flac_save f t o = Ok f' ->
  flac_wf f' = true /\ flac_load f' = Ok (Some t).
Proof.
  intros Hwf Hd Hs. destruct (wf_parse f Hwf) as (s & Hp & Hw).
  destruct (save_deleteid3 f s t o f' Hp Hw Hd Hs) as (s' & Hp' & Hw' & _ & _ & _ & _ & Hl).
  split; [apply (wf_of_parse f' s' Hp' Hw')|exact Hl].
Qed.
(* the audio loses at most a 128-byte trailer that starts with "TAG" *)
Theorem strip_audio_cases a : strip_audio a = a \/
  (128 <= zlen a /\ starts_with TAGMAGIC (zdrop (zlen a - 128) a) = true /\ strip_audio a = ztake (zlen a - 128) a).
Proof.
  unfold strip_audio, strip_id3v1. destruct (0 <=? zlen a - 128) eqn:E; cbn [andb]; [|left; reflexivity].
  destruct (starts_with TAGMAGIC (zdrop (zlen a - 128) a)); [right; repeat split; lia|left; reflexivity].
Qed.

Theorem final_splice_prog real part BUF : 1 <= BUF -> forall f s data pos, flac_parse f = Ok s ->
  fst (splice_prog BUF (zlen (fprefix s) + 4) (blocks_extent (fblocks s)) data (mkF f pos (benign real part))) = Ok tt /\
  fdata (snd (splice_prog BUF (zlen (fprefix s) + 4) (blocks_extent (fblocks s)) data (mkF f pos (benign real part)))) =
    splice f (zlen (fprefix s) + 4) (blocks_extent (fblocks s)) data.
Proof. intros HB f s data pos Hp. apply (save_splice_prog real part BUF HB f s data pos Hp). Qed.
