(* FLAC family, extras: the save region handed to resize_bytes lies inside the file (so the monadic splice program over
   the regenerated resize_bytes computes the pure splice the model uses), and the deleteid3 option. *)
From Coq Require Import ZArith List Bool Lia.
Import ListNotations.
Require Import Base.Py Base.ZList Base.FileModel Gen.Gen_util Gen.Gen_tags Model.Splice Model.Fam_flac
  Proofs.FileLemmas Proofs.Splice_lemmas
  Proofs.Fam_flac_codec Proofs.Fam_flac_walk Proofs.Fam_flac_save Proofs.Fam_flac_thms.
Open Scope Z_scope.

Lemma blocks_extent_nonneg bs : 0 <= blocks_extent bs.
Proof. pose proof (blocks_extent_ge bs). pose proof (zlen_nonneg bs). lia. Qed.

Theorem save_region_inside f s : flac_parse f = Ok s ->
  0 <= zlen (fprefix s) + 4 /\ 0 <= blocks_extent (fblocks s) /\
  zlen (fprefix s) + 4 + blocks_extent (fblocks s) <= zlen f.
Proof.
  intros Hp. pose proof (old_region f s Hp). pose proof (zlen_nonneg (fprefix s)). pose proof (zlen_nonneg (faudio s)).
  pose proof (blocks_extent_nonneg (fblocks s)). lia.
Qed.

(* resize_bytes(fileobj, available, len(data), header); seek(header); write(data) as run by FLAC._save, over the
   resize_bytes regenerated from mutagen/_util.py, for every buffer size and both seek flavours *)
Theorem save_splice_prog real part BUF : 1 <= BUF -> forall f s data pos, flac_parse f = Ok s ->
  let off := zlen (fprefix s) + 4 in
  let old := blocks_extent (fblocks s) in
  fst (splice_prog BUF off old data (mkF f pos (benign real part))) = Ok tt /\
  fdata (snd (splice_prog BUF off old data (mkF f pos (benign real part)))) = splice f off old data.
Proof.
  intros HB f s data pos Hp. cbv zeta. destruct (save_region_inside f s Hp) as (A & B & C).
  apply splice_prog_spec; assumption.
Qed.

(* ------------------------------------------------------------------ deleteid3 *)
Lemma syncsafe_nonneg l : Forall (fun b => 0 <= b) l -> 0 <= syncsafe4 l.
Proof.
  unfold syncsafe4. assert (G : forall acc, 0 <= acc -> Forall (fun b => 0 <= b) l -> 0 <= fold_left (fun a b => a * 128 + b) l acc).
  { induction l as [|x l IH]; intros acc Ha Hl; cbn [fold_left]; [exact Ha|]. inversion Hl; subst. apply IH; [lia|assumption]. }
  apply G. lia.
Qed.
Lemma mod128_nonneg l : Forall (fun b => 0 <= b) (map (fun b => b mod 128) l).
Proof. induction l; cbn [map]; constructor; [apply Z.mod_pos_bound; lia|assumption]. Qed.

(* a recognised prefix is empty or at least an ID3v2 header *)
Lemma prefix_len p : prefix_ok p -> p = [] \/ 10 <= zlen p.
Proof.
  intros Hp. destruct (Hp []) as [_ H]. unfold mut_check_header in H.
  destruct (zlen (p ++ MAGIC ++ []) <? 4); [discriminate|].
  destruct (starts_with MAGIC (p ++ MAGIC ++ [])).
  - left. injection H as E. destruct p; [reflexivity|]. rewrite zlen_cons in *. pose proof (zlen_nonneg p). lia.
  - destruct (starts_with ID3MAGIC (p ++ MAGIC ++ [])); [|discriminate].
    destruct (zlen (p ++ MAGIC ++ []) <? 10); [discriminate|].
    pose proof (syncsafe_nonneg _ (mod128_nonneg (zslice 6 10 (p ++ MAGIC ++ [])))) as Hnn.
    remember (14 + syncsafe4 (map (fun b => b mod 128) (zslice 6 10 (p ++ MAGIC ++ [])))) as size eqn:Esz.
    assert (Hsize : 14 <= size) by lia. clear Esz Hnn.
    destruct (zlen (p ++ MAGIC ++ []) <? size); [discriminate|].
    destruct (starts_with MAGIC (zdrop (size - 4) (p ++ MAGIC ++ []))); [|discriminate].
    right. assert (E : size = zlen p + 4) by congruence. lia.
Qed.

Lemma strip_cases g : strip_id3v1 g = g \/ (128 <= zlen g /\ strip_id3v1 g = ztake (zlen g - 128) g).
Proof.
  unfold strip_id3v1. destruct (128 <=? zlen g) eqn:E; cbn [andb]; [|left; reflexivity].
  destruct (starts_with TAGMAGIC (zdrop (zlen g - 128) g)); [right; split; [lia|reflexivity]|left; reflexivity].
Qed.
(* when the audio part is at least 128 bytes long, only the audio part can lose its ID3v1 trailer *)
Lemma strip_app X a : 128 <= zlen a -> strip_id3v1 (X ++ a) = X ++ strip_id3v1 a.
Proof.
  intros Ha. unfold strip_id3v1. rewrite zlen_app. pose proof (zlen_nonneg X).
  replace (128 <=? zlen X + zlen a) with true by lia. replace (128 <=? zlen a) with true by lia. cbn [andb].
  rewrite zdrop_app_r by lia. replace (zlen X + zlen a - 128 - zlen X) with (zlen a - 128) by lia.
  destruct (starts_with TAGMAGIC (zdrop (zlen a - 128) a)); [|reflexivity].
  rewrite ztake_app_r by lia. f_equal. f_equal. lia.
Qed.

Section LayoutD.
Variables (p : list Z) (bs : list block) (a : list Z).
Hypothesis Hp : prefix_ok p.
Hypothesis Hne : bs <> [].
Hypothesis Hsm : Forall block_small bs.
Hypothesis Hok : forallb block_ok bs = true.

(* FLAC._save with deleteid3=True: the prefix is added to the region that is replaced, fLaC is written at offset 0 *)
Lemma save_obj_eq_did3 bs0 t o : o_deleteid3 o = true ->
  flac_save_obj (layout p bs a) bs0 t o =
  match (match t with
         | None => Ok bs0
         | Some t => match vc_write t with Ok d => Ok (set_vc bs0 d) | Raise e => Raise e end end) with
  | Raise e => Raise e
  | Ok bs1 =>
    match writeblocks bs1 (blocks_extent bs + zlen p) (zlen a) (o_cb o) with
    | Raise e => Raise e
    | Ok data => Ok (strip_id3v1 (MAGIC ++ data ++ a))
    end
  end.
Proof.
  intros Hd. unfold flac_save_obj.
  rewrite (layout_header p bs a Hp), (layout_audio_offset p bs a Hne Hsm Hok), Hd. cbn [andb].
  pose proof (zlen_nonneg p) as Hpn. pose proof (blocks_extent_nonneg bs) as Hbn.
  replace (zlen (layout p bs a) - (zlen p + 4 + blocks_extent bs)) with (zlen a) by (rewrite zlen_layout; lia).
  assert (Hav : (if zlen p + 4 >? 4 then zlen p + 4 + blocks_extent bs - (zlen p + 4) + (zlen p + 4 - 4)
                 else zlen p + 4 + blocks_extent bs - (zlen p + 4)) = blocks_extent bs + zlen p).
  { destruct (zlen p + 4 >? 4) eqn:E; lia. }
  rewrite Hav.
  destruct (match t with
            | None => Ok bs0
            | Some t0 => match vc_write t0 with Ok d => Ok (set_vc bs0 d) | Raise e => Raise e end end) as [bs1|]; [|reflexivity].
  destruct (writeblocks bs1 (blocks_extent bs + zlen p) (zlen a) (o_cb o)) as [data|]; [|reflexivity].
  f_equal. f_equal.
  assert (Hdrop : zdrop (zlen p + 4 + blocks_extent bs) (layout p bs a) = a).
  { unfold layout. rewrite !app_assoc.
    replace (zlen p + 4 + blocks_extent bs) with (zlen ((p ++ MAGIC) ++ render_blocks bs))
      by (rewrite !zlen_app, zlen_MAGIC, zlen_render_blocks; lia).
    apply zdrop_app_exact. }
  destruct (prefix_len p Hp) as [Hnil|Hlong].
  - subst p. change (zlen (@nil Z)) with 0 in *. replace (0 + 4 >? 4) with false by lia.
    replace (0 + 4 + blocks_extent bs) with (4 + blocks_extent bs) in Hdrop by lia.
    replace (0 + 4) with 4 by lia. replace (blocks_extent bs + 0) with (blocks_extent bs) by lia.
    unfold splice. rewrite Hdrop.
    unfold layout. cbn [app]. rewrite <- zlen_MAGIC at 1. rewrite ztake_app_exact.
    unfold patch. replace (4 - 4) with 0 by lia. rewrite ztake_0, zlen_MAGIC. cbn [app].
    rewrite <- zlen_MAGIC at 1. replace (0 + zlen MAGIC) with (zlen MAGIC) by lia. rewrite zdrop_app_exact. reflexivity.
  - replace (zlen p + 4 >? 4) with true by lia.
    unfold splice. replace (4 + (blocks_extent bs + zlen p)) with (zlen p + 4 + blocks_extent bs) by lia. rewrite Hdrop.
    unfold patch. replace (4 - 4) with 0 by lia. rewrite ztake_0, zlen_MAGIC. cbn [app]. f_equal.
    assert (H4 : zlen (ztake 4 (layout p bs a)) = 4).
    { rewrite zlen_ztake by lia. rewrite zlen_layout. pose proof (zlen_nonneg a). lia. }
    rewrite <- H4 at 1. replace (0 + zlen (ztake 4 (layout p bs a))) with (zlen (ztake 4 (layout p bs a))) by lia.
    rewrite zdrop_app_exact. reflexivity.
Qed.
End LayoutD.

(* C02 with the explicit exception: the ID3v2 prefix is removed, an ID3v1 trailer is cut off the end of the file;
   the blocks and the audio are otherwise the same *)
Theorem save_deleteid3 f s t o f' : flac_parse f = Ok s -> struct_wf s = true -> o_deleteid3 o = true ->
  flac_save f t o = Ok f' ->
  exists g s', f' = strip_id3v1 g /\ flac_parse g = Ok s' /\
    fprefix s' = [] /\ foreign_blocks (fblocks s') = foreign_blocks (fblocks s) /\ faudio s' = faudio s /\
    hd_error (fblocks s') = hd_error (fblocks s) /\
    find is_vcb (fblocks s') = Some (mkB 4 (vc_render t) (-1)) /\
    (128 <= zlen (faudio s) -> flac_parse f' = Ok (mkFlac [] (fblocks s') (strip_id3v1 (faudio s)))).
Proof.
  intros Hp Hw Hd Hs. destruct (struct_facts f s Hp Hw) as [Hl Hpre Hne Hsm Hok (b0 & r & Hb & Hc0) _ _ _ _ Hopen].
  destruct (small_parts _ Hsm) as (Hc & _ & Ho).
  unfold flac_save in Hs. rewrite Hopen in Hs. rewrite Hl in Hs.
  rewrite (save_obj_eq_did3 _ _ _ Hpre Hne Hsm Hok _ _ _ Hd) in Hs.
  destruct (vc_write t) as [d|] eqn:Ev; [|discriminate].
  destruct (vc_write_inv _ _ Ev) as (Hv & Hf & Hdd). subst d.
  set (bs1 := set_vc (fblocks s) (vc_render t)) in *.
  destruct (writeblocks bs1 (blocks_extent (fblocks s) + zlen (fprefix s)) (zlen (faudio s)) (o_cb o)) as [data|] eqn:Ew; [|discriminate].
  assert (Ho1 : Forall ovf_none bs1) by (apply ovf_set_vc; exact Ho).
  assert (Hc1 : Forall code_ok bs1) by (apply code_set_vc; exact Hc).
  destruct (writeblocks_inv _ _ _ _ _ Ho1 Ew) as [Hsz Hdata].
  set (n := padlen (o_cb o) (blocks_extent (fblocks s) + zlen (fprefix s)) bs1 (zlen (faudio s))) in *.
  destruct (small_nonpad_snoc bs1 n Hc1 Ho1 Hsz) as [Hall Hnn]; [unfold n, padlen; lia|].
  inversion Hs; subst f'.
  exists (MAGIC ++ data ++ faudio s), (mkFlac [] (nonpad bs1 ++ [pad_block n]) (faudio s)).
  assert (Hparse : flac_parse (MAGIC ++ data ++ faudio s) = Ok (mkFlac [] (nonpad bs1 ++ [pad_block n]) (faudio s))).
  { rewrite Hdata. apply (parse_build [] _ _ prefix_ok_nil Hnn Hall). }
  split; [reflexivity|]. split; [exact Hparse|]. cbn [fprefix fblocks faudio].
  split; [reflexivity|]. split.
  { unfold bs1. rewrite foreign_app, foreign_nonpad, foreign_set_vc, foreign_pad_block, app_nil_r. reflexivity. }
  split; [reflexivity|]. split.
  { unfold bs1. rewrite Hb. rewrite head_saved by exact Hc0. reflexivity. }
  split.
  { unfold bs1. destruct (find_set_vc (fblocks s) (vc_render t) [pad_block n]) as (ov & Hfind).
    rewrite Hfind. f_equal. f_equal.
    (* the overflow marker of a block read from a well-formed file is -1 *)
    assert (G : forall l Y o', Forall ovf_none l -> find is_vcb (nonpad (set_vc l (vc_render t)) ++ Y) = Some (mkB 4 (vc_render t) o') -> o' = -1).
    { induction l as [|b l IH]; intros Y o' Hlo0 Hfd; cbn [set_vc] in Hfd.
      - unfold nonpad in Hfd. cbn [filter] in Hfd. rewrite is_pad_mk in Hfd. cbn [negb app find] in Hfd. rewrite is_vcb_mk in Hfd.
        inversion Hfd. reflexivity.
      - inversion Hlo0 as [|? ? Hbo Hlo]; subst. destruct (is_vcb b) eqn:E.
        + unfold nonpad in Hfd. cbn [filter] in Hfd. rewrite is_pad_mk in Hfd. cbn [negb app find] in Hfd. rewrite is_vcb_mk in Hfd.
          inversion Hfd. exact Hbo.
        + unfold nonpad in Hfd. cbn [filter] in Hfd. destruct (is_pad b); cbn [negb] in Hfd.
          * apply (IH Y o' Hlo Hfd).
          * cbn [app find] in Hfd. rewrite E in Hfd. apply (IH Y o' Hlo Hfd). }
    apply (G (fblocks s) [pad_block n] ov Ho Hfind). }
  intros Ha. change (102 :: 76 :: 97 :: 67 :: data ++ faudio s) with ((MAGIC ++ data) ++ faudio s).
  rewrite strip_app by exact Ha. rewrite <- app_assoc. rewrite Hdata.
  apply (parse_build [] _ _ prefix_ok_nil Hnn Hall).
Qed.

Theorem final_deleteid3 f t o f' : flac_wf f = true -> o_deleteid3 o = true -> flac_save f t o = Ok f' ->
  exists s g s', flac_parse f = Ok s /\ f' = strip_id3v1 g /\ flac_parse g = Ok s' /\
    fprefix s' = [] /\ foreign_blocks (fblocks s') = foreign_blocks (fblocks s) /\ faudio s' = faudio s /\
    hd_error (fblocks s') = hd_error (fblocks s) /\
    find is_vcb (fblocks s') = Some (mkB 4 (vc_render t) (-1)) /\
    (128 <= zlen (faudio s) -> flac_parse f' = Ok (mkFlac [] (fblocks s') (strip_id3v1 (faudio s)))).
Proof.
  intros Hwf Hd Hs. destruct (wf_parse f Hwf) as (s & Hp & Hw).
  destruct (save_deleteid3 f s t o f' Hp Hw Hd Hs) as (g & s' & H). exists s, g, s'. split; [exact Hp|exact H].
Qed.

Theorem final_splice_prog real part BUF : 1 <= BUF -> forall f s data pos, flac_parse f = Ok s ->
  fst (splice_prog BUF (zlen (fprefix s) + 4) (blocks_extent (fblocks s)) data (mkF f pos (benign real part))) = Ok tt /\
  fdata (snd (splice_prog BUF (zlen (fprefix s) + 4) (blocks_extent (fblocks s)) data (mkF f pos (benign real part)))) =
    splice f (zlen (fprefix s) + 4) (blocks_extent (fblocks s)) data.
Proof. intros HB f s data pos Hp. apply (save_splice_prog real part BUF HB f s data pos Hp). Qed.
