(* FLAC family: the property-level statements (C01 C02 C03 C07 C08 C09) about flac_save / flac_delete / flac_load
   on every well-formed file, derived from the layout theorems of Fam_flac_save. *)
From Coq Require Import ZArith List Bool Lia.
Import ListNotations.
Require Import Base.Py Base.ZList Gen.Gen_tags Model.Splice Model.Fam_flac
  Proofs.Fam_flac_codec Proofs.Fam_flac_walk Proofs.Fam_flac_save Proofs.C09_policy.
Open Scope Z_scope.
Ltac Zify.zify_post_hook ::= Z.to_euclidean_division_equations.

(* ------------------------------------------------------------------ what well-formedness gives *)
Lemma wf_parse f : flac_wf f = true -> exists s, flac_parse f = Ok s /\ struct_wf s = true.
Proof. unfold flac_wf. destruct (flac_parse f) as [s|]; [|discriminate]. intros H. exists s. split; [reflexivity|exact H]. Qed.
Lemma wf_of_parse f s : flac_parse f = Ok s -> struct_wf s = true -> flac_wf f = true.
Proof. intros H1 H2. unfold flac_wf. rewrite H1. exact H2. Qed.

Record wf_facts (f : list Z) (s : flac) : Prop := {
  wf_layout : f = layout (fprefix s) (fblocks s) (faudio s);
  wf_prefix : prefix_ok (fprefix s);
  wf_ne : fblocks s <> [];
  wf_small : Forall block_small (fblocks s);
  wf_ok : forallb block_ok (fblocks s) = true;
  wf_head : exists b0 r, fblocks s = b0 :: r /\ bcode b0 = 0;
  wf_c0 : count_code 0 (fblocks s) = 1;
  wf_c3 : count_code 3 (fblocks s) <= 1;
  wf_c5 : count_code 5 (fblocks s) <= 1;
  wf_audio : audio_ok (faudio s) = true;
  wf_open : flac_open f = Ok (fblocks s)
}.

Lemma struct_facts f s : flac_parse f = Ok s -> struct_wf s = true -> wf_facts f s.
Proof.
  intros Hp Hw. destruct (parse_inv f s Hp) as (Hl & Hpre & Hne & Hsm).
  unfold struct_wf in Hw.
  apply andb_true_iff in Hw as [Hw Ha]. apply andb_true_iff in Hw as [Hw H5]. apply andb_true_iff in Hw as [Hw H3].
  apply andb_true_iff in Hw as [Hw H0]. apply andb_true_iff in Hw as [Hh Hok].
  assert (Hopen : flac_open f = Ok (fblocks s)).
  { rewrite Hl at 1. apply open_layout; try assumption.
    rewrite H3, H5. replace (1 <=? count_code 0 (fblocks s)) with true by lia. reflexivity. }
  constructor; try assumption; try lia.
  destruct (fblocks s) as [|b0 r]; [discriminate|]. exists b0, r. split; [reflexivity|lia].
Qed.

Lemma small_parts bs : Forall block_small bs -> Forall code_ok bs /\ Forall size_ok bs /\ Forall ovf_none bs.
Proof.
  intros H. rewrite Forall_forall in H.
  repeat split; rewrite Forall_forall; intros b Hb; destruct (proj1 (block_small_iff b) (H b Hb)) as (A & B & C); assumption.
Qed.

(* ------------------------------------------------------------------ the saved structure *)
Definition saved_blocks (s : flac) (t : vc) (cb : option (Z -> Z -> Z)) : list block :=
  nonpad (set_vc (fblocks s) (vc_render t)) ++
  [pad_block (padlen cb (blocks_extent (fblocks s)) (set_vc (fblocks s) (vc_render t)) (zlen (faudio s)))].
Definition saved_struct (s : flac) (t : vc) (cb : option (Z -> Z -> Z)) : flac :=
  mkFlac (fprefix s) (saved_blocks s t cb) (faudio s).

Theorem save_spec f s t o f' : flac_parse f = Ok s -> struct_wf s = true -> o_deleteid3 o = false ->
  flac_save f t o = Ok f' ->
  vc_valid t = true /\ vc_fits32 t = true /\
  flac_parse f' = Ok (saved_struct s t (o_cb o)) /\
  f' = layout (fprefix s) (saved_blocks s t (o_cb o)) (faudio s) /\
  Forall block_small (saved_blocks s t (o_cb o)).
Proof.
  intros Hp Hw Hd Hs. destruct (struct_facts f s Hp Hw) as [Hl Hpre Hne Hsm Hok _ _ _ _ _ Hopen].
  unfold flac_save in Hs. rewrite Hopen in Hs. rewrite Hl in Hs.
  destruct (small_parts _ Hsm) as (Hc & _ & Ho).
  destruct (save_obj_layout _ _ _ Hpre Hne Hsm Hok _ _ _ _ Hd Ho Hc Hs) as (bs1 & Ht & Hall & Hf' & Hparse).
  cbn [tags_applied] in Ht. destruct Ht as (Hv & Hf & Hb). subst bs1.
  repeat split; assumption.
Qed.

Lemma forallb_zeros n : forallb (Z.eqb 0) (zeros n) = true.
Proof. unfold zeros. induction (Z.to_nat n); cbn [repeat forallb]; [reflexivity|exact IHn0]. Qed.
Lemma block_ok_pad n : block_ok (pad_block n) = true.
Proof.
  unfold block_ok, pad_block. cbv zeta. cbn [bcode bdata bovf].
  change (-1 =? -1) with true. change (1 =? 0) with false. change (1 =? 1) with true. cbv iota.
  rewrite forallb_zeros. reflexivity.
Qed.
Lemma block_ok_vc t : vc_fits32 t = true -> block_ok (mkB 4 (vc_render t) (-1)) = true.
Proof.
  intros Hf. unfold block_ok. cbv zeta. cbn [bcode bdata bovf].
  change (-1 =? -1) with true. change (4 =? 0) with false. change (4 =? 1) with false. change (4 =? 4) with true. cbv iota.
  rewrite vc_extent_render by exact Hf. rewrite Z.eqb_refl. reflexivity.
Qed.

Lemma forallb_Forall {A} (g : A -> bool) l : forallb g l = true <-> Forall (fun x => g x = true) l.
Proof. rewrite forallb_forall, Forall_forall. tauto. Qed.

Lemma block_ok_saved bs t n : forallb block_ok bs = true -> vc_fits32 t = true ->
  forallb block_ok (nonpad (set_vc bs (vc_render t)) ++ [pad_block n]) = true.
Proof.
  intros Hok Hf. rewrite forallb_app. cbn [forallb]. rewrite block_ok_pad. cbn [andb]. rewrite andb_true_r.
  apply forallb_Forall. apply Forall_filter. apply forallb_Forall in Hok.
  apply Forall_set_vc; [exact Hok|]. intros o [Ho|(b & Hin & Ho)].
  - subst o. apply block_ok_vc. exact Hf.
  - rewrite Forall_forall in Hok. rewrite Ho, (block_ok_ovf b (Hok b Hin)). apply block_ok_vc. exact Hf.
Qed.

Lemma head_saved b0 r d : bcode b0 = 0 -> nonpad (set_vc (b0 :: r) d) = b0 :: nonpad (set_vc r d).
Proof.
  intros H. cbn [set_vc]. replace (is_vcb b0) with false by (unfold is_vcb; lia).
  unfold nonpad. cbn [filter]. replace (is_pad b0) with false by (unfold is_pad; lia). reflexivity.
Qed.

Theorem struct_wf_saved s t cb : struct_wf s = true -> vc_fits32 t = true -> struct_wf (saved_struct s t cb) = true.
Proof.
  intros Hw Hf. unfold struct_wf in *. cbn [saved_struct fblocks faudio]. unfold saved_blocks.
  apply andb_true_iff in Hw as [Hw Ha]. apply andb_true_iff in Hw as [Hw H5]. apply andb_true_iff in Hw as [Hw H3].
  apply andb_true_iff in Hw as [Hw H0]. apply andb_true_iff in Hw as [Hh Hok].
  rewrite block_ok_saved by assumption. rewrite !count_saved by lia. rewrite H0, H3, H5, Ha.
  destruct (fblocks s) as [|b0 r]; [discriminate|]. rewrite head_saved by lia. cbn [app]. rewrite Hh. reflexivity.
Qed.

(* C03, one step *)
Theorem save_wf f t o f' : flac_wf f = true -> o_deleteid3 o = false -> flac_save f t o = Ok f' -> flac_wf f' = true.
Proof.
  intros Hwf Hd Hs. destruct (wf_parse f Hwf) as (s & Hp & Hw).
  destruct (save_spec f s t o f' Hp Hw Hd Hs) as (Hv & Hf & Hp' & _).
  apply (wf_of_parse f' _ Hp'). apply struct_wf_saved; assumption.
Qed.

(* C02 / C03: what a save leaves alone *)
Definition same_foreign (s s' : flac) : Prop :=
  fprefix s' = fprefix s /\ foreign_blocks (fblocks s') = foreign_blocks (fblocks s) /\ faudio s' = faudio s /\
  hd_error (fblocks s') = hd_error (fblocks s).

Lemma same_foreign_refl s : same_foreign s s.
Proof. repeat split. Qed.
Lemma same_foreign_trans a b c : same_foreign a b -> same_foreign b c -> same_foreign a c.
Proof. unfold same_foreign. intros (A1 & A2 & A3 & A4) (B1 & B2 & B3 & B4). repeat split; congruence. Qed.

Theorem save_foreign f s t o f' : flac_parse f = Ok s -> struct_wf s = true -> o_deleteid3 o = false ->
  flac_save f t o = Ok f' ->
  exists s', flac_parse f' = Ok s' /\ same_foreign s s'.
Proof.
  intros Hp Hw Hd Hs. destruct (save_spec f s t o f' Hp Hw Hd Hs) as (_ & _ & Hp' & _).
  exists (saved_struct s t (o_cb o)). split; [exact Hp'|].
  unfold same_foreign. cbn [saved_struct fprefix fblocks faudio]. unfold saved_blocks.
  split; [reflexivity|]. split; [|split; [reflexivity|]].
  - rewrite foreign_app, foreign_nonpad, foreign_set_vc, foreign_pad_block, app_nil_r. reflexivity.
  - destruct (struct_facts f s Hp Hw) as [_ _ _ _ _ (b0 & r & Hb & Hc) _ _ _ _ _].
    rewrite Hb. rewrite head_saved by exact Hc. reflexivity.
Qed.

(* C01 *)
Theorem save_load f t o f' : flac_wf f = true -> o_deleteid3 o = false -> flac_save f t o = Ok f' ->
  flac_load f' = Ok (Some t).
Proof.
  intros Hwf Hd Hs. destruct (wf_parse f Hwf) as (s & Hp & Hw).
  destruct (save_spec f s t o f' Hp Hw Hd Hs) as (Hv & Hf & Hp' & _).
  unfold flac_load. rewrite Hp'. cbn [saved_struct fblocks]. unfold saved_blocks.
  destruct (find_set_vc (fblocks s) (vc_render t)
    [pad_block (padlen (o_cb o) (blocks_extent (fblocks s)) (set_vc (fblocks s) (vc_render t)) (zlen (faudio s)))]) as (ov & Hfind).
  rewrite Hfind. cbn [bdata].
  rewrite <- (app_nil_r (vc_render t)). rewrite vc_parse_render; [reflexivity|apply vc_valid_no_eq; exact Hv|exact Hf].
Qed.

(* totality of save on well-formed files *)
Theorem save_total f t o : flac_wf f = true -> o_deleteid3 o = false ->
  vc_valid t = true -> vc_fits32 t = true -> zlen (vc_render t) <= MAXSZ ->
  exists f', flac_save f t o = Ok f'.
Proof.
  intros Hwf Hd Hv Hf Hsz. destruct (wf_parse f Hwf) as (s & Hp & Hw).
  destruct (struct_facts f s Hp Hw) as [Hl Hpre Hne Hsm Hok _ _ _ _ _ Hopen].
  destruct (small_parts _ Hsm) as (Hc & Hsz0 & Ho).
  eexists. unfold flac_save. rewrite Hopen. rewrite Hl at 1.
  apply (save_obj_total _ _ _ Hpre Hne Hsm Hok (fblocks s) (Some t) o (set_vc (fblocks s) (vc_render t)) Hd Ho).
  - cbn [tags_applied]. repeat split; assumption.
  - apply Forall_filter. apply Forall_set_vc; [exact Hsz0|]. intros ov _. unfold size_ok. cbn [bdata]. exact Hsz.
Qed.

(* ------------------------------------------------------------------ C09 *)
(* the region the metadata blocks occupy in the old file *)
Lemma old_region f s : flac_parse f = Ok s ->
  blocks_extent (fblocks s) = zlen f - zlen (fprefix s) - 4 - zlen (faudio s).
Proof.
  intros Hp. destruct (parse_inv f s Hp) as (Hl & _). rewrite Hl at 1. fold (layout (fprefix s) (fblocks s) (faudio s)).
  rewrite zlen_layout. lia.
Qed.

(* info.padding of the PaddingInfo handed to the callback *)
Definition info_padding (s : flac) (t : vc) : Z :=
  blocks_extent (fblocks s) - (blocks_extent (nonpad (set_vc (fblocks s) (vc_render t))) + 4).

Theorem save_padding f s t o f' : flac_parse f = Ok s -> struct_wf s = true -> o_deleteid3 o = false ->
  flac_save f t o = Ok f' ->
  exists s', flac_parse f' = Ok s' /\
    flac_padding s' = Z.max 0 (Z.min (_get_padding (o_cb o) (info_padding s t) (zlen (faudio s))) MAXSZ).
Proof.
  intros Hp Hw Hd Hs. destruct (save_spec f s t o f' Hp Hw Hd Hs) as (_ & _ & Hp' & _).
  exists (saved_struct s t (o_cb o)). split; [exact Hp'|].
  unfold saved_struct, saved_blocks. rewrite flac_padding_blocks. reflexivity.
Qed.

Lemma blocks_extent_pad n : blocks_extent [pad_block n] = 4 + Z.max 0 n.
Proof. unfold blocks_extent, block_extent. cbn [fold_right pad_block bdata]. rewrite zlen_zeros_max. lia. Qed.

Theorem save_size f s t o f' : flac_parse f = Ok s -> struct_wf s = true -> o_deleteid3 o = false ->
  flac_save f t o = Ok f' ->
  zlen f' = zlen f - info_padding s t + Z.max 0 (Z.min (_get_padding (o_cb o) (info_padding s t) (zlen (faudio s))) MAXSZ) /\
  ztake (zlen (fprefix s) + 4) f' = ztake (zlen (fprefix s) + 4) f /\
  zdrop (zlen f' - zlen (faudio s)) f' = faudio s /\ zdrop (zlen f - zlen (faudio s)) f = faudio s.
Proof.
  intros Hp Hw Hd Hs. destruct (save_spec f s t o f' Hp Hw Hd Hs) as (_ & _ & _ & Hf' & _).
  destruct (parse_inv f s Hp) as (Hl & _). fold (layout (fprefix s) (fblocks s) (faudio s)) in Hl.
  assert (Hz' : zlen f' = zlen (fprefix s) + 4 + blocks_extent (saved_blocks s t (o_cb o)) + zlen (faudio s))
    by (rewrite Hf'; apply zlen_layout).
  assert (Hz : zlen f = zlen (fprefix s) + 4 + blocks_extent (fblocks s) + zlen (faudio s))
    by (rewrite Hl at 1; apply zlen_layout).
  assert (He : blocks_extent (saved_blocks s t (o_cb o)) =
    blocks_extent (nonpad (set_vc (fblocks s) (vc_render t))) + 4 +
      Z.max 0 (Z.min (_get_padding (o_cb o) (info_padding s t) (zlen (faudio s))) MAXSZ)).
  { unfold saved_blocks. rewrite blocks_extent_app, blocks_extent_pad. unfold padlen, info_padding. lia. }
  split; [unfold info_padding in *; lia|].
  split.
  { assert (T : forall bs, ztake (zlen (fprefix s) + 4) (layout (fprefix s) bs (faudio s)) = fprefix s ++ MAGIC)
      by (intros; unfold layout; apply take_header).
    rewrite Hf', T. clear Hz. rewrite Hl. rewrite T. reflexivity. }
  assert (G : forall p bs a, zdrop (zlen (layout p bs a) - zlen a) (layout p bs a) = a).
  { intros p bs a. rewrite zlen_layout. unfold layout. rewrite !app_assoc.
    replace (zlen p + 4 + blocks_extent bs + zlen a - zlen a) with (zlen ((p ++ MAGIC) ++ render_blocks bs))
      by (rewrite !zlen_app, zlen_MAGIC, zlen_render_blocks; lia).
    apply zdrop_app_exact. }
  split; [rewrite Hf'; apply G|clear Hz; rewrite Hl; apply G].
Qed.

(* ------------------------------------------------------------------ C07 *)
(* a padding policy whose (capped, clamped) answer is kept when it is asked again about that answer *)
Definition pad_stable (cb : option (Z -> Z -> Z)) (size : Z) : Prop :=
  forall x, Z.max 0 (Z.min (_get_padding cb (Z.max 0 (Z.min (_get_padding cb x size) MAXSZ)) size) MAXSZ) =
            Z.max 0 (Z.min (_get_padding cb x size) MAXSZ).

Lemma default_pad_stable size : 0 <= size -> pad_stable None size /\ pad_stable (Some get_default_padding) size.
Proof.
  intros Hs. assert (G : pad_stable None size).
  { intros x. unfold _get_padding, get_default_padding, MAXSZ. cbv zeta.
    destruct (x >=? 0) eqn:E1; [destruct (x >? 1024 * 10 + size / 100) eqn:E2|].
    all: repeat match goal with |- context [if ?c then _ else _] => destruct c eqn:? end; lia. }
  split; [exact G|exact G].
Qed.

Lemma pad_block_eq n m : Z.max 0 n = Z.max 0 m -> pad_block n = pad_block m.
Proof. intros H. unfold pad_block. rewrite <- (zeros_max n), <- (zeros_max m), H. reflexivity. Qed.

Theorem save_idempotent f t cb f1 : flac_wf f = true -> flac_save f t (mkOpts cb false) = Ok f1 ->
  (forall s, flac_parse f = Ok s -> pad_stable cb (zlen (faudio s))) ->
  flac_save f1 t (mkOpts cb false) = Ok f1.
Proof.
  intros Hwf Hs Hst. destruct (wf_parse f Hwf) as (s & Hp & Hw). specialize (Hst s Hp).
  destruct (save_spec f s t (mkOpts cb false) f1 Hp Hw eq_refl Hs) as (Hv & Hf & Hp1 & Hf1 & Hsm1).
  cbn [o_cb] in *.
  pose proof (struct_wf_saved s t cb Hw Hf) as Hw1.
  destruct (struct_facts f1 _ Hp1 Hw1) as [_ Hpre1 Hne1 _ Hok1 _ _ _ _ _ Hopen1].
  cbn [saved_struct fprefix fblocks faudio] in *.
  destruct (small_parts _ Hsm1) as (Hc1 & Hsz1 & Ho1).
  unfold flac_save. rewrite Hopen1. rewrite Hf1 at 1.
  set (B := nonpad (set_vc (fblocks s) (vc_render t))) in *.
  set (n1 := padlen cb (blocks_extent (fblocks s)) (set_vc (fblocks s) (vc_render t)) (zlen (faudio s))) in *.
  assert (HB : saved_blocks s t cb = B ++ [pad_block n1]) by reflexivity. rewrite HB in *.
  assert (Hfix : set_vc (B ++ [pad_block n1]) (vc_render t) = B ++ [pad_block n1]) by apply set_vc_fix.
  assert (Hnp : nonpad (B ++ [pad_block n1]) = B).
  { rewrite nonpad_app, nonpad_pad_block, app_nil_r. apply nonpad_idem. }
  rewrite (save_obj_total _ _ _ Hpre1 Hne1 Hsm1 Hok1 (B ++ [pad_block n1]) (Some t) (mkOpts cb false) (B ++ [pad_block n1]) eq_refl Ho1).
  - rewrite Hnp, Hf1. cbn [o_cb].
    assert (E : pad_block (padlen cb (blocks_extent (B ++ [pad_block n1])) (B ++ [pad_block n1]) (zlen (faudio s))) = pad_block n1).
    { apply pad_block_eq. unfold padlen. rewrite Hnp, blocks_extent_app, blocks_extent_pad.
      replace (blocks_extent B + (4 + Z.max 0 n1) - (blocks_extent B + 4)) with (Z.max 0 n1) by lia.
      unfold n1, padlen. apply Hst. }
    rewrite E. reflexivity.
  - cbn [tags_applied]. repeat split; try assumption. symmetry. exact Hfix.
  - rewrite Hnp. apply Forall_app in Hsz1. apply Hsz1.
Qed.

(* ------------------------------------------------------------------ C08 *)
Definition deleted_struct (s : flac) : flac := mkFlac (fprefix s) (foreign_blocks (fblocks s) ++ [pad_block 0]) (faudio s).

Lemma existsb_find_none {A} (g : A -> bool) l : existsb g l = false -> find g l = None.
Proof.
  induction l as [|x l IH]; cbn [existsb find]; [reflexivity|]. intros H. apply orb_false_iff in H as [H1 H2].
  rewrite H1. apply IH. exact H2.
Qed.

Theorem delete_spec f s : flac_parse f = Ok s -> struct_wf s = true ->
  (existsb is_vcb (fblocks s) = true ->
     exists f', flac_delete f = Ok f' /\ flac_parse f' = Ok (deleted_struct s) /\
                f' = layout (fprefix s) (fblocks (deleted_struct s)) (faudio s)) /\
  (existsb is_vcb (fblocks s) = false -> flac_delete f = Ok f).
Proof.
  intros Hp Hw. destruct (struct_facts f s Hp Hw) as [Hl Hpre Hne Hsm Hok _ _ _ _ _ Hopen].
  destruct (small_parts _ Hsm) as (Hc & Hsz & Ho).
  unfold flac_delete, flac_delete_obj. rewrite Hopen. split; intros He; rewrite He; [|reflexivity].
  assert (Hsv : flac_save_obj f (filter (fun b => negb (is_vcb b)) (fblocks s)) None delete_opts =
                Ok (layout (fprefix s) (foreign_blocks (fblocks s) ++ [pad_block 0]) (faudio s))).
  { rewrite Hl at 1.
    rewrite (save_obj_total _ _ _ Hpre Hne Hsm Hok _ None delete_opts (filter (fun b => negb (is_vcb b)) (fblocks s)) eq_refl).
    - rewrite nonpad_novc. unfold padlen. cbn [delete_opts o_cb _get_padding].
      change (Z.min 0 MAXSZ) with 0. reflexivity.
    - apply Forall_filter. exact Ho.
    - reflexivity.
    - rewrite nonpad_novc. apply Forall_filter. exact Hsz. }
  rewrite Hsv. eexists. split; [reflexivity|]. split; [|reflexivity].
  cbn [deleted_struct].
  apply parse_build; [exact Hpre|destruct (foreign_blocks (fblocks s)); discriminate|].
  apply Forall_app. split; [apply Forall_filter; exact Hsm|constructor; [apply pad_block_small; unfold MAXSZ; lia|constructor]].
Qed.

Lemma block_ok_deleted bs : forallb block_ok bs = true -> forallb block_ok (foreign_blocks bs ++ [pad_block 0]) = true.
Proof.
  intros H. rewrite forallb_app. cbn [forallb]. rewrite block_ok_pad, ?andb_true_r.
  apply forallb_Forall. apply Forall_filter. apply forallb_Forall. exact H.
Qed.
Lemma head_foreign b0 r : bcode b0 = 0 -> foreign_blocks (b0 :: r) = b0 :: foreign_blocks r.
Proof.
  intros H. unfold foreign_blocks. cbn [filter]. replace (is_vcb b0) with false by (unfold is_vcb; lia).
  replace (is_pad b0) with false by (unfold is_pad; lia). reflexivity.
Qed.

Theorem struct_wf_deleted s : struct_wf s = true -> struct_wf (deleted_struct s) = true.
Proof.
  intros Hw. unfold struct_wf in *. cbn [deleted_struct fblocks faudio].
  apply andb_true_iff in Hw as [Hw Ha]. apply andb_true_iff in Hw as [Hw H5]. apply andb_true_iff in Hw as [Hw H3].
  apply andb_true_iff in Hw as [Hw H0]. apply andb_true_iff in Hw as [Hh Hok].
  rewrite block_ok_deleted by assumption. rewrite !count_deleted by lia. rewrite H0, H3, H5, Ha.
  destruct (fblocks s) as [|b0 r]; [discriminate|]. rewrite head_foreign by lia. cbn [app]. rewrite Hh. reflexivity.
Qed.

Theorem delete_total f : flac_wf f = true -> exists f', flac_delete f = Ok f'.
Proof.
  intros Hwf. destruct (wf_parse f Hwf) as (s & Hp & Hw). destruct (delete_spec f s Hp Hw) as [H1 H2].
  destruct (existsb is_vcb (fblocks s)) eqn:E.
  - destruct (H1 eq_refl) as (f' & Hd & _). exists f'. exact Hd.
  - exists f. apply H2. reflexivity.
Qed.

Theorem delete_wf f f' : flac_wf f = true -> flac_delete f = Ok f' -> flac_wf f' = true.
Proof.
  intros Hwf Hd. destruct (wf_parse f Hwf) as (s & Hp & Hw). destruct (delete_spec f s Hp Hw) as [H1 H2].
  destruct (existsb is_vcb (fblocks s)) eqn:E.
  - destruct (H1 eq_refl) as (g & Hg & Hpg & _). rewrite Hd in Hg. inversion Hg; subst g.
    apply (wf_of_parse f' _ Hpg). apply struct_wf_deleted. exact Hw.
  - rewrite (H2 eq_refl) in Hd. inversion Hd; subst f'. exact Hwf.
Qed.

Lemma foreign_idem l : foreign_blocks (foreign_blocks l) = foreign_blocks l.
Proof.
  unfold foreign_blocks. induction l as [|b l IH]; cbn [filter]; [reflexivity|].
  destruct (negb (is_vcb b) && negb (is_pad b)) eqn:Eb; cbn [filter]; [rewrite Eb, IH; reflexivity|exact IH].
Qed.

Theorem delete_foreign f s f' : flac_parse f = Ok s -> struct_wf s = true -> flac_delete f = Ok f' ->
  exists s', flac_parse f' = Ok s' /\ same_foreign s s'.
Proof.
  intros Hp Hw Hd. destruct (delete_spec f s Hp Hw) as [H1 H2].
  destruct (existsb is_vcb (fblocks s)) eqn:E.
  - destruct (H1 eq_refl) as (g & Hg & Hpg & _). rewrite Hd in Hg. inversion Hg; subst g.
    exists (deleted_struct s). split; [exact Hpg|]. unfold same_foreign. cbn [deleted_struct fprefix fblocks faudio].
    split; [reflexivity|]. split; [|split; [reflexivity|]].
    + rewrite foreign_app, foreign_pad_block, app_nil_r. apply foreign_idem.
    + destruct (struct_facts f s Hp Hw) as [_ _ _ _ _ (b0 & r & Hb & Hc) _ _ _ _ _].
      rewrite Hb. rewrite head_foreign by exact Hc. reflexivity.
  - rewrite (H2 eq_refl) in Hd. inversion Hd; subst f'. exists s. split; [exact Hp|apply same_foreign_refl].
Qed.

(* no comment block is left, whatever the file looked like; no padding is left when a comment block was removed *)
Theorem delete_load f f' : flac_wf f = true -> flac_delete f = Ok f' -> flac_load f' = Ok None.
Proof.
  intros Hwf Hd. destruct (wf_parse f Hwf) as (s & Hp & Hw). destruct (delete_spec f s Hp Hw) as [H1 H2].
  destruct (existsb is_vcb (fblocks s)) eqn:E.
  - destruct (H1 eq_refl) as (g & Hg & Hpg & _). rewrite Hd in Hg. inversion Hg; subst g.
    unfold flac_load. rewrite Hpg. cbn [deleted_struct fblocks]. rewrite find_foreign_none; reflexivity.
  - rewrite (H2 eq_refl) in Hd. inversion Hd; subst f'. unfold flac_load. rewrite Hp.
    rewrite existsb_find_none by exact E. reflexivity.
Qed.

Theorem delete_padding f s f' : flac_parse f = Ok s -> struct_wf s = true -> existsb is_vcb (fblocks s) = true ->
  flac_delete f = Ok f' -> exists s', flac_parse f' = Ok s' /\ flac_padding s' = 0 /\ existsb is_vcb (fblocks s') = false.
Proof.
  intros Hp Hw E Hd. destruct (delete_spec f s Hp Hw) as [H1 _].
  destruct (H1 E) as (g & Hg & Hpg & _). rewrite Hd in Hg. inversion Hg; subst g.
  exists (deleted_struct s). split; [exact Hpg|]. unfold deleted_struct. split.
  - rewrite <- (foreign_nonpad_id (fblocks s)). rewrite flac_padding_blocks. reflexivity.
  - cbn [fblocks]. rewrite existsb_app, foreign_no_vc. reflexivity.
Qed.

(* deleting again changes nothing *)
Theorem delete_twice f f' : flac_wf f = true -> flac_delete f = Ok f' -> flac_delete f' = Ok f'.
Proof.
  intros Hwf Hd. destruct (wf_parse f Hwf) as (s & Hp & Hw). destruct (delete_spec f s Hp Hw) as [H1 H2].
  destruct (existsb is_vcb (fblocks s)) eqn:E.
  - destruct (H1 eq_refl) as (g & Hg & Hpg & _). rewrite Hd in Hg. inversion Hg; subst g.
    destruct (delete_spec f' _ Hpg (struct_wf_deleted s Hw)) as [_ H2'].
    apply H2'. cbn [deleted_struct fblocks]. rewrite existsb_app, foreign_no_vc. reflexivity.
  - rewrite (H2 eq_refl) in Hd. inversion Hd; subst f'. apply H2. reflexivity.
Qed.

(* length accounting *)
Lemma extent_split bs : blocks_extent bs =
  blocks_extent (foreign_blocks bs) + blocks_extent (filter is_vcb bs) + blocks_extent (filter is_pad bs).
Proof.
  unfold blocks_extent, foreign_blocks. induction bs as [|b l IH]; cbn [filter fold_right]; [reflexivity|].
  destruct (is_vcb b) eqn:Ev; cbn [negb andb fold_right].
  - rewrite (vcb_not_pad b Ev). lia.
  - destruct (is_pad b) eqn:Ep; cbn [negb fold_right]; lia.
Qed.
Theorem delete_size f s f' : flac_parse f = Ok s -> struct_wf s = true -> existsb is_vcb (fblocks s) = true ->
  flac_delete f = Ok f' ->
  zlen f' = zlen f - blocks_extent (filter is_vcb (fblocks s)) - blocks_extent (filter is_pad (fblocks s)) + 4.
Proof.
  intros Hp Hw E Hd. destruct (delete_spec f s Hp Hw) as [H1 _].
  destruct (H1 E) as (g & Hg & _ & Hlg). rewrite Hd in Hg. injection Hg as Hgg. rewrite <- Hgg in Hlg. clear Hgg g.
  destruct (parse_inv f s Hp) as (Hl & _). fold (layout (fprefix s) (fblocks s) (faudio s)) in Hl.
  assert (Hz : zlen f = zlen (fprefix s) + 4 + blocks_extent (fblocks s) + zlen (faudio s))
    by (rewrite Hl at 1; apply zlen_layout).
  rewrite Hlg, Hz, zlen_layout. cbn [deleted_struct fblocks].
  rewrite blocks_extent_app, blocks_extent_pad. rewrite (extent_split (fblocks s)). lia.
Qed.

(* ------------------------------------------------------------------ C03 over histories *)
Lemma step_wf f o : flac_wf f = true -> flac_wf (flac_step f o) = true.
Proof.
  intros Hwf. destruct o as [t cb|]; cbn [flac_step].
  - destruct (flac_save f t (mkOpts cb false)) as [f'|] eqn:E; [|exact Hwf]. apply (save_wf f t (mkOpts cb false) f' Hwf eq_refl E).
  - destruct (flac_delete f) as [f'|] eqn:E; [|exact Hwf]. apply (delete_wf f f' Hwf E).
Qed.
Theorem history_wf ops : forall f, flac_wf f = true -> flac_wf (fold_left flac_step ops f) = true.
Proof. induction ops as [|o ops IH]; intros f H; cbn [fold_left]; [exact H|]. apply IH. apply step_wf. exact H. Qed.

Definition preserved (f f' : list Z) : Prop :=
  exists s s', flac_parse f = Ok s /\ flac_parse f' = Ok s' /\ same_foreign s s'.
Lemma step_preserved f o : flac_wf f = true -> preserved f (flac_step f o).
Proof.
  intros Hwf. destruct (wf_parse f Hwf) as (s & Hp & Hw). unfold preserved.
  assert (Hrefl : exists s0 s', flac_parse f = Ok s0 /\ flac_parse f = Ok s' /\ same_foreign s0 s')
    by (exists s, s; split; [exact Hp|split; [exact Hp|apply same_foreign_refl]]).
  destruct o as [t cb|]; cbn [flac_step].
  - destruct (flac_save f t (mkOpts cb false)) as [f'|] eqn:E; [|exact Hrefl].
    destruct (save_foreign f s t (mkOpts cb false) f' Hp Hw eq_refl E) as (s' & Hp' & Hsf). exists s, s'. split; [exact Hp|split; [exact Hp'|exact Hsf]].
  - destruct (flac_delete f) as [f'|] eqn:E; [|exact Hrefl].
    destruct (delete_foreign f s f' Hp Hw E) as (s' & Hp' & Hsf). exists s, s'. split; [exact Hp|split; [exact Hp'|exact Hsf]].
Qed.
Theorem history_preserved ops : forall f, flac_wf f = true -> preserved f (fold_left flac_step ops f).
Proof.
  induction ops as [|o ops IH]; intros f Hwf; cbn [fold_left].
  - destruct (wf_parse f Hwf) as (s & Hp & Hw). exists s, s. split; [exact Hp|split; [exact Hp|apply same_foreign_refl]].
  - destruct (step_preserved f o Hwf) as (s & s1 & Hp & Hp1 & H1).
    destruct (IH _ (step_wf f o Hwf)) as (s1' & s2 & Hp1' & Hp2 & H2).
    rewrite Hp1 in Hp1'. inversion Hp1'; subst s1'.
    exists s, s2. split; [exact Hp|]. split; [exact Hp2|]. eapply same_foreign_trans; eassumption.
Qed.

(* ------------------------------------------------------------------ C09: sizes *)
(* the callback's answer equals info.padding (>= 0, representable): nothing outside the metadata region moves *)
Theorem save_keep f s t o f' : flac_parse f = Ok s -> struct_wf s = true -> o_deleteid3 o = false ->
  flac_save f t o = Ok f' ->
  _get_padding (o_cb o) (info_padding s t) (zlen (faudio s)) = info_padding s t -> 0 <= info_padding s t <= MAXSZ ->
  zlen f' = zlen f /\
  ztake (zlen (fprefix s) + 4) f' = ztake (zlen (fprefix s) + 4) f /\
  zdrop (zlen f - zlen (faudio s)) f' = zdrop (zlen f - zlen (faudio s)) f.
Proof.
  intros Hp Hw Hd Hs Hcb Hr. destruct (save_size f s t o f' Hp Hw Hd Hs) as (Hz & Ht & Hd1 & Hd2).
  rewrite Hcb in Hz. assert (Hlen : zlen f' = zlen f) by lia.
  split; [exact Hlen|]. split; [exact Ht|]. rewrite Hd2. rewrite <- Hlen. exact Hd1.
Qed.

Theorem save_no_callback f t d : flac_save f t (mkOpts None d) = flac_save f t (mkOpts (Some get_default_padding) d).
Proof. reflexivity. Qed.

Lemma audio_len_nonneg (s : flac) : 0 <= zlen (faudio s). Proof. apply zlen_nonneg. Qed.

(* default policy, edit fitting into existing padding of at most 1 KiB: no resize *)
Theorem save_fits_moderate f s t f' : flac_parse f = Ok s -> struct_wf s = true ->
  flac_save f t (mkOpts None false) = Ok f' -> 0 <= info_padding s t <= 1024 ->
  zlen f' = zlen f /\
  ztake (zlen (fprefix s) + 4) f' = ztake (zlen (fprefix s) + 4) f /\
  zdrop (zlen f - zlen (faudio s)) f' = zdrop (zlen f - zlen (faudio s)) f.
Proof.
  intros Hp Hw Hs Hr. apply (save_keep f s t (mkOpts None false) f' Hp Hw eq_refl Hs).
  - cbn [o_cb _get_padding]. apply default_keeps_moderate; [apply audio_len_nonneg|exact Hr].
  - unfold MAXSZ. lia.
Qed.

(* ------------------------------------------------------------------ C07: lossless *)
Theorem resave_lossless f t o f' : flac_wf f = true -> o_deleteid3 o = false -> flac_load f = Ok (Some t) ->
  flac_save f t o = Ok f' ->
  flac_load f' = flac_load f /\ preserved f f'.
Proof.
  intros Hwf Hd Hl Hs. split; [rewrite Hl; apply (save_load f t o f' Hwf Hd Hs)|].
  destruct (wf_parse f Hwf) as (s & Hp & Hw). destruct (save_foreign f s t o f' Hp Hw Hd Hs) as (s' & Hp' & Hsf).
  exists s, s'. split; [exact Hp|split; [exact Hp'|exact Hsf]].
Qed.
