(* __save_new on a well-formed file without moov.udta.meta.ilst: [udta]meta(hdlr, ilst, free) is inserted at the data start of
   moov.udta (or of moov).  The region is empty (old = 0); ancestors are moov [, udta]. *)
From Coq Require Import ZArith List Bool Lia.
Import ListNotations.
Require Import Base.Py Base.ZList Model.Splice Model.Fam_mp4 Proofs.Splice_lemmas
  Proofs.Fam_mp4_bytes Proofs.Fam_mp4_tree Proofs.Fam_mp4_parse Proofs.Fam_mp4_steps Proofs.Fam_mp4_agree Proofs.Fam_mp4_path
  Proofs.Fam_mp4_lists Proofs.Fam_mp4_surgery Proofs.Fam_mp4_shift Proofs.Fam_mp4_existing.
Open Scope Z_scope.

Notation new_insert := mp4_new_insert.
Notation insert_path := mp4_insert_path.

Lemma save_new_unfold f atoms ilst_data cb f' :
  mp4_save_new f atoms ilst_data cb = Ok f' ->
  exists path last rest, insert_path atoms = Some path /\ rev path = last :: rest /\
    let off := ma_off last + ma_hdr last in
    let data := new_insert cb f last ilst_data in
    off <= zlen f /\
    exists f2, mp4_update_parents (zlen data) (splice f off 0 data) (map ma_off path) = Ok f2 /\
               mp4_update_offsets atoms (zlen data) (off - 1) f2 = Ok f'.
Proof.
  unfold mp4_save_new. destruct (mp4_insert_path atoms) as [path|]; [|discriminate].
  destruct (rev path) as [|last rest] eqn:Er; [discriminate|]. cbv zeta.
  destruct (ma_off last + ma_hdr last >? zlen f) eqn:E; [discriminate|].
  destruct (mp4_update_parents (zlen (mp4_new_insert cb f last ilst_data))
              (splice f (ma_off last + ma_hdr last) 0 (mp4_new_insert cb f last ilst_data)) (map ma_off path)) as [f2|] eqn:E2; [|discriminate].
  intros H. exists path, last, rest. split; [reflexivity|]. split; [exact Er|]. split; [lia|].
  exists f2. auto.
Qed.

(* the two shapes of the insertion path *)
Lemma insert_path_cases atoms path : insert_path atoms = Some path ->
  (exists moov udta km, path = [moov; udta] /\ mp4_child N_moov atoms = Some moov /\ ma_kids moov = Some km /\
                        mp4_child N_udta km = Some udta) \/
  (exists moov, path = [moov] /\ mp4_child N_moov atoms = Some moov).
Proof.
  unfold mp4_insert_path. cbn [mp4_path].
  destruct (mp4_child N_moov atoms) as [moov|] eqn:E1; [|discriminate].
  destruct (ma_kids moov) as [km|] eqn:K1.
  - destruct (mp4_child N_udta km) as [udta|] eqn:E2.
    + intros H; inversion H; subst. left. exists moov, udta, km. auto.
    + intros H; inversion H; subst. right. exists moov. auto.
  - intros H; inversion H; subst. right. exists moov. auto.
Qed.

Section NewCase.
Variables (f : list Z) (atoms : list mp4_atom).
Hypothesis Hwf : mp4_forest_ok f true atoms 0 (zlen f) = true.
Hypothesis Htab : mp4_tables_ok f atoms = true.
Variables (path : list mp4_atom) (last : mp4_atom) (rest : list mp4_atom).
Hypothesis Hpath : insert_path atoms = Some path.
Hypothesis Hlast : rev path = last :: rest.
Let off := ma_off last + ma_hdr last.
(* __update_offsets is called with offset - 1: an offset table (or a moof a tfhd points at) that starts exactly at the
   insertion point - possible when the container is empty - moves with everything else behind the new atom *)

Lemma path_facts :
  In last path /\ (ma_name last = N_moov \/ ma_name last = N_udta) /\
  Forall (anc_ok atoms off) path /\ NoDup path.
Proof.
  destruct (insert_path_cases atoms path Hpath) as [(moov & udta & km & -> & C1 & K1 & C2)|(moov & -> & C1)].
  - cbn in Hlast. inversion Hlast; subst last rest.
    destruct (child_split _ _ _ C1) as (T1 & T2 & E1 & N1 & _). destruct (child_split _ _ _ C2) as (M1 & M2 & E2 & N2 & _).
    subst atoms km. pose proof (forest_ok_split _ _ _ _ _ _ _ Hwf) as (_ & Hm & _).
    destruct (atom_ok_kids _ _ _ _ Hm K1) as (_ & Hk1). pose proof (forest_ok_split _ _ _ _ _ _ _ Hk1) as (F1 & Hu & _).
    assert (Im : In moov (mp4_flat (T1 ++ moov :: T2))) by (apply in_flat_self; apply in_or_app; right; left; reflexivity).
    assert (Iu : In udta (mp4_flat (T1 ++ moov :: T2))).
    { eapply in_flat_kids; [|exact K1|]; [apply in_or_app; right; left; reflexivity|].
      apply in_flat_self. apply in_or_app. right; left; reflexivity. }
    pose proof (atom_ok_len _ _ _ Hm). pose proof (atom_ok_len _ _ _ Hu). pose proof (forest_ok_le _ _ _ _ _ F1).
    pose proof (skip_nonneg (ma_name moov)).
    assert (Su : mp4_skip (ma_name udta) = 0) by (rewrite N2; reflexivity).
    destruct (proj1 (atom_ok_kids_iff _ _ _ Hu)) as (ku & Ku); [rewrite N2; reflexivity|].
    split; [right; left; reflexivity|]. split; [right; exact N2|]. split.
    + unfold anc_ok, off. repeat constructor; eauto; lia.
    + constructor; [cbn; intros [C|[]]; rewrite C in N2; rewrite N1 in N2; discriminate|]. constructor; [cbn; tauto|constructor].
  - cbn in Hlast. inversion Hlast; subst last rest.
    destruct (child_split _ _ _ C1) as (T1 & T2 & E1 & N1 & _). subst atoms.
    pose proof (forest_ok_split _ _ _ _ _ _ _ Hwf) as (_ & Hm & _).
    assert (Im : In moov (mp4_flat (T1 ++ moov :: T2))) by (apply in_flat_self; apply in_or_app; right; left; reflexivity).
    assert (Sm : mp4_skip (ma_name moov) = 0) by (rewrite N1; reflexivity).
    destruct (proj1 (atom_ok_kids_iff _ _ _ Hm)) as (km & Km); [rewrite N1; reflexivity|].
    split; [left; reflexivity|]. split; [left; exact N1|]. split.
    + unfold anc_ok, off. repeat constructor; eauto; lia.
    + constructor; [cbn; tauto|constructor].
Qed.

Lemma last_facts : In last (mp4_flat atoms) /\ (exists K, ma_kids last = Some K) /\ mp4_skip (ma_name last) = 0 /\
                   0 <= ma_off last /\ 0 <= off <= zlen f.
Proof.
  destruct path_facts as (Hin & Hn & HA & _). rewrite Forall_forall in HA. destruct (HA last Hin) as (H1 & H2 & H3).
  destruct (flat_member_ok f atoms Hwf last H1) as (top & Hok). pose proof (atom_ok_len _ _ _ Hok).
  repeat split; auto; try (unfold off; lia). destruct Hn as [-> | ->]; reflexivity.
Qed.

Lemma new_placed : Forall (placed off 0 (off - 1)) (mp4_stco_list atoms ++ mp4_co64_list atoms ++ mp4_tfhd_list atoms).
Proof.
  apply Forall_forall. intros T HT. destruct last_facts as (Hl & (K & HK) & Hs & H0 & Hoff).
  assert (HTin : In T (mp4_flat atoms) /\ mp4_is_container (ma_name T) = false).
  { apply in_app_or in HT. destruct HT as [HT|HT]; [|apply in_app_or in HT; destruct HT as [HT|HT]].
    - destruct (stco_in atoms T HT) as (H1 & H2). split; [exact H1|]. rewrite H2. reflexivity.
    - destruct (co64_in atoms T HT) as (H1 & H2). split; [exact H1|]. rewrite H2. reflexivity.
    - destruct (tfhd_in atoms T HT) as (H1 & H2). split; [exact H1|]. rewrite H2. reflexivity. }
  destruct HTin as (HTin & Hnc).
  destruct (flat_member_ok f atoms Hwf T HTin) as (top & Hok). pose proof (atom_ok_len _ _ _ Hok) as LT.
  assert (KT : ma_kids T = None).
  { destruct (ma_kids T) as [ks|] eqn:E; [|reflexivity]. destruct (atom_ok_kids _ _ _ _ Hok E) as (C & _). congruence. }
  destruct (segs_disjoint _ _ _ _ _ T last Hwf HTin Hl) as [E|D]; [subst; congruence|].
  assert (HsL : s_lo (seg_of last) = ma_off last /\ s_hi (seg_of last) = off)
    by (unfold seg_of, s_lo, s_hi, off; rewrite HK, Hs; split; cbn; lia).
  assert (HsT : s_lo (seg_of T) = ma_off T /\ s_hi (seg_of T) = ma_off T + ma_len T)
    by (unfold seg_of, s_lo, s_hi; rewrite KT; split; reflexivity).
  unfold placed. destruct (flat_member_ok f atoms Hwf last Hl) as (top' & Hlok).
  pose proof (atom_ok_len _ _ _ Hlok). unfold off in *. lia.
Qed.

Variables (data f2 f' : list Z).
Hypothesis Hrun1 : mp4_update_parents (zlen data - 0) (splice f off 0 data) (map ma_off path) = Ok f2.
Hypothesis Hrun2 : mp4_update_offsets atoms (zlen data - 0) (off - 1) f2 = Ok f'.

Definition new_result :=
  surgery_result f atoms Hwf Htab off 0 data (proj1 (proj2 (proj2 (proj2 (proj2 last_facts)))))
    (Z.le_refl 0) ltac:(pose proof last_facts; lia) (off - 1) (Z.le_refl _) new_placed path
    (proj1 (proj2 (proj2 path_facts))) (proj2 (proj2 (proj2 path_facts))) f2 f' Hrun1 Hrun2.

Lemma new_leaf_kept L : In L (mp4_flat atoms) -> ma_kids L = None -> is_table_name L = false ->
  (ma_off L + ma_len L <= off \/ off <= ma_off L) ->
  agree f (ma_off L) f' (mv off 0 data (ma_off L)) (ma_len L).
Proof.
  intros HL KL NL Hpos.
  apply (leaf_kept f atoms Hwf Htab off 0 data (proj1 (proj2 (proj2 (proj2 (proj2 last_facts))))) (Z.le_refl 0)
           ltac:(pose proof last_facts; lia) (off - 1) (Z.le_refl _) new_placed path
           (proj1 (proj2 (proj2 path_facts))) (proj2 (proj2 (proj2 path_facts))) f2 f' Hrun1 Hrun2 L HL KL).
  - intros HT. unfold all_tabs in HT. unfold is_table_name, mp4_named in NL. apply in_app_or in HT.
    destruct HT as [HT|HT]; [destruct (stco_in atoms L HT) as (_ & E); rewrite E in NL; discriminate|].
    apply in_app_or in HT. destruct HT as [HT|HT]; [destruct (co64_in atoms L HT) as (_ & E); rewrite E in NL; discriminate|].
    destruct (tfhd_in atoms L HT) as (_ & E); rewrite E in NL; discriminate.
  - unfold clear_of. lia.
Qed.
End NewCase.
