(* The splice skeleton: what it preserves (C02/C03/C09), and that the monadic program over the
   regenerated resize_bytes computes it (from the C11 theorems). *)
From Coq Require Import ZArith List Bool Lia.
Import ListNotations.
Require Import Base.Py Base.ZList Base.FileModel Gen.Gen_util Model.Splice
  Proofs.FileLemmas Proofs.C11_bytes.
Open Scope Z_scope.

Lemma splice_len f off old data : 0 <= off -> 0 <= old -> off + old <= zlen f ->
  zlen (splice f off old data) = zlen f + zlen data - old.
Proof.
  intros. unfold splice. rewrite !zlen_app, zlen_ztake, zlen_zdrop by lia. lia.
Qed.

(* bytes before the region stay where they are *)
Lemma splice_prefix f off old data : 0 <= off <= zlen f ->
  ztake off (splice f off old data) = ztake off f.
Proof.
  intros. unfold splice. rewrite ztake_app_l by (rewrite zlen_ztake by lia; lia).
  apply ztake_all. rewrite zlen_ztake by lia. lia.
Qed.

(* bytes after the region keep their content and order, shifted by the size change *)
Lemma splice_suffix f off old data : 0 <= off -> 0 <= old -> off + old <= zlen f ->
  zdrop (off + zlen data) (splice f off old data) = zdrop (off + old) f.
Proof.
  intros. unfold splice. pose proof (zlen_nonneg data).
  rewrite zdrop_app_r by (rewrite zlen_ztake by lia; lia).
  rewrite zlen_ztake by lia. replace (off + zlen data - Z.min off (zlen f)) with (zlen data) by lia.
  apply zdrop_app_exact.
Qed.

Lemma splice_region f off old data : 0 <= off <= zlen f ->
  ztake (zlen data) (zdrop off (splice f off old data)) = data.
Proof.
  intros. unfold splice.
  rewrite zdrop_app_r by (rewrite zlen_ztake by lia; lia).
  rewrite zlen_ztake by lia. replace (off - Z.min off (zlen f)) with 0 by lia.
  rewrite zdrop_0. apply ztake_app_exact.
Qed.

(* byte-wise form of the frame property: every byte outside the region survives at its (shifted) offset *)
Lemma splice_frame f off old data i : 0 <= off -> 0 <= old -> off + old <= zlen f -> 0 <= i < zlen f ->
  i < off \/ off + old <= i ->
  znth (if i <? off then i else i + zlen data - old) (splice f off old data) = znth i f.
Proof.
  intros Ho Hold Hfit Hi Hout. pose proof (zlen_nonneg data). unfold splice.
  destruct (i <? off) eqn:E.
  - rewrite znth_app by lia. rewrite zlen_ztake by lia. bset (i <? Z.min off (zlen f)) true.
    apply znth_ztake. lia.
  - rewrite znth_app by lia. rewrite zlen_ztake by lia.
    bset (i + zlen data - old <? Z.min off (zlen f)) false.
    rewrite znth_app by lia. bset (i + zlen data - old - Z.min off (zlen f) <? zlen data) false.
    rewrite znth_zdrop by lia. f_equal. lia.
Qed.

(* same size: nothing outside the region moves at all (C09: returning info.padding) *)
Lemma splice_same_size f off data : 0 <= off -> off + zlen data <= zlen f ->
  zlen (splice f off (zlen data) data) = zlen f /\
  ztake off (splice f off (zlen data) data) = ztake off f /\
  zdrop (off + zlen data) (splice f off (zlen data) data) = zdrop (off + zlen data) f.
Proof.
  intros. pose proof (zlen_nonneg data).
  split; [rewrite splice_len by lia; lia|]. split; [apply splice_prefix; lia|].
  apply splice_suffix; lia.
Qed.

Section Prog.
Variables (real : bool) (part : Z) (BUF : Z).
Hypothesis HBUF : 1 <= BUF.
Notation cf := (benign real part).

Lemma resize_bytes_full f p old new off :
  0 <= old -> 0 <= new -> 0 <= off -> off + old <= zlen f ->
  exists d' p', resize_bytes BUF old new off (mkF f p cf) = (Ok tt, mkF d' p' cf) /\
    zlen d' = zlen f + new - old /\
    ztake (off + Z.min old new) d' = ztake (off + Z.min old new) f /\
    zdrop (off + new) d' = zdrop (off + old) f.
Proof.
  intros H1 H2 H3 H4.
  destruct (resize_bytes_spec real part BUF HBUF f p old new off H1 H2 H3 H4) as (A & B & C & D & E).
  destruct (resize_bytes BUF old new off (mkF f p cf)) as [r [d' p' c']]. cbn in *. subst.
  exists d', p'. repeat split; assumption.
Qed.

(* the monadic program over the regenerated resize_bytes computes the pure splice *)
Theorem splice_prog_spec f p off old data :
  0 <= off -> 0 <= old -> off + old <= zlen f ->
  fst (splice_prog BUF off old data (mkF f p cf)) = Ok tt /\
  fdata (snd (splice_prog BUF off old data (mkF f p cf))) = splice f off old data.
Proof.
  intros Ho Hold Hfit. pose proof (zlen_nonneg data) as Hd.
  destruct (resize_bytes_full f p old (zlen data) off Hold Hd Ho Hfit) as (d' & p' & E & Hl & Hp & Hs).
  assert (Hrun : splice_prog BUF off old data (mkF f p cf) = (Ok tt, mkF (write_at d' off data) (off + zlen data) cf)).
  { unfold splice_prog. unfold bind at 1. rewrite E. rewrite step_seek_abs by lia. apply run_write. }
  rewrite Hrun. cbn [fst snd fdata]. split; [reflexivity|].
  rewrite write_at_inside by lia. unfold splice. f_equal.
  - assert (Hpre : ztake off d' = ztake off f).
    { assert (ztake off (ztake (off + Z.min old (zlen data)) d') = ztake off (ztake (off + Z.min old (zlen data)) f)) by (rewrite Hp; reflexivity).
      rewrite !ztake_ztake in H. replace (Z.min off (off + Z.min old (zlen data))) with off in H by lia. exact H. }
    exact Hpre.
  - f_equal. exact Hs.
Qed.
End Prog.
